(* Derivation relations of the June-2018 grammar for executable documents
   (spec section 2.2 - 2.12), over token sequences, carrying the tree the
   derivation denotes including every span.  The two extensions the library
   documents are productions here: constant directives on variable definitions
   and (flag experimental_fragment_variables) variable definitions on fragment
   definitions.  Nothing here refers to the parser model. *)
From PyGql Require Export Spec.GrammarSpec.

Local Open Scope string_scope.

(* X* as a concatenation of derivations of X *)
Inductive D_list {A} (R : list ptok -> A -> Prop) : list ptok -> list A -> Prop :=
| DL_nil : D_list R [] []
| DL_cons ts x ts' xs : R ts x -> D_list R ts' xs -> D_list R (ts ++ ts') (x :: xs).

Section ExecDerivations.
Variable nl : bool.      (* no_location *)
Variable fv : bool.      (* experimental_fragment_variables *)

Notation loc_of := (mkloc nl).
Notation nm_of := (name_node nl).

Definition is_word (w : string) (t : ptok) : Prop := tk t = KName /\ tval t = str_of_string w.

(* Argument[Const] : Name : Value[?Const] *)
Inductive D_argument (c : bool) : list ptok -> argument -> Prop :=
| DArg n colon vts v :
    tk n = KName -> tk colon = KColon -> D_value nl c vts v ->
    D_argument c (n :: colon :: vts) (Arg (nm_of n) v (loc_of (n :: colon :: vts))).

(* Arguments[Const]? : ( Argument[?Const]+ ) *)
Inductive D_arguments (c : bool) : list ptok -> list argument -> Prop :=
| DArgs_none : D_arguments c [] []
| DArgs_some o body cl args :
    tk o = KParenO -> tk cl = KParenC -> D_list (D_argument c) body args -> args <> [] ->
    D_arguments c (o :: body ++ [cl]) args.

(* Directive[Const] : @ Name Arguments[?Const]?      Directives[Const]? : Directive+ *)
Inductive D_directive (c : bool) : list ptok -> directive -> Prop :=
| DDir a n ats args :
    tk a = KAt -> tk n = KName -> D_arguments c ats args ->
    D_directive c (a :: n :: ats) (Dir (nm_of n) args (loc_of (a :: n :: ats))).

Definition D_directives (c : bool) : list ptok -> list directive -> Prop :=
  D_list (D_directive c).

(* Alias? : Name :        TypeCondition? : on NamedType *)
Inductive D_alias : list ptok -> option name -> Prop :=
| DAl_none : D_alias [] None
| DAl_some a colon : tk a = KName -> tk colon = KColon -> D_alias [a; colon] (Some (nm_of a)).

Inductive D_type_condition : list ptok -> option ty -> Prop :=
| DTc_none : D_type_condition [] None
| DTc_some o n :
    is_word "on" o -> tk n = KName ->
    D_type_condition [o; n] (Some (TNamed (nm_of n) (loc_of [n]))).

(* Selection : Field | FragmentSpread | InlineFragment
   Field : Alias? Name Arguments? Directives? SelectionSet?
   FragmentSpread : ... FragmentName Directives?       FragmentName : Name but not on
   InlineFragment : ... TypeCondition? Directives? SelectionSet
   SelectionSet : { Selection+ } *)
Inductive D_selection : list ptok -> selection -> Prop :=
| DS_field ats al n argts args dts dirs ssts sl sub :
    D_alias ats al -> tk n = KName -> D_arguments false argts args ->
    D_directives false dts dirs -> D_opt_selection_set ssts sl sub ->
    D_selection (ats ++ n :: argts ++ dts ++ ssts)
      (SField al (nm_of n) args dirs sl sub (loc_of (ats ++ n :: argts ++ dts ++ ssts)))
| DS_spread e n dts dirs :
    tk e = KEllip -> tk n = KName -> tval n <> str_of_string "on" -> D_directives false dts dirs ->
    D_selection (e :: n :: dts) (SSpread (nm_of n) dirs (loc_of (e :: n :: dts)))
| DS_inline e tcts tc dts dirs o body cl sub :
    tk e = KEllip -> D_type_condition tcts tc -> D_directives false dts dirs ->
    tk o = KCurlyO -> tk cl = KCurlyC -> D_selections body sub -> sub <> [] ->
    D_selection (e :: tcts ++ dts ++ o :: body ++ [cl])
      (SInline tc dirs (loc_of (o :: body ++ [cl])) sub
               (loc_of (e :: tcts ++ dts ++ o :: body ++ [cl])))
with D_opt_selection_set : list ptok -> option loc -> list selection -> Prop :=
| DOS_none : D_opt_selection_set [] None []
| DOS_some o body cl sub :
    tk o = KCurlyO -> tk cl = KCurlyC -> D_selections body sub -> sub <> [] ->
    D_opt_selection_set (o :: body ++ [cl]) (Some (loc_of (o :: body ++ [cl]))) sub
with D_selections : list ptok -> list selection -> Prop :=
| DSs_nil : D_selections [] []
| DSs_cons ts s ts' ss : D_selection ts s -> D_selections ts' ss -> D_selections (ts ++ ts') (s :: ss).

Scheme D_selection_mut := Minimality for D_selection Sort Prop
  with D_opt_selection_set_mut := Minimality for D_opt_selection_set Sort Prop
  with D_selections_mut := Minimality for D_selections Sort Prop.
Combined Scheme D_selection_mutind from D_selection_mut, D_opt_selection_set_mut, D_selections_mut.

Inductive D_selection_set : list ptok -> list selection -> loc -> Prop :=
| DSS o body cl sub :
    tk o = KCurlyO -> tk cl = KCurlyC -> D_selections body sub -> sub <> [] ->
    D_selection_set (o :: body ++ [cl]) sub (loc_of (o :: body ++ [cl])).

(* VariableDefinition : Variable : Type DefaultValue? Directives[Const]?
   DefaultValue : = Value[Const]          VariableDefinitions? : ( VariableDefinition+ ) *)
Inductive D_default : list ptok -> option value -> Prop :=
| DDef_none : D_default [] None
| DDef_some eq vts v : tk eq = KEquals -> D_value nl true vts v -> D_default (eq :: vts) (Some v).

Inductive D_variable_definition : list ptok -> var_def -> Prop :=
| DVd d n colon tyts t defts dv dts dirs :
    tk d = KDollar -> tk n = KName -> tk colon = KColon -> D_type nl tyts t ->
    D_default defts dv -> D_directives true dts dirs ->
    D_variable_definition (d :: n :: colon :: tyts ++ defts ++ dts)
      (VarDef (nm_of n) (loc_of [d; n]) t dv dirs (loc_of (d :: n :: colon :: tyts ++ defts ++ dts))).

Inductive D_variable_definitions : list ptok -> list var_def -> Prop :=
| DVds_none : D_variable_definitions [] []
| DVds_some o body cl vds :
    tk o = KParenO -> tk cl = KParenC -> D_list D_variable_definition body vds -> vds <> [] ->
    D_variable_definitions (o :: body ++ [cl]) vds.

(* OperationDefinition : SelectionSet
                       | OperationType Name? VariableDefinitions? Directives? SelectionSet *)
Inductive D_operation_type : ptok -> op_kind -> Prop :=
| DOt_query t : is_word "query" t -> D_operation_type t OpQuery
| DOt_mutation t : is_word "mutation" t -> D_operation_type t OpMutation
| DOt_subscription t : is_word "subscription" t -> D_operation_type t OpSubscription.

Inductive D_opt_name : list ptok -> option name -> Prop :=
| DOn_none : D_opt_name [] None
| DOn_some n : tk n = KName -> D_opt_name [n] (Some (nm_of n)).

Inductive D_operation : list ptok -> definition -> Prop :=
| DOp_short ts sels l :
    D_selection_set ts sels l -> D_operation ts (DOperation OpQuery None [] [] l sels l)
| DOp_full k kind nts nm vdts vds dts dirs ssts sels ssl :
    D_operation_type k kind -> D_opt_name nts nm -> D_variable_definitions vdts vds ->
    D_directives false dts dirs -> D_selection_set ssts sels ssl ->
    D_operation (k :: nts ++ vdts ++ dts ++ ssts)
      (DOperation kind nm vds dirs ssl sels (loc_of (k :: nts ++ vdts ++ dts ++ ssts))).

(* FragmentDefinition : fragment FragmentName [VariableDefinitions?] TypeCondition
                        Directives? SelectionSet *)
Inductive D_fragment : list ptok -> definition -> Prop :=
| DFrag f n vdts vds o tcn dts dirs ssts sels ssl :
    is_word "fragment" f -> tk n = KName -> tval n <> str_of_string "on" ->
    (if fv then D_variable_definitions vdts vds else vdts = [] /\ vds = []) ->
    is_word "on" o -> tk tcn = KName ->
    D_directives false dts dirs -> D_selection_set ssts sels ssl ->
    D_fragment (f :: n :: vdts ++ o :: tcn :: dts ++ ssts)
      (DFragment (nm_of n) vds (TNamed (nm_of tcn) (loc_of [tcn])) dirs ssl sels
                 (loc_of (f :: n :: vdts ++ o :: tcn :: dts ++ ssts))).

(* ExecutableDefinition : OperationDefinition | FragmentDefinition *)
Inductive D_executable_definition : list ptok -> definition -> Prop :=
| DEx_operation ts d : D_operation ts d -> D_executable_definition ts d
| DEx_fragment ts d : D_fragment ts d -> D_executable_definition ts d.

(* Document : Definition+  (here: ExecutableDefinition+), between SOF and EOF *)
Inductive D_document_exec : list ptok -> document -> Prop :=
| DDoc sof body eof defs :
    tk sof = KSOF -> tk eof = KEOF -> D_list D_executable_definition body defs -> defs <> [] ->
    D_document_exec (sof :: body ++ [eof]) (Doc defs (loc_of (sof :: body ++ [eof]))).

End ExecDerivations.
