(* Derivation relations of the June-2018 grammar for type-system definitions and
   extensions (spec section 3), and for complete documents, over token
   sequences, carrying the tree including every span.  Nothing here refers to
   the parser model. *)
From PyGql Require Export Spec.DocGrammarSpec.

Local Open Scope string_scope.

(* X (delim X)*  *)
Inductive D_sep_list {A} (R : list ptok -> A -> Prop) (delim : tkind) : list ptok -> list A -> Prop :=
| DSep_one ts x : R ts x -> D_sep_list R delim ts [x]
| DSep_cons ts x d ts' xs :
    R ts x -> tk d = delim -> D_sep_list R delim ts' xs ->
    D_sep_list R delim (ts ++ d :: ts') (x :: xs).

(* an optional leading delimiter *)
Inductive D_opt_lead (delim : tkind) : list ptok -> Prop :=
| DLead_none : D_opt_lead delim []
| DLead_some d : tk d = delim -> D_opt_lead delim [d].

(* ( open X+ close )?  *)
Inductive D_opt_block {A} (R : list ptok -> A -> Prop) (open close : tkind) : list ptok -> list A -> Prop :=
| DOb_none : D_opt_block R open close [] []
| DOb_some o body cl xs :
    tk o = open -> tk cl = close -> D_list R body xs -> xs <> [] ->
    D_opt_block R open close (o :: body ++ [cl]) xs.

Section SdlDerivations.
Variable nl : bool.      (* no_location *)
Variable fv : bool.      (* experimental_fragment_variables *)

Notation loc_of := (mkloc nl).
Notation nm_of := (name_node nl).
Notation dirs_c := (D_directives nl true).

Definition named_type (n : ptok) : ty := TNamed (nm_of n) (loc_of [n]).

(* Description? : StringValue *)
Inductive D_description : list ptok -> option strval -> Prop :=
| DDesc_none : D_description [] None
| DDesc_string t : tk t = KString -> D_description [t] (Some (StrVal (tval t) false (loc_of [t])))
| DDesc_block t : tk t = KBlockString -> D_description [t] (Some (StrVal (tval t) true (loc_of [t]))).

(* OperationTypeDefinition : OperationType : NamedType *)
Inductive D_op_type_def : list ptok -> op_type_def -> Prop :=
| DOtd k kind colon n :
    D_operation_type k kind -> tk colon = KColon -> tk n = KName ->
    D_op_type_def [k; colon; n] (OTDef kind (named_type n) (loc_of [k; colon; n])).

(* { OperationTypeDefinition+ } *)
Inductive D_op_types : list ptok -> list op_type_def -> Prop :=
| DOts o body cl ots :
    tk o = KCurlyO -> tk cl = KCurlyC -> D_list D_op_type_def body ots -> ots <> [] ->
    D_op_types (o :: body ++ [cl]) ots.

(* InputValueDefinition : Description? Name : Type DefaultValue? Directives[Const]? *)
Inductive D_input_value : list ptok -> input_value_def -> Prop :=
| DIv dsts desc n colon tyts t defts dv dts dirs :
    D_description dsts desc -> tk n = KName -> tk colon = KColon -> D_type nl tyts t ->
    D_default nl defts dv -> dirs_c dts dirs ->
    D_input_value (dsts ++ n :: colon :: tyts ++ defts ++ dts)
      (IVDef desc (nm_of n) t dv dirs (loc_of (dsts ++ n :: colon :: tyts ++ defts ++ dts))).

(* ArgumentsDefinition? : ( InputValueDefinition+ )    InputFieldsDefinition? : { InputValueDefinition+ } *)
Definition D_args_def := D_opt_block D_input_value KParenO KParenC.
Definition D_input_fields := D_opt_block D_input_value KCurlyO KCurlyC.

(* FieldDefinition : Description? Name ArgumentsDefinition? : Type Directives[Const]? *)
Inductive D_field_def : list ptok -> field_def -> Prop :=
| DFd dsts desc n ats args colon tyts t dts dirs :
    D_description dsts desc -> tk n = KName -> D_args_def ats args -> tk colon = KColon ->
    D_type nl tyts t -> dirs_c dts dirs ->
    D_field_def (dsts ++ n :: ats ++ colon :: tyts ++ dts)
      (FDef desc (nm_of n) args t dirs (loc_of (dsts ++ n :: ats ++ colon :: tyts ++ dts))).

Definition D_fields_def := D_opt_block D_field_def KCurlyO KCurlyC.

(* ImplementsInterfaces? : implements &? NamedType ( & NamedType )*
   UnionMemberTypes? : = |? NamedType ( | NamedType )* *)
Inductive D_named_type : list ptok -> ty -> Prop :=
| DNt n : tk n = KName -> D_named_type [n] (named_type n).

Inductive D_implements : list ptok -> list ty -> Prop :=
| DImpl_none : D_implements [] []
| DImpl_some k lead ts tys :
    is_word "implements" k -> D_opt_lead KAmp lead -> D_sep_list D_named_type KAmp ts tys ->
    D_implements (k :: lead ++ ts) tys.

Inductive D_union_members : list ptok -> list ty -> Prop :=
| DUm_none : D_union_members [] []
| DUm_some eq lead ts tys :
    tk eq = KEquals -> D_opt_lead KPipe lead -> D_sep_list D_named_type KPipe ts tys ->
    D_union_members (eq :: lead ++ ts) tys.

(* EnumValueDefinition : Description? EnumValue Directives[Const]?
   EnumValue : Name but not true, false or null *)
Inductive D_enum_value : list ptok -> enum_value_def -> Prop :=
| DEv dsts desc n dts dirs :
    D_description dsts desc -> tk n = KName -> ~ is_reserved (tval n) -> dirs_c dts dirs ->
    D_enum_value (dsts ++ n :: dts) (EVDef desc (nm_of n) dirs (loc_of (dsts ++ n :: dts))).

Definition D_enum_values := D_opt_block D_enum_value KCurlyO KCurlyC.

(* DirectiveLocations : |? DirectiveLocation ( | DirectiveLocation )* *)
Definition directive_location_names : list string :=
  ["QUERY"; "MUTATION"; "SUBSCRIPTION"; "FIELD"; "FRAGMENT_DEFINITION"; "FRAGMENT_SPREAD";
   "INLINE_FRAGMENT"; "VARIABLE_DEFINITION";
   "SCHEMA"; "SCALAR"; "OBJECT"; "FIELD_DEFINITION"; "ARGUMENT_DEFINITION"; "INTERFACE";
   "UNION"; "ENUM"; "ENUM_VALUE"; "INPUT_OBJECT"; "INPUT_FIELD_DEFINITION"].

Inductive D_directive_location : list ptok -> name -> Prop :=
| DDl n : tk n = KName -> In (tval n) (map str_of_string directive_location_names) ->
          D_directive_location [n] (nm_of n).

(* TypeSystemDefinition : SchemaDefinition | TypeDefinition | DirectiveDefinition *)
Inductive D_type_system_definition : list ptok -> definition -> Prop :=
| DT_schema k dts dirs ots_ts ots :
    is_word "schema" k -> dirs_c dts dirs -> D_op_types ots_ts ots ->
    D_type_system_definition (k :: dts ++ ots_ts) (DSchema false dirs ots (loc_of (k :: dts ++ ots_ts)))
| DT_scalar dsts desc k n dts dirs :
    D_description dsts desc -> is_word "scalar" k -> tk n = KName -> dirs_c dts dirs ->
    D_type_system_definition (dsts ++ k :: n :: dts)
      (DScalar false desc (nm_of n) dirs (loc_of (dsts ++ k :: n :: dts)))
| DT_object dsts desc k n its ifs dts dirs fts fs :
    D_description dsts desc -> is_word "type" k -> tk n = KName -> D_implements its ifs ->
    dirs_c dts dirs -> D_fields_def fts fs ->
    D_type_system_definition (dsts ++ k :: n :: its ++ dts ++ fts)
      (DObject false desc (nm_of n) ifs dirs fs (loc_of (dsts ++ k :: n :: its ++ dts ++ fts)))
| DT_interface dsts desc k n dts dirs fts fs :
    D_description dsts desc -> is_word "interface" k -> tk n = KName ->
    dirs_c dts dirs -> D_fields_def fts fs ->
    D_type_system_definition (dsts ++ k :: n :: dts ++ fts)
      (DInterface false desc (nm_of n) dirs fs (loc_of (dsts ++ k :: n :: dts ++ fts)))
| DT_union dsts desc k n dts dirs mts tys :
    D_description dsts desc -> is_word "union" k -> tk n = KName ->
    dirs_c dts dirs -> D_union_members mts tys ->
    D_type_system_definition (dsts ++ k :: n :: dts ++ mts)
      (DUnion false desc (nm_of n) dirs tys (loc_of (dsts ++ k :: n :: dts ++ mts)))
| DT_enum dsts desc k n dts dirs vts vs :
    D_description dsts desc -> is_word "enum" k -> tk n = KName ->
    dirs_c dts dirs -> D_enum_values vts vs ->
    D_type_system_definition (dsts ++ k :: n :: dts ++ vts)
      (DEnum false desc (nm_of n) dirs vs (loc_of (dsts ++ k :: n :: dts ++ vts)))
| DT_input dsts desc k n dts dirs fts fs :
    D_description dsts desc -> is_word "input" k -> tk n = KName ->
    dirs_c dts dirs -> D_input_fields fts fs ->
    D_type_system_definition (dsts ++ k :: n :: dts ++ fts)
      (DInput false desc (nm_of n) dirs fs (loc_of (dsts ++ k :: n :: dts ++ fts)))
| DT_directive dsts desc k a n ats args o lead lts locs :
    D_description dsts desc -> is_word "directive" k -> tk a = KAt -> tk n = KName ->
    D_args_def ats args -> is_word "on" o -> D_opt_lead KPipe lead ->
    D_sep_list D_directive_location KPipe lts locs ->
    D_type_system_definition (dsts ++ k :: a :: n :: ats ++ o :: lead ++ lts)
      (DDirective desc (nm_of n) args locs (loc_of (dsts ++ k :: a :: n :: ats ++ o :: lead ++ lts))).

(* TypeSystemExtension : SchemaExtension | TypeExtension; each needs at least
   one of its optional parts *)
Inductive D_opt_op_types : list ptok -> list op_type_def -> Prop :=
| DOots_none : D_opt_op_types [] []
| DOots_some ts ots : D_op_types ts ots -> D_opt_op_types ts ots.

Inductive D_type_system_extension : list ptok -> definition -> Prop :=
| DE_schema e k dts dirs ots_ts ots :
    is_word "extend" e -> is_word "schema" k -> dirs_c dts dirs -> D_opt_op_types ots_ts ots ->
    ~ (dirs = [] /\ ots = []) ->
    D_type_system_extension (e :: k :: dts ++ ots_ts)
      (DSchema true dirs ots (loc_of (e :: k :: dts ++ ots_ts)))
| DE_scalar e k n dts dirs :
    is_word "extend" e -> is_word "scalar" k -> tk n = KName -> dirs_c dts dirs -> dirs <> [] ->
    D_type_system_extension (e :: k :: n :: dts) (DScalar true None (nm_of n) dirs (loc_of (e :: k :: n :: dts)))
| DE_object e k n its ifs dts dirs fts fs :
    is_word "extend" e -> is_word "type" k -> tk n = KName -> D_implements its ifs ->
    dirs_c dts dirs -> D_fields_def fts fs -> ~ (ifs = [] /\ dirs = [] /\ fs = []) ->
    D_type_system_extension (e :: k :: n :: its ++ dts ++ fts)
      (DObject true None (nm_of n) ifs dirs fs (loc_of (e :: k :: n :: its ++ dts ++ fts)))
| DE_interface e k n dts dirs fts fs :
    is_word "extend" e -> is_word "interface" k -> tk n = KName ->
    dirs_c dts dirs -> D_fields_def fts fs -> ~ (dirs = [] /\ fs = []) ->
    D_type_system_extension (e :: k :: n :: dts ++ fts)
      (DInterface true None (nm_of n) dirs fs (loc_of (e :: k :: n :: dts ++ fts)))
| DE_union e k n dts dirs mts tys :
    is_word "extend" e -> is_word "union" k -> tk n = KName ->
    dirs_c dts dirs -> D_union_members mts tys -> ~ (dirs = [] /\ tys = []) ->
    D_type_system_extension (e :: k :: n :: dts ++ mts)
      (DUnion true None (nm_of n) dirs tys (loc_of (e :: k :: n :: dts ++ mts)))
| DE_enum e k n dts dirs vts vs :
    is_word "extend" e -> is_word "enum" k -> tk n = KName ->
    dirs_c dts dirs -> D_enum_values vts vs -> ~ (dirs = [] /\ vs = []) ->
    D_type_system_extension (e :: k :: n :: dts ++ vts)
      (DEnum true None (nm_of n) dirs vs (loc_of (e :: k :: n :: dts ++ vts)))
| DE_input e k n dts dirs fts fs :
    is_word "extend" e -> is_word "input" k -> tk n = KName ->
    dirs_c dts dirs -> D_input_fields fts fs -> ~ (dirs = [] /\ fs = []) ->
    D_type_system_extension (e :: k :: n :: dts ++ fts)
      (DInput true None (nm_of n) dirs fs (loc_of (e :: k :: n :: dts ++ fts))).

(* Definition : ExecutableDefinition | TypeSystemDefinition | TypeSystemExtension
   (the latter two only when type-system definitions are enabled) *)
Inductive D_definition (ts_enabled : bool) : list ptok -> definition -> Prop :=
| DD_exec ts d : D_executable_definition nl fv ts d -> D_definition ts_enabled ts d
| DD_tsd ts d : ts_enabled = true -> D_type_system_definition ts d -> D_definition ts_enabled ts d
| DD_tse ts d : ts_enabled = true -> D_type_system_extension ts d -> D_definition ts_enabled ts d.

(* Document : Definition+ , between SOF and EOF *)
Inductive D_document (ts_enabled : bool) : list ptok -> document -> Prop :=
| DDocument sof body eof defs :
    tk sof = KSOF -> tk eof = KEOF -> D_list (D_definition ts_enabled) body defs -> defs <> [] ->
    D_document ts_enabled (sof :: body ++ [eof]) (Doc defs (loc_of (sof :: body ++ [eof]))).

End SdlDerivations.

(* The June-2018 grammar is ambiguous where a definition whose optional
   trailing { ... } block is absent is followed by a shorthand query: in
   "type T { a }" the braces could be T's fields or the next definition.  Like
   later editions of the specification ([lookahead != {]) the library reads the
   braces as part of the definition.  [D_document_la] is D_document with that
   disambiguation made explicit. *)
Definition blockless (d : definition) : Prop :=
  match d with
  | DObject _ _ _ _ _ [] _ | DInterface _ _ _ _ [] _ | DEnum _ _ _ _ [] _ | DInput _ _ _ _ [] _ => True
  | DSchema true _ [] _ => True
  | _ => False
  end.

Definition starts_with_curly (ts : list ptok) : Prop := exists t r, ts = t :: r /\ tk t = KCurlyO.

Inductive D_definitions_la (nl fv en : bool) : list ptok -> list definition -> Prop :=
| DDl_nil : D_definitions_la nl fv en [] []
| DDl_cons ts d ts' ds :
    D_definition nl fv en ts d -> (blockless d -> ~ starts_with_curly ts') ->
    D_definitions_la nl fv en ts' ds -> D_definitions_la nl fv en (ts ++ ts') (d :: ds).

Inductive D_document_la (nl fv en : bool) : list ptok -> document -> Prop :=
| DDocument_la sof body eof defs :
    tk sof = KSOF -> tk eof = KEOF -> D_definitions_la nl fv en body defs -> defs <> [] ->
    D_document_la nl fv en (sof :: body ++ [eof]) (Doc defs (mkloc nl (sof :: body ++ [eof]))).
