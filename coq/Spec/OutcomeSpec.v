(* What C01 demands of the outcome of a parse, independent of the model. *)
From PyGql Require Export Base.Str Lang.Token.
Local Open Scope N_scope.

Definition ok_or_rejected {A} (o : outcome A) : Prop :=
  match o with Ok _ | Rejected _ _ => True | OutOfFuel | Crash _ => False end.

(* s ends inside an escape sequence: ... BACKSLASH, or ... BACKSLASH u followed
   by fewer than four hexadecimal digits *)
Definition is_hex_digit (c : char) : bool :=
  ((48 <=? c) && (c <=? 57)) || ((65 <=? c) && (c <=? 70)) || ((97 <=? c) && (c <=? 102)).

Definition ends_in_truncated_escape (s : str) : Prop :=
  exists pre tl, s = pre ++ 92 :: tl /\
    (tl = [] \/ exists hs, tl = 117 :: hs /\ (length hs < 4)%nat /\ forallb is_hex_digit hs = true).

Definition position_ok (s : str) (k p : nat) : Prop :=
  (p <= length s)%nat \/
  (p = S (length s) /\ k = E_NonTerminatedString /\ ends_in_truncated_escape s).

Definition rejected_at_ok {A} (s : str) (o : outcome A) : Prop :=
  match o with Rejected k p => position_ok s k p | _ => True end.
