(* C03 -- declarative side of the printer-only part of the round trip.

   * [string_value]: the semantics of a quoted StringValue token
     (GraphQL June 2018, 2.9.4: StringCharacter, \uXXXX, EscapedCharacter).
   * [block_body] / [block_string_value]: a block string token's raw content
     (BlockStringCharacter: anything but a triple quote, with backslash +
     triple quote standing for a triple quote) and
     the BlockStringValue algorithm (lines split at LF, CR LF or CR; common
     indentation counted in space / tab only; leading and trailing blank
     lines removed; joined with LF).
   * [strip_*]: erasing source locations.
   These are written from the specification text, independently of
   Lang/Lexer.v, Lang/BlockString.v and of py-gql's lexer. *)
From PyGql Require Export Base.Str Lang.Ast.
Local Open Scope N_scope.

(* ------------------------------------------------------------------ quoted strings *)
Definition hex_val (c : N) : option N :=
  if (48 <=? c) && (c <=? 57) then Some (c - 48)
  else if (97 <=? c) && (c <=? 102) then Some (c - 87)
  else if (65 <=? c) && (c <=? 70) then Some (c - 55)
  else None.

(* EscapedCharacter :: one of  quote backslash / b f n r t *)
Definition escaped_char (e : N) : option N :=
  if e =? 34 then Some 34 else if e =? 92 then Some 92 else if e =? 47 then Some 47
  else if e =? 98 then Some 8 else if e =? 102 then Some 12 else if e =? 110 then Some 10
  else if e =? 114 then Some 13 else if e =? 116 then Some 9 else None.

(* SourceCharacter :: tab, LF, CR, U+0020 and above (as code points) *)
Definition source_char (c : N) : bool := (c =? 9) || (c =? 10) || (c =? 13) || (32 <=? c).
Definition line_terminator (c : N) : bool := (c =? 10) || (c =? 13).

Definition push (c : N) (r : option (str * str)) : option (str * str) :=
  match r with Some (v, rest) => Some (c :: v, rest) | None => None end.

(* after the opening quote: (decoded value, text after the closing quote) *)
Fixpoint string_chars (s : str) : option (str * str) :=
  match s with
  | [] => None
  | c :: rest =>
      if c =? 34 then Some ([], rest)
      else if c =? 92 then
        match rest with
        | [] => None
        | e :: rest1 =>
            if e =? 117 then
              match rest1 with
              | a :: b :: c2 :: d :: rest2 =>
                  match hex_val a, hex_val b, hex_val c2, hex_val d with
                  | Some x1, Some x2, Some x3, Some x4 =>
                      push (4096 * x1 + 256 * x2 + 16 * x3 + x4) (string_chars rest2)
                  | _, _, _, _ => None
                  end
              | _ => None
              end
            else match escaped_char e with
                 | Some x => push x (string_chars rest1)
                 | None => None
                 end
        end
      else if line_terminator c || negb (source_char c) then None
      else push c (string_chars rest)
  end.

Definition string_value (tok : str) : option (str * str) :=
  match tok with
  | c :: r => if c =? 34 then string_chars r else None
  | [] => None
  end.

(* ------------------------------------------------------------------ block strings *)
Definition q3 (a b c : N) : bool := (a =? 34) && (b =? 34) && (c =? 34).

Definition push3 (r : option (str * str)) : option (str * str) := push 34 (push 34 (push 34 r)).

(* after the opening triple quote: (raw content with escaped triple quotes
   unescaped, text after the closing triple quote) *)
Fixpoint block_body (s : str) : option (str * str) :=
  match s with
  | [] => None
  | a :: r1 =>
      match r1 with
      | b :: c :: r3 =>
          if q3 a b c then Some ([], r3)
          else if a =? 92 then
            match r3 with
            | d :: r4 => if q3 b c d then push3 (block_body r4) else push a (block_body r1)
            | [] => push a (block_body r1)
            end
          else push a (block_body r1)
      | _ => push a (block_body r1)
      end
  end.

Definition block_token (tok : str) : option (str * str) :=
  match tok with
  | a :: b :: c :: r => if q3 a b c then block_body r else None
  | _ => None
  end.

Definition is_ws (c : N) : bool := (c =? 32) || (c =? 9).

(* split at LF, CR LF, CR; always at least one line *)
Fixpoint split_lines (raw : str) : list str :=
  match raw with
  | [] => [[]]
  | c :: r =>
      if c =? 10 then [] :: split_lines r
      else if c =? 13 then
        match r with
        | d :: r' => if d =? 10 then [] :: split_lines r' else [] :: split_lines r
        | [] => [] :: split_lines r
        end
      else match split_lines r with
           | l :: ls => (c :: l) :: ls
           | [] => [[c]]
           end
  end.

Fixpoint indent_of (line : str) : nat :=
  match line with c :: r => if is_ws c then S (indent_of r) else 0 | [] => 0 end.
Definition blank (line : str) : bool := forallb is_ws line.

(* commonIndent over the given lines (the caller passes all lines but the first) *)
Fixpoint common_indent (lines : list str) : option nat :=
  match lines with
  | [] => None
  | l :: ls =>
      if blank l then common_indent ls
      else match common_indent ls with
           | Some m => Some (Nat.min (indent_of l) m)
           | None => Some (indent_of l)
           end
  end.

Fixpoint strip_front (lines : list str) : list str :=
  match lines with l :: ls => if blank l then strip_front ls else lines | [] => [] end.
Definition strip_back (lines : list str) : list str := rev (strip_front (rev lines)).

Fixpoint join_lf (lines : list str) : str :=
  match lines with
  | [] => []
  | l :: ls => match ls with [] => l | _ => l ++ 10 :: join_lf ls end
  end.

Definition block_string_value (raw : str) : str :=
  match split_lines raw with
  | [] => []
  | first :: rest =>
      let rest' := match common_indent rest with
                   | Some n => map (skipn n) rest
                   | None => rest
                   end in
      join_lf (strip_back (strip_front (first :: rest')))
  end.

(* the value of a block string token and the text after it *)
Definition block_value (tok : str) : option (str * str) :=
  match block_token tok with
  | Some (raw, rest) => Some (block_string_value raw, rest)
  | None => None
  end.

Definition all_ws (s : str) : Prop := forallb is_ws s = true.

(* ------------------------------------------------------------------ erasing locations *)
Definition strip_name (n : name) : name := Name (n_val n) None.

Fixpoint strip_ty (t : ty) : ty :=
  match t with
  | TNamed n _ => TNamed (strip_name n) None
  | TList t' _ => TList (strip_ty t') None
  | TNonNull t' _ => TNonNull (strip_ty t') None
  end.

Fixpoint strip_value (v : value) : value :=
  match v with
  | VVar n _ => VVar (strip_name n) None
  | VInt s _ => VInt s None
  | VFloat s _ => VFloat s None
  | VString s b _ => VString s b None
  | VBool b _ => VBool b None
  | VNull _ => VNull None
  | VEnum s _ => VEnum s None
  | VList vs _ => VList (map strip_value vs) None
  | VObject fs _ =>
      VObject (map (fun f => (strip_name (fst (fst f)), strip_value (snd (fst f)), None)) fs) None
  end.

Definition strip_arg (a : argument) : argument :=
  Arg (strip_name (a_name a)) (strip_value (a_val a)) None.
Definition strip_dir (d : directive) : directive :=
  Dir (strip_name (d_name d)) (map strip_arg (d_args d)) None.

Fixpoint strip_sel (s : selection) : selection :=
  match s with
  | SField al n args dirs sl sub _ =>
      SField (option_map strip_name al) (strip_name n) (map strip_arg args) (map strip_dir dirs)
             (option_map (fun _ => None) sl) (map strip_sel sub) None
  | SSpread n dirs _ => SSpread (strip_name n) (map strip_dir dirs) None
  | SInline tc dirs _ sub _ =>
      SInline (option_map strip_ty tc) (map strip_dir dirs) None (map strip_sel sub) None
  end.

Definition strip_var_def (v : var_def) : var_def :=
  VarDef (strip_name (vd_var v)) None (strip_ty (vd_type v)) (option_map strip_value (vd_default v))
         (map strip_dir (vd_dirs v)) None.
Definition strip_strval (s : strval) : strval := StrVal (sv_val s) (sv_block s) None.
Definition strip_ivdef (i : input_value_def) : input_value_def :=
  IVDef (option_map strip_strval (iv_desc i)) (strip_name (iv_name i)) (strip_ty (iv_type i))
        (option_map strip_value (iv_default i)) (map strip_dir (iv_dirs i)) None.
Definition strip_fdef (f : field_def) : field_def :=
  FDef (option_map strip_strval (fd_desc f)) (strip_name (fd_name f)) (map strip_ivdef (fd_args f))
       (strip_ty (fd_type f)) (map strip_dir (fd_dirs f)) None.
Definition strip_evdef (e : enum_value_def) : enum_value_def :=
  EVDef (option_map strip_strval (ev_desc e)) (strip_name (ev_name e)) (map strip_dir (ev_dirs e)) None.
Definition strip_otdef (o : op_type_def) : op_type_def := OTDef (ot_op o) (strip_ty (ot_type o)) None.

Definition strip_def (d : definition) : definition :=
  match d with
  | DOperation k n vds dirs _ sels _ =>
      DOperation k (option_map strip_name n) (map strip_var_def vds) (map strip_dir dirs) None
                 (map strip_sel sels) None
  | DFragment n vds tc dirs _ sels _ =>
      DFragment (strip_name n) (map strip_var_def vds) (strip_ty tc) (map strip_dir dirs) None
                (map strip_sel sels) None
  | DSchema e dirs ots _ => DSchema e (map strip_dir dirs) (map strip_otdef ots) None
  | DScalar e desc n dirs _ =>
      DScalar e (option_map strip_strval desc) (strip_name n) (map strip_dir dirs) None
  | DObject e desc n ifs dirs fs _ =>
      DObject e (option_map strip_strval desc) (strip_name n) (map strip_ty ifs) (map strip_dir dirs)
              (map strip_fdef fs) None
  | DInterface e desc n dirs fs _ =>
      DInterface e (option_map strip_strval desc) (strip_name n) (map strip_dir dirs)
                 (map strip_fdef fs) None
  | DUnion e desc n dirs ts _ =>
      DUnion e (option_map strip_strval desc) (strip_name n) (map strip_dir dirs) (map strip_ty ts) None
  | DEnum e desc n dirs vs _ =>
      DEnum e (option_map strip_strval desc) (strip_name n) (map strip_dir dirs) (map strip_evdef vs) None
  | DInput e desc n dirs fs _ =>
      DInput e (option_map strip_strval desc) (strip_name n) (map strip_dir dirs) (map strip_ivdef fs) None
  | DDirective desc n args locs _ =>
      DDirective (option_map strip_strval desc) (strip_name n) (map strip_ivdef args)
                 (map strip_name locs) None
  end.

Definition strip_doc (d : document) : document := Doc (map strip_def (doc_defs d)) None.
