(* The lexical grammar of June-2018 section 2.1 as a declarative, maximal-munch
   relation between a source text and its token sequence (with offsets).
   Builds on the sub-languages of Spec/LexSpec.v (numbers, string bodies,
   block string bodies, BlockStringValue).  Nothing here refers to the lexer
   model. *)
From PyGql Require Export Spec.LexSpec Lang.Token.
Local Open Scope N_scope.

(* Ignored :: UnicodeBOM | WhiteSpace | LineTerminator | Comment | Comma *)
Definition IgnoredChar (c : char) : Prop :=
  c = 65279 \/ c = 9 \/ c = 32 \/ c = 10 \/ c = 13 \/ c = 44.

(* CommentChar :: SourceCharacter but not LineTerminator *)
Definition CommentChar (c : char) : Prop := SourceCharacter c /\ c <> 10 /\ c <> 13.

Definition head_is (P : char -> Prop) (l : str) : Prop :=
  match l with c :: _ => P c | [] => False end.

(* [Ignored ign f]: ign is a sequence of ignored tokens, f is the text that
   follows it.  A comment extends as far as it can (what follows its body does
   not start with a CommentChar). *)
Inductive Ignored : str -> str -> Prop :=
| Ig_nil f : Ignored [] f
| Ig_char c ign f : IgnoredChar c -> Ignored ign f -> Ignored (c :: ign) f
| Ig_comment body ign f :
    Forall CommentChar body -> ~ head_is CommentChar (ign ++ f) -> Ignored ign f ->
    Ignored (35 :: body ++ ign) f.

(* Punctuator :: one of ! $ ( ) ... : = @ [ ] { | } and & *)
Inductive Punctuator : char -> tkind -> Prop :=
| P_bang : Punctuator 33 KBang | P_dollar : Punctuator 36 KDollar
| P_paren_o : Punctuator 40 KParenO | P_paren_c : Punctuator 41 KParenC
| P_brack_o : Punctuator 91 KBrackO | P_brack_c : Punctuator 93 KBrackC
| P_curly_o : Punctuator 123 KCurlyO | P_curly_c : Punctuator 125 KCurlyC
| P_colon : Punctuator 58 KColon | P_equals : Punctuator 61 KEquals
| P_at : Punctuator 64 KAt | P_pipe : Punctuator 124 KPipe | P_amp : Punctuator 38 KAmp.

Definition NameCont (c : char) : Prop := NameStart c \/ Digit c.

(* [Token F lexeme rest k v]: at a text lexeme ++ rest, lexeme is one token of
   class k with value v (the longest one: Name and comments cannot be extended,
   numbers obey the follow restriction F, a string is not the beginning of a
   block string delimiter).  F is_float rest is the look-ahead restriction on
   what may follow a number. *)
Inductive Token (F : bool -> str -> Prop) : str -> str -> tkind -> str -> Prop :=
| Tk_punct c k rest : Punctuator c k -> Token F [c] rest k []
| Tk_ellip rest : Token F [46; 46; 46] rest KEllip []
| Tk_name c cs rest :
    NameStart c -> Forall NameCont cs -> ~ head_is NameCont rest ->
    Token F (c :: cs) rest KName (c :: cs)
| Tk_int l rest : IntValue l -> F false rest -> Token F l rest KInt l
| Tk_float l rest : FloatValue l -> F true rest -> Token F l rest KFloat l
| Tk_string raw v rest :
    string_body raw v -> ~ triple_quote (34 :: raw ++ 34 :: rest) ->
    Token F (34 :: raw ++ [34]) rest KString v
| Tk_block body raw rest :
    block_scan (body ++ 34 :: 34 :: 34 :: rest) raw rest ->
    Token F (34 :: 34 :: 34 :: body ++ [34; 34; 34]) rest KBlockString (block_string_value raw).

(* tokens of the text from offset pos on, ending with the EOF token *)
Inductive lexes_from (F : bool -> str -> Prop) : str -> nat -> list ptok -> Prop :=
| LX_eof ign pos :
    Ignored ign [] ->
    lexes_from F ign pos [PTok KEOF [] (pos + length ign)%nat (pos + length ign)%nat]
| LX_tok ign lexeme rest k v ts pos :
    Ignored ign (lexeme ++ rest) -> Token F lexeme rest k v ->
    lexes_from F rest (pos + length ign + length lexeme)%nat ts ->
    lexes_from F (ign ++ lexeme ++ rest) pos
      (PTok k v (pos + length ign)%nat (pos + length ign + length lexeme)%nat :: ts).

Definition lexes_with (F : bool -> str -> Prop) (s : str) (ts : list ptok) : Prop :=
  exists ts', ts = PTok KSOF [] 0%nat 0%nat :: ts' /\ lexes_from F s 0%nat ts'.

(* the documented lexical grammar (follow restriction: no digit, no dot, no
   NameStart after a number) *)
Definition lexes : str -> list ptok -> Prop := lexes_with (fun _ => follow_ok).

(* the same with the one adjacency the library additionally tolerates: a dot
   directly after a FloatValue *)
Definition lexes_slack : str -> list ptok -> Prop := lexes_with follow_impl.

(* no Float token directly before an Ellip token (C01_follow) *)
Fixpoint nfe (ts : list ptok) : Prop :=
  match ts with
  | t1 :: r => match r with t2 :: _ => tk t1 = KFloat -> tk t2 <> KEllip | [] => True end /\ nfe r
  | [] => True
  end.
