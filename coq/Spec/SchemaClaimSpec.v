(* C13, label by label: what each error kind claims about the element it
   names.  [claim s e] is declarative (membership, positions, name_ok, the
   Spec's subtype / sig_ok / position predicates); one constructor per label and
   position. *)
From PyGql Require Export Schema.SchemaFull Schema.SchemaValidateModel Spec.SchemaValidSpec.

Definition comp_body (t : type_def) : option (list field_def * option rsig) :=
  match t_body t with
  | BObject _ fs dr => Some (fs, dr)
  | BInterface fs => Some (fs, None)
  | _ => None
  end.

(* [x] stands at a position of [l] after an earlier element with the same name *)
Definition repeated {A} (name : A -> str) (l : list A) (x : A) : Prop :=
  exists l1 l2, l = l1 ++ x :: l2 /\ In (name x) (map name l1).

Definition last_named {A} (name : A -> str) (l : list A) (k : str) : option A :=
  find_last (fun y => str_eqb k (name y)) l.

Section Claims.
  Variable s : schema.
  Notation ts := (s_types s).

  Inductive claim : verr -> Prop :=
  (* root operation types *)
  | cl_no_query : s_query s = None -> claim (err LMustProvideQuery [])
  | cl_query q : s_query s = Some q -> ~ kind_is s q [1%N] -> claim (err LQueryNotObject [q])
  | cl_mutation q : s_mutation s = Some q -> ~ kind_is s q [1%N] -> claim (err LMutationNotObject [q])
  | cl_subscription q : s_subscription s = Some q -> ~ kind_is s q [1%N] -> claim (err LSubscriptionNotObject [q])
  (* type names *)
  | cl_type_name t : In t ts -> t_intro t = false -> t_spec t = false -> ~ name_ok (t_name t) ->
                     claim (err LInvalidTypeName [t_name t])
  (* object and interface types *)
  | cl_no_fields t dr : In t ts -> comp_body t = Some ([], dr) -> claim (err LNoFields [t_name t])
  | cl_field_name t fs dr f : In t ts -> comp_body t = Some (fs, dr) -> In f fs -> ~ name_ok (f_name f) ->
                              claim (err LInvalidName [f_name f])
  | cl_dup_field t fs dr f : In t ts -> comp_body t = Some (fs, dr) -> repeated f_name fs f ->
                             claim (err LDuplicateField [t_name t; f_name f])
  | cl_field_output t fs dr f : In t ts -> comp_body t = Some (fs, dr) -> In f fs -> ~ output_position s (f_type f) ->
                                claim (err LFieldNotOutput [t_name t; f_name f])
  | cl_arg_name t fs dr f a : In t ts -> comp_body t = Some (fs, dr) -> In f fs -> In a (f_args f) ->
                              ~ name_ok (a_name a) -> claim (err LInvalidName [a_name a])
  | cl_dup_arg t fs dr f a : In t ts -> comp_body t = Some (fs, dr) -> In f fs -> repeated a_name (f_args f) a ->
                             claim (err LDuplicateArg [t_name t; f_name f; a_name a])
  | cl_arg_input t fs dr f a : In t ts -> comp_body t = Some (fs, dr) -> In f fs -> In a (f_args f) ->
                               ~ input_position s (a_type a) ->
                               claim (err LArgNotInput [t_name t; f_name f; a_name a])
  (* the five resolver labels: the resolver the executor would pick for the
     field does not fit the field's arguments (C13_signature: iff some allowed
     call does not bind, or an argument is named like a positional-only parameter) *)
  | cl_resolver t fs dr f sg e : In t ts -> comp_body t = Some (fs, dr) -> In f fs ->
                                 resolver_of s dr f = Some sg ->
                                 In e (resolver_errors [t_name t; f_name f] sg (f_args f)) -> claim e
  (* interface implementation *)
  | cl_not_interface t is_ fs dr i : In t ts -> t_body t = BObject is_ fs dr -> In i is_ ->
                                     ~ kind_is s i [2%N] -> claim (err LNotInterface [t_name t; i])
  | cl_interface_twice t is_ fs dr i : In t ts -> t_body t = BObject is_ fs dr -> repeated (fun x => x) is_ i ->
                                       kind_is s i [2%N] -> claim (err LInterfaceTwice [t_name t; i])
  | cl_iface_field_missing t is_ fs dr i it ifs f :
      In t ts -> t_body t = BObject is_ fs dr -> In i is_ ->
      find_type ts i = Some it -> t_body it = BInterface ifs -> In f ifs ->
      last_named f_name fs (f_name f) = None ->
      claim (err LIfaceFieldMissing [t_name t; i; f_name f])
  | cl_iface_field_type t is_ fs dr i it ifs f g :
      In t ts -> t_body t = BObject is_ fs dr -> In i is_ ->
      find_type ts i = Some it -> t_body it = BInterface ifs -> In f ifs ->
      last_named f_name fs (f_name f) = Some g -> ~ subtype ts (f_type g) (f_type f) ->
      claim (err LIfaceFieldType [t_name t; i; f_name f])
  | cl_iface_arg_missing t is_ fs dr i it ifs f g a :
      In t ts -> t_body t = BObject is_ fs dr -> In i is_ ->
      find_type ts i = Some it -> t_body it = BInterface ifs -> In f ifs ->
      last_named f_name fs (f_name f) = Some g -> In a (f_args f) ->
      last_named a_name (f_args g) (a_name a) = None ->
      claim (err LIfaceArgMissing [t_name t; i; f_name f; a_name a])
  | cl_iface_arg_type t is_ fs dr i it ifs f g a b :
      In t ts -> t_body t = BObject is_ fs dr -> In i is_ ->
      find_type ts i = Some it -> t_body it = BInterface ifs -> In f ifs ->
      last_named f_name fs (f_name f) = Some g -> In a (f_args f) ->
      last_named a_name (f_args g) (a_name a) = Some b -> a_type a <> a_type b ->
      claim (err LIfaceArgType [t_name t; i; f_name f; a_name a])
  | cl_iface_extra_arg t is_ fs dr i it ifs f g b :
      In t ts -> t_body t = BObject is_ fs dr -> In i is_ ->
      find_type ts i = Some it -> t_body it = BInterface ifs -> In f ifs ->
      last_named f_name fs (f_name f) = Some g -> In b (f_args g) ->
      last_named a_name (f_args f) (a_name b) = None -> is_non_null (a_type b) = true ->
      claim (err LIfaceExtraRequiredArg [t_name t; i; f_name f; a_name b])
  (* unions *)
  | cl_union_empty t : In t ts -> t_body t = BUnion [] -> claim (err LUnionEmpty [t_name t])
  | cl_union_member t ms m : In t ts -> t_body t = BUnion ms -> In m ms -> ~ kind_is s m [1%N] ->
                             claim (err LUnionMemberNotObject [t_name t; m])
  | cl_union_twice t ms m : In t ts -> t_body t = BUnion ms -> repeated (fun x => x) ms m ->
                            claim (err LUnionMemberTwice [t_name t; m])
  (* enums *)
  | cl_enum_empty t : In t ts -> t_body t = BEnum [] -> claim (err LEnumEmpty [t_name t])
  | cl_enum_value_name t vs v : In t ts -> t_body t = BEnum vs -> In v vs -> ~ name_ok (e_name v) ->
                                claim (err LInvalidName [e_name v])
  (* input objects *)
  | cl_input_empty t : In t ts -> t_body t = BInput [] -> claim (err LNoFields [t_name t])
  | cl_input_field_name t fs f : In t ts -> t_body t = BInput fs -> In f fs -> ~ name_ok (i_name f) ->
                                 claim (err LInvalidName [i_name f])
  | cl_dup_input_field t fs f : In t ts -> t_body t = BInput fs -> repeated i_name fs f ->
                                claim (err LDuplicateField [t_name t; i_name f])
  | cl_input_field_input t fs f : In t ts -> t_body t = BInput fs -> In f fs -> ~ input_position s (i_type f) ->
                                  claim (err LInputFieldNotInput [t_name t; i_name f])
  (* directives *)
  | cl_directive_name d : In d (s_dirs s) -> ~ name_ok (d_name d) -> claim (err LInvalidName [d_name d])
  | cl_dir_arg_name d a : In d (s_dirs s) -> In a (d_args d) -> ~ name_ok (a_name a) ->
                          claim (err LInvalidName [a_name a])
  | cl_dup_dir_arg d a : In d (s_dirs s) -> repeated a_name (d_args d) a ->
                         claim (err LDirDuplicateArg [d_name d; a_name a])
  | cl_dir_arg_input d a : In d (s_dirs s) -> In a (d_args d) -> ~ input_position s (a_type a) ->
                           claim (err LDirArgNotInput [d_name d; a_name a]).
End Claims.
