(* Derivation relations of the June-2018 syntactic grammar (spec sections 2.9
   and 2.11) for Type and Value[Const], over token sequences, carrying the
   tree the derivation denotes including every span.  Nothing here refers to
   the parser model. *)
From PyGql Require Export Lang.Ast Lang.Token.

Local Open Scope string_scope.

(* span of a non-empty token sequence: start of the first token, end of the
   last one; absent when locations are disabled *)
Definition span_of (ts : list ptok) : loc :=
  match ts with
  | [] => None
  | t :: r => Some (tstart t, tend (last r t))
  end.

Definition mkloc (no_loc : bool) (ts : list ptok) : loc :=
  if no_loc then None else span_of ts.

Section Derivations.
Variable nl : bool.      (* no_location *)

Definition name_node (t : ptok) : name := Name (tval t) (mkloc nl [t]).

(* Type : NamedType | ListType | NonNullType
   NamedType : Name      ListType : [ Type ]
   NonNullType : NamedType ! | ListType ! *)
Definition not_non_null (t : ty) : Prop :=
  match t with TNonNull _ _ => False | _ => True end.

Inductive D_type : list ptok -> ty -> Prop :=
| DT_named t :
    tk t = KName ->
    D_type [t] (TNamed (name_node t) (mkloc nl [t]))
| DT_list o ts c inner :
    tk o = KBrackO -> tk c = KBrackC -> D_type ts inner ->
    D_type (o :: ts ++ [c]) (TList inner (mkloc nl (o :: ts ++ [c])))
| DT_non_null ts b inner :
    tk b = KBang -> D_type ts inner -> not_non_null inner ->
    D_type (ts ++ [b]) (TNonNull inner (mkloc nl (ts ++ [b]))).

(* Value[Const] :
     [~Const] Variable | IntValue | FloatValue | StringValue | BooleanValue
     | NullValue | EnumValue | ListValue[?Const] | ObjectValue[?Const]
   Variable : $ Name
   BooleanValue : one of true false      NullValue : null
   EnumValue : Name but not true, false or null
   ListValue[Const] : [ ] | [ Value[?Const]+ ]
   ObjectValue[Const] : { } | { ObjectField[?Const]+ }
   ObjectField[Const] : Name : Value[?Const] *)
Definition is_reserved (v : str) : Prop :=
  v = str_of_string "true" \/ v = str_of_string "false" \/ v = str_of_string "null".

Inductive D_value : bool -> list ptok -> value -> Prop :=
| DV_var d t :
    tk d = KDollar -> tk t = KName ->
    D_value false [d; t] (VVar (name_node t) (mkloc nl [d; t]))
| DV_int c t : tk t = KInt -> D_value c [t] (VInt (tval t) (mkloc nl [t]))
| DV_float c t : tk t = KFloat -> D_value c [t] (VFloat (tval t) (mkloc nl [t]))
| DV_string c t : tk t = KString -> D_value c [t] (VString (tval t) false (mkloc nl [t]))
| DV_block_string c t :
    tk t = KBlockString -> D_value c [t] (VString (tval t) true (mkloc nl [t]))
| DV_true c t :
    tk t = KName -> tval t = str_of_string "true" -> D_value c [t] (VBool true (mkloc nl [t]))
| DV_false c t :
    tk t = KName -> tval t = str_of_string "false" -> D_value c [t] (VBool false (mkloc nl [t]))
| DV_null c t :
    tk t = KName -> tval t = str_of_string "null" -> D_value c [t] (VNull (mkloc nl [t]))
| DV_enum c t :
    tk t = KName -> ~ is_reserved (tval t) -> D_value c [t] (VEnum (tval t) (mkloc nl [t]))
| DV_list c o ts cl vs :
    tk o = KBrackO -> tk cl = KBrackC -> D_values c ts vs ->
    D_value c (o :: ts ++ [cl]) (VList vs (mkloc nl (o :: ts ++ [cl])))
| DV_object c o ts cl fs :
    tk o = KCurlyO -> tk cl = KCurlyC -> D_fields c ts fs ->
    D_value c (o :: ts ++ [cl]) (VObject fs (mkloc nl (o :: ts ++ [cl])))
with D_values : bool -> list ptok -> list value -> Prop :=
| DVs_nil c : D_values c [] []
| DVs_cons c ts v ts' vs :
    D_value c ts v -> D_values c ts' vs -> D_values c (ts ++ ts') (v :: vs)
with D_fields : bool -> list ptok -> list (name * value * loc) -> Prop :=
| DFs_nil c : D_fields c [] []
| DFs_cons c nm colon ts v ts' fs :
    tk nm = KName -> tk colon = KColon -> D_value c ts v -> D_fields c ts' fs ->
    D_fields c (nm :: colon :: ts ++ ts')
             ((name_node nm, v, mkloc nl (nm :: colon :: ts)) :: fs).

Scheme D_value_mut := Minimality for D_value Sort Prop
  with D_values_mut := Minimality for D_values Sort Prop
  with D_fields_mut := Minimality for D_fields Sort Prop.
Combined Scheme D_value_mutind from D_value_mut, D_values_mut, D_fields_mut.

End Derivations.

(* a standalone value / type is the whole token sequence between SOF and EOF *)
Definition whole (ts : list ptok) (body : list ptok) : Prop :=
  exists sof eof, tk sof = KSOF /\ tk eof = KEOF /\ ts = sof :: body ++ [eof].
