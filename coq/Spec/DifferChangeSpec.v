(* C20, completeness side: what a reported change claims.  [descr s fam path]
   is the description of the element a change of family [fam] names, read by
   plain lookups in schema [s]; a change is truthful when that description
   differs between the two schemas. *)
From PyGql Require Export Schema.SchemaFull Schema.DifferModel.

Inductive family :=
| FType | FUnionMember | FInterface | FEnumValue | FDirective | FLocation
| FDirArg | FFieldArg | FField | FInputField.

Definition family_of (c : change_class) : family :=
  match c with
  | CTypeChangedKind | CTypeRemoved | CTypeAdded => FType
  | CTypeRemovedFromUnion | CTypeAddedToUnion => FUnionMember
  | CTypeRemovedFromInterface | CTypeAddedToInterface => FInterface
  | CEnumValueRemoved | CEnumValueAdded | CEnumValueDeprecated
  | CEnumValueDeprecationRemoved | CEnumValueDeprecationReasonChanged => FEnumValue
  | CDirectiveRemoved | CDirectiveAdded => FDirective
  | CDirectiveLocationRemoved | CDirectiveLocationAdded => FLocation
  | CDirectiveArgumentRemoved | CDirectiveArgumentAdded
  | CDirectiveArgumentDefaultValueChange | CDirectiveArgumentChangedType => FDirArg
  | CFieldArgumentRemoved | CFieldArgumentAdded
  | CFieldArgumentDefaultValueChange | CFieldArgumentChangedType => FFieldArg
  | CFieldChangedType | CFieldRemoved | CFieldAdded
  | CFieldDeprecated | CFieldDeprecationRemoved | CFieldDeprecationReasonChanged => FField
  | CInputFieldRemoved | CInputFieldAdded
  | CInputFieldDefaultValueChange | CInputFieldChangedType => FInputField
  end.

Inductive element :=
| ElKind (k : option N)                          (* the type exists, with this kind *)
| ElPresent (b : bool)                           (* membership / presence *)
| ElEnum (v : option enum_value)
| ElArg (a : option arg_def)
| ElField (f : option (ty * option str))         (* type and deprecation reason of the field *)
| ElInput (f : option input_field)
| ElNone.

Definition body_at (s : schema) (n : str) : option type_body :=
  match find_type (s_types s) n with Some t => Some (t_body t) | None => None end.

Definition fields_at (s : schema) (n : str) : option (list field_def) :=
  match body_at s n with
  | Some (BObject _ fs _) => Some fs
  | Some (BInterface fs) => Some fs
  | _ => None
  end.

Definition descr (s : schema) (fam : family) (path : list str) : element :=
  match fam, path with
  | FType, [n] => ElKind (kind_of (s_types s) n)
  | FUnionMember, [u; m] =>
      ElPresent match body_at s u with Some (BUnion ms) => mem_str m ms | _ => false end
  | FInterface, [t; i] =>
      ElPresent match body_at s t with Some (BObject is_ _ _) => mem_str i is_ | _ => false end
  | FEnumValue, [e; v] =>
      ElEnum match body_at s e with Some (BEnum vs) => find_enum vs v | _ => None end
  | FDirective, [d] =>
      ElPresent match find_dir (s_dirs s) d with Some _ => true | None => false end
  | FLocation, [d; l] =>
      ElPresent match find_dir (s_dirs s) d with Some dd => mem_str l (d_locs dd) | None => false end
  | FDirArg, [d; a] =>
      ElArg match find_dir (s_dirs s) d with Some dd => find_arg (d_args dd) a | None => None end
  | FFieldArg, [t; f; a] =>
      ElArg match fields_at s t with
            | Some fs => match find_field fs f with Some fd => find_arg (f_args fd) a | None => None end
            | None => None
            end
  | FField, [t; f] =>
      ElField match fields_at s t with
              | Some fs => match find_field fs f with
                           | Some fd => Some (f_type fd, f_depr fd)
                           | None => None
                           end
              | None => None
              end
  | FInputField, [t; f] =>
      ElInput match body_at s t with Some (BInput fs) => find_input fs f | _ => None end
  | _, _ => ElNone
  end.

(* the change names an element whose description differs *)
Definition truthful (o n : schema) (c : change) : Prop :=
  descr o (family_of (c_class c)) (c_path c) <> descr n (family_of (c_class c)) (c_path c).
