(* What C20 demands, declaratively.

   1. Value typing of output and input positions over an abstract typing of
      named types ([base]): "every output position is at least as strict as
      before and every input position at least as permissive".
   2. The elementary edits of the statement and the element each one names.
   3. A core of "operation valid against a schema" that depends on the schema
      (FieldsOnCorrectType, KnownArgumentNames, ProvidedRequiredArguments,
      KnownTypeNames/FragmentsOnCompositeTypes, ScalarLeafs). *)
From PyGql Require Export Schema.SchemaFull.
From PyGql Require Schema.DifferModel.

(* ------------------------------------------------------------ 1. values *)
Section Values.
  (* [base n v]: the non-null value [v] belongs to named type [n]
     (leaf serialisation / object shape); abstract: the theorems hold for
     every such typing. *)
  Variable base : str -> pv -> Prop.

  (* June-2018 section 6.4.3 result coercion: null is allowed unless Non-Null *)
  Fixpoint out_value (t : ty) (v : pv) : Prop :=
    match t with
    | TyNamed n => v = PNone \/ base n v
    | TyList t' => v = PNone \/ exists l, v = PList l /\ Forall (out_value t') l
    | TyNonNull t' => v <> PNone /\ out_value t' v
    end.

  (* section 3.11 input coercion of lists: a non-list, non-null value is
     accepted as a list of size one *)
  Fixpoint in_value (t : ty) (v : pv) : Prop :=
    match t with
    | TyNamed n => v = PNone \/ base n v
    | TyList t' =>
        v = PNone
        \/ (exists l, v = PList l /\ Forall (in_value t') l)
        \/ ((forall l, v <> PList l) /\ v <> PNone /\ in_value t' v)
    | TyNonNull t' => v <> PNone /\ in_value t' v
    end.
End Values.

(* ------------------------------------------------------- 2. elementary edits *)
Definition set_types (s : schema) (ts : list type_def) : schema :=
  mkSchema ts (s_dirs s) (s_query s) (s_mutation s) (s_subscription s) (s_default_resolver s).
Definition set_dirs (s : schema) (ds : list directive_def) : schema :=
  mkSchema (s_types s) ds (s_query s) (s_mutation s) (s_subscription s) (s_default_resolver s).

Definition upd_body (n : str) (f : type_body -> type_body) (ts : list type_def) : list type_def :=
  map (fun t => if str_eqb n (t_name t)
                then mkType (t_name t) (t_intro t) (t_spec t) (f (t_body t)) else t) ts.

Definition upd_field (fn : str) (f : field_def -> field_def) (fs : list field_def) : list field_def :=
  map (fun x => if str_eqb fn (f_name x) then f x else x) fs.

Definition on_fields (g : list field_def -> list field_def) (b : type_body) : type_body :=
  match b with
  | BObject i fs r => BObject i (g fs) r
  | BInterface fs => BInterface (g fs)
  | _ => b
  end.

Definition upd_arg (an : str) (f : arg_def -> arg_def) (l : list arg_def) : list arg_def :=
  map (fun x => if str_eqb an (a_name x) then f x else x) l.

Definition set_f_type (t : ty) (f : field_def) := mkField (f_name f) t (f_args f) (f_depr f) (f_resolver f).
Definition set_f_args (g : list arg_def -> list arg_def) (f : field_def) :=
  mkField (f_name f) (f_type f) (g (f_args f)) (f_depr f) (f_resolver f).
Definition set_f_depr (d : option str) (f : field_def) :=
  mkField (f_name f) (f_type f) (f_args f) d (f_resolver f).
Definition set_a_type (t : ty) (a : arg_def) := mkArg (a_name a) (a_pyname a) t (a_default a).
Definition set_a_default (d : option pv) (a : arg_def) := mkArg (a_name a) (a_pyname a) (a_type a) d.

Inductive edit :=
| EAddType (t : type_def)
| ERemoveType (n : str)
| ERetypeType (n : str) (b : type_body)              (* change of kind *)
| EAddField (tn : str) (f : field_def)
| ERemoveField (tn fn : str)
| ERetypeField (tn fn : str) (t : ty)
| EDeprecateField (tn fn : str) (d : option str)
| EAddArg (tn fn : str) (a : arg_def)
| ERemoveArg (tn fn an : str)
| ERetypeArg (tn fn an : str) (t : ty)
| EDefaultArg (tn fn an : str) (d : option pv)
| EAddInputField (tn : str) (f : input_field)
| ERemoveInputField (tn fn : str)
| ERetypeInputField (tn fn : str) (t : ty)
| EDefaultInputField (tn fn : str) (d : option pv)
| EAddEnumValue (tn : str) (v : enum_value)
| ERemoveEnumValue (tn vn : str)
| EDeprecateEnumValue (tn vn : str) (d : option str)
| EAddUnionMember (tn m : str)
| ERemoveUnionMember (tn m : str)
| EAddInterface (tn i : str)
| ERemoveInterface (tn i : str)
| EAddDirective (d : directive_def)
| ERemoveDirective (dn : str)
| EAddLocation (dn l : str)
| ERemoveLocation (dn l : str)
| EAddDirArg (dn : str) (a : arg_def)
| ERemoveDirArg (dn an : str)
| ERetypeDirArg (dn an : str) (t : ty)
| EDefaultDirArg (dn an : str) (d : option pv).

Definition upd_dir (dn : str) (f : directive_def -> directive_def) (l : list directive_def) :=
  map (fun d => if str_eqb dn (d_name d) then f d else d) l.
Definition set_d_locs (g : list str -> list str) (d : directive_def) :=
  mkDir (d_name d) (d_specified d) (g (d_locs d)) (d_args d).
Definition set_d_args (g : list arg_def -> list arg_def) (d : directive_def) :=
  mkDir (d_name d) (d_specified d) (d_locs d) (g (d_args d)).

Definition not_named {A} (name : A -> str) (n : str) : A -> bool :=
  fun x => negb (str_eqb n (name x)).

Definition apply_edit (e : edit) (s : schema) : schema :=
  let ty_edit n f := set_types s (upd_body n f (s_types s)) in
  let field_edit tn fn f := ty_edit tn (on_fields (upd_field fn f)) in
  let dir_edit dn f := set_dirs s (upd_dir dn f (s_dirs s)) in
  match e with
  | EAddType t => set_types s (s_types s ++ [t])
  | ERemoveType n => set_types s (filter (not_named t_name n) (s_types s))
  | ERetypeType n b => ty_edit n (fun _ => b)
  | EAddField tn f => ty_edit tn (on_fields (fun fs => fs ++ [f]))
  | ERemoveField tn fn => ty_edit tn (on_fields (filter (not_named f_name fn)))
  | ERetypeField tn fn t => field_edit tn fn (set_f_type t)
  | EDeprecateField tn fn d => field_edit tn fn (set_f_depr d)
  | EAddArg tn fn a => field_edit tn fn (set_f_args (fun l => l ++ [a]))
  | ERemoveArg tn fn an => field_edit tn fn (set_f_args (filter (not_named a_name an)))
  | ERetypeArg tn fn an t => field_edit tn fn (set_f_args (upd_arg an (set_a_type t)))
  | EDefaultArg tn fn an d => field_edit tn fn (set_f_args (upd_arg an (set_a_default d)))
  | EAddInputField tn f =>
      ty_edit tn (fun b => match b with BInput fs => BInput (fs ++ [f]) | _ => b end)
  | ERemoveInputField tn fn =>
      ty_edit tn (fun b => match b with BInput fs => BInput (filter (not_named i_name fn) fs) | _ => b end)
  | ERetypeInputField tn fn t =>
      ty_edit tn (fun b => match b with
        | BInput fs => BInput (map (fun x => if str_eqb fn (i_name x)
                                             then mkInput (i_name x) t (i_default x) else x) fs)
        | _ => b end)
  | EDefaultInputField tn fn d =>
      ty_edit tn (fun b => match b with
        | BInput fs => BInput (map (fun x => if str_eqb fn (i_name x)
                                             then mkInput (i_name x) (i_type x) d else x) fs)
        | _ => b end)
  | EAddEnumValue tn v =>
      ty_edit tn (fun b => match b with BEnum vs => BEnum (vs ++ [v]) | _ => b end)
  | ERemoveEnumValue tn vn =>
      ty_edit tn (fun b => match b with BEnum vs => BEnum (filter (not_named e_name vn) vs) | _ => b end)
  | EDeprecateEnumValue tn vn d =>
      ty_edit tn (fun b => match b with
        | BEnum vs => BEnum (map (fun x => if str_eqb vn (e_name x) then mkEnumV (e_name x) d else x) vs)
        | _ => b end)
  | EAddUnionMember tn m =>
      ty_edit tn (fun b => match b with BUnion ms => BUnion (ms ++ [m]) | _ => b end)
  | ERemoveUnionMember tn m =>
      ty_edit tn (fun b => match b with
        | BUnion ms => BUnion (filter (fun x => negb (str_eqb m x)) ms) | _ => b end)
  | EAddInterface tn i =>
      ty_edit tn (fun b => match b with BObject is_ fs r => BObject (is_ ++ [i]) fs r | _ => b end)
  | ERemoveInterface tn i =>
      ty_edit tn (fun b => match b with
        | BObject is_ fs r => BObject (filter (fun x => negb (str_eqb i x)) is_) fs r | _ => b end)
  | EAddDirective d => set_dirs s (s_dirs s ++ [d])
  | ERemoveDirective dn => set_dirs s (filter (not_named d_name dn) (s_dirs s))
  | EAddLocation dn l => dir_edit dn (set_d_locs (fun ls => ls ++ [l]))
  | ERemoveLocation dn l => dir_edit dn (set_d_locs (filter (fun x => negb (str_eqb l x))))
  | EAddDirArg dn a => dir_edit dn (set_d_args (fun l => l ++ [a]))
  | ERemoveDirArg dn an => dir_edit dn (set_d_args (filter (not_named a_name an)))
  | ERetypeDirArg dn an t => dir_edit dn (set_d_args (upd_arg an (set_a_type t)))
  | EDefaultDirArg dn an d => dir_edit dn (set_d_args (upd_arg an (set_a_default d)))
  end.

(* the element an edit touches *)
Definition edit_path (e : edit) : list str :=
  match e with
  | EAddType t => [t_name t]
  | ERemoveType n | ERetypeType n _ => [n]
  | EAddField tn f => [tn; f_name f]
  | ERemoveField tn fn | ERetypeField tn fn _ | EDeprecateField tn fn _ => [tn; fn]
  | EAddArg tn fn a => [tn; fn; a_name a]
  | ERemoveArg tn fn an | ERetypeArg tn fn an _ | EDefaultArg tn fn an _ => [tn; fn; an]
  | EAddInputField tn f => [tn; i_name f]
  | ERemoveInputField tn fn | ERetypeInputField tn fn _ | EDefaultInputField tn fn _ => [tn; fn]
  | EAddEnumValue tn v => [tn; e_name v]
  | ERemoveEnumValue tn vn | EDeprecateEnumValue tn vn _ => [tn; vn]
  | EAddUnionMember tn m | ERemoveUnionMember tn m => [tn; m]
  | EAddInterface tn i | ERemoveInterface tn i => [tn; i]
  | EAddDirective d => [d_name d]
  | ERemoveDirective dn => [dn]
  | EAddLocation dn l | ERemoveLocation dn l => [dn; l]
  | EAddDirArg dn a => [dn; a_name a]
  | ERemoveDirArg dn an | ERetypeDirArg dn an _ | EDefaultDirArg dn an _ => [dn; an]
  end.

(* the fields of a non-introspection object or interface type *)
Definition user_fields (s : schema) (tn : str) : option (list field_def) :=
  match find_type (s_types s) tn with
  | Some t => if t_intro t then None else
              match t_body t with
              | BObject _ fs _ => Some fs
              | BInterface fs => Some fs
              | _ => None
              end
  | None => None
  end.

Definition user_body (s : schema) (tn : str) : option type_body :=
  match find_type (s_types s) tn with
  | Some t => if t_intro t then None else Some (t_body t)
  | None => None
  end.

Definition user_dir (s : schema) (dn : str) : option directive_def :=
  match find_dir (s_dirs s) dn with
  | Some d => if d_specified d then None else Some d
  | None => None
  end.

(* Python's notion of deprecation (what introspection reports) *)
Definition fdepr_state (d : option str) : option str :=
  match d with Some (c :: r) => Some (c :: r) | _ => None end.

(* An edit is applicable when it really changes the element it names. *)
Definition applicable (e : edit) (s : schema) : Prop :=
  match e with
  | EAddType t => find_type (s_types s) (t_name t) = None
  | ERemoveType n => find_type (s_types s) n <> None
  | ERetypeType n b =>
      exists t, find_type (s_types s) n = Some t /\ kind_code (t_body t) <> kind_code b
  | EAddField tn f => exists fs, user_fields s tn = Some fs /\ find_field fs (f_name f) = None
  | ERemoveField tn fn => exists fs, user_fields s tn = Some fs /\ find_field fs fn <> None
  | ERetypeField tn fn t =>
      exists fs f, user_fields s tn = Some fs /\ find_field fs fn = Some f /\ f_type f <> t
  | EDeprecateField tn fn d =>
      exists fs f, user_fields s tn = Some fs /\ find_field fs fn = Some f
                   /\ fdepr_state (f_depr f) <> fdepr_state d
  | EAddArg tn fn a =>
      exists fs f, user_fields s tn = Some fs /\ find_field fs fn = Some f
                   /\ find_arg (f_args f) (a_name a) = None
  | ERemoveArg tn fn an =>
      exists fs f, user_fields s tn = Some fs /\ find_field fs fn = Some f
                   /\ find_arg (f_args f) an <> None
  | ERetypeArg tn fn an t =>
      exists fs f a, user_fields s tn = Some fs /\ find_field fs fn = Some f
                     /\ find_arg (f_args f) an = Some a /\ a_type a <> t
  | EDefaultArg tn fn an d =>
      exists fs f a, user_fields s tn = Some fs /\ find_field fs fn = Some f
                     /\ find_arg (f_args f) an = Some a /\ a_default a <> d
  | EAddInputField tn f =>
      exists fs, user_body s tn = Some (BInput fs) /\ find_input fs (i_name f) = None
  | ERemoveInputField tn fn =>
      exists fs, user_body s tn = Some (BInput fs) /\ find_input fs fn <> None
  | ERetypeInputField tn fn t =>
      exists fs f, user_body s tn = Some (BInput fs) /\ find_input fs fn = Some f /\ i_type f <> t
  | EDefaultInputField tn fn d =>
      exists fs f, user_body s tn = Some (BInput fs) /\ find_input fs fn = Some f /\ i_default f <> d
  | EAddEnumValue tn v =>
      exists vs, user_body s tn = Some (BEnum vs) /\ find_enum vs (e_name v) = None
  | ERemoveEnumValue tn vn =>
      exists vs, user_body s tn = Some (BEnum vs) /\ find_enum vs vn <> None
  | EDeprecateEnumValue tn vn d =>
      exists vs v, user_body s tn = Some (BEnum vs) /\ find_enum vs vn = Some v /\ e_depr v <> d
  | EAddUnionMember tn m =>
      exists ms, user_body s tn = Some (BUnion ms) /\ ~ In m ms
  | ERemoveUnionMember tn m =>
      exists ms, user_body s tn = Some (BUnion ms) /\ In m ms
  | EAddInterface tn i =>
      exists is_ fs r, user_body s tn = Some (BObject is_ fs r) /\ ~ In i is_
  | ERemoveInterface tn i =>
      exists is_ fs r, user_body s tn = Some (BObject is_ fs r) /\ In i is_
  | EAddDirective d => find_dir (s_dirs s) (d_name d) = None /\ d_specified d = false
  | ERemoveDirective dn => user_dir s dn <> None
  | EAddLocation dn l => exists d, user_dir s dn = Some d /\ ~ In l (d_locs d)
  | ERemoveLocation dn l => exists d, user_dir s dn = Some d /\ In l (d_locs d)
  | EAddDirArg dn a => exists d, user_dir s dn = Some d /\ find_arg (d_args d) (a_name a) = None
  | ERemoveDirArg dn an => exists d, user_dir s dn = Some d /\ find_arg (d_args d) an <> None
  | ERetypeDirArg dn an t =>
      exists d a, user_dir s dn = Some d /\ find_arg (d_args d) an = Some a /\ a_type a <> t
  | EDefaultDirArg dn an dv =>
      exists d a, user_dir s dn = Some d /\ find_arg (d_args d) an = Some a /\ a_default a <> dv
  end.

(* names unique where Python keeps a dict: the type map and directive map
   always, member lists after [validate()] accepted the schema *)
Definition names_unique {A} (name : A -> str) (l : list A) : Prop := NoDup (map name l).

Definition wf_body (b : type_body) : Prop :=
  match b with
  | BObject _ fs _ | BInterface fs =>
      names_unique f_name fs /\ Forall (fun f => names_unique a_name (f_args f)) fs
  | BInput fs => names_unique i_name fs
  | BEnum vs => names_unique e_name vs
  | _ => True
  end.

Definition wf_schema (s : schema) : Prop :=
  names_unique t_name (s_types s)
  /\ names_unique d_name (s_dirs s)
  /\ Forall (fun t => wf_body (t_body t)) (s_types s)
  /\ Forall (fun d => names_unique a_name (d_args d)) (s_dirs s).

(* Retypes that the differ's own predicate calls safe are not reported at all
   (known finding "safe-retype-unreported"); every other applicable edit is. *)
Definition reportable (e : edit) (s : schema) : Prop :=
  match e with
  | ERetypeField tn fn t =>
      forall fs f, user_fields s tn = Some fs -> find_field fs fn = Some f ->
                   DifferModel.safe_out (f_type f) t = false
  | ERetypeArg tn fn an t =>
      forall fs f a, user_fields s tn = Some fs -> find_field fs fn = Some f ->
                     find_arg (f_args f) an = Some a -> DifferModel.safe_in (a_type a) t = false
  | ERetypeInputField tn fn t =>
      forall fs f, user_body s tn = Some (BInput fs) -> find_input fs fn = Some f ->
                   DifferModel.safe_in (i_type f) t = false
  | ERetypeDirArg dn an t =>
      forall d a, user_dir s dn = Some d -> find_arg (d_args d) an = Some a ->
                  DifferModel.safe_in (a_type a) t = false
  | _ => True
  end.

(* the open finding "safe-retype-unreported", as a predicate: the edit retypes
   an existing field / argument / input field / directive argument to a
   different type that the differ's own predicate calls a safe change *)
Definition safe_retype (e : edit) (s : schema) : Prop :=
  match e with
  | ERetypeField tn fn t =>
      exists fs f, user_fields s tn = Some fs /\ find_field fs fn = Some f /\ f_type f <> t
                   /\ DifferModel.safe_out (f_type f) t = true
  | ERetypeArg tn fn an t =>
      exists fs f a, user_fields s tn = Some fs /\ find_field fs fn = Some f
                     /\ find_arg (f_args f) an = Some a /\ a_type a <> t
                     /\ DifferModel.safe_in (a_type a) t = true
  | ERetypeInputField tn fn t =>
      exists fs f, user_body s tn = Some (BInput fs) /\ find_input fs fn = Some f /\ i_type f <> t
                   /\ DifferModel.safe_in (i_type f) t = true
  | ERetypeDirArg dn an t =>
      exists d a, user_dir s dn = Some d /\ find_arg (d_args d) an = Some a /\ a_type a <> t
                  /\ DifferModel.safe_in (a_type a) t = true
  | _ => False
  end.

(* ------------------------------------------------------- 3. client operations *)
(* The core of "operation valid against a schema" that depends on the schema:
   FieldsOnCorrectType, KnownArgumentNames, ProvidedRequiredArguments,
   KnownTypeNames / FragmentsOnCompositeTypes (type conditions), ScalarLeafs.
   Operations over the introspection types are out of scope. *)
Inductive sel :=
| SelField (name : str) (args : list str) (sub : list sel)   (* args: names of the arguments given *)
| SelInline (type_condition : str) (sub : list sel).

Definition composite_fields (s : schema) (tn : str) : option (list field_def) :=
  match user_body s tn with
  | Some (BObject _ fs _) => Some fs
  | Some (BInterface fs) => Some fs
  | Some (BUnion _) => Some []
  | _ => None
  end.

Definition is_leaf (s : schema) (tn : str) : bool :=
  match find_type (s_types s) tn with
  | Some t => match t_body t with BScalar | BEnum _ => true | _ => false end
  | None => false
  end.

Definition required_arg (a : arg_def) : Prop :=
  is_non_null (a_type a) = true /\ a_default a = None.

Fixpoint sel_ok (s : schema) (parent : str) (x : sel) {struct x} : Prop :=
  match x with
  | SelField name args sub =>
      exists fs f,
        composite_fields s parent = Some fs /\ find_field fs name = Some f
        /\ (forall a, In a args -> find_arg (f_args f) a <> None)
        /\ (forall a, In a (f_args f) -> required_arg a -> In (a_name a) args)
        /\ (if is_leaf s (unwrap (f_type f)) then sub = []
            else sub <> [] /\ composite_fields s (unwrap (f_type f)) <> None
                 /\ (fix all (l : list sel) : Prop :=
                       match l with [] => True | y :: l' => sel_ok s (unwrap (f_type f)) y /\ all l' end) sub)
  | SelInline tc sub =>
      composite_fields s tc <> None
      /\ (fix all (l : list sel) : Prop :=
            match l with [] => True | y :: l' => sel_ok s tc y /\ all l' end) sub
  end.

(* a query operation: a selection on the query root type *)
Definition client_ok (s : schema) (op : list sel) : Prop :=
  exists q, s_query s = Some q /\ composite_fields s q <> None /\ Forall (sel_ok s q) op.
