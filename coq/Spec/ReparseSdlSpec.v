(* C02 (4), type-system definitions: moving every span of a definition node by
   a fixed offset.  Extends Spec/ReparseSpec.v (shift_exec_def) to all
   definition classes. *)
From PyGql Require Export Spec.ReparseSpec.

Definition shift_strval (p : nat) (s : strval) : strval :=
  StrVal (sv_val s) (sv_block s) (shift_loc p (sv_loc s)).

Definition shift_ivd (p : nat) (d : input_value_def) : input_value_def :=
  IVDef (option_map (shift_strval p) (iv_desc d)) (shift_name p (iv_name d)) (shift_ty p (iv_type d))
        (option_map (shift_value p) (iv_default d)) (map (shift_dir p) (iv_dirs d)) (shift_loc p (iv_loc d)).

Definition shift_fd (p : nat) (d : field_def) : field_def :=
  FDef (option_map (shift_strval p) (fd_desc d)) (shift_name p (fd_name d)) (map (shift_ivd p) (fd_args d))
       (shift_ty p (fd_type d)) (map (shift_dir p) (fd_dirs d)) (shift_loc p (fd_loc d)).

Definition shift_evd (p : nat) (d : enum_value_def) : enum_value_def :=
  EVDef (option_map (shift_strval p) (ev_desc d)) (shift_name p (ev_name d)) (map (shift_dir p) (ev_dirs d))
        (shift_loc p (ev_loc d)).

Definition shift_otd (p : nat) (d : op_type_def) : op_type_def :=
  OTDef (ot_op d) (shift_ty p (ot_type d)) (shift_loc p (ot_loc d)).

(* every definition class *)
Definition shift_def (p : nat) (d : definition) : definition :=
  match d with
  | DOperation _ _ _ _ _ _ _ | DFragment _ _ _ _ _ _ _ => shift_exec_def p d
  | DSchema e dirs ots l => DSchema e (map (shift_dir p) dirs) (map (shift_otd p) ots) (shift_loc p l)
  | DScalar e desc n dirs l =>
      DScalar e (option_map (shift_strval p) desc) (shift_name p n) (map (shift_dir p) dirs) (shift_loc p l)
  | DObject e desc n ifs dirs fs l =>
      DObject e (option_map (shift_strval p) desc) (shift_name p n) (map (shift_ty p) ifs)
              (map (shift_dir p) dirs) (map (shift_fd p) fs) (shift_loc p l)
  | DInterface e desc n dirs fs l =>
      DInterface e (option_map (shift_strval p) desc) (shift_name p n) (map (shift_dir p) dirs)
                 (map (shift_fd p) fs) (shift_loc p l)
  | DUnion e desc n dirs tys l =>
      DUnion e (option_map (shift_strval p) desc) (shift_name p n) (map (shift_dir p) dirs)
             (map (shift_ty p) tys) (shift_loc p l)
  | DEnum e desc n dirs vs l =>
      DEnum e (option_map (shift_strval p) desc) (shift_name p n) (map (shift_dir p) dirs)
            (map (shift_evd p) vs) (shift_loc p l)
  | DInput e desc n dirs fs l =>
      DInput e (option_map (shift_strval p) desc) (shift_name p n) (map (shift_dir p) dirs)
             (map (shift_ivd p) fs) (shift_loc p l)
  | DDirective desc n args locs l =>
      DDirective (option_map (shift_strval p) desc) (shift_name p n) (map (shift_ivd p) args)
                 (map (shift_name p) locs) (shift_loc p l)
  end.

(* the loc attribute of a definition node *)
Definition def_loc (d : definition) : loc :=
  match d with
  | DOperation _ _ _ _ _ _ l | DFragment _ _ _ _ _ _ l | DSchema _ _ _ l | DScalar _ _ _ _ l
  | DObject _ _ _ _ _ _ l | DInterface _ _ _ _ _ l | DUnion _ _ _ _ _ l | DEnum _ _ _ _ _ l
  | DInput _ _ _ _ _ l | DDirective _ _ _ _ l => l
  end.
