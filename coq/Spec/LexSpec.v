(* Declarative pieces of the June-2018 lexical grammar (spec section 2.1, 2.9)
   that C01/C02 are stated against.  Nothing here refers to the lexer model. *)
From PyGql Require Export Base.Str.
Local Open Scope N_scope.

(* ------------------------------------------------------------------ *)
(* 2.9.1 / 2.9.2  IntValue and FloatValue as languages over code points *)

Definition Digit (c : char) : Prop := 48 <= c /\ c <= 57.              (* 0 .. 9 *)
Definition NonZeroDigit (c : char) : Prop := 49 <= c /\ c <= 57.       (* 1 .. 9 *)
Definition Letter (c : char) : Prop := (65 <= c /\ c <= 90) \/ (97 <= c /\ c <= 122).
Definition NameStart (c : char) : Prop := c = 95 \/ Letter c.          (* _ A-Z a-z *)

Definition Digits1 (ds : str) : Prop := ds <> [] /\ Forall Digit ds.   (* Digit+ *)

(* IntegerPart :: NegativeSign? 0 | NegativeSign? NonZeroDigit Digit* *)
Inductive UnsignedIntegerPart : str -> Prop :=
| UIP_zero : UnsignedIntegerPart [48]
| UIP_nz d ds : NonZeroDigit d -> Forall Digit ds -> UnsignedIntegerPart (d :: ds).

Inductive IntegerPart : str -> Prop :=
| IP_pos u : UnsignedIntegerPart u -> IntegerPart u
| IP_neg u : UnsignedIntegerPart u -> IntegerPart (45 :: u).

(* FractionalPart :: . Digit+ *)
Inductive FractionalPart : str -> Prop :=
| FP ds : Digits1 ds -> FractionalPart (46 :: ds).

(* ExponentPart :: ExponentIndicator Sign? Digit+ *)
Inductive ExponentPart : str -> Prop :=
| EP e sign ds : e = 101 \/ e = 69 -> sign = [] \/ sign = [43] \/ sign = [45] ->
                 Digits1 ds -> ExponentPart (e :: sign ++ ds).

Definition IntValue (l : str) : Prop := IntegerPart l.

Inductive FloatValue : str -> Prop :=
| FV_frac ip fp : IntegerPart ip -> FractionalPart fp -> FloatValue (ip ++ fp)
| FV_exp ip ep : IntegerPart ip -> ExponentPart ep -> FloatValue (ip ++ ep)
| FV_frac_exp ip fp ep : IntegerPart ip -> FractionalPart fp -> ExponentPart ep ->
                         FloatValue (ip ++ fp ++ ep).

(* The look-ahead restriction the library documents (CHANGES 0.5.0, spec RFCs
   599/601): a numeric token may not be followed by a digit, a dot or a
   NameStart character. *)
Definition follow_ok (rest : str) : Prop :=
  match rest with
  | [] => True
  | c :: _ => ~ Digit c /\ c <> 46 /\ ~ NameStart c
  end.

(* What the library implements: the same, except that a dot directly after a
   FloatValue is left to the next token (only an ellipsis can follow, and no
   production of the grammar has a FloatValue before an ellipsis). *)
Definition follow_impl (is_float : bool) (rest : str) : Prop :=
  match rest with
  | [] => True
  | c :: _ => ~ Digit c /\ (is_float = false -> c <> 46) /\ ~ NameStart c
  end.

(* ------------------------------------------------------------------ *)
(* 2.9.4  StringValue: the characters between the quotes and their value *)

Definition SourceCharacter (c : char) : Prop := c = 9 \/ c = 10 \/ c = 13 \/ 32 <= c.
(* StringCharacter :: SourceCharacter but not QUOTE or BACKSLASH or LineTerminator *)
Definition PlainStringCharacter (c : char) : Prop :=
  SourceCharacter c /\ c <> 34 /\ c <> 92 /\ c <> 10 /\ c <> 13.

(* EscapedCharacter :: one of QUOTE BACKSLASH / b f n r t, with its value *)
Inductive EscapedCharacter : char -> char -> Prop :=
| Esc_quote : EscapedCharacter 34 34
| Esc_bslash : EscapedCharacter 92 92
| Esc_slash : EscapedCharacter 47 47
| Esc_b : EscapedCharacter 98 8
| Esc_f : EscapedCharacter 102 12
| Esc_n : EscapedCharacter 110 10
| Esc_r : EscapedCharacter 114 13
| Esc_t : EscapedCharacter 116 9.

(* /[0-9A-Fa-f]/ with its numeric value *)
Inductive HexDigit : char -> N -> Prop :=
| Hex_digit c : 48 <= c <= 57 -> HexDigit c (c - 48)
| Hex_upper c : 65 <= c <= 70 -> HexDigit c (c - 55)
| Hex_lower c : 97 <= c <= 102 -> HexDigit c (c - 87).

(* [string_body raw v]: raw is a sequence of StringCharacters whose value
   (semantics of 2.9.4) is v *)
Inductive string_body : str -> str -> Prop :=
| SB_nil : string_body [] []
| SB_char c raw v : PlainStringCharacter c -> string_body raw v -> string_body (c :: raw) (c :: v)
| SB_esc e d raw v : EscapedCharacter e d -> string_body raw v -> string_body (92 :: e :: raw) (d :: v)
| SB_uni h1 h2 h3 h4 v1 v2 v3 v4 raw v :
    HexDigit h1 v1 -> HexDigit h2 v2 -> HexDigit h3 v3 -> HexDigit h4 v4 ->
    string_body raw v ->
    string_body (92 :: 117 :: h1 :: h2 :: h3 :: h4 :: raw)
                (v1 * 4096 + v2 * 256 + v3 * 16 + v4 :: v).

(* Block strings: BlockStringCharacter :: SourceCharacter but not a triple
   quote or an escaped (backslash) triple quote, the latter standing for a
   triple quote.  [block_scan rest raw r']: rest (the text after the opening
   delimiter) is a sequence of BlockStringCharacters denoting the raw value
   raw, then the closing triple quote, then r'.  The look-ahead exclusions
   range over the whole remaining text, closing delimiter included. *)
Definition triple_quote (l : str) : Prop := exists r, l = 34 :: 34 :: 34 :: r.

Inductive block_scan : str -> str -> str -> Prop :=
| BS_end r' : block_scan (34 :: 34 :: 34 :: r') [] r'
| BS_esc rest raw r' :
    block_scan rest raw r' ->
    block_scan (92 :: 34 :: 34 :: 34 :: rest) (34 :: 34 :: 34 :: raw) r'
| BS_char c rest raw r' :
    SourceCharacter c -> ~ triple_quote (c :: rest) -> ~ (c = 92 /\ triple_quote rest) ->
    block_scan rest raw r' -> block_scan (c :: rest) (c :: raw) r'.

(* ------------------------------------------------------------------ *)
(* 2.9.4  BlockStringValue(rawValue), transcribed step by step.
   WhiteSpace :: U+0009 | U+0020;  LineTerminator :: LF | CR [lookahead != LF] | CR LF. *)

Definition is_whitespace (c : char) : bool := (c =? 9) || (c =? 32).

(* "Let lines be the result of splitting rawValue by LineTerminator."
   Built from the right: a LF starts a new line; a CR does unless it is the
   first half of CR LF (then the LF already did). *)
Fixpoint spec_lines (raw : str) : list str :=
  match raw with
  | [] => [[]]
  | c :: r =>
      let ls := spec_lines r in
      if c =? 10 then [] :: ls
      else if c =? 13 then
        match r with
        | d :: _ => if d =? 10 then ls else [] :: ls
        | [] => [] :: ls
        end
      else match ls with
           | l :: ls' => (c :: l) :: ls'
           | [] => [[c]]
           end
  end.

(* "Let indent be the number of leading consecutive WhiteSpace characters in line." *)
Fixpoint leading_ws (l : str) : nat :=
  match l with
  | c :: r => if is_whitespace c then S (leading_ws r) else O
  | [] => O
  end.

(* "For each line in lines (excluding the first): let length be the number of
   characters in line; if indent < length: if commonIndent is null or
   indent < commonIndent, let commonIndent be indent." *)
Definition spec_step (common : option nat) (line : str) : option nat :=
  let indent := leading_ws line in
  if Nat.ltb indent (length line) then
    match common with
    | None => Some indent
    | Some c => if Nat.ltb indent c then Some indent else common
    end
  else common.

Definition spec_common_indent (lines : list str) : option nat :=
  fold_left spec_step (tl lines) None.

(* "If commonIndent is not null: for each line in lines (excluding the
   first): remove commonIndent characters from the beginning of the line." *)
Definition spec_dedent (lines : list str) : list str :=
  match spec_common_indent lines, lines with
  | Some n, first :: rest => first :: map (skipn n) rest
  | _, _ => lines
  end.

Definition only_whitespace (l : str) : bool := forallb is_whitespace l.

(* "While the first line in lines contains only WhiteSpace: remove it." *)
Fixpoint strip_front (lines : list str) : list str :=
  match lines with
  | l :: ls => if only_whitespace l then strip_front ls else lines
  | [] => []
  end.

(* "While the last line in lines contains only WhiteSpace: remove it." *)
Fixpoint strip_back (lines : list str) : list str :=
  match lines with
  | [] => []
  | l :: ls =>
      match strip_back ls with
      | [] => if only_whitespace l then [] else [l]
      | ls' => l :: ls'
      end
  end.

(* "Let formatted be the empty sequence; for each line: if it is the first,
   append it, otherwise append LF followed by the line." *)
Definition spec_join (lines : list str) : str :=
  match lines with
  | [] => []
  | first :: rest => fold_left (fun formatted line => formatted ++ 10 :: line) rest first
  end.

Definition block_string_value (raw : str) : str :=
  spec_join (strip_back (strip_front (spec_dedent (spec_lines raw)))).
