(* "sub-node of": every Value / Variable / StringValue node and every Type node
   occurring anywhere in a tree (arguments, default values, directives,
   variable definitions, type conditions, field / argument / input field
   types, implemented interfaces, union members, operation type definitions,
   descriptions; list and object members and the inner types of list / non-null
   types, recursively).  These are the node classes for which the library has
   a parse entry point of their own (parse_value, parse_type). *)
From PyGql Require Export Spec.ReparseSdlSpec.

Inductive node := NV (v : value) | NT (t : ty).

Fixpoint sub_ty (t : ty) : list node :=
  NT t :: match t with TNamed _ _ => [] | TList t' _ | TNonNull t' _ => sub_ty t' end.

Fixpoint sub_value (v : value) : list node :=
  NV v :: match v with
          | VList vs _ => flat_map sub_value vs
          | VObject fs _ => flat_map (fun f => sub_value (snd (fst f))) fs
          | _ => []
          end.

Definition opt_nodes {A} (f : A -> list node) (o : option A) : list node :=
  match o with Some x => f x | None => [] end.

(* a description is a StringValue node *)
Definition nodes_desc (d : option strval) : list node :=
  opt_nodes (fun s => [NV (VString (sv_val s) (sv_block s) (sv_loc s))]) d.

Definition nodes_arg (a : argument) : list node := sub_value (a_val a).
Definition nodes_dir (d : directive) : list node := flat_map nodes_arg (d_args d).

Fixpoint nodes_sel (s : selection) : list node :=
  match s with
  | SField _ _ args dirs _ sub _ => flat_map nodes_arg args ++ flat_map nodes_dir dirs ++ flat_map nodes_sel sub
  | SSpread _ dirs _ => flat_map nodes_dir dirs
  | SInline tc dirs _ sub _ => opt_nodes sub_ty tc ++ flat_map nodes_dir dirs ++ flat_map nodes_sel sub
  end.

(* the Variable node of a variable definition is a value node too *)
Definition nodes_var_def (v : var_def) : list node :=
  NV (VVar (vd_var v) (vd_var_loc v)) :: sub_ty (vd_type v) ++ opt_nodes sub_value (vd_default v)
    ++ flat_map nodes_dir (vd_dirs v).

Definition nodes_ivd (d : input_value_def) : list node :=
  nodes_desc (iv_desc d) ++ sub_ty (iv_type d) ++ opt_nodes sub_value (iv_default d)
    ++ flat_map nodes_dir (iv_dirs d).
Definition nodes_fd (d : field_def) : list node :=
  nodes_desc (fd_desc d) ++ flat_map nodes_ivd (fd_args d) ++ sub_ty (fd_type d) ++ flat_map nodes_dir (fd_dirs d).
Definition nodes_evd (d : enum_value_def) : list node := nodes_desc (ev_desc d) ++ flat_map nodes_dir (ev_dirs d).
Definition nodes_otd (d : op_type_def) : list node := sub_ty (ot_type d).

Definition nodes_def (d : definition) : list node :=
  match d with
  | DOperation _ _ vds dirs _ sels _ =>
      flat_map nodes_var_def vds ++ flat_map nodes_dir dirs ++ flat_map nodes_sel sels
  | DFragment _ vds tc dirs _ sels _ =>
      flat_map nodes_var_def vds ++ sub_ty tc ++ flat_map nodes_dir dirs ++ flat_map nodes_sel sels
  | DSchema _ dirs ots _ => flat_map nodes_dir dirs ++ flat_map nodes_otd ots
  | DScalar _ desc _ dirs _ => nodes_desc desc ++ flat_map nodes_dir dirs
  | DObject _ desc _ ifs dirs fs _ =>
      nodes_desc desc ++ flat_map sub_ty ifs ++ flat_map nodes_dir dirs ++ flat_map nodes_fd fs
  | DInterface _ desc _ dirs fs _ => nodes_desc desc ++ flat_map nodes_dir dirs ++ flat_map nodes_fd fs
  | DUnion _ desc _ dirs tys _ => nodes_desc desc ++ flat_map nodes_dir dirs ++ flat_map sub_ty tys
  | DEnum _ desc _ dirs vs _ => nodes_desc desc ++ flat_map nodes_dir dirs ++ flat_map nodes_evd vs
  | DInput _ desc _ dirs fs _ => nodes_desc desc ++ flat_map nodes_dir dirs ++ flat_map nodes_ivd fs
  | DDirective desc _ args _ _ => nodes_desc desc ++ flat_map nodes_ivd args
  end.

Definition nodes_doc (d : document) : list node := flat_map nodes_def (doc_defs d).

(* the loc attribute of such a node *)
Definition ty_loc (t : ty) : loc := match t with TNamed _ l | TList _ l | TNonNull _ l => l end.
Definition value_loc (v : value) : loc :=
  match v with
  | VVar _ l | VInt _ l | VFloat _ l | VString _ _ l | VBool _ l | VNull l | VEnum _ l | VList _ l | VObject _ l => l
  end.
