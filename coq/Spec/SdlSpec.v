(* What C11 demands, read off the document declaratively (GraphQL June 2018
   section 3): [declared doc] is the schema the document declares -- every
   type definition with the members of all its extensions appended in
   document order, directive definitions, root operation types from the
   schema definition / extensions or the default names -- and
   [sdl_rules_ok doc] are the type-system rules a document must satisfy.

   Literal coercion of default values is the job of value_from_ast (C07); the
   spec takes it as the function [coerce] *at the declared type in the
   declared schema* (all extensions applied).  The builder coerces against
   the un-extended types instead; where that differs the builder violates the
   spec (known finding default-vs-extension). *)
From PyGql Require Export Schema.SdlBuild.

Definition is_typedef (d : definition) : bool :=
  match typedef_name d with Some _ => true | None => false end.
Definition is_typeext (d : definition) : bool :=
  match typeext_name d with Some _ => true | None => false end.
Definition is_extension (d : definition) : bool :=
  is_typeext d || match d with DSchema true _ _ _ => true | _ => false end.

Definition ext_fields (d : definition) : list field_def :=
  match d with DObject _ _ _ _ _ fs _ | DInterface _ _ _ _ fs _ => fs | _ => [] end.
Definition ext_ifaces (d : definition) : list ty :=
  match d with DObject _ _ _ is_ _ _ _ => is_ | _ => [] end.
Definition ext_members (d : definition) : list ty :=
  match d with DUnion _ _ _ _ ts _ => ts | _ => [] end.
Definition ext_values (d : definition) : list enum_value_def :=
  match d with DEnum _ _ _ _ vs _ => vs | _ => [] end.
Definition ext_ifields (d : definition) : list input_value_def :=
  match d with DInput _ _ _ _ fs _ => fs | _ => [] end.

(* the definition node with the members of its extensions appended *)
Definition merged (ds : list definition) (d : definition) : definition :=
  match typedef_name d with
  | None => d
  | Some n =>
    let xs := exts_for n ds in
    match d with
    | DScalar e desc nm dirs l => DScalar e desc nm (dirs ++ flat_map ext_dirs xs) l
    | DObject e desc nm is_ dirs fs l =>
        DObject e desc nm (is_ ++ flat_map ext_ifaces xs) (dirs ++ flat_map ext_dirs xs)
                (fs ++ flat_map ext_fields xs) l
    | DInterface e desc nm dirs fs l =>
        DInterface e desc nm (dirs ++ flat_map ext_dirs xs) (fs ++ flat_map ext_fields xs) l
    | DUnion e desc nm dirs ts l =>
        DUnion e desc nm (dirs ++ flat_map ext_dirs xs) (ts ++ flat_map ext_members xs) l
    | DEnum e desc nm dirs vs l =>
        DEnum e desc nm (dirs ++ flat_map ext_dirs xs) (vs ++ flat_map ext_values xs) l
    | DInput e desc nm dirs fs l =>
        DInput e desc nm (dirs ++ flat_map ext_dirs xs) (fs ++ flat_map ext_ifields xs) l
    | _ => d
    end
  end.

Definition declared_defs (doc : document) : list definition :=
  map (merged (doc_defs doc)) (filter is_typedef (doc_defs doc)).

(* kinds and coercion environment of the *declared* types *)
Definition declared_kinds (doc : document) : list (str * kind) := kinds_of [] (declared_defs doc).
Definition declared_env (doc : document) : env := env_of [] (declared_defs doc).

Definition spec_fuel : nat := build_fuel.

Definition decl_default (E : env) (t : tref) (v : option value) : option pv :=
  match v with
  | None => None
  | Some x => match coerce spec_fuel false E [] t x with Ok p => Some p | _ => None end
  end.

Definition decl_dep (ds : list directive) : option str :=
  match deprecation_reason ds with Ok r => r | _ => None end.

Definition decl_ivalue (E : env) (iv : input_value_def) : sivalue :=
  let t := tref_of (iv_type iv) in
  SIV (n_val (iv_name iv)) (n_val (iv_name iv)) t (decl_default E t (iv_default iv))
      (desc_of (iv_desc iv)) (iv_dirs iv).

Definition decl_field (E : env) (fd : field_def) : sfield :=
  SF (n_val (fd_name fd)) (n_val (fd_name fd)) (map (decl_ivalue E) (fd_args fd))
     (tref_of (fd_type fd)) (desc_of (fd_desc fd)) (decl_dep (fd_dirs fd)) (fd_dirs fd).

Definition decl_value (ev : enum_value_def) : sevalue :=
  SEV (n_val (ev_name ev)) (PStr (n_val (ev_name ev))) (desc_of (ev_desc ev))
      (decl_dep (ev_dirs ev)) (ev_dirs ev).

Definition ty_name (t : ty) : str := tref_name (tref_of t).

Definition decl_type (E : env) (d : definition) : list tdef :=
  match d with
  | DScalar _ desc n dirs _ => [TScalar (n_val n) (desc_of desc) dirs]
  | DObject _ desc n is_ dirs fs _ =>
      [TObject (n_val n) (desc_of desc) (map ty_name is_) (map (decl_field E) fs) dirs]
  | DInterface _ desc n dirs fs _ =>
      [TInterface (n_val n) (desc_of desc) (map (decl_field E) fs) dirs]
  | DUnion _ desc n dirs ts _ => [TUnion (n_val n) (desc_of desc) (map ty_name ts) dirs]
  | DEnum _ desc n dirs vs _ => [TEnum (n_val n) (desc_of desc) (map decl_value vs) dirs]
  | DInput _ desc n dirs fs _ => [TInput (n_val n) (desc_of desc) (map (decl_ivalue E) fs) dirs]
  | _ => []
  end.

Definition decl_directive (E : env) (d : definition) : list ddef :=
  match d with
  | DDirective desc n args locs _ =>
      [DD (n_val n) (desc_of desc) (map n_val locs) (map (decl_ivalue E) args)]
  | _ => []
  end.

Definition schema_def_of (ds : list definition) : option definition :=
  find (fun d => match d with DSchema false _ _ _ => true | _ => false end) ds.

Definition all_ops (ds : list definition) : list op_type_def :=
  flat_map (fun d => match d with DSchema _ _ ots _ => ots | _ => [] end)
           (match schema_def_of ds with Some d => [d] | None => [] end ++ schema_exts ds).

Definition first_op (k : op_kind) (ots : list op_type_def) : option str :=
  option_map (fun ot => ty_name (ot_type ot)) (find (fun ot => op_eqb (ot_op ot) k) ots).

Definition declared_root (ds : list definition) (ts : list tdef) (k : op_kind) (default_name : str)
  : option str :=
  match schema_def_of ds with
  | None => match default_root ts default_name with
            | Some n => Some n
            | None => first_op k (all_ops ds)
            end
  | Some _ => first_op k (all_ops ds)
  end.

(* the schema the document declares; types named like a specified / introspection
   type are the specified ones (they cannot be redefined) *)
Definition declared (doc : document) : schema :=
  let ds := doc_defs doc in
  let E := declared_env doc in
  let ts := filter (fun t => negb (default_type_name (tdef_name t)))
                   (flat_map (decl_type E) (declared_defs doc)) in
  Sch ts
      (flat_map (decl_directive E) ds)
      (declared_root ds ts OpQuery (S_ "Query"))
      (declared_root ds ts OpMutation (S_ "Mutation"))
      (declared_root ds ts OpSubscription (S_ "Subscription"))
      (flat_map (fun d => match d with DSchema _ dirs _ _ => dirs | _ => [] end)
                (match schema_def_of ds with Some d => [d] | None => [] end ++ schema_exts ds)).

(* ------------------------------------------------------------------ *)
(* the rules                                                            *)

Definition count_ops (k : op_kind) (ots : list op_type_def) : nat :=
  length (filter (fun ot => op_eqb (ot_op ot) k) ots).

Definition coercible (E : env) (iv : input_value_def) : bool :=
  match iv_default iv with
  | None => true
  | Some v => match coerce spec_fuel false E [] (tref_of (iv_type iv)) v with Ok _ => true | _ => false end
  end.

Definition dep_ok (ds : list directive) : bool :=
  match deprecation_reason ds with Ok _ => true | _ => false end.

Definition def_ivalues (d : definition) : list input_value_def :=
  match d with
  | DObject _ _ _ _ _ fs _ | DInterface _ _ _ _ fs _ => flat_map fd_args fs
  | DInput _ _ _ _ fs _ => fs
  | DDirective _ _ args _ _ => args
  | _ => []
  end.

Definition def_deps_ok (d : definition) : bool :=
  match d with
  | DObject _ _ _ _ _ fs _ | DInterface _ _ _ _ fs _ => forallb (fun f => dep_ok (fd_dirs f)) fs
  | DEnum _ _ _ _ vs _ => forallb (fun v => dep_ok (ev_dirs v)) vs
  | _ => true
  end.

Definition dir_defs (ds : list definition) : list definition :=
  filter (fun d => match d with DDirective _ _ _ _ _ => true | _ => false end) ds.

(* names are unique, one schema definition *)
Definition r_unique_types (doc : document) : bool :=
  negb (has_dup (flat_map (fun d => match typedef_name d with Some n => [n] | None => [] end) (doc_defs doc))).
Definition r_unique_directives (doc : document) : bool :=
  negb (has_dup (flat_map (fun d => match directive_name d with Some n => [n] | None => [] end) (doc_defs doc))).
Definition r_one_schema (doc : document) : bool :=
  Nat.leb (length (filter (fun d => match d with DSchema false _ _ _ => true | _ => false end) (doc_defs doc))) 1.

(* extensions extend a defined type of the same kind *)
Definition r_ext_targets (doc : document) : bool :=
  let ds := doc_defs doc in
  forallb (fun x => match typeext_name x with
                    | None => true
                    | Some n =>
                        match find (fun d => match typedef_name d with
                                             | Some m => str_eqb m n | None => false end) ds with
                        | Some d => match def_kind d, def_kind x with
                                    | Some a, Some b => kind_eqb a b
                                    | _, _ => false
                                    end
                        | None => false
                        end
                    end) ds.

(* members are unique after merging (fields, enum values, union members, interfaces, input fields) *)
Definition r_unique_members (doc : document) : bool :=
  forallb (fun d => negb (has_dup (map (fun f => n_val (fd_name f)) (ext_fields d)))
                    && negb (has_dup (map ty_name (ext_ifaces d)))
                    && negb (has_dup (map ty_name (ext_members d)))
                    && negb (has_dup (map (fun v => n_val (ev_name v)) (ext_values d)))
                    && negb (has_dup (map (fun f => n_val (iv_name f)) (ext_ifields d))))
          (declared_defs doc).

(* every reference resolves; argument / input field types are input types *)
Definition r_refs (doc : document) : bool := refs_known (declared_kinds doc) (s_types (declared doc)).
Definition r_input_types (doc : document) : bool :=
  forallb (fun d => forallb (fun iv => tref_is_input (declared_kinds doc) (tref_of (iv_type iv))) (def_ivalues d))
          (declared_defs doc ++ dir_defs (doc_defs doc)).

(* default values coerce at their declared type, @deprecated is well formed *)
Definition r_defaults (doc : document) : bool :=
  forallb (fun d => forallb (coercible (declared_env doc)) (def_ivalues d) && def_deps_ok d)
          (declared_defs doc ++ dir_defs (doc_defs doc)).

(* root operation types: each operation at most once, known types; without a
   schema definition the default names are the roots and an extension cannot
   declare that operation again *)
Definition r_ops_once (doc : document) : bool :=
  forallb (fun k => Nat.leb (count_ops k (all_ops (doc_defs doc))) 1) [OpQuery; OpMutation; OpSubscription].
Definition r_ops_known (doc : document) : bool :=
  forallb (fun ot => known (declared_kinds doc) (ty_name (ot_type ot))) (all_ops (doc_defs doc)).
Definition r_default_roots (doc : document) : bool :=
  match schema_def_of (doc_defs doc) with
  | Some _ => true
  | None => forallb (fun '(k, n) => match default_root (s_types (declared doc)) n with
                                    | Some _ => Nat.eqb (count_ops k (all_ops (doc_defs doc))) 0
                                    | None => true end)
                    [(OpQuery, S_ "Query"); (OpMutation, S_ "Mutation"); (OpSubscription, S_ "Subscription")]
  end.

(* specified directives cannot be redefined *)
Definition r_no_override (doc : document) : bool :=
  negb (overrides_specified_directive (s_ddefs (declared doc))).

(* section 3 type validation of the declared schema *)
Definition r_valid (doc : document) : bool := validate_schema (declared doc).

Definition sdl_rules_okb (doc : document) : bool :=
  r_unique_types doc && r_unique_directives doc && r_one_schema doc && r_ext_targets doc
  && r_unique_members doc && r_refs doc && r_input_types doc && r_defaults doc
  && r_ops_once doc && r_ops_known doc && r_default_roots doc && r_no_override doc && r_valid doc.

Definition sdl_rules_ok (doc : document) : Prop := sdl_rules_okb doc = true.

(* ------------------------------------------------------------------ *)
(* the guard of C11_exact: exactly the complement of the two open findings.
   At build time a default is coerced eagerly against the types as they are
   *before* extensions are applied (the definitions of the document for
   members of definitions, the built un-extended schema for members of
   extensions).  The document is outside the findings when that gives, for
   every default, what coercion at the declared type gives. *)
Definition base_env (doc : document) : env := env_of [] (filter is_typedef (doc_defs doc)).

Definition is_directive_def (d : definition) : bool :=
  match d with DDirective _ _ _ _ _ => true | _ => false end.

Definition base_ivalues (doc : document) : list input_value_def :=
  flat_map def_ivalues (filter is_typedef (doc_defs doc) ++ filter is_directive_def (doc_defs doc)).

Definition ext_ivalues (doc : document) : list input_value_def :=
  flat_map def_ivalues (type_exts (doc_defs doc)).

Definition decl_types (E : env) (tds : list definition) : list tdef :=
  filter (fun t => negb (default_type_name (tdef_name t))) (flat_map (decl_type E) tds).

(* the un-extended schema's types as the builder's second phase sees them *)
Definition built_env (doc : document) : env :=
  map (fun t => (tdef_name t, tinfo_of_tdef t))
      (decl_types (declared_env doc) (filter is_typedef (doc_defs doc))).

Definition stable_under (doc : document) (E : env) (iv : input_value_def) : Prop :=
  forall v, iv_default iv = Some v ->
    coerce build_fuel true E [] (tref_of (iv_type iv)) v
    = coerce spec_fuel false (declared_env doc) [] (tref_of (iv_type iv)) v.

Definition defaults_stable (doc : document) : Prop :=
  (forall iv, In iv (base_ivalues doc) -> stable_under doc (base_env doc) iv)
  /\ (forall iv, In iv (ext_ivalues doc) -> stable_under doc (built_env doc) iv).
