(* C14 -- what "preserved by an extension" means for a rebuilt element *)
From PyGql Require Export Spec.StoreSpec Schema.StoreExtend.
Local Open Scope N_scope.

(* v' is a rebuilt copy of the member v: name, python name, description,
   deprecation, default, resolver, subscription resolver and applied
   directives are kept (type references are re-resolved, argument lists are
   copies) *)
Definition attrs_copy (v v' : obj) : Prop :=
  match v, v' with
  | OField n py _ _ d dp r sb ds, OField n' py' _ _ d' dp' r' sb' ds' =>
      n' = n /\ py' = py /\ d' = d /\ dp' = dp /\ r' = r /\ sb' = sb /\ ds' = ds
  | OInput a n py _ df d ds, OInput a' n' py' _ df' d' ds' =>
      a' = a /\ n' = n /\ py' = py /\ df' = df /\ d' = d /\ ds' = ds
  | _, _ => False
  end.
Definition oargs (m : mem) (x : oid) : list oid :=
  match mget m x with Some (OField _ _ _ args _ _ _ _ _) => args | _ => [] end.
Definition leaf_copy (m : mem) (x x' : oid) : Prop :=
  exists v v', mget m x = Some v /\ mget m x' = Some v' /\ attrs_copy v v'.
Definition member_copy (m : mem) (x x' : oid) : Prop :=
  leaf_copy m x x' /\ Forall2 (leaf_copy m) (oargs m x) (oargs m x').

(* the type object registered under n after the extension keeps what the
   source's type had: kind, description, default / type resolver, directives
   first, and -- member by member, in order, before anything the document
   adds -- its fields / input fields (as copies) or enum values (the same
   objects) *)
Definition type_preserved (doc : extdoc) (m' : mem) (n : str) (t self : oid) : Prop :=
  exists k d ms ifs r ds ms' ifs',
    mget m' t = Some (OType n k d ms ifs r ds) /\
    mget m' self = Some (OType n k d ms' ifs' r (ds ++ flat_map ext_dirs (exts_for doc n))) /\
    exists copies added,
      ms' = copies ++ added /\
      (exts_for doc n = [] -> added = []) /\
      match k with
      | Kobject | Kinterface | Kinput => Forall2 (member_copy m') ms copies
      | _ => copies = ms
      end.
