(* Order-free specification forms for the graph- and set-flavoured validation
   rules (June 2018 specification, section 5), and the declarative pairwise
   core of FieldsInSetCanMerge. Nothing here mentions visiting order, the
   TypeInfoVisitor, accumulators or fuel. *)
From PyGql Require Export Valid.ValidSchema.

(* ---- 5.5.2 spreads occurring in a selection (at any depth) ---- *)
Inductive sel_spreads : selection -> str -> Prop :=
| ss_spread n dirs l : sel_spreads (SSpread n dirs l) (n_val n)
| ss_field alias n args dirs l0 sub l y x :
    In y sub -> sel_spreads y x -> sel_spreads (SField alias n args dirs (Some l0) sub l) x
| ss_inline tc dirs ssl sub l y x :
    In y sub -> sel_spreads y x -> sel_spreads (SInline tc dirs ssl sub l) x.

Definition sels_spread (sels : list selection) (x : str) : Prop :=
  exists y, In y sels /\ sel_spreads y x.

Definition def_sels (d : definition) : list selection :=
  match d with
  | DOperation _ _ _ _ _ sels _ => sels
  | DFragment _ _ _ _ _ sels _ => sels
  | _ => []
  end.
Definition is_operation (d : definition) : Prop :=
  match d with DOperation _ _ _ _ _ _ _ => True | _ => False end.
Definition fragment_named (d : definition) (f : str) : Prop :=
  match d with DFragment n _ _ _ _ _ _ => n_val n = f | _ => False end.
Definition defined_fragment (d : document) (f : str) : Prop :=
  exists df, In df (doc_defs d) /\ fragment_named df f.

(* the spread graph: f -> x when a definition of fragment f spreads x *)
Definition frag_edge (d : document) (f x : str) : Prop :=
  exists df, In df (doc_defs d) /\ fragment_named df f /\ sels_spread (def_sels df) x.

(* 5.5.2.2 Fragment spreads must not form cycles: a closed walk *)
Inductive walk (d : document) : str -> str -> Prop :=
| walk_one f x : frag_edge d f x -> walk d f x
| walk_step f y x : walk d f y -> frag_edge d y x -> walk d f x.
Definition has_cycle (d : document) : Prop := exists f, walk d f f.

(* fragments reachable from a selection list *)
Inductive frag_reach (d : document) (sels : list selection) : str -> Prop :=
| fr_direct x : sels_spread sels x -> frag_reach d sels x
| fr_step y x : frag_reach d sels y -> frag_edge d y x -> frag_reach d sels x.

(* 5.5.1.4 Fragments must be used *)
Definition fragment_used (d : document) (f : str) : Prop :=
  exists op, In op (doc_defs d) /\ is_operation op /\ frag_reach d (def_sels op) f.
Definition spec_no_unused_fragments (d : document) : Prop :=
  forall f, defined_fragment d f -> fragment_used d f.

(* 5.5.2.1 Fragment spread target defined *)
Definition spec_known_fragment_names (d : document) : Prop :=
  forall df x, In df (doc_defs d) -> sels_spread (def_sels df) x -> defined_fragment d x.

(* 5.2.2.1 Lone anonymous operation *)
Definition anonymous_op (d : definition) : Prop :=
  match d with DOperation _ None _ _ _ _ _ => True | _ => False end.
Definition spec_lone_anonymous (d : document) : Prop :=
  (exists a, In a (doc_defs d) /\ anonymous_op a) ->
  length (filter (fun x => match x with DOperation _ _ _ _ _ _ _ => true | _ => false end)
                 (doc_defs d)) <= 1.

(* ---- variables occurring in values, arguments, directives, selections ---- *)
Inductive value_has_var : value -> str -> Prop :=
| vh_var n l : value_has_var (VVar n l) (n_val n)
| vh_list vs l y x : In y vs -> value_has_var y x -> value_has_var (VList vs l) x
| vh_obj fs l n y fl x : In (n, y, fl) fs -> value_has_var y x -> value_has_var (VObject fs l) x.

Definition args_have_var (args : list argument) (x : str) : Prop :=
  exists a, In a args /\ value_has_var (a_val a) x.
Definition dirs_have_var (dirs : list directive) (x : str) : Prop :=
  exists dr, In dr dirs /\ args_have_var (d_args dr) x.

Inductive sel_has_var : selection -> str -> Prop :=
| sv_field_args alias n args dirs sl sub l x :
    args_have_var args x -> sel_has_var (SField alias n args dirs sl sub l) x
| sv_field_dirs alias n args dirs sl sub l x :
    dirs_have_var dirs x -> sel_has_var (SField alias n args dirs sl sub l) x
| sv_field_sub alias n args dirs l0 sub l y x :
    In y sub -> sel_has_var y x -> sel_has_var (SField alias n args dirs (Some l0) sub l) x
| sv_spread n dirs l x : dirs_have_var dirs x -> sel_has_var (SSpread n dirs l) x
| sv_inline_dirs tc dirs ssl sub l x : dirs_have_var dirs x -> sel_has_var (SInline tc dirs ssl sub l) x
| sv_inline_sub tc dirs ssl sub l y x :
    In y sub -> sel_has_var y x -> sel_has_var (SInline tc dirs ssl sub l) x.

Definition def_dirs (d : definition) : list directive :=
  match d with
  | DOperation _ _ _ dirs _ _ _ => dirs
  | DFragment _ _ _ dirs _ _ _ => dirs
  | _ => []
  end.
(* a variable is used by a definition: in its directives or its selections *)
Definition def_has_var (df : definition) (x : str) : Prop :=
  dirs_have_var (def_dirs df) x \/ exists y, In y (def_sels df) /\ sel_has_var y x.

(* 5.8.3 / 5.8.4: the variables an operation uses: in its own body and in
   every fragment reachable from it *)
Definition op_uses_var (d : document) (op : definition) (x : str) : Prop :=
  def_has_var op x
  \/ exists f df, frag_reach d (def_sels op) f /\ In df (doc_defs d) /\ fragment_named df f /\ def_has_var df x.

Definition op_defines (op : definition) (x : str) : Prop :=
  match op with
  | DOperation _ _ vds _ _ _ _ => exists vd, In vd vds /\ n_val (vd_var vd) = x
  | _ => False
  end.

Definition spec_no_undefined_variables (d : document) : Prop :=
  forall op x, In op (doc_defs d) -> is_operation op -> op_uses_var d op x -> op_defines op x.
Definition spec_no_unused_variables (d : document) : Prop :=
  forall op x, In op (doc_defs d) -> is_operation op -> op_defines op x -> op_uses_var d op x.

(* ---- 5.3.2 FieldsInSetCanMerge, pairwise core ---- *)
(* values equal up to locations *)
Inductive same_value_spec : value -> value -> Prop :=
| sv_var n m l l' : n_val n = n_val m -> same_value_spec (VVar n l) (VVar m l')
| sv_int x l l' : same_value_spec (VInt x l) (VInt x l')
| sv_float x l l' : same_value_spec (VFloat x l) (VFloat x l')
| sv_string x b b' l l' : same_value_spec (VString x b l) (VString x b' l')
| sv_bool x l l' : same_value_spec (VBool x l) (VBool x l')
| sv_null l l' : same_value_spec (VNull l) (VNull l')
| sv_enum x l l' : same_value_spec (VEnum x l) (VEnum x l')
| sv_list xs ys l l' : Forall2 same_value_spec xs ys -> same_value_spec (VList xs l) (VList ys l')
| sv_object fs gs l l' :
    Forall2 (fun f g => n_val (fst (fst f)) = n_val (fst (fst g))
                        /\ same_value_spec (snd (fst f)) (snd (fst g))) fs gs ->
    same_value_spec (VObject fs l) (VObject gs l').

(* "identical sets of arguments": every argument of one call has a namesake
   with an equal value in the other, and the calls have as many arguments *)
Definition args_match (l1 l2 : list argument) : Prop :=
  forall a, In a l1 -> exists b, In b l2 /\ n_val (a_name a) = n_val (a_name b)
                                  /\ same_value_spec (a_val a) (a_val b).
Definition args_match_rev (l1 l2 : list argument) : Prop :=
  forall b, In b l2 -> exists a, In a l1 /\ n_val (a_name a) = n_val (a_name b)
                                  /\ same_value_spec (a_val a) (a_val b).
Definition same_arguments_spec (l1 l2 : list argument) : Prop :=
  length l1 = length l2 /\ args_match l1 l2 /\ args_match_rev l1 l2.

(* SameResponseShape on the declared types *)
Inductive same_shape (s : schema) : tref -> tref -> Prop :=
| shape_list a b : same_shape s a b -> same_shape s (RList a) (RList b)
| shape_nonnull a b : same_shape s a b -> same_shape s (RNonNull a) (RNonNull b)
| shape_leaf a : same_shape s (RNamed a) (RNamed a)
| shape_composite a b : is_leaf s a = false -> is_leaf s b = false -> same_shape s (RNamed a) (RNamed b).

(* ---- static descent (C05): the named parent type under which a node of a
        definition is met when the selection is walked with the schema ---- *)
Definition composite_name (s : schema) (t : option tref) : option str :=
  match t with
  | Some r => if is_composite s (unwrap r) then Some (unwrap r) else None
  | None => None
  end.
Definition field_lookup (s : schema) (p : option str) (fname : str) : option sfield :=
  match p with Some q => get_field_def s q fname | None => None end.

Inductive descends (s : schema) : option str -> selection -> option str -> selection -> Prop :=
| desc_here p x : descends s p x p x
| desc_field p alias n args dirs l0 sub l y q z :
    In y sub ->
    descends s (composite_name s (option_map sf_type (field_lookup s p (n_val n)))) y q z ->
    descends s p (SField alias n args dirs (Some l0) sub l) q z
| desc_inline_on p t dirs ssl sub l y q z :
    In y sub -> descends s (composite_name s (type_from_ast s t)) y q z ->
    descends s p (SInline (Some t) dirs ssl sub l) q z
| desc_inline p dirs ssl sub l y q z :
    In y sub -> descends s p y q z -> descends s p (SInline None dirs ssl sub l) q z.

Definition def_parent (s : schema) (df : definition) : option str :=
  match df with
  | DOperation k _ _ _ _ _ _ =>
      match root_type s k with Some r => if is_object s r then Some r else None | None => None end
  | DFragment _ _ tc _ _ _ _ => composite_name s (type_from_ast s tc)
  | _ => None
  end.

Definition reaches (s : schema) (d : document) (q : option str) (z : selection) : Prop :=
  exists df x, In df (doc_defs d) /\ In x (def_sels df) /\ descends s (def_parent s df) x q z.

(* executing could get stuck: a field its parent type does not define, or a
   spread of a fragment that does not exist *)
Definition static_stuck (s : schema) (d : document) : Prop :=
  (exists p alias n args dirs sl sub l,
      reaches s d (Some p) (SField alias n args dirs sl sub l) /\ get_field_def s p (n_val n) = None)
  \/ (exists q n dirs l, reaches s d q (SSpread n dirs l) /\ ~ defined_fragment d (n_val n)).

(* the response could not have the shape of the selection: a leaf with a
   sub-selection or a composite without one *)
Definition static_misshaped (s : schema) (d : document) : Prop :=
  exists p alias n args dirs sl sub l f,
    reaches s d (Some p) (SField alias n args dirs sl sub l) /\ get_field_def s p (n_val n) = Some f /\
    ((is_leaf s (unwrap (sf_type f)) = true /\ sl <> None)
     \/ (is_composite s (unwrap (sf_type f)) = true /\ sl = None)).
