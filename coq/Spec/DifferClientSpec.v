(* C20, clause "every operation valid against the old schema is valid against
   the new one": the schema-dependent validation rules over a document model
   with variables, values, directives, inline fragments and the three roots.

   Rules expressed (each is one named component of [csel_ok] / [op_ok]):
     FieldsOnCorrectType, ScalarLeafs, KnownArgumentNames (fields and
     directives), ProvidedRequiredArguments (fields and directives),
     ValuesOfCorrectType (literals incl. enum values, input objects with known,
     required and typed fields, list coercion of single values),
     VariablesInAllowedPosition (+ the variable is defined), KnownTypeNames /
     VariablesAreInputTypes (variable definitions), KnownTypeNames /
     FragmentsOnCompositeTypes (type conditions), PossibleFragmentSpreads
     (inline fragments), KnownDirectives (name and location), root operation
     type present.
   Named fragments: a document is one operation with the fragment definitions
   it may spread; a spread is checked where it stands (fragment known,
   PossibleFragmentSpreads against the fragment's type condition, directives),
   the fragment's selection once at its definition, against its type condition
   and with the operation's variables (as the specification validates).
   Not expressed: OverlappingFieldsCanBeMerged -- the only schema-dependent
   rule left out: a field becoming non-null (a safe output change) can make two
   fields with the same response key in one merged scope conflict (graphql-js
   documents the same exception); [distinct_keys] below is a decidable guard
   under which the rule has nothing to compare.  Rules that do not depend on
   the schema (fragment cycles, unused fragments, unique names, ...) are
   unaffected by a schema change. *)
From PyGql Require Export Schema.SchemaFull Spec.DifferSpec.

Inductive value :=
| VVar (x : str) | VNull | VInt | VFloat | VStr | VBool | VEnum (x : str)
| VList (l : list value)
| VObj (fs : list (str * value)).

Definition argvals := list (str * value).
Definition dir_uses := list (str * argvals).

Inductive csel :=
| CField (name : str) (args : argvals) (dirs : dir_uses) (sub : list csel)
| CInline (type_condition : option str) (dirs : dir_uses) (sub : list csel)
| CSpread (fragment : str) (dirs : dir_uses).

(* fragment NAME on TYPE @dirs { selection } *)
Record fragment_def := mkFrag {
  fr_name : str; fr_type : str; fr_dirs : dir_uses; fr_sel : list csel }.

Inductive op_kind := OQuery | OMutation | OSubscription.

Record operation := mkOp {
  o_kind : op_kind;
  o_vars : list (str * (ty * bool));      (* $name : type, has a default value *)
  o_dirs : dir_uses;
  o_sel : list csel;
  o_frags : list fragment_def }.         (* the fragments of the document; validated with this operation's variables *)

(* AreTypesCompatible (June-2018 5.8.5): variable type [v] where [l] is expected *)
Fixpoint compat (v l : ty) {struct v} : bool :=
  match v with
  | TyNonNull v' =>
      match l with
      | TyNonNull l' => compat v' l'
      | _ => compat v' l
      end
  | TyList v' => match l with TyList l' => compat v' l' | _ => false end
  | TyNamed a => match l with TyNamed b => str_eqb a b | _ => false end
  end.

(* IsVariableUsageAllowed: [vd] the variable has a default, [ld] the location
   (argument / input field) has a default *)
Definition var_allowed (vt : ty) (vd ld : bool) (lt : ty) : bool :=
  match lt with
  | TyNonNull lt' => if is_non_null vt then compat vt lt else (vd || ld) && compat vt lt'
  | _ => compat vt lt
  end.

Definition has_default {A} (d : option A) : bool := match d with Some _ => true | None => false end.

Definition op_location (k : op_kind) : str :=
  str_of_string match k with OQuery => "QUERY" | OMutation => "MUTATION" | OSubscription => "SUBSCRIPTION" end%string.

Section Client.
  (* which literals a (specified or custom) scalar of that name accepts; a
     property of the scalar, not of the schema *)
  Variable scalar_lit : str -> value -> bool.
  Variable s : schema.
  Variable vars : list (str * (ty * bool)).
  Variable frags : list fragment_def.

  Definition find_frag (n : str) : option fragment_def :=
    find (fun f => str_eqb n (fr_name f)) frags.

  (* ValuesOfCorrectType + VariablesInAllowedPosition; [ld]: the position has a default *)
  Inductive value_ok : bool -> ty -> value -> Prop :=
  | vo_var ld t x vt vd :
      alookup x vars = Some (vt, vd) -> var_allowed vt vd ld t = true -> value_ok ld t (VVar x)
  | vo_null ld t : is_non_null t = false -> value_ok ld t VNull
  | vo_non_null ld t v :
      v <> VNull -> (forall x, v <> VVar x) -> value_ok false t v -> value_ok ld (TyNonNull t) v
  | vo_list ld t l : items_ok t l -> value_ok ld (TyList t) (VList l)
  | vo_single ld t v :
      (forall l, v <> VList l) -> v <> VNull -> (forall x, v <> VVar x) ->
      value_ok false t v -> value_ok ld (TyList t) v
  | vo_scalar ld n v :
      user_body s n = Some BScalar -> scalar_lit n v = true -> value_ok ld (TyNamed n) v
  | vo_enum ld n x vs :
      user_body s n = Some (BEnum vs) -> find_enum vs x <> None -> value_ok ld (TyNamed n) (VEnum x)
  | vo_obj ld n fs gs :
      user_body s n = Some (BInput fs) -> fields_ok fs gs ->
      (forall f, In f fs -> is_non_null (i_type f) = true -> i_default f = None ->
                 In (i_name f) (map fst gs)) ->
      value_ok ld (TyNamed n) (VObj gs)
  with items_ok : ty -> list value -> Prop :=
  | io_nil t : items_ok t []
  | io_cons t v l : value_ok false t v -> items_ok t l -> items_ok t (v :: l)
  with fields_ok : list input_field -> list (str * value) -> Prop :=
  | fo_nil fs : fields_ok fs []
  | fo_cons fs k v gs f :
      find_input fs k = Some f -> value_ok (has_default (i_default f)) (i_type f) v ->
      fields_ok fs gs -> fields_ok fs ((k, v) :: gs).

  (* KnownArgumentNames + value rules for every given argument;
     ProvidedRequiredArguments for every declared one *)
  Definition given_args_ok (defs : list arg_def) (given : argvals) : Prop :=
    Forall (fun kv => exists a, find_arg defs (fst kv) = Some a
                              /\ value_ok (has_default (a_default a)) (a_type a) (snd kv)) given.
  Definition required_args_given (defs : list arg_def) (given : argvals) : Prop :=
    forall a, In a defs -> required_arg a -> In (a_name a) (map fst given).
  Definition args_ok (defs : list arg_def) (given : argvals) : Prop :=
    given_args_ok defs given /\ required_args_given defs given.

  (* KnownDirectives (name, location) and the directive's arguments *)
  Definition dirs_ok (loc : str) (ds : dir_uses) : Prop :=
    Forall (fun du => exists d, find_dir (s_dirs s) (fst du) = Some d /\ In loc (d_locs d)
                              /\ args_ok (d_args d) (snd du)) ds.

  (* possible types of a composite type; PossibleFragmentSpreads *)
  Definition possible_of (t obj : str) : Prop :=
    exists ifaces fs r, user_body s obj = Some (BObject ifaces fs r)
      /\ (t = obj
          \/ (exists ms, user_body s t = Some (BUnion ms) /\ In obj ms)
          \/ (exists ifs, user_body s t = Some (BInterface ifs) /\ In t ifaces)).
  Definition overlap (a b : str) : Prop := exists obj, possible_of a obj /\ possible_of b obj.

  Fixpoint csel_ok (x : csel) (parent : str) {struct x} : Prop :=
    match x with
    | CField name args dirs sub =>
        exists fs f,
          (composite_fields s parent = Some fs /\ find_field fs name = Some f)   (* FieldsOnCorrectType *)
          /\ args_ok (f_args f) args
          /\ dirs_ok (str_of_string "FIELD") dirs
          /\ (if is_leaf s (unwrap (f_type f)) then sub = []                     (* ScalarLeafs *)
              else sub <> [] /\ composite_fields s (unwrap (f_type f)) <> None
                   /\ (fix all (l : list csel) : Prop :=
                         match l with [] => True | y :: l' => csel_ok y (unwrap (f_type f)) /\ all l' end) sub)
    | CInline tc dirs sub =>
        let t := match tc with Some c => c | None => parent end in
        composite_fields s t <> None                       (* KnownTypeNames / FragmentsOnCompositeTypes *)
        /\ overlap parent t                                (* PossibleFragmentSpreads *)
        /\ dirs_ok (str_of_string "INLINE_FRAGMENT") dirs
        /\ (fix all (l : list csel) : Prop :=
              match l with [] => True | y :: l' => csel_ok y t /\ all l' end) sub
    | CSpread name dirs =>
        (* KnownFragmentNames is schema-independent; the fragment's own selection
           is checked once, at its definition ([fragment_ok]) *)
        exists fr, find_frag name = Some fr
          /\ overlap parent (fr_type fr)                  (* PossibleFragmentSpreads *)
          /\ dirs_ok (str_of_string "FRAGMENT_SPREAD") dirs
    end.

  (* a fragment definition: FragmentsOnCompositeTypes / KnownTypeNames, its
     directives, and its selection against its type condition *)
  Definition fragment_ok (fr : fragment_def) : Prop :=
    composite_fields s (fr_type fr) <> None
    /\ dirs_ok (str_of_string "FRAGMENT_DEFINITION") (fr_dirs fr)
    /\ Forall (fun x => csel_ok x (fr_type fr)) (fr_sel fr).

  (* KnownTypeNames + VariablesAreInputTypes for variable definitions *)
  Definition var_defs_ok (vs : list (str * (ty * bool))) : Prop :=
    Forall (fun v => exists b, user_body s (unwrap (fst (snd v))) = Some b
                               /\ (b = BScalar \/ (exists x, b = BEnum x) \/ (exists x, b = BInput x))) vs.
End Client.

(* OverlappingFieldsCanBeMerged compares pairs of distinct field selections
   with the same response key (this model has no aliases: the key is the field
   name) collected into one scope through inline fragments and spreads.  The
   guard: in every selection set, after flattening fragments ([fuel] bounds
   spread expansion), no field name occurs twice. *)
Fixpoint scope_keys (fuel : nat) (frags : list fragment_def) (l : list csel) : list str :=
  match fuel with
  | 0 => []
  | Datatypes.S fuel' =>
      flat_map (fun x =>
        match x with
        | CField name _ _ _ => [name]
        | CInline _ _ sub => scope_keys fuel' frags sub
        | CSpread name _ =>
            match find (fun f => str_eqb name (fr_name f)) frags with
            | Some fr => scope_keys fuel' frags (fr_sel fr)
            | None => []
            end
        end) l
  end.

Fixpoint nodup_str (l : list str) : bool :=
  match l with [] => true | x :: l' => negb (mem_str x l') && nodup_str l' end.

(* every selection set nested in a selection has pairwise distinct keys *)
Fixpoint sel_distinct (fuel : nat) (frags : list fragment_def) (x : csel) {struct x} : bool :=
  match x with
  | CField _ _ _ sub => nodup_str (scope_keys fuel frags sub) && forallb (sel_distinct fuel frags) sub
  | CInline _ _ sub => nodup_str (scope_keys fuel frags sub) && forallb (sel_distinct fuel frags) sub
  | CSpread _ _ => true
  end.

Definition distinct_keys (fuel : nat) (frags : list fragment_def) (l : list csel) : bool :=
  nodup_str (scope_keys fuel frags l) && forallb (sel_distinct fuel frags) l.

Definition doc_distinct_keys (fuel : nat) (op : operation) : bool :=
  distinct_keys fuel (o_frags op) (o_sel op)
  && forallb (fun fr => distinct_keys fuel (o_frags op) (fr_sel fr)) (o_frags op).

(* the selection sets of a document: the operation's, the fragments', and every nested one *)
Fixpoint sel_scopes (x : csel) : list (list csel) :=
  match x with
  | CField _ _ _ sub => sub :: flat_map sel_scopes sub
  | CInline _ _ sub => sub :: flat_map sel_scopes sub
  | CSpread _ _ => []
  end.
Definition scopes (l : list csel) : list (list csel) := l :: flat_map sel_scopes l.
Definition doc_scopes (op : operation) : list (list csel) :=
  scopes (o_sel op) ++ flat_map (fun fr => scopes (fr_sel fr)) (o_frags op).

(* OverlappingFieldsCanBeMerged, whatever its pairwise condition [cond] is
   (same response shape, same field and arguments, mergeable sub-selections):
   it constrains the keys that occur at two different positions of one
   flattened selection set *)
Definition merge_rule (cond : list csel -> str -> Prop) (fuel : nat) (op : operation) : Prop :=
  forall sc, In sc (doc_scopes op) ->
    forall i j k, i <> j ->
      nth_error (scope_keys fuel (o_frags op) sc) i = Some k ->
      nth_error (scope_keys fuel (o_frags op) sc) j = Some k -> cond sc k.

Definition root_of (s : schema) (k : op_kind) : option str :=
  match k with OQuery => s_query s | OMutation => s_mutation s | OSubscription => s_subscription s end.

Definition op_ok (scalar_lit : str -> value -> bool) (s : schema) (op : operation) : Prop :=
  exists root,
    root_of s (o_kind op) = Some root /\ composite_fields s root <> None
    /\ var_defs_ok s (o_vars op)
    /\ dirs_ok scalar_lit s (o_vars op) (op_location (o_kind op)) (o_dirs op)
    /\ Forall (fun x => csel_ok scalar_lit s (o_vars op) (o_frags op) x root) (o_sel op)
    /\ Forall (fragment_ok scalar_lit s (o_vars op) (o_frags op)) (o_frags op).

(* ------------------------------------------------ positions, at schema level *)
(* "every output position is at least as strict as before and every input
   position at least as permissive": for the members present in both schemas *)
Section Positions.
  Variable base : str -> pv -> Prop.
  Variables o n : schema.

  Definition output_positions_ok : Prop :=
    forall tn fs fs' fn f g,
      user_fields o tn = Some fs -> user_fields n tn = Some fs' ->
      find_field fs fn = Some f -> find_field fs' fn = Some g ->
      forall v, out_value base (f_type g) v -> out_value base (f_type f) v.

  Definition argument_positions_ok : Prop :=
    forall tn fs fs' fn f g an a b,
      user_fields o tn = Some fs -> user_fields n tn = Some fs' ->
      find_field fs fn = Some f -> find_field fs' fn = Some g ->
      find_arg (f_args f) an = Some a -> find_arg (f_args g) an = Some b ->
      forall v, in_value base (a_type a) v -> in_value base (a_type b) v.

  Definition input_field_positions_ok : Prop :=
    forall tn fs fs' fn f g,
      user_body o tn = Some (BInput fs) -> user_body n tn = Some (BInput fs') ->
      find_input fs fn = Some f -> find_input fs' fn = Some g ->
      forall v, in_value base (i_type f) v -> in_value base (i_type g) v.

  Definition directive_argument_positions_ok : Prop :=
    forall dn d d' an a b,
      user_dir o dn = Some d -> user_dir n dn = Some d' ->
      find_arg (d_args d) an = Some a -> find_arg (d_args d') an = Some b ->
      forall v, in_value base (a_type a) v -> in_value base (a_type b) v.
End Positions.
