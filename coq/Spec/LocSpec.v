(* "Every loc recorded in the tree satisfies phi", for every node class of
   Lang/Ast.v.  Used to state C02_no_location (phi = absent) and the span
   bounds (phi = inside the text). *)
From PyGql Require Export Lang.Ast.

Section Locs.
Variable phi : loc -> Prop.

Definition q_opt {A} (Q : A -> Prop) (o : option A) : Prop :=
  match o with Some x => Q x | None => True end.
Definition q_name (x : name) : Prop := phi (n_loc x).
Fixpoint q_ty (t : ty) : Prop :=
  match t with
  | TNamed n l => q_name n /\ phi l
  | TList t l => q_ty t /\ phi l
  | TNonNull t l => q_ty t /\ phi l
  end.
Inductive q_value : value -> Prop :=
| QVar n l : q_name n -> phi l -> q_value (VVar n l)
| QInt s l : phi l -> q_value (VInt s l)
| QFloat s l : phi l -> q_value (VFloat s l)
| QString s b l : phi l -> q_value (VString s b l)
| QBool b l : phi l -> q_value (VBool b l)
| QNull l : phi l -> q_value (VNull l)
| QEnum s l : phi l -> q_value (VEnum s l)
| QList vs l : Forall q_value vs -> phi l -> q_value (VList vs l)
| QObject fs l :
    Forall (fun f => q_name (fst (fst f)) /\ q_value (snd (fst f)) /\ phi (snd f)) fs ->
    phi l -> q_value (VObject fs l).
Definition q_arg (a : argument) : Prop := q_name (a_name a) /\ q_value (a_val a) /\ phi (a_loc a).
Definition q_dir (d : directive) : Prop := q_name (d_name d) /\ Forall q_arg (d_args d) /\ phi (d_loc d).
Inductive q_sel : selection -> Prop :=
| QField al n args dirs sl sub l :
    q_opt q_name al -> q_name n -> Forall q_arg args -> Forall q_dir dirs -> q_opt phi sl ->
    Forall q_sel sub -> phi l -> q_sel (SField al n args dirs sl sub l)
| QSpread n dirs l : q_name n -> Forall q_dir dirs -> phi l -> q_sel (SSpread n dirs l)
| QInline tc dirs ssl sub l :
    q_opt q_ty tc -> Forall q_dir dirs -> phi ssl -> Forall q_sel sub -> phi l ->
    q_sel (SInline tc dirs ssl sub l).
Definition q_selset (x : list selection * loc) : Prop := Forall q_sel (fst x) /\ phi (snd x).
Definition q_var (v : name * loc) : Prop := q_name (fst v) /\ phi (snd v).
Definition q_vardef (v : var_def) : Prop :=
  q_name (vd_var v) /\ phi (vd_var_loc v) /\ q_ty (vd_type v) /\ q_opt q_value (vd_default v)
  /\ Forall q_dir (vd_dirs v) /\ phi (vd_loc v).
Definition q_strval (s : strval) : Prop := phi (sv_loc s).
Definition q_ivdef (v : input_value_def) : Prop :=
  q_opt q_strval (iv_desc v) /\ q_name (iv_name v) /\ q_ty (iv_type v) /\ q_opt q_value (iv_default v)
  /\ Forall q_dir (iv_dirs v) /\ phi (iv_loc v).
Definition q_fdef (f : field_def) : Prop :=
  q_opt q_strval (fd_desc f) /\ q_name (fd_name f) /\ Forall q_ivdef (fd_args f) /\ q_ty (fd_type f)
  /\ Forall q_dir (fd_dirs f) /\ phi (fd_loc f).
Definition q_evdef (v : enum_value_def) : Prop :=
  q_opt q_strval (ev_desc v) /\ q_name (ev_name v) /\ Forall q_dir (ev_dirs v) /\ phi (ev_loc v).
Definition q_otdef (o : op_type_def) : Prop := q_ty (ot_type o) /\ phi (ot_loc o).
Definition q_def (d : definition) : Prop :=
  match d with
  | DOperation _ n vds dirs ssl sels l =>
      q_opt q_name n /\ Forall q_vardef vds /\ Forall q_dir dirs /\ phi ssl /\ Forall q_sel sels /\ phi l
  | DFragment n vds tc dirs ssl sels l =>
      q_name n /\ Forall q_vardef vds /\ q_ty tc /\ Forall q_dir dirs /\ phi ssl /\ Forall q_sel sels /\ phi l
  | DSchema _ dirs ots l => Forall q_dir dirs /\ Forall q_otdef ots /\ phi l
  | DScalar _ d n dirs l => q_opt q_strval d /\ q_name n /\ Forall q_dir dirs /\ phi l
  | DObject _ d n ifs dirs fs l =>
      q_opt q_strval d /\ q_name n /\ Forall q_ty ifs /\ Forall q_dir dirs /\ Forall q_fdef fs /\ phi l
  | DInterface _ d n dirs fs l =>
      q_opt q_strval d /\ q_name n /\ Forall q_dir dirs /\ Forall q_fdef fs /\ phi l
  | DUnion _ d n dirs ts l =>
      q_opt q_strval d /\ q_name n /\ Forall q_dir dirs /\ Forall q_ty ts /\ phi l
  | DEnum _ d n dirs vs l =>
      q_opt q_strval d /\ q_name n /\ Forall q_dir dirs /\ Forall q_evdef vs /\ phi l
  | DInput _ d n dirs fs l =>
      q_opt q_strval d /\ q_name n /\ Forall q_dir dirs /\ Forall q_ivdef fs /\ phi l
  | DDirective d n args locs l =>
      q_opt q_strval d /\ q_name n /\ Forall q_ivdef args /\ Forall q_name locs /\ phi l
  end.
Definition q_doc (d : document) : Prop := Forall q_def (doc_defs d) /\ phi (doc_loc d).

End Locs.

Definition loc_absent (l : loc) : Prop := l = None.
Definition loc_within (n : nat) (l : loc) : Prop :=
  match l with Some (a, b) => a <= n /\ b <= n | None => True end.
(* full strength: ordered, inside the text, and present exactly when enabled *)
Definition loc_span_ok (no_loc : bool) (n : nat) (l : loc) : Prop :=
  match l with Some (a, b) => no_loc = false /\ a <= b /\ b <= n | None => no_loc = true end.
