(* C10 -- what a well-formed response is (GraphQL June 2018, section 7.1
   "Response Format"), declaratively.  [doc] is the submitted request text. *)
From PyGql Require Import Base.Str Lang.LocModel Exec.ResponseModel.

(* {"line": l, "column": c} with 1-based l, c denoting a place inside doc *)
Definition wf_location (doc : str) (j : json) : Prop :=
  exists kvs l c,
    j = JObj kvs /\ length kvs = 2 /\
    alookup k_line kvs = Some (JInt l) /\ alookup k_column kvs = Some (JInt c) /\
    (1 <= l)%Z /\ (1 <= c)%Z /\
    loc_inside_b doc (Z.to_nat l) (Z.to_nat c) = true.

(* a path segment is a key (string) or a list index (non-negative integer) *)
Definition wf_pseg (j : json) : Prop :=
  (exists k, j = JStr k) \/ (exists i, j = JInt i /\ (0 <= i)%Z).

Definition error_keys : list str := [k_message; k_locations; k_path; k_extensions].

(* {message: string, locations?: [location], path?: [key|index], extensions?: {...}} *)
Definition wf_error (doc : str) (j : json) : Prop :=
  exists kvs,
    j = JObj kvs /\ NoDup (map fst kvs) /\
    (forall k, In k (map fst kvs) -> In k error_keys) /\
    (exists m, alookup k_message kvs = Some (JStr m)) /\
    (forall v, alookup k_locations kvs = Some v ->
               exists ls, v = JArr ls /\ Forall (wf_location doc) ls) /\
    (forall v, alookup k_path kvs = Some v ->
               exists ps, v = JArr ps /\ Forall wf_pseg ps) /\
    (forall v, alookup k_extensions kvs = Some v -> exists o, v = JObj o).

Definition response_keys : list str := [k_errors; k_data; k_extensions].

(* The response is a map with "errors" (when present: a non-empty list of
   well-formed errors), "data", "extensions"; it serialises to strict JSON;
   when "data" is absent, "errors" is present. *)
Definition wf_response (doc : str) (r : json) : Prop :=
  exists kvs,
    r = JObj kvs /\ NoDup (map fst kvs) /\
    (forall k, In k (map fst kvs) -> In k response_keys) /\
    strict_json r = true /\
    (forall v, alookup k_errors kvs = Some v ->
               exists es, v = JArr es /\ es <> [] /\ Forall (wf_error doc) es) /\
    (alookup k_data kvs = None -> alookup k_errors kvs <> None).

(* "data" is omitted exactly when the document failed to parse or validate *)
Definition data_presence (failed_parse_or_validation : bool) (r : json) : Prop :=
  exists kvs, r = JObj kvs /\
    (alookup k_data kvs = None <-> failed_parse_or_validation = true).

(* ---- nulls against error paths *)
Fixpoint jget (j : json) (p : path) : option json :=
  match p with
  | [] => Some j
  | PKey k :: r =>
      match j with
      | JObj kvs => match alookup k kvs with Some v => jget v r | None => None end
      | _ => None
      end
  | PIdx i :: r =>
      match j with
      | JArr l => match nth_error l i with Some v => jget v r | None => None end
      | _ => None
      end
  end.

Definition pseg_eqb (a b : pseg) : bool :=
  match a, b with
  | PKey x, PKey y => str_eqb x y
  | PIdx x, PIdx y => Nat.eqb x y
  | _, _ => false
  end.

Fixpoint path_eqb (a b : path) : bool :=
  match a, b with
  | [], [] => true
  | x :: a', y :: b' => pseg_eqb x y && path_eqb a' b'
  | _, _ => false
  end.

(* reading a response error's "path" back *)
Definition pseg_of_json (j : json) : option pseg :=
  match j with
  | JStr k => Some (PKey k)
  | JInt i => if (0 <=? i)%Z then Some (PIdx (Z.to_nat i)) else None
  | _ => None
  end.

Fixpoint path_of_jsons (l : list json) : option path :=
  match l with
  | [] => Some []
  | j :: r => match pseg_of_json j, path_of_jsons r with
              | Some sg, Some p => Some (sg :: p)
              | _, _ => None
              end
  end.

Definition error_path (e : json) : option path :=
  match e with
  | JObj kvs => match alookup k_path kvs with
                | Some (JArr l) => path_of_jsons l
                | _ => None
                end
  | _ => None
  end.

Definition response_errors (r : json) : list json :=
  match r with
  | JObj kvs => match alookup k_errors kvs with Some (JArr es) => es | _ => [] end
  | _ => []
  end.

Definition response_data (r : json) : option json :=
  match r with JObj kvs => alookup k_data kvs | _ => None end.

Definition count_path (p : path) (ps : list (option path)) : nat :=
  length (filter (fun q => match q with Some q' => path_eqb p q' | None => false end) ps).

(* [obligated]: the response positions that are non-nullable by the schema or
   whose resolver raised the library's ResolverError.  Every null found at such
   a position is matched by exactly one error carrying that path. *)
Definition null_error_match (obligated : list path) (r : json) : Prop :=
  forall p d, In p obligated -> response_data r = Some d -> jget d p = Some JNull ->
    count_path p (map error_path (response_errors r)) = 1.
