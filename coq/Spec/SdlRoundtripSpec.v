(* What C12 demands of the pieces of the schema printer:
   - [block_string_value]: GraphQL June 2018 section 2.9.4 BlockStringValue, the
     meaning the lexer gives to the text between triple quotes;
   - [printable]: the descriptions of the statement ("lines the printer does
     not re-wrap") that the block layout can represent;
   - [conforms]: Python values that are results of coercing a literal at a type;
   - [ast_of_schema]: the type-system document the printer's output denotes
     (what the parser returns for the printed text, locations dropped). *)
From PyGql Require Export Schema.SdlPrint.

(* ---- 2.9.4 ---------------------------------------------------------- *)
Definition is_ws (c : N) : bool := (c =? 32)%N || (c =? 9)%N.

(* split on LineTerminator: \n, \r\n, \r *)
Fixpoint split_lines (s : str) : list str :=
  match s with
  | [] => [[]]
  | 13%N :: 10%N :: r => [] :: split_lines r
  | c :: r =>
      if (c =? 10)%N || (c =? 13)%N then [] :: split_lines r
      else match split_lines r with
           | l :: ls => (c :: l) :: ls
           | [] => [[c]]
           end
  end.

Fixpoint leading_ws (s : str) : nat :=
  match s with
  | c :: r => if is_ws c then S (leading_ws r) else 0
  | [] => 0
  end.

Definition blank (s : str) : bool := forallb is_ws s.

Fixpoint common_indent (ls : list str) : option nat :=
  match ls with
  | [] => None
  | l :: r =>
      let rest := common_indent r in
      if blank l then rest
      else match rest with
           | None => Some (leading_ws l)
           | Some m => Some (Nat.min m (leading_ws l))
           end
  end.

Fixpoint drop_while_blank (ls : list str) : list str :=
  match ls with
  | l :: r => if blank l then drop_while_blank r else ls
  | [] => []
  end.

Definition block_string_value (raw : str) : str :=
  match split_lines raw with
  | [] => []
  | first :: rest =>
      let rest' := match common_indent rest with
                   | Some n => map (skipn n) rest
                   | None => rest
                   end in
      join nl (rev (drop_while_blank (rev (drop_while_blank (first :: rest')))))
  end.

(* the only escape the lexer knows inside block strings: backslash followed by
   three double quotes stands for three double quotes *)
Fixpoint unescape_triple (s : str) : str :=
  match s with
  | 92%N :: 34%N :: 34%N :: 34%N :: r => (34 :: 34 :: 34 :: unescape_triple r)%N
  | c :: r => c :: unescape_triple r
  | [] => []
  end.

(* descriptions the printer neither drops nor re-wraps, and whose layout the
   block string can carry: non-empty, no carriage return, every line within
   the width, first and last line not blank, leading whitespace made of spaces
   and tabs only, and -- when there are several lines -- some non-blank
   continuation line that is not indented *)
Definition printable (desc : str) (indent_len : nat) : bool :=
  let lines := split_nl desc in
  nonempty desc
  && negb (existsb (fun c => (c =? 13)%N) desc)
  && forallb (fun l => Nat.leb (length l) (120 - indent_len)) lines
  && negb (blank (hd [] lines)) && negb (blank (last lines []))
  && forallb (fun l => match l with c :: _ => Bool.eqb (py_space c) (is_ws c) | [] => true end) lines
  && match common_indent (tl lines) with Some n => Nat.eqb n 0 | None => true end.

Definition description_roundtrips (o : popts) (desc : str) (depth : nat) : bool :=
  str_eqb (block_string_value (unescape_triple (description_body o desc depth))) desc.

(* ---- values that are results of coercion ----------------------------- *)
Section Conforms.
  Variable E : env.

  (* the entries of a coerced input object: the fields of the type that are
     present, in the order of the type, under their python names *)
  Definition selection (fs : list ifield) (kvs : list (str * pv)) : list (str * pv) :=
    flat_map (fun fd => match alookup (if_py fd) kvs with
                        | Some v => [(if_py fd, v)]
                        | None => []
                        end) fs.

  Definition not_ast (d : dsrc) : bool := match d with DAst _ => false | _ => true end.

  (* one level of conformity; [P] is conformity of the values nested one input
     object deeper *)
  Inductive conf_step (P : tref -> pv -> Prop) : tref -> pv -> Prop :=
  | cf_null t : is_nonnull t = false -> conf_step P t PNone
  | cf_nonnull t v : is_nonnull t = false -> v <> PNone -> conf_step P t v -> conf_step P (RNonNull t) v
  | cf_list_nil t : conf_step P (RList t) (PList [])
  | cf_list_cons t x l : conf_step P t x -> conf_step P (RList t) (PList l) ->
                         conf_step P (RList t) (PList (x :: l))
  | cf_string s : conf_step P (RNamed (S_ "String")) (PStr s)
  | cf_bool b : conf_step P (RNamed (S_ "Boolean")) (PBool b)
  | cf_id s : conf_step P (RNamed (S_ "ID")) (PStr s)
  | cf_int z : strict_int32 z = true -> conf_step P (RNamed (S_ "Int")) (PInt z)
  | cf_float r : float_integral r = None -> float_repr r = r ->
                 conf_step P (RNamed (S_ "Float")) (PFloat r)
  | cf_custom_str n s : mem_str n specified_scalars = false -> alookup n E = Some IScalar ->
                        int_re s = false -> float_re s = false ->
                        conf_step P (RNamed n) (PStr s)
  | cf_custom_float n r : mem_str n specified_scalars = false -> alookup n E = Some IScalar ->
                          float_repr r = r -> conf_step P (RNamed n) (PFloat r)
  | cf_custom_bool n b : mem_str n specified_scalars = false -> alookup n E = Some IScalar ->
                         conf_step P (RNamed n) (PBool b)
  | cf_enum n vals m v : mem_str n specified_scalars = false -> alookup n E = Some (IEnum vals) ->
                         enum_name_of v vals = Some m -> alookup m vals = Some v -> v <> PNone ->
                         conf_step P (RNamed n) v
  (* an input object: exactly the present fields in type order; every field
     with a declared default is present (coercion fills it in); an absent
     field is nullable; the values of present fields conform *)
  | cf_input n fs kvs :
      mem_str n specified_scalars = false -> alookup n E = Some (IInput fs) ->
      NoDup (map if_name fs) ->
      forallb (fun fd => not_ast (if_def fd)) fs = true ->
      kvs = selection fs kvs ->
      (forall fd, In fd fs ->
         (forall v, alookup (if_py fd) kvs = Some v -> P (if_type fd) v)
         /\ (alookup (if_py fd) kvs = None -> if_def fd = DNo /\ is_nonnull (if_type fd) = false)) ->
      conf_step P (RNamed n) (PDict kvs).

  (* values a literal of that type coerces to, input objects nested to depth d *)
  Fixpoint conformsN (d : nat) : tref -> pv -> Prop :=
    match d with
    | O => conf_step (fun _ _ => False)
    | S d' => conf_step (conformsN d')
    end.

  Definition conforms (t : tref) (v : pv) : Prop := exists d, conformsN d t v.
End Conforms.

(* ---- the document a printed schema denotes --------------------------- *)
Fixpoint ty_of_tref (t : tref) : ty :=
  match t with
  | RNamed n => TNamed (Name n None) None
  | RList t' => TList (ty_of_tref t') None
  | RNonNull t' => TNonNull (ty_of_tref t') None
  end.

Definition strval_of (d : option str) : option strval :=
  match d with
  | None | Some [] => None
  | Some s => Some (StrVal s true None)
  end.

Definition mk_name (n : str) : name := Name n None.

Definition deprecated_dir (dep : option str) : list directive :=
  match dep with
  | None => []
  | Some r =>
      [Dir (mk_name (S_ "deprecated"))
           (if str_eqb r default_deprecation then []
            else [Arg (mk_name (S_ "reason")) (VString r false None) None]) None]
  end.

Definition custom_dirs (ds : list directive) : list directive :=
  filter (fun d => negb (mem_str (n_val (d_name d)) specified_directive_names)) ds.

(* A FloatValue node whose text is an integer literal (what the printer emits
   for an int value of a custom scalar) is printed as that integer and lexed
   back as an IntValue. *)
Fixpoint relex (v : value) : value :=
  match v with
  | VFloat s l => if int_re s then VInt s l else v
  | VList vs l => VList (map relex vs) l
  | VObject fs l =>
      VObject ((fix go (fs : list (name * value * loc)) : list (name * value * loc) :=
                  match fs with
                  | [] => []
                  | (k, x, lf) :: r => (k, relex x, lf) :: go r
                  end) fs) l
  | _ => v
  end.

Section AstOf.
  Variable E : env.

  Definition ivdef_of (a : sivalue) : outcome input_value_def :=
    do dflt <- match siv_default a with
               | None => Ok None
               | Some v => do n <- node_of_value print_fuel E v (siv_type a); Ok (Some (relex n))
               end;
    Ok (IVDef (strval_of (siv_desc a)) (mk_name (siv_name a)) (ty_of_tref (siv_type a)) dflt
              (custom_dirs (siv_dirs a)) None).

  Definition fdef_of (f : sfield) : outcome field_def :=
    do args <- omap ivdef_of (sf_args f);
    Ok (FDef (strval_of (sf_desc f)) (mk_name (sf_name f)) args (ty_of_tref (sf_type f))
             (deprecated_dir (sf_dep f) ++ custom_dirs (sf_dirs f)) None).

  Definition evdef_of (v : sevalue) : enum_value_def :=
    EVDef (strval_of (sev_desc v)) (mk_name (sev_name v))
          (deprecated_dir (sev_dep v) ++ custom_dirs (sev_dirs v)) None.

  Definition named_ty (n : str) : ty := TNamed (mk_name n) None.

  Definition def_of_tdef (t : tdef) : outcome definition :=
    match t with
    | TScalar n d ds => Ok (DScalar false (strval_of d) (mk_name n) (custom_dirs ds) None)
    | TObject n d is_ fs ds =>
        do fds <- omap fdef_of fs;
        Ok (DObject false (strval_of d) (mk_name n) (map named_ty is_) (custom_dirs ds) fds None)
    | TInterface n d fs ds =>
        do fds <- omap fdef_of fs;
        Ok (DInterface false (strval_of d) (mk_name n) (custom_dirs ds) fds None)
    | TUnion n d ms ds =>
        Ok (DUnion false (strval_of d) (mk_name n) (custom_dirs ds) (map named_ty ms) None)
    | TEnum n d vs ds =>
        Ok (DEnum false (strval_of d) (mk_name n) (custom_dirs ds) (map evdef_of vs) None)
    | TInput n d fs ds =>
        do ivs <- omap ivdef_of fs;
        Ok (DInput false (strval_of d) (mk_name n) (custom_dirs ds) ivs None)
    end.

  Definition def_of_ddef (d : ddef) : outcome definition :=
    do args <- omap ivdef_of (dd_args d);
    Ok (DDirective (strval_of (dd_desc d)) (mk_name (dd_name d)) args (map mk_name (dd_locs d)) None).
End AstOf.

Definition schema_def_needed (sc : schema) : bool :=
  negb (root_is_default sc (s_query sc) (S_ "Query")
        && root_is_default sc (s_mutation sc) (S_ "Mutation")
        && root_is_default sc (s_subscription sc) (S_ "Subscription"))
  || match custom_dirs (s_dirs sc) with [] => false | _ => true end.

Definition ast_of_schema (sc : schema) : outcome document :=
  let E := env_of_schema [] sc in
  let op (k : op_kind) (r : option str) : list op_type_def :=
    match r with Some n => [OTDef k (named_ty n) None] | None => [] end in
  do dds <- omap (def_of_ddef E) (sort_by dd_name (s_ddefs sc));
  do tds <- omap (def_of_tdef E) (sort_by tdef_name (s_types sc));
  Ok (Doc ((if schema_def_needed sc
            then [DSchema false (custom_dirs (s_dirs sc))
                          (op OpQuery (s_query sc) ++ op OpMutation (s_mutation sc)
                           ++ op OpSubscription (s_subscription sc)) None]
            else []) ++ dds ++ tds) None).

(* schemas that SDL can express exactly: python names are the GraphQL names,
   enum values are their names, descriptions are not empty strings, and the
   schema is valid *)
(* a default of a specified scalar has the Python type coercion produces
   (str for String / ID, int for Int, float for Float, bool for Boolean); code
   may supply other values (String = 1), which SDL cannot express *)
Fixpoint base_name (t : tref) : str :=
  match t with RNamed n => n | RList t' | RNonNull t' => base_name t' end.

Definition leaf_kind_ok (n : str) (v : pv) : bool :=
  if str_eqb n (S_ "String") || str_eqb n (S_ "ID") then match v with PStr _ => true | _ => false end
  else if str_eqb n (S_ "Int") then match v with PInt _ => true | _ => false end
  else if str_eqb n (S_ "Float") then match v with PFloat _ => true | _ => false end
  else if str_eqb n (S_ "Boolean") then match v with PBool _ => true | _ => false end
  else true.

Fixpoint default_kind_ok (n : str) (v : pv) : bool :=
  match v with
  | PNone => true
  | PList l => forallb (default_kind_ok n) l
  | PDict _ => true
  | _ => leaf_kind_ok n v
  end.

Definition siv_sdl (a : sivalue) : bool :=
  str_eqb (siv_py a) (siv_name a) && negb (match siv_desc a with Some [] => true | _ => false end)
  && match siv_default a with
     | Some v => default_kind_ok (base_name (siv_type a)) v
     | None => true
     end.
Definition sf_sdl (f : sfield) : bool :=
  str_eqb (sf_py f) (sf_name f) && forallb siv_sdl (sf_args f)
  && negb (match sf_desc f with Some [] => true | _ => false end).
Definition no_spec_dirs (ds : list directive) : bool :=
  forallb (fun d => negb (mem_str (n_val (d_name d)) specified_directive_names)) ds.
Definition nonempty_desc (d : option str) : bool := negb (match d with Some [] => true | _ => false end).

Definition tdef_sdl (t : tdef) : bool :=
  nonempty_desc (tdef_desc t) &&
  match t with
  | TObject _ _ _ fs _ | TInterface _ _ fs _ => forallb sf_sdl fs
  | TEnum _ _ vs _ =>
      forallb (fun v => pv_eqb (sev_value v) (PStr (sev_name v)) && nonempty_desc (sev_desc v)) vs
  | TInput _ _ fs _ => forallb siv_sdl fs
  | _ => true
  end.

(* enum value names are unique (the builder rejects a repeated name) *)
Definition enum_names_unique (sc : schema) : bool :=
  forallb (fun t => match t with TEnum _ _ vs _ => negb (has_dup (map sev_name vs)) | _ => true end) (s_types sc).

Definition schema_okb (sc : schema) : bool :=
  validate_schema sc
  && forallb tdef_sdl (s_types sc)
  && forallb (fun d => forallb siv_sdl (dd_args d) && nonempty_desc (dd_desc d)) (s_ddefs sc)
  && negb (has_dup (map tdef_name (s_types sc))) && negb (has_dup (map dd_name (s_ddefs sc)))
  && forallb (fun t => negb (default_type_name (tdef_name t))) (s_types sc)
  && negb (overrides_specified_directive (s_ddefs sc))
  && refs_known (map (fun t => (tdef_name t, tdef_kind t)) (s_types sc)) (s_types sc)
  && enum_names_unique sc.

(* Applied directives named like a specified one (@deprecated) are already
   accounted for by the deprecation reason: the comparison leaves them out. *)
Definition strip_siv (a : sivalue) : sivalue :=
  SIV (siv_name a) (siv_py a) (siv_type a) (siv_default a) (siv_desc a) (custom_dirs (siv_dirs a)).
Definition strip_sf (f : sfield) : sfield :=
  SF (sf_name f) (sf_py f) (map strip_siv (sf_args f)) (sf_type f) (sf_desc f) (sf_dep f)
     (custom_dirs (sf_dirs f)).
Definition strip_sev (v : sevalue) : sevalue :=
  SEV (sev_name v) (sev_value v) (sev_desc v) (sev_dep v) (custom_dirs (sev_dirs v)).
Definition strip_tdef (t : tdef) : tdef :=
  match t with
  | TScalar n d ds => TScalar n d (custom_dirs ds)
  | TObject n d is_ fs ds => TObject n d is_ (map strip_sf fs) (custom_dirs ds)
  | TInterface n d fs ds => TInterface n d (map strip_sf fs) (custom_dirs ds)
  | TUnion n d ms ds => TUnion n d ms (custom_dirs ds)
  | TEnum n d vs ds => TEnum n d (map strip_sev vs) (custom_dirs ds)
  | TInput n d fs ds => TInput n d (map strip_siv fs) (custom_dirs ds)
  end.
Definition strip_schema (sc : schema) : schema :=
  Sch (map strip_tdef (s_types sc))
      (map (fun d => DD (dd_name d) (dd_desc d) (dd_locs d) (map strip_siv (dd_args d))) (s_ddefs sc))
      (s_query sc) (s_mutation sc) (s_subscription sc) (custom_dirs (s_dirs sc)).

Definition roundtrip_equiv (a b : schema) : bool := schema_equiv (strip_schema a) (strip_schema b).

(* C12_members_roundtrip executed on one schema *)
Definition members_roundtrip (sc : schema) : bool :=
  match ast_of_schema sc with
  | Ok d => match build_model (BOpts true []) d with
            | Ok sc' => roundtrip_equiv sc' sc
            | _ => false
            end
  | _ => false
  end.
