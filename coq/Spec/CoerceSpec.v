(* C07 -- what the property demands of resolver arguments, declaratively.
   No coercion algorithm here: [conforms] says when a Python value is a
   legitimate resolver-side value of an input type, [spelled] says when a
   JSON value is of the natural kind for a type and which literal writes the
   same input inline, [wrong] says when a JSON value carries one of the
   mistakes the property lists. *)
From PyGql Require Export Exec.CoerceModel.
From Coq Require Import ZArith.

Definition int32 (z : Z) : Prop := (-2147483648 <= z <= 2147483647)%Z.

(* resolver-side values of the scalar kinds *)
Definition scalar_ok (k : scalar_kind) (v : pv) : Prop :=
  match k with
  | KInt => exists z, v = PInt z /\ int32 z           (* full signed 32-bit range *)
  | KFloat => exists r, v = PFloat r
  | KString | KID => exists x, v = PStr x
  | KBoolean => exists b, v = PBool b
  | KAny => v <> PNone                                 (* transparent scalar: any non-null value *)
  | KTag => exists x, v = PStr x /\ x <> []
  | KOdd => exists z, v = PInt z /\ Z.odd z = true
  end.

(* [conforms s t v]: v is a value a resolver may receive for input type t.
   - nullable positions may hold None; non-null positions never do
     (C07_nonnull_never_null, given enum internal values are not None);
   - enum: the internal value of one of the names;
   - input object: a dict keyed by python names of declared fields, each value
     conforming to its field's type, every field that declares a default or is
     non-null present, no other key;
   - list: a list of conforming items. *)
Inductive conforms (s : schema) : ity -> pv -> Prop :=
| CF_null_named n : conforms s (INamed false n) PNone
| CF_null_list t : conforms s (IList false t) PNone
| CF_scalar nn n k v :
    alookup n s = Some (TDScalar k) -> scalar_ok k v -> conforms s (INamed nn n) v
| CF_enum nn n vals nm v :
    alookup n s = Some (TDEnum vals) -> In (nm, v) vals -> conforms s (INamed nn n) v
| CF_input nn n fs kvs :
    alookup n s = Some (TDInput fs) ->
    NoDup (map fst kvs) ->
    (forall k v, In (k, v) kvs -> exists f, In f fs /\ f_py f = k /\ conforms s (f_ty f) v) ->
    (forall f, In f fs -> f_default f <> None -> In (f_py f) (map fst kvs)) ->
    (forall f, In f fs -> ity_nn (f_ty f) = true -> In (f_py f) (map fst kvs)) ->
    conforms s (INamed nn n) (PDict kvs)
| CF_list nn t l :
    Forall (conforms s t) l -> conforms s (IList nn t) (PList l).

(* declared defaults are resolver-side values of their field's type; enum
   internal values are not None *)
Definition fields_wf (s : schema) (fs : list ifield) : Prop :=
  forall f d, In f fs -> f_default f = Some d -> conforms s (f_ty f) d.

(* the type is not an output type (py-gql's schema validation guarantees it
   for arguments, input fields and variables) *)
Definition input_ty (s : schema) (t : ity) : Prop := alookup (ity_name t) s <> Some TDOutput.

Definition schema_wf (s : schema) : Prop :=
  (forall n fs, alookup n s = Some (TDInput fs) -> fields_wf s fs)
  /\ (forall n vals nm v, alookup n s = Some (TDEnum vals) -> In (nm, v) vals -> v <> PNone)
  /\ (forall n fs f, alookup n s = Some (TDInput fs) -> In f fs -> input_ty s (f_ty f)).

Definition ity_nullable (t : ity) : ity :=
  match t with INamed _ n => INamed false n | IList _ t' => IList false t' end.

(* literals that take the "single value in a list position" path of
   value_from_ast: neither a variable, nor null, nor a list *)
Definition literal_plain (l : value) : bool :=
  match l with VVar _ _ | VNull _ | VList _ _ => false | _ => true end.

(* variable x occurs in literal l, written for type t, at a position whose
   declared type is tp *)
Inductive var_at (s : schema) : ity -> value -> str -> ity -> Prop :=
| VA_here t x lc : var_at s t (VVar x lc) (n_val x) t
| VA_item nn t items lc i x tp :
    In i items -> var_at s t i x tp -> var_at s (IList nn t) (VList items lc) x tp
| VA_single nn t l x tp :              (* e.g. an object literal where a list is expected *)
    literal_plain l = true -> var_at s t l x tp -> var_at s (IList nn t) l x tp
| VA_field nn n fs lfs lc nm v lc' f x tp :
    alookup n s = Some (TDInput fs) -> In (nm, v, lc') lfs -> In f fs -> f_name f = n_val nm ->
    var_at s (f_ty f) v x tp -> var_at s (INamed nn n) (VObject lfs lc) x tp.

(* every variable the literal uses holds a value of the position's type, null
   apart (the code checks null itself): what validation of variable usages
   plus coerce_variable_values establish *)
Definition vars_fit (s : schema) (vs : vars) (t : ity) (l : value) : Prop :=
  forall x tp v, var_at s t l x tp -> alookup x vs = Some v -> conforms s (ity_nullable tp) v.

(* ---- natural JSON values and their literal spelling ---- *)
Definition plain_json (j : json) : bool :=
  match j with JNull | JList _ => false | _ => true end.

Inductive spelled (s : schema) : ity -> json -> value -> Prop :=
| SP_null t lc : ity_nn t = false -> spelled s t JNull (VNull lc)
| SP_int nn n z txt lc :
    alookup n s = Some (TDScalar KInt) -> parse_int_text txt = Some z -> in_int32 z = true ->
    spelled s (INamed nn n) (JInt z) (VInt txt lc)
| SP_float nn n r txt d d' lc :
    alookup n s = Some (TDScalar KFloat) -> dec_of_text txt = Some d -> float_text d = r ->
    dec_of_text r = Some d' ->               (* a finite number *)
    spelled s (INamed nn n) (JFloat r) (VFloat txt lc)
| SP_float_int nn n z txt lc :
    alookup n s = Some (TDScalar KFloat) -> dec_of_text txt = Some (dec_of_Z z) ->
    float_int_ok z = true ->               (* within the range of doubles *)
    spelled s (INamed nn n) (JInt z) (VInt txt lc)
| SP_string nn n x b lc :
    alookup n s = Some (TDScalar KString) -> spelled s (INamed nn n) (JStr x) (VString x b lc)
| SP_id_str nn n x b lc :
    alookup n s = Some (TDScalar KID) -> spelled s (INamed nn n) (JStr x) (VString x b lc)
| SP_id_int nn n z lc :
    alookup n s = Some (TDScalar KID) -> spelled s (INamed nn n) (JInt z) (VInt (str_of_Z z) lc)
| SP_bool nn n b lc :
    alookup n s = Some (TDScalar KBoolean) -> spelled s (INamed nn n) (JBool b) (VBool b lc)
| SP_any_str nn n x b lc :
    alookup n s = Some (TDScalar KAny) -> spelled s (INamed nn n) (JStr x) (VString x b lc)
| SP_any_bool nn n b lc :
    alookup n s = Some (TDScalar KAny) -> spelled s (INamed nn n) (JBool b) (VBool b lc)
| SP_any_int nn n z txt lc :
    alookup n s = Some (TDScalar KAny) -> parse_int_text txt = Some z ->
    spelled s (INamed nn n) (JInt z) (VInt txt lc)
| SP_any_float nn n r txt d lc :
    alookup n s = Some (TDScalar KAny) -> dec_of_text txt = Some d -> float_text d = r ->
    spelled s (INamed nn n) (JFloat r) (VFloat txt lc)
| SP_tag nn n c x b lc :
    alookup n s = Some (TDScalar KTag) -> spelled s (INamed nn n) (JStr (c :: x)) (VString (c :: x) b lc)
| SP_odd nn n z txt lc :
    alookup n s = Some (TDScalar KOdd) -> parse_int_text txt = Some z -> Z.odd z = true -> z <> 13%Z ->
    spelled s (INamed nn n) (JInt z) (VInt txt lc)
| SP_enum nn n vals nm v lc :
    alookup n s = Some (TDEnum vals) -> alookup nm vals = Some v ->
    spelled s (INamed nn n) (JStr nm) (VEnum nm lc)
| SP_list nn t js ls lc :
    spelled_items s t js ls -> spelled s (IList nn t) (JList js) (VList ls lc)
| SP_single nn t j l :                  (* a single value in a list position *)
    plain_json j = true -> spelled s t j l -> spelled s (IList nn t) j l
| SP_obj nn n fs kvs lfs lc :
    alookup n s = Some (TDInput fs) ->
    NoDup (map f_name fs) ->                 (* field names of a type are distinct *)
    NoDup (map fst kvs) ->                   (* a JSON object *)
    spelled_fields s fs kvs lfs ->
    (* required fields are provided *)
    (forall f, In f fs -> ity_nn (f_ty f) = true -> f_default f = None -> In (f_name f) (map fst kvs)) ->
    spelled s (INamed nn n) (JObj kvs) (VObject lfs lc)
with spelled_items (s : schema) : ity -> list json -> list value -> Prop :=
| SPI_nil t : spelled_items s t [] []
| SPI_cons t j l js ls :
    spelled s t j l -> spelled_items s t js ls -> spelled_items s t (j :: js) (l :: ls)
with spelled_fields (s : schema) : list ifield -> list (str * json) -> list (name * value * loc) -> Prop :=
| SPF_nil fs : spelled_fields s fs [] []
| SPF_cons fs k j nm l lc f kvs lfs :
    n_val nm = k -> find_field k fs = Some f -> spelled s (f_ty f) j l ->
    spelled_fields s fs kvs lfs ->
    spelled_fields s fs ((k, j) :: kvs) ((nm, l, lc) :: lfs).

Scheme spelled_mind := Induction for spelled Sort Prop
  with spelled_items_mind := Induction for spelled_items Sort Prop
  with spelled_fields_mind := Induction for spelled_fields Sort Prop.
Combined Scheme spelled_mutind from spelled_mind, spelled_items_mind, spelled_fields_mind.

(* JSON of the natural kind for the type *)
Definition natural (s : schema) (t : ity) (j : json) : Prop := exists l, spelled s t j l.

(* ---- the mistakes the property lists (variable route) ---- *)

(* A JSON value that is not of the natural kind for the scalar: the property's
   "structurally wrong" at a scalar position, in full. *)
Definition scalar_kind_foreign (k : scalar_kind) (j : json) : Prop :=
  match k, j with
  | KInt, (JBool _ | JStr _ | JList _ | JObj _) => True
  | KFloat, (JBool _ | JStr _ | JList _ | JObj _) => True
  | KString, (JBool _ | JInt _ | JFloat _ | JList _ | JObj _) => True
  | KID, (JBool _ | JFloat _ | JList _ | JObj _) => True
  | KBoolean, (JInt _ | JFloat _ | JStr _ | JList _ | JObj _) => True
  | KTag, (JBool _ | JInt _ | JFloat _ | JList _ | JObj _) => True
  | KOdd, (JBool _ | JFloat _ | JStr _ | JList _ | JObj _) => True
  | _, _ => False
  end.

(* The two acceptances of foreign kinds that py-gql's own tests pin (open
   findings numeric-string-for-number and number-for-string): a string for
   Int / Float, a number for String. Decidable; everything the theorems say
   about rejection is guarded by exactly the complement of this predicate. *)
Definition lenient_scalar_case (k : scalar_kind) (j : json) : bool :=
  match k, j with
  | (KInt | KFloat), JStr _ => true
  | KString, (JInt _ | JFloat _) => true
  | _, _ => false
  end.

(* = scalar_kind_foreign minus lenient_scalar_case (CoerceProofs.mismatch_exact) *)
Definition scalar_kind_mismatch (k : scalar_kind) (j : json) : Prop :=
  match k, j with
  | KInt, (JBool _ | JList _ | JObj _) => True
  | KFloat, (JBool _ | JList _ | JObj _) => True
  | KString, (JBool _ | JList _ | JObj _) => True
  | KID, (JBool _ | JFloat _ | JList _ | JObj _) => True
  | KBoolean, (JInt _ | JFloat _ | JStr _ | JList _ | JObj _) => True
  | KTag, (JBool _ | JInt _ | JFloat _ | JList _ | JObj _) => True
  | KOdd, (JBool _ | JFloat _ | JStr _ | JList _ | JObj _) => True
  | _, _ => False
  end.

Inductive wrong (s : schema) : ity -> json -> Prop :=
| W_null t : ity_nn t = true -> wrong s t JNull                       (* null for non-null *)
| W_kind nn n k j :                                                  (* structurally wrong scalar *)
    alookup n s = Some (TDScalar k) -> scalar_kind_foreign k j -> lenient_scalar_case k j = false ->
    wrong s (INamed nn n) j
| W_range nn n z :                                                   (* outside 32 bits *)
    alookup n s = Some (TDScalar KInt) -> in_int32 z = false -> wrong s (INamed nn n) (JInt z)
| W_enum_name nn n vals nm :                                         (* unknown enum name *)
    alookup n s = Some (TDEnum vals) -> alookup nm vals = None -> wrong s (INamed nn n) (JStr nm)
| W_enum_kind nn n vals j :
    alookup n s = Some (TDEnum vals) -> (forall x, j <> JStr x) -> j <> JNull -> wrong s (INamed nn n) j
| W_obj_kind nn n fs j :
    alookup n s = Some (TDInput fs) -> (forall kvs, j <> JObj kvs) -> j <> JNull -> wrong s (INamed nn n) j
| W_unknown_field nn n fs kvs k :                                    (* unknown input field *)
    alookup n s = Some (TDInput fs) -> In k (map fst kvs) -> find_field k fs = None ->
    wrong s (INamed nn n) (JObj kvs)
| W_missing nn n fs kvs f :                                          (* missing required value *)
    alookup n s = Some (TDInput fs) -> In f fs -> ity_nn (f_ty f) = true -> f_default f = None ->
    alookup (f_name f) kvs = None -> wrong s (INamed nn n) (JObj kvs)
| W_field nn n fs kvs f j :                                          (* a mistake inside a field *)
    alookup n s = Some (TDInput fs) -> In f fs -> alookup (f_name f) kvs = Some j ->
    wrong s (f_ty f) j -> wrong s (INamed nn n) (JObj kvs)
| W_item nn t js j :                                                 (* a mistake inside a list *)
    In j js -> wrong s t j -> wrong s (IList nn t) (JList js)
| W_single nn t j :
    plain_json j = true -> wrong s t j -> wrong s (IList nn t) j.

(* ---- the same mistakes written as literals (unknown input fields in a
   literal are the business of the validator, not of value_from_ast) ---- *)
Definition literal_kind_mismatch (k : scalar_kind) (l : value) : Prop :=
  match k, l with
  | _, (VEnum _ _ | VList _ _ | VObject _ _) => True
  | KInt, (VFloat _ _ | VString _ _ _ | VBool _ _) => True
  | KFloat, (VString _ _ _ | VBool _ _) => True
  | KString, (VInt _ _ | VFloat _ _ | VBool _ _) => True
  | KID, (VFloat _ _ | VBool _ _) => True
  | KBoolean, (VInt _ _ | VFloat _ _ | VString _ _ _) => True
  | KTag, (VInt _ _ | VFloat _ _ | VBool _ _) => True
  | KOdd, (VFloat _ _ | VString _ _ _ | VBool _ _) => True
  | _, _ => False
  end.

Definition lit_pairs (lfs : list (name * value * loc)) : list (str * value) :=
  map (fun f => (n_val (fst (fst f)), snd (fst f))) lfs.
(* the field of an object literal that counts: the last one of that name *)
Definition lit_field (lfs : list (name * value * loc)) (k : str) : option value :=
  alookup_last k (lit_pairs lfs).

Inductive wrong_lit (s : schema) : ity -> value -> Prop :=
| WL_null t lc : ity_nn t = true -> wrong_lit s t (VNull lc)
| WL_kind nn n k l :
    alookup n s = Some (TDScalar k) -> literal_kind_mismatch k l -> wrong_lit s (INamed nn n) l
| WL_range nn n txt z lc :
    alookup n s = Some (TDScalar KInt) -> parse_int_text txt = Some z -> in_int32 z = false ->
    wrong_lit s (INamed nn n) (VInt txt lc)
| WL_enum_name nn n vals nm lc :
    alookup n s = Some (TDEnum vals) -> alookup nm vals = None -> wrong_lit s (INamed nn n) (VEnum nm lc)
| WL_enum_kind nn n vals l :
    alookup n s = Some (TDEnum vals) -> (forall x lc, l <> VEnum x lc) ->
    (forall x lc, l <> VVar x lc) -> (forall lc, l <> VNull lc) -> wrong_lit s (INamed nn n) l
| WL_obj_kind nn n fs l :
    alookup n s = Some (TDInput fs) -> (forall x lc, l <> VObject x lc) ->
    (forall x lc, l <> VVar x lc) -> (forall lc, l <> VNull lc) -> wrong_lit s (INamed nn n) l
| WL_missing nn n fs lfs lc f :
    alookup n s = Some (TDInput fs) -> In f fs -> ity_nn (f_ty f) = true -> f_default f = None ->
    lit_field lfs (f_name f) = None -> wrong_lit s (INamed nn n) (VObject lfs lc)
| WL_field nn n fs lfs lc f l :
    alookup n s = Some (TDInput fs) -> In f fs -> lit_field lfs (f_name f) = Some l ->
    wrong_lit s (f_ty f) l -> wrong_lit s (INamed nn n) (VObject lfs lc)
| WL_item nn t items lc l :
    In l items -> wrong_lit s t l -> wrong_lit s (IList nn t) (VList items lc)
| WL_single nn t l :
    literal_plain l = true -> wrong_lit s t l -> wrong_lit s (IList nn t) l.

(* ---- variable usages (GraphQL spec 5.8.5, AreTypesCompatible): a variable
   of type a may stand at a position of type b ---- *)
Fixpoint sub (a b : ity) : Prop :=
  match a, b with
  | INamed na n, INamed nb m => n = m /\ (nb = true -> na = true)
  | IList na a', IList nb b' => (nb = true -> na = true) /\ sub a' b'
  | _, _ => False
  end.

(* every variable used in the call is declared (once) with a type that is
   compatible with each position it is used at -- the top-level nullability
   apart, which the argument's or variable's default may waive and which the
   code re-checks at run time *)
Definition usage_ok (s : schema) (vds : list var_def) (defs : list ifield) (call : list argument) : Prop :=
  forall d l x tp vd,
    In d defs -> arg_lookup call (f_name d) = Some l -> var_at s (f_ty d) l x tp ->
    In vd vds -> n_val (vd_var vd) = x ->
    sub (ity_nullable (ity_of_ty (vd_type vd))) (ity_nullable tp).

(* every type name that can be reached is bound *)
Definition bound (s : schema) (t : ity) : Prop := alookup (ity_name t) s <> None.
Definition schema_closed (s : schema) : Prop :=
  forall n fs f, alookup n s = Some (TDInput fs) -> In f fs -> bound s (f_ty f).

(* input fields have input types (what schema validation checks) *)
Definition schema_inputs (s : schema) : Prop :=
  forall n fs f, alookup n s = Some (TDInput fs) -> In f fs -> input_ty s (f_ty f).
(* a type expression that may be used for an argument / variable / input field *)
Definition usable (s : schema) (t : ity) : Prop := bound s t /\ input_ty s t.

(* scalars whose parsers raise nothing but ValueError / TypeError (all the
   library's own, the transparent one, and well-behaved user scalars); a user
   scalar that raises anything else makes coercion raise that exception *)
Definition raising_scalar (k : scalar_kind) : bool := match k with KOdd => true | _ => false end.
Definition scalars_behaved (s : schema) : Prop :=
  forall n k, alookup n s = Some (TDScalar k) -> raising_scalar k = false.

(* field names of an input object type are distinct (schema validation) *)
Definition fields_unique (s : schema) : Prop :=
  forall n fs, alookup n s = Some (TDInput fs) -> NoDup (map f_name fs).

(* ---- the property's full demand: [wrong_full] is [wrong] without the guard
   on the scalar clause (every foreign JSON kind counts) ---- *)
Inductive wrong_full (s : schema) : ity -> json -> Prop :=
| WF_null t : ity_nn t = true -> wrong_full s t JNull
| WF_kind nn n k j :
    alookup n s = Some (TDScalar k) -> scalar_kind_foreign k j -> wrong_full s (INamed nn n) j
| WF_range nn n z :
    alookup n s = Some (TDScalar KInt) -> in_int32 z = false -> wrong_full s (INamed nn n) (JInt z)
| WF_enum_name nn n vals nm :
    alookup n s = Some (TDEnum vals) -> alookup nm vals = None -> wrong_full s (INamed nn n) (JStr nm)
| WF_enum_kind nn n vals j :
    alookup n s = Some (TDEnum vals) -> (forall x, j <> JStr x) -> j <> JNull -> wrong_full s (INamed nn n) j
| WF_obj_kind nn n fs j :
    alookup n s = Some (TDInput fs) -> (forall kvs, j <> JObj kvs) -> j <> JNull -> wrong_full s (INamed nn n) j
| WF_unknown_field nn n fs kvs k :
    alookup n s = Some (TDInput fs) -> In k (map fst kvs) -> find_field k fs = None ->
    wrong_full s (INamed nn n) (JObj kvs)
| WF_missing nn n fs kvs f :
    alookup n s = Some (TDInput fs) -> In f fs -> ity_nn (f_ty f) = true -> f_default f = None ->
    alookup (f_name f) kvs = None -> wrong_full s (INamed nn n) (JObj kvs)
| WF_field nn n fs kvs f j :
    alookup n s = Some (TDInput fs) -> In f fs -> alookup (f_name f) kvs = Some j ->
    wrong_full s (f_ty f) j -> wrong_full s (INamed nn n) (JObj kvs)
| WF_item nn t js j :
    In j js -> wrong_full s t j -> wrong_full s (IList nn t) (JList js)
| WF_single nn t j :
    plain_json j = true -> wrong_full s t j -> wrong_full s (IList nn t) j.

(* somewhere inside the value, at a scalar position, stands one of the two
   pinned lenient cases *)
Inductive lenient_inside (s : schema) : ity -> json -> Prop :=
| LI_here nn n k j :
    alookup n s = Some (TDScalar k) -> scalar_kind_foreign k j -> lenient_scalar_case k j = true ->
    lenient_inside s (INamed nn n) j
| LI_field nn n fs kvs f j :
    alookup n s = Some (TDInput fs) -> In f fs -> alookup (f_name f) kvs = Some j ->
    lenient_inside s (f_ty f) j -> lenient_inside s (INamed nn n) (JObj kvs)
| LI_item nn t js j :
    In j js -> lenient_inside s t j -> lenient_inside s (IList nn t) (JList js)
| LI_single nn t j :
    plain_json j = true -> lenient_inside s t j -> lenient_inside s (IList nn t) j.

(* exactly which lenient cases the code accepts *)
Definition lenient_accepts (k : scalar_kind) (j : json) : bool :=
  match k, j with
  | KInt, JStr x =>
      match clean_num_text x with
      | None => false
      | Some y =>
          match parse_int_text y with
          | Some z => in_int32 z
          | None => match dec_of_text y with
                    | Some d => match dec_integral d with Some z => in_int32 z | None => false end
                    | None => false
                    end
          end
      end
  | KFloat, JStr x =>
      match clean_num_text x with
      | Some y => match dec_of_text y with Some _ => true | None => false end
      | None => false
      end
  | KString, (JInt _ | JFloat _) => true
  | _, _ => false
  end.
