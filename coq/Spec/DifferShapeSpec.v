(* C20: the SameResponseShape requirement of OverlappingFieldsCanBeMerged
   (June-2018 5.3.2): two fields with the same response key in one flattened
   selection set must have types of the same shape (same list / non-null
   wrapping; same leaf type).  Only this schema-dependent part of the rule is
   modelled; it is enough to show why the rule is outside
   C20_no_breaking_sound_partial. *)
From PyGql Require Export Schema.SchemaFull Spec.DifferSpec Spec.DifferClientSpec.

Fixpoint same_shape (leaf : str -> bool) (a b : ty) {struct a} : bool :=
  match a, b with
  | TyNonNull x, TyNonNull y => same_shape leaf x y
  | TyList x, TyList y => same_shape leaf x y
  | TyNamed x, TyNamed y => if leaf x || leaf y then str_eqb x y else true
  | _, _ => false
  end.

Definition field_type (s : schema) (parent name : str) : option ty :=
  match composite_fields s parent with
  | Some fs => match find_field fs name with Some f => Some (f_type f) | None => None end
  | None => None
  end.

(* the fields of one flattened selection set, with their types *)
Fixpoint scope_typed (s : schema) (fuel : nat) (frags : list fragment_def) (parent : str)
         (l : list csel) : list (str * option ty) :=
  match fuel with
  | 0 => []
  | Datatypes.S fuel' =>
      flat_map (fun x =>
        match x with
        | CField name _ _ _ => [(name, field_type s parent name)]
        | CInline tc _ sub =>
            scope_typed s fuel' frags (match tc with Some c => c | None => parent end) sub
        | CSpread name _ =>
            match find (fun f => str_eqb name (fr_name f)) frags with
            | Some fr => scope_typed s fuel' frags (fr_type fr) (fr_sel fr)
            | None => []
            end
        end) l
  end.

Definition shapes_agree (s : schema) (l : list (str * option ty)) : bool :=
  forallb (fun a =>
    forallb (fun b =>
      negb (str_eqb (fst a) (fst b))
      || match snd a, snd b with
         | Some t, Some u => same_shape (is_leaf s) t u
         | _, _ => true
         end) l) l.

Fixpoint sel_shapes_ok (s : schema) (fuel : nat) (frags : list fragment_def) (parent : str)
         (x : csel) {struct x} : bool :=
  match x with
  | CField name _ _ sub =>
      match field_type s parent name with
      | Some t =>
          shapes_agree s (scope_typed s fuel frags (unwrap t) sub)
          && forallb (sel_shapes_ok s fuel frags (unwrap t)) sub
      | None => true
      end
  | CInline tc _ sub =>
      forallb (sel_shapes_ok s fuel frags (match tc with Some c => c | None => parent end)) sub
  | CSpread _ _ => true
  end.

Definition same_response_shape (s : schema) (fuel : nat) (op : operation) : bool :=
  match root_of s (o_kind op) with
  | Some root =>
      shapes_agree s (scope_typed s fuel (o_frags op) root (o_sel op))
      && forallb (sel_shapes_ok s fuel (o_frags op) root) (o_sel op)
      && forallb (fun fr => shapes_agree s (scope_typed s fuel (o_frags op) (fr_type fr) (fr_sel fr))
                            && forallb (sel_shapes_ok s fuel (o_frags op) (fr_type fr)) (fr_sel fr))
                 (o_frags op)
  | None => true
  end.
