(* Document-level declarative forms of the two rules that look at input
   positions: 5.6.1 Values of Correct Type and 5.8.5 All Variable Usages are
   Allowed. A position is given by the argument definition the schema
   associates with an argument of a node met by static descent (or of a known
   directive), and from there downwards by list item / input object field. *)
From PyGql Require Export Spec.ValidLocalSpec Spec.ValidValueSpec.

Definition args_coercible (s : schema) (defs : list sarg) (args : list argument) : Prop :=
  forall a ad, In a args -> find_arg (n_val (a_name a)) defs = Some ad ->
               is_input_type s (sa_type ad) = true -> coercible s (sa_type ad) (a_val a).

Definition spec_values_of_correct_type (s : schema) (d : document) : Prop :=
  (forall p a n args dirs sl sub l f,
      reaches s d (Some p) (SField a n args dirs sl sub l) -> get_field_def s p (n_val n) = Some f ->
      args_coercible s (sf_args f) args)
  /\ (forall w dr dd, directive_at s d w dr -> alookup (n_val (d_name dr)) (s_dirs s) = Some dd ->
                      args_coercible s (sd_args dd) (d_args dr))
  /\ (forall df vd v t, In df (doc_defs d) -> In vd (op_vars df) -> vd_default vd = Some v ->
                        type_from_ast s (vd_type vd) = Some t -> is_input_type s t = true -> coercible s t v).

(* the part of schema / document well-formedness the statements rely on: no `T!!` *)
Definition wf_arg_types (s : schema) : Prop :=
  (forall p n f ad, get_field_def s p n = Some f -> In ad (sf_args f) -> wf_tref (sa_type ad))
  /\ (forall nm dd ad, alookup nm (s_dirs s) = Some dd -> In ad (sd_args dd) -> wf_tref (sa_type ad)).
Definition wf_var_types (s : schema) (d : document) : Prop :=
  forall df vd t, In df (doc_defs d) -> In vd (op_vars df) -> type_from_ast s (vd_type vd) = Some t -> wf_tref t.

(* ---- 5.8.5 All Variable Usages are Allowed ---- *)
Definition pos_filter (s : schema) (t : tref) : option tref := if is_input_type s t then Some t else None.
(* expected type of the items of a list literal at a position expecting [ity] *)
Definition pos_item (s : schema) (ity : option tref) : option tref :=
  match ity with
  | None => None
  | Some t => match nullable t with RList e => pos_filter s e | lt => pos_filter s lt end
  end.
(* expected type / default flag of field [fname] of an object literal at a position expecting [ity] *)
Definition pos_field (s : schema) (ity : option tref) (fname : str) : option tref * bool :=
  match ity with
  | None => (None, false)
  | Some t => match lookup_type s (unwrap t) with
              | Some (TInput fs) => match find_arg fname fs with
                                    | Some fd => (pos_filter s (sa_type fd), sa_default fd)
                                    | None => (None, false)
                                    end
              | _ => (None, false)
              end
  end.

(* variable [x] occurs in value [v] (expected type [ity], default flag [hd]) at a
   position expecting [it'] with default flag [hd'] *)
Inductive var_at (s : schema) : option tref -> bool -> value -> str -> option tref -> bool -> Prop :=
| va_var ity hd n l : var_at s ity hd (VVar n l) (n_val n) ity hd
| va_list ity hd vs l y x it' hd' :
    In y vs -> var_at s (pos_item s ity) false y x it' hd' -> var_at s ity hd (VList vs l) x it' hd'
| va_obj ity hd fs l n y fl x it' hd' :
    In (n, y, fl) fs ->
    var_at s (fst (pos_field s ity (n_val n))) (snd (pos_field s ity (n_val n))) y x it' hd' ->
    var_at s ity hd (VObject fs l) x it' hd'.

Definition args_var_at (s : schema) (defs : list sarg) (args : list argument) (x : str) (it : tref) (hd : bool) : Prop :=
  exists a ad, In a args /\ find_arg (n_val (a_name a)) defs = Some ad /\
               var_at s (pos_filter s (sa_type ad)) (sa_default ad) (a_val a) x (Some it) hd.

Definition reaches_in (s : schema) (df : definition) (q : option str) (z : selection) : Prop :=
  exists x, In x (def_sels df) /\ descends s (def_parent s df) x q z.
Definition directive_in (s : schema) (df : definition) (dr : directive) : Prop :=
  (exists q z, reaches_in s df q z /\ In dr (node_dirs z)) \/ In dr (def_dirs df).

(* variable [x] is used in definition [df] at a position expecting [it] (default flag [hd]) *)
Definition def_var_at (s : schema) (df : definition) (x : str) (it : tref) (hd : bool) : Prop :=
  (exists p a n args dirs sl sub l f,
      reaches_in s df (Some p) (SField a n args dirs sl sub l) /\ get_field_def s p (n_val n) = Some f /\
      args_var_at s (sf_args f) args x it hd)
  \/ (exists dr dd, directive_in s df dr /\ alookup (n_val (d_name dr)) (s_dirs s) = Some dd /\
                    args_var_at s (sd_args dd) (d_args dr) x it hd).

Definition is_nn (t : tref) : bool := match t with RNonNull _ => true | _ => false end.
Definition nonnull_default (vd : var_def) : bool :=
  match vd_default vd with Some (VNull _) => false | Some _ => true | None => false end.
(* IsVariableUsageAllowed *)
Definition usage_allowed (s : schema) (vd : var_def) (it : tref) (hd : bool) : Prop :=
  match type_from_ast s (vd_type vd) with
  | None => True
  | Some vt =>
      if is_nn it && negb (is_nn vt)
      then (nonnull_default vd = true \/ hd = true) /\ is_subtype s vt (nullable it) = true
      else is_subtype s vt it = true
  end.

Definition op_var_at (s : schema) (d : document) (op : definition) (x : str) (it : tref) (hd : bool) : Prop :=
  def_var_at s op x it hd
  \/ exists f df, frag_reach d (def_sels op) f /\ In df (doc_defs d) /\ fragment_named df f /\ def_var_at s df x it hd.

Definition spec_variables_in_allowed_position (s : schema) (d : document) : Prop :=
  forall op x it hd vd, In op (doc_defs d) -> is_operation op -> op_var_at s d op x it hd ->
                        In vd (op_vars op) -> n_val (vd_var vd) = x -> usage_allowed s vd it hd.
