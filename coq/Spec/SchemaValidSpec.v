(* What C13 demands, declaratively: covariance of field types (June-2018
   section 3.6.1, "IsValidImplementationFieldType"), Python's binding of the one
   call shape the executor uses, and one labelled predicate per validation
   rule. *)
From PyGql Require Export Schema.SchemaFull.

(* ------------------------------------------------------------ subtyping *)
Section Subtype.
  Variable ts : list type_def.

  (* [obj] is an object type that is a member of the union [abstract] or
     declares that it implements the interface [abstract] *)
  Definition possible_type (abstract obj : str) : Prop :=
    exists ot ifaces fs dr at_,
      find_type ts obj = Some ot /\ t_body ot = BObject ifaces fs dr /\
      find_type ts abstract = Some at_ /\
      ((exists ms, t_body at_ = BUnion ms /\ In obj ms)
       \/ (exists ifs, t_body at_ = BInterface ifs /\ In abstract ifaces)).

  Inductive subtype : ty -> ty -> Prop :=
  | sub_refl t : subtype t t
  | sub_non_null_left t u : subtype t u -> subtype (TyNonNull t) u
  | sub_list t u : subtype t u -> subtype (TyList t) (TyList u)
  | sub_non_null t u : subtype t u -> subtype (TyNonNull t) (TyNonNull u)
  | sub_possible a b : possible_type b a -> subtype (TyNamed a) (TyNamed b).
End Subtype.

(* py_gql cannot build NonNull(NonNull(..)) ("Cannot wrap NonNullType twice") *)
Fixpoint wf_ty (t : ty) : Prop :=
  match t with
  | TyNamed _ => True
  | TyList a => wf_ty a
  | TyNonNull a => match a with TyNonNull _ => False | _ => True end /\ wf_ty a
  end.

(* ------------------------------------------------------------ resolver calls *)
(* The executor calls  resolver(root, context, info, **kwargs)  where the
   keys of kwargs are python names of arguments: every argument that has a
   default or is non-null, and any of the others. *)
Definition arg_always_present (a : arg_def) : bool :=
  match a_default a with Some _ => true | None => is_non_null (a_type a) end.

Definition allowed_call (args : list arg_def) (K : list str) : Prop :=
  (forall k, In k K -> In k (map a_pyname args))
  /\ (forall a, In a args -> arg_always_present a = true -> In (a_pyname a) K).

Definition positional (p : param) : bool :=
  match p_kind p with PosOnly | PosOrKw => true | _ => false end.
Definition variadic (p : param) : bool :=
  match p_kind p with VarPos | VarKw => true | _ => false end.
Definition by_keyword (p : param) : bool :=
  match p_kind p with PosOrKw | KwOnly => true | _ => false end.
Definition has_kind (k : pkind) (sg : rsig) : bool := existsb (fun p => pkind_eqb (p_kind p) k) sg.

(* Python's argument binding (Language Reference 6.3.4 "Calls") for three
   positional values and the keywords K, as a decision procedure:
   1. the positional values need three positional parameters or *args;
   2. a keyword must not name a parameter already filled positionally;
   3. a keyword must name a parameter that can be passed by keyword, or **kwargs takes it;
   4. every other parameter needs a default or its keyword. *)
Definition binds (sg : rsig) (K : list str) : bool :=
  let head := firstn 3 (filter positional sg) in
  (has_kind VarPos sg || (3 <=? length (filter positional sg)))
  && forallb (fun p => negb (by_keyword p && mem_str (p_name p) K)) head
  && forallb (fun k => existsb (fun p => str_eqb k (p_name p) && by_keyword p) sg
                       || has_kind VarKw sg) K
  && forallb (fun p => variadic p || mem_str (p_name p) (map p_name head) || p_default p
                       || (by_keyword p && mem_str (p_name p) K)) sg.

(* the rule the validator implements: every call the executor may make binds,
   and no argument is named like a positional-only parameter (the validator's
   own, explicit restriction) *)
Definition sig_ok (sg : rsig) (args : list arg_def) : Prop :=
  (forall K, allowed_call args K -> binds sg K = true)
  /\ (forall a p, In a args -> In p sg -> p_name p = a_pyname a -> p_kind p <> PosOnly).

(* ------------------------------------------------------------ rules, one predicate per label *)
Definition name_ok (s : str) : Prop :=
  match s with
  | [] => False
  | c :: r =>
      let letter x := ((65 <= x <= 90) \/ (97 <= x <= 122) \/ x = 95)%N in
      let digit x := (48 <= x <= 57)%N in
      letter c /\ Forall (fun x => letter x \/ digit x) r
      /\ ~ (exists r', s = 95%N :: 95%N :: r')
  end.

Section Rules.
  Variable s : schema.
  Let ts := s_types s.

  Definition kind_is (n : str) (ks : list N) : Prop :=
    exists t, find_type ts n = Some t /\ In (kind_code (t_body t)) ks.
  Definition input_position (t : ty) : Prop := kind_is (unwrap t) [0; 4; 5]%N.
  Definition output_position (t : ty) : Prop := kind_is (unwrap t) [0; 1; 2; 3; 4]%N.

  Definition args_ok (args : list arg_def) : Prop :=
    NoDup (map a_name args)
    /\ Forall (fun a => name_ok (a_name a) /\ input_position (a_type a)) args.

  (* names_ok, non_empty, unique_members, positions_ok for one composite type *)
  Definition fields_ok (fields : list field_def) : Prop :=
    fields <> []
    /\ NoDup (map f_name fields)
    /\ Forall (fun f => name_ok (f_name f) /\ output_position (f_type f) /\ args_ok (f_args f)) fields.

  Definition input_fields_ok (fields : list input_field) : Prop :=
    fields <> []
    /\ NoDup (map i_name fields)
    /\ Forall (fun f => name_ok (i_name f) /\ input_position (i_type f)) fields.

  Definition enum_ok (values : list enum_value) : Prop :=
    values <> [] /\ Forall (fun v => name_ok (e_name v)) values.

  (* union_ok *)
  Definition union_ok (members : list str) : Prop :=
    members <> [] /\ NoDup members /\ Forall (fun m => kind_is m [1%N]) members.

  Definition roots_ok : Prop :=
    (exists q, s_query s = Some q /\ kind_is q [1%N])
    /\ (forall q, s_mutation s = Some q -> kind_is q [1%N])
    /\ (forall q, s_subscription s = Some q -> kind_is q [1%N]).

  Definition directives_ok : Prop :=
    Forall (fun d => name_ok (d_name d) /\ args_ok (d_args d)) (s_dirs s).
End Rules.

(* ------------------------------------------------------------ the whole verdict *)
Section Verdict.
  Variable s : schema.
  Let ts := s_types s.

  (* implements_ok: every interface field present with a covariant type, every
     interface argument present with the same type, additional arguments nullable *)
  Definition implementation_ok (ofields ifields : list field_def) : Prop :=
    Forall (fun f =>
      exists g, In g ofields /\ f_name g = f_name f
        /\ subtype ts (f_type g) (f_type f)
        /\ Forall (fun a => exists b, In b (f_args g) /\ a_name b = a_name a /\ a_type b = a_type a) (f_args f)
        /\ Forall (fun b => (exists a, In a (f_args f) /\ a_name a = a_name b)
                            \/ is_non_null (a_type b) = false) (f_args g)) ifields.

  Definition implements_ok_with (P : list field_def -> list field_def -> Prop)
             (ofields : list field_def) (ifaces : list str) : Prop :=
    NoDup ifaces
    /\ Forall (fun i => exists it ifields, find_type ts i = Some it /\ t_body it = BInterface ifields
                                          /\ P ofields ifields) ifaces.

  (* resolvers_ok: the resolver that the executor would pick for the field *)
  Definition resolver_of (tdr : option rsig) (f : field_def) : option rsig :=
    match f_resolver f with
    | Some r => Some r
    | None => match tdr with Some r => Some r | None => s_default_resolver s end
    end.

  Definition resolvers_ok (tdr : option rsig) (fields : list field_def) : Prop :=
    Forall (fun f => match resolver_of tdr f with
                     | Some sg => sig_ok sg (f_args f)
                     | None => True end) fields.

  Definition type_ok_with (P : list field_def -> list field_def -> Prop) (t : type_def) : Prop :=
    (t_intro t = true \/ t_spec t = true \/ name_ok (t_name t))
    /\ match t_body t with
       | BScalar => True
       | BObject ifaces fields dr =>
           fields_ok s fields /\ resolvers_ok dr fields /\ implements_ok_with P fields ifaces
       | BInterface fields => fields_ok s fields /\ resolvers_ok None fields
       | BUnion ms => union_ok s ms
       | BEnum vs => enum_ok vs
       | BInput fs => input_fields_ok s fs
       end.

  Definition schema_ok_with (P : list field_def -> list field_def -> Prop) : Prop :=
    roots_ok s /\ Forall (type_ok_with P) ts /\ directives_ok s.

  (* the property's notion of a valid schema *)
  Definition schema_ok : Prop := schema_ok_with implementation_ok.
End Verdict.
