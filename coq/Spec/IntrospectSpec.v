(* C15 -- what "introspection reports exactly the schema" demands.

   [decode] reads a schema back from the data tree of the standard
   introspection query, the way a client does: kinds, names, descriptions,
   fields with arguments / types / deprecation, input fields, interfaces,
   enum values, union members (from possibleTypes), directives with locations
   and arguments, root operation type names; every reported defaultValue is
   parsed as GraphQL value syntax ([parse_lit], a reader for the const-value
   grammar of the June 2018 specification, section 2.9).

   [public] is the schema a client is entitled to see: what introspection
   cannot show by design is erased (enum internal values; the order of the
   type / directive registries and of union members, which are reported
   sorted by name) and every declared default is expressed as the GraphQL
   literal denoting it ([lit_of_default]: enum values by name, input objects
   as object literals).

   "Reports exactly" is the left-inverse law
        decode (introspect_model s flags) = Some (public s). *)
From PyGql Require Export Schema.IntrospectModel.
From Coq Require Import DecimalPos DecimalFacts.

(* ------------------------------------------------------------------ *)
(* GraphQL const-value syntax *)

Definition is_digit (c : N) : bool := N.leb 48 c && N.leb c 57.
Definition is_letter (c : N) : bool :=
  (N.leb 65 c && N.leb c 90) || (N.leb 97 c && N.leb c 122) || N.eqb c 95.
Definition is_name_char (c : N) : bool := is_letter c || is_digit c.
(* Ignored tokens between lexical tokens: space, tab, line terminators,
   comma, BOM *)
Definition is_ignored (c : N) : bool :=
  N.eqb c 32 || N.eqb c 9 || N.eqb c 10 || N.eqb c 13 || N.eqb c 44 || N.eqb c 65279.

Fixpoint skip_ignored (s : str) : str :=
  match s with
  | c :: r => if is_ignored c then skip_ignored r else s
  | [] => []
  end.

Fixpoint span (p : N -> bool) (s : str) : str * str :=
  match s with
  | c :: r => if p c then let (a, b) := span p r in (c :: a, b) else ([], s)
  | [] => ([], [])
  end.

Fixpoint digits_uint (s : str) : option Decimal.uint :=
  match s with
  | [] => Some Decimal.Nil
  | c :: r =>
      match digits_uint r with
      | None => None
      | Some u =>
          if N.eqb c 48 then Some (Decimal.D0 u) else if N.eqb c 49 then Some (Decimal.D1 u)
          else if N.eqb c 50 then Some (Decimal.D2 u) else if N.eqb c 51 then Some (Decimal.D3 u)
          else if N.eqb c 52 then Some (Decimal.D4 u) else if N.eqb c 53 then Some (Decimal.D5 u)
          else if N.eqb c 54 then Some (Decimal.D6 u) else if N.eqb c 55 then Some (Decimal.D7 u)
          else if N.eqb c 56 then Some (Decimal.D8 u) else if N.eqb c 57 then Some (Decimal.D9 u)
          else None
      end
  end.

(* IntegerPart without the sign: 0 | NonZeroDigit Digit*  (no leading zeros) *)
Definition nat_of_digits (ds : str) : option Z :=
  match ds with
  | [] => None
  | _ => match digits_uint ds with
         | Some u => if str_eqb (uint_digits (Decimal.unorm u)) ds
                     then Some (Z.of_N (Pos.of_uint u)) else None
         | None => None
         end
  end.

Definition is_num_char (c : N) : bool :=
  is_digit c || N.eqb c 46 || N.eqb c 101 || N.eqb c 69 || N.eqb c 43 || N.eqb c 45.
Definition is_float_mark (c : N) : bool := N.eqb c 46 || N.eqb c 101 || N.eqb c 69.

(* a number token starting at a digit; [neg]: a minus sign was consumed *)
Definition read_number (neg : bool) (s : str) : option (lit * str) :=
  let (tok, rest) := span is_num_char s in
  if existsb is_float_mark tok
  then Some (LFloat (if neg then 45%N :: tok else tok), rest)
  else match nat_of_digits tok with
       | Some n => Some (LInt (if neg then Z.opp n else n), rest)
       | None => None
       end.

Definition hex_val (c : N) : option N :=
  if is_digit c then Some (c - 48)%N
  else if N.leb 97 c && N.leb c 102 then Some (c - 87)%N
  else if N.leb 65 c && N.leb c 70 then Some (c - 55)%N
  else None.

(* the characters of a quoted string after the opening quote *)
Fixpoint read_string (s : str) : option (str * str) :=
  match s with
  | [] => None
  | c :: r =>
      if N.eqb c 34 then Some ([], r)
      else if N.eqb c 92 then
        match r with
        | [] => None
        | e :: r' =>
            let simple (x : N) := match read_string r' with
                                  | Some (a, b) => Some (x :: a, b) | None => None end in
            if N.eqb e 34 then simple 34%N else if N.eqb e 92 then simple 92%N
            else if N.eqb e 47 then simple 47%N else if N.eqb e 98 then simple 8%N
            else if N.eqb e 102 then simple 12%N else if N.eqb e 110 then simple 10%N
            else if N.eqb e 114 then simple 13%N else if N.eqb e 116 then simple 9%N
            else if N.eqb e 117 then
              match r' with
              | h1 :: h2 :: h3 :: h4 :: r'' =>
                  match hex_val h1, hex_val h2, hex_val h3, hex_val h4, read_string r'' with
                  | Some a1, Some a2, Some a3, Some a4, Some (a, b) =>
                      Some ((a1 * 4096 + a2 * 256 + a3 * 16 + a4)%N :: a, b)
                  | _, _, _, _, _ => None
                  end
              | _ => None
              end
            else None
        end
      else if N.eqb c 10 || N.eqb c 13 then None
      else if negb (N.leb 32 c || N.eqb c 9) then None
      else match read_string r with Some (a, b) => Some (c :: a, b) | None => None end
  end.

Definition keyword_or_enum (nm : str) : lit :=
  if str_eqb nm (S_ "null") then LNull
  else if str_eqb nm (S_ "true") then LBool true
  else if str_eqb nm (S_ "false") then LBool false
  else LEnum nm.

(* every value that is not a list or an object; [s] starts at the token *)
Definition scalar_token (s : str) : option (lit * str) :=
  match s with
  | [] => None
  | c :: r =>
      if N.eqb c 34 then
        match r with
        | c2 :: c3 :: _ => if N.eqb c2 34 && N.eqb c3 34 then None   (* block strings: not read *)
                           else match read_string r with Some (x, rest) => Some (LStr x, rest) | None => None end
        | _ => match read_string r with Some (x, rest) => Some (LStr x, rest) | None => None end
        end
      else if N.eqb c 45 then
        match r with
        | d :: _ => if is_digit d then read_number true r else None
        | [] => None
        end
      else if is_digit c then read_number false s
      else if is_letter c then let (nm, rest) := span is_name_char s in Some (keyword_or_enum nm, rest)
      else None
  end.

Fixpoint parse_value (fuel : nat) (s : str) : option (lit * str) :=
  match fuel with
  | O => None
  | S f =>
      match skip_ignored s with
      | [] => None
      | c :: r =>
          if N.eqb c 91 then parse_items f r []
          else if N.eqb c 123 then parse_fields f r []
          else scalar_token (c :: r)
      end
  end
with parse_items (fuel : nat) (s : str) (acc : list lit) : option (lit * str) :=
  match fuel with
  | O => None
  | S f =>
      match skip_ignored s with
      | [] => None
      | c :: r =>
          if N.eqb c 93 then Some (LList (rev acc), r)
          else match parse_value f (c :: r) with
               | Some (v, rest) => parse_items f rest (v :: acc)
               | None => None
               end
      end
  end
with parse_fields (fuel : nat) (s : str) (acc : list (str * lit)) : option (lit * str) :=
  match fuel with
  | O => None
  | S f =>
      match skip_ignored s with
      | [] => None
      | c :: r =>
          if N.eqb c 125 then Some (LObj (rev acc), r)
          else if is_letter c then
            let (nm, rest) := span is_name_char (c :: r) in
            match skip_ignored rest with
            | c' :: rest' =>
                if N.eqb c' 58 then
                  match parse_value f rest' with
                  | Some (v, rest'') => parse_fields f rest'' ((nm, v) :: acc)
                  | None => None
                  end
                else None
            | [] => None
            end
          else None
      end
  end.

(* a whole text as one value *)
Definition parse_lit (s : str) : option lit :=
  match parse_value (S (S (length s))) s with
  | Some (v, rest) => match skip_ignored rest with [] => Some v | _ => None end
  | None => None
  end.

(* ------------------------------------------------------------------ *)
(* The declared default as the GraphQL literal denoting it *)

Fixpoint plain_lit (v : pv) : lit :=
  match v with
  | PNone => LNull
  | PBool b => LBool b
  | PInt z => LInt z
  | PFloat r => LFloat r
  | PStr s => LStr s
  | PList l => LList ((fix go (l : list pv) := match l with [] => [] | x :: l' => plain_lit x :: go l' end) l)
  | PDict kvs => LObj ((fix go (l : list (str * pv)) :=
                          match l with [] => [] | (k, x) :: l' => (k, plain_lit x) :: go l' end) kvs)
  end.

Fixpoint strip_non_null (t : iref) : iref :=
  match t with IRNonNull t' => strip_non_null t' | _ => t end.

Fixpoint find_input {D} (n : str) (fs : list (iinput D)) : option (iinput D) :=
  match fs with
  | [] => None
  | f :: fs' => if str_eqb n (iv_name f) then Some f else find_input n fs'
  end.

Fixpoint find_enum_by_value (v : pv) (vs : list ienumval) : option ienumval :=
  match vs with
  | [] => None
  | e :: vs' => if pv_eqb (ev_value e) v then Some e else find_enum_by_value v vs'
  end.

(* a non-list, non-dict value at a position whose named type is [n] *)
Definition leaf_lit {D} (ts : list (itype D)) (n : str) (v : pv) : lit :=
  match find_type n ts with
  | Some (IType _ _ (IEnum vs)) =>
      match find_enum_by_value v vs with Some e => LEnum (ev_name e) | None => plain_lit v end
  | _ => plain_lit v
  end.

Fixpoint lit_of_default {D} (ts : list (itype D)) (v : pv) (t : iref) {struct v} : lit :=
  match v with
  | PNone => LNull
  | PList l =>
      match strip_non_null t with
      | IRList t' => LList ((fix go (l : list pv) :=
                               match l with [] => [] | x :: l' => lit_of_default ts x t' :: go l' end) l)
      | _ => plain_lit v
      end
  | PDict kvs =>
      match find_type (iref_base t) ts with
      | Some (IType _ _ (IInputObject fs)) =>
          LObj ((fix go (l : list (str * pv)) :=
                   match l with
                   | [] => []
                   | (k, x) :: l' =>
                       (k, lit_of_default ts x (match find_input k fs with
                                                | Some f => iv_type f | None => IRNamed [] end)) :: go l'
                   end) kvs)
      | Some (IType _ _ (IEnum _)) => leaf_lit ts (iref_base t) v
      | _ => plain_lit v
      end
  | _ => leaf_lit ts (iref_base t) v
  end.

(* ------------------------------------------------------------------ *)
(* public: what a client is entitled to see *)

Definition public_enum_value (e : ienumval) : ienumval :=
  IEnumVal (ev_name e) (ev_desc e) (ev_deprecated e) (ev_reason e) PNone.

(* [pd t d]: how the default [d] declared at a position of type [t] is shown.
   [pd_exact]: as the literal denoting it; [pd_none]: not at all (the shape
   of the schema, defaults disregarded). *)
Section PublicWith.
  Variable pd : iref -> option pv -> option lit.

  Definition public_input_with (iv : iinput pv) : iinput lit :=
    IInput (iv_name iv) (iv_desc iv) (iv_type iv) (pd (iv_type iv) (iv_default iv)).

  Definition public_field_with (f : ifield pv) : ifield lit :=
    IField (f_name f) (f_desc f) (map public_input_with (f_args f)) (f_type f) (f_deprecated f) (f_reason f).

  Definition public_def_with (d : itypedef pv) : itypedef lit :=
    match d with
    | IScalar => IScalar
    | IObject fs ifs => IObject (map public_field_with fs) ifs
    | IInterface fs => IInterface (map public_field_with fs)
    | IUnion ms => IUnion (sort_by (fun n => n) ms)
    | IEnum vs => IEnum (map public_enum_value vs)
    | IInputObject ivs => IInputObject (map public_input_with ivs)
    end.

  Definition public_type_with (t : itype pv) : itype lit :=
    IType (t_name t) (t_desc t) (public_def_with (t_def t)).

  Definition public_directive_with (d : idirective pv) : idirective lit :=
    IDirective (dr_name d) (dr_desc d) (dr_locations d) (map public_input_with (dr_args d)).

  Definition public_with (s : ischema pv) : ischema lit :=
    ISchema (sort_by t_name (map public_type_with (s_types s)))
            (sort_by dr_name (map public_directive_with (s_directives s)))
            (s_query s) (s_mutation s) (s_subscription s).
End PublicWith.

Definition pd_exact (ts : list (itype pv)) (t : iref) (d : option pv) : option lit :=
  option_map (fun v => lit_of_default ts v t) d.
Definition pd_none (t : iref) (d : option pv) : option lit := None.

Definition public_input (ts : list (itype pv)) := public_input_with (pd_exact ts).
Definition public_field (ts : list (itype pv)) := public_field_with (pd_exact ts).
Definition public_def (ts : list (itype pv)) := public_def_with (pd_exact ts).
Definition public_type (ts : list (itype pv)) := public_type_with (pd_exact ts).
Definition public_directive (ts : list (itype pv)) := public_directive_with (pd_exact ts).
Definition public (s : ischema pv) : ischema lit := public_with (pd_exact (s_types s)) s.

(* the schema with its default values disregarded *)
Definition public_shape (s : ischema pv) : ischema lit := public_with pd_none s.

(* ------------------------------------------------------------------ *)
(* decode: reading the answer tree *)

Definition getk (k : str) (v : pv) : option pv :=
  match v with PDict kvs => alookup k kvs | _ => None end.

Definition as_str (v : option pv) : option str :=
  match v with Some (PStr x) => Some x | _ => None end.
Definition as_opt_str (v : option pv) : option (option str) :=
  match v with Some (PStr x) => Some (Some x) | Some PNone => Some None | _ => None end.
Definition as_bool (v : option pv) : option bool :=
  match v with Some (PBool b) => Some b | _ => None end.
Definition as_list (v : option pv) : option (list pv) :=
  match v with Some (PList l) => Some l | _ => None end.

Fixpoint map_opt {A B} (f : A -> option B) (l : list A) : option (list B) :=
  match l with
  | [] => Some []
  | x :: l' => match f x, map_opt f l' with
               | Some y, Some ys => Some (y :: ys)
               | _, _ => None
               end
  end.

Definition obind_ {A B} (x : option A) (f : A -> option B) : option B :=
  match x with Some a => f a | None => None end.
Notation "'let?' x := e 'in' f" := (obind_ e (fun x => f))
  (at level 200, x pattern, e at level 100, f at level 200, right associativity).

(* fragment TypeRef; [fuel] bounds the ofType nesting read *)
Fixpoint decode_ref (fuel : nat) (v : pv) : option iref :=
  match fuel with
  | O => None
  | S f =>
      match getk (S_ "kind") v with
      | Some (PStr k) =>
          if str_eqb k (S_ "LIST") then
            let? inner := getk (S_ "ofType") v in option_map IRList (decode_ref f inner)
          else if str_eqb k (S_ "NON_NULL") then
            let? inner := getk (S_ "ofType") v in option_map IRNonNull (decode_ref f inner)
          else option_map IRNamed (as_str (getk (S_ "name") v))
      | Some PNone => option_map IRNamed (as_str (getk (S_ "name") v))
      | _ => None
      end
  end.

Definition decode_default (v : option pv) : option (option lit) :=
  match v with
  | Some PNone => Some None
  | Some (PStr text) => option_map Some (parse_lit text)
  | _ => None
  end.

Section DecodeWith.
  (* how a reported defaultValue entry is read *)
  Variable dd : option pv -> option (option lit).

Definition decode_input_with (v : pv) : option (iinput lit) :=
  let? n := as_str (getk (S_ "name") v) in
  let? d := as_opt_str (getk (S_ "description") v) in
  let? t := obind_ (getk (S_ "type") v) (decode_ref 8) in
  let? dv := dd (getk (S_ "defaultValue") v) in
  Some (IInput n d t dv).

Definition decode_field_with (v : pv) : option (ifield lit) :=
  let? n := as_str (getk (S_ "name") v) in
  let? d := as_opt_str (getk (S_ "description") v) in
  let? args := obind_ (as_list (getk (S_ "args") v)) (map_opt decode_input_with) in
  let? t := obind_ (getk (S_ "type") v) (decode_ref 8) in
  let? dep := as_bool (getk (S_ "isDeprecated") v) in
  let? r := as_opt_str (getk (S_ "deprecationReason") v) in
  Some (IField n d args t dep r).

Definition decode_enum_value (v : pv) : option ienumval :=
  let? n := as_str (getk (S_ "name") v) in
  let? d := as_opt_str (getk (S_ "description") v) in
  let? dep := as_bool (getk (S_ "isDeprecated") v) in
  let? r := as_opt_str (getk (S_ "deprecationReason") v) in
  Some (IEnumVal n d dep r PNone).

Definition decode_named_ref (v : pv) : option str :=
  match decode_ref 8 v with Some (IRNamed n) => Some n | _ => None end.

Definition decode_type_with (v : pv) : option (itype lit) :=
  let? k := as_str (getk (S_ "kind") v) in
  let? n := as_str (getk (S_ "name") v) in
  let? d := as_opt_str (getk (S_ "description") v) in
  let? def :=
    (if str_eqb k (S_ "SCALAR") then Some IScalar
     else if str_eqb k (S_ "OBJECT") then
       let? fs := obind_ (as_list (getk (S_ "fields") v)) (map_opt decode_field_with) in
       let? ifs := obind_ (as_list (getk (S_ "interfaces") v)) (map_opt decode_named_ref) in
       Some (IObject fs ifs)
     else if str_eqb k (S_ "INTERFACE") then
       let? fs := obind_ (as_list (getk (S_ "fields") v)) (map_opt decode_field_with) in
       Some (IInterface fs)
     else if str_eqb k (S_ "UNION") then
       let? ms := obind_ (as_list (getk (S_ "possibleTypes") v)) (map_opt decode_named_ref) in
       Some (IUnion ms)
     else if str_eqb k (S_ "ENUM") then
       let? vs := obind_ (as_list (getk (S_ "enumValues") v)) (map_opt decode_enum_value) in
       Some (IEnum vs)
     else if str_eqb k (S_ "INPUT_OBJECT") then
       let? ivs := obind_ (as_list (getk (S_ "inputFields") v)) (map_opt decode_input_with) in
       Some (IInputObject ivs)
     else None) in
  Some (IType n d def).

Definition decode_directive_with (v : pv) : option (idirective lit) :=
  let? n := as_str (getk (S_ "name") v) in
  let? d := as_opt_str (getk (S_ "description") v) in
  let? locs := obind_ (as_list (getk (S_ "locations") v)) (map_opt (fun x => as_str (Some x))) in
  let? args := obind_ (as_list (getk (S_ "args") v)) (map_opt decode_input_with) in
  Some (IDirective n d locs args).

Definition decode_root (v : option pv) : option (option str) :=
  match v with
  | Some PNone => Some None
  | Some r => option_map Some (as_str (getk (S_ "name") r))
  | None => None
  end.

Definition decode_with (data : pv) : option (ischema lit) :=
  let? sc := getk (S_ "__schema") data in
  let? q := decode_root (getk (S_ "queryType") sc) in
  let? qn := q in
  let? m := decode_root (getk (S_ "mutationType") sc) in
  let? su := decode_root (getk (S_ "subscriptionType") sc) in
  let? ts := obind_ (as_list (getk (S_ "types") sc)) (map_opt decode_type_with) in
  let? ds := obind_ (as_list (getk (S_ "directives") sc)) (map_opt decode_directive_with) in
  Some (ISchema ts ds qn m su).

End DecodeWith.

Definition decode_input := decode_input_with decode_default.
Definition decode_field := decode_field_with decode_default.
Definition decode_type := decode_type_with decode_default.
Definition decode_directive := decode_directive_with decode_default.
Definition decode (data : pv) : option (ischema lit) := decode_with decode_default data.

(* reading everything but the default values (the entry must be there) *)
Definition dd_ignore (v : option pv) : option (option lit) :=
  match v with Some _ => Some None | None => None end.
Definition decode_shape (data : pv) : option (ischema lit) := decode_with dd_ignore data.

(* ------------------------------------------------------------------ *)
(* hypotheses of the exactness theorem *)

(* the TypeRef fragment selects seven ofType levels: deeper wrappers are cut
   off by the query itself *)
Definition ref_ok (t : iref) : Prop := iref_depth t <= 7.

(* characters a quoted string may contain raw *)
Definition plain_char (c : N) : bool :=
  negb (N.eqb c 34) && negb (N.eqb c 92) && (N.leb 32 c || N.eqb c 9).

Definition is_scalar_name {D} (ts : list (itype D)) (n : str) : bool :=
  match find_type n ts with Some (IType _ _ IScalar) => true | _ => false end.

(* ---- the guard on defaults, as a decidable predicate ---- *)

(* text of a finite float as Python prints it / as GraphQL reads it: digits,
   '.', 'e', 'E', '+', '-' only, at least one of '.', 'e', 'E', starting with
   a digit or with '-' followed by a digit *)
Definition float_text_ok (r : str) : bool :=
  forallb is_num_char r && existsb is_float_mark r &&
  match r with
  | c :: r' => is_digit c || (N.eqb c 45 && match r' with d :: _ => is_digit d | [] => false end)
  | [] => false
  end.

(* some string (at any depth of a list) has a character above U+FFFF *)
Fixpoint has_astral (v : pv) : bool :=
  match v with
  | PStr x => existsb (fun c => N.leb 65536 c) x
  | PList l => (fix go (l : list pv) := match l with [] => false | x :: l' => has_astral x || go l' end) l
  | _ => false
  end.

(* a value for which GraphQL has a literal that value_from_ast accepts at a
   scalar-typed position: no dict (InvalidValue: "Invalid literal ObjectValue
   for scalar type"), floats finite *)
Fixpoint scalar_denotable (v : pv) : bool :=
  match v with
  | PFloat r => float_text_ok r
  | PList l => (fix go (l : list pv) := match l with [] => true | x :: l' => scalar_denotable x && go l' end) l
  | PDict _ => false
  | _ => true
  end.

Definition base_def {D} (ts : list (itype D)) (t : iref) : option (itypedef D) :=
  option_map t_def (find_type (iref_base t) ts).

(* the four open-finding classes of DESIGN row 34 / known_findings.d/C15.json *)
Definition class_enum {D} (ts : list (itype D)) (t : iref) (v : pv) : bool :=
  match v, base_def ts t with PNone, _ => false | _, Some (IEnum _) => true | _, _ => false end.
Definition class_input_object {D} (ts : list (itype D)) (t : iref) (v : pv) : bool :=
  match v, base_def ts t with PNone, _ => false | _, Some (IInputObject _) => true | _, _ => false end.
Definition class_string_escape {D} (ts : list (itype D)) (t : iref) (v : pv) : bool :=
  match v, base_def ts t with
  | PStr x, Some IScalar => negb (forallb plain_char x)
  | _, _ => false
  end.
Definition class_astral_in_list {D} (ts : list (itype D)) (t : iref) (v : pv) : bool :=
  match v, base_def ts t with
  | PList _, Some IScalar => has_astral v
  | _, _ => false
  end.
Definition in_open_finding {D} (ts : list (itype D)) (t : iref) (v : pv) : bool :=
  class_enum ts t v || class_input_object ts t v || class_string_escape ts t v || class_astral_in_list ts t v.

(* the default has a GraphQL literal at all: its position's named type exists
   and, at a scalar-typed position, the value is scalar_denotable *)
Definition denotable {D} (ts : list (itype D)) (t : iref) (v : pv) : bool :=
  match v, base_def ts t with
  | PNone, _ => true
  | _, Some IScalar => scalar_denotable v
  | _, Some (IEnum _) | _, Some (IInputObject _) => true
  | _, _ => false
  end.

(* the guard of the exactness theorem: the default is not in an open-finding
   class (and denotes something) *)
Definition default_okb {D} (ts : list (itype D)) (t : iref) (v : pv) : bool :=
  negb (in_open_finding ts t v) && denotable ts t v.

Definition default_ok {D} (ts : list (itype D)) (t : iref) (v : pv) : Prop := default_okb ts t v = true.

Definition input_ok (defaults : bool) (ts : list (itype pv)) (iv : iinput pv) : Prop :=
  ref_ok (iv_type iv) /\
  (defaults = true -> match iv_default iv with Some v => default_ok ts (iv_type iv) v | None => True end).

Definition field_ok (defaults : bool) (ts : list (itype pv)) (f : ifield pv) : Prop :=
  ref_ok (f_type f) /\ Forall (input_ok defaults ts) (f_args f).

Definition type_ok (defaults : bool) (ts : list (itype pv)) (t : itype pv) : Prop :=
  match t_def t with
  | IObject fs _ => Forall (field_ok defaults ts) fs
  | IInterface fs => Forall (field_ok defaults ts) fs
  | IInputObject ivs => Forall (input_ok defaults ts) ivs
  | _ => True
  end.

(* [schema_ok true]: also every default is of a kind that renders correctly *)
Definition schema_ok (defaults : bool) (s : ischema pv) : Prop :=
  Forall (type_ok defaults (s_types s)) (s_types s) /\
  Forall (fun d => Forall (input_ok defaults (s_types s)) (dr_args d)) (s_directives s).

(* the same guard as a boolean function of the schema *)
Definition ref_okb (t : iref) : bool := Nat.leb (iref_depth t) 7.
Definition input_okb (defaults : bool) (ts : list (itype pv)) (iv : iinput pv) : bool :=
  ref_okb (iv_type iv) &&
  (negb defaults || match iv_default iv with Some v => default_okb ts (iv_type iv) v | None => true end).
Definition field_okb (defaults : bool) (ts : list (itype pv)) (f : ifield pv) : bool :=
  ref_okb (f_type f) && forallb (input_okb defaults ts) (f_args f).
Definition type_okb (defaults : bool) (ts : list (itype pv)) (t : itype pv) : bool :=
  match t_def t with
  | IObject fs _ => forallb (field_okb defaults ts) fs
  | IInterface fs => forallb (field_okb defaults ts) fs
  | IInputObject ivs => forallb (input_okb defaults ts) ivs
  | _ => true
  end.
Definition schema_okb (defaults : bool) (s : ischema pv) : bool :=
  forallb (type_okb defaults (s_types s)) (s_types s) &&
  forallb (fun d => forallb (input_okb defaults (s_types s)) (dr_args d)) (s_directives s).

Definition full_flags : iflags := IFlags true true.

(* the full-strength statement: every schema whose type references fit the
   query, whatever its defaults *)
Definition C15_exact_full : Prop :=
  forall s, schema_ok false s -> decode (introspect_model s full_flags) = Some (public s).

(* ------------------------------------------------------------------ *)
(* projections of an answer used by the order / filter statements *)

Definition names_of (l : list pv) : option (list str) :=
  map_opt (fun x => as_str (getk (S_ "name") x)) l.

(* names listed under key [k] ("fields", "enumValues", "possibleTypes", ...)
   of one __Type answer *)
Definition member_names (k : str) (type_answer : pv) : option (list str) :=
  obind_ (as_list (getk k type_answer)) names_of.

Definition schema_part (k : str) (data : pv) : option (list pv) :=
  obind_ (getk (S_ "__schema") data) (fun sc => as_list (getk k sc)).

(* the __Type answer reported for the type called [n] *)
Fixpoint answer_named (n : str) (l : list pv) : option pv :=
  match l with
  | [] => None
  | x :: l' => match as_str (getk (S_ "name") x) with
               | Some m => if str_eqb n m then Some x else answer_named n l'
               | None => answer_named n l'
               end
  end.

Definition str_le (a b : str) : Prop := str_leb a b = true.

(* ------------------------------------------------------------------ *)
(* the disable switch and __typename on probe selections *)

Fixpoint erase_sel (p : psel) : list psel :=
  match p with
  | PSField k n sub => [PSField k n (flat_map erase_sel sub)]
  | _ => []
  end.
(* the selection with every meta-field removed, at every level *)
Definition erase_meta (sels : list psel) : list psel := flat_map erase_sel sels.

(* ordinary selections do not use the reserved names *)
Fixpoint sel_wf (p : psel) : bool :=
  match p with
  | PSField _ n sub => negb (is_meta_name n) && forallb sel_wf sub
  | _ => true
  end.

Fixpoint sel_meta_free (p : psel) : bool :=
  match p with
  | PSField _ n sub => negb (is_meta_name n) && forallb sel_meta_free sub
  | _ => false
  end.

(* ------------------------------------------------------------------ *)
(* the includeDeprecated law, on answer trees: removing the members marked
   deprecated from every "fields" / "enumValues" list of an answer given with
   includeDeprecated: true *)

Definition is_deprecated_entry (v : pv) : bool :=
  match getk (S_ "isDeprecated") v with Some (PBool true) => true | _ => false end.

Fixpoint update_key (k : str) (f : pv -> pv) (kvs : list (str * pv)) : list (str * pv) :=
  match kvs with
  | [] => []
  | (k', v) :: r => if str_eqb k k' then (k', f v) :: r else (k', v) :: update_key k f r
  end.

Definition on_dict (k : str) (f : pv -> pv) (v : pv) : pv :=
  match v with PDict kvs => PDict (update_key k f kvs) | _ => v end.

(* a null list stays null, a list keeps its non-deprecated entries in order *)
Definition drop_deprecated_list (v : pv) : pv :=
  match v with
  | PList l => PList (filter (fun x => negb (is_deprecated_entry x)) l)
  | _ => v
  end.

Definition drop_deprecated_type (v : pv) : pv :=
  on_dict (S_ "enumValues") drop_deprecated_list (on_dict (S_ "fields") drop_deprecated_list v).

Definition drop_deprecated_types (v : pv) : pv :=
  match v with PList l => PList (map drop_deprecated_type l) | _ => v end.

(* on the answer of the introspection query / of a __type(name:) query *)
Definition drop_deprecated (data : pv) : pv :=
  on_dict (S_ "__schema") (on_dict (S_ "types") drop_deprecated_types) data.
Definition drop_deprecated_type_query (data : pv) : pv := on_dict (S_ "__type") drop_deprecated_type data.
