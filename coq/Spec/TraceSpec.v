(* C16 -- specification of hook / middleware traces.

   What the property demands of the sequence of observable events of one
   request (instrumentation callbacks, middleware entry/exit, resolver
   invocation/return), as a declarative [Prop] ([trace_spec]) and as a
   decidable checker ([trace_ok]).  Proofs (incl. "the checker decides the
   spec") are in Proofs/TraceProofs.v.  Nothing here mentions the code. *)
From Coq Require Import List NArith Arith Bool.
Import ListNotations.

(* A response path.  Keys and list indices are encoded injectively as numbers
   by the harness (list index i -> i, response key number j -> 1000 + j). *)
Definition path := list N.

Inductive stage := SQ | SP | SV | SE.   (* query, parsing, validation, execution *)

Inductive event :=
| StageStart (s : stage) (i : nat)      (* on_<s>_start of instrumentation number i *)
| StageEnd   (s : stage) (i : nat)
| FieldStart (i : nat) (p : path)       (* on_field_start of instrumentation i, info.path = p *)
| FieldEnd   (i : nat) (p : path)
| MwEnter    (j : nat) (p : path)       (* middleware number j (position in middlewares=[..]) entered *)
| MwExit     (j : nat) (p : path)
| Invoke     (p : path)                 (* the resolver body starts *)
| Return     (p : path)                 (* ... returned a value / null *)
| Raise      (p : path).                (* ... raised ResolverError *)

Definition path_eq_dec : forall a b : path, {a = b} + {a <> b} := list_eq_dec N.eq_dec.
Definition stage_eq_dec : forall a b : stage, {a = b} + {a <> b}.
Proof. decide equality. Defined.
Definition event_eq_dec : forall a b : event, {a = b} + {a <> b}.
Proof. decide equality; try apply Nat.eq_dec; try apply path_eq_dec; apply stage_eq_dec. Defined.
Definition word_eq_dec : forall a b : list event, {a = b} + {a <> b} := list_eq_dec event_eq_dec.

Definition ev_path (e : event) : option path :=
  match e with
  | StageStart _ _ | StageEnd _ _ => None
  | FieldStart _ p | FieldEnd _ p | MwEnter _ p | MwExit _ p
  | Invoke p | Return p | Raise p => Some p
  end.
Definition is_stage (e : event) : bool := match ev_path e with None => true | Some _ => false end.
Definition is_field (e : event) : bool := negb (is_stage e).
Definition about (p : path) (e : event) : bool :=
  match ev_path e with Some q => if path_eq_dec q p then true else false | None => false end.
Definition is_call (e : event) : bool :=
  match e with Invoke _ | Return _ | Raise _ => true | _ => false end.
Definition is_exit (e : event) : bool := match e with MwExit _ _ => true | _ => false end.
Definition is_estart (e : event) : bool := match e with StageStart SE _ => true | _ => false end.
Definition is_eend (e : event) : bool := match e with StageEnd SE _ => true | _ => false end.

(* ------------------------------------------------------------ configuration *)

(* outcome of one field *)
Inductive fout :=
| OVal      (* resolver returned a non-null value: sub-fields are resolved *)
| ONull     (* resolver returned null (also in a non-null position) *)
| OErr      (* resolver raised ResolverError *)
| OArgErr.  (* argument coercion failed: the resolver is never called *)

(* The fields of an operation as a tree: [rel] is the path of the field
   relative to its parent field (one key, or list indices followed by a key). *)
Inductive ftree := FNode (rel : path) (o : fout) (deferred : bool) (kids : list ftree).

(* a field that is resolved, with the path of the field whose value it hangs off *)
Record node := mkNode { nd_path : path; nd_out : fout; nd_def : bool; nd_parent : option path }.

(* "the fields that are resolved": a field is resolved iff all its ancestors
   returned a value *)
Fixpoint expected (pre : path) (par : option path) (t : ftree) : list node :=
  match t with
  | FNode rel o d kids =>
      let p := pre ++ rel in
      mkNode p o d par ::
        match o with
        | OVal => flat_map (expected p (Some p)) kids
        | _ => []
        end
  end.
Definition expected_roots (ts : list ftree) : list node := flat_map (expected [] None) ts.

Inductive oclass :=
| OCSyntax | OCValidation | OCUnknownOp | OCVarError
| OCDirective      (* @skip / @include arguments of the root selection cannot be coerced *)
| OCSuccess | OCPartial.
Definition is_exec (c : oclass) : bool :=
  match c with OCSuccess | OCPartial => true | _ => false end.
Definition reaches_validation (c : oclass) : bool :=
  match c with OCSyntax => false | _ => true end.

Record config := mkConfig {
  c_k : nat;               (* number of stacked instrumentations (>= 1) *)
  c_n : nat;               (* number of middlewares *)
  c_text : bool;           (* document submitted as text (else as parsed AST) *)
  c_class : oclass;        (* outcome class of the request *)
  c_mw_awaits : bool;      (* middlewares wait for the value of a deferred resolver
                              (blocking runtimes: vacuous; asyncio: `await next(..)`) *)
  c_nodes : list node      (* the resolved fields (when the request is executed) *)
}.
Definition nodes_of (c : config) : list node :=
  if is_exec (c_class c) then c_nodes c else [].

(* ------------------------------------------------------------ stage hooks *)

Inductive sletter := Lp (s : stage) | Lm (s : stage).   (* X+ / X- *)
Definition opt {A} (b : bool) (w : list A) : list A := if b then w else [].

(*  Q+ (P+ P-)? (V+ V- (E+ E-)?)? Q-  *)
Definition stage_shape (p v e : bool) : list sletter :=
  [Lp SQ] ++ opt p [Lp SP; Lm SP] ++ opt v ([Lp SV; Lm SV] ++ opt e [Lp SE; Lm SE]) ++ [Lm SQ].
Definition stage_lang (w : list sletter) : Prop := exists p v e, w = stage_shape p v e.

(* stacked instrumentations 0..k-1: starts in order, ends in reverse order *)
Definition expand1 (k : nat) (l : sletter) : list event :=
  match l with
  | Lp s => map (StageStart s) (seq 0 k)
  | Lm s => map (StageEnd s) (rev (seq 0 k))
  end.
Definition expand (k : nat) (w : list sletter) : list event := flat_map (expand1 k) w.

Definition stage_spec (c : config) (sw : list event) : Prop :=
  exists w, stage_lang w
    /\ (In (Lp SP) w <-> c_text c = true)                           (* parsing iff submitted as text *)
    /\ (In (Lp SV) w <-> reaches_validation (c_class c) = true)
    /\ (In (Lp SE) w <-> is_exec (c_class c) = true)                (* execution iff validated and coerced *)
    /\ sw = expand (c_k c) w.

Definition stage_word (c : config) : list event :=
  expand (c_k c) (stage_shape (c_text c) (reaches_validation (c_class c)) (is_exec (c_class c))).

(* field-level events occur only while execution is open: after all k
   on_execution_start hooks and before any on_execution_end hook *)
Definition count (f : event -> bool) (l : list event) : nat := length (filter f l).
Definition nest_spec (c : config) (t : list event) : Prop :=
  forall a x b, t = a ++ x :: b -> is_field x = true ->
    count is_estart a = c_k c /\ count is_eend a = 0.

Fixpoint nest_scan (k s e : nat) (t : list event) : bool :=
  match t with
  | [] => true
  | x :: t' =>
      if is_estart x then nest_scan k (S s) e t'
      else if is_eend x then nest_scan k s (S e) t'
      else if is_field x then (s =? k) && (e =? 0) && nest_scan k s e t'
      else nest_scan k s e t'
  end.

(* ------------------------------------------------------------ one field *)

Definition starts (k : nat) (p : path) := map (fun i => FieldStart i p) (seq 0 k).
Definition ends   (k : nat) (p : path) := map (fun i => FieldEnd i p) (rev (seq 0 k)).
(* middlewares=[m0..m(n-1)]: the last listed is outermost *)
Definition enters (n : nat) (p : path) := map (fun j => MwEnter j p) (rev (seq 0 n)).
Definition exits  (n : nat) (p : path) := map (fun j => MwExit j p) (seq 0 n).
Definition call_word (o : fout) (p : path) : list event :=
  match o with
  | OVal | ONull => [Invoke p; Return p]
  | OErr => [Invoke p; Raise p]
  | OArgErr => []
  end.
Definition mws (o : fout) (w : list event) : list event :=
  match o with OArgErr => [] | _ => w end.

(* the bracket word  F+.. mn+..m1+ Invoke Return|Raise m1-..mn- F-..  *)
Definition inline_word (k n : nat) (nd : node) : list event :=
  let p := nd_path nd in let o := nd_out nd in
  starts k p ++ mws o (enters n p) ++ call_word o p ++ mws o (exits n p) ++ ends k p.
(* the same with the resolver call removed / with the middleware exits removed *)
Definition nocall_word (k n : nat) (nd : node) : list event :=
  let p := nd_path nd in let o := nd_out nd in
  starts k p ++ mws o (enters n p) ++ mws o (exits n p) ++ ends k p.
Definition noexit_word (k n : nat) (nd : node) : list event :=
  let p := nd_path nd in let o := nd_out nd in
  starts k p ++ mws o (enters n p) ++ call_word o p ++ ends k p.

(* A resolver wrapped by the runtime runs later than the call that passes
   through the middlewares; unless the middlewares wait for it, their exits
   are unordered with respect to the resolver body (partial order). *)
Definition submit_mode (c : config) (nd : node) : bool := nd_def nd && negb (c_mw_awaits c).

Definition word_spec (c : config) (nd : node) (w : list event) : Prop :=
  if submit_mode c nd
  then filter (fun e => negb (is_call e)) w = nocall_word (c_k c) (c_n c) nd
       /\ filter (fun e => negb (is_exit e)) w = noexit_word (c_k c) (c_n c) nd
  else w = inline_word (c_k c) (c_n c) nd.

Definition word_okb (c : config) (nd : node) (w : list event) : bool :=
  if submit_mode c nd
  then (if word_eq_dec (filter (fun e => negb (is_call e)) w) (nocall_word (c_k c) (c_n c) nd) then true else false)
       && (if word_eq_dec (filter (fun e => negb (is_exit e)) w) (noexit_word (c_k c) (c_n c) nd) then true else false)
  else if word_eq_dec w (inline_word (c_k c) (c_n c) nd) then true else false.

(* a sub-field starts only after the field it hangs off has returned *)
Definition parent_spec (t : list event) (nd : node) : Prop :=
  forall q, nd_parent nd = Some q ->
  forall a x b, t = a ++ x :: b -> about (nd_path nd) x = true -> In (Return q) a.

Fixpoint guard_scan (g : event) (p : path) (t : list event) : bool :=
  match t with
  | [] => true
  | x :: t' =>
      if about p x then false
      else if event_eq_dec x g then true
      else guard_scan g p t'
  end.
Definition parent_okb (t : list event) (nd : node) : bool :=
  match nd_parent nd with
  | Some q => guard_scan (Return q) (nd_path nd) t
  | None => true
  end.

(* ------------------------------------------------------------ whole trace *)

Record trace_spec (c : config) (t : list event) : Prop := {
  ts_stage  : stage_spec c (filter is_stage t);
  ts_nest   : nest_spec c t;
  ts_known  : forall x, In x t -> is_field x = true ->
                exists nd, In nd (nodes_of c) /\ about (nd_path nd) x = true;
  ts_field  : forall nd, In nd (nodes_of c) ->
                word_spec c nd (filter (about (nd_path nd)) t);
  ts_parent : forall nd, In nd (nodes_of c) -> parent_spec t nd
}.

Definition trace_ok (c : config) (t : list event) : bool :=
  (if word_eq_dec (filter is_stage t) (stage_word c) then true else false)
  && nest_scan (c_k c) 0 0 t
  && forallb (fun x => negb (is_field x) || existsb (fun nd => about (nd_path nd) x) (nodes_of c)) t
  && forallb (fun nd => word_okb c nd (filter (about (nd_path nd)) t)) (nodes_of c)
  && forallb (parent_okb t) (nodes_of c).

(* ------------------------------------------------------------ interleavings *)
(* [merge a b t]: t is an interleaving of a and b that keeps the order of each *)
Inductive merge {A : Type} : list A -> list A -> list A -> Prop :=
| merge_nil : merge [] [] []
| merge_l : forall x a b t, merge a b t -> merge (x :: a) b (x :: t)
| merge_r : forall x a b t, merge a b t -> merge a (x :: b) (x :: t).
(* [interleave_all ws t]: t is an interleaving of all the words ws *)
Inductive interleave_all {A : Type} : list (list A) -> list A -> Prop :=
| ia_nil : interleave_all [] []
| ia_cons : forall w ws t' t, interleave_all ws t' -> merge w t' t -> interleave_all (w :: ws) t.
