(* Declarative vocabulary of C09 over traces of the executor machine: which
   top-level field an entry belongs to, and what "one after another in document
   order" means for a trace. *)
From Coq Require Import List NArith Bool Arith Sorted.
Import ListNotations.
From PyGql Require Import Exec.RuntimeMachine.

(* the top-level response key an event / error belongs to: head of its path *)
Definition entry_top (e : entry) : option N :=
  match e with
  | LInvoke t | LFinish t => hd_error (fst t)
  | LErr p _ => hd_error p
  end.

Fixpoint index_of (k : N) (ks : list N) : option nat :=
  match ks with
  | [] => None
  | x :: r => if N.eqb k x then Some O else option_map S (index_of k r)
  end.

(* position in the document of the top-level field an entry belongs to *)
Definition key_index (ks : list N) (e : entry) : option nat :=
  match entry_top e with Some k => index_of k ks | None => None end.

(* every entry belongs to a top-level field of the operation and the positions
   never decrease along the trace: whatever belongs to an earlier field (the
   Invoke / Finish of its resolver and of every resolver in its sub-selection,
   its errors) precedes everything that belongs to a later field *)
Definition serial_trace (ks : list N) (l : list entry) : Prop :=
  exists idxs, map (key_index ks) l = map Some idxs /\ StronglySorted le idxs.

(* the pairwise reading *)
Lemma serial_trace_pairwise ks l :
  serial_trace ks l ->
  forall l1 e l2 e' i j, l = l1 ++ e :: l2 -> In e' l2 ->
    key_index ks e = Some i -> key_index ks e' = Some j -> i <= j.
Proof.
  intros (idxs & Hm & Hs) l1 e l2 e' i j -> Hin Hi Hj.
  revert idxs Hm Hs. induction l1 as [|x l1 IH]; intros idxs Hm Hs.
  - destruct idxs as [|a idxs]; [discriminate|]. simpl in Hm. inversion Hm as [[Ha Hr]].
    rewrite Hi in Ha. inversion Ha; subst a. inversion Hs as [|? ? _ Hall]; subst.
    apply in_split in Hin. destruct Hin as (m1 & m2 & ->).
    rewrite map_app in Hr. simpl in Hr. rewrite Hj in Hr.
    assert (Hjin : In j idxs).
    { clear - Hr. revert idxs Hr. induction m1 as [|y m1 IHm]; intros idxs Hr.
      - destruct idxs; [discriminate|]. simpl in Hr. inversion Hr. left. reflexivity.
      - destruct idxs; [discriminate|]. simpl in Hr. inversion Hr. right. apply IHm. assumption. }
    apply (proj1 (Forall_forall _ _) Hall j Hjin).
  - destruct idxs as [|a idxs]; [discriminate|]. simpl in Hm. inversion Hm as [[Ha Hr]].
    inversion Hs; subst. apply (IH idxs); assumption.
Qed.

(* executable form, used on the traces observed on the implementation *)
Fixpoint serialb_from (ks : list N) (cur : nat) (l : list entry) : bool :=
  match l with
  | [] => true
  | e :: r =>
      match key_index ks e with
      | Some i => Nat.leb cur i && serialb_from ks i r
      | None => false
      end
  end.
Definition serialb (ks : list N) (l : list entry) : bool := serialb_from ks O l.

Lemma serialb_from_sound ks : forall l cur, serialb_from ks cur l = true ->
  exists idxs, map (key_index ks) l = map Some idxs /\ StronglySorted le idxs /\ Forall (le cur) idxs.
Proof.
  induction l as [|e l IH]; intros cur H; simpl in H.
  - exists []. repeat split; constructor.
  - destruct (key_index ks e) as [i|] eqn:Ei; [|discriminate].
    apply andb_prop in H. destruct H as [H1 H2]. apply Nat.leb_le in H1.
    destruct (IH i H2) as (idxs & Hm & Hs & Hge). exists (i :: idxs). simpl. rewrite Ei, Hm.
    split; [reflexivity|]. split; [constructor; assumption|].
    constructor; [exact H1|]. apply Forall_forall. intros y Hy.
    pose proof (proj1 (Forall_forall _ _) Hge y Hy). apply (Nat.le_trans _ i); assumption.
Qed.

Lemma serialb_sound ks l : serialb ks l = true -> serial_trace ks l.
Proof.
  intros H. destruct (serialb_from_sound ks l O H) as (idxs & Hm & Hs & _). exists idxs. split; assumption.
Qed.
