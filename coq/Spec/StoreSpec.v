(* C14 -- what the property demands of a schema held in the object heap.
   Short and declarative; the functions it mentions ([tname], [children],
   [member_type], [dir_args]) are plain projections of heap objects. *)
From PyGql Require Export Schema.StoreModel.
Local Open Scope N_scope.

(* "[o] is the very object registered under its name" *)
Definition reg (m : mem) (tm : list (str * oid)) (o : oid) : Prop :=
  exists n, tname m o = Some n /\ alookup n tm = Some o.

(* every type a named type refers to -- through the types of its fields, of
   their arguments, of its input fields, through its interfaces and its union
   members -- is the registered object *)
Definition type_ok (m : mem) (tm : list (str * oid)) (t : oid) : Prop :=
  Forall (reg m tm) (children m t).
Definition dir_ok (m : mem) (tm : list (str * oid)) (d : oid) : Prop :=
  Forall (reg m tm) (flat_map (member_type m) (dir_args m d)).
Definition root_ok (m : mem) (tm : list (str * oid)) (r : option oid) : Prop :=
  match r with Some o => reg m tm o | None => True end.

Record closed (m : mem) (s : schema) : Prop := MkClosed {
  (* the five specified scalars are shared singletons without references; the
     demand is on every other registered type *)
  cl_types : Forall (fun e => is_builtin (snd e) = false -> type_ok m (s_types s) (snd e)) (s_types s);
  cl_dirs : Forall (fun e => dir_ok m (s_types s) (snd e)) (s_dirs s);
  cl_query : root_ok m (s_types s) (s_query s);
  cl_mut : root_ok m (s_types s) (s_mut s);
  cl_sub : root_ok m (s_types s) (s_sub s);
  cl_impls : Forall (fun e => Forall (reg m (s_types s)) (snd e)) (s_impls s);
  cl_poss : Forall (fun e => Forall (reg m (s_types s)) (snd e)) (s_poss s)
}.

(* the registry maps each name to an object of that name, once *)
Definition names_ok (m : mem) (tm : list (str * oid)) : Prop :=
  forall n o, In (n, o) tm -> tname m o = Some n /\ alookup n tm = Some o.

(* the five specified scalars are where every schema expects them *)
Definition builtins_ok (m : mem) : Prop :=
  forall n o, In (n, o) builtin_types -> mget m o = Some (OType n Kscalar None [] [] None []).

(* no object lives at or above the allocation pointer *)
Definition fresh_ok (m : mem) : Prop := forall o, m_next m <= o -> mget m o = None.

(* the member objects (fields, arguments, input fields, enum values) and type
   objects a schema can reach for writing: what [observe] reads *)
Definition type_members (m : mem) (t : oid) : list oid :=
  match mget m t with
  | Some (OType _ _ _ members _ _ _) =>
      members ++ flat_map (fun f => match mget m f with
                                    | Some (OField _ _ _ args _ _ _ _ _) => args
                                    | _ => []
                                    end) members
  | _ => []
  end.
Definition schema_objects (m : mem) (s : schema) : list oid :=
  filter (fun o => negb (is_builtin o))
    (map snd (s_types s) ++ flat_map (fun e => type_members m (snd e)) (s_types s)
       ++ map snd (s_dirs s) ++ flat_map (fun e => dir_args m (snd e)) (s_dirs s)).

(* the heap is well-sorted below a schema: argument lists hold arguments, input
   types hold input fields, enums hold enum values, fields hold argument lists *)
Definition leaf (m : mem) (o : oid) : Prop :=
  match mget m o with
  | Some (OInput _ _ _ _ _ _ _) | Some (OEnumV _ _ _ _ _) => True
  | _ => False
  end.
Definition field_typed (m : mem) (f : oid) : Prop :=
  match mget m f with Some (OField _ _ _ args _ _ _ _ _) => Forall (leaf m) args | _ => False end.
Definition type_typed (m : mem) (t : oid) : Prop :=
  match mget m t with
  | Some (OType _ k _ ms _ _ _) =>
      match k with
      | Kobject | Kinterface => Forall (field_typed m) ms
      | Kinput | Kenum => Forall (leaf m) ms
      | _ => ms = []
      end
  | _ => False
  end.
Definition dir_typed (m : mem) (d : oid) : Prop :=
  match mget m d with Some (ODir _ _ _ args) => Forall (leaf m) args | _ => False end.

Record wf_schema (m : mem) (s : schema) : Prop := MkWf {
  wf_keys : NoDup (map fst (s_types s));
  wf_names : forall n o, In (n, o) (s_types s) -> tname m o = Some n;
  wf_dkeys : NoDup (map fst (s_dirs s));
  wf_dnames : forall n d, In (n, d) (s_dirs s) -> dname m d = Some n;
  wf_typed : forall n o, In (n, o) (s_types s) -> is_builtin o = false -> type_typed m o;
  wf_dtyped : forall n d, In (n, d) (s_dirs s) -> dir_typed m d
}.

(* "everything the operation did not target is preserved": an object keeps
   its name, kind, python name, description, deprecation, default, resolvers,
   applied directives and its member / argument lists; only type references
   (a field's type, an object's interfaces, a union's members) may differ *)
Definition same_attrs (v v' : obj) : Prop :=
  match v, v' with
  | OType n k d ms _ r ds, OType n' k' d' ms' _ r' ds' =>
      n' = n /\ k' = k /\ d' = d /\ ms' = ms /\ r' = r /\ ds' = ds
  | OField n py _ args d dp r sb ds, OField n' py' _ args' d' dp' r' sb' ds' =>
      n' = n /\ py' = py /\ args' = args /\ d' = d /\ dp' = dp /\ r' = r /\ sb' = sb /\ ds' = ds
  | OInput a n py _ df d ds, OInput a' n' py' _ df' d' ds' =>
      a' = a /\ n' = n /\ py' = py /\ df' = df /\ d' = d /\ ds' = ds
  | OEnumV _ _ _ _ _, OEnumV _ _ _ _ _ => v' = v
  | ODir _ _ _ _, ODir _ _ _ _ => v' = v
  | _, _ => False
  end.
Definition keeps_attrs (m m' : mem) : Prop :=
  forall o v, mget m o = Some v -> exists v', mget m' o = Some v' /\ same_attrs v v'.
