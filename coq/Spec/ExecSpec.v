(* Declarative reading of the specification's execution algorithm (GraphQL
   June 2018, section 6) with the error policy the library states: a failing
   field or a null in a non-null position yields null at that position and one
   error (path, field location); no null propagation to the parent.

   No fuel, no memo tables, no seen-set representation tricks: relations and
   list comprehensions. Data types (path, error, rres, schema, groups) are the
   ones of the model files; nothing here refers to the model's functions
   collect / exec_sel / exec_groups / complete_value. *)
From PyGql Require Export Exec.ExecModel.

(* ---------------------------------------------------------------- 6.3.2 *)
(* "Response keys in document order": each key at its first occurrence. *)
Fixpoint first_occ (ks : list str) : list str :=
  match ks with
  | [] => []
  | k :: ks' => k :: filter (fun x => negb (str_eqb x k)) (first_occ ks')
  end.

Definition field_key (f : selection) : str :=
  match f with
  | SField alias n _ _ _ _ _ => response_name alias n
  | _ => []
  end.

(* the ordered map CollectFields returns for a flat sequence of field nodes:
   keys at first occurrence, each with its nodes in order *)
Definition spec_groups (fs : list selection) : groups :=
  map (fun k => (k, filter (fun f => str_eqb (field_key f) k) fs))
      (first_occ (map field_key fs)).

Section Collect.
  Variable applies : option ty -> bool.       (* DoesFragmentTypeApply(objectType, .) *)
  Variable frags : frag_table.
  Variable vs : vars.

  (* a selection's @skip/@include directives let it through *)
  Definition passes (ds : list directive) : bool :=
    match skip_selection ds vs with Ok false => true | _ => false end.

  (* CollectFields as a flattening with the visitedFragments set threaded
     through the whole traversal: SFlat ss V fs V' -- collecting [ss] with
     visited set V yields the field nodes [fs] (in order) and visited set V'. *)
  Inductive SFlat : list selection -> list str -> list selection -> list str -> Prop :=
  | SF_nil V : SFlat [] V [] V
  | SF_field_skip a n args ds sl sub l ss V fs V' :
      passes ds = false -> SFlat ss V fs V' ->
      SFlat (SField a n args ds sl sub l :: ss) V fs V'
  | SF_field a n args ds sl sub l ss V fs V' :
      passes ds = true -> SFlat ss V fs V' ->
      SFlat (SField a n args ds sl sub l :: ss) V (SField a n args ds sl sub l :: fs) V'
  | SF_inline_skip tc ds ssl sub l ss V fs V' :
      passes ds = false \/ applies tc = false -> SFlat ss V fs V' ->
      SFlat (SInline tc ds ssl sub l :: ss) V fs V'
  | SF_inline tc ds ssl sub l ss V fs1 V1 fs2 V2 :
      passes ds = true -> applies tc = true ->
      SFlat sub V fs1 V1 -> SFlat ss V1 fs2 V2 ->
      SFlat (SInline tc ds ssl sub l :: ss) V (fs1 ++ fs2) V2
  | SF_spread_skip n ds l ss V fs V' :
      passes ds = false \/ In (n_val n) V -> SFlat ss V fs V' ->
      SFlat (SSpread n ds l :: ss) V fs V'
  | SF_spread_other n ds l ss V fs V' :
      passes ds = true -> ~ In (n_val n) V ->
      (alookup (n_val n) frags = None \/
       exists tc fsels, alookup (n_val n) frags = Some (tc, fsels) /\ applies (Some tc) = false) ->
      SFlat ss (n_val n :: V) fs V' ->
      SFlat (SSpread n ds l :: ss) V fs V'
  | SF_spread n ds l ss V tc fsels fs1 V1 fs2 V2 :
      passes ds = true -> ~ In (n_val n) V ->
      alookup (n_val n) frags = Some (tc, fsels) -> applies (Some tc) = true ->
      SFlat fsels (n_val n :: V) fs1 V1 -> SFlat ss V1 fs2 V2 ->
      SFlat (SSpread n ds l :: ss) V (fs1 ++ fs2) V2.

  Definition SCollect (ss : list selection) (g : groups) : Prop :=
    exists fs V', SFlat ss [] fs V' /\ g = spec_groups fs.
End Collect.

(* selections that contain no fragment spread at any depth CollectFields
   descends into (inline fragments only; sub-selections of fields belong to
   other CollectFields calls) *)
Fixpoint sel_spread_free (x : selection) : bool :=
  match x with
  | SField _ _ _ _ _ _ _ => true
  | SSpread _ _ _ => false
  | SInline _ _ _ sub _ => forallb sel_spread_free sub
  end.
Definition spread_free (ss : list selection) : bool := forallb sel_spread_free ss.

(* named-fragment spreads only at the top level of the selection list, of
   fragments whose own selections are spread-free (no spread inside a
   fragment or inside an inline fragment) *)
Definition top_spreads (frags : frag_table) (ss : list selection) : bool :=
  forallb (fun x => match x with
                    | SField _ _ _ _ _ _ _ => true
                    | SInline _ _ _ sub _ => spread_free sub
                    | SSpread n _ _ =>
                        match alookup (n_val n) frags with
                        | Some (_, fsels) => spread_free fsels
                        | None => true
                        end
                    end) ss.

(* ------------------------------------------------------- response paths *)
(* the value found in a response at a (relative) path *)
Fixpoint at_path (v : pv) (q : path) : option pv :=
  match q with
  | [] => Some v
  | PKey k :: q' =>
      match v with
      | PDict kvs => match alookup k kvs with Some x => at_path x q' | None => None end
      | _ => None
      end
  | PIdx i :: q' =>
      match v with
      | PList l => match nth_error l (N.to_nat i) with Some x => at_path x q' | None => None end
      | _ => None
      end
  end.

(* two responses agree everywhere except possibly at or below the
   (relative) path: same keys in the same order, same list lengths, equal
   members off the path *)
Fixpoint same_outside (q : path) (v v' : pv) : Prop :=
  match q with
  | [] => True
  | PKey k :: q' =>
      v = v' \/
      exists kvs kvs', v = PDict kvs /\ v' = PDict kvs' /\
        Forall2 (fun a b => fst a = fst b /\
                            (fst a = k -> same_outside q' (snd a) (snd b)) /\
                            (fst a <> k -> snd a = snd b)) kvs kvs'
  | PIdx i :: q' =>
      v = v' \/
      exists l l', v = PList l /\ v' = PList l' /\ length l = length l' /\
        forall j x x', nth_error l j = Some x -> nth_error l' j = Some x' ->
                       (N.of_nat j = i -> same_outside q' x x') /\
                       (N.of_nat j <> i -> x = x')
  end.

(* errors that are not at or below the path *)
Definition errors_off (q : path) (es : list error) : list error :=
  filter (fun e => negb (prefixb q (e_path e))) es.

(* ------------------------------------------- 6.3 / 6.4: the algorithm *)
Section SpecExec.
  Variable sch : schema.
  Variable vs : vars.
  Variable coerce_args : fdef -> selection -> outcome (list (str * pv)).
  Variable world : world_t.
  Variable tyres : str -> option (pv -> tyname_res).
  (* CollectFields(objectType, selections): left abstract here; instantiated
     with SCollect (the specification's) in the theorems *)
  Variable G : str -> list selection -> groups -> Prop.

  (* ResolveAbstractType + the library's possible-type check *)
  Definition spec_runtime_type (abstract : str) (v : pv) (rt : str) : Prop :=
    let maybe := match tyres abstract with Some f => f v | None => default_typename v end in
    (maybe = TRName rt \/ (maybe = TRNone /\ rt = py_type_name v)) /\
    is_object sch rt = true /\
    exists ps, possible_types sch abstract = Some ps /\ In rt ps.

  (* the object type's field definition for a field node (6.3: "fieldType");
     __typename is defined on every object type *)
  Definition spec_field_def (tname : str) (node : selection) (k : fkind) (fd : fdef) : Prop :=
    (sel_name node = s_typename /\ k = FTypename /\ fd = typename_fdef) \/
    (sel_name node <> s_typename /\ sel_name node <> s_schema /\ sel_name node <> s_type /\
     k = FUser /\ exists fs ifs, get_type sch tname = Some (TObject fs ifs) /\
                                 find_field (sel_name node) fs = Some fd).

  (* the object type defines no such field: the response key is left out *)
  Definition spec_field_undef (tname : str) (node : selection) : Prop :=
    sel_name node <> s_typename /\ sel_name node <> s_schema /\ sel_name node <> s_type /\
    exists fs ifs, get_type sch tname = Some (TObject fs ifs) /\ find_field (sel_name node) fs = None.

  (* ResolveFieldValue *)
  Definition spec_resolved (tname : str) (parent : pv) (k : fkind) (fd : fdef)
             (p : path) (args : list (str * pv)) (r : rres) : Prop :=
    match k with
    | FTypename => r = RVal (PStr tname)
    | FUser =>
        match world p parent tname (f_name fd) args with
        | RDefault => r = RVal (default_resolve parent (f_pyname fd))
        | x => r = x
        end
    | FIntrospection => False
    end.

  Inductive SComplete : list selection -> tref -> path -> pv -> pv -> list error -> Prop :=
  (* CompleteValue, non-null: a null result is an error at this position (and stays null) *)
  | SC_nonnull nodes t p v r es :
      SComplete nodes t p v r es -> r <> PNone ->
      SComplete nodes (RNonNull t) p v r es
  | SC_nonnull_null nodes t p v es :
      SComplete nodes t p v PNone es ->
      SComplete nodes (RNonNull t) p v PNone (es ++ [Err p (map sel_loc nodes) ENonNull])
  (* null completes to null *)
  | SC_null_list nodes t p : SComplete nodes (RList t) p PNone PNone []
  | SC_null_named nodes n p : SComplete nodes (RNamed n) p PNone PNone []
  (* lists: every item completed at path + [index] *)
  | SC_list nodes t p v items rs es :
      v <> PNone -> iter_items v = Some items ->
      SItems nodes t p 0%N items rs es ->
      SComplete nodes (RList t) p v (PList rs) es
  (* leaves: serialisation *)
  | SC_scalar nodes n k p v r :
      v <> PNone -> get_type sch n = Some (TScalar k) -> serialize_scalar k v = SerOk r ->
      SComplete nodes (RNamed n) p v r []
  | SC_enum nodes n vals p v r :
      v <> PNone -> get_type sch n = Some (TEnum vals) -> enum_get_name vals v = SerOk r ->
      SComplete nodes (RNamed n) p v r []
  (* objects: merged sub-selections executed on the value *)
  | SC_object nodes n fs ifs p v r es :
      v <> PNone -> get_type sch n = Some (TObject fs ifs) ->
      SSel n v p (children_of nodes) r es ->
      SComplete nodes (RNamed n) p v r es
  (* abstract types: resolved to a possible object type first *)
  | SC_abstract nodes n rt p v r es :
      v <> PNone -> is_abstract sch n = true -> spec_runtime_type n v rt ->
      SSel rt v p (children_of nodes) r es ->
      SComplete nodes (RNamed n) p v r es
  with SItems : list selection -> tref -> path -> N -> list pv -> list pv -> list error -> Prop :=
  | SI_nil nodes t p i : SItems nodes t p i [] [] []
  | SI_cons nodes t p i x items r es rs es' :
      SComplete nodes t (p ++ [PIdx i]) x r es ->
      SItems nodes t p (N.succ i) items rs es' ->
      SItems nodes t p i (x :: items) (r :: rs) (es ++ es')
  (* ExecuteSelectionSet *)
  with SSel : str -> pv -> path -> list selection -> pv -> list error -> Prop :=
  | SS_sel tname v p sels g kvs es :
      G tname sels g -> SGroups tname v p g kvs es ->
      SSel tname v p sels (PDict kvs) es
  with SGroups : str -> pv -> path -> groups -> list (str * pv) -> list error -> Prop :=
  | SG_nil tname v p : SGroups tname v p [] [] []
  | SG_skip tname v p key node nodes g kvs es :
      spec_field_undef tname node -> SGroups tname v p g kvs es ->
      SGroups tname v p ((key, node :: nodes) :: g) kvs es
  | SG_cons tname v p key node nodes g k fd r es kvs es' :
      spec_field_def tname node k fd ->
      SField_ tname v k fd (node :: nodes) (p ++ [PKey key]) r es ->
      SGroups tname v p g kvs es' ->
      SGroups tname v p ((key, node :: nodes) :: g) ((key, r) :: kvs) (es ++ es')
  (* ExecuteField with the error policy: a failed field is null plus one
     error carrying its path and the location of the first field node *)
  with SField_ : str -> pv -> fkind -> fdef -> list selection -> path -> pv -> list error -> Prop :=
  | SFd_coercion tname v k fd node nodes p c q :
      coerce_args fd node = Rejected c q ->
      SField_ tname v k fd (node :: nodes) p PNone [Err p [sel_loc node] ECoercion]
  | SFd_error tname v k fd node nodes p args m x :
      coerce_args fd node = Ok args -> spec_resolved tname v k fd p args (RErr m x) ->
      SField_ tname v k fd (node :: nodes) p PNone [Err p [sel_loc node] (EResolver m x)]
  | SFd_value tname v k fd node nodes p args x r es :
      coerce_args fd node = Ok args -> spec_resolved tname v k fd p args (RVal x) ->
      SComplete (node :: nodes) (f_type fd) p x r es ->
      SField_ tname v k fd (node :: nodes) p r es
  (* the library's policy when the sub-selection of an object inside the
     field's value cannot be collected (no CollectFields result: invalid
     @skip / @include arguments): the field is null with one error at its
     path; errors of list items completed before remain *)
  | SFd_abort tname v k fd node nodes p args x es :
      coerce_args fd node = Ok args -> spec_resolved tname v k fd p args (RVal x) ->
      SAbort (node :: nodes) (f_type fd) p x es ->
      SField_ tname v k fd (node :: nodes) p PNone (es ++ [Err p [] ECoercion])
  (* completion stops at the first object whose sub-selection has no
     CollectFields result; es = the errors recorded until then *)
  with SAbort : list selection -> tref -> path -> pv -> list error -> Prop :=
  | SA_nonnull nodes t p v es : SAbort nodes t p v es -> SAbort nodes (RNonNull t) p v es
  | SA_list nodes t p v items es :
      v <> PNone -> iter_items v = Some items -> SAbortItems nodes t p 0%N items es ->
      SAbort nodes (RList t) p v es
  | SA_object nodes n fs ifs p v :
      v <> PNone -> get_type sch n = Some (TObject fs ifs) ->
      (forall g, ~ G n (children_of nodes) g) ->
      SAbort nodes (RNamed n) p v []
  | SA_abstract nodes n rt p v :
      v <> PNone -> is_abstract sch n = true -> spec_runtime_type n v rt ->
      (forall g, ~ G rt (children_of nodes) g) ->
      SAbort nodes (RNamed n) p v []
  with SAbortItems : list selection -> tref -> path -> N -> list pv -> list error -> Prop :=
  | SAI_here nodes t p i x items es :
      SAbort nodes t (p ++ [PIdx i]) x es -> SAbortItems nodes t p i (x :: items) es
  | SAI_later nodes t p i x items r es es' :
      SComplete nodes t (p ++ [PIdx i]) x r es ->
      SAbortItems nodes t p (N.succ i) items es' ->
      SAbortItems nodes t p i (x :: items) (es ++ es').
End SpecExec.
