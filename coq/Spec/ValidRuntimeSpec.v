(* The runtime half of progress (C05): the executor walks a selection with the
   RUNTIME object type of each value -- fragments are entered when their type
   condition applies to that object type, fields are looked up on it -- while
   the validation rules walk it with the static parent type. *)
From PyGql Require Export Spec.ValidSpec.

(* object type [o] can be the runtime type of a value whose static named
   composite type is [p] (resolver results of the declared types) *)
Definition runtime_of (s : schema) (p o : str) : Prop :=
  is_object s o = true /\ (o = p \/ In o (possible_types s p)).

(* the part of schema validity the step from static to runtime types relies on
   (interface implementation, checked by schema validation): an object that can
   stand for [p] defines every field [p] defines, with a covariant type of the
   same kind *)
Definition implements_ok (s : schema) : Prop :=
  forall p o n f, runtime_of s p o -> get_field_def s p n = Some f ->
    exists fo, get_field_def s o n = Some fo
               /\ (forall o', runtime_of s (unwrap (sf_type fo)) o' -> runtime_of s (unwrap (sf_type f)) o')
               /\ is_leaf s (unwrap (sf_type fo)) = is_leaf s (unwrap (sf_type f))
               /\ is_composite s (unwrap (sf_type fo)) = is_composite s (unwrap (sf_type f)).

(* a fragment definition / inline fragment applies to runtime type [o] *)
Definition applies_to (s : schema) (t : option str) (o : str) : Prop :=
  exists p, t = Some p /\ runtime_of s p o.

(* the selections the executor can meet, with the runtime object type they are
   evaluated against: from the root type of an operation, through a field to any
   runtime type of the type the OBJECT declares for it, into the fragments that
   apply *)
Inductive rreach (s : schema) (d : document) : str -> selection -> Prop :=
| rr_root op r x :
    In op (doc_defs d) -> is_operation op -> def_parent s op = Some r -> In x (def_sels op) -> rreach s d r x
| rr_field o a n args dirs l0 sub l fo o' y :
    rreach s d o (SField a n args dirs (Some l0) sub l) ->
    get_field_def s o (n_val n) = Some fo -> runtime_of s (unwrap (sf_type fo)) o' -> In y sub ->
    rreach s d o' y
| rr_inline_on o t dirs ssl sub l y :
    rreach s d o (SInline (Some t) dirs ssl sub l) ->
    applies_to s (composite_name s (type_from_ast s t)) o -> In y sub -> rreach s d o y
| rr_inline o dirs ssl sub l y :
    rreach s d o (SInline None dirs ssl sub l) -> In y sub -> rreach s d o y
| rr_spread o n dirs l df y :
    rreach s d o (SSpread n dirs l) -> In df (doc_defs d) -> fragment_named df (n_val n) ->
    applies_to s (def_parent s df) o -> In y (def_sels df) -> rreach s d o y.

(* executing gets stuck: a field the runtime object type does not define, or a
   spread of a fragment that does not exist *)
Definition runtime_stuck (s : schema) (d : document) : Prop :=
  (exists o a n args dirs sl sub l, rreach s d o (SField a n args dirs sl sub l) /\ get_field_def s o (n_val n) = None)
  \/ (exists o n dirs l, rreach s d o (SSpread n dirs l) /\ ~ defined_fragment d (n_val n)).

(* the response cannot have the shape of the selection: the field of the runtime
   object is a leaf with a sub-selection or a composite without one *)
Definition runtime_misshaped (s : schema) (d : document) : Prop :=
  exists o a n args dirs sl sub l fo,
    rreach s d o (SField a n args dirs sl sub l) /\ get_field_def s o (n_val n) = Some fo /\
    ((is_leaf s (unwrap (sf_type fo)) = true /\ sl <> None)
     \/ (is_composite s (unwrap (sf_type fo)) = true /\ sl = None)).
