(* C01 (3): the lexer model computes exactly the declarative lexical relation
   of Spec/LexicalSpec.v (with the follow restriction the library implements). *)
From PyGql Require Import Lang.Lexer Spec.LexSpec Spec.LexicalSpec Proofs.LexProofs Proofs.LexTotal
  Proofs.VerbatimProofs Proofs.BlockStringProofs.
Local Open Scope N_scope.

(* ---- character classes ---- *)
Lemma is_ignored_spec c : is_ignored c = true <-> IgnoredChar c.
Proof.
  unfold is_ignored, IgnoredChar. rewrite !orb_true_iff, !N.eqb_eq. tauto.
Qed.

Lemma is_comment_char_spec c : is_comment_char c = true <-> CommentChar c.
Proof.
  unfold is_comment_char, is_printable, CommentChar, SourceCharacter.
  rewrite andb_true_iff, negb_true_iff, orb_true_iff, orb_false_iff, N.leb_le, !N.eqb_eq, !N.eqb_neq.
  split; [intros [[H|H] [H1 H2]]; repeat split; auto|intros [[H|[H|[H|H]]] [H1 H2]]; try contradiction; auto].
Qed.

Lemma is_comment_char_false c : is_comment_char c = false <-> ~ CommentChar c.
Proof. rewrite <- is_comment_char_spec. destruct (is_comment_char c); split; congruence. Qed.

Lemma comment_char_35 : is_comment_char 35 = true.
Proof. reflexivity. Qed.

(* what may follow ignored tokens: nothing, or a character that is neither ignored nor # *)
Definition token_start (f : str) : Prop :=
  match f with [] => True | c :: _ => is_ignored c = false /\ c <> 35 end.

(* ---- _read_over_whitespace is Ignored ---- *)
Lemma skip_ws_sound : forall rest ic pos r1 p1, skip_ws ic rest pos = (r1, p1) ->
  token_start r1 /\
  (ic = false -> exists ign, rest = ign ++ r1 /\ Ignored ign r1 /\ p1 = (pos + length ign)%nat) /\
  (ic = true -> exists body ign, rest = body ++ ign ++ r1 /\ Forall CommentChar body /\
                  ~ head_is CommentChar (ign ++ r1) /\ Ignored ign r1 /\
                  p1 = (pos + length body + length ign)%nat).
Proof.
  induction rest as [|c r IH]; intros ic pos r1 p1 H; simpl in H.
  - inversion H; subst. split; [exact I|]. split.
    + intros _. exists []. repeat split; [constructor|simpl; lia].
    + intros _. exists [], []. repeat split; [constructor|simpl; tauto|constructor|simpl; lia].
  - destruct (ic && is_comment_char c) eqn:E1.
    { apply andb_true_iff in E1. destruct E1 as [-> Ecc].
      destruct (IH _ _ _ _ H) as (Hts & _ & Ht). split; [exact Hts|]. split; [discriminate|]. intros _.
      destruct (Ht eq_refl) as (body & ign & -> & Hb & Hh & Hi & ->).
      exists (c :: body), ign. repeat split; auto.
      - constructor; [apply is_comment_char_spec; exact Ecc|exact Hb].
      - simpl; lia. }
    assert (Hncc : ic = true -> ~ CommentChar c).
    { intros ->. simpl in E1. apply is_comment_char_false. exact E1. }
    destruct (is_ignored c) eqn:E2.
    { destruct (IH _ _ _ _ H) as (Hts & Hf & _). split; [exact Hts|].
      destruct (Hf eq_refl) as (ign & -> & Hi & ->).
      assert (Hig : Ignored (c :: ign) r1) by (constructor; [apply is_ignored_spec; exact E2|exact Hi]).
      split.
      - intros _. exists (c :: ign). repeat split; [exact Hig|simpl; lia].
      - intros Hic. exists [], (c :: ign). repeat split; [constructor|simpl; exact (Hncc Hic)|exact Hig|simpl; lia]. }
    destruct (N.eqb_spec c 35) as [->|E3].
    { destruct ic; [simpl in E1; discriminate|].
      destruct (IH _ _ _ _ H) as (Hts & _ & Ht). split; [exact Hts|]. split; [|discriminate]. intros _.
      destruct (Ht eq_refl) as (body & ign & -> & Hb & Hh & Hi & ->).
      exists (35 :: body ++ ign). repeat split.
      - simpl. rewrite <- app_assoc. reflexivity.
      - constructor; assumption.
      - simpl. rewrite app_length. lia. }
    inversion H; subst. split; [simpl; auto|]. split.
    + intros _. exists []. repeat split; [constructor|simpl; lia].
    + intros Hic. exists [], []. repeat split; [constructor|simpl; exact (Hncc Hic)|constructor|simpl; lia].
Qed.

Lemma skip_ws_true_false l pos : ~ head_is CommentChar l -> skip_ws true l pos = skip_ws false l pos.
Proof.
  destruct l as [|c r]; [reflexivity|]. simpl. intros H. apply is_comment_char_false in H. rewrite H. reflexivity.
Qed.

Lemma skip_ws_token_start f pos ic : token_start f -> ~ (ic = true /\ head_is CommentChar f) ->
  skip_ws ic f pos = (f, pos).
Proof.
  destruct f as [|c r]; [reflexivity|]. simpl. intros [Hi Hc] Hn.
  assert (E : ic && is_comment_char c = false).
  { destruct ic; [|reflexivity]. simpl. apply is_comment_char_false. intros Hcc. apply Hn. auto. }
  rewrite E, Hi. destruct (N.eqb_spec c 35); [contradiction|reflexivity].
Qed.

Lemma skip_ws_complete ign f : Ignored ign f -> token_start f ->
  forall pos, skip_ws false (ign ++ f) pos = (f, (pos + length ign)%nat).
Proof.
  intros Hi Hts. induction Hi as [f|c ign f Hc Hi IH|body ign f Hb Hh Hi IH]; intros pos.
  - simpl. rewrite Nat.add_0_r. apply skip_ws_token_start; [exact Hts|intros [? _]; discriminate].
  - simpl. apply is_ignored_spec in Hc. rewrite Hc. rewrite IH by exact Hts. f_equal. lia.
  - simpl. replace (is_ignored 35) with false by reflexivity. simpl.
    assert (Hbody : forall p, skip_ws true ((body ++ ign) ++ f) p = (f, (p + length body + length ign)%nat)).
    { clear -Hb Hh IH Hts. induction Hb as [|c body Hc Hb IHb]; intros p.
      - simpl. rewrite skip_ws_true_false by exact Hh. rewrite IH by exact Hts. f_equal. lia.
      - simpl. apply is_comment_char_spec in Hc. rewrite Hc. rewrite IHb. f_equal. lia. }
    rewrite Hbody. f_equal. rewrite app_length. lia.
Qed.

(* ---- one token ---- *)
Lemma symbol_kind_punct c k : symbol_kind c = Some k <-> Punctuator c k.
Proof.
  split.
  - unfold symbol_kind.
    repeat match goal with
           | |- context [?x =? ?v] => destruct (N.eqb_spec x v) as [->|?];
                                      [intros H; inversion H; subst; constructor|]
           end. discriminate.
  - intros H; destruct H; reflexivity.
Qed.

Lemma block_scan_split txt raw r' : block_scan txt raw r' ->
  exists body, txt = body ++ 34 :: 34 :: 34 :: r'.
Proof.
  induction 1 as [r'|rest raw r' Hb [body ->]|c rest raw r' _ _ _ Hb [body ->]].
  - exists []. reflexivity.
  - exists (92 :: 34 :: 34 :: 34 :: body). reflexivity.
  - exists (c :: body). reflexivity.
Qed.

Lemma is_name_cont_spec c : is_name_cont c = true <-> NameCont c.
Proof.
  unfold is_name_cont, NameCont. rewrite orb_true_iff. rewrite <- is_digit_spec.
  change ((c =? 95) || is_letter c) with (is_name_start c). rewrite is_name_start_spec. tauto.
Qed.

Lemma Forall_name_cont l : Forall (fun c => is_name_cont c = true) l <-> Forall NameCont l.
Proof. split; intros H; eapply Forall_impl; try exact H; intros c; apply is_name_cont_spec. Qed.

Ltac split5 := split; [|split; [|split; [|split]]].

Theorem next_token_Token rest pos t r' :
  next_token rest pos = Ok (t, r') ->
  (rest = [] /\ t = PTok KEOF [] pos pos) \/
  (exists lexeme, rest = lexeme ++ r' /\ Token follow_impl lexeme r' (tk t) (tval t)
                  /\ tstart t = pos /\ tend t = (pos + length lexeme)%nat /\ tk t <> KEOF).
Proof.
  intros H. pose proof H as H0. unfold next_token in H. destruct rest as [|c r].
  { inversion H; subst. left. auto. }
  right. destruct (negb (is_printable c)); [discriminate|].
  destruct (symbol_kind c) as [k|] eqn:Es.
  { inversion H; subst. exists [c]. simpl. split5; auto; [|lia|].
    - constructor. apply symbol_kind_punct; exact Es.
    - apply symbol_kind_punct in Es. destruct Es; discriminate. }
  destruct (N.eqb_spec c 46) as [->|Hdot].
  { unfold read_ellipsis in H. destruct r as [|c2 [|c3 r3]]; simpl in H; try discriminate;
      repeat match type of H with context [negb (?x =? 46)] => destruct (N.eqb_spec x 46) as [->|?]; simpl in H end;
      try discriminate.
    inversion H; subst. exists [46; 46; 46]. simpl. split5; auto; [apply Tk_ellip|discriminate]. }
  destruct (starts_3q (c :: r)) eqn:E3.
  { apply starts_3q_spec in E3. destruct E3 as [r0 E3]. rewrite E3 in *. cbn [skipn] in H.
    destruct (read_block r0 (pos + 3) []) as [[[raw r1] e]| | |] eqn:Eb; cbn [obind] in H; try discriminate.
    inversion H; subst. apply block_body_iff in Eb. destruct Eb as [Hb ->].
    destruct (block_scan_split _ _ _ Hb) as [body ->].
    exists (34 :: 34 :: 34 :: body ++ [34; 34; 34]). simpl. split5.
    - rewrite <- app_assoc. reflexivity.
    - rewrite block_string_model_correct. apply Tk_block. exact Hb.
    - reflexivity.
    - unfold str, char in *. rewrite !app_length. simpl length. lia.
    - discriminate. }
  destruct (N.eqb_spec c 34) as [->|Hq].
  { destruct (read_string r (S pos) []) as [[[v r1] e]| | |] eqn:Er; cbn [obind] in H; try discriminate.
    inversion H; subst. apply string_decoding_iff in Er. destruct Er as (raw & -> & Hb & ->).
    exists (34 :: raw ++ [34]). simpl. split5.
    - rewrite <- app_assoc. reflexivity.
    - apply Tk_string; [exact Hb|]. apply starts_3q_false. exact E3.
    - reflexivity.
    - rewrite app_length. simpl. lia.
    - discriminate. }
  destruct ((c =? 45) || is_digit c) eqn:Enum.
  { destruct (read_number (c :: r) pos) as [[[fl r1] e]| | |] eqn:Er; cbn [obind] in H; try discriminate.
    inversion H; subst.
    assert (Hk : (if fl then KFloat else KInt) = KInt \/ (if fl then KFloat else KInt) = KFloat)
      by (destruct fl; auto).
    destruct (number_token_verbatim _ _ _ _ H0 Hk) as (Hrest & Hs & He & Hi & Hf & Hfo).
    simpl in *. exists (firstn (e - pos) (c :: r)). split5; auto.
    - destruct fl; [apply Tk_float|apply Tk_int]; auto.
    - destruct fl; discriminate. }
  destruct (is_name_start c) eqn:En; [|discriminate].
  destruct (span is_name_cont (c :: r)) as [nm r1] eqn:Esp. inversion H; subst.
  destruct (span_sound _ _ _ _ Esp) as (Hl & Hfa & Hh).
  simpl in Esp.
  assert (Ec : is_name_cont c = true) by (unfold is_name_cont; unfold is_name_start in En; rewrite En; reflexivity).
  rewrite Ec in Esp. destruct (span is_name_cont r) as [cs r2]. inversion Esp; subst.
  exists (c :: cs). simpl. split5; auto; [|discriminate].
  apply Tk_name.
  - apply is_name_start_spec; exact En.
  - apply Forall_name_cont. inversion Hfa; assumption.
  - destruct r' as [|d r'']; simpl; [tauto|]. intros Hd. apply is_name_cont_spec in Hd. congruence.
Qed.

(* ---- completeness of one token ---- *)
Lemma follow_impl_parts fl r : follow_impl fl r ->
  nodigit_head r /\ (fl = false -> match r with c :: _ => c <> 46 | [] => True end)
  /\ match r with c :: _ => c <> 101 /\ c <> 69 | [] => True end
  /\ match r with c :: _ => ~ NameStart c | [] => True end.
Proof.
  destruct r as [|c r]; simpl; [tauto|]. intros (Hd & Hdot & Hn). repeat split; auto.
  - intros ->. apply Hn. right. right. lia.
  - intros ->. apply Hn. right. left. lia.
Qed.

Theorem read_number_complete_impl lexeme r pos fl :
  follow_impl fl r -> (fl = false -> IntValue lexeme) -> (fl = true -> FloatValue lexeme) ->
  read_number (lexeme ++ r) pos = Ok (fl, r, (pos + length lexeme)%nat).
Proof.
  intros Hf Hi Hfl. destruct (follow_impl_parts fl r Hf) as (Hnd & Hdot & Hexp & Hns).
  destruct fl.
  - specialize (Hfl eq_refl). unfold read_number.
    destruct Hfl as [ip fp Hip Hfp|ip ep Hip Hep|ip fp ep Hip Hfp Hep].
    + rewrite <- app_assoc.
      rewrite (read_int_stage_complete ip (fp ++ r) pos Hip (frac_head fp r Hfp)). cbn [obind fst snd].
      rewrite (read_fraction_complete fp r _ Hfp Hnd). cbn [obind fst snd].
      rewrite (read_exponent_skip true r _ Hexp). cbn [obind].
      rewrite number_lookahead_ok by assumption. rewrite app_length. f_equal; f_equal; lia.
    + rewrite <- app_assoc. destruct (exp_head ep r Hep) as [Hh1 Hh2].
      rewrite (read_int_stage_complete ip (ep ++ r) pos Hip Hh1). cbn [obind fst snd].
      rewrite (read_fraction_skip (ep ++ r) _ Hh2). cbn [obind fst snd].
      rewrite (read_exponent_complete false ep r _ Hep Hnd). cbn [obind].
      rewrite number_lookahead_ok by assumption. rewrite app_length. f_equal; f_equal; lia.
    + rewrite <- !app_assoc. destruct (exp_head ep r Hep) as [Hh1 Hh2].
      rewrite (read_int_stage_complete ip (fp ++ ep ++ r) pos Hip (frac_head fp (ep ++ r) Hfp)).
      cbn [obind fst snd].
      rewrite (read_fraction_complete fp (ep ++ r) _ Hfp Hh1). cbn [obind fst snd].
      rewrite (read_exponent_complete true ep r _ Hep Hnd). cbn [obind].
      rewrite number_lookahead_ok by assumption. rewrite !app_length. f_equal; f_equal; lia.
  - specialize (Hi eq_refl). specialize (Hdot eq_refl). unfold read_number.
    rewrite (read_int_stage_complete lexeme r pos Hi Hnd). cbn [obind fst snd].
    rewrite (read_fraction_skip r _ Hdot). cbn [obind fst snd].
    rewrite (read_exponent_skip false r _ Hexp). cbn [obind].
    apply number_lookahead_ok; assumption.
Qed.

Lemma IntegerPart_head l : IntegerPart l -> exists c l', l = c :: l' /\ (c = 45 \/ Digit c).
Proof.
  intros [u Hu|u Hu].
  - destruct Hu as [|d ds Hd _]; [exists 48, []|exists d, ds]; (split; [reflexivity|right]);
      unfold Digit, NonZeroDigit in *; lia.
  - exists 45, u. auto.
Qed.

Lemma number_head fl l : (fl = false -> IntValue l) -> (fl = true -> FloatValue l) ->
  exists c l', l = c :: l' /\ (c = 45 \/ Digit c).
Proof.
  intros Hi Hf. destruct fl.
  - destruct (Hf eq_refl) as [ip fp Hip _|ip ep Hip _|ip fp ep Hip _ _];
      destruct (IntegerPart_head _ Hip) as (c & l' & -> & Hc); simpl; eauto.
  - apply IntegerPart_head. apply Hi. reflexivity.
Qed.

(* the dispatch of next_token on the first character *)
Lemma next_token_number c r pos : c = 45 \/ Digit c ->
  next_token (c :: r) pos =
  (do x <- read_number (c :: r) pos;
   let '(fl, r', e) := x in
   Ok (PTok (if fl then KFloat else KInt) (firstn (e - pos)%nat (c :: r)) pos e, r')).
Proof.
  intros Hc. unfold next_token.
  assert (Hp : is_printable c = true).
  { unfold is_printable. apply orb_true_iff. left. apply N.leb_le. unfold Digit in Hc. lia. }
  rewrite Hp. simpl negb. cbv iota.
  assert (Hs : symbol_kind c = None).
  { unfold symbol_kind. unfold Digit in Hc.
    repeat match goal with |- context [c =? ?v] => destruct (N.eqb_spec c v); [lia|] end. reflexivity. }
  rewrite Hs.
  destruct (N.eqb_spec c 46); [unfold Digit in Hc; lia|].
  assert (H3 : starts_3q (c :: r) = false).
  { destruct r as [|a [|b r']]; simpl; auto. destruct (N.eqb_spec c 34); [unfold Digit in Hc; lia|reflexivity]. }
  rewrite H3. destruct (N.eqb_spec c 34); [unfold Digit in Hc; lia|].
  assert (Hn : (c =? 45) || is_digit c = true).
  { apply orb_true_iff. destruct Hc as [->|Hd]; [left; reflexivity|right; apply is_digit_spec; exact Hd]. }
  rewrite Hn. reflexivity.
Qed.

Lemma next_token_name c r pos : NameStart c ->
  next_token (c :: r) pos =
  (let (nm, r') := span is_name_cont (c :: r) in Ok (PTok KName nm pos (pos + length nm)%nat, r')).
Proof.
  intros Hc. unfold next_token.
  assert (Hr : c = 95 \/ (65 <= c /\ c <= 90) \/ (97 <= c /\ c <= 122)) by (unfold NameStart, Letter in Hc; tauto).
  assert (Hp : is_printable c = true).
  { unfold is_printable. apply orb_true_iff. left. apply N.leb_le. lia. }
  rewrite Hp. simpl negb. cbv iota.
  assert (Hs : symbol_kind c = None).
  { unfold symbol_kind.
    repeat match goal with |- context [c =? ?v] => destruct (N.eqb_spec c v); [lia|] end. reflexivity. }
  rewrite Hs.
  destruct (N.eqb_spec c 46); [lia|].
  assert (H3 : starts_3q (c :: r) = false).
  { destruct r as [|a [|b r']]; simpl; auto. destruct (N.eqb_spec c 34); [lia|reflexivity]. }
  rewrite H3. destruct (N.eqb_spec c 34); [lia|].
  assert (Hn : (c =? 45) || is_digit c = false).
  { apply orb_false_iff. split; [apply N.eqb_neq; lia|]. apply is_digit_false. unfold Digit. lia. }
  rewrite Hn. apply is_name_start_spec in Hc. rewrite Hc. reflexivity.
Qed.

Theorem Token_next_token lexeme rest k v pos :
  Token follow_impl lexeme rest k v ->
  next_token (lexeme ++ rest) pos = Ok (PTok k v pos (pos + length lexeme)%nat, rest).
Proof.
  intros H. destruct H as [c k rest Hp|rest|c cs rest Hc Hcs Hh|l rest Hi Hf|l rest Hfl Hf|raw v rest Hb Hn|body raw rest Hb].
  - pose proof (proj2 (symbol_kind_punct c k) Hp) as Es. simpl. unfold next_token.
    assert (Hpr : is_printable c = true) by (destruct Hp; reflexivity).
    rewrite Hpr, Es. simpl. f_equal. f_equal. f_equal. lia.
  - reflexivity.
  - change ((c :: cs) ++ rest) with (c :: (cs ++ rest)). rewrite (next_token_name c _ pos Hc).
    change (c :: cs ++ rest) with ((c :: cs) ++ rest).
    rewrite (span_complete is_name_cont (c :: cs) rest); [reflexivity| |].
    + apply Forall_name_cont. constructor; [left; exact Hc|exact Hcs].
    + destruct rest as [|d r]; [exact I|]. simpl in Hh.
      destruct (is_name_cont d) eqn:E; [apply is_name_cont_spec in E; contradiction|reflexivity].
  - destruct (number_head false l (fun _ => Hi) ltac:(discriminate)) as (c & l' & -> & Hc).
    change ((c :: l') ++ rest) with (c :: (l' ++ rest)). rewrite (next_token_number c _ pos Hc).
    change (c :: l' ++ rest) with ((c :: l') ++ rest).
    rewrite (read_number_complete_impl (c :: l') rest pos false Hf (fun _ => Hi) ltac:(discriminate)).
    cbn [obind]. replace (pos + length (c :: l') - pos)%nat with (length (c :: l')) by lia.
    rewrite firstn_exact. reflexivity.
  - destruct (number_head true l ltac:(discriminate) (fun _ => Hfl)) as (c & l' & -> & Hc).
    change ((c :: l') ++ rest) with (c :: (l' ++ rest)). rewrite (next_token_number c _ pos Hc).
    change (c :: l' ++ rest) with ((c :: l') ++ rest).
    rewrite (read_number_complete_impl (c :: l') rest pos true Hf ltac:(discriminate) (fun _ => Hfl)).
    cbn [obind]. replace (pos + length (c :: l') - pos)%nat with (length (c :: l')) by lia.
    rewrite firstn_exact. reflexivity.
  - unfold str, char in *. cbn [app]. rewrite <- app_assoc. cbn [app]. apply starts_3q_false in Hn.
    unfold str, char in *. unfold next_token.
    replace (negb (is_printable 34)) with false by reflexivity.
    replace (symbol_kind 34) with (@None tkind) by reflexivity.
    replace (34 =? 46) with false by reflexivity. rewrite Hn.
    replace (34 =? 34) with true by reflexivity.
    pose proof (read_string_complete raw v Hb (S pos) [] rest) as Hr. unfold str, char in *.
    rewrite Hr. cbn [obind rev app].
    f_equal. f_equal. f_equal. simpl length. rewrite app_length. simpl. lia.
  - unfold str, char in *. cbn [app]. rewrite <- app_assoc. cbn [app]. unfold next_token.
    replace (negb (is_printable 34)) with false by reflexivity.
    replace (symbol_kind 34) with (@None tkind) by reflexivity.
    replace (34 =? 46) with false by reflexivity.
    replace (starts_3q (34 :: 34 :: 34 :: body ++ 34 :: 34 :: 34 :: rest)) with true by reflexivity.
    cbn [skipn].
    pose proof (read_block_complete _ _ _ Hb (pos + 3)%nat []) as Hr. unfold str, char in *.
    rewrite Hr. cbn [obind rev app].
    rewrite block_string_model_correct. f_equal. f_equal. f_equal.
    unfold str, char in *. simpl length. rewrite !app_length. simpl length. lia.
Qed.

Lemma Token_start F lexeme rest k v : Token F lexeme rest k v -> token_start (lexeme ++ rest) /\ lexeme <> [].
Proof.
  intros H. destruct H as [c k rest Hp|rest|c cs rest Hc Hcs Hh|l rest Hi Hf|l rest Hfl Hf|raw v rest Hb Hn|body raw rest Hb];
    simpl; try (split; [split; [reflexivity|discriminate]|discriminate]).
  - split; [|discriminate]. destruct Hp; (split; [reflexivity|discriminate]).
  - split; [|discriminate]. unfold NameStart, Letter in Hc. split.
    + unfold is_ignored. repeat (apply orb_false_iff; split); apply N.eqb_neq; lia.
    + lia.
  - destruct (number_head false l (fun _ => Hi) ltac:(discriminate)) as (c & l' & -> & Hc).
    split; [|discriminate]. simpl. unfold Digit in Hc. split.
    + unfold is_ignored. repeat (apply orb_false_iff; split); apply N.eqb_neq; lia.
    + lia.
  - destruct (number_head true l ltac:(discriminate) (fun _ => Hfl)) as (c & l' & -> & Hc).
    split; [|discriminate]. simpl. unfold Digit in Hc. split.
    + unfold is_ignored. repeat (apply orb_false_iff; split); apply N.eqb_neq; lia.
    + lia.
Qed.

(* ---- whole texts ---- *)
Lemma Token_not_eof F lexeme rest k v : Token F lexeme rest k v -> k <> KEOF.
Proof. intros H; destruct H; try discriminate. destruct H; discriminate. Qed.

Lemma lex_from_sound : forall fuel rest pos ts,
  collect (lex_from fuel rest pos) = Ok ts -> lexes_from follow_impl rest pos ts.
Proof.
  induction fuel as [|f IH]; intros rest pos ts H; [discriminate|]. simpl in H.
  destruct (skip_ws false rest pos) as [r1 p1] eqn:Ews.
  destruct (skip_ws_sound _ _ _ _ _ Ews) as (_ & Hf & _).
  destruct (Hf eq_refl) as (ign & -> & Hi & ->).
  destruct (next_token r1 (pos + length ign)) as [[t r2]| |k p|] eqn:Ent; try discriminate.
  destruct (next_token_Token _ _ _ _ Ent) as [[-> ->]|(lexeme & -> & Htok & Hs & He & Hk)].
  - simpl in H. inversion H; subst. rewrite app_nil_r. constructor. exact Hi.
  - assert (Ek : is_kind KEOF t = false).
    { unfold is_kind. destruct (tkind_eqb (tk t) KEOF) eqn:E; [apply tkind_eqb_eq in E; contradiction|reflexivity]. }
    rewrite Ek in H. simpl in H.
    destruct (collect (lex_from f r2 (tend t))) as [ts'| | |] eqn:Ec; simpl in H; try discriminate.
    inversion H; subst. apply IH in Ec. destruct t as [k v a b]. simpl in *. subst a b.
    constructor; assumption.
Qed.

Lemma lex_from_complete rest pos ts : lexes_from follow_impl rest pos ts ->
  forall fuel, (length rest < fuel)%nat -> collect (lex_from fuel rest pos) = Ok ts.
Proof.
  induction 1 as [ign pos Hi|ign lexeme rest k v ts pos Hi Htok Hl IH]; intros fuel Hf.
  - destruct fuel as [|f]; [lia|]. simpl.
    rewrite <- (app_nil_r ign) at 1. rewrite (skip_ws_complete ign [] Hi I pos). simpl. reflexivity.
  - destruct fuel as [|f]; [lia|]. simpl.
    destruct (Token_start _ _ _ _ _ Htok) as [Hts Hne].
    rewrite (skip_ws_complete ign (lexeme ++ rest) Hi Hts pos).
    rewrite (Token_next_token _ _ _ _ (pos + length ign)%nat Htok).
    assert (Ek : is_kind KEOF (PTok k v (pos + length ign) (pos + length ign + length lexeme)) = false).
    { unfold is_kind. simpl. destruct (tkind_eqb k KEOF) eqn:E; [|reflexivity].
      apply tkind_eqb_eq in E. exfalso. exact (Token_not_eof _ _ _ _ _ Htok E). }
    rewrite Ek. simpl. rewrite IH; [reflexivity|].
    rewrite !app_length in Hf. destruct lexeme; [congruence|simpl in Hf; lia].
Qed.

Theorem lex_lexes_slack s ts : lex s = Ok ts <-> lexes_slack s ts.
Proof.
  unfold lex, lex_stream, lexes_slack, lexes_with. cbn [collect]. split.
  - intros H. remember (collect (lex_from (lex_fuel s) s 0)) as c eqn:E. symmetry in E.
    destruct c as [ts'| | |]; cbn [obind] in H; try discriminate.
    inversion H; subst. exists ts'. split; [reflexivity|]. apply lex_from_sound with (fuel := lex_fuel s). exact E.
  - intros (ts' & -> & Hl). rewrite (lex_from_complete s 0%nat ts' Hl (lex_fuel s)); [reflexivity|].
    unfold lex_fuel. lia.
Qed.

Lemma follow_ok_impl fl r : follow_ok r -> follow_impl fl r.
Proof. destruct r as [|c r]; simpl; [tauto|]. intros (H1 & H2 & H3). auto. Qed.

Lemma Token_weaken (F G : bool -> str -> Prop) lexeme rest k v :
  (forall b r, F b r -> G b r) -> Token F lexeme rest k v -> Token G lexeme rest k v.
Proof. intros HFG H; destruct H; constructor; auto. Qed.

Lemma lexes_from_weaken (F G : bool -> str -> Prop) rest pos ts :
  (forall b r, F b r -> G b r) -> lexes_from F rest pos ts -> lexes_from G rest pos ts.
Proof.
  intros HFG H; induction H; constructor; auto. eapply Token_weaken; eauto.
Qed.

Theorem lexes_lex s ts : lexes s ts -> lex s = Ok ts.
Proof.
  intros (ts' & -> & H). apply lex_lexes_slack. exists ts'. split; [reflexivity|].
  eapply lexes_from_weaken; [|exact H]. intros b r. apply follow_ok_impl.
Qed.
