(* Runtime half of progress: every selection the executor can meet under a
   runtime object type is met by static descent under a static parent that the
   object can stand for; with the interface-implementation invariant the static
   guarantees of FieldsOnCorrectType / KnownFragmentNames / ScalarLeafs carry
   over to the runtime types. *)
From PyGql Require Import Valid.ValidOverlap Spec.ValidSpec Spec.ValidLocalSpec Spec.ValidRuntimeSpec
     Proofs.ValidStaticProofs Proofs.ValidLocalProofs.

Lemma descends_trans s p x q z : descends s p x q z -> forall q' z', descends s q z q' z' -> descends s p x q' z'.
Proof.
  induction 1 as [p x|p a n args dirs l0 sub l y q z Hy Hd IH|p t dirs ssl sub l y q z Hy Hd IH
                  |p dirs ssl sub l y q z Hy Hd IH]; intros q' z' H2.
  - exact H2.
  - eapply desc_field; [exact Hy|apply IH; exact H2].
  - eapply desc_inline_on; [exact Hy|apply IH; exact H2].
  - eapply desc_inline; [exact Hy|apply IH; exact H2].
Qed.

Lemma reaches_step s d q z q' z' : reaches s d q z -> descends s q z q' z' -> reaches s d q' z'.
Proof. intros (df & x & Hdf & Hx & Hd) H2. exists df, x. split; [exact Hdf|]. split; [exact Hx|]. eapply descends_trans; eassumption. Qed.

Lemma runtime_of_composite s p o : runtime_of s p o -> is_composite s p = true.
Proof.
  intros [Ho [->|Hin]]; [apply object_is_composite; exact Ho|].
  unfold possible_types in Hin. unfold is_composite. destruct (lookup_type s p) as [[]|]; try destruct Hin; reflexivity.
Qed.

Theorem runtime_reach_static s d :
  implements_ok s -> spec_fields_on_correct_type s d ->
  forall o z, rreach s d o z -> exists p, runtime_of s p o /\ reaches s d (Some p) z.
Proof.
  intros Himpl H9 o z H.
  induction H as [op r x Hop Hisop Hpar Hx
                 |o a n args dirs l0 sub l fo o' y Hr IH Hfo Hrt Hy
                 |o t dirs ssl sub l y Hr IH Happ Hy
                 |o dirs ssl sub l y Hr IH Hy
                 |o n dirs l df y Hr IH Hdf Hnamed Happ Hy].
  - exists r. split.
    + split; [|left; reflexivity]. destruct op; simpl in Hpar, Hisop; try discriminate; try contradiction.
      destruct (root_type s k); [|discriminate]. destruct (is_object s s0) eqn:E; [|discriminate]. inversion Hpar; subst. exact E.
    + exists op, x. split; [exact Hop|]. split; [exact Hx|]. rewrite Hpar. constructor.
  - destruct IH as [p [Hrp Hreach]].
    destruct (get_field_def s p (n_val n)) as [f|] eqn:Ef; [|exfalso; eapply H9; eassumption].
    destruct (Himpl p o (n_val n) f Hrp Ef) as (fo' & Efo & Hcov & _). rewrite Hfo in Efo. inversion Efo; subst fo'.
    pose proof (Hcov o' Hrt) as Hrt'. exists (unwrap (sf_type f)). split; [exact Hrt'|].
    eapply reaches_step; [exact Hreach|]. eapply desc_field; [exact Hy|]. simpl. rewrite Ef. simpl.
    rewrite (runtime_of_composite _ _ _ Hrt'). constructor.
  - destruct IH as [p [Hrp Hreach]]. destruct Happ as [p' [Ep Hrt]]. exists p'. split; [exact Hrt|].
    eapply reaches_step; [exact Hreach|]. eapply desc_inline_on; [exact Hy|]. rewrite Ep. constructor.
  - destruct IH as [p [Hrp Hreach]]. exists p. split; [exact Hrp|].
    eapply reaches_step; [exact Hreach|]. eapply desc_inline; [exact Hy|]. constructor.
  - destruct Happ as [p' [Ep Hrt]]. exists p'. split; [exact Hrt|].
    exists df, y. split; [exact Hdf|]. split; [exact Hy|]. rewrite Ep. constructor.
Qed.

Theorem progress_runtime s d :
  implements_ok s ->
  r09_fields_on_correct_type s d = [] -> r11_known_fragment_names s d = [] ->
  ~ runtime_stuck s d.
Proof.
  intros Himpl H9 H11 Hstuck. pose proof (progress_static s d H9 H11) as Hstat.
  pose proof (proj1 (r09_equiv s d) H9) as H9s.
  destruct Hstuck as [(o & a & n & args & dirs & sl & sub & l & Hr & Hnone)|(o & n & dirs & l & Hr & Hund)].
  - destruct (runtime_reach_static s d Himpl H9s _ _ Hr) as [p [Hrp Hreach]].
    destruct (get_field_def s p (n_val n)) as [f|] eqn:Ef; [|eapply H9s; eassumption].
    destruct (Himpl p o (n_val n) f Hrp Ef) as (fo & Efo & _). rewrite Hnone in Efo. discriminate.
  - destruct (runtime_reach_static s d Himpl H9s _ _ Hr) as [p [Hrp Hreach]].
    apply Hstat. right. exists (Some p), n, dirs, l. split; assumption.
Qed.

Theorem shape_runtime s d :
  implements_ok s ->
  r09_fields_on_correct_type s d = [] -> r08_scalar_leafs s d = [] ->
  ~ runtime_misshaped s d.
Proof.
  intros Himpl H9 H8 (o & a & n & args & dirs & sl & sub & l & fo & Hr & Hfo & Hbad).
  pose proof (proj1 (r09_equiv s d) H9) as H9s.
  destruct (runtime_reach_static s d Himpl H9s _ _ Hr) as [p [Hrp Hreach]].
  destruct (get_field_def s p (n_val n)) as [f|] eqn:Ef; [|eapply H9s; eassumption].
  destruct (Himpl p o (n_val n) f Hrp Ef) as (fo' & Efo & _ & Hleaf & Hcomp). rewrite Hfo in Efo. inversion Efo; subst fo'.
  apply (shape_static s d H8). exists p, a, n, args, dirs, sl, sub, l, f. split; [exact Hreach|]. split; [exact Ef|].
  rewrite <- Hleaf, <- Hcomp. exact Hbad.
Qed.

(* ---- a decidable sufficient condition for [implements_ok] ---- *)
(* every runtime object of [a] is a runtime object of [b] *)
Definition cov_type (s : schema) (a b : str) : bool :=
  str_eqb a b ||
  ((negb (is_object s a) || mem_str a (possible_types s b)) &&
   forallb (fun o => negb (is_object s o) || mem_str o (possible_types s b)) (possible_types s a)).
Definition cand_names (s : schema) (p : str) : list str :=
  [S_ "__schema"; S_ "__type"; S_ "__typename"]
  ++ match type_fields s p with Some fs => map sf_name fs | None => [] end.
Definition field_okb (s : schema) (p o n : str) : bool :=
  match get_field_def s p n with
  | None => true
  | Some f =>
      match get_field_def s o n with
      | None => false
      | Some fo => cov_type s (unwrap (sf_type fo)) (unwrap (sf_type f))
                   && Bool.eqb (is_leaf s (unwrap (sf_type fo))) (is_leaf s (unwrap (sf_type f)))
                   && Bool.eqb (is_composite s (unwrap (sf_type fo))) (is_composite s (unwrap (sf_type f)))
      end
  end.
Definition implements_okb (s : schema) : bool :=
  forallb (fun pd => forallb (fun o => negb (is_object s o) || forallb (field_okb s (fst pd) o) (cand_names s (fst pd)))
                             (possible_types s (fst pd))) (s_types s).

Lemma cov_type_sound s a b : cov_type s a b = true -> forall o, runtime_of s a o -> runtime_of s b o.
Proof.
  unfold cov_type. intros H o [Ho Hin]. destruct (str_eqb_spec a b) as [->|Hne]; [split; assumption|]. simpl in H.
  apply andb_prop in H. destruct H as [H1 H2]. split; [exact Ho|]. right. destruct Hin as [->|Hin].
  - rewrite Ho in H1. simpl in H1. apply mem_str_In. exact H1.
  - rewrite forallb_forall in H2. specialize (H2 o Hin). rewrite Ho in H2. simpl in H2. apply mem_str_In. exact H2.
Qed.

Lemma get_field_def_names s p n f : get_field_def s p n = Some f -> In n (cand_names s p).
Proof.
  unfold get_field_def, cand_names. intros H.
  destruct (str_eqb_spec n (S_ "__schema")) as [->|N1]; [left; reflexivity|].
  destruct (str_eqb_spec n (S_ "__type")) as [->|N2]; [right; left; reflexivity|].
  destruct (str_eqb_spec n (S_ "__typename")) as [->|N3]; [right; right; left; reflexivity|].
  rewrite !Bool.andb_false_r in H. apply in_or_app. right.
  destruct (type_fields s p) as [fs|]; [|discriminate]. unfold find_field in H. apply find_some in H. destruct H as [Hin E].
  apply str_eqb_eq in E. subst n. apply in_map. exact Hin.
Qed.

Theorem implements_okb_sound s : implements_okb s = true -> implements_ok s.
Proof.
  intros H p o n f [Ho [->|Hin]] Hf.
  - exists f. split; [exact Hf|]. split; [intros o' Ho'; exact Ho'|split; reflexivity].
  - assert (Hp : exists td, In (p, td) (s_types s)).
    { unfold possible_types, lookup_type in Hin. destruct (alookup p (s_types s)) as [td|] eqn:E; [|destruct Hin].
      exists td. apply alookup_In. exact E. }
    destruct Hp as [td Hp]. unfold implements_okb in H. rewrite forallb_forall in H. specialize (H _ Hp). cbn [fst] in H.
    rewrite forallb_forall in H. specialize (H o Hin). rewrite Ho in H. cbn [negb orb] in H.
    rewrite forallb_forall in H. specialize (H n (get_field_def_names s p n f Hf)).
    unfold field_okb in H. rewrite Hf in H. destruct (get_field_def s o n) as [fo|]; [|discriminate].
    apply andb_prop in H. destruct H as [H12 H3]. apply andb_prop in H12. destruct H12 as [H1 H2].
    exists fo. split; [reflexivity|]. split; [apply cov_type_sound; exact H1|].
    split; [apply Bool.eqb_prop; exact H2|apply Bool.eqb_prop; exact H3].
Qed.
