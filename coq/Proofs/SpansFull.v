(* C02_spans_full: every loc of every node of an accepted document is present
   exactly when positions are enabled, ordered, and inside the text. *)
From PyGql Require Import Lang.Parser Spec.LexSpec Spec.LexicalSpec Spec.GrammarSpec Spec.DocGrammarSpec
  Spec.SdlGrammarSpec Spec.LocSpec Proofs.LexicalProofs Proofs.GrammarProofs Proofs.SpanOrderProofs
  Proofs.SdlEntryProofs Proofs.EntryProofs.

Section Spans.
Variable nl : bool.
Variable hi : nat.      (* length of the text *)
Notation phi := (loc_span_ok nl hi).

(* a token segment lying in increasing order somewhere below hi *)
Definition ch (ts : list ptok) : Prop := exists lo mid, chain lo ts mid /\ mid <= hi.

Lemma ch_app a b : ch (a ++ b) -> ch a /\ ch b.
Proof.
  intros (lo & mid & Hc & Hm). destruct (chain_app _ _ _ _ Hc) as (m & Ha & Hb). split.
  - exists lo, m. split; [exact Ha|]. apply chain_hi in Hb. lia.
  - exists m, mid. auto.
Qed.

Lemma ch_cons t r : ch (t :: r) -> ch [t] /\ ch r.
Proof. apply (ch_app [t] r). Qed.

Lemma ch_loc ts : ch ts -> ts <> [] -> phi (mkloc nl ts).
Proof.
  intros (lo & mid & Hc & Hm) Hne. destruct ts as [|t r]; [congruence|].
  destruct (chain_span _ _ _ _ Hc) as [H1 H2]. unfold mkloc, loc_span_ok. destruct nl; simpl; [reflexivity|].
  repeat split; lia.
Qed.

Definition keep (P : Prop) : Prop := P.
Ltac save_all := match goal with Hc : ch ?ts |- _ => assert (Hall : keep (ch ts)) by exact Hc end.

Ltac ch_split :=
  repeat match goal with
         | H : ch (_ ++ _) |- _ => apply ch_app in H; destruct H
         | H : ch (_ :: _ :: _) |- _ => apply ch_cons in H; destruct H
         | H : ch (_ :: (_ ++ _)) |- _ => apply ch_cons in H; destruct H
         end.

Ltac ne_tac :=
  first [ discriminate
        | let E := fresh in intros E; repeat (apply app_eq_nil in E; destruct E as [? E]); discriminate ].

Ltac loc_goal := apply ch_loc; [assumption|ne_tac].

Lemma q_name_node t : ch [t] -> q_name phi (name_node nl t).
Proof. intros H. unfold q_name, name_node. simpl. apply ch_loc; [exact H|discriminate]. Qed.

Lemma D_list_q {A} (R : list ptok -> A -> Prop) (Q : A -> Prop) ts xs :
  D_list R ts xs -> (forall ts x, R ts x -> ch ts -> Q x) -> ch ts -> Forall Q xs.
Proof.
  intros Hl HR. induction Hl as [|ts x ts' xs Hx Hxs IH]; intros Ht; [constructor|].
  apply ch_app in Ht. destruct Ht. constructor; eauto.
Qed.

Lemma D_type_q ts t : D_type nl ts t -> ch ts -> q_ty phi t.
Proof.
  induction 1 as [t Hk|o ts c inner Ho Hc Hd IH|ts b inner Hb Hd IH Hnn]; intros Ht; simpl.
  - split; [apply q_name_node; exact Ht|apply ch_loc; [exact Ht|discriminate]].
  - save_all. ch_split. split; [auto|apply ch_loc; [exact Hall|discriminate]].
  - save_all. ch_split. split; [auto|apply ch_loc; [exact Hall|ne_tac]].
Qed.

Lemma D_value_q_all :
  (forall c ts v, D_value nl c ts v -> ch ts -> q_value phi v)
  /\ (forall c ts vs, D_values nl c ts vs -> ch ts -> Forall (q_value phi) vs)
  /\ (forall c ts fs, D_fields nl c ts fs -> ch ts ->
        Forall (fun f => q_name phi (fst (fst f)) /\ q_value phi (snd (fst f)) /\ phi (snd f)) fs).
Proof.
  apply (D_value_mutind nl
    (fun c ts v => ch ts -> q_value phi v)
    (fun c ts vs => ch ts -> Forall (q_value phi) vs)
    (fun c ts fs => ch ts -> Forall (fun f => q_name phi (fst (fst f)) /\ q_value phi (snd (fst f)) /\ phi (snd f)) fs));
    intros;
    save_all; ch_split;
    try (constructor; try (apply ch_loc; [exact Hall|ne_tac]); try (apply q_name_node; assumption); auto; fail).
  - constructor; [|auto]. simpl. split; [apply q_name_node; assumption|]. split; [auto|].
    apply ch_loc; [|discriminate].
    match goal with H1 : ch [nm], H2 : ch [colon], H3 : ch ts |- _ => idtac end.
    unfold keep in Hall. destruct Hall as (lo & mid & Hc & Hm). rewrite app_comm_cons, app_comm_cons in Hc.
    destruct (chain_app _ _ _ _ Hc) as (m & Ha & Hb). exists lo, m. split; [exact Ha|]. apply chain_hi in Hb. lia.
Qed.
Lemma D_value_q c ts v : D_value nl c ts v -> ch ts -> q_value phi v.
Proof. apply (proj1 D_value_q_all). Qed.

Lemma D_argument_q c ts a : D_argument nl c ts a -> ch ts -> q_arg phi a.
Proof.
  intros [t colon vts v Kt Kc Dv] Ht. save_all.
  apply ch_cons in Ht. destruct Ht as [H1 Ht]. apply ch_cons in Ht. destruct Ht as [H2 H3]. unfold q_arg. simpl.
  split; [apply q_name_node; assumption|]. split; [eapply D_value_q; eassumption|apply ch_loc; [exact Hall|discriminate]].
Qed.

Lemma D_arguments_q c ts args : D_arguments nl c ts args -> ch ts -> Forall (q_arg phi) args.
Proof.
  intros [|o body cl args0 Ko Kc Hl Hne] Ht; [constructor|].
  apply ch_cons in Ht. destruct Ht as [_ Ht]. apply ch_app in Ht. destruct Ht as [Hb _].
  eapply D_list_q; [exact Hl|intros; eapply D_argument_q; eassumption|assumption].
Qed.

Lemma D_directive_q c ts d : D_directive nl c ts d -> ch ts -> q_dir phi d.
Proof.
  intros [a t ats args Ka Kt Da] Ht. save_all.
  apply ch_cons in Ht. destruct Ht as [_ Ht]. apply (ch_app [t] ats) in Ht. destruct Ht as [H1 H2].
  unfold q_dir. simpl. split; [apply q_name_node; exact H1|].
  split; [eapply D_arguments_q; eassumption|apply ch_loc; [exact Hall|discriminate]].
Qed.

Lemma D_directives_q c ts ds : D_directives nl c ts ds -> ch ts -> Forall (q_dir phi) ds.
Proof. intros Hd Ht. eapply D_list_q; [exact Hd|intros; eapply D_directive_q; eassumption|assumption]. Qed.

Lemma D_selection_q_all :
  (forall ts s, D_selection nl ts s -> ch ts -> q_sel phi s)
  /\ (forall ts sl sub, D_opt_selection_set nl ts sl sub -> ch ts -> q_opt phi sl /\ Forall (q_sel phi) sub)
  /\ (forall ts ss, D_selections nl ts ss -> ch ts -> Forall (q_sel phi) ss).
Proof.
  apply (D_selection_mutind nl
    (fun ts s => ch ts -> q_sel phi s)
    (fun ts sl sub => ch ts -> q_opt phi sl /\ Forall (q_sel phi) sub)
    (fun ts ss => ch ts -> Forall (q_sel phi) ss)).
  - intros ats al nt argts args dts dirs ssts sl sub Dal Kn Da Dd Dss IH Ht. save_all.
    apply ch_app in Ht. destruct Ht as [Hats Ht]. apply (ch_app [nt]) in Ht. destruct Ht as [Hnt Ht].
    apply ch_app in Ht. destruct Ht as [Hargs Ht]. apply ch_app in Ht. destruct Ht as [Hdts Hss].
    destruct (IH Hss) as [Hsl Hsub].
    constructor; auto.
    + destruct Dal as [|a colon Ka Kc]; [exact I|]. simpl. apply ch_cons in Hats. destruct Hats. apply q_name_node; assumption.
    + apply q_name_node; exact Hnt.
    + eapply D_arguments_q; eassumption.
    + eapply D_directives_q; eassumption.
    + apply ch_loc; [exact Hall|ne_tac].
  - intros e nt dts dirs Ke Kn Hon Dd Ht. save_all.
    apply ch_cons in Ht. destruct Ht as [_ Ht]. apply (ch_app [nt]) in Ht. destruct Ht as [H1 H2].
    constructor; [apply q_name_node; exact H1|eapply D_directives_q; eassumption|apply ch_loc; [exact Hall|discriminate]].
  - intros e tcts tc dts dirs o body cl sub Ke Dtc Dd Ko Kc Dsub IH Hne Ht. save_all.
    apply ch_cons in Ht. destruct Ht as [_ Ht]. apply ch_app in Ht. destruct Ht as [Htc Ht].
    apply ch_app in Ht. destruct Ht as [Hdts Hss]. assert (Hss' : keep (ch (o :: body ++ [cl]))) by exact Hss.
    apply ch_cons in Hss. destruct Hss as [_ Hss]. apply ch_app in Hss. destruct Hss as [Hbody _].
    constructor.
    + destruct Dtc as [|on tn _ Ktn]; [exact I|]. simpl. apply ch_cons in Htc. destruct Htc as [_ Htn].
      split; [apply q_name_node; exact Htn|apply ch_loc; [exact Htn|discriminate]].
    + eapply D_directives_q; eassumption.
    + apply ch_loc; [exact Hss'|discriminate].
    + auto.
    + apply ch_loc; [exact Hall|discriminate].
  - intros _. split; [exact I|constructor].
  - intros o body cl sub Ko Kc Dsub IH Hne Ht. save_all.
    apply ch_cons in Ht. destruct Ht as [_ Ht]. apply ch_app in Ht. destruct Ht as [Hbody _].
    split; [simpl; apply ch_loc; [exact Hall|discriminate]|auto].
  - intros _. constructor.
  - intros ts s ts' ss Ds IHs Dss IHss Ht. apply ch_app in Ht. destruct Ht. constructor; auto.
Qed.

Lemma D_selection_set_q ts sels l : D_selection_set nl ts sels l -> ch ts -> phi l /\ Forall (q_sel phi) sels.
Proof.
  intros [o body cl sub Ko Kc Ds Hne] Ht. save_all.
  apply ch_cons in Ht. destruct Ht as [_ Ht]. apply ch_app in Ht. destruct Ht as [Hbody _].
  split; [apply ch_loc; [exact Hall|discriminate]|apply (proj2 (proj2 D_selection_q_all) _ _ Ds Hbody)].
Qed.

Lemma D_variable_definition_q ts vd : D_variable_definition nl ts vd -> ch ts -> q_vardef phi vd.
Proof.
  intros [d nm colon tyts t defts dv dts dirs Kd Kn Kc Dt Ddef Dd] Ht. save_all.
  assert (Hvar : ch [d; nm]).
  { pose proof Hall as Hall2. unfold keep in Hall2.
    change (d :: nm :: colon :: tyts ++ defts ++ dts) with ([d; nm] ++ colon :: tyts ++ defts ++ dts) in Hall2.
    apply ch_app in Hall2. tauto. }
  apply ch_cons in Ht. destruct Ht as [_ Ht]. apply (ch_app [nm]) in Ht. destruct Ht as [Hnm Ht].
  apply ch_cons in Ht. destruct Ht as [_ Ht]. apply ch_app in Ht. destruct Ht as [Hty Ht].
  apply ch_app in Ht. destruct Ht as [Hdef Hdts].
  unfold q_vardef. simpl.
  split; [apply q_name_node; exact Hnm|]. split; [apply ch_loc; [exact Hvar|discriminate]|].
  split; [eapply D_type_q; eassumption|]. split; [|split; [eapply D_directives_q; eassumption|]].
  - destruct Ddef as [|eq vts v Ke Dv]; [exact I|]. simpl. apply ch_cons in Hdef. destruct Hdef. eapply D_value_q; eassumption.
  - apply ch_loc; [exact Hall|discriminate].
Qed.

Ltac ta H a b := apply ch_app in H; destruct H as [a b].
Ltac tc H a b := apply ch_cons in H; destruct H as [a b].

Lemma block_body_ch o body cl : ch (o :: body ++ [cl]) -> ch body.
Proof. intros H. tc H H1 H2. ta H2 H3 H4. exact H3. Qed.

Lemma D_variable_definitions_q ts vds : D_variable_definitions nl ts vds -> ch ts -> Forall (q_vardef phi) vds.
Proof.
  intros [|o body cl vds0 Ko Kc Hl Hne] Ht; [constructor|]. apply block_body_ch in Ht.
  eapply D_list_q; [exact Hl|intros; eapply D_variable_definition_q; eassumption|assumption].
Qed.

Lemma D_executable_definition_q fv ts d : D_executable_definition nl fv ts d -> ch ts -> q_def phi d.
Proof.
  intros [ts0 d0 Do|ts0 d0 Df] Ht.
  - destruct Do as [ts1 sels l Dss|k kind nts nm vdts vds dts dirs ssts sels ssl Dk Dn Dv Dd Dss].
    + destruct (D_selection_set_q _ _ _ Dss Ht) as [Hl Hs]. simpl.
      split; [exact I|split; [constructor|split; [constructor|split; [exact Hl|split; [exact Hs|exact Hl]]]]].
    + save_all. tc Ht Hk Ht. ta Ht Hn Ht. ta Ht Hv Ht. ta Ht Hd Hss.
      destruct (D_selection_set_q _ _ _ Dss Hss) as [Hl Hs]. simpl.
      split; [destruct Dn as [|n1 Kn1]; [exact I|simpl; apply q_name_node; exact Hn]|].
      split; [eapply D_variable_definitions_q; eassumption|]. split; [eapply D_directives_q; eassumption|].
      split; [exact Hl|split; [exact Hs|apply ch_loc; [exact Hall|discriminate]]].
  - destruct Df as [f nm vdts vds o tcn dts dirs ssts sels ssl Wf Kn Hon Dv Wo Ktc Dd Dss].
    save_all. tc Ht Hf Ht. tc Ht Hnm Ht. ta Ht Hv Ht. tc Ht Ho Ht. tc Ht Htc Ht. ta Ht Hd Hss.
    destruct (D_selection_set_q _ _ _ Dss Hss) as [Hl Hs]. simpl.
    split; [apply q_name_node; exact Hnm|].
    split; [destruct fv; [eapply D_variable_definitions_q; eassumption|destruct Dv as [_ ->]; constructor]|].
    split; [split; [apply q_name_node; exact Htc|apply ch_loc; [exact Htc|discriminate]]|].
    split; [eapply D_directives_q; eassumption|].
    split; [exact Hl|split; [exact Hs|apply ch_loc; [exact Hall|discriminate]]].
Qed.

(* ---- type-system definitions ---- *)
Lemma D_description_q ts d : D_description nl ts d -> ch ts -> q_opt (q_strval phi) d.
Proof. intros [|t K|t K] Ht; simpl; [exact I| |]; unfold q_strval; simpl; apply ch_loc; [exact Ht|discriminate|exact Ht|discriminate]. Qed.

Lemma D_default_q ts dv : D_default nl ts dv -> ch ts -> q_opt (q_value phi) dv.
Proof. intros [|eq vts v Ke Dv] Ht; [exact I|]. simpl. tc Ht H1 H2. eapply D_value_q; eassumption. Qed.

Lemma named_type_q n : ch [n] -> q_ty phi (named_type nl n).
Proof. intros H. unfold named_type. simpl. split; [apply q_name_node; exact H|apply ch_loc; [exact H|discriminate]]. Qed.

Lemma D_input_value_q ts iv : D_input_value nl ts iv -> ch ts -> q_ivdef phi iv.
Proof.
  intros [dsts desc nm colon tyts t defts dv dts dirs Ddesc Kn Kc Dt Ddef Dd] Ht. save_all.
  ta Ht Hds Ht. tc Ht Hnm Ht. tc Ht Hc Ht. ta Ht Hty Ht. ta Ht Hdef Hdts. unfold q_ivdef. simpl.
  split; [eapply D_description_q; eassumption|]. split; [apply q_name_node; exact Hnm|].
  split; [eapply D_type_q; eassumption|]. split; [eapply D_default_q; eassumption|].
  split; [eapply D_directives_q; eassumption|apply ch_loc; [exact Hall|ne_tac]].
Qed.

Lemma opt_block_q {A} (R : list ptok -> A -> Prop) (Q : A -> Prop) open close ts xs :
  (forall ts x, R ts x -> ch ts -> Q x) -> D_opt_block R open close ts xs -> ch ts -> Forall Q xs.
Proof.
  intros HR [|o body cl ys Ko Kc Hl Hne] Ht; [constructor|]. apply block_body_ch in Ht.
  eapply D_list_q; [exact Hl|exact HR|exact Ht].
Qed.

Lemma D_field_def_q ts fd : D_field_def nl ts fd -> ch ts -> q_fdef phi fd.
Proof.
  intros [dsts desc nm ats args colon tyts t dts dirs Ddesc Kn Da Kc Dt Dd] Ht. save_all.
  ta Ht Hds Ht. tc Ht Hnm Ht. ta Ht Hats Ht. tc Ht Hc Ht. ta Ht Hty Hdts. unfold q_fdef. simpl.
  split; [eapply D_description_q; eassumption|]. split; [apply q_name_node; exact Hnm|].
  split; [eapply (opt_block_q _ _ _ _ _ _ D_input_value_q); eassumption|].
  split; [eapply D_type_q; eassumption|].
  split; [eapply D_directives_q; eassumption|apply ch_loc; [exact Hall|ne_tac]].
Qed.

Lemma D_enum_value_q ts ev : D_enum_value nl ts ev -> ch ts -> q_evdef phi ev.
Proof.
  intros [dsts desc nm dts dirs Ddesc Kn Hres Dd] Ht. save_all. ta Ht Hds Ht. tc Ht Hnm Hdts. unfold q_evdef. simpl.
  split; [eapply D_description_q; eassumption|]. split; [apply q_name_node; exact Hnm|].
  split; [eapply D_directives_q; eassumption|apply ch_loc; [exact Hall|ne_tac]].
Qed.

Lemma D_op_type_def_q ts o : D_op_type_def nl ts o -> ch ts -> q_otdef phi o.
Proof.
  intros [k kind colon n Dk Kc Kn] Ht. save_all. tc Ht H1 Ht. tc Ht H2 H3. unfold q_otdef. simpl.
  split; [apply named_type_q; exact H3|apply ch_loc; [exact Hall|discriminate]].
Qed.

Lemma D_op_types_q ts ots : D_op_types nl ts ots -> ch ts -> Forall (q_otdef phi) ots.
Proof.
  intros [o body cl ots0 Ko Kc Hl Hne] Ht. apply block_body_ch in Ht.
  eapply D_list_q; [exact Hl|intros; eapply D_op_type_def_q; eassumption|exact Ht].
Qed.

Lemma D_sep_list_q {A} (R : list ptok -> A -> Prop) (Q : A -> Prop) delim ts xs :
  (forall ts x, R ts x -> ch ts -> Q x) -> D_sep_list R delim ts xs -> ch ts -> Forall Q xs.
Proof.
  intros HR H. induction H as [ts x Hx|ts x d ts' xs Hx Kd Hxs IH]; intros Ht.
  - constructor; [eapply HR; eassumption|constructor].
  - ta Ht H1 H2. tc H2 H3 H4. constructor; [eapply HR; eassumption|auto].
Qed.

Lemma D_named_type_q ts t : D_named_type nl ts t -> ch ts -> q_ty phi t.
Proof. intros [n K] Ht. apply named_type_q; exact Ht. Qed.

Lemma D_implements_q ts ifs : D_implements nl ts ifs -> ch ts -> Forall (q_ty phi) ifs.
Proof.
  intros [|k lead ts0 tys Wk Dl Ds] Ht; [constructor|]. tc Ht H1 Ht. ta Ht H2 H3.
  eapply D_sep_list_q; [exact D_named_type_q|exact Ds|exact H3].
Qed.

Lemma D_union_members_q ts tys : D_union_members nl ts tys -> ch ts -> Forall (q_ty phi) tys.
Proof.
  intros [|eq lead ts0 tys0 Ke Dl Ds] Ht; [constructor|]. tc Ht H1 Ht. ta Ht H2 H3.
  eapply D_sep_list_q; [exact D_named_type_q|exact Ds|exact H3].
Qed.

Lemma D_directive_location_q ts x : D_directive_location nl ts x -> ch ts -> q_name phi x.
Proof. intros [n K _] Ht. apply q_name_node; exact Ht. Qed.

Ltac sdl_q :=
  repeat match goal with
         | D : D_description _ ?ts _, H : ch ?ts |- _ => apply (fun d => D_description_q _ _ d H) in D
         | D : D_directives _ _ ?ts _, H : ch ?ts |- _ => apply (fun d => D_directives_q _ _ _ d H) in D
         | D : D_op_types _ ?ts _, H : ch ?ts |- _ => apply (fun d => D_op_types_q _ _ d H) in D
         | D : D_implements _ ?ts _, H : ch ?ts |- _ => apply (fun d => D_implements_q _ _ d H) in D
         | D : D_fields_def _ ?ts _, H : ch ?ts |- _ => apply (fun d => opt_block_q _ _ _ _ _ _ D_field_def_q d H) in D
         | D : D_union_members _ ?ts _, H : ch ?ts |- _ => apply (fun d => D_union_members_q _ _ d H) in D
         | D : D_enum_values _ ?ts _, H : ch ?ts |- _ => apply (fun d => opt_block_q _ _ _ _ _ _ D_enum_value_q d H) in D
         | D : D_input_fields _ ?ts _, H : ch ?ts |- _ => apply (fun d => opt_block_q _ _ _ _ _ _ D_input_value_q d H) in D
         | D : D_args_def _ ?ts _, H : ch ?ts |- _ => apply (fun d => opt_block_q _ _ _ _ _ _ D_input_value_q d H) in D
         | D : D_sep_list (D_directive_location _) KPipe ?ts _, H : ch ?ts |- _ =>
             apply (fun d => D_sep_list_q _ _ KPipe _ _ D_directive_location_q d H) in D
         end.

Ltac q_def_goal :=
  simpl; repeat split; try assumption; try exact I;
  try (apply q_name_node; assumption);
  try (apply ch_loc; [match goal with HA : keep _ |- _ => exact HA end|ne_tac]).

Lemma D_type_system_definition_q ts d : D_type_system_definition nl ts d -> ch ts -> q_def phi d.
Proof.
  intros H Ht; destruct H; save_all.
  - tc Ht Hk Ht. ta Ht Hd Ho. sdl_q. q_def_goal.
  - ta Ht Hds Ht. tc Ht Hk Ht. tc Ht Hn Hd. sdl_q. q_def_goal.
  - ta Ht Hds Ht. tc Ht Hk Ht. tc Ht Hn Ht. ta Ht Hi Ht. ta Ht Hd Hf. sdl_q. q_def_goal.
  - ta Ht Hds Ht. tc Ht Hk Ht. tc Ht Hn Ht. ta Ht Hd Hf. sdl_q. q_def_goal.
  - ta Ht Hds Ht. tc Ht Hk Ht. tc Ht Hn Ht. ta Ht Hd Hm. sdl_q. q_def_goal.
  - ta Ht Hds Ht. tc Ht Hk Ht. tc Ht Hn Ht. ta Ht Hd Hv. sdl_q. q_def_goal.
  - ta Ht Hds Ht. tc Ht Hk Ht. tc Ht Hn Ht. ta Ht Hd Hf. sdl_q. q_def_goal.
  - ta Ht Hds Ht. tc Ht Hk Ht. tc Ht Ha Ht. tc Ht Hn Ht. ta Ht Hargs Ht. tc Ht Ho Ht. ta Ht Hlead Hlts.
    sdl_q. q_def_goal.
Qed.

Lemma D_type_system_extension_q ts d : D_type_system_extension nl ts d -> ch ts -> q_def phi d.
Proof.
  intros H Ht; destruct H; save_all.
  - tc Ht He Ht. tc Ht Hk Ht. ta Ht Hd Ho.
    match goal with D : D_opt_op_types _ _ _ |- _ => destruct D as [|? ? D] end; sdl_q; q_def_goal. constructor.
  - tc Ht He Ht. tc Ht Hk Ht. tc Ht Hn Hd. sdl_q. q_def_goal.
  - tc Ht He Ht. tc Ht Hk Ht. tc Ht Hn Ht. ta Ht Hi Ht. ta Ht Hd Hf. sdl_q. q_def_goal.
  - tc Ht He Ht. tc Ht Hk Ht. tc Ht Hn Ht. ta Ht Hd Hf. sdl_q. q_def_goal.
  - tc Ht He Ht. tc Ht Hk Ht. tc Ht Hn Ht. ta Ht Hd Hm. sdl_q. q_def_goal.
  - tc Ht He Ht. tc Ht Hk Ht. tc Ht Hn Ht. ta Ht Hd Hv. sdl_q. q_def_goal.
  - tc Ht He Ht. tc Ht Hk Ht. tc Ht Hn Ht. ta Ht Hd Hf. sdl_q. q_def_goal.
Qed.

Lemma D_definition_q fv en ts d : D_definition nl fv en ts d -> ch ts -> q_def phi d.
Proof.
  intros [ts0 d0 He|ts0 d0 _ Ht|ts0 d0 _ Ht] Hc;
    [eapply D_executable_definition_q|eapply D_type_system_definition_q|eapply D_type_system_extension_q];
    eassumption.
Qed.

Theorem D_document_q fv en ts d : D_document nl fv en ts d -> ch ts -> q_doc phi d.
Proof.
  intros [sof body eof defs Ks Ke Hl Hne] Ht. save_all. apply block_body_ch in Ht.
  split; simpl; [|apply ch_loc; [exact Hall|discriminate]].
  eapply D_list_q; [exact Hl|intros; eapply D_definition_q; eassumption|exact Ht].
Qed.

End Spans.

(* ---- from texts ---- *)
Lemma lex_ch s ts : lex s = Ok ts -> ch (length s) ts.
Proof.
  intros Hl. apply lex_lexes_slack in Hl. destruct Hl as (ts' & -> & Hl).
  apply lexes_from_chain in Hl. simpl in Hl. exists 0, (length s). split; [|lia]. constructor; simpl; auto.
Qed.

Theorem spans_full fl s d :
  parse_document fl s = Ok d -> q_doc (loc_span_ok (no_location fl) (length s)) d.
Proof.
  intros H. destruct (parse_document_sound_full fl s d H) as (ts & Hl & Dd).
  eapply D_document_q; [exact Dd|apply lex_ch; exact Hl].
Qed.

Theorem spans_full_value fl s v :
  parse_value_str fl s = Ok v -> q_value (loc_span_ok (no_location fl) (length s)) v.
Proof.
  intros H. destruct (parse_value_str_sound fl s v H) as (ts & body & Hl & (sof & eof & _ & _ & ->) & Dv).
  apply lex_ch in Hl. apply block_body_ch in Hl. eapply D_value_q; eassumption.
Qed.

Theorem spans_full_type fl s t :
  parse_type_str fl s = Ok t -> q_ty (loc_span_ok (no_location fl) (length s)) t.
Proof.
  intros H. destruct (parse_type_str_sound fl s t H) as (ts & body & Hl & (sof & eof & _ & _ & ->) & Dt).
  apply lex_ch in Hl. apply block_body_ch in Hl. eapply D_type_q; eassumption.
Qed.
