(* C15 -- disabling introspection, against the C04 executor model. *)
From PyGql Require Import Exec.IntrospectSwitch Proofs.ExecCacheProofs.

Section SwitchProofs.
  Variable sch : schema.
  Variable frags : frag_table.
  Variable vs : vars.
  Variable coerce_args : fdef -> selection -> outcome (list (str * pv)).
  Variable world : world_t.
  Variable tyres : str -> option (pv -> tyname_res).
  Variable cfuel : nat.

  (* the switch itself *)
  Lemma field_definition_sw_law disabled tname name :
    field_definition_sw sch disabled tname name =
    if disabled && is_meta_field name then Ok None else field_definition sch tname name.
  Proof. reflexivity. Qed.

  (* the executor functions only look at what their sub-executor returns *)
  Section Ext.
    Variable s1 s2 : str -> pv -> path -> list selection -> result.
    Hypothesis Hs : forall tn v p ss, s1 tn v p ss = s2 tn v p ss.

    Lemma complete_field_sub_ext nodes t p v :
      complete_field sch tyres s1 nodes t p v = complete_field sch tyres s2 nodes t p v.
    Proof.
      unfold complete_field.
      rewrite (complete_value_sub_ext sch tyres s1 s2 Hs), (complete_value_partial_sub_ext sch tyres s1 s2 Hs).
      reflexivity.
    Qed.

    Lemma resolve_field_sub_ext tname parent k fd nodes p :
      resolve_field sch coerce_args world tyres s1 tname parent k fd nodes p =
      resolve_field sch coerce_args world tyres s2 tname parent k fd nodes p.
    Proof.
      unfold resolve_field. destruct nodes as [|node nodes]; [reflexivity|].
      destruct (coerce_args fd node); try reflexivity.
      destruct k; try reflexivity; [|apply complete_field_sub_ext].
      destruct (world p parent tname (f_name fd) a); try reflexivity; apply complete_field_sub_ext.
    Qed.

    Lemma exec_groups_sw_sub_ext disabled tname parent p : forall g,
      exec_groups_sw sch coerce_args world tyres disabled s1 tname parent p g =
      exec_groups_sw sch coerce_args world tyres disabled s2 tname parent p g.
    Proof.
      induction g as [|[key nodes] g IH]; [reflexivity|]. cbn [exec_groups_sw].
      destruct nodes as [|node nodes]; [reflexivity|].
      destruct (field_definition_sw sch disabled tname (sel_name node)) as [[[k fd]|]| | |]; cbn [obind];
        try reflexivity; [|exact IH].
      rewrite resolve_field_sub_ext, IH. reflexivity.
    Qed.
  End Ext.

  (* switch off: exactly the C04 executor *)
  Lemma exec_groups_sw_off sub tname parent p : forall g,
    exec_groups_sw sch coerce_args world tyres false sub tname parent p g =
    exec_groups sch coerce_args world tyres sub tname parent p g.
  Proof.
    induction g as [|[key nodes] g IH]; [reflexivity|]. cbn [exec_groups_sw exec_groups].
    destruct nodes as [|node nodes]; [reflexivity|].
    change (field_definition_sw sch false tname (sel_name node)) with (field_definition sch tname (sel_name node)).
    destruct (field_definition sch tname (sel_name node)) as [o| | |]; cbn [obind]; try reflexivity;
      destruct o as [[k fd]|]; first [rewrite IH; reflexivity|exact IH].
  Qed.

  Lemma exec_sel_sw_off : forall fuel tname v p sels,
    exec_sel_sw sch frags vs coerce_args world tyres cfuel false fuel tname v p sels =
    exec_sel sch frags vs coerce_args world tyres cfuel fuel tname v p sels.
  Proof.
    induction fuel as [|f IH]; intros tname v p sels; [reflexivity|].
    cbn [exec_sel_sw exec_sel]. destruct (collect_for sch frags vs cfuel tname sels) as [g| | |]; try reflexivity.
    all: cbn [obind]; rewrite exec_groups_sw_off;
      rewrite <- (exec_groups_sw_off (exec_sel sch frags vs coerce_args world tyres cfuel f));
      rewrite <- (exec_groups_sw_off (exec_sel_sw sch frags vs coerce_args world tyres cfuel false f));
      rewrite (exec_groups_sw_sub_ext _ _ IH); reflexivity.
  Qed.

  (* switch on: the meta groups are refused -- no key, no error, nothing of
     them is evaluated -- and every other group goes through the C04 model's
     own field_definition / resolve_field *)
  Lemma exec_groups_sw_on sub tname parent p : forall g,
    exec_groups_sw sch coerce_args world tyres true sub tname parent p g =
    exec_groups sch coerce_args world tyres sub tname parent p (drop_meta_groups g).
  Proof.
    induction g as [|[key nodes] g IH]; [reflexivity|]. cbn [exec_groups_sw drop_meta_groups filter snd].
    destruct nodes as [|node nodes]; [reflexivity|].
    unfold field_definition_sw. cbn [andb]. destruct (is_meta_field (sel_name node)) eqn:Hm; cbn [negb obind].
    - exact IH.
    - cbn [exec_groups].
      destruct (field_definition sch tname (sel_name node)) as [o| | |]; cbn [obind]; try reflexivity.
      fold (drop_meta_groups g). destruct o as [[k fd]|]; [rewrite IH; reflexivity|exact IH].
  Qed.

  Theorem exec_sel_sw_on fuel tname v p sels :
    exec_sel_sw sch frags vs coerce_args world tyres cfuel true (S fuel) tname v p sels =
    (do g <- collect_for sch frags vs cfuel tname sels;
     do r <- exec_groups sch coerce_args world tyres
                         (exec_sel_sw sch frags vs coerce_args world tyres cfuel true fuel)
                         tname v p (drop_meta_groups g);
     Ok (PDict (fst r), snd r)).
  Proof.
    cbn [exec_sel_sw]. destruct (collect_for sch frags vs cfuel tname sels) as [g| | |]; try reflexivity.
    cbn [obind]. rewrite exec_groups_sw_on. reflexivity.
  Qed.

  (* no meta group: the switch changes nothing at this level *)
  Lemma exec_groups_sw_irrelevant sub tname parent p g :
    drop_meta_groups g = g ->
    exec_groups_sw sch coerce_args world tyres true sub tname parent p g =
    exec_groups_sw sch coerce_args world tyres false sub tname parent p g.
  Proof. intros H. rewrite exec_groups_sw_on, exec_groups_sw_off, H. reflexivity. Qed.

  (* a refused meta-field leaves no key behind *)
  Lemma drop_meta_groups_spec g key node nodes :
    In (key, node :: nodes) (drop_meta_groups g) <->
    In (key, node :: nodes) g /\ is_meta_field (sel_name node) = false.
  Proof.
    unfold drop_meta_groups. rewrite filter_In. cbn [snd]. rewrite negb_true_iff. reflexivity.
  Qed.
End SwitchProofs.
