(* The memo tables are transparent: from any table state whose entries are
   what the schema / request determine, the state-passing executor
   (Exec/ExecCache.v) returns exactly what the table-free executor
   (Exec/ExecModel.v) returns, and leaves such a state behind. *)
From PyGql Require Import Exec.ExecCache.

Arguments field_definition : simpl never.
Arguments collect_for : simpl never.
Arguments resolve_type : simpl never.

(* ------------------------------------------------------------ key tests *)
Lemma loc_eqb_sound (l l' : loc) :
  match l, l' with
  | None, None => true
  | Some (x, y), Some (x', y') => Nat.eqb x x' && Nat.eqb y y'
  | _, _ => false
  end = true -> l = l'.
Proof.
  destruct l as [[x y]|], l' as [[x' y']|]; try discriminate; [|reflexivity].
  rewrite andb_true_iff, !Nat.eqb_eq. intros [-> ->]; reflexivity.
Qed.

Lemma ty_eqb_sound : forall a b, ty_eqb a b = true -> a = b.
Proof.
  induction a as [n l|t IH l|t IH l]; destruct b as [n' l'|t' l'|t' l']; simpl; try discriminate.
  - rewrite !andb_true_iff. intros [[Hn Hl1] Hl2].
    apply str_eqb_eq in Hn. apply loc_eqb_sound in Hl1. apply loc_eqb_sound in Hl2.
    destruct n, n'; simpl in *; subst; reflexivity.
  - rewrite andb_true_iff. intros [Ht Hl]. apply IH in Ht. apply loc_eqb_sound in Hl. subst; reflexivity.
  - rewrite andb_true_iff. intros [Ht Hl]. apply IH in Ht. apply loc_eqb_sound in Hl. subst; reflexivity.
Qed.

Lemma lit_lookup_in t l r : lit_lookup t l = Some r -> In (t, r) l.
Proof.
  induction l as [|[t' r'] l IH]; simpl; [discriminate|].
  destruct (ty_eqb t t') eqn:E.
  - intros H; inversion H; subst. apply ty_eqb_sound in E; subst. left; reflexivity.
  - intros H; right; auto.
Qed.

Lemma klookup_in {K V} (eqb : K -> K -> bool) k (l : list (K * V)) v :
  klookup eqb k l = Some v -> exists k', In (k', v) l /\ eqb k k' = true.
Proof.
  induction l as [|[k' v'] l IH]; simpl; [discriminate|].
  destruct (eqb k k') eqn:E.
  - intros H; inversion H; subst. exists k'; split; [left; reflexivity|exact E].
  - intros H. destruct (IH H) as [k'' [Hi He]]. exists k''; split; [right; exact Hi|exact He].
Qed.

(* Schema.get_type_from_literal without the table *)
Fixpoint type_of_literal (sch : schema) (t : ty) : option tref :=
  match t with
  | TNamed n _ => match get_type sch (n_val n) with Some _ => Some (RNamed (n_val n)) | None => None end
  | TList t' _ => option_map RList (type_of_literal sch t')
  | TNonNull t' _ => option_map RNonNull (type_of_literal sch t')
  end.

(* collect_fields does not care which function computes the fragment test *)
Lemma collect_into_ext (a1 a2 : option ty -> bool) frags vs mc :
  (forall tc, a1 tc = a2 tc) ->
  forall fuel ss g local,
    collect_into a1 frags vs mc fuel ss g local = collect_into a2 frags vs mc fuel ss g local.
Proof.
  intros Ha. induction fuel as [|fuel IH]; intros ss g local; simpl; [reflexivity|].
  destruct ss as [|x ss]; [reflexivity|].
  destruct x as [alias n args dirs sl sub l|n dirs l|tc dirs ssl sub l].
  - destruct (skip_selection dirs vs); simpl; try reflexivity. destruct a; apply IH.
  - destruct (alookup (n_val n) frags) as [[tc fsels]|].
    + destruct (skip_selection dirs vs); simpl; try reflexivity. rewrite Ha.
      destruct (a || mem_str (n_val n) local || negb (a2 (Some tc))); [apply IH|].
      rewrite IH. destruct (collect_into a2 frags vs mc fuel fsels [] local); simpl; try reflexivity. apply IH.
    + destruct mc; [reflexivity|]. destruct (skip_selection dirs vs); simpl; try reflexivity. apply IH.
  - destruct (skip_selection dirs vs); simpl; try reflexivity. rewrite Ha.
    destruct (a || negb (a2 tc)); [apply IH|].
    rewrite IH. destruct (collect_into a2 frags vs mc fuel sub [] local); simpl; try reflexivity. apply IH.
Qed.

(* the executor functions only look at what their sub-executor returns *)
Section SubExt.
  Variable sch : schema.
  Variable tyres : str -> option (pv -> tyname_res).
  Variable s1 s2 : str -> pv -> path -> list selection -> result.
  Hypothesis Hs : forall tn v p ss, s1 tn v p ss = s2 tn v p ss.

  Lemma complete_items_ext2 (f1 f2 : path -> pv -> result) :
    (forall p x, f1 p x = f2 p x) -> forall items p i, complete_items f1 p i items = complete_items f2 p i items.
  Proof. intros Hf. induction items as [|x items IH]; intros p i; simpl; [reflexivity|]. rewrite Hf, IH. reflexivity. Qed.

  Lemma complete_value_sub_ext nodes : forall t p v,
    complete_value sch tyres s1 nodes t p v = complete_value sch tyres s2 nodes t p v.
  Proof.
    induction t as [n|t IH|t IH]; intros p v; simpl.
    - destruct v; try reflexivity; unfold complete_named;
        destruct (get_type sch n) as [[| | | | |]|]; try reflexivity; try apply Hs;
        destruct (resolve_type sch tyres n _); simpl; try reflexivity; apply Hs.
    - assert (He : forall items, complete_items (complete_value sch tyres s1 nodes t) p 0%N items =
                                 complete_items (complete_value sch tyres s2 nodes t) p 0%N items)
        by (intros; apply complete_items_ext2; intros; apply IH).
      destruct v; simpl; try reflexivity; rewrite He; reflexivity.
    - rewrite IH. reflexivity.
  Qed.

  Lemma items_partial_ext (f1 f2 : path -> pv -> result) (e1 e2 : path -> pv -> list error) :
    (forall p x, f1 p x = f2 p x) -> (forall p x, e1 p x = e2 p x) ->
    forall items p i, items_partial f1 e1 p i items = items_partial f2 e2 p i items.
  Proof.
    intros Hf He. induction items as [|x items IH]; intros p i; simpl; [reflexivity|].
    rewrite Hf, He, IH. reflexivity.
  Qed.

  Lemma complete_value_partial_sub_ext nodes : forall t p v,
    complete_value_partial sch tyres s1 nodes t p v = complete_value_partial sch tyres s2 nodes t p v.
  Proof.
    induction t as [n|t IH|t IH]; intros p v; simpl; [reflexivity| |apply IH].
    assert (He : forall items, items_partial (complete_value sch tyres s1 nodes t) (complete_value_partial sch tyres s1 nodes t) p 0%N items =
                               items_partial (complete_value sch tyres s2 nodes t) (complete_value_partial sch tyres s2 nodes t) p 0%N items)
      by (intros; apply items_partial_ext; intros; [apply complete_value_sub_ext|apply IH]).
    destruct v; simpl; try reflexivity; apply He.
  Qed.
End SubExt.

Section Transparent.
  Variable sch : schema.
  Variable frags : frag_table.
  Variable vs : vars.
  Variable coerce_args : fdef -> selection -> outcome (list (str * pv)).
  Variable world : world_t.
  Variable tyres : str -> option (pv -> tyname_res).
  Variable cfuel : nat.
  Variable sels_eqb : list selection -> list selection -> bool.
  Variable argkey_eqb : fdef * selection -> fdef * selection -> bool.
  Hypothesis sels_eqb_sound : forall a b, sels_eqb a b = true -> a = b.
  Hypothesis argkey_eqb_sound : forall a b, argkey_eqb a b = true -> a = b.

  (* the tables of the Schema object hold what the schema determines *)
  Definition schema_inv (c : cache) : Prop :=
    (forall a ps, In (a, ps) (c_possible c) -> possible_types sch a = Some ps) /\
    (forall t r, In (t, r) (c_literal c) -> type_of_literal sch t = Some r).

  (* the tables of the running execution hold what the request determines *)
  Definition exec_inv (c : cache) : Prop :=
    (forall k g, In (k, g) (c_grouped c) -> collect_for sch frags vs cfuel (fst k) (snd k) = Ok g) /\
    (forall k r, In (k, r) (c_fielddefs c) -> field_definition sch (fst k) (snd k) = Ok r) /\
    (forall k a, In (k, a) (c_args c) -> coerce_args (fst k) (snd k) = Ok a).

  Definition cache_inv (c : cache) : Prop := schema_inv c /\ exec_inv c.

  Lemma possible_types_c_ok a c :
    cache_inv c ->
    fst (possible_types_c sch a c) = possible_types sch a /\ cache_inv (snd (possible_types_c sch a c)).
  Proof.
    intros Hc. unfold possible_types_c. destruct (alookup a (c_possible c)) as [ps|] eqn:E.
    - simpl. split; [|exact Hc]. apply alookup_In in E. symmetry. apply Hc. exact E.
    - destruct (possible_types sch a) as [ps|] eqn:Ep; simpl; [|split; [reflexivity|exact Hc]].
      split; [reflexivity|]. destruct Hc as [[H1 H2] He]. split; [split|exact He]; simpl.
      + intros a' ps' [Hi|Hi]; [inversion Hi; subst; exact Ep|apply H1; exact Hi].
      + exact H2.
  Qed.

  Lemma add_literal_inv t r c : cache_inv c -> type_of_literal sch t = Some r -> cache_inv (add_literal t r c).
  Proof.
    intros [[H1 H2] He] Ht. split; [split|exact He]; simpl; [exact H1|].
    intros t' r' [Hi|Hi]; [inversion Hi; subst; exact Ht|apply H2; exact Hi].
  Qed.

  Lemma type_from_literal_c_ok : forall t c,
    cache_inv c ->
    fst (type_from_literal_c sch t c) = type_of_literal sch t /\ cache_inv (snd (type_from_literal_c sch t c)).
  Proof.
    induction t as [n l|t IH l|t IH l]; intros c Hc; simpl.
    - destruct (lit_lookup (TNamed n l) (c_literal c)) as [r|] eqn:E.
      + simpl. split; [|exact Hc]. apply lit_lookup_in in E. symmetry. apply (proj2 (proj1 Hc)) in E. exact E.
      + destruct (get_type sch (n_val n)) eqn:Eg; simpl; [|split; [reflexivity|exact Hc]].
        split; [reflexivity|]. apply add_literal_inv; [exact Hc|]. simpl. rewrite Eg. reflexivity.
    - destruct (lit_lookup (TList t l) (c_literal c)) as [r|] eqn:E.
      + simpl. split; [|exact Hc]. apply lit_lookup_in in E. symmetry. apply (proj2 (proj1 Hc)) in E. exact E.
      + destruct (IH c Hc) as [H1 H2]. destruct (type_from_literal_c sch t c) as [[r|] c']; simpl in *.
        * rewrite <- H1. simpl. split; [reflexivity|]. apply add_literal_inv; [exact H2|]. simpl. rewrite <- H1. reflexivity.
        * rewrite <- H1. simpl. split; [reflexivity|exact H2].
    - destruct (lit_lookup (TNonNull t l) (c_literal c)) as [r|] eqn:E.
      + simpl. split; [|exact Hc]. apply lit_lookup_in in E. symmetry. apply (proj2 (proj1 Hc)) in E. exact E.
      + destruct (IH c Hc) as [H1 H2]. destruct (type_from_literal_c sch t c) as [[r|] c']; simpl in *.
        * rewrite <- H1. simpl. split; [reflexivity|]. apply add_literal_inv; [exact H2|]. simpl. rewrite <- H1. reflexivity.
        * rewrite <- H1. simpl. split; [reflexivity|exact H2].
  Qed.

  Lemma possible_types_abstract n : is_abstract sch n = false -> possible_types sch n = None.
  Proof. unfold is_abstract, possible_types. destruct (get_type sch n) as [[| | | | |]|]; try reflexivity; discriminate. Qed.

  Lemma applies_c_ok tname tc c :
    cache_inv c ->
    fst (applies_c sch tname tc c) = applies sch tname tc /\ cache_inv (snd (applies_c sch tname tc c)).
  Proof.
    intros Hc. unfold applies_c, applies. destruct tc as [t|]; [|split; [reflexivity|exact Hc]].
    destruct (type_from_literal_c_ok t c Hc) as [H1 H2].
    destruct (type_from_literal_c sch t c) as [r c1]; simpl in H1, H2.
    destruct t as [n l|t l|t l]; simpl in H1; cbn [named_of_ty].
    - destruct (get_type sch (n_val n)) eqn:Eg; subst r; cbn [fst snd]; [|split; [reflexivity|exact H2]].
      destruct (str_eqb (n_val n) tname); [split; [reflexivity|exact H2]|]. simpl.
      destruct (is_abstract sch (n_val n)) eqn:Ea.
      + destruct (possible_types_c_ok (n_val n) c1 H2) as [H3 H4].
        destruct (possible_types_c sch (n_val n) c1) as [ps c2]; simpl in H3, H4. rewrite <- H3.
        destruct ps; split; try reflexivity; exact H4.
      + rewrite (possible_types_abstract _ Ea). split; [reflexivity|exact H2].
    - destruct (type_of_literal sch t); simpl in H1; subst r; split; try reflexivity; exact H2.
    - destruct (type_of_literal sch t); simpl in H1; subst r; split; try reflexivity; exact H2.
  Qed.

  Lemma warm_inv tname sels c : cache_inv c -> cache_inv (warm sch frags tname sels c).
  Proof.
    unfold warm. generalize (flat_map sel_conds sels ++ map (fun kv => fst (snd kv)) frags).
    intros l; revert c. induction l as [|t l IH]; intros c Hc; simpl; [exact Hc|].
    apply IH. exact (proj2 (applies_c_ok tname (Some t) c Hc)).
  Qed.

  (* m behaves as the table-free computation o *)
  Definition pure_as {A} (m : M A) (o : outcome A) : Prop :=
    forall c, cache_inv c -> exists c', m c = (o, c') /\ cache_inv c'.

  Lemma pure_ret {A} (a : A) : pure_as (mret a) (Ok a).
  Proof. intros c Hc. exists c. split; [reflexivity|exact Hc]. Qed.

  Lemma pure_lift {A} (o : outcome A) : pure_as (mlift o) o.
  Proof. intros c Hc. exists c. split; [reflexivity|exact Hc]. Qed.

  Lemma pure_bind {A B} (m : M A) (o : outcome A) (f : A -> M B) (g : A -> outcome B) :
    pure_as m o -> (forall a, o = Ok a -> pure_as (f a) (g a)) -> pure_as (mbind m f) (obind o g).
  Proof.
    intros Hm Hf c Hc. destruct (Hm c Hc) as [c1 [E1 H1]]. unfold mbind. rewrite E1.
    destruct o as [a| | |]; simpl; try (exists c1; split; [reflexivity|exact H1]).
    apply (Hf a eq_refl c1 H1).
  Qed.

  Lemma collect_for_c_pure tname sels :
    pure_as (collect_for_c sch frags vs cfuel sels_eqb tname sels) (collect_for sch frags vs cfuel tname sels).
  Proof.
    intros c Hc. unfold collect_for_c.
    destruct (klookup _ (tname, sels) (c_grouped c)) as [g|] eqn:E.
    - exists c. split; [|exact Hc]. f_equal. apply klookup_in in E as [[tn' sels'] [Hi He]].
      simpl in He. apply andb_true_iff in He as [He1 He2]. apply str_eqb_eq in He1. apply sels_eqb_sound in He2.
      subst. symmetry. apply (proj1 (proj2 Hc)) in Hi. exact Hi.
    - assert (Hcol : collect (fun tc => fst (applies_c sch tname tc c)) frags vs true cfuel sels =
                     collect_for sch frags vs cfuel tname sels).
      { unfold collect_for, collect. rewrite (collect_into_ext _ (applies sch tname)); [reflexivity|].
        intros tc. apply applies_c_ok. exact Hc. }
      rewrite Hcol. pose proof (warm_inv tname sels c Hc) as Hw.
      destruct (collect_for sch frags vs cfuel tname sels) as [g| | |] eqn:Eg;
        try (eexists; split; [reflexivity|exact Hw]).
      eexists; split; [reflexivity|]. destruct Hw as [Hs [H1 [H2 H3]]]. split; [exact Hs|].
      split; [|split; assumption]. simpl.
      intros k g' [Hi|Hi]; [inversion Hi; subst; exact Eg|apply H1; exact Hi].
  Qed.

  Lemma field_definition_c_pure tname name :
    pure_as (field_definition_c sch tname name) (field_definition sch tname name).
  Proof.
    intros c Hc. unfold field_definition_c.
    destruct (klookup pair_str_eqb (tname, name) (c_fielddefs c)) as [r|] eqn:E.
    - exists c. split; [|exact Hc]. f_equal. apply klookup_in in E as [[tn' n'] [Hi He]].
      unfold pair_str_eqb in He. simpl in He. apply andb_true_iff in He as [He1 He2].
      apply str_eqb_eq in He1. apply str_eqb_eq in He2. subst.
      symmetry. apply (proj1 (proj2 (proj2 Hc))) in Hi. exact Hi.
    - destruct (field_definition sch tname name) as [r| | |] eqn:Ef;
        try (exists c; split; [reflexivity|exact Hc]).
      eexists; split; [reflexivity|]. destruct Hc as [Hs [H1 [H2 H3]]]. split; [exact Hs|].
      split; [exact H1|split; [|exact H3]]. simpl.
      intros k r' [Hi|Hi]; [inversion Hi; subst; exact Ef|apply H2; exact Hi].
  Qed.

  Lemma argument_values_c_pure fd node :
    pure_as (argument_values_c coerce_args argkey_eqb fd node) (coerce_args fd node).
  Proof.
    intros c Hc. unfold argument_values_c.
    destruct (klookup argkey_eqb (fd, node) (c_args c)) as [a|] eqn:E.
    - exists c. split; [|exact Hc]. f_equal. apply klookup_in in E as [k' [Hi He]].
      apply argkey_eqb_sound in He. subst k'.
      symmetry. apply (proj2 (proj2 (proj2 Hc))) in Hi. exact Hi.
    - destruct (coerce_args fd node) as [a| | |] eqn:Ef;
        try (exists c; split; [reflexivity|exact Hc]).
      eexists; split; [reflexivity|]. destruct Hc as [Hs [H1 [H2 H3]]]. split; [exact Hs|].
      split; [exact H1|split; [exact H2|]]. simpl.
      intros k a' [Hi|Hi]; [inversion Hi; subst; exact Ef|apply H3; exact Hi].
  Qed.

  Lemma resolve_type_c_pure abstract v :
    pure_as (resolve_type_c sch tyres abstract v) (resolve_type sch tyres abstract v).
  Proof.
    intros c Hc. unfold resolve_type_c, resolve_type.
    destruct (match match tyres abstract with Some f => f v | None => default_typename v end with
              | TRNone => Some (py_type_name v) | TRName n => Some n | TRBad => None end) as [n|];
      [|exists c; split; [reflexivity|exact Hc]].
    destruct (get_type sch n) as [[fs ifs|fs|ts|vals|k|]|]; try (exists c; split; [reflexivity|exact Hc]).
    destruct (possible_types_c_ok abstract c Hc) as [H1 H2].
    destruct (possible_types_c sch abstract c) as [ps c']; simpl in H1, H2. rewrite <- H1.
    destruct ps; exists c'; split; try reflexivity; exact H2.
  Qed.

  Section Level.
    Variable sub_c : str -> pv -> path -> list selection -> M (pv * list error).
    Variable sub_p : str -> pv -> path -> list selection -> result.
    Hypothesis Hsub : forall tn v p sels, pure_as (sub_c tn v p sels) (sub_p tn v p sels).

    Lemma complete_items_c_pure (fc : path -> pv -> M (pv * list error)) (fp : path -> pv -> result) :
      (forall p x, pure_as (fc p x) (fp p x)) ->
      forall items p i, pure_as (complete_items_c fc p i items) (complete_items fp p i items).
    Proof.
      intros Hf. induction items as [|x items IH]; intros p i; simpl; [apply pure_ret|].
      apply pure_bind; [apply Hf|]. intros r _. apply pure_bind; [apply IH|]. intros rest _. apply pure_ret.
    Qed.

    Lemma complete_named_c_pure nodes n p v :
      pure_as (complete_named_c sch tyres sub_c nodes n p v) (complete_named sch tyres sub_p nodes n p v).
    Proof.
      unfold complete_named_c, complete_named.
      destruct (get_type sch n) as [[fs ifs|fs|ts|vals|k|]|]; try apply pure_lift; try apply Hsub.
      - apply pure_bind; [apply resolve_type_c_pure|]. intros rt _. apply Hsub.
      - apply pure_bind; [apply resolve_type_c_pure|]. intros rt _. apply Hsub.
    Qed.

    Lemma complete_value_c_pure nodes : forall t p v,
      pure_as (complete_value_c sch tyres sub_c nodes t p v) (complete_value sch tyres sub_p nodes t p v).
    Proof.
      induction t as [n|t IH|t IH]; intros p v; simpl.
      - destruct v; try apply pure_ret; apply complete_named_c_pure.
      - assert (Hi : forall items, pure_as
                   (dom r <- complete_items_c (complete_value_c sch tyres sub_c nodes t) p 0%N items; mret (PList (fst r), snd r))
                   (do r <- complete_items (complete_value sch tyres sub_p nodes t) p 0%N items; Ok (PList (fst r), snd r))).
        { intros items. apply pure_bind; [apply complete_items_c_pure; intros; apply IH|]. intros r _. apply pure_ret. }
        destruct v; simpl; try apply pure_ret; try apply pure_lift; apply Hi.
      - apply pure_bind; [apply IH|]. intros r _. destruct (fst r); apply pure_ret.
    Qed.

    Lemma complete_field_c_pure nodes t p v :
      pure_as (complete_field_c sch tyres sub_c nodes t p v) (complete_field sch tyres sub_p nodes t p v).
    Proof.
      intros c Hc. destruct (complete_value_c_pure nodes t p v c Hc) as [c' [E H']].
      unfold complete_field_c, complete_field. rewrite E.
      destruct (complete_value sch tyres sub_p nodes t p v) as [r| |k q|k]; try (exists c'; split; [reflexivity|exact H']).
      destruct (Nat.eqb k REJ_COERCION); exists c'; (split; [|exact H']); [|reflexivity].
      rewrite (complete_value_partial_sub_ext sch tyres _ sub_p); [reflexivity|].
      intros tn x q' ss. destruct (Hsub tn x q' ss c' H') as [c'' [E2 _]]. rewrite E2. reflexivity.
    Qed.

    Lemma resolve_field_c_pure tname parent k fd nodes p :
      pure_as (resolve_field_c sch coerce_args world tyres argkey_eqb sub_c tname parent k fd nodes p)
              (resolve_field sch coerce_args world tyres sub_p tname parent k fd nodes p).
    Proof.
      unfold resolve_field_c, resolve_field. destruct nodes as [|node nodes]; [apply pure_lift|].
      intros c Hc. destruct (argument_values_c_pure fd node c Hc) as [c1 [E1 H1]]. rewrite E1.
      destruct (coerce_args fd node) as [args| | |]; try (exists c1; split; [reflexivity|exact H1]).
      destruct k; try (exists c1; split; [reflexivity|exact H1]).
      - destruct (world p parent tname (f_name fd) args); try (exists c1; split; [reflexivity|exact H1]);
          apply complete_field_c_pure; exact H1.
      - apply complete_field_c_pure; exact H1.
    Qed.

    Lemma exec_groups_c_pure tname parent p : forall g,
      pure_as (exec_groups_c sch coerce_args world tyres argkey_eqb sub_c tname parent p g)
              (exec_groups sch coerce_args world tyres sub_p tname parent p g).
    Proof.
      induction g as [|[key nodes] g IH]; simpl; [apply pure_ret|].
      destruct nodes as [|node nodes]; [apply pure_lift|].
      apply pure_bind; [apply field_definition_c_pure|]. intros fdo _.
      destruct fdo as [[k fd]|]; [|exact IH].
      apply pure_bind; [apply resolve_field_c_pure|]. intros r _.
      apply pure_bind; [exact IH|]. intros rest _. apply pure_ret.
    Qed.
  End Level.

  Lemma exec_sel_c_pure : forall fuel tname v p sels,
    pure_as (exec_sel_c sch frags vs coerce_args world tyres cfuel sels_eqb argkey_eqb fuel tname v p sels)
            (exec_sel sch frags vs coerce_args world tyres cfuel fuel tname v p sels).
  Proof.
    induction fuel as [|fuel IH]; intros tname v p sels; simpl; [apply pure_lift|].
    apply pure_bind; [apply collect_for_c_pure|]. intros g _.
    apply pure_bind; [apply exec_groups_c_pure; exact IH|]. intros r _. apply pure_ret.
  Qed.
End Transparent.

(* a fresh execution on a Schema whose tables are sound starts sound, whatever
   the request *)
Lemma new_execution_inv sch frags vs coerce_args cfuel c :
  schema_inv sch c -> cache_inv sch frags vs coerce_args cfuel (new_execution c).
Proof.
  intros Hs. split; [exact Hs|]. split; [|split]; simpl; intros k x [].
Qed.

Theorem execute_c_transparent sch coerce_args world tyres sels_eqb argkey_eqb cfuel fuel :
  (forall a b, sels_eqb a b = true -> a = b) ->
  (forall a b, argkey_eqb a b = true -> a = b) ->
  forall d opname vs root c,
    schema_inv sch c ->
    fst (execute_c sch coerce_args world tyres sels_eqb argkey_eqb cfuel fuel d opname vs root c) =
      execute sch coerce_args world tyres cfuel fuel d opname vs root /\
    schema_inv sch (snd (execute_c sch coerce_args world tyres sels_eqb argkey_eqb cfuel fuel d opname vs root c)).
Proof.
  intros Hs1 Hs2 d opname vs root c Hc. unfold execute_c, execute.
  destruct (get_operation d opname) as [[k sels]| | |]; simpl; try (split; [reflexivity|exact Hc]).
  destruct (match k with OpQuery => s_query sch | OpMutation => s_mutation sch | OpSubscription => s_subscription sch end)
    as [rt|]; [|split; [reflexivity|exact Hc]].
  destruct k; try (split; [reflexivity|exact Hc]).
  - destruct (exec_sel_c_pure sch (frag_table_of (doc_defs d)) vs (coerce_args vs) world tyres cfuel sels_eqb argkey_eqb
                Hs1 Hs2 fuel rt root [] sels (new_execution c)
                (new_execution_inv sch _ vs (coerce_args vs) cfuel c Hc)) as [c' [E H]].
    rewrite E. simpl. split; [reflexivity|exact (proj1 H)].
  - destruct (exec_sel_c_pure sch (frag_table_of (doc_defs d)) vs (coerce_args vs) world tyres cfuel sels_eqb argkey_eqb
                Hs1 Hs2 fuel rt root [] sels (new_execution c)
                (new_execution_inv sch _ vs (coerce_args vs) cfuel c Hc)) as [c' [E H]].
    rewrite E. simpl. split; [reflexivity|exact (proj1 H)].
Qed.

(* table states a Schema object can be in: empty when built, then whatever
   the requests it served left behind *)
Inductive reachable (sch : schema) : cache -> Prop :=
| Reach_new : reachable sch empty_cache
| Reach_served c coerce_args world tyres sels_eqb argkey_eqb cfuel fuel d opname vs root :
    (forall a b, sels_eqb a b = true -> a = b) ->
    (forall a b, argkey_eqb a b = true -> a = b) ->
    reachable sch c ->
    reachable sch (snd (execute_c sch coerce_args world tyres sels_eqb argkey_eqb cfuel fuel d opname vs root c)).

Lemma reachable_inv sch c : reachable sch c -> schema_inv sch c.
Proof.
  induction 1 as [|c ca w ty se ae cf fu d op vs root H1 H2 Hr IH].
  - split; simpl; intros ? ? [].
  - apply execute_c_transparent; assumption.
Qed.

Theorem execute_history_free sch c coerce_args world tyres sels_eqb argkey_eqb cfuel fuel d opname vs root :
  (forall a b, sels_eqb a b = true -> a = b) ->
  (forall a b, argkey_eqb a b = true -> a = b) ->
  reachable sch c ->
  fst (execute_c sch coerce_args world tyres sels_eqb argkey_eqb cfuel fuel d opname vs root c) =
  execute sch coerce_args world tyres cfuel fuel d opname vs root.
Proof.
  intros H1 H2 Hr. apply execute_c_transparent; try assumption. apply reachable_inv; exact Hr.
Qed.
