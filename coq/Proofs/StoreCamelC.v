(* C14 -- proofs about the store model, part 14: completeness of the
   camel-casing transform.  No member and no argument is lost: the descent of
   part 12/13 is one-for-one.  Two ingredients: (a) the camel-casing pass never
   drops an element and keeps every type reference, so the references of the
   result stay resolvable and the healing pass that follows drops nothing;
   (b) the member count of each type and the argument count of each field are
   those of the source ("shape"), and an order-preserving descent between
   lists of equal length is one-for-one. *)
From PyGql Require Import Spec.StoreExtSpec Proofs.StoreProofs Proofs.StoreHeal Proofs.StoreLoop
     Proofs.StoreFrame Proofs.StoreClone Proofs.StoreOps Proofs.StoreTerm Proofs.StoreVis Proofs.StoreVisM
     Proofs.StoreCloneP Proofs.StoreDesc Proofs.StoreXform.
Local Open Scope N_scope.
Notation vpres := StoreVisM.pres.

(* ------------------------------------------------------------ combinatorics *)
Lemma subseq_len D l srcs : subseq D l srcs -> (length l <= length srcs)%nat.
Proof. induction 1; simpl; lia. Qed.

Lemma subseq_full D l srcs :
  subseq D l srcs -> length l = length srcs -> Forall2 (fun s y => D y s) srcs l.
Proof.
  induction 1 as [|s srcs l Hs IH|y s l srcs Hd Hs IH]; intros Hlen.
  - constructor.
  - exfalso. pose proof (subseq_len _ _ _ Hs). simpl in Hlen. lia.
  - constructor; [assumption|]. apply IH. simpl in Hlen. lia.
Qed.

Lemma subseq_nil_r D l : subseq D l [] -> l = [].
Proof. intros H. inversion H. reflexivity. Qed.

Lemma Forall2_zip {A B C} (R : A -> B -> Prop) (Q : B -> C -> Prop) (f : A -> C) :
  forall l1 l2, Forall2 R l1 l2 -> Forall2 Q l2 (map f l1) ->
  Forall2 (fun a b => R a b /\ Q b (f a)) l1 l2.
Proof.
  induction 1 as [|a b l1 l2 Hr Hf IH]; intros Hq; [constructor|].
  simpl in Hq. inversion Hq; subst. constructor; [split; assumption|]. apply IH. assumption.
Qed.

Lemma F2_length {A B} (R : A -> B -> Prop) l l' : Forall2 R l l' -> length l = length l'.
Proof. induction 1; simpl; congruence. Qed.

(* ----------------------------------- map_and_filter of hooks that never drop *)
Section MapFilterF2.
Variable A : Type.
Lemma map_filter_F2 (f : hook) (P : mem -> oid -> A -> Prop) :
  (forall m x a m' r, vinv m -> P m x a -> f m x = Some (m', r) ->
     vinv m' /\ vpres m m' /\ exists y, r = Some y /\ P m' y a) ->
  (forall m m' y a, vpres m m' -> P m y a -> P m' y a) ->
  forall l sh m m' rs, vinv m -> Forall2 (P m) l sh -> map_filter f m l = Some (m', rs) ->
    vinv m' /\ vpres m m' /\ Forall2 (P m') rs sh.
Proof.
  intros Hf HP. induction l as [|x l IH]; intros sh m m' rs Hi Hl H; simpl in H.
  - inversion H; subst. inversion Hl; subst. split; [assumption|]. split; [apply pres_refl|constructor].
  - inversion Hl as [|? a ? sh' Hx Hl']; subst.
    destruct (f m x) as [[m1 r]|] eqn:Hfx; [|discriminate].
    destruct (map_filter f m1 l) as [[m2 rs']|] eqn:Hr; [|discriminate].
    inversion H; subst m' rs; clear H.
    destruct (Hf _ _ _ _ _ Hi Hx Hfx) as (I1 & R1 & y & -> & Py).
    assert (Hl1 : Forall2 (P m1) l sh').
    { clear - Hl' HP R1. induction Hl'; constructor; [eapply HP; eauto|assumption]. }
    destruct (IH _ _ _ _ I1 Hl1 Hr) as (I2 & R2 & Q2).
    split; [assumption|]. split; [eapply pres_trans; eauto|].
    constructor; [eapply HP; eauto|assumption].
Qed.
End MapFilterF2.

(* ---------------------------------------- resolvability and the registry *)
Lemma healed_keys m tm tm' r :
  (forall k, alookup k tm <> None -> alookup k tm' <> None) ->
  healed m tm r <> None -> healed m tm' r <> None.
Proof.
  intros Hk. induction r as [o|r IH|r IH]; simpl.
  - destruct (tname m o) as [n|]; [|auto]. specialize (Hk n).
    destruct (alookup n tm); [|intros H; exfalso; apply H; reflexivity]. destruct (alookup n tm'); [intros _; discriminate|].
    exfalso. apply Hk; [discriminate|reflexivity].
  - destruct (healed m tm r); [|intros H; exfalso; apply H; reflexivity].
    destruct (healed m tm' r); [intros _; discriminate|]. exfalso. apply IH; [discriminate|reflexivity].
  - destruct (healed m tm r); [|intros H; exfalso; apply H; reflexivity].
    destruct (healed m tm' r); [intros _; discriminate|]. exfalso. apply IH; [discriminate|reflexivity].
Qed.

Lemma healed_pres tm a b r : vpres a b -> healed a tm r <> None -> healed b tm r <> None.
Proof.
  intros P. induction r as [o|r IH|r IH]; simpl.
  - unfold tname. destruct (mget a o) as [v|] eqn:Hv; [|intros H; exfalso; apply H; reflexivity].
    rewrite (proj2 P _ _ Hv). auto.
  - destruct (healed a tm r); [|intros H; exfalso; apply H; reflexivity].
    destruct (healed b tm r); [intros _; discriminate|]. exfalso. apply IH; [discriminate|reflexivity].
  - destruct (healed a tm r); [|intros H; exfalso; apply H; reflexivity].
    destruct (healed b tm r); [intros _; discriminate|]. exfalso. apply IH; [discriminate|reflexivity].
Qed.

Lemma resm_keys m tm tm' x :
  (forall k, alookup k tm <> None -> alookup k tm' <> None) -> resm tm m x -> resm tm' m x.
Proof.
  intros Hk. unfold resm. destruct (mget m x) as [[| | | |]|]; auto; apply healed_keys; assumption.
Qed.
Lemma resm_pres tm a b x : vpres a b -> resm tm a x -> resm tm b x.
Proof.
  intros P. unfold resm. destruct (mget a x) as [v|] eqn:Hv; [|intros []]. rewrite (proj2 P _ _ Hv).
  destruct v; auto; apply healed_pres; assumption.
Qed.
Lemma args_of_pres a b x : vpres a b -> mget a x <> None -> args_of b x = args_of a x.
Proof.
  intros P Hx. unfold args_of. destruct (mget a x) as [v|] eqn:Hv; [|congruence]. rewrite (proj2 P _ _ Hv). reflexivity.
Qed.
Lemma resm_exists tm m x : resm tm m x -> mget m x <> None.
Proof. unfold resm. destruct (mget m x); [discriminate|intros []]. Qed.
Lemma resf_keys m tm tm' x :
  (forall k, alookup k tm <> None -> alookup k tm' <> None) -> resf tm m x -> resf tm' m x.
Proof.
  intros Hk [A B]. split; [eapply resm_keys; eauto|]. eapply Forall_impl; [|exact B]. intros a. apply resm_keys. assumption.
Qed.
Lemma resf_pres tm a b x : vpres a b -> resf tm a x -> resf tm b x.
Proof.
  intros P [A B]. split; [eapply resm_pres; eauto|]. rewrite (args_of_pres _ _ _ P (resm_exists _ _ _ A)).
  eapply Forall_impl; [|exact B]. intros z. apply resm_pres. assumption.
Qed.

(* the number of arguments of a member *)
Definition ar (M : mem) (y : oid) : nat := length (oargs M y).
Lemma ar_pres a b y : vpres a b -> mget a y <> None -> ar b y = ar a y.
Proof.
  intros P Hy. unfold ar, oargs. destruct (mget a y) as [v|] eqn:Hv; [|congruence]. rewrite (proj2 P _ _ Hv). reflexivity.
Qed.
Lemma oargs_args_of m x : oargs m x = args_of m x.
Proof. reflexivity. Qed.

(* what is carried for each member: a resolvable field with [a] resolvable
   arguments / a resolvable input field / an enum value *)
Definition fP (tm : list (str * oid)) (m : mem) (y : oid) (a : nat) : Prop := resf tm m y /\ ar m y = a.
Definition iP (tm : list (str * oid)) (m : mem) (y : oid) (a : nat) : Prop := resm tm m y.
Definition eP (m : mem) (y : oid) (a : nat) : Prop := True.

Lemma fP_pres tm a b y n : vpres a b -> fP tm a y n -> fP tm b y n.
Proof.
  intros P [A B]. split; [eapply resf_pres; eauto|]. rewrite (ar_pres _ _ _ P); [assumption|]. exact (resm_exists _ _ _ (proj1 A)).
Qed.

(* the shape of a type: as many members as [sh], each field with the number
   of arguments [sh] says; everything resolvable *)
Definition TP (tm : list (str * oid)) (m : mem) (o : oid) (sh : list nat) : Prop :=
  match mget m o with
  | Some (OType _ k _ ms _ _ _) =>
      match k with
      | Kobject | Kinterface => Forall2 (fP tm m) ms sh
      | Kinput => Forall2 (iP tm m) ms sh
      | Kenum => Forall2 (eP m) ms sh
      | _ => True
      end
  | _ => False
  end.

Lemma Forall2_left {A B} (P : A -> Prop) (R : A -> B -> Prop) l l' :
  (forall a b, R a b -> P a) -> Forall2 R l l' -> Forall P l.
Proof. intros H. induction 1; constructor; eauto. Qed.

Lemma Forall2_imp {A B} (R R' : A -> B -> Prop) l l' :
  (forall a b, R a b -> R' a b) -> Forall2 R l l' -> Forall2 R' l l'.
Proof. intros H. induction 1; constructor; eauto. Qed.

Lemma TP_tres tm m o sh : TP tm m o sh -> tres tm m o.
Proof.
  unfold TP, tres. destruct (mget m o) as [[n k d ms ifs r ds| | | |]|]; auto. destruct k; auto.
  - apply Forall2_left. intros a b [A _]. exact A.
  - apply Forall2_left. intros a b [A _]. exact A.
  - apply Forall2_left. intros a b A. exact A.
Qed.

Lemma TP_pres tm a b o sh : vpres a b -> TP tm a o sh -> TP tm b o sh.
Proof.
  intros P. unfold TP. destruct (mget a o) as [v|] eqn:Hv; [|intros []]. rewrite (proj2 P _ _ Hv).
  destruct v as [n k d ms ifs r ds| | | |]; auto. destruct k; auto.
  - apply Forall2_imp. intros x y. apply fP_pres. assumption.
  - apply Forall2_imp. intros x y. apply fP_pres. assumption.
  - apply Forall2_imp. intros x y. apply resm_pres. assumption.
Qed.

Lemma TP_keys m tm tm' o sh :
  (forall k, alookup k tm <> None -> alookup k tm' <> None) -> TP tm m o sh -> TP tm' m o sh.
Proof.
  intros Hk. unfold TP. destruct (mget m o) as [[n k d ms ifs r ds| | | |]|]; auto. destruct k; auto.
  - apply Forall2_imp. intros x y [A B]. split; [eapply resf_keys; eauto|assumption].
  - apply Forall2_imp. intros x y [A B]. split; [eapply resf_keys; eauto|assumption].
  - apply Forall2_imp. intros x y. apply resm_keys. assumption.
Qed.

Lemma ar_ext tm m m' y : ext tm m m' -> mget m y <> None -> ar m' y = ar m y.
Proof.
  intros He Hy. unfold ar, oargs. destruct (mget m y) as [v|] eqn:Hv; [|congruence].
  destruct (proj2 He y v Hv) as (v' & Hv' & Hr). rewrite Hv'.
  destruct v, v'; simpl in Hr; try contradiction; try reflexivity. destruct Hr as (-> & _). reflexivity.
Qed.

Lemma TP_ext tm m m' o sh : ext tm m m' -> TP tm m o sh -> TP tm m' o sh.
Proof.
  intros He. unfold TP. destruct (mget m o) as [v|] eqn:Hg; [|intros []].
  destruct (proj2 He o v Hg) as (v' & Hg' & Hr). rewrite Hg'.
  destruct v; try (intros []). destruct v'; simpl in Hr; try contradiction.
  destruct Hr as (_ & -> & -> & _). destruct k; auto.
  - apply Forall2_imp. intros x y [A B]. split; [eapply resf_ext; eauto|].
    rewrite (ar_ext _ _ _ _ He); [assumption|]. exact (resm_exists _ _ _ (proj1 A)).
  - apply Forall2_imp. intros x y [A B]. split; [eapply resf_ext; eauto|].
    rewrite (ar_ext _ _ _ _ He); [assumption|]. exact (resm_exists _ _ _ (proj1 A)).
  - apply Forall2_imp. intros x y. apply resm_ext. assumption.
Qed.

Lemma Forall_F2 {A} (P : oid -> Prop) (a : A) l : Forall P l -> Forall2 (fun y _ => P y) l (map (fun _ => a) l).
Proof. induction 1; simpl; constructor; assumption. Qed.

(* ------------------------------------------------- the camel-casing hooks *)
Section CamelRes.
Variable c : str -> str.
Variable tm : list (str * oid).

Lemma camel_member_res m x m' r :
  vinv m -> resm tm m x -> camel_member c m x = Some (m', r) ->
  vinv m' /\ vpres m m' /\ exists y, r = Some y /\ resm tm m' y /\ oargs m' y = oargs m x.
Proof.
  intros Hi Hr H. unfold camel_member in H. unfold resm in Hr.
  destruct (mget m x) as [vx|] eqn:Hx; [|discriminate].
  destruct vx as [|n py ty args d dp rs sb ds|a n py ty df d ds| |]; try discriminate.
  - destruct (pres_alloc m (OField (c n) py ty args d dp rs sb ds) Hi) as (Hi2 & R2).
    unfold alloc in H, Hi2, R2. simpl in Hi2, R2. inversion H; subst m' r.
    split; [assumption|]. split; [assumption|]. exists (m_next m). split; [reflexivity|].
    assert (Hy : mget (MkMem ((m_next m, OField (c n) py ty args d dp rs sb ds) :: m_heap m) (N.succ (m_next m))) (m_next m)
                 = Some (OField (c n) py ty args d dp rs sb ds)) by (unfold mget; simpl; rewrite N.eqb_refl; reflexivity).
    split.
    + unfold resm. rewrite Hy. eapply healed_pres; [exact R2|exact Hr].
    + unfold oargs. rewrite Hy, Hx. reflexivity.
  - destruct (pres_alloc m (OInput a (c n) py ty df d ds) Hi) as (Hi2 & R2).
    unfold alloc in H, Hi2, R2. simpl in Hi2, R2. inversion H; subst m' r.
    split; [assumption|]. split; [assumption|]. exists (m_next m). split; [reflexivity|].
    assert (Hy : mget (MkMem ((m_next m, OInput a (c n) py ty df d ds) :: m_heap m) (N.succ (m_next m))) (m_next m)
                 = Some (OInput a (c n) py ty df d ds)) by (unfold mget; simpl; rewrite N.eqb_refl; reflexivity).
    split.
    + unfold resm. rewrite Hy. eapply healed_pres; [exact R2|exact Hr].
    + unfold oargs. rewrite Hy, Hx. reflexivity.
Qed.

Lemma camel_arg_P m x a m' r :
  vinv m -> iP tm m x a -> visit_arg (camel_visitor c) m x = Some (m', r) ->
  vinv m' /\ vpres m m' /\ exists y, r = Some y /\ iP tm m' y a.
Proof.
  intros Hi Hd H. unfold visit_arg, hseq in H. simpl in H.
  destruct (camel_member c m x) as [[m1 r1]|] eqn:E; [|discriminate].
  destruct (camel_member_res _ _ _ _ Hi Hd E) as (I1 & R1 & y & -> & Hy & _).
  unfold hid in H. inversion H; subst. split; [assumption|]. split; [assumption|]. exists y. split; [reflexivity|exact Hy].
Qed.

Lemma camel_inf_P m x a m' r :
  vinv m -> iP tm m x a -> visit_inf (camel_visitor c) m x = Some (m', r) ->
  vinv m' /\ vpres m m' /\ exists y, r = Some y /\ iP tm m' y a.
Proof.
  intros Hi Hd H. unfold visit_inf, hseq in H. simpl in H.
  destruct (camel_member c m x) as [[m1 r1]|] eqn:E; [|discriminate].
  destruct (camel_member_res _ _ _ _ Hi Hd E) as (I1 & R1 & y & -> & Hy & _).
  unfold hid in H. inversion H; subst. split; [assumption|]. split; [assumption|]. exists y. split; [reflexivity|exact Hy].
Qed.

Lemma camel_env_P m x a m' r :
  vinv m -> eP m x a -> visit_env (camel_visitor c) m x = Some (m', r) ->
  vinv m' /\ vpres m m' /\ exists y, r = Some y /\ eP m' y a.
Proof.
  intros Hi _ H. unfold visit_env, hseq in H. simpl in H. unfold hid in H. inversion H; subst.
  split; [assumption|]. split; [apply pres_refl|]. exists x. split; [reflexivity|exact Logic.I].
Qed.

Lemma camel_field_P m x a m' r :
  vinv m -> fP tm m x a -> visit_field (camel_visitor c) m x = Some (m', r) ->
  vinv m' /\ vpres m m' /\ exists y, r = Some y /\ fP tm m' y a.
Proof.
  intros Hi [[Hrm Hra] Har] H. unfold visit_field, hseq in H. simpl in H.
  destruct (camel_member c m x) as [[m0 r0]|] eqn:E; [|discriminate].
  destruct (camel_member_res _ _ _ _ Hi Hrm E) as (I0 & R0 & ya & -> & Hya & Hoa).
  destruct (base_field (camel_visitor c) m0 ya) as [[m2 ro]|] eqn:Hb; [|discriminate].
  assert (Hbase : vinv m2 /\ vpres m0 m2 /\ exists y, ro = Some y /\ fP tm m2 y a).
  { unfold base_field in Hb. destruct (mget m0 ya) as [v|] eqn:Hv; [|discriminate].
    destruct v as [|nf py ty args d dp rs sb ds| | |]; try discriminate.
    assert (Hargs : args = args_of m x).
    { unfold oargs in Hoa. rewrite Hv in Hoa. exact Hoa. }
    assert (Hlen : length args = a) by (rewrite Hargs; exact Har).
    assert (Hra0 : Forall2 (iP tm m0) args (map (fun _ => O) args)).
    { apply (Forall_F2 (resm tm m0) O). rewrite Hargs. eapply Forall_impl; [|exact Hra]. intros z. apply resm_pres. exact R0. }
    destruct (map_filter (visit_arg (camel_visitor c)) m0 args) as [[m1 args']|] eqn:Hmf; [|discriminate].
    destruct (map_filter_F2 nat _ (iP tm) camel_arg_P (fun a b y n P => resm_pres tm a b y P) _ _ _ _ _ I0 Hra0 Hmf) as (Hi1 & R1 & Hq1).
    pose proof (proj2 R1 ya _ Hv) as Hg1.
    assert (Hlen' : length args' = a).
    { rewrite (F2_length _ _ _ Hq1). rewrite map_length. exact Hlen. }
    assert (Hres' : Forall (resm tm m1) args') by (eapply Forall2_left; [|exact Hq1]; intros u w Hu; exact Hu).
    destruct (oids_eqb args' args) eqn:Heq.
    - inversion Hb; subst m2 ro. split; [assumption|]. split; [assumption|]. exists ya. split; [reflexivity|].
      apply oids_eqb_eq in Heq. subst args'. split; [split|].
      + eapply resm_pres; eauto.
      + unfold args_of. rewrite Hg1. exact Hres'.
      + unfold ar, oargs. rewrite Hg1. exact Hlen.
    - rewrite Hg1 in Hb. destruct (pres_alloc m1 (OField nf py ty args' d dp rs sb ds) Hi1) as (Hi2 & R2).
      unfold alloc in Hb, Hi2, R2. simpl in Hi2, R2. inversion Hb; subst m2 ro.
      split; [assumption|]. split; [eapply pres_trans; eauto|]. exists (m_next m1). split; [reflexivity|].
      assert (Hy2 : mget (MkMem ((m_next m1, OField nf py ty args' d dp rs sb ds) :: m_heap m1) (N.succ (m_next m1))) (m_next m1)
                    = Some (OField nf py ty args' d dp rs sb ds)) by (unfold mget; simpl; rewrite N.eqb_refl; reflexivity).
      split; [split|].
      + unfold resm. rewrite Hy2. unfold resm in Hya. rewrite Hv in Hya.
        eapply healed_pres; [exact R2|]. eapply healed_pres; [exact R1|exact Hya].
      + unfold args_of. rewrite Hy2. eapply Forall_impl; [|exact Hres']. intros z. apply resm_pres. exact R2.
      + unfold ar, oargs. rewrite Hy2. exact Hlen'. }
  destruct Hbase as (A & B & y & -> & C). unfold hid in H. inversion H; subst.
  split; [assumption|]. split; [eapply pres_trans; eauto|]. exists y. split; [reflexivity|exact C].
Qed.

Lemma camel_type_P m o sh m' r :
  vinv m -> TP tm m o sh -> visit_type (camel_visitor c) m o = Some (m', r) ->
  vinv m' /\ vpres m m' /\ exists y, r = Some y /\ TP tm m' y sh /\ tname m' y = tname m o.
Proof.
  intros Hi Htp H. unfold TP in Htp.
  destruct (mget m o) as [[n k d ms ifs r0 ds| | | |]|] eqn:Ho; try contradiction.
  unfold visit_type, hseq in H. simpl in H. unfold hid in H at 1.
  destruct (base_type (camel_visitor c) m o) as [[m2 r2]|] eqn:Eb; [|discriminate].
  assert (Hbase : vinv m2 /\ vpres m m2 /\ exists y, r2 = Some y /\ TP tm m2 y sh /\ tname m2 y = tname m o).
  { unfold tname at 2. rewrite Ho. unfold base_type in Eb. rewrite Ho in Eb.
    assert (Hgen : forall (h : hook) (P : mem -> oid -> nat -> Prop),
      (forall m x a m' r, vinv m -> P m x a -> h m x = Some (m', r) ->
         vinv m' /\ vpres m m' /\ exists y, r = Some y /\ P m' y a) ->
      (forall a b y z, vpres a b -> P a y z -> P b y z) ->
      Forall2 (P m) ms sh ->
      match map_filter h m ms with
      | None => None
      | Some (mx, members') =>
          if oids_eqb members' ms then Some (mx, Some o)
          else match mget mx o with
               | Some (OType n1 k1 d1 _ ifaces r1 ds1) =>
                   let (m3, t') := alloc mx (OType n1 k1 d1 members' ifaces r1 ds1) in Some (m3, Some t')
               | _ => None
               end
      end = Some (m2, r2) ->
      vinv m2 /\ vpres m m2 /\ exists y ms2, r2 = Some y /\
        mget m2 y = Some (OType n k d ms2 ifs r0 ds) /\ Forall2 (P m2) ms2 sh).
    { intros h P Hh HP Hin H0. destruct (map_filter h m ms) as [[mx ms'']|] eqn:Hmf; [|discriminate].
      destruct (map_filter_F2 nat h P Hh HP _ _ _ _ _ Hi Hin Hmf) as (Ix & Rx & Hqx).
      pose proof (proj2 Rx o _ Ho) as Hgx.
      destruct (oids_eqb ms'' ms) eqn:Heq.
      - inversion H0; subst m2 r2. apply oids_eqb_eq in Heq. subst ms''. split; [assumption|]. split; [assumption|].
        exists o, ms. auto.
      - rewrite Hgx in H0. destruct (pres_alloc mx (OType n k d ms'' ifs r0 ds) Ix) as (I3 & R3).
        unfold alloc in H0, I3, R3. simpl in I3, R3. inversion H0; subst m2 r2.
        split; [assumption|]. split; [eapply pres_trans; eauto|]. exists (m_next mx), ms''. split; [reflexivity|].
        split; [unfold mget; simpl; rewrite N.eqb_refl; reflexivity|].
        eapply Forall2_imp; [|exact Hqx]. intros a b. apply HP. exact R3. }
    assert (Hempty : Some (m, Some o) = Some (m2, r2) -> (k = Kscalar \/ k = Kunion) ->
              vinv m2 /\ vpres m m2 /\ exists y, r2 = Some y /\ TP tm m2 y sh /\ tname m2 y = Some n).
    { intros H0 Hk. inversion H0; subst. split; [assumption|]. split; [apply pres_refl|]. exists o. split; [reflexivity|].
      unfold TP, tname. rewrite Ho. split; [|reflexivity]. destruct Hk as [-> | ->]; exact Logic.I. }
    assert (Hfin : forall P : mem -> oid -> nat -> Prop,
              (forall mm ms2, Forall2 (P mm) ms2 sh ->
                 match k with Kobject | Kinterface => Forall2 (fP tm mm) ms2 sh | Kinput => Forall2 (iP tm mm) ms2 sh
                            | Kenum => Forall2 (eP mm) ms2 sh | _ => True end) ->
              (vinv m2 /\ vpres m m2 /\ exists y ms2, r2 = Some y /\
                 mget m2 y = Some (OType n k d ms2 ifs r0 ds) /\ Forall2 (P m2) ms2 sh) ->
              vinv m2 /\ vpres m m2 /\ exists y, r2 = Some y /\ TP tm m2 y sh /\ tname m2 y = Some n).
    { intros P HPk (A & B & y & ms2 & -> & Hy & Hq). split; [assumption|]. split; [assumption|]. exists y. split; [reflexivity|].
      unfold TP, tname. rewrite Hy. split; [|reflexivity]. apply HPk. exact Hq. }
    destruct k.
    - apply (Hempty Eb). left; reflexivity.
    - apply (Hfin (fP tm)); [intros mm ms2 Hq; exact Hq|].
      apply (Hgen _ (fP tm) camel_field_P (fun a b y z P => fP_pres tm a b y z P) Htp Eb).
    - apply (Hfin (fP tm)); [intros mm ms2 Hq; exact Hq|].
      apply (Hgen _ (fP tm) camel_field_P (fun a b y z P => fP_pres tm a b y z P) Htp Eb).
    - apply (Hempty Eb). right; reflexivity.
    - apply (Hfin eP); [intros mm ms2 Hq; exact Hq|].
      apply (Hgen _ eP camel_env_P (fun a b y z P H => H) Htp Eb).
    - apply (Hfin (iP tm)); [intros mm ms2 Hq; exact Hq|].
      apply (Hgen _ (iP tm) camel_inf_P (fun a b y z P => resm_pres tm a b y P) Htp Eb). }
  destruct Hbase as (A & B & y & -> & Hy). unfold hid in H. inversion H; subst.
  split; [assumption|]. split; [assumption|]. exists y. auto.
Qed.

End CamelRes.

(* -------------------------------- the camel-casing visitor over a registry *)
Section CamelShape.
Variable c : str -> str.
Variable Sh : str -> list nat -> Prop.     (* the shape expected of the type registered under a name *)

Lemma camel_traverse_P tm : forall l m m' ups,
  vinv m ->
  (forall n o, In (n, o) l -> is_builtin o = false -> tname m o = Some n /\ exists sh, Sh n sh /\ TP tm m o sh) ->
  traverse_list (visit_type (camel_visitor c)) is_builtin m l = Some (m', ups) ->
  vinv m' /\ vpres m m' /\
  (forall n y, In (n, Some y) ups -> tname m' y = Some n /\ exists sh, Sh n sh /\ TP tm m' y sh) /\
  (forall n r, In (n, r) ups -> r <> None).
Proof.
  induction l as [|[n0 o0] l IH]; intros m m' ups Hi Hd H; simpl in H.
  - inversion H; subst. split; [assumption|]. split; [apply pres_refl|]. split; [intros ? ? []|intros ? ? []].
  - assert (Hd' : forall n o, In (n, o) l -> is_builtin o = false -> tname m o = Some n /\ exists sh, Sh n sh /\ TP tm m o sh)
      by (intros n o Hin Hb; apply (Hd n o); [right; assumption|assumption]).
    destruct (is_builtin o0) eqn:Hb0.
    + apply (IH _ _ _ Hi Hd' H).
    + destruct (visit_type (camel_visitor c) m o0) as [[m1 r]|] eqn:Hv; [|discriminate].
      destruct (traverse_list (visit_type (camel_visitor c)) is_builtin m1 l) as [[m2 ups']|] eqn:Hl; [|discriminate].
      inversion H; subst m' ups; clear H.
      destruct (Hd n0 o0 (or_introl eq_refl) Hb0) as (Hn0 & sh0 & Hs0 & Ht0).
      destruct (camel_type_P c tm _ _ _ _ _ Hi Ht0 Hv) as (I1 & R1 & y1 & -> & Hy1 & Hny1).
      assert (Hd1 : forall n o, In (n, o) l -> is_builtin o = false -> tname m1 o = Some n /\ exists sh, Sh n sh /\ TP tm m1 o sh).
      { intros n o Hin Hb. destruct (Hd' n o Hin Hb) as (A & sh & B & C). split; [eapply tname_vpres; eauto|].
        exists sh. split; [assumption|eapply TP_pres; eauto]. }
      destruct (IH _ _ _ I1 Hd1 Hl) as (I2 & R2 & C2 & E2).
      split; [assumption|]. split; [eapply pres_trans; eauto|]. split.
      * intros n y Hin. destruct (ooid_eqb (Some y1) (Some o0)) eqn:Heq; [apply C2; assumption|].
        destruct Hin as [He|Hin]; [|apply C2; assumption]. inversion He; subst.
        split; [eapply tname_vpres; [exact R2|]; rewrite Hny1; exact Hn0|].
        exists sh0. split; [assumption|eapply TP_pres; eauto].
      * intros n r Hin. destruct (ooid_eqb (Some y1) (Some o0)) eqn:Heq; [eapply E2; eauto|].
        destruct Hin as [He|Hin]; [inversion He; subst; discriminate|eapply E2; eauto].
Qed.

Theorem camel_shape fuel m s m' s' :
  fresh_ok m -> builtins_ok m -> NoDup (map fst (s_types s)) ->
  (forall n o, In (n, o) (s_types s) -> tname m o = Some n) ->
  (forall n o, In (n, o) (s_types s) -> is_builtin o = false -> exists sh, Sh n sh /\ TP (s_types s) m o sh) ->
  on_schema fuel (camel_visitor c) m s = Ok (m', s') ->
  (forall n o, In (n, o) (s_types s') -> is_builtin o = false -> exists sh, Sh n sh /\ TP (s_types s') m' o sh) /\
  (forall k, alookup k (s_types s) <> None -> alookup k (s_types s') <> None) /\
  wf_reg m' (s_types s') /\
  (forall o n, tname m o = Some n -> tname m' o = Some n).
Proof.
  intros Hf Hb Hnd Hnames Hsh H.
  assert (Hi : vinv m).
  { split; [assumption|]. destruct (N.lt_ge_cases 5 (m_next m)) as [Hlt|Hle]; [assumption|].
    assert (Hin : In (str_of_string "ID", 5) builtin_types) by (simpl; auto 10).
    pose proof (Hb _ _ Hin) as Hg. rewrite (Hf 5 Hle) in Hg. discriminate. }
  unfold on_schema, traverse in H.
  destruct (traverse_list (visit_type (camel_visitor c)) is_builtin m (s_types s)) as [[m1 tu]|] eqn:Ht; [|discriminate].
  destruct (traverse_list (visit_dir (camel_visitor c)) (fun _ => false) m1 (s_dirs s)) as [[m2 du]|] eqn:Hd; [|discriminate].
  assert (Hpre : forall n o, In (n, o) (s_types s) -> is_builtin o = false ->
            tname m o = Some n /\ exists sh, Sh n sh /\ TP (s_types s) m o sh) by (intros n o A B; split; auto).
  destruct (camel_traverse_P _ _ _ _ _ Hi Hpre Ht) as (I1 & R1 & Du & Dsome).
  destruct (camel_dirs_pres c _ _ _ _ I1 Hd) as (I2 & R2).
  pose proof (pres_trans _ _ _ R1 R2) as R12.
  destruct fuel as [|fuel]; [simpl in H; discriminate|].
  rewrite replace_and_heal_S in H.
  destruct (replace_types m2 tu (s_types s) false) as [[tm1 b]| | |] eqn:Hrt; simpl in H; try discriminate.
  destruct (replace_dirs du (s_dirs s)) as [dm| | |] eqn:Hrd2; simpl in H; try discriminate.
  assert (Hwf2 : wf_reg m2 (s_types s)).
  { split; [assumption|]. intros n o Hin. eapply tname_vpres; [exact R12|auto]. }
  assert (Hwf' : wf_reg m2 tm1).
  { eapply replace_types_wf; [exact Hwf2| |exact Hrt]. intros n y Hin.
    eapply tname_vpres; [exact R2|]. exact (proj1 (Du n y Hin)). }
  assert (Hkeys : forall k, alookup k (s_types s) <> None -> alookup k tm1 <> None).
  { intros k Hk. eapply replace_types_keeps; [exact Dsome|exact Hk|exact Hrt]. }
  assert (Hrg : forall n o, In (n, o) tm1 -> is_builtin o = false -> exists sh, Sh n sh /\ TP tm1 m2 o sh).
  { intros n o Hin Hbo. destruct (replace_types_in_strict _ _ _ _ _ _ _ _ Hnd Hrt Hin) as [Hu|[Ho Hno]].
    - destruct (Du n o Hu) as (_ & sh & A & B). exists sh. split; [assumption|].
      eapply TP_keys; [exact Hkeys|]. eapply TP_pres; [exact R2|exact B].
    - destruct (Hsh n o Ho Hbo) as (sh & A & B). exists sh. split; [assumption|].
      eapply TP_keys; [exact Hkeys|]. eapply TP_pres; [exact R12|exact B]. }
  assert (Hnm2 : forall o n, tname m o = Some n -> tname m2 o = Some n) by (intros o n; apply tname_vpres; exact R12).
  destruct b.
  - match type of H with obind (heal_from fuel m2 ?s1) _ = _ =>
      destruct (heal_from fuel m2 s1) as [[m3 s3]| | |] eqn:Hrec; simpl in H; try discriminate;
      destruct (heal_from_nodrop tm1 fuel m2 s1 m3 s3 eq_refl (proj1 I2) Hwf'
                  (fun n o A B => match Hrg n o A B with ex_intro _ sh (conj _ T) => TP_tres _ _ _ _ T end) Hrec)
        as (Hst & He3 & Hf3) end.
    assert (m3 = m' /\ rebuild_caches m3 s3 = s') as [<- <-] by (inversion H; split; reflexivity).
    replace (s_types (rebuild_caches m3 s3)) with tm1 by (rewrite <- Hst; reflexivity). split; [|split; [exact Hkeys|split; [eapply wf_reg_ext; eauto|]]].
    + intros n o A B. destruct (Hrg n o A B) as (sh & C & D). exists sh. split; [assumption|eapply TP_ext; eauto].
    + intros o n A. eapply ext_tname; [exact He3|apply Hnm2; exact A].
  - inversion H; subst m' s'. simpl. split; [exact Hrg|split; [exact Hkeys|split; [exact Hwf'|exact Hnm2]]].
Qed.

End CamelShape.

(* ------------------------------------------------ the shape of a fresh clone *)
Definition shape (M : mem) (t : oid) : list nat :=
  match mget M t with Some (OType _ _ _ ms _ _ _) => map (ar M) ms | _ => [] end.

Lemma Forall_F2len {A} (P : oid -> Prop) l (sh : list A) :
  Forall P l -> length l = length sh -> Forall2 (fun y _ => P y) l sh.
Proof.
  revert sh. induction l as [|x l IH]; intros [|a sh] Hp Hlen; simpl in Hlen; try discriminate; constructor.
  - inversion Hp; assumption.
  - apply IH; [inversion Hp; assumption|lia].
Qed.

Lemma cloned_TP tm m1 n t o : type_cloned m1 n t o -> tres tm m1 o -> TP tm m1 o (shape m1 t).
Proof.
  intros (k & d & ms & ifs & r & ds & ms' & ifs' & Ht & Ho & Hm) Hr. unfold TP, shape, tres in *.
  rewrite Ho in *. rewrite Ht. destruct k; auto.
  - clear Ht Ho. revert Hr. induction Hm as [|x x' l l' Hx Hl IH]; intros Hr; simpl; [constructor|].
    inversion Hr; subst. constructor; [|auto]. split; [assumption|]. unfold ar. symmetry. apply (F2_length _ _ _ (proj2 Hx)).
  - clear Ht Ho. revert Hr. induction Hm as [|x x' l l' Hx Hl IH]; intros Hr; simpl; [constructor|].
    inversion Hr; subst. constructor; [|auto]. split; [assumption|]. unfold ar. symmetry. apply (F2_length _ _ _ (proj2 Hx)).
  - apply (Forall_F2len (fun _ => True)); [apply Forall_forall; intros; exact Logic.I|].
    rewrite map_length. symmetry. apply (F2_length _ _ _ Hm).
  - apply (Forall_F2len (resm tm m1)); [exact Hr|]. rewrite map_length. symmetry. apply (F2_length _ _ _ Hm).
Qed.

Lemma full_of src g M M1 tm n o t :
  (forall x v, src x = Some v -> mget M1 x = Some v) ->
  tdesc src g M n o t -> TP tm M o (shape M1 t) -> src_sorted src t -> tfull src g M n o t.
Proof.
  intros Hex (k & d & ms & ifs & r & ds & ms' & ifs' & Hs & Ho & Hm) Htp Hsort.
  exists k, d, ms, ifs, r, ds, ms', ifs'. split; [assumption|]. split; [assumption|].
  unfold TP in Htp. rewrite Ho in Htp. unfold shape in Htp. rewrite (Hex _ _ Hs) in Htp.
  unfold src_sorted in Hsort. rewrite Hs in Hsort.
  assert (Hleaf : forall P : oid -> Prop, (forall s, P s -> sargs src s = []) -> (forall x, In x ms -> P x) ->
            length ms' = length ms ->
            Forall2 (fun s y => desc src g M y s /\
                        Forall2 (fun sa a => desc src g M a sa) (sargs src s) (oargs M y)) ms ms').
  { intros P HP Hall Hlen. pose proof (subseq_full _ _ _ Hm Hlen) as F. eapply Forall2_impl_in; [|exact F].
    intros s y Hin [Hd Ha]. split; [assumption|]. rewrite (HP s (Hall s Hin)) in *. rewrite (subseq_nil_r _ _ Ha). constructor. }
  assert (Hfld : Forall2 (fP tm M) ms' (map (ar M1) ms) ->
            Forall2 (fun s y => desc src g M y s /\
                        Forall2 (fun sa a => desc src g M a sa) (sargs src s) (oargs M y)) ms ms').
  { intros Hq. assert (Hlen : length ms' = length ms) by (rewrite (F2_length _ _ _ Hq); apply map_length).
    pose proof (subseq_full _ _ _ Hm Hlen) as F.
    pose proof (Forall2_zip _ (fP tm M) (ar M1) _ _ F Hq) as Z.
    eapply Forall2_imp; [|exact Z]. intros s y [[Hd Ha] [_ Har]]. split; [assumption|].
    apply subseq_full; [assumption|]. destruct Hd as (vs & vy & Hvs & _).
    unfold ar in Har. rewrite Har. unfold oargs, sargs. rewrite (Hex _ _ Hvs), Hvs. reflexivity. }
  destruct k.
  - subst ms. rewrite (subseq_nil_r _ _ Hm). constructor.
  - apply Hfld. exact Htp.
  - apply Hfld. exact Htp.
  - subst ms. rewrite (subseq_nil_r _ _ Hm). constructor.
  - apply (Hleaf (src_enumv src)); [|exact Hsort|].
    + intros s0 H0. unfold src_enumv in H0. unfold sargs. destruct (src s0) as [[| | | |]|]; try contradiction; reflexivity.
    + rewrite (F2_length _ _ _ Htp). apply map_length.
  - apply (Hleaf (src_input src)); [|exact Hsort|].
    + intros s0 H0. unfold src_input in H0. unfold sargs. destruct (src s0) as [[| | | |]|]; try contradiction; reflexivity.
    + rewrite (F2_length _ _ _ Htp). apply map_length.
Qed.

(* transform_schema(schema, CamelCaseSchemaTransform) loses nothing *)
Theorem transform_camel_complete fuel c m s m' s' :
  fresh_ok m -> builtins_ok m -> closed m s -> wf_schema m s -> wf_builtins s ->
  (forall n t, In (n, t) (s_types s) -> is_builtin t = false -> src_sorted (mget m) t) ->
  transform fuel (camel_visitor c) m s = Ok (m', s') ->
  forall n t, In (n, t) (s_types s) -> is_builtin t = false ->
    exists o, alookup n (s_types s') = Some o /\ is_builtin o = false /\ tfull (mget m) c m' n o t.
Proof.
  intros Hf Hb Hcl Hwf Hbi Hsort H n t Hin Hbt.
  pose proof (transform_camel_desc _ _ _ _ _ _ Hf Hb Hcl Hwf Hbi Hsort H) as Hrd.
  unfold transform in H. destruct (clone fuel m s) as [[m1 cl]| | |] eqn:Hc; simpl in H; try discriminate.
  destruct (clone_redesc _ _ _ _ _ Hf Hb Hcl Hwf Hbi Hc) as (Hf1 & Hb1 & Hwf1 & _).
  destruct (clone_preserved _ _ _ _ _ Hf Hb Hcl Hwf Hbi Hc) as ((_ & _ & Hback & Htres) & Hfw & _ & _).
  destruct (clone_owned _ _ _ _ _ Hf Hb Hcl Hwf Hbi Hc) as (Fown & _).
  assert (Hex : forall x v, mget m x = Some v -> mget m1 x = Some v).
  { intros x v Hx. rewrite (fr_frame _ _ _ Fown); [exact Hx|].
    destruct (N.lt_ge_cases x (m_next m)) as [Hlt|Hge]; [assumption|]. rewrite (Hf x Hge) in Hx. discriminate. }
  set (Sh := fun (n0 : str) (sh : list nat) =>
               exists t0, In (n0, t0) (s_types s) /\ is_builtin t0 = false /\ sh = shape m1 t0).
  assert (Hsh : forall n1 o, In (n1, o) (s_types cl) -> is_builtin o = false ->
            exists sh, Sh n1 sh /\ TP (s_types cl) m1 o sh).
  { intros n1 o Hi1 Hbo. destruct (Hback n1 o Hi1 Hbo) as (t1 & Ht1 & Hbt1).
    destruct (Hfw n1 t1 Ht1 Hbt1) as (t' & Hl & Hcl1 & _).
    assert (o = t') by (pose proof (nodup_lookup _ _ _ (proj1 Hwf1) Hi1); congruence). subst t'.
    exists (shape m1 t1). split; [exists t1; auto|]. apply (cloned_TP _ _ n1); [assumption|apply (Htres n1 o Hi1 Hbo)]. }
  destruct (camel_shape c Sh fuel m1 cl m' s' Hf1 Hb1 (proj1 Hwf1) (proj2 Hwf1) Hsh H) as (Hfin & Hkeys & Hwff & Hnm).
  destruct (Hfw n t Hin Hbt) as (t' & Hl' & _).
  destruct (alookup n (s_types s')) as [o|] eqn:Hlo; [|exfalso; apply (Hkeys n); [rewrite Hl'; discriminate|assumption]].
  exists o. split; [reflexivity|].
  assert (Hino : In (n, o) (s_types s')) by (apply alookup_In; exact Hlo).
  assert (Hbo : is_builtin o = false).
  { destruct (is_builtin o) eqn:E; [|reflexivity]. exfalso. destruct (is_builtin_in _ E) as (bn & Hbn).
    pose proof (proj2 Hwff n o Hino) as Hn1.
    assert (Hn2 : tname m' o = Some bn) by (apply Hnm; unfold tname; rewrite (Hb1 _ _ Hbn); reflexivity).
    assert (bn = n) by congruence. subst bn.
    pose proof (nodup_lookup _ _ _ (wf_keys _ _ Hwf) (Hbi _ Hbn)) as A.
    pose proof (nodup_lookup _ _ _ (wf_keys _ _ Hwf) Hin) as B.
    assert (o = t) by congruence. subst. congruence. }
  split; [exact Hbo|].
  destruct (Hrd n o Hino Hbo) as (t2 & Ht2 & Htd).
  assert (t2 = t).
  { pose proof (nodup_lookup _ _ _ (wf_keys _ _ Hwf) Ht2) as A. pose proof (nodup_lookup _ _ _ (wf_keys _ _ Hwf) Hin) as B. congruence. }
  subst t2.
  destruct (Hfin n o Hino Hbo) as (sh & (t3 & Ht3 & _ & ->) & Htp).
  assert (t3 = t).
  { pose proof (nodup_lookup _ _ _ (wf_keys _ _ Hwf) Ht3) as A. pose proof (nodup_lookup _ _ _ (wf_keys _ _ Hwf) Hin) as B. congruence. }
  subst t3.
  eapply full_of; [exact Hex|exact Htd|exact Htp|apply (Hsort n t Hin Hbt)].
Qed.
