(* Fuel adequacy for the depth model: when the fragments of a document are
   acyclic (a rank function decreasing along spreads exists - what
   NoFragmentCycles guarantees), the model never runs out of fuel once it is
   given enough, i.e. the code's recursion terminates. *)
From PyGql Require Import Spec.DepthSpec Proofs.DepthProofs.

Fixpoint spreads_of (s : selection) : list str :=
  match s with
  | SField _ _ _ _ _ sub _ => flat_map spreads_of sub
  | SSpread n _ _ => [n_val n]
  | SInline _ _ _ sub _ => flat_map spreads_of sub
  end.
Definition spreads_list (ss : list selection) : list str := flat_map spreads_of ss.

Section Termination.
  Variable frags : frag_table.
  Variable vs : vars.
  Variable rank : str -> nat.

  Definition bounded (r : nat) (ss : list selection) : Prop :=
    forall m, In m (spreads_list ss) -> alookup m frags <> None -> rank m < r.

  Definition acyclic : Prop :=
    forall n tc fsels, alookup n frags = Some (tc, fsels) -> bounded (rank n) fsels.

  Hypothesis Hacyc : acyclic.

  Notation cinto := (collect_into (fun _ => true) frags vs false).
  Notation reach := (reach frags vs).
  Notation path_len := (path_len frags vs).

  (* ---- more fuel never changes a result ---- *)
  Definition cinto_body (rec : list selection -> groups -> list str -> outcome (groups * list str))
             (ss : list selection) (g : groups) (local : list str) : outcome (groups * list str) :=
    match ss with
    | [] => Ok (g, local)
    | SField alias n args dirs sl sub l as f :: ss' =>
        do sk <- skip_selection dirs vs;
        if sk then rec ss' g local
        else rec ss' (add_group (response_name alias n) [f] g) local
    | SInline tc dirs ssl sub l :: ss' =>
        do sk <- skip_selection dirs vs;
        if sk || negb true then rec ss' g local
        else
          do r <- rec sub [] local;
          rec ss' (merge_groups (fst r) g) (caller_view local (snd r))
    | SSpread n dirs l :: ss' =>
        let nm := n_val n in
        match alookup nm frags with
        | None => do sk <- skip_selection dirs vs; rec ss' g local
        | Some (tc, fsels) =>
            do sk <- skip_selection dirs vs;
            if sk || mem_str nm local || negb true then rec ss' g local
            else
              do r <- rec fsels [] local;
              rec ss' (merge_groups (fst r) g) (nm :: caller_view local (snd r))
        end
    end.

  Lemma cinto_S_eq f ss g l : cinto (S f) ss g l = cinto_body (cinto f) ss g l.
  Proof. destruct ss as [|[| |] ss]; reflexivity. Qed.

  Lemma cinto_mono_S : forall f ss g l,
    cinto f ss g l <> OutOfFuel -> cinto (S f) ss g l = cinto f ss g l.
  Proof.
    induction f as [|f IH]; intros ss g l H; [exfalso; apply H; reflexivity|].
    remember (S f) as f1 eqn:Hf1. rewrite (cinto_S_eq f1). subst f1.
    rewrite (cinto_S_eq f ss g l). rewrite (cinto_S_eq f ss g l) in H.
    unfold cinto_body in *.
    destruct ss as [|sel ss]; [reflexivity|].
    destruct sel as [alias n args dirs sl sub lo | n dirs lo | tc dirs ssl sub lo].
    - destruct (skip_selection dirs vs) as [sk| | |]; cbn [obind negb orb] in *; try reflexivity.
      destruct sk; apply IH; exact H.
    - cbv zeta in *. destruct (alookup (n_val n) frags) as [[tc fsels]|].
      + destruct (skip_selection dirs vs) as [sk| | |]; cbn [obind negb orb] in *; try reflexivity.
        destruct (sk || mem_str (n_val n) l || false); [apply IH; exact H|].
        assert (Hn : cinto f fsels [] l <> OutOfFuel).
        { intro E. rewrite E in H. apply H; reflexivity. }
        rewrite (IH _ _ _ Hn).
        destruct (cinto f fsels [] l) as [r| | |]; cbn [obind negb orb] in *; try reflexivity.
        apply IH; exact H.
      + destruct (skip_selection dirs vs) as [sk| | |]; cbn [obind negb orb] in *; try reflexivity.
        apply IH; exact H.
    - destruct (skip_selection dirs vs) as [sk| | |]; cbn [obind negb orb] in *; try reflexivity.
      destruct (sk || false); [apply IH; exact H|].
      assert (Hn : cinto f sub [] l <> OutOfFuel).
      { intro E. rewrite E in H. apply H; reflexivity. }
      rewrite (IH _ _ _ Hn).
      destruct (cinto f sub [] l) as [r| | |]; cbn [obind negb orb] in *; try reflexivity.
      apply IH; exact H.
  Qed.

  Lemma cinto_mono : forall k f ss g l,
    cinto f ss g l <> OutOfFuel -> cinto (k + f) ss g l = cinto f ss g l.
  Proof.
    induction k as [|k IH]; intros f ss g l H; [reflexivity|].
    change (S k + f) with (S (k + f)).
    rewrite cinto_mono_S; [apply IH; exact H|]. rewrite IH; exact H.
  Qed.

  Definition collect_terminates (ss : list selection) : Prop :=
    exists f0, forall f g l, f0 <= f -> cinto f ss g l <> OutOfFuel.

  Lemma collect_terminates_intro ss f0 :
    (forall g l, cinto f0 ss g l <> OutOfFuel) -> collect_terminates ss.
  Proof.
    intros H. exists f0. intros f g l Hle.
    replace f with ((f - f0) + f0) by lia. rewrite cinto_mono; apply H.
  Qed.

  Lemma bounded_cons r x ss : bounded r (x :: ss) <-> bounded r [x] /\ bounded r ss.
  Proof.
    unfold bounded, spreads_list. simpl. rewrite app_nil_r. split.
    - intros H; split; intros m Hm; apply H; apply in_app_iff; auto.
    - intros [H1 H2] m Hm. apply in_app_iff in Hm. destruct Hm; auto.
  Qed.

  Lemma bounded_app r a b : bounded r (a ++ b) <-> bounded r a /\ bounded r b.
  Proof.
    unfold bounded, spreads_list. rewrite flat_map_app. split.
    - intros H; split; intros m Hm; apply H; apply in_app_iff; auto.
    - intros [H1 H2] m Hm. apply in_app_iff in Hm. destruct Hm; auto.
  Qed.

  Lemma bounded_le r r' ss : r <= r' -> bounded r ss -> bounded r' ss.
  Proof. intros Hle H m Hm Hd. specialize (H m Hm Hd). lia. Qed.

  Lemma dir_if_not_oof dn ds : dir_if dn ds vs <> OutOfFuel.
  Proof.
    unfold dir_if. destruct (find_dir dn ds); [|discriminate].
    destruct (find_arg_last s_if (d_args d)); [|discriminate].
    destruct (a_val a); try discriminate. destruct (alookup (n_val n) vs) as [[]|]; discriminate.
  Qed.

  Lemma skip_selection_not_oof ds : skip_selection ds vs <> OutOfFuel.
  Proof.
    unfold skip_selection.
    destruct (dir_if s_skip ds vs) eqn:H1; simpl; try discriminate;
      [|exfalso; eapply dir_if_not_oof; eassumption].
    destruct (dir_if s_include ds vs) eqn:H2; simpl; try discriminate.
    exfalso; eapply dir_if_not_oof; eassumption.
  Qed.

  (* ---- collect_fields_untyped terminates ---- *)
  Lemma collect_term : forall r ss, bounded r ss -> collect_terminates ss.
  Proof.
    induction r as [r IHr] using lt_wf_ind.
    assert (Hsel : forall sel, bounded r [sel] ->
              forall ss', collect_terminates ss' -> collect_terminates (sel :: ss')).
    { induction sel as [alias n args dirs sl sub lo Hsub | n dirs lo | tc dirs ssl sub lo Hsub]
        using selection_ind'; intros Hb ss' [f1 H1].
      - apply (collect_terminates_intro _ (S f1)). intros g l. rewrite cinto_S_eq; unfold cinto_body; cbv zeta.
        destruct (skip_selection dirs vs) as [sk| | |] eqn:Hsk; cbn [obind negb orb]; try discriminate;
          [|exfalso; eapply skip_selection_not_oof; exact Hsk].
        destruct sk; apply H1; lia.
      - destruct (alookup (n_val n) frags) as [[tc fsels]|] eqn:Hlk.
        + assert (Hr : rank (n_val n) < r).
          { apply Hb; [left; reflexivity|congruence]. }
          destruct (IHr _ Hr fsels (Hacyc _ _ _ Hlk)) as [f2 H2].
          apply (collect_terminates_intro _ (S (Nat.max f1 f2))). intros g l. rewrite cinto_S_eq; unfold cinto_body; cbv zeta.
          rewrite Hlk.
          destruct (skip_selection dirs vs) as [sk| | |] eqn:Hsk; cbn [obind negb orb]; try discriminate;
          [|exfalso; eapply skip_selection_not_oof; exact Hsk].
          destruct (sk || mem_str (n_val n) l || false); [apply H1; lia|].
          destruct (cinto (Nat.max f1 f2) fsels [] l) as [x| | |] eqn:Hn; cbn [obind negb orb]; try discriminate.
          * apply H1; lia.
          * exfalso. eapply H2; [|exact Hn]. lia.
        + apply (collect_terminates_intro _ (S f1)). intros g l. rewrite cinto_S_eq; unfold cinto_body; cbv zeta. rewrite Hlk.
          destruct (skip_selection dirs vs) as [sk| | |] eqn:Hsk; cbn [obind negb orb]; try discriminate;
          [|exfalso; eapply skip_selection_not_oof; exact Hsk].
          apply H1; lia.
      - assert (Hsubt : collect_terminates sub).
        { assert (Hbs : bounded r sub).
          { intros m Hm. apply Hb. unfold spreads_list; simpl. rewrite app_nil_r. exact Hm. }
          clear Hb. induction Hsub as [|x xs Hx _ IHxs].
          - apply (collect_terminates_intro _ 1). intros g l; discriminate.
          - apply bounded_cons in Hbs. destruct Hbs as [Hbx Hbxs]. apply Hx; auto. }
        destruct Hsubt as [f2 H2].
        apply (collect_terminates_intro _ (S (Nat.max f1 f2))). intros g l. rewrite cinto_S_eq; unfold cinto_body; cbv zeta.
        destruct (skip_selection dirs vs) as [sk| | |] eqn:Hsk; cbn [obind negb orb]; try discriminate;
          [|exfalso; eapply skip_selection_not_oof; exact Hsk].
        destruct (sk || false); [apply H1; lia|].
        destruct (cinto (Nat.max f1 f2) sub [] l) as [x| | |] eqn:Hn; cbn [obind negb orb]; try discriminate.
        + apply H1; lia.
        + exfalso. eapply H2; [|exact Hn]. lia. }
    induction ss as [|sel ss IHss]; intros Hb.
    - apply (collect_terminates_intro _ 1). intros g l; discriminate.
    - apply bounded_cons in Hb. destruct Hb as [Hb1 Hb2]. apply Hsel; auto.
  Qed.

  (* ---- field paths have bounded length ---- *)
  Definition path_bounded (ss : list selection) : Prop :=
    exists N, forall k, path_len ss k -> k <= N.

  Lemma path_bounded_cons x ss : path_bounded [x] -> path_bounded ss -> path_bounded (x :: ss).
  Proof.
    intros [N1 H1] [N2 H2]. exists (Nat.max N1 N2). intros k Hk.
    inversion Hk as [ss0|ss0 f k0 Hr Hp]; subst; [lia|].
    apply reach_cons_inv in Hr. destruct Hr as [Hr|Hr].
    - assert (S k0 <= N1) by (apply H1; eapply P_step; eassumption). lia.
    - assert (S k0 <= N2) by (apply H2; eapply P_step; eassumption). lia.
  Qed.

  Lemma path_bounded_nil : path_bounded [].
  Proof.
    exists 0. intros k Hk. inversion Hk as [ss0|ss0 f k0 Hr Hp]; subst; [lia|].
    inversion Hr; subst; match goal with Hin : In _ [] |- _ => destruct Hin end.
  Qed.

  Lemma path_bounded_term : forall r ss, bounded r ss -> path_bounded ss.
  Proof.
    induction r as [r IHr] using lt_wf_ind.
    assert (Hsel : forall sel, bounded r [sel] -> path_bounded [sel]).
    { induction sel as [alias n args dirs sl sub lo Hsub | n dirs lo | tc dirs ssl sub lo Hsub]
        using selection_ind'; intros Hb.
      - assert (Hs : path_bounded sub).
        { assert (Hbs : bounded r sub).
          { intros m Hm. apply Hb. unfold spreads_list; simpl. rewrite app_nil_r. exact Hm. }
          clear Hb. induction Hsub as [|x xs Hx _ IHxs]; [apply path_bounded_nil|].
          apply bounded_cons in Hbs. destruct Hbs. apply path_bounded_cons; auto. }
        destruct Hs as [N HN]. exists (S N). intros k Hk.
        inversion Hk as [ss0|ss0 f k0 Hr Hp]; subst; [lia|].
        apply reach_single_field in Hr. destruct Hr as [-> _].
        simpl in Hp. destruct sl; [|inversion Hp; subst; [lia|
          match goal with Hr' : reach [] _ |- _ => inversion Hr'; subst;
            match goal with Hin : In _ [] |- _ => destruct Hin end end]].
        apply HN in Hp. lia.
      - destruct (alookup (n_val n) frags) as [[tc fsels]|] eqn:Hlk.
        + assert (Hr : rank (n_val n) < r).
          { apply Hb; [left; reflexivity|congruence]. }
          destruct (IHr _ Hr fsels (Hacyc _ _ _ Hlk)) as [N HN].
          exists N. intros k Hk. inversion Hk as [ss0|ss0 f k0 Hrch Hp]; subst; [lia|].
          apply reach_single_spread in Hrch. destruct Hrch as [_ (tc0 & fs0 & Hl0 & Hr0)].
          rewrite Hlk in Hl0; inversion Hl0; subst.
          apply HN. eapply P_step; eassumption.
        + exists 0. intros k Hk. inversion Hk as [ss0|ss0 f k0 Hrch Hp]; subst; [lia|].
          apply reach_single_spread in Hrch. destruct Hrch as [_ (tc0 & fs0 & Hl0 & _)]. congruence.
      - assert (Hs : path_bounded sub).
        { assert (Hbs : bounded r sub).
          { intros m Hm. apply Hb. unfold spreads_list; simpl. rewrite app_nil_r. exact Hm. }
          clear Hb. induction Hsub as [|x xs Hx _ IHxs]; [apply path_bounded_nil|].
          apply bounded_cons in Hbs. destruct Hbs. apply path_bounded_cons; auto. }
        destruct Hs as [N HN]. exists N. intros k Hk.
        inversion Hk as [ss0|ss0 f k0 Hrch Hp]; subst; [lia|].
        apply reach_single_inline in Hrch. destruct Hrch as [_ Hr0].
        apply HN. eapply P_step; eassumption. }
    induction ss as [|sel ss IHss]; intros Hb; [apply path_bounded_nil|].
    apply bounded_cons in Hb. destruct Hb. apply path_bounded_cons; auto.
  Qed.

  (* ---- children of reachable fields stay within the rank bound ---- *)
  Lemma reach_bounded : forall r ss x, bounded r ss -> reach ss x -> bounded r (field_children x).
  Proof.
    intros r ss x Hb Hr. revert r Hb. induction Hr as
      [ss a n args ds sl sub l Hin Hi | ss tc ds ssl sub l f Hin Hi Hr IH
       | ss n ds l tc fsels f Hin Hi Hlk Hr IH]; intros r Hb.
    - simpl. destruct sl; [|intros m []].
      intros m Hm. apply Hb. unfold spreads_list. apply in_flat_map.
      eexists; split; [exact Hin|]. simpl. exact Hm.
    - apply IH. intros m Hm. apply Hb. unfold spreads_list. apply in_flat_map.
      eexists; split; [exact Hin|]. simpl. exact Hm.
    - assert (Hrk : rank (n_val n) < r).
      { apply Hb; [|congruence]. unfold spreads_list. apply in_flat_map.
        eexists; split; [exact Hin|]. simpl; left; reflexivity. }
      eapply bounded_le; [|apply IH; eapply Hacyc; exact Hlk]. lia.
  Qed.

  Lemma bounded_children_of r ss fields :
    bounded r ss -> (forall x, In x fields -> reach ss x) -> bounded r (children_of fields).
  Proof.
    intros Hb Hf. unfold children_of. induction fields as [|x fields IH]; simpl.
    - intros m [].
    - apply bounded_app. split.
      + change (bounded r (field_children x)). eapply reach_bounded; [exact Hb|apply Hf; left; reflexivity].
      + apply IH. intros y Hy; apply Hf; right; exact Hy.
  Qed.

  (* ---- more fuel never changes a depth result ---- *)
  Lemma fold_depth_ext (F1 F2 : list selection -> outcome nat) (g : groups) : forall acc,
    (forall kv, In kv g -> F1 (children_of (snd kv)) = F2 (children_of (snd kv))) ->
    fold_left (fun acc kv => do a <- acc; do d <- F1 (children_of (snd kv)); Ok (Nat.max a (S d))) g acc =
    fold_left (fun acc kv => do a <- acc; do d <- F2 (children_of (snd kv)); Ok (Nat.max a (S d))) g acc.
  Proof.
    induction g as [|kv g IH]; intros acc H; [reflexivity|]. simpl.
    rewrite (H kv (or_introl eq_refl)). apply IH. intros kv' Hin; apply H; right; exact Hin.
  Qed.

  Lemma fold_oof_stuck (F : list selection -> outcome nat) (g : groups) :
    fold_left (fun acc kv => do a <- acc; do d <- F (children_of (snd kv)); Ok (Nat.max a (S d))) g OutOfFuel
    = OutOfFuel.
  Proof. induction g as [|kv g IH]; [reflexivity|exact IH]. Qed.

  Lemma fold_not_oof (F : list selection -> outcome nat) (g : groups) : forall acc,
    acc <> OutOfFuel ->
    (forall kv, In kv g -> F (children_of (snd kv)) <> OutOfFuel) ->
    fold_left (fun acc kv => do a <- acc; do d <- F (children_of (snd kv)); Ok (Nat.max a (S d))) g acc
    <> OutOfFuel.
  Proof.
    induction g as [|kv g IH]; intros acc Ha H; [exact Ha|]. simpl. apply IH.
    - destruct acc; simpl; try discriminate; [|congruence].
      specialize (H kv (or_introl eq_refl)).
      destruct (F (children_of (snd kv))); simpl; try discriminate. congruence.
    - intros kv' Hin; apply H; right; exact Hin.
  Qed.

  (* ---- _selection_depth terminates ---- *)
  Definition depth_terminates (ss : list selection) : Prop :=
    exists f0, forall f, f0 <= f -> sel_depth f frags vs ss <> OutOfFuel.

  Lemma depth_term : forall N r ss,
    bounded r ss -> (forall k, path_len ss k -> k <= N) -> depth_terminates ss.
  Proof.
    induction N as [|N IHN]; intros r ss Hb HN.
    - (* no field is reachable: the groups are empty *)
      destruct (collect_term r ss Hb) as [f1 H1]. exists (S f1). intros f Hle.
      destruct f as [|f]; [lia|]. simpl. unfold collect_untyped, collect.
      destruct (cinto f ss [] []) as [[g l]| | |] eqn:Hc; simpl; try discriminate.
      + apply collect_into_spec in Hc. destruct Hc as (C1 & _ & _ & _ & C5).
        destruct g as [|kv g]; [discriminate|]. exfalso.
        assert (Hne : snd kv <> []) by (apply C5; [intros ? []|left; reflexivity]).
        destruct (snd kv) as [|x xs] eqn:Hkv; [congruence|].
        assert (Hx : reach ss x).
        { destruct (C1 x) as [[]|Hr]; [|exact Hr]. unfold fields_of. simpl. rewrite Hkv. left; reflexivity. }
        assert (1 <= 0); [|lia]. apply HN. eapply P_step; [exact Hx|constructor].
      + exfalso. eapply H1; [|exact Hc]. lia.
    - destruct (collect_term r ss Hb) as [f1 H1].
      (* a uniform fuel for the children of every possible group *)
      assert (Hchild : forall fields, (forall x, In x fields -> reach ss x) ->
                                      depth_terminates (children_of fields)).
      { intros fields Hf. apply (IHN r).
        - apply bounded_children_of with (ss := ss); assumption.
        - intros k Hk. destruct k as [|k]; [lia|].
          apply path_len_children_of in Hk. destruct Hk as (x & Hx & Hp).
          assert (S (S k) <= S N); [|lia]. apply HN. eapply P_step; [apply Hf; exact Hx|exact Hp]. }
      (* the groups do not depend on the fuel once it is large enough *)
      destruct (cinto f1 ss [] []) as [[g0 l0]| | |] eqn:Hc0.
      + assert (Hg : forall kv, In kv g0 -> forall x, In x (snd kv) -> reach ss x).
        { intros kv Hkv x Hx. apply collect_into_spec in Hc0. destruct Hc0 as (C1 & _).
          destruct (C1 x) as [[]|Hr]; [|exact Hr]. unfold fields_of. apply in_flat_map. eauto. }
        assert (Hall : exists F, forall kv, In kv g0 -> forall f, F <= f ->
                         sel_depth f frags vs (children_of (snd kv)) <> OutOfFuel).
        { clear Hc0. induction g0 as [|kv g0 IHg].
          - exists 0. intros ? [].
          - destruct IHg as [F HF]; [intros kv' Hin; apply Hg; right; exact Hin|].
            destruct (Hchild (snd kv) (Hg kv (or_introl eq_refl))) as [F' HF'].
            exists (Nat.max F F'). intros kv' [<-|Hin] f Hle; [apply HF'; lia|apply HF; [exact Hin|lia]]. }
        destruct Hall as [F HF]. exists (S (Nat.max f1 F)). intros f Hle.
        destruct f as [|f]; [lia|]. simpl. unfold collect_untyped, collect.
        replace f with ((f - f1) + f1) at 1 by lia.
        rewrite cinto_mono; [|rewrite Hc0; discriminate]. rewrite Hc0. simpl.
        apply fold_not_oof; [discriminate|]. intros kv Hin. apply HF; [exact Hin|lia].
      + exfalso. eapply H1; [|exact Hc0]. lia.
      + exists (S f1). intros f Hle. destruct f as [|f]; [lia|]. simpl. unfold collect_untyped, collect.
        replace f with ((f - f1) + f1) at 1 by lia.
        rewrite cinto_mono; [|rewrite Hc0; discriminate]. rewrite Hc0. simpl. discriminate.
      + exists (S f1). intros f Hle. destruct f as [|f]; [lia|]. simpl. unfold collect_untyped, collect.
        replace f with ((f - f1) + f1) at 1 by lia.
        rewrite cinto_mono; [|rewrite Hc0; discriminate]. rewrite Hc0. simpl. discriminate.
  Qed.

  Theorem sel_depth_terminates : forall r ss, bounded r ss -> depth_terminates ss.
  Proof.
    intros r ss Hb. destruct (path_bounded_term r ss Hb) as [N HN].
    exact (depth_term N r ss Hb HN).
  Qed.

  Lemma bounded_exists ss : exists r, bounded r ss.
  Proof.
    unfold bounded. induction (spreads_list ss) as [|m ms IH].
    - exists 0. intros ? [].
    - destruct IH as [r Hr]. exists (Nat.max r (S (rank m))). intros m' [<-|Hin] Hd; [lia|].
      specialize (Hr m' Hin Hd). lia.
  Qed.

  Theorem rule_terminates limit filter : forall ds,
    exists f0, forall f i, f0 <= f -> rule_from f limit filter frags vs i ds <> OutOfFuel.
  Proof.
    induction ds as [|d ds [f1 IH]].
    - exists 0. intros; discriminate.
    - destruct d; try (exists f1; intros f i Hle; simpl; apply IH; exact Hle).
      destruct (bounded_exists sels) as [r Hb].
      destruct (sel_depth_terminates r sels Hb) as [f2 H2].
      exists (Nat.max f1 f2). intros f i Hle. simpl.
      destruct (name_matches filter n); [|apply IH; lia].
      destruct (sel_depth f frags vs sels) eqn:Hd; simpl; try discriminate.
      + destruct (rule_from f limit filter frags vs (N.succ i) ds) eqn:Hr; simpl; try discriminate.
        exfalso. eapply IH; [|exact Hr]. lia.
      + exfalso. eapply H2; [|exact Hd]. lia.
  Qed.
End Termination.
