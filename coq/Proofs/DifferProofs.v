(* Proofs for C20: safe type changes, reflexivity, order independence. *)
From PyGql Require Import Schema.SchemaFull Schema.DifferModel Spec.DifferSpec Proofs.SchemaFullLemmas.
From Coq Require Import Permutation.

(* ------------------------------------------------------------ safe changes *)
Section Safe.
  Variable base : str -> pv -> Prop.

  Lemma safe_in_sound : forall o n, safe_in o n = true ->
    forall v, in_value base o v -> in_value base n v.
  Proof.
    induction o as [a|oi IH|oi IH]; intros n Hs v Hv.
    - destruct n as [b| |]; simpl in Hs; try discriminate.
      apply str_eqb_eq in Hs; subst; exact Hv.
    - destruct n as [|ni|]; simpl in Hs; try discriminate.
      simpl in *. destruct Hv as [Hv|[(l & -> & Hl)|(Hnl & Hnn & Hv)]].
      + left; exact Hv.
      + right; left. exists l; split; [reflexivity|].
        eapply Forall_impl; [|exact Hl]. intros x Hx. exact (IH _ Hs _ Hx).
      + right; right. repeat split; try assumption. exact (IH _ Hs _ Hv).
    - simpl in Hv. destruct Hv as [Hnn Hv].
      destruct n as [b|ni|ni]; simpl in Hs.
      + exact (IH _ Hs _ Hv).
      + exact (IH _ Hs _ Hv).
      + simpl. split; [assumption|]. exact (IH _ Hs _ Hv).
  Qed.

  Lemma safe_out_sound : forall n o, safe_out o n = true ->
    forall v, out_value base n v -> out_value base o v.
  Proof.
    induction n as [b|ni IH|ni IH]; intros o Hs v Hv.
    - destruct o as [a| |]; simpl in Hs; try discriminate.
      apply str_eqb_eq in Hs; subst; exact Hv.
    - destruct o as [a|oi|oi]; simpl in Hs; try discriminate.
      apply andb_true_iff in Hs. destruct Hs as [Hs _].
      simpl in *. destruct Hv as [Hv|(l & -> & Hl)].
      + left; exact Hv.
      + right. exists l; split; [reflexivity|].
        eapply Forall_impl; [|exact Hl]. intros x Hx. exact (IH _ Hs _ Hx).
    - simpl in Hv. destruct Hv as [Hnn Hv].
      destruct o as [a|oi|oi]; simpl in Hs.
      + exact (IH _ Hs _ Hv).
      + exact (IH _ Hs _ Hv).
      + simpl. split; [assumption|]. exact (IH _ Hs _ Hv).
  Qed.
End Safe.

(* the unchanged tree's output predicate is unsound: [Int!] -> [Int] *)
Lemma safe_out_unfixed_unsound :
  let i := TyNamed (str_of_string "Int") in
  let o := TyList (TyNonNull i) in
  let n := TyList i in
  safe_out_unfixed o n = true /\
  exists v, out_value (fun _ v => v = PInt 1) n v /\ ~ out_value (fun _ v => v = PInt 1) o v.
Proof.
  split; [reflexivity|].
  exists (PList [PNone]). split.
  - simpl. right. exists [PNone]. split; [reflexivity|]. constructor; [left; reflexivity|constructor].
  - simpl. intros [H|(l & Hl & Hf)]; [discriminate|].
    inversion Hl; subst. inversion Hf as [|x l' [Hx _] Hr]; subst. apply Hx; reflexivity.
Qed.

(* ------------------------------------------------------------ reflexivity *)
Lemma safe_in_refl t : safe_in t t = true.
Proof. induction t; simpl; auto using str_eqb_refl. Qed.

Lemma safe_out_refl t : safe_out t t = true.
Proof. induction t; simpl; auto using str_eqb_refl. rewrite IHt, safe_in_refl; reflexivity. Qed.

Fixpoint pv_eqb_refl (v : pv) : pv_eqb v v = true.
Proof.
  destruct v as [|b|z|r|s0|l|kvs]; simpl.
  - reflexivity.
  - apply Bool.eqb_reflx.
  - apply Z.eqb_refl.
  - apply str_eqb_refl.
  - apply str_eqb_refl.
  - induction l as [|x l IHl]; [reflexivity|]. rewrite (pv_eqb_refl x), IHl; reflexivity.
  - induction kvs as [|[k x] l IHl]; [reflexivity|].
    rewrite str_eqb_refl, (pv_eqb_refl x), IHl; reflexivity.
Qed.

Lemma default_changed_refl d : default_changed d d = false.
Proof. destruct d; simpl; [rewrite pv_eqb_refl|]; reflexivity. Qed.

Lemma opt_str_eqb_refl d : opt_eqb str_eqb d d = true.
Proof. destruct d; simpl; auto using str_eqb_refl. Qed.

Lemma filter_not_mem_self l : filter (fun i => negb (mem_str i l)) (dedup l) = [].
Proof.
  destruct (filter (fun i => negb (mem_str i l)) (dedup l)) as [|x r] eqn:E; [reflexivity|].
  assert (Hin : In x (filter (fun i => negb (mem_str i l)) (dedup l))) by (rewrite E; left; reflexivity).
  apply filter_In in Hin. destruct Hin as [Hd Hm]. apply dedup_In in Hd.
  apply mem_str_In in Hd. rewrite Hd in Hm; discriminate.
Qed.

Lemma diff_args_refl r c d a path l :
  names_unique a_name l -> diff_args r c d a path l l = [].
Proof.
  intros Hu. unfold diff_args.
  rewrite !flat_map_nil; [reflexivity| |]; intros x Hx; unfold find_arg;
    rewrite (find_unique a_name l x Hu Hx); [reflexivity|].
  rewrite safe_in_refl, default_changed_refl; reflexivity.
Qed.

Lemma diff_field_refl tn f : names_unique a_name (f_args f) -> diff_field tn f f = [].
Proof.
  intros Hu. unfold diff_field.
  rewrite safe_out_refl, diff_args_refl by assumption. simpl.
  rewrite opt_str_eqb_refl. destruct (field_deprecated f); reflexivity.
Qed.

Lemma diff_fields_refl tn fs :
  names_unique f_name fs -> Forall (fun f => names_unique a_name (f_args f)) fs ->
  diff_fields tn fs fs = [].
Proof.
  intros Hu Ha. unfold diff_fields. rewrite Forall_forall in Ha.
  rewrite !flat_map_nil; [reflexivity| |]; intros x Hx; unfold find_field;
    rewrite (find_unique f_name fs x Hu Hx); [reflexivity|].
  apply diff_field_refl; auto.
Qed.

Lemma diff_enum_refl tn vs : names_unique e_name vs -> diff_enum tn vs vs = [].
Proof.
  intros Hu. unfold diff_enum.
  rewrite !flat_map_nil; [reflexivity| |]; intros x Hx; unfold find_enum;
    rewrite (find_unique e_name vs x Hu Hx); [reflexivity|].
  rewrite opt_str_eqb_refl. destruct (enum_deprecated x); reflexivity.
Qed.

Lemma diff_input_refl tn fs : names_unique i_name fs -> diff_input tn fs fs = [].
Proof.
  intros Hu. unfold diff_input.
  rewrite !flat_map_nil; [reflexivity| |]; intros x Hx; unfold find_input;
    rewrite (find_unique i_name fs x Hu Hx); [reflexivity|].
  rewrite safe_in_refl, default_changed_refl; reflexivity.
Qed.

Lemma diff_union_refl tn ms : diff_union tn ms ms = [].
Proof. unfold diff_union. rewrite filter_not_mem_self; reflexivity. Qed.

Lemma diff_interfaces_refl tn ms : diff_interfaces_of tn ms ms = [].
Proof. unfold diff_interfaces_of. rewrite filter_not_mem_self; reflexivity. Qed.

Lemma diff_directives_refl ds :
  names_unique d_name ds -> Forall (fun d => names_unique a_name (d_args d)) ds ->
  diff_directives ds ds = [].
Proof.
  intros Hu Ha. unfold diff_directives. rewrite Forall_forall in Ha.
  rewrite !flat_map_nil; [reflexivity| |]; intros x Hx; destruct (d_specified x); try reflexivity;
    unfold find_dir; rewrite (find_unique d_name ds x Hu Hx); [reflexivity|].
  rewrite !filter_not_mem_self, diff_args_refl by auto. reflexivity.
Qed.

Theorem diff_model_refl s : wf_schema s -> diff_model s s = [].
Proof.
  intros (Ht & Hd & Hb & Hda). unfold diff_model. rewrite Forall_forall in Hb.
  rewrite diff_directives_refl by assumption.
  rewrite !flat_map_nil; [reflexivity|..]; intros t Hin;
    pose proof (find_unique t_name _ t Ht Hin) as Hf; pose proof (Hb t Hin) as Hw;
    [ unfold input_of | unfold interface_of | unfold object_of | unfold enum_of
    | unfold union_of | unfold changed_kind_of | unfold added_of | unfold removed_of ];
    unfold find_type; rewrite Hf; try reflexivity;
    try (destruct (t_intro t); [reflexivity|]);
    try rewrite N.eqb_refl; try reflexivity;
    try (destruct (t_body t); simpl in *; try reflexivity).
  - apply diff_input_refl; assumption.
  - apply diff_fields_refl; tauto.
  - destruct Hw. rewrite diff_fields_refl, diff_interfaces_refl by assumption. reflexivity.
  - apply diff_enum_refl; assumption.
  - apply diff_union_refl.
Qed.

(* ------------------------------------------------------------ order *)
Theorem diff_model_order o n o' n' :
  names_unique t_name (s_types o) -> names_unique t_name (s_types n) ->
  Permutation (s_types o) (s_types o') -> Permutation (s_types n) (s_types n') ->
  s_dirs o = s_dirs o' -> s_dirs n = s_dirs n' ->
  Permutation (diff_model o n) (diff_model o' n').
Proof.
  intros Ho Hn Po Pn Do Dn. unfold diff_model. rewrite <- Do, <- Dn.
  assert (Fo : forall k, find_type (s_types o) k = find_type (s_types o') k)
    by (intros k; apply find_perm; assumption).
  assert (Fn : forall k, find_type (s_types n) k = find_type (s_types n') k)
    by (intros k; apply find_perm; assumption).
  repeat apply Permutation_app; try apply Permutation_refl;
    apply perm_flat_map_ext; try assumption; intros t;
    [ unfold removed_of | unfold added_of | unfold changed_kind_of | unfold union_of
    | unfold enum_of | unfold object_of | unfold interface_of | unfold input_of ];
    first [rewrite Fn | rewrite Fo]; reflexivity.
Qed.

(* also the order of the directive definitions *)
Lemma diff_directives_perm od nd od' nd' :
  names_unique d_name od -> names_unique d_name nd ->
  Permutation od od' -> Permutation nd nd' ->
  Permutation (diff_directives od nd) (diff_directives od' nd').
Proof.
  intros Ho Hn Po Pn. unfold diff_directives.
  assert (Fo : forall k, find_dir od k = find_dir od' k) by (intros k; apply find_perm; assumption).
  assert (Fn : forall k, find_dir nd k = find_dir nd' k) by (intros k; apply find_perm; assumption).
  apply Permutation_app; apply perm_flat_map_ext; try assumption; intros d;
    destruct (d_specified d); try reflexivity; [rewrite Fn|rewrite Fo]; reflexivity.
Qed.

Theorem diff_model_order_full o n o' n' :
  names_unique t_name (s_types o) -> names_unique t_name (s_types n) ->
  names_unique d_name (s_dirs o) -> names_unique d_name (s_dirs n) ->
  Permutation (s_types o) (s_types o') -> Permutation (s_types n) (s_types n') ->
  Permutation (s_dirs o) (s_dirs o') -> Permutation (s_dirs n) (s_dirs n') ->
  Permutation (diff_model o n) (diff_model o' n').
Proof.
  intros Ho Hn Hdo Hdn Po Pn Do Dn.
  pose (o1 := mkSchema (s_types o') (s_dirs o) (s_query o) (s_mutation o) (s_subscription o) (s_default_resolver o)).
  pose (n1 := mkSchema (s_types n') (s_dirs n) (s_query n) (s_mutation n) (s_subscription n) (s_default_resolver n)).
  apply (Permutation_trans (l' := diff_model o1 n1)).
  - apply diff_model_order; try assumption; reflexivity.
  - unfold diff_model. simpl.
    apply Permutation_app_head. apply Permutation_app_head. apply Permutation_app_tail.
    apply diff_directives_perm; assumption.
Qed.
