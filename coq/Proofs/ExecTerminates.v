(* Fuel adequacy of the executor model: with acyclic fragments, for every
   request (schema, selections, variables, resolver world, root value) there
   are amounts of object-level fuel and collect fuel from which on exec_sel
   never answers OutOfFuel -- so the "= Ok r" premises of the C04 theorems are
   about terminating runs, not about lucky fuel. The nesting depth of objects is
   bounded by the longest field path through the selections (Proofs/
   DepthTermination.v: path_bounded_term), lists and worlds consume no fuel. *)
From PyGql Require Import Spec.ExecSpec Spec.DepthSpec Proofs.DepthProofs.
From PyGql Require Import Proofs.ExecProofs Proofs.ExecCollectProofs.
From PyGql Require Import Proofs.DepthTermination Proofs.ExecTermination Proofs.ExecCollectFull.

Arguments field_definition : simpl never.
Arguments collect_for : simpl never.
Arguments complete_field : simpl never.

(* "for all sufficiently large fuels" *)
Definition ev (P : nat -> nat -> Prop) : Prop :=
  exists F CF, forall fuel cfuel, F <= fuel -> CF <= cfuel -> P fuel cfuel.

Lemma ev_const (P : nat -> nat -> Prop) : (forall a b, P a b) -> ev P.
Proof. intros H. exists 0, 0. intros; apply H. Qed.

Lemma ev_and P Q : ev P -> ev Q -> ev (fun a b => P a b /\ Q a b).
Proof.
  intros (F1 & C1 & H1) (F2 & C2 & H2). exists (Nat.max F1 F2), (Nat.max C1 C2).
  intros a b Ha Hb. split; [apply H1|apply H2]; lia.
Qed.

Lemma ev_mono (P Q : nat -> nat -> Prop) : (forall a b, P a b -> Q a b) -> ev P -> ev Q.
Proof. intros H (F & C & HP). exists F, C. intros a b Ha Hb. apply H, HP; assumption. Qed.

Lemma obind_not_oof {A B} (x : outcome A) (f : A -> outcome B) :
  x <> OutOfFuel -> (forall a, x = Ok a -> f a <> OutOfFuel) -> obind x f <> OutOfFuel.
Proof. destruct x; simpl; intros H1 H2; try discriminate; [apply H2; reflexivity|congruence]. Qed.

Section ExecTerm.
  Variable sch : schema.
  Variable frags : frag_table.
  Variable vs : vars.
  Variable coerce_args : fdef -> selection -> outcome (list (str * pv)).
  Variable world : world_t.
  Variable tyres : str -> option (pv -> tyname_res).
  Variable rank : str -> nat.
  Hypothesis Hacyc : acyclic frags rank.
  (* the argument coercion of the fields the executor can meet terminates *)
  Hypothesis Hco : forall tn name k fd node,
      field_definition sch tn name = Ok (Some (k, fd)) -> coerce_args fd node <> OutOfFuel.

  Notation reach := (reach frags vs).
  Notation path_len := (path_len frags vs).
  Notation bounded := (bounded frags rank).
  Notation ex := (fun cfuel fuel => exec_sel sch frags vs coerce_args world tyres cfuel fuel).

  (* the nodes the code collects are reachable field nodes *)
  Lemma mflat_reach applies : forall ss local ms l',
    MFlat applies frags vs ss local ms l' -> forall x, In x ms -> reach ss x.
  Proof.
    intros ss local ms l' H.
    induction H as [local
                   |a n args ds sl sub l ss local ms l' Hp H IH
                   |a n args ds sl sub l ss local ms l' Hp H IH
                   |tc ds ssl sub l ss local ms l' Hc H IH
                   |tc ds ssl sub l ss local ms1 l1 ms2 l2 Hp Ha H1 IH1 H2 IH2
                   |n ds l ss local tc fsels ms l' Ef Hc H IH
                   |n ds l ss local ms l' Ef H IH
                   |n ds l ss local tc fsels ms1 l1 ms2 l2 Ef Hp Hnl Ha H1 IH1 H2 IH2]; intros x Hx;
      try (eapply reach_incl; [|apply IH; exact Hx]; intros y Hy; right; exact Hy).
    - destruct Hx.
    - destruct Hx as [<-|Hx]; [apply R_field; [left; reflexivity|exact Hp]|].
      eapply reach_incl; [|apply IH; exact Hx]. intros y Hy; right; exact Hy.
    - apply in_app_or in Hx as [Hx|Hx].
      + eapply R_inline; [left; reflexivity|exact Hp|apply IH1; exact Hx].
      + eapply reach_incl; [|apply IH2; exact Hx]. intros y Hy; right; exact Hy.
    - apply in_app_or in Hx as [Hx|Hx].
      + eapply R_spread; [left; reflexivity|exact Hp|exact Ef|apply IH1; exact Hx].
      + eapply reach_incl; [|apply IH2; exact Hx]. intros y Hy; right; exact Hy.
  Qed.

  Lemma collect_nodes_reach applies mc cf ss g l :
    collect_into applies frags vs mc cf ss [] [] = Ok (g, l) ->
    forall kv, In kv g -> forall x, In x (snd kv) -> reach ss x.
  Proof.
    intros H kv Hkv x Hx. destruct (collect_into_mflat applies frags vs mc _ _ _ _ _ H) as [ms [Hm Hg]].
    simpl in Hg. rewrite Hg, group_into_spec, spec_groups_unfold in Hkv.
    apply in_map_iff in Hkv as [k [<- _]]. simpl in Hx. apply filter_In in Hx as [Hx _].
    eapply mflat_reach; eassumption.
  Qed.

  Definition exec_term (ss : list selection) : Prop :=
    forall tname v p, ev (fun fuel cfuel => ex cfuel fuel tname v p ss <> OutOfFuel).

  Section Nodes.
    Variable nodes : list selection.
    Hypothesis Hch : exec_term (children_of nodes).

    Lemma complete_named_term n p v :
      ev (fun fuel cfuel => complete_named sch tyres (ex cfuel fuel) nodes n p v <> OutOfFuel).
    Proof.
      unfold complete_named.
      destruct (get_type sch n) as [[fs ifs|fs|ts|vals|k|]|]; try (apply ev_const; intros; discriminate).
      - apply Hch.
      - destruct (resolve_type sch tyres n v) as [rt| | |] eqn:Er; simpl;
          try (apply ev_const; intros; discriminate); [apply Hch|].
        exfalso. unfold resolve_type in Er.
        repeat match type of Er with
               | match ?x with _ => _ end = _ => destruct x; try discriminate
               | (if ?x then _ else _) = _ => destruct x; try discriminate
               end.
      - destruct (resolve_type sch tyres n v) as [rt| | |] eqn:Er; simpl;
          try (apply ev_const; intros; discriminate); [apply Hch|].
        exfalso. unfold resolve_type in Er.
        repeat match type of Er with
               | match ?x with _ => _ end = _ => destruct x; try discriminate
               | (if ?x then _ else _) = _ => destruct x; try discriminate
               end.
      - apply ev_const. intros. destruct (hashable v); [|discriminate].
        destruct (enum_get_name vals v); discriminate.
      - apply ev_const. intros. destruct (serialize_scalar k v); discriminate.
    Qed.

    Lemma complete_items_term (f : nat -> nat -> path -> pv -> result) :
      (forall p x, ev (fun fuel cfuel => f cfuel fuel p x <> OutOfFuel)) ->
      forall items p i, ev (fun fuel cfuel => complete_items (f cfuel fuel) p i items <> OutOfFuel).
    Proof.
      intros Hf. induction items as [|x items IH]; intros p i; simpl.
      - apply ev_const; intros; discriminate.
      - eapply ev_mono; [|apply ev_and; [apply (Hf (p ++ [PIdx i]) x)|apply (IH p (N.succ i))]].
        intros a b [H1 H2]. apply obind_not_oof; [exact H1|]. intros r _.
        apply obind_not_oof; [exact H2|]. intros; discriminate.
    Qed.

    Lemma complete_value_term : forall t p v,
      ev (fun fuel cfuel => complete_value sch tyres (ex cfuel fuel) nodes t p v <> OutOfFuel).
    Proof.
      induction t as [n|t IH|t IH]; intros p v; simpl.
      - destruct v; try apply complete_named_term; apply ev_const; intros; discriminate.
      - assert (Hi : forall items, ev (fun fuel cfuel =>
                  (do r <- complete_items (complete_value sch tyres (ex cfuel fuel) nodes t) p 0%N items;
                   Ok (PList (fst r), snd r)) <> OutOfFuel)).
        { intros items. eapply ev_mono;
            [|apply (complete_items_term (fun cf fu => complete_value sch tyres (ex cf fu) nodes t) IH items p 0%N)].
          intros a b H. apply obind_not_oof; [exact H|]. intros; discriminate. }
        destruct v; simpl; try (apply ev_const; intros; discriminate); apply Hi.
      - eapply ev_mono; [|apply (IH p v)]. intros a b H. apply obind_not_oof; [exact H|].
        intros r _. destruct (fst r); discriminate.
    Qed.

  End Nodes.

  Lemma complete_field_term nodes (Hch : exec_term (children_of nodes)) t p v :
    ev (fun fuel cfuel => complete_field sch tyres (ex cfuel fuel) nodes t p v <> OutOfFuel).
  Proof.
    eapply ev_mono; [|apply (complete_value_term nodes Hch t p v)]. intros a b H. cbv beta in H.
    unfold complete_field.
    match goal with |- context [match ?x with _ => _ end] => destruct x as [c| |k q|k] eqn:E end; try discriminate.
    - exfalso. apply H. reflexivity.
    - destruct (Nat.eqb k REJ_COERCION); discriminate.
  Qed.

  Lemma resolve_field_term nodes (Hch : exec_term (children_of nodes)) tname parent k fd p
        (Hfd : forall node, coerce_args fd node <> OutOfFuel) :
    ev (fun fuel cfuel => resolve_field sch coerce_args world tyres (ex cfuel fuel) tname parent k fd nodes p
                          <> OutOfFuel).
  Proof.
    unfold resolve_field. destruct nodes as [|node rest]; [apply ev_const; intros; discriminate|].
    destruct (coerce_args fd node) as [args| | |] eqn:Ec;
      try (apply ev_const; intros; discriminate); [|exfalso; eapply Hfd; exact Ec].
    destruct k; try (apply ev_const; intros; discriminate).
    - destruct (world p parent tname (f_name fd) args); try (apply ev_const; intros; discriminate);
        apply complete_field_term; exact Hch.
    - apply complete_field_term; exact Hch.
  Qed.

  Lemma exec_groups_term tname parent p : forall g,
    (forall kv, In kv g -> exec_term (children_of (snd kv))) ->
    ev (fun fuel cfuel => exec_groups sch coerce_args world tyres (ex cfuel fuel) tname parent p g <> OutOfFuel).
  Proof.
    induction g as [|[key nodes] g IH]; intros Hg; simpl.
    - apply ev_const; intros; discriminate.
    - pose proof (Hg _ (or_introl eq_refl)) as Hch. simpl in Hch.
      destruct nodes as [|node rest]; [apply ev_const; intros; discriminate|].
      destruct (field_definition sch tname (sel_name node)) as [[[k fd]|]| | |] eqn:Ed; simpl;
        try (apply ev_const; intros; discriminate).
      + eapply ev_mono; [|apply ev_and; [apply (resolve_field_term (node :: rest) Hch tname parent k fd (p ++ [PKey key]) (fun nd => Hco _ _ _ _ nd Ed))
                                        |apply IH; intros kv Hkv; apply Hg; right; exact Hkv]].
        intros a b [H1 H2]. apply obind_not_oof; [exact H1|]. intros r _.
        apply obind_not_oof; [exact H2|]. intros; discriminate.
      + apply IH. intros kv Hkv; apply Hg; right; exact Hkv.
      + exfalso. unfold field_definition in Ed.
        repeat match type of Ed with
               | match ?x with _ => _ end = _ => destruct x; try discriminate
               | (if ?x then _ else _) = _ => destruct x; try discriminate
               end.
  Qed.

  Lemma exec_term_bounded : forall N r ss,
    bounded r ss -> (forall k, path_len ss k -> k <= N) -> exec_term ss.
  Proof.
    induction N as [N IHN] using lt_wf_ind. intros r ss Hb HN tname v p.
    destruct (collect_term (applies sch tname) frags vs true rank Hacyc r ss Hb) as [f1 H1].
    destruct (collect_into (applies sch tname) frags vs true f1 ss [] []) as [[g0 l0]| | |] eqn:Hc0.
    - assert (Hg : forall kv, In kv g0 -> exec_term (children_of (snd kv))).
      { intros kv Hkv. pose proof (collect_nodes_reach _ _ _ _ _ _ Hc0 kv Hkv) as Hr.
        destruct N as [|N'].
        - (* no field path at all: the group cannot have a node with children to execute *)
          intros tn v' p'. destruct (snd kv) as [|x xs] eqn:Ex.
          + exists 1, 1. intros a b Ha Hb'. destruct a as [|a]; [lia|]. destruct b as [|b]; [lia|].
            simpl. unfold collect_for, collect. simpl. discriminate.
          + exfalso. assert (1 <= 0); [|lia]. apply HN. eapply P_step; [apply Hr; left; reflexivity|constructor].
        - apply (IHN N' (Nat.lt_succ_diag_r N') r).
          + eapply bounded_children_of; eassumption.
          + intros k Hk. destruct k as [|k]; [lia|].
            apply path_len_children_of in Hk. destruct Hk as (x & Hx & Hp).
            assert (S (S k) <= S N'); [|lia]. apply HN. eapply P_step; [apply Hr; exact Hx|exact Hp]. }
      destruct (exec_groups_term tname v p g0 Hg) as (F & CF & HF).
      exists (S F), (Nat.max f1 CF). intros fuel cfuel Hfu Hcf.
      destruct fuel as [|fuel]; [lia|]. simpl. unfold collect_for, collect.
      replace cfuel with ((cfuel - f1) + f1) at 1 by lia.
      rewrite cinto_mono; [|rewrite Hc0; discriminate]. rewrite Hc0. simpl.
      apply obind_not_oof; [apply HF; lia|]. intros; discriminate.
    - exfalso. eapply H1; [|exact Hc0]. lia.
    - exists 1, f1. intros fuel cfuel Hfu Hcf. destruct fuel as [|fuel]; [lia|]. simpl. unfold collect_for, collect.
      replace cfuel with ((cfuel - f1) + f1) at 1 by lia.
      rewrite cinto_mono; [|rewrite Hc0; discriminate]. rewrite Hc0. simpl. discriminate.
    - exists 1, f1. intros fuel cfuel Hfu Hcf. destruct fuel as [|fuel]; [lia|]. simpl. unfold collect_for, collect.
      replace cfuel with ((cfuel - f1) + f1) at 1 by lia.
      rewrite cinto_mono; [|rewrite Hc0; discriminate]. rewrite Hc0. simpl. discriminate.
  Qed.

  Theorem exec_terminates_fields ss tname v p :
    exists F CF, forall fuel cfuel, F <= fuel -> CF <= cfuel ->
      exec_sel sch frags vs coerce_args world tyres cfuel fuel tname v p ss <> OutOfFuel.
  Proof.
    destruct (bounded_any frags rank ss) as [r Hb].
    destruct (path_bounded_term frags vs rank Hacyc r ss Hb) as [N HN].
    exact (exec_term_bounded N r ss Hb HN tname v p).
  Qed.
End ExecTerm.

(* the same with the coarser premise "argument coercion never runs out of fuel" *)
Theorem exec_terminates sch frags vs coerce_args world tyres rank :
  acyclic frags rank ->
  (forall fd node, coerce_args fd node <> OutOfFuel) ->
  forall ss tname v p,
    exists F CF, forall fuel cfuel, F <= fuel -> CF <= cfuel ->
      exec_sel sch frags vs coerce_args world tyres cfuel fuel tname v p ss <> OutOfFuel.
Proof.
  intros Hacyc Hco ss tname v p.
  apply (exec_terminates_fields sch frags vs coerce_args world tyres rank Hacyc); intros; apply Hco.
Qed.
