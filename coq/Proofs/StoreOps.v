(* C14 -- proofs about the store model, part 6: the visitors respect
   ownership; clone-based transforms leave the source's objects alone. *)
From PyGql Require Import Spec.StoreSpec Proofs.StoreProofs Proofs.StoreHeal Proofs.StoreLoop
     Proofs.StoreFrame Proofs.StoreClone.
Local Open Scope N_scope.

Section Visitors.
Variable n0 : oid.

Lemma by_name_fr pred : hook_fr n0 (by_name pred).
Proof.
  intros m x m' r Hs Hx H. unfold by_name in H. destruct (oname m x); [|discriminate].
  inversion H; subst. split; [apply fr_refl; exact (proj1 Hs)|].
  intros y Hy. destruct (pred s); inversion Hy; subst; assumption.
Qed.

Lemma above_filter (f : oid -> bool) l : above n0 l -> above n0 (filter f l).
Proof.
  unfold above. intros H. apply Forall_forall. intros x Hx. apply filter_In in Hx.
  rewrite Forall_forall in H. apply H. exact (proj1 Hx).
Qed.

Lemma vis_visitor_fr p : visitor_fr n0 (vis_visitor p).
Proof.
  unfold visitor_fr, vis_visitor; simpl.
  pose proof (hook_fr_hid n0) as Hh.
  assert (Hpre : hook_fr n0 (vis_type_pre p)).
  { intros m x m' r Hs Hx H. unfold vis_type_pre in H.
    destruct (mget m x) as [w|] eqn:Hg; [|discriminate].
    pose proof (proj1 Hs x _ Hx Hg) as Hsub.
    destruct w as [n k d ms ifs rs ds| | | |]; try discriminate. simpl in Hsub. unfold above in Hsub.
    assert (Hw : forall ms', above n0 ms' ->
               fr n0 m (if oids_eqb ms' ms then m else write m x (OType n k d ms' ifs rs ds))).
    { intros ms' Ha. destruct (oids_eqb ms' ms); [apply fr_refl; exact (proj1 Hs)|apply fr_write; assumption]. }
    destruct k; try (inversion H; subst; split; [apply fr_refl; exact (proj1 Hs)|
                                                 intros y Hy; inversion Hy; subst; assumption]).
    - destruct (type_visible p m x); inversion H; subst;
        (split; [first [apply Hw; apply above_filter; assumption|apply fr_refl; exact (proj1 Hs)]|
                 intros y Hy; inversion Hy; subst; assumption]).
    - destruct (type_visible p m x); inversion H; subst;
        (split; [first [apply Hw; apply above_filter; assumption|apply fr_refl; exact (proj1 Hs)]|
                 intros y Hy; inversion Hy; subst; assumption]).
    - inversion H; subst. split; [apply Hw; apply above_filter; assumption|
                                  intros y Hy; inversion Hy; subst; assumption]. }
  assert (Hpost : hook_fr n0 (vis_type_post p)).
  { intros m x m' r Hs Hx H. unfold vis_type_post in H.
    destruct (tkind m x) as [k|]; [|discriminate].
    destruct k; inversion H; subst; (split; [apply fr_refl; exact (proj1 Hs)|]);
      intros y Hy; try (destruct (type_visible p m' x)); inversion Hy; subst; assumption. }
  assert (Hinf : hook_fr n0 (vis_inf_pre p)).
  { intros m x m' r Hs Hx H. unfold vis_inf_pre in H.
    destruct (mget m x) as [[| |? ? ? ty ? ? ?| |]|]; try discriminate.
    inversion H; subst. split; [apply fr_refl; exact (proj1 Hs)|].
    intros y Hy. destruct (type_visible p m' (unwrap ty)); inversion Hy; subst; assumption. }
  pose proof (by_name_fr (vp_arg p)). pose proof (by_name_fr (vp_env p)). pose proof (by_name_fr (vp_dir p)).
  repeat (split; [assumption|]). assumption.
Qed.

Lemma camel_member_fr c : hook_fr n0 (camel_member c).
Proof.
  intros m x m' r Hs Hx H. unfold camel_member in H.
  destruct (mget m x) as [w|] eqn:Hg; [|discriminate].
  pose proof (proj1 Hs x _ Hx Hg) as Hsub.
  destruct w as [|n py ty args d dp rs sb ds|a n py ty df d ds| |]; try discriminate.
  - destruct (fr_alloc n0 m (OField (c n) py ty args d dp rs sb ds) Hs Hsub) as (F & Hn).
    unfold alloc in H, F. simpl in F. inversion H; subst.
    split; [assumption|intros y Hy; inversion Hy; subst; assumption].
  - destruct (fr_alloc n0 m (OInput a (c n) py ty df d ds) Hs Hsub) as (F & Hn).
    unfold alloc in H, F. simpl in F. inversion H; subst.
    split; [assumption|intros y Hy; inversion Hy; subst; assumption].
Qed.

Lemma camel_visitor_fr c : visitor_fr n0 (camel_visitor c).
Proof.
  unfold visitor_fr, camel_visitor; simpl.
  pose proof (hook_fr_hid n0) as Hh. pose proof (camel_member_fr c) as Hc.
  repeat (split; [assumption|]). assumption.
Qed.

(* a schema directive implementation that respects the watermark: it returns
   the element, None, or an element it built from the given one *)
Definition sdimpl_fr (impl : sdimpl) : Prop :=
  forall dn arg m o m' r, st_ok n0 m -> n0 <= o -> impl dn arg m o = (m', r) ->
    fr n0 m m' /\ (forall y, r = Some y -> n0 <= y).

Lemma sd_chain_fr defs impl loc : sdimpl_fr impl ->
  forall ds applied m o m' r, st_ok n0 m -> n0 <= o ->
    sd_chain defs impl loc ds applied m o = Some (m', r) ->
    fr n0 m m' /\ (forall y, r = Some y -> n0 <= y).
Proof.
  intros Hi. induction ds as [|[dn arg] ds IH]; intros applied m o m' r Hs Ho H; simpl in H.
  - inversion H; subst. split; [apply fr_refl; exact (proj1 Hs)|intros y Hy; inversion Hy; subst; assumption].
  - destruct (alookup dn defs) as [locs|]; [|discriminate].
    destruct (negb (mem_str loc locs)); [discriminate|].
    destruct (mem_str dn applied); [discriminate|].
    destruct (impl dn arg m o) as [m1 [o1|]] eqn:E.
    + destruct (Hi _ _ _ _ _ _ Hs Ho E) as (F1 & Y1).
      destruct (IH _ _ _ _ _ (st_ok_fr _ _ _ Hs F1) (Y1 _ eq_refl) H) as (F2 & Y2).
      split; [eapply fr_trans; eauto|assumption].
    + destruct (Hi _ _ _ _ _ _ Hs Ho E) as (F1 & Y1). inversion H; subst.
      split; [assumption|intros y Hy; discriminate].
Qed.

Lemma sd_visitor_fr defs impl : sdimpl_fr impl -> visitor_fr n0 (sd_visitor defs impl).
Proof.
  intros Hi. unfold visitor_fr, sd_visitor; simpl.
  pose proof (hook_fr_hid n0) as Hh.
  assert (Hk : forall loc, hook_fr n0 (sd_hook defs impl loc)).
  { intros loc m x m' r Hs Hx H. unfold sd_hook in H. destruct (loc m x); [|discriminate].
    eapply sd_chain_fr; eauto. }
  repeat (split; [first [apply Hk|assumption]|]). assumption.
Qed.

End Visitors.

(* ------------------------------------------- operations on an owned clone *)
Inductive vop :=
| VVis (p : vis_preds)
| VCamel (c : str -> str)
| VSdir (names : list str) (impl : sdimpl)
| VHeal.

Definition run_vop (fuel : nat) (o : vop) (m : mem) (s : schema) : outcome (mem * schema) :=
  match o with
  | VVis p => on_schema fuel (vis_visitor p) m s
  | VCamel c => on_schema fuel (camel_visitor c) m s
  | VSdir names impl => apply_schema_directives fuel names impl m s
  | VHeal => fix_type_references fuel m s
  end.
Fixpoint run_vops (fuel : nat) (ops : list vop) (m : mem) (s : schema) : outcome (mem * schema) :=
  match ops with
  | [] => Ok (m, s)
  | o :: rest => do r <- run_vop fuel o m s; run_vops fuel rest (fst r) (snd r)
  end.
Definition vop_ok (n0 : oid) (o : vop) : Prop :=
  match o with VSdir _ impl => sdimpl_fr n0 impl | _ => True end.

Lemma run_vop_fr n0 fuel o m s m' s' :
  vop_ok n0 o -> st_ok n0 m -> own_schema n0 s -> run_vop fuel o m s = Ok (m', s') ->
  fr n0 m m' /\ own_schema n0 s'.
Proof.
  intros Hok Hs Hos H. destruct o; simpl in H.
  - eapply on_schema_fr; eauto. apply vis_visitor_fr.
  - eapply on_schema_fr; eauto. apply camel_visitor_fr.
  - unfold apply_schema_directives in H. destruct (sd_defs m s names); [|discriminate].
    eapply on_schema_fr; eauto. apply sd_visitor_fr. exact Hok.
  - eapply fix_type_references_fr; eauto.
Qed.

Lemma run_vops_fr n0 fuel : forall ops m s m' s',
  Forall (vop_ok n0) ops -> st_ok n0 m -> own_schema n0 s -> run_vops fuel ops m s = Ok (m', s') ->
  fr n0 m m' /\ own_schema n0 s'.
Proof.
  induction ops as [|o ops IH]; intros m s m' s' Hok Hs Hos H; simpl in H.
  - inversion H; subst. split; [apply fr_refl; exact (proj1 Hs)|assumption].
  - inversion Hok as [|? ? Ho Hrest]; subst.
    destruct (run_vop fuel o m s) as [[m1 s1]| | |] eqn:E; simpl in H; try discriminate.
    destruct (run_vop_fr _ _ _ _ _ _ _ Ho Hs Hos E) as (F1 & O1).
    destruct (IH _ _ _ _ Hrest (st_ok_fr _ _ _ Hs F1) O1 H) as (F2 & O2).
    split; [eapply fr_trans; eauto|assumption].
Qed.

(* clone, then any sequence of visitor-based operations on the clone *)
Theorem clone_then_ops_frame fuel m s ops m1 c m' c' :
  fresh_ok m -> builtins_ok m -> closed m s -> wf_schema m s -> wf_builtins s ->
  Forall (vop_ok (m_next m)) ops ->
  clone fuel m s = Ok (m1, c) -> run_vops fuel ops m1 c = Ok (m', c') ->
  (forall o, o < m_next m -> mget m' o = mget m o) /\ own_schema (m_next m) c' /\ deep (m_next m) m'.
Proof.
  intros Hf Hb Hcl Hwf Hbi Hok Hc Hops.
  destruct (clone_owned _ _ _ _ _ Hf Hb Hcl Hwf Hbi Hc) as (F1 & O1).
  assert (Hs1 : st_ok (m_next m) m1) by (split; [exact (fr_deep _ _ _ F1)|pose proof (fr_next _ _ _ F1); lia]).
  destruct (run_vops_fr _ _ _ _ _ _ _ Hok Hs1 O1 Hops) as (F2 & O2).
  pose proof (fr_trans _ _ _ _ F1 F2) as F.
  split; [exact (fr_frame _ _ _ F)|]. split; [assumption|exact (fr_deep _ _ _ F)].
Qed.

(* every object the resulting schema reaches for writing was allocated by the
   clone or after it *)
Lemma own_objects_above n0 m s :
  builtins_ok m -> own_schema n0 s -> deep n0 m ->
  forall o, In o (schema_objects m s) -> n0 <= o.
Proof.
  intros Hb [Ho Hd] Hdeep o Hin. unfold schema_objects in Hin. apply filter_In in Hin.
  destruct Hin as [Hin Hnb]. apply negb_true_iff in Hnb.
  apply in_app_or in Hin. destruct Hin as [Hin|Hin].
  - apply in_map_iff in Hin. destruct Hin as ([n t] & <- & Hin). simpl in *.
    destruct (Ho n t Hin) as [Hbt|Ha]; [congruence|assumption].
  - apply in_app_or in Hin. destruct Hin as [Hin|Hin].
    + apply in_flat_map in Hin. destruct Hin as ([n t] & Hin & Hm). simpl in Hm.
      destruct (Ho n t Hin) as [Hbt|Ha].
      * destruct (is_builtin_in t Hbt) as (nb & Hnb'). unfold type_members in Hm.
        rewrite (Hb nb t Hnb') in Hm. destruct Hm.
      * unfold type_members in Hm. destruct (mget m t) as [v|] eqn:Hg; [|destruct Hm].
        pose proof (Hdeep t v Ha Hg) as Hsub. destruct v; try destruct Hm. simpl in Hsub. unfold above in Hsub. unfold above in Hsub.
        rewrite Forall_forall in Hsub. apply in_app_or in Hm. destruct Hm as [Hm|Hm]; [auto|].
        apply in_flat_map in Hm. destruct Hm as (f & Hf & Hm).
        destruct (mget m f) as [w|] eqn:Hgf; [|destruct Hm].
        pose proof (Hdeep f w (Hsub f Hf) Hgf) as Hsubf. destruct w; try destruct Hm. simpl in Hsubf. unfold above in Hsubf. unfold above in Hsubf.
        rewrite Forall_forall in Hsubf. auto.
    + apply in_app_or in Hin. destruct Hin as [Hin|Hin].
      * apply in_map_iff in Hin. destruct Hin as ([n d] & <- & Hin). simpl. eapply Hd; eauto.
      * apply in_flat_map in Hin. destruct Hin as ([n d] & Hin & Hm). simpl in Hm.
        unfold dir_args in Hm. destruct (mget m d) as [v|] eqn:Hg; [|destruct Hm].
        pose proof (Hdeep d v (Hd n d Hin) Hg) as Hsub. destruct v; try destruct Hm. simpl in Hsub. unfold above in Hsub. unfold above in Hsub.
        rewrite Forall_forall in Hsub. auto.
Qed.

(* ------------------------------------------- removed types stay removed *)
Lemma replace_types_keys m : forall ups tm b tm' b',
  replace_types m ups tm b = Ok (tm', b') -> forall k, In k (map fst tm') -> In k (map fst tm).
Proof.
  induction ups as [|[n nw] ups IH]; intros tm b tm' b' H k Hk; simpl in H.
  - inversion H; subst; assumption.
  - destruct (alookup n tm) as [orig|] eqn:Hl; [|eapply IH; eauto].
    destruct (is_builtin orig); [discriminate|]. destruct nw as [o|].
    + destruct (tkind m orig); [|discriminate]. destruct (tkind m o); [|discriminate].
      destruct (kind_eqb k0 k1); [|discriminate].
      pose proof (IH _ _ _ _ H k Hk) as Hk'. rewrite (aset_keys n o orig tm Hl) in Hk'. exact Hk'.
    + pose proof (IH _ _ _ _ H k Hk) as Hk'. eapply adel_keys_in; eauto.
Qed.

Lemma replace_types_removed m : forall ups tm b tm' b' n,
  NoDup (map fst tm) -> NoDup (map fst ups) -> In (n, None) ups ->
  replace_types m ups tm b = Ok (tm', b') -> ~ In n (map fst tm').
Proof.
  induction ups as [|[n1 nw] ups IH]; intros tm b tm' b' n Hnd Hnu Hin H; simpl in H; [destruct Hin|].
  inversion Hnu as [|? ? Hn1 Hnu']; subst. destruct Hin as [Heq|Hin].
  - inversion Heq; subst n1 nw. destruct (alookup n tm) as [orig|] eqn:Hl.
    + destruct (is_builtin orig); [discriminate|].
      intros Hk. apply (replace_types_keys _ _ _ _ _ _ H) in Hk. exact (adel_key_gone n tm Hnd Hk).
    + intros Hk. apply (replace_types_keys _ _ _ _ _ _ H) in Hk. exact (alookup_none_key n tm Hl Hk).
  - destruct (alookup n1 tm) as [orig|] eqn:Hl; [|eapply IH; eauto].
    destruct (is_builtin orig); [discriminate|]. destruct nw as [o|].
    + destruct (tkind m orig); [|discriminate]. destruct (tkind m o); [|discriminate].
      destruct (kind_eqb k k0); [|discriminate]. eapply IH; [apply aset_nodup; exact Hnd|exact Hnu'|exact Hin|exact H].
    + eapply IH; [apply adel_nodup; exact Hnd|exact Hnu'|exact Hin|exact H].
Qed.

Lemma replace_and_heal_ok_rt fuel m s tu du r :
  replace_and_heal fuel m s tu du = Ok r ->
  exists tm1 b, replace_types m tu (s_types s) false = Ok (tm1, b).
Proof.
  destruct fuel as [|fuel]; simpl; [discriminate|].
  destruct (replace_types m tu (s_types s) false) as [[tm1 b]| | |]; simpl; try discriminate.
  intros _. exists tm1, b. reflexivity.
Qed.

Lemma replace_and_heal_keys : forall fuel m s tu du m' s' tm1 b,
  replace_types m tu (s_types s) false = Ok (tm1, b) ->
  replace_and_heal fuel m s tu du = Ok (m', s') ->
  forall k, In k (map fst (s_types s')) -> In k (map fst tm1).
Proof.
  induction fuel as [|fuel IH]; intros m s tu du m' s' tm1 b Hrt H k Hk; [simpl in H; discriminate|].
  rewrite replace_and_heal_S in H. rewrite Hrt in H. simpl in H.
  destruct (replace_dirs du (s_dirs s)) as [dm| | |]; simpl in H; try discriminate.
  destruct b; [|inversion H; subst; exact Hk].
  match type of H with context [heal_from fuel m ?s1] =>
    destruct (heal_from fuel m s1) as [[m2 s2]| | |] eqn:Hh; simpl in H; try discriminate;
    unfold heal_from in Hh;
    destruct (traverse (heal_visitor (s_types s1)) m s1) as [[[m1 tu1] du1]|]; [|discriminate];
    destruct (replace_and_heal_ok_rt _ _ _ _ _ _ Hh) as (tm2 & b2 & Hrt2);
    pose proof (IH _ _ _ _ _ _ _ _ Hrt2 Hh) as Hsub;
    pose proof (replace_types_keys _ _ _ _ _ _ Hrt2) as Hsub2
  end.
  inversion H; subst. simpl in Hk. simpl in Hsub2. apply Hsub2. apply Hsub. exact Hk.
Qed.

(* whatever the healing loop does afterwards, a type for which the visitor
   returned None is not registered in the resulting schema *)
Theorem removed_stays_removed fuel m s tu du m' s' n :
  NoDup (map fst (s_types s)) -> NoDup (map fst tu) -> In (n, None) tu ->
  replace_and_heal fuel m s tu du = Ok (m', s') -> ~ In n (map fst (s_types s')).
Proof.
  intros Hnd Hnu Hin H Hk.
  destruct (replace_and_heal_ok_rt _ _ _ _ _ _ H) as (tm1 & b & Hrt).
  apply (replace_and_heal_keys _ _ _ _ _ _ _ _ _ Hrt H) in Hk.
  eapply replace_types_removed; eauto.
Qed.
