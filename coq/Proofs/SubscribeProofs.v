(* Proofs for C17. *)
From PyGql Require Import Base.Str Exec.SubscribeModel Spec.SubscribeSpec.

Section SubscribeProofs.
  Variables (cache event data err : Type).
  Variable run : cache -> event -> cache * data * list err.
  Variable c_fresh : cache.

  (* "only memoised pure facts survive between events": the caches reachable
     during a subscription satisfy an invariant under which an execution
     returns the same data and registers the same errors as with empty caches *)
  Variable cache_inv : cache -> Prop.
  Hypothesis run_keeps_inv : forall c e, cache_inv c -> cache_inv (fst (fst (run c e))).
  Hypothesis run_cache_independent : forall c e, cache_inv c ->
    snd (fst (run c e)) = snd (fst (run c_fresh e)) /\ snd (run c e) = snd (run c_fresh e).

  Notation on_event := (on_event cache event data err run).
  Notation drain_src := (drain_src cache event data err run).
  Notation drain := (drain cache event data err run).
  Notation anext := (anext cache event data err run).
  Notation spec_result := (spec_result cache event data err run c_fresh).

  Lemma on_event_spec x e :
    cache_inv (es_cache x) ->
    cache_inv (es_cache (fst (on_event x e))) /\ snd (on_event x e) = spec_result e.
  Proof.
    intros Hinv. unfold SubscribeModel.on_event, exec_event, clear_errors, SubscribeSpec.spec_result.
    cbn [es_cache es_errors].
    pose proof (run_keeps_inv (es_cache x) e Hinv) as Hk.
    destruct (run_cache_independent (es_cache x) e Hinv) as [Hd He].
    destruct (run (es_cache x) e) as [[c' d] new]. destruct (run c_fresh e) as [[c0 d0] new0].
    cbn in *. subst. split; [assumption|reflexivity].
  Qed.

  Lemma drain_src_spec : forall src x k tr,
    cache_inv (es_cache x) ->
    let '(s', rs) := drain_src x src k tr in
    rs = map spec_result src /\
    ss_source s' = [] /\ ss_consumed s' = k + length src /\
    ss_trace s' = tr ++ flat_map (fun j => [Pulled j; Emitted j]) (seq k (length src)) ++ [Ended] /\
    cache_inv (es_cache (ss_exec s')).
  Proof.
    induction src as [|e src IH]; intros x k tr Hinv.
    - cbn. repeat split; try reflexivity; [lia|assumption].
    - cbn [SubscribeModel.drain_src].
      destruct (on_event_spec x e Hinv) as [Hinv' Hr].
      destruct (on_event x e) as [x' r]. cbn [fst snd] in Hinv', Hr.
      specialize (IH x' (S k) (tr ++ [Pulled k; Emitted k]) Hinv').
      destruct (drain_src x' src (S k) (tr ++ [Pulled k; Emitted k])) as [s' rs].
      destruct IH as (Hrs & Hsrc & Hc & Ht & Hi).
      repeat split.
      + cbn [map]. rewrite Hr, Hrs. reflexivity.
      + exact Hsrc.
      + rewrite Hc. cbn [length]. lia.
      + rewrite Ht. cbn [length seq flat_map]. rewrite <- !app_assoc. reflexivity.
      + exact Hi.
  Qed.

  Lemma drain_anext s :
    drain s = match anext s with
              | (s', Some r) => let '(s'', rs) := drain s' in (s'', r :: rs)
              | (s', None) => (s', [])
              end.
  Proof.
    unfold SubscribeModel.drain, SubscribeModel.anext. destruct s as [x src k tr]. cbn [ss_exec ss_source ss_consumed ss_trace].
    destruct src as [|e rest]; [reflexivity|].
    cbn [SubscribeModel.drain_src]. destruct (on_event x e) as [x' r]. reflexivity.
  Qed.

  Lemma anext_none_iff s : snd (anext s) = None <-> ss_source s = [].
  Proof.
    unfold SubscribeModel.anext. destruct (ss_source s) as [|e rest].
    - split; reflexivity.
    - destruct (on_event (ss_exec s) e). cbn. split; discriminate.
  Qed.

  (* any history of __anext__ calls of a sequential consumer: after j calls the
     consumer holds exactly the first j specified results (then only "ended"
     answers), the source has delivered exactly min j n items -- nothing is
     read ahead, nothing is skipped -- and the rest of the source is intact *)
  Lemma pulls_spec : forall j (s : sub_state cache event err),
    cache_inv (es_cache (ss_exec s)) ->
    let n := length (ss_source s) in
    snd (pulls cache event data err run j s) =
      map Some (firstn j (map spec_result (ss_source s))) ++ repeat None (j - n) /\
    ss_source (fst (pulls cache event data err run j s)) = skipn j (ss_source s) /\
    ss_consumed (fst (pulls cache event data err run j s)) = ss_consumed s + Nat.min j n /\
    cache_inv (es_cache (ss_exec (fst (pulls cache event data err run j s)))).
  Proof.
    induction j as [|j IH]; intros s Hinv.
    - cbn. repeat split; [lia|exact Hinv].
    - cbn [SubscribeModel.pulls]. unfold SubscribeModel.anext.
      destruct s as [x src k tr]. cbn [ss_exec ss_source ss_consumed ss_trace] in *.
      destruct src as [|e rest].
      + specialize (IH (SubState x [] k (tr ++ [Ended])) Hinv).
        cbn [ss_exec ss_source ss_consumed ss_trace length] in IH.
        destruct (pulls cache event data err run j (SubState x [] k (tr ++ [Ended]))) as [s2 rs].
        cbn [fst snd] in *. destruct IH as (Hr & Hs & Hc & Hi).
        cbn [length]. repeat split.
        * rewrite Hr. cbn [map]. rewrite firstn_nil. cbn. rewrite Nat.sub_0_r. destruct j; reflexivity.
        * rewrite Hs. destruct j; reflexivity.
        * rewrite Hc. rewrite !Nat.min_0_r. reflexivity.
        * exact Hi.
      + destruct (on_event_spec x e Hinv) as [Hinv' Hr0].
        destruct (on_event x e) as [x' r]. cbn [fst snd] in Hinv', Hr0.
        specialize (IH (SubState x' rest (S k) (tr ++ [Pulled k; Emitted k])) Hinv').
        cbn [ss_exec ss_source ss_consumed ss_trace] in IH.
        destruct (pulls cache event data err run j (SubState x' rest (S k) (tr ++ [Pulled k; Emitted k]))) as [s2 rs].
        cbn [fst snd] in *. destruct IH as (Hr & Hs & Hc & Hi).
        cbn [length]. repeat split.
        * rewrite Hr, Hr0. reflexivity.
        * rewrite Hs. reflexivity.
        * rewrite Hc. cbn [Nat.min]. lia.
        * exact Hi.
  Qed.

  Theorem stream_spec s :
    cache_inv (es_cache (ss_exec s)) ->
    snd (drain s) = spec_stream cache event data err run c_fresh (ss_source s).
  Proof.
    intros Hinv. unfold SubscribeModel.drain.
    pose proof (drain_src_spec (ss_source s) (ss_exec s) (ss_consumed s) (ss_trace s) Hinv) as H.
    destruct (drain_src (ss_exec s) (ss_source s) (ss_consumed s) (ss_trace s)) as [s' rs].
    cbn. apply H.
  Qed.

  Theorem length_order s :
    cache_inv (es_cache (ss_exec s)) ->
    length (snd (drain s)) = length (ss_source s) /\
    forall k e, nth_error (ss_source s) k = Some e ->
      exists r, nth_error (snd (drain s)) k = Some r /\ fst r = fst (spec_result e).
  Proof.
    intros Hinv. rewrite (stream_spec s Hinv). unfold spec_stream. split.
    - apply map_length.
    - intros k e Hk. exists (spec_result e). split; [|reflexivity].
      apply map_nth_error. exact Hk.
  Qed.

  Theorem isolation s :
    cache_inv (es_cache (ss_exec s)) ->
    forall k e r, nth_error (ss_source s) k = Some e ->
      nth_error (snd (drain s)) k = Some r ->
      snd r = snd (spec_result e).
  Proof.
    intros Hinv k e r Hk Hr. rewrite (stream_spec s Hinv) in Hr. unfold spec_stream in Hr.
    rewrite (map_nth_error _ _ _ Hk) in Hr. inversion Hr. reflexivity.
  Qed.

  Theorem ends s :
    cache_inv (es_cache (ss_exec s)) ->
    let s' := fst (drain s) in
    ss_source s' = [] /\
    ss_consumed s' = ss_consumed s + length (ss_source s) /\
    snd (anext s') = None /\
    (forall t, snd (anext t) = None <-> ss_source t = []).
  Proof.
    intros Hinv. unfold SubscribeModel.drain.
    pose proof (drain_src_spec (ss_source s) (ss_exec s) (ss_consumed s) (ss_trace s) Hinv) as H.
    destruct (drain_src (ss_exec s) (ss_source s) (ss_consumed s) (ss_trace s)) as [s' rs].
    cbn. destruct H as (_ & Hsrc & Hc & _ & _).
    repeat split; try assumption.
    - apply anext_none_iff. exact Hsrc.
    - apply anext_none_iff.
    - apply anext_none_iff.
  Qed.

  Theorem sequential_pull s :
    cache_inv (es_cache (ss_exec s)) -> ss_consumed s = 0 -> ss_trace s = [] ->
    ss_trace (fst (drain s)) = spec_trace (length (ss_source s)).
  Proof.
    intros Hinv Hc Ht. unfold SubscribeModel.drain.
    pose proof (drain_src_spec (ss_source s) (ss_exec s) (ss_consumed s) (ss_trace s) Hinv) as H.
    destruct (drain_src (ss_exec s) (ss_source s) (ss_consumed s) (ss_trace s)) as [s' rs].
    cbn. destruct H as (_ & _ & _ & Htr & _). rewrite Htr, Ht, Hc. reflexivity.
  Qed.

  (* in the specified trace, item k+1 is requested strictly after result k *)
  Lemma spec_trace_order n k :
    S k < n ->
    exists pre mid post, spec_trace n = pre ++ Emitted k :: mid ++ Pulled (S k) :: post.
  Proof.
    intros Hk. unfold spec_trace.
    assert (E : seq 0 n = seq 0 k ++ [k; S k] ++ seq (S (S k)) (n - S (S k))).
    { replace n with (k + S (S (n - S (S k)))) at 1 by lia.
      rewrite seq_app. simpl. reflexivity. }
    rewrite E. rewrite !flat_map_app. cbn [flat_map app].
    exists (flat_map (fun j => [Pulled j; Emitted j]) (seq 0 k) ++ [Pulled k]), [].
    eexists. rewrite <- !app_assoc. cbn [app]. reflexivity.
  Qed.

  Variable c_created : cache.
  Notation subscribe := (subscribe cache event err c_created).

  Theorem refusals q events :
    forall r called consumed, subscribe q events = (Refused r, called, consumed) ->
      called = false /\ consumed = 0 /\ refusal_class r = documented_class r /\
      match r with
      | RefInvalidOperation => sq_operation_found q = false
      | RefVariables => sq_variables_ok q = false
      | RefNotSubscription => sq_is_subscription q = false
      | RefRuntime => sq_runtime_streams q = false
      | RefDirectiveArguments => sq_root_collect_ok q = false
      | RefFieldCount => sq_root_fields q <> 1
      | RefNoFieldDef => sq_field_defined q = false
      | RefNoResolver => sq_has_subscription_resolver q = false
      end.
  Proof.
    intros r called consumed. unfold SubscribeModel.subscribe.
    destruct (sq_operation_found q) eqn:E1; cbn [negb].
    2:{ intros H; inversion H; subst. repeat split; reflexivity. }
    destruct (sq_variables_ok q) eqn:E2; cbn [negb].
    2:{ intros H; inversion H; subst. repeat split; reflexivity. }
    destruct (sq_is_subscription q) eqn:E3; cbn [negb].
    2:{ intros H; inversion H; subst. repeat split; reflexivity. }
    destruct (sq_runtime_streams q) eqn:E4; cbn [negb].
    2:{ intros H; inversion H; subst. repeat split; reflexivity. }
    destruct (sq_root_collect_ok q) eqn:E4b; cbn [negb].
    2:{ intros H; inversion H; subst. repeat split; reflexivity. }
    destruct (sq_root_fields q =? 1) eqn:E5; cbn [negb].
    2:{ intros H; inversion H; subst. repeat split; try reflexivity. apply Nat.eqb_neq. exact E5. }
    destruct (sq_field_defined q) eqn:E6; cbn [negb].
    2:{ intros H; inversion H; subst. repeat split; reflexivity. }
    destruct (sq_has_subscription_resolver q) eqn:E7; cbn [negb].
    2:{ intros H; inversion H; subst. repeat split; reflexivity. }
    intros H; inversion H.
  Qed.

  (* each of the four conditions named by the property refuses *)
  Theorem refusal_conditions q events :
    sq_operation_found q = true -> sq_variables_ok q = true ->
    (sq_is_subscription q = false ->
       subscribe q events = (Refused RefNotSubscription, false, 0)) /\
    (sq_is_subscription q = true -> sq_runtime_streams q = false ->
       subscribe q events = (Refused RefRuntime, false, 0)) /\
    (sq_is_subscription q = true -> sq_runtime_streams q = true -> sq_root_collect_ok q = false ->
       subscribe q events = (Refused RefDirectiveArguments, false, 0)) /\
    (sq_is_subscription q = true -> sq_runtime_streams q = true -> sq_root_collect_ok q = true ->
     sq_root_fields q <> 1 ->
       subscribe q events = (Refused RefFieldCount, false, 0)) /\
    (sq_is_subscription q = true -> sq_runtime_streams q = true -> sq_root_collect_ok q = true ->
     sq_root_fields q = 1 -> sq_field_defined q = true -> sq_has_subscription_resolver q = false ->
       subscribe q events = (Refused RefNoResolver, false, 0)) /\
    (sq_is_subscription q = true -> sq_runtime_streams q = true -> sq_root_collect_ok q = true ->
     sq_root_fields q = 1 -> sq_field_defined q = true -> sq_has_subscription_resolver q = true ->
       subscribe q events = (Started (SubState (ExecState c_created []) events 0 []), true, 0)).
  Proof.
    intros H1 H2. unfold SubscribeModel.subscribe. rewrite H1, H2. cbn [negb].
    repeat split.
    - intros ->. reflexivity.
    - intros -> ->. reflexivity.
    - intros -> -> ->. reflexivity.
    - intros -> -> -> Hn. apply Nat.eqb_neq in Hn. rewrite Hn. reflexivity.
    - intros -> -> -> -> -> ->. reflexivity.
    - intros -> -> -> -> -> ->. reflexivity.
  Qed.
End SubscribeProofs.

(* clearing matters: with an executor that registers one error per event and
   no clear_errors step, the second result carries the first event's error *)
Example isolation_needs_clear_errors :
  let run (c : unit) (e : nat) := (c, e, [e]) in
  let x0 := ExecState tt [] in
  let '(x1, r1) := on_event_noclear unit nat nat nat run x0 1 in
  let '(_, r2) := on_event_noclear unit nat nat nat run x1 2 in
  let '(y1, q1) := on_event unit nat nat nat run x0 1 in
  let '(_, q2) := on_event unit nat nat nat run y1 2 in
  r2 = (2, [1; 2]) /\ q2 = (2, [2]).
Proof. split; reflexivity. Qed.

(* ---- streams containing events whose execution aborts *)
Section SubscribeAborts.
  Variables (cache event tree err : Type).
  (* data = None: a non-field exception left execute_fields after the listed
     errors had been registered *)
  Variable run : cache -> event -> cache * option tree * list err.
  Variable c_fresh : cache.
  Variable cache_inv : cache -> Prop.
  Hypothesis run_keeps_inv : forall c e, cache_inv c -> cache_inv (fst (fst (run c e))).
  Hypothesis run_cache_independent : forall c e, cache_inv c ->
    snd (fst (run c e)) = snd (fst (run c_fresh e)) /\ snd (run c e) = snd (run c_fresh e).

  Theorem isolation_with_aborts (s : sub_state cache event err) :
    cache_inv (es_cache (ss_exec s)) ->
    map (observe err) (snd (drain cache event (option tree) err run s)) =
    map (fun e => observe err (spec_result cache event (option tree) err run c_fresh e)) (ss_source s) /\
    forall k e d es,
      nth_error (ss_source s) k = Some e ->
      spec_result cache event (option tree) err run c_fresh e = (Some d, es) ->
      nth_error (snd (drain cache event (option tree) err run s)) k = Some (Some d, es).
  Proof.
    intros Hinv.
    pose proof (stream_spec cache event (option tree) err run c_fresh cache_inv
                            run_keeps_inv run_cache_independent s Hinv) as Hs.
    rewrite Hs. unfold spec_stream. split; [apply map_map|].
    intros k e d es Hk He. rewrite (map_nth_error _ _ _ Hk), He. reflexivity.
  Qed.
End SubscribeAborts.

(* clearing when the event STARTS is what makes this true: a variant that
   clears in the completion callback leaks the errors an aborted event had
   registered into the next result *)
Example clear_at_end_leaks_after_abort :
  let run (c : unit) (e : nat) := (c, (if e =? 1 then None else Some e), [e]) in
  let completed (d : option nat) := match d with Some _ => true | None => false end in
  let x0 := ExecState tt [] in
  let '(x1, r1) := on_event_clear_at_end unit nat (option nat) nat run completed x0 1 in
  let '(_, r2) := on_event_clear_at_end unit nat (option nat) nat run completed x1 2 in
  let '(y1, q1) := on_event unit nat (option nat) nat run x0 1 in
  let '(_, q2) := on_event unit nat (option nat) nat run y1 2 in
  r1 = (None, [1]) /\ r2 = (Some 2, [1; 2]) /\ q1 = (None, [1]) /\ q2 = (Some 2, [2]).
Proof. repeat split; reflexivity. Qed.
