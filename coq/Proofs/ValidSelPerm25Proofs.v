(* Reordering selections and arguments keeps the verdict of ValuesOfCorrectType
   and VariablesInAllowedPosition too: with ValidSelPermAllProofs, of all 25
   rules other than OverlappingFieldsCanBeMerged. *)
From PyGql Require Import Valid.ValidOverlap Spec.ValidSpec Spec.ValidLocalSpec Spec.ValidValueSpec Spec.ValidTypedSpec
     Proofs.ValidCloseProofs Proofs.ValidVarProofs Proofs.ValidVerdictProofs
     Proofs.ValidSelPermProofs Proofs.ValidSelPermAllProofs Proofs.ValidVerdict25Proofs.
From Coq Require Import Permutation.

Lemma args_coercible_perm s defs a a' : Permutation a a' -> args_coercible s defs a -> args_coercible s defs a'.
Proof. intros Hp H x ad Hx. apply H. eapply Permutation_in; [symmetry; exact Hp|exact Hx]. Qed.

Lemma spec22_doc_perm s d d' : doc_perm d d' -> spec_values_of_correct_type s d -> spec_values_of_correct_type s d'.
Proof.
  intros Hdp (Ha & Hb & Hc). pose proof (doc_perm_sym _ _ Hdp) as Hdp'. split; [|split].
  - intros p a n args' dirs sl sub l f Hr Hf. destruct (reaches_perm s d' d _ _ Hdp' Hr) as [z [Hr0 Hz]].
    inversion Hz; subst. eapply args_coercible_perm; [symmetry; eassumption|]. eapply Ha; eassumption.
  - intros w dr' dd Hat Hdd. destruct (directive_at_perm s d' d w dr' Hdp' Hat) as [dr [Hat0 Hp]].
    destruct Hp as [n args args' l Hp]. simpl in *. eapply args_coercible_perm; [symmetry; exact Hp|].
    apply (Hb w _ dd Hat0). exact Hdd.
  - intros df' vd v t Hdf' Hvd. destruct (Forall2_In_r _ _ _ _ Hdp Hdf') as [df [Hdf Hr]].
    apply (Hc df vd v t Hdf). destruct Hr; exact Hvd.
Qed.

Lemma args_var_at_perm s defs a a' x it hd : Permutation a a' -> args_var_at s defs a x it hd -> args_var_at s defs a' x it hd.
Proof. intros Hp (u & ad & Hu & H). exists u, ad. split; [eapply Permutation_in; eassumption|exact H]. Qed.

Lemma reaches_in_perm s df df' q z : def_perm df df' -> reaches_in s df q z -> exists z', reaches_in s df' q z' /\ sel_perm z z'.
Proof.
  intros Hr (x & Hx & Hd). destruct (def_sels_perm df df' Hr) as [m [HF HP]].
  destruct (sub_member _ _ _ _ HF HP Hx) as [x' [Hx' Hxp]].
  destruct (descends_perm _ _ _ _ _ Hd x' Hxp) as [z' [Hd' Hz]].
  exists z'. split; [|exact Hz]. exists x'. split; [exact Hx'|]. rewrite <- (def_perm_parent s df df' Hr). exact Hd'.
Qed.

Lemma directive_in_perm s df df' dr : def_perm df df' -> directive_in s df dr -> exists dr', directive_in s df' dr' /\ dir_perm dr dr'.
Proof.
  intros Hr [(q & z & Hrch & Hdr)|Hdr].
  - destruct (reaches_in_perm s df df' q z Hr Hrch) as [z' [Hr' Hz]]. destruct (sel_perm_node z z' Hz) as [HF _].
    destruct (dirs_member _ _ _ HF Hdr) as [dr' [Hdr' Hp]]. exists dr'. split; [|exact Hp]. left. exists q, z'. tauto.
  - destruct (def_perm_dirs df df' Hr) as [HF _]. destruct (dirs_member _ _ _ HF Hdr) as [dr' [Hdr' Hp]].
    exists dr'. split; [|exact Hp]. right. exact Hdr'.
Qed.

Lemma def_var_at_perm s df df' x it hd : def_perm df df' -> def_var_at s df x it hd -> def_var_at s df' x it hd.
Proof.
  intros Hr [(p & a & n & args & dirs & sl & sub & l & f & Hrch & Hf & Hat)|(dr & dd & Hdr & Hdd & Hat)].
  - destruct (reaches_in_perm s df df' _ _ Hr Hrch) as [z' [Hr' Hz]]. inversion Hz; subst.
    left. do 9 eexists. split; [exact Hr'|]. split; [exact Hf|]. eapply args_var_at_perm; eassumption.
  - destruct (directive_in_perm s df df' dr Hr Hdr) as [dr' [Hdr' Hp]]. destruct Hp as [n args args' l Hp]. simpl in *.
    right. exists (Dir n args' l), dd. split; [exact Hdr'|]. split; [exact Hdd|]. eapply args_var_at_perm; eassumption.
Qed.

Lemma fragment_named_perm df df' f : def_perm df df' -> fragment_named df f -> fragment_named df' f.
Proof. intros H. destruct H; simpl; tauto. Qed.

Lemma op_var_at_perm s d d' op op' x it hd : doc_perm d d' -> def_perm op op' ->
  op_var_at s d op x it hd -> op_var_at s d' op' x it hd.
Proof.
  intros Hdp Hr [Hat|(f & df & Hfr & Hdf & Hnamed & Hat)].
  - left. eapply def_var_at_perm; eassumption.
  - right. destruct (Forall2_In_l _ _ _ _ Hdp Hdf) as [df' [Hdf' Hrd]]. exists f, df'.
    split; [apply (frag_reach_perm d d' Hdp _ _ f (def_sels_perm _ _ Hr)); exact Hfr|].
    split; [exact Hdf'|]. split; [eapply fragment_named_perm; eassumption|eapply def_var_at_perm; eassumption].
Qed.

Lemma spec24_doc_perm s d d' : doc_perm d d' ->
  spec_variables_in_allowed_position s d -> spec_variables_in_allowed_position s d'.
Proof.
  intros Hdp H op' x it hd vd Hop' Hisop Hat Hvd Hname. pose proof (doc_perm_sym _ _ Hdp) as Hdp'.
  destruct (Forall2_In_r _ _ _ _ Hdp Hop') as [op [Hop Hr]].
  pose proof (op_var_at_perm s d' d op' op x it hd Hdp' (def_perm_sym _ _ Hr) Hat) as Hat0.
  apply (H op x it hd vd Hop); [destruct Hr; exact Hisop|exact Hat0|destruct Hr; exact Hvd|exact Hname].
Qed.

Lemma wf_var_types_doc_perm s d d' : doc_perm d d' -> wf_var_types s d -> wf_var_types s d'.
Proof.
  intros Hdp H df' vd t Hdf' Hvd. destruct (Forall2_In_r _ _ _ _ Hdp Hdf') as [df [Hdf Hr]].
  apply (H df vd t Hdf). destruct Hr; exact Hvd.
Qed.

Theorem perm_selections_arguments25 fuel s d d' :
  wf_inputs s -> wf_arg_types s -> wf_var_types s d ->
  doc_perm d d' ->
  (validate_rules fuel s d rules_but_overlap = Ok [] <-> validate_rules fuel s d' rules_but_overlap = Ok []).
Proof.
  intros Hwi Hwa Hwv Hdp. pose proof (doc_perm_sym _ _ Hdp) as Hdp'.
  rewrite (verdict25 fuel s d Hwi Hwa Hwv), (verdict25 fuel s d' Hwi Hwa (wf_var_types_doc_perm s d d' Hdp Hwv)).
  unfold valid_spec25. split; intros (H1 & H2 & H3); (split; [|split]).
  - eapply valid_spec_doc_perm; eassumption.
  - eapply spec22_doc_perm; eassumption.
  - eapply spec24_doc_perm; eassumption.
  - eapply valid_spec_doc_perm; eassumption.
  - eapply spec22_doc_perm; eassumption.
  - eapply spec24_doc_perm; eassumption.
Qed.
