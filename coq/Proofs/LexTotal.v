(* The lexer model is total: every sub-lexer consumes a prefix of its input,
   positions are conserved, errors lie inside the text (except the truncated
   escape), and [lex_fuel] is enough. *)
From PyGql Require Import Lang.Lexer Spec.LexSpec Proofs.LexProofs.
Local Open Scope N_scope.

(* the text ends inside an escape sequence of a quoted string:
   ... BACKSLASH  or  ... BACKSLASH u h{0,3}  *)
Definition trunc_esc (s : str) : Prop :=
  exists pre tl, s = pre ++ 92 :: tl /\
    (tl = [] \/ exists hs, tl = 117 :: hs /\ (length hs < 4)%nat /\ forallb is_hex hs = true).

Lemma trunc_esc_prefix pre s : trunc_esc s -> trunc_esc (pre ++ s).
Proof.
  intros (p & tl & -> & H). exists (pre ++ p), tl. rewrite app_assoc. auto.
Qed.

(* error position inside [0, hi], or the truncated-escape exception *)
Definition err_ok (hi : nat) (T : Prop) (k p : nat) : Prop :=
  (p <= hi)%nat \/ (p = S hi /\ k = E_NonTerminatedString /\ T).

Lemma err_ok_le hi T k p : (p <= hi)%nat -> err_ok hi T k p.
Proof. left; assumption. Qed.

(* ---- white space ---- *)
Lemma skip_ws_spec : forall rest ic pos r p, skip_ws ic rest pos = (r, p) ->
  exists c, rest = c ++ r /\ p = (pos + length c)%nat.
Proof.
  induction rest as [|c rest IH]; intros ic pos r p H; simpl in H.
  - inversion H; subst. exists []. split; [reflexivity|simpl; lia].
  - destruct (ic && is_comment_char c).
    { apply IH in H. destruct H as (c' & -> & ->). exists (c :: c'). split; [reflexivity|simpl; lia]. }
    destruct (is_ignored c).
    { apply IH in H. destruct H as (c' & -> & ->). exists (c :: c'). split; [reflexivity|simpl; lia]. }
    destruct (c =? 35).
    { apply IH in H. destruct H as (c' & -> & ->). exists (c :: c'). split; [reflexivity|simpl; lia]. }
    inversion H; subst. exists []. split; [reflexivity|simpl; lia].
Qed.

(* ---- ellipsis ---- *)
Lemma read_ellipsis_spec rest pos :
  match read_ellipsis rest pos with
  | Ok (t, r') => exists c, rest = c ++ r' /\ c <> [] /\ tstart t = pos /\ tend t = (pos + length c)%nat
                            /\ tk t <> KEOF
  | Rejected k p => (p <= pos + length rest)%nat
  | _ => False
  end.
Proof.
  unfold read_ellipsis. destruct rest as [|c1 [|c2 [|c3 r]]]; simpl; try lia;
  repeat match goal with |- context [negb (?x =? 46)] => destruct (x =? 46); simpl; try lia end.
  exists [c1; c2; c3]. repeat split; try discriminate.
Qed.

(* ---- quoted strings ---- *)
Lemma read_string_err : forall n rest pos acc k p, (length rest <= n)%nat ->
  read_string rest pos acc = Rejected k p ->
  err_ok (pos + length rest) (trunc_esc rest) k p.
Proof.
  induction n as [|n IH]; intros rest pos acc k p Hn H.
  - destruct rest; [|simpl in Hn; lia]. simpl in H. inversion H; subst. left; simpl; lia.
  - destruct rest as [|c r]; [simpl in H; inversion H; subst; left; simpl; lia|].
    simpl in Hn. simpl in H.
    assert (Hrec : forall r' pos' acc' (pre : str), (length r' <= n)%nat -> c :: r = pre ++ r' ->
               (pos' + length r' = pos + length (c :: r))%nat ->
               read_string r' pos' acc' = Rejected k p ->
               err_ok (pos + length (c :: r)) (trunc_esc (c :: r)) k p).
    { intros r' pos' acc' pre Hl He Hp Hr. apply IH in Hr; [|assumption].
      destruct Hr as [Hr|(-> & -> & Ht)]; [left; lia|right].
      repeat split; [lia|]. rewrite He. apply trunc_esc_prefix; assumption. }
    destruct (c =? 34); [discriminate|].
    destruct (N.eqb_spec c 92) as [->|Hb].
    { destruct r as [|x r2].
      { inversion H; subst. right. repeat split; [simpl; lia|]. exists [], []. auto. }
      simpl in Hn. destruct (quoted_char x).
      { eapply (Hrec r2 _ _ [92; x]); try eassumption; simpl; lia || reflexivity. }
      destruct (N.eqb_spec x 117) as [->|]; simpl in H; [|inversion H; subst; left; simpl; lia].
      destruct r2 as [|h1 r3].
      { inversion H; subst. right. repeat split; [simpl; lia|]. exists [], [117]. split; [reflexivity|].
        right. exists []. repeat split; simpl; lia || reflexivity. }
      destruct (is_hex h1) eqn:E1; simpl in H; [|inversion H; subst; left; simpl; lia].
      destruct r3 as [|h2 r4].
      { inversion H; subst. right. repeat split; [simpl; lia|]. exists [], [117; h1]. split; [reflexivity|].
        right. exists [h1]. repeat split; simpl; try lia. rewrite E1; reflexivity. }
      destruct (is_hex h2) eqn:E2; simpl in H; [|inversion H; subst; left; simpl; lia].
      destruct r4 as [|h3 r5].
      { inversion H; subst. right. repeat split; [simpl; lia|]. exists [], [117; h1; h2]. split; [reflexivity|].
        right. exists [h1; h2]. repeat split; simpl; try lia. rewrite E1, E2; reflexivity. }
      destruct (is_hex h3) eqn:E3; simpl in H; [|inversion H; subst; left; simpl; lia].
      destruct r5 as [|h4 r6].
      { inversion H; subst. right. repeat split; [simpl; lia|]. exists [], [117; h1; h2; h3]. split; [reflexivity|].
        right. exists [h1; h2; h3]. repeat split; simpl; try lia. rewrite E1, E2, E3; reflexivity. }
      destruct (is_hex h4) eqn:E4; simpl in H; [|inversion H; subst; left; simpl; lia].
      simpl in Hn.
      eapply (Hrec r6 _ _ [92; 117; h1; h2; h3; h4]); try eassumption; simpl; lia || reflexivity. }
    destruct ((c =? 10) || (c =? 13)); [inversion H; subst; left; simpl; lia|].
    destruct (is_printable c); simpl in H; [|inversion H; subst; left; simpl; lia].
    eapply (Hrec r _ _ [c]); try eassumption; simpl; lia || reflexivity.
Qed.

Lemma read_string_total : forall n rest pos acc, (length rest <= n)%nat ->
  match read_string rest pos acc with Ok _ | Rejected _ _ => True | _ => False end.
Proof.
  induction n as [|n IH]; intros rest pos acc Hn.
  - destruct rest; [exact I|simpl in Hn; lia].
  - destruct rest as [|c r]; [exact I|]. simpl in Hn. simpl.
    destruct (c =? 34); [exact I|].
    destruct (c =? 92).
    { destruct r as [|x r2]; [exact I|]. simpl in Hn. destruct (quoted_char x); [apply IH; lia|].
      destruct (x =? 117); simpl; [|exact I].
      destruct r2 as [|h1 r3]; [exact I|]. destruct (is_hex h1); simpl; [|exact I].
      destruct r3 as [|h2 r4]; [exact I|]. destruct (is_hex h2); simpl; [|exact I].
      destruct r4 as [|h3 r5]; [exact I|]. destruct (is_hex h3); simpl; [|exact I].
      destruct r5 as [|h4 r6]; [exact I|]. destruct (is_hex h4); simpl; [|exact I].
      apply IH. simpl in Hn. lia. }
    destruct ((c =? 10) || (c =? 13)); [exact I|].
    destruct (is_printable c); simpl; [|exact I]. apply IH; lia.
Qed.

(* ---- block strings ---- *)
Lemma starts_3q_inv l : starts_3q l = true -> exists r, l = 34 :: 34 :: 34 :: r.
Proof.
  destruct l as [|a [|b [|c r]]]; simpl; try discriminate.
  rewrite !andb_true_iff, !N.eqb_eq. intros [[-> ->] ->]. eauto.
Qed.

Lemma read_block_spec : forall n rest pos acc, (length rest <= n)%nat ->
  match read_block rest pos acc with
  | Ok (raw, r', e) => exists c, rest = c ++ r' /\ e = (pos + length c)%nat
  | Rejected k p => (p <= pos + length rest)%nat
  | _ => False
  end.
Proof.
  induction n as [|n IH]; intros rest pos acc Hn.
  - destruct rest; [simpl; lia|simpl in Hn; lia].
  - destruct rest as [|c r]; [simpl; lia|]. simpl in Hn.
    assert (Hrec : forall r' pos' acc' (pre : str), (length r' <= n)%nat -> c :: r = pre ++ r' ->
               pos' = (pos + length pre)%nat ->
               match read_block r' pos' acc' with
               | Ok (raw, r'', e) => exists c0, c :: r = c0 ++ r'' /\ e = (pos + length c0)%nat
               | Rejected k p => (p <= pos + length (c :: r))%nat
               | _ => False
               end).
    { intros r' pos' acc' pre Hl He ->. specialize (IH r' (pos + length pre)%nat acc' Hl).
      destruct (read_block r' (pos + length pre) acc') as [[[raw r''] e]| |k p|]; auto.
      - destruct IH as (c0 & -> & ->). exists (pre ++ c0). rewrite He, app_assoc, app_length.
        split; [reflexivity|lia].
      - rewrite He, app_length. lia. }
    cbn [read_block].
    destruct (starts_3q (c :: r)) eqn:E3.
    { apply starts_3q_inv in E3. destruct E3 as (r0 & E3). rewrite E3. simpl.
      exists [34; 34; 34]. split; [reflexivity|simpl; lia]. }
    destruct (c =? 92).
    { destruct r as [|q1 [|q2 [|q3 r']]];
        try (apply (Hrec _ _ _ [c]); [simpl in *; lia|reflexivity|simpl; lia]).
      destruct ((q1 =? 34) && (q2 =? 34) && (q3 =? 34)).
      - apply (Hrec r' _ _ [c; q1; q2; q3]); [simpl in *; lia|reflexivity|simpl; lia].
      - apply (Hrec _ _ _ [c]); [simpl in *; lia|reflexivity|simpl; lia]. }
    destruct (negb ((32 <=? c) || (c =? 9) || (c =? 10) || (c =? 13))); [simpl; lia|].
    apply (Hrec _ _ _ [c]); [lia|reflexivity|simpl; lia].
Qed.

(* ---- numbers ---- *)
Lemma read_over_digits_err rest pos k p :
  read_over_digits rest pos = Rejected k p -> p = pos.
Proof.
  unfold read_over_digits. destruct rest as [|c r]; [intros H; inversion H; reflexivity|].
  destruct (is_digit c); [destruct (span is_digit (c :: r)); discriminate|].
  intros H; inversion H; reflexivity.
Qed.

Lemma read_over_digits_total rest pos :
  match read_over_digits rest pos with Ok _ | Rejected _ _ => True | _ => False end.
Proof.
  unfold read_over_digits. destruct rest as [|c r]; [exact I|].
  destruct (is_digit c); [destruct (span is_digit (c :: r)); exact I|exact I].
Qed.

Lemma read_over_integer_err rest pos k p :
  read_over_integer rest pos = Rejected k p -> (p <= pos + length rest)%nat.
Proof.
  unfold read_over_integer. destruct rest as [|c r]; [intros H; inversion H; simpl; lia|].
  destruct (c =? 48).
  - destruct r as [|d r']; [discriminate|]. destruct (is_digit d); [|discriminate].
    intros H; inversion H; subst; simpl; lia.
  - intros H. apply read_over_digits_err in H. lia.
Qed.

Lemma read_over_integer_total rest pos :
  match read_over_integer rest pos with Ok _ | Rejected _ _ => True | _ => False end.
Proof.
  unfold read_over_integer. destruct rest as [|c r]; [exact I|].
  destruct (c =? 48); [|apply read_over_digits_total].
  destruct r as [|d r']; [exact I|]. destruct (is_digit d); exact I.
Qed.

Lemma read_sign_spec rest pos :
  exists c, rest = c ++ fst (read_sign rest pos) /\ snd (read_sign rest pos) = (pos + length c)%nat.
Proof.
  unfold read_sign. destruct rest as [|c r]; [exists []; simpl; split; [reflexivity|lia]|].
  destruct (c =? 45); simpl; [exists [c]|exists []]; simpl; split; reflexivity || lia.
Qed.

Lemma read_number_err rest pos k p :
  read_number rest pos = Rejected k p -> (p <= pos + length rest)%nat.
Proof.
  unfold read_number.
  destruct (read_sign_spec rest pos) as (c1 & Hc1 & Hp1).
  apply (f_equal (@length _)) in Hc1. rewrite app_length in Hc1.
  destruct (read_over_integer (fst (read_sign rest pos)) (snd (read_sign rest pos)))
    as [[r2 p2]| |k2 p2'|] eqn:E2; cbn [obind fst snd]; try discriminate.
  2:{ intros H; injection H as Hk Hp; subst k p. apply read_over_integer_err in E2. lia. }
  destruct (read_over_integer_sound _ _ _ _ E2) as (u & Hu & _ & Hp2 & _).
  assert (Hc2 : (p2 + length r2 = pos + length rest)%nat).
  { rewrite Hu, app_length in Hc1. lia. }
  destruct (read_fraction r2 p2) as [[[fl3 r3] p3]| |k3 p3'|] eqn:E3; cbn [obind fst snd]; try discriminate.
  2:{ intros H; injection H as Hk Hp; subst k p. unfold read_fraction in E3.
      destruct r2 as [|c r]; [discriminate|]. destruct (c =? 46); [|discriminate].
      destruct (read_over_digits r (S p2)) as [[r' p']| |k' p''|] eqn:E; cbn [obind] in E3; try discriminate.
      injection E3 as Hk Hp; subst k3 p3'. apply read_over_digits_err in E. simpl in Hc2. lia. }
  assert (Hc3 : (p3 + length r3 = pos + length rest)%nat).
  { destruct (read_fraction_sound _ _ _ _ _ E3) as [(_ & -> & -> & _)|(_ & fp & -> & _ & -> & _)];
      [assumption|rewrite app_length in Hc2; lia]. }
  destruct (read_exponent fl3 r3 p3) as [[[fl4 r4] p4]| |k4 p4'|] eqn:E4; cbn [obind fst snd]; try discriminate.
  2:{ intros H; injection H as Hk Hp; subst k p. unfold read_exponent in E4.
      destruct r3 as [|c r]; [discriminate|]. destruct ((c =? 101) || (c =? 69)); [|discriminate].
      destruct (read_over_digits (fst (read_exp_sign r (S p3))) (snd (read_exp_sign r (S p3))))
        as [[r' p']| |k' p''|] eqn:E; cbn [obind] in E4; try discriminate.
      injection E4 as Hk Hp; subst k4 p4'. apply read_over_digits_err in E. subst p''.
      unfold read_exp_sign. destruct r as [|sg r'']; simpl in *; [lia|].
      destruct ((sg =? 43) || (sg =? 45)); simpl in *; lia. }
  assert (Hc4 : (p4 + length r4 = pos + length rest)%nat).
  { destruct (read_exponent_sound _ _ _ _ _ _ E4) as [(_ & -> & ->)|(_ & ep & -> & _ & -> & _)];
      [assumption|rewrite app_length in Hc3; lia]. }
  unfold number_lookahead; simpl. destruct r4 as [|c r4']; [discriminate|].
  destruct (is_name_start c); [|discriminate]. intros H; injection H as Hk Hp; subst k p. lia.
Qed.

Lemma read_number_total rest pos :
  match read_number rest pos with Ok _ | Rejected _ _ => True | _ => False end.
Proof.
  unfold read_number.
  pose proof (read_over_integer_total (fst (read_sign rest pos)) (snd (read_sign rest pos))) as H2.
  destruct (read_over_integer (fst (read_sign rest pos)) (snd (read_sign rest pos)))
    as [[r2 p2]| | |]; cbn [obind fst snd]; try exact I; try contradiction.
  assert (H3 : match read_fraction r2 p2 with Ok _ | Rejected _ _ => True | _ => False end).
  { unfold read_fraction. destruct r2 as [|c r]; [exact I|]. destruct (c =? 46); [|exact I].
    pose proof (read_over_digits_total r (S p2)) as H.
    destruct (read_over_digits r (S p2)); simpl; auto. }
  destruct (read_fraction r2 p2) as [[[fl3 r3] p3]| | |]; cbn [obind fst snd]; try exact I; try contradiction.
  assert (H4 : match read_exponent fl3 r3 p3 with Ok _ | Rejected _ _ => True | _ => False end).
  { unfold read_exponent. destruct r3 as [|c r]; [exact I|]. destruct ((c =? 101) || (c =? 69)); [|exact I].
    pose proof (read_over_digits_total (fst (read_exp_sign r (S p3))) (snd (read_exp_sign r (S p3)))) as H.
    destruct (read_over_digits (fst (read_exp_sign r (S p3))) (snd (read_exp_sign r (S p3)))); simpl; auto. }
  destruct (read_exponent fl3 r3 p3) as [[[fl4 r4] p4]| | |]; cbn [obind fst snd]; try exact I; try contradiction.
  unfold number_lookahead; simpl. destruct r4 as [|c r4']; [exact I|]. destruct (is_name_start c); exact I.
Qed.

Lemma IntegerPart_nonempty l : IntegerPart l -> l <> [].
Proof. intros [u [|]|u [|]]; discriminate. Qed.

Lemma FloatValue_nonempty l : FloatValue l -> l <> [].
Proof.
  intros [ip fp Hip _|ip ep Hip _|ip fp ep Hip _ _]; apply IntegerPart_nonempty in Hip;
    destruct ip; try congruence; discriminate.
Qed.

(* ---- one token ---- *)
Theorem next_token_spec rest pos :
  match next_token rest pos with
  | Ok (t, r') =>
      exists c, rest = c ++ r' /\ tstart t = pos /\ tend t = (pos + length c)%nat /\
                (rest <> [] -> c <> []) /\ (tk t = KEOF <-> rest = [])
  | Rejected k p => err_ok (pos + length rest) (trunc_esc rest) k p
  | _ => False
  end.
Proof.
  unfold next_token. destruct rest as [|c r].
  { exists []. repeat split; auto; simpl; lia. }
  destruct (negb (is_printable c)); [left; simpl; lia|].
  destruct (symbol_kind c) as [k|] eqn:Es.
  { exists [c]. repeat split; try discriminate; simpl; try lia.
    unfold symbol_kind in Es.
    repeat match type of Es with
           | (if ?b then _ else _) = _ => destruct b; [inversion Es; discriminate|]
           end. discriminate. }
  destruct (c =? 46).
  { pose proof (read_ellipsis_spec (c :: r) pos) as H.
    destruct (read_ellipsis (c :: r) pos) as [[t r']| |k p|]; auto.
    - destruct H as (c0 & Hc & Hne & Hs & He & Hk). exists c0. repeat split; auto; try discriminate.
      intros; contradiction.
    - left; assumption. }
  destruct (starts_3q (c :: r)) eqn:E3.
  { apply starts_3q_inv in E3. destruct E3 as (r0 & E3). rewrite E3. cbn [skipn].
    pose proof (read_block_spec (length r0) r0 (pos + 3)%nat [] (le_n _)) as H.
    destruct (read_block r0 (pos + 3) []) as [[[raw r'] e]| |k p|]; cbn [obind]; auto.
    - destruct H as (c0 & -> & ->). exists (34 :: 34 :: 34 :: c0).
      repeat split; try discriminate; simpl; lia.
    - left. simpl. lia. }
  destruct (N.eqb_spec c 34) as [->|Hq].
  { destruct (read_string r (S pos) []) as [[[v r'] e]| |k p|] eqn:E; cbn [obind].
    - destruct (read_string_sound (length r) _ _ _ _ _ _ (le_n _) E) as (raw & body & -> & _ & _ & ->).
      exists (34 :: raw ++ [34]). repeat split; try discriminate.
      + simpl. rewrite <- app_assoc. reflexivity.
      + simpl. rewrite app_length. simpl. lia.
    - pose proof (read_string_total (length r) r (S pos) [] (le_n _)) as H. rewrite E in H. exact H.
    - apply read_string_err with (n := length r) in E; [|lia].
      destruct E as [E|(-> & -> & Ht)]; [left; simpl; lia|right].
      repeat split; [simpl; lia|]. apply (trunc_esc_prefix [34]); assumption.
    - pose proof (read_string_total (length r) r (S pos) [] (le_n _)) as H. rewrite E in H. exact H. }
  destruct ((c =? 45) || is_digit c).
  { destruct (read_number (c :: r) pos) as [[[fl r'] e]| |k p|] eqn:E; cbn [obind].
    - destruct (read_number_sound _ _ _ _ _ E) as (lexeme & Hl & -> & Hi & Hf & _).
      exists lexeme. repeat split; auto; try discriminate.
      + intros _. unfold IntValue in *. destruct fl; [apply FloatValue_nonempty|apply IntegerPart_nonempty]; auto.
      + destruct fl; discriminate.
    - pose proof (read_number_total (c :: r) pos) as H. rewrite E in H. exact H.
    - left. apply read_number_err in E. exact E.
    - pose proof (read_number_total (c :: r) pos) as H. rewrite E in H. exact H. }
  destruct (is_name_start c) eqn:En; [|left; simpl; lia].
  destruct (span is_name_cont (c :: r)) as [nm r'] eqn:Esp.
  destruct (span_sound _ _ _ _ Esp) as (Hl & _ & _).
  exists nm. repeat split; auto; try discriminate.
  intros _. simpl in Esp.
  assert (Ec : is_name_cont c = true) by (unfold is_name_cont, is_name_start in *; rewrite En; reflexivity).
  rewrite Ec in Esp. destruct (span is_name_cont r); inversion Esp; discriminate.
Qed.
