(* C02 (4): the text a value / type node spans parses back to the same node
   (with spans moved to offset 0).  Lexer locality is proved on the declarative
   lexical relation. *)
From PyGql Require Import Lang.Parser Spec.LexSpec Spec.LexicalSpec Spec.GrammarSpec Spec.ReparseSpec
  Proofs.LexProofs Proofs.LexicalProofs Proofs.GrammarProofs Proofs.EntryProofs.
Local Open Scope N_scope.

(* ---- conditions on the following text only look at its first character ---- *)
Definition same_head (a b : str) : Prop := hd_error a = hd_error b.

Lemma same_head_app (x a b : str) : same_head a b -> same_head (x ++ a) (x ++ b).
Proof. intros H; destruct x; [exact H|reflexivity]. Qed.

Lemma same_head_nonempty (x a b : str) : x <> [] -> same_head (x ++ a) (x ++ b).
Proof. destruct x; [congruence|reflexivity]. Qed.

Lemma same_head_prefix (x a : str) : x <> [] -> same_head (x ++ a) x.
Proof. destruct x; [congruence|reflexivity]. Qed.

Lemma head_is_same P a b : same_head a b -> head_is P a -> head_is P b.
Proof. destruct a, b; simpl; unfold same_head; simpl; intros E; try discriminate; auto. inversion E; subst; auto. Qed.

Lemma follow_impl_same fl a b : same_head a b -> follow_impl fl a -> follow_impl fl b.
Proof. destruct a, b; simpl; unfold same_head; simpl; intros E; try discriminate; auto. inversion E; subst; auto. Qed.

Lemma Ignored_same ign f f2 : same_head f f2 -> Ignored ign f -> Ignored ign f2.
Proof.
  intros Hs H. revert Hs. induction H as [f|c ign f Hc H IH|body ign f Hb Hh H IH]; intros Hs.
  - constructor.
  - constructor; auto.
  - apply Ig_comment; [exact Hb| |apply IH; exact Hs].
    unfold not. intros Hh2. apply Hh. eapply head_is_same; [|exact Hh2].
    unfold same_head. symmetry. apply same_head_app. exact Hs.
Qed.

Lemma triple_quote_prefix (x r r2 : str) : (3 <= length x)%nat ->
  triple_quote (x ++ r) -> triple_quote (x ++ r2).
Proof.
  destruct x as [|a [|b [|c x]]]; simpl; try lia. intros _ [t E]. inversion E; subst. eexists. reflexivity.
Qed.

Lemma block_scan_rest txt raw r' : block_scan txt raw r' -> forall r2,
  exists body, txt = body ++ 34 :: 34 :: 34 :: r' /\ block_scan (body ++ 34 :: 34 :: 34 :: r2) raw r2.
Proof.
  induction 1 as [r'|rest raw r' Hb IH|c rest raw r' Hsc Hnt Hne Hb IH]; intros r2.
  - exists []. split; [reflexivity|constructor].
  - destruct (IH r2) as (body & -> & Hb2). exists (92 :: 34 :: 34 :: 34 :: body). split; [reflexivity|].
    simpl. constructor. exact Hb2.
  - destruct (IH r2) as (body & -> & Hb2). exists (c :: body). split; [reflexivity|]. simpl.
    constructor; auto.
    + intros Ht. apply Hnt.
      replace (c :: body ++ 34 :: 34 :: 34 :: r') with ((c :: body ++ [34; 34; 34]) ++ r')
        by (simpl; rewrite <- app_assoc; reflexivity).
      replace (c :: body ++ 34 :: 34 :: 34 :: r2) with ((c :: body ++ [34; 34; 34]) ++ r2) in Ht
        by (simpl; rewrite <- app_assoc; reflexivity).
      eapply triple_quote_prefix; [|exact Ht]. simpl. rewrite app_length. simpl. lia.
    + intros [Ec Ht]. apply Hne. split; [exact Ec|].
      replace (body ++ 34 :: 34 :: 34 :: r') with ((body ++ [34; 34; 34]) ++ r')
        by (rewrite <- app_assoc; reflexivity).
      replace (body ++ 34 :: 34 :: 34 :: r2) with ((body ++ [34; 34; 34]) ++ r2) in Ht
        by (rewrite <- app_assoc; reflexivity).
      eapply triple_quote_prefix; [|exact Ht]. rewrite app_length. simpl. lia.
Qed.

Lemma string_body_head raw v : string_body raw v -> raw = [] \/ exists c r, raw = c :: r /\ c <> 34.
Proof.
  intros [|c r v' Hc _|e d r v' _ _|h1 h2 h3 h4 v1 v2 v3 v4 r v' _ _ _ _ _]; [left; reflexivity| | |]; right.
  - exists c, r. split; [reflexivity|]. destruct Hc as (_ & H & _). exact H.
  - eexists _, _. split; [reflexivity|discriminate].
  - eexists _, _. split; [reflexivity|discriminate].
Qed.

Lemma string_not_triple raw v rest rest2 : string_body raw v -> same_head rest rest2 \/ rest2 = [] ->
  ~ triple_quote (34 :: raw ++ 34 :: rest) -> ~ triple_quote (34 :: raw ++ 34 :: rest2).
Proof.
  intros Hb Hs Hn [t E]. destruct (string_body_head _ _ Hb) as [->|(c & r & -> & Hc)].
  - simpl in *. inversion E; subst. destruct Hs as [Hs|Hs]; [|discriminate].
    apply Hn. destruct rest as [|x rest']; [discriminate|]. unfold same_head in Hs. simpl in Hs.
    inversion Hs; subst. eexists. reflexivity.
  - simpl in E. inversion E; subst. congruence.
Qed.

Lemma seg_end_cons t t2 seg : seg_end (t :: t2 :: seg) = seg_end (t2 :: seg).
Proof. simpl. f_equal. destruct seg; [reflexivity|apply last_default; discriminate]. Qed.

Section TokenRest.
Variable F : bool -> str -> Prop.
Hypothesis F_same : forall b x y, same_head x y -> F b x -> F b y.
Hypothesis F_nil : forall b, F b [].

Lemma Token_same lexeme rest rest2 k v :
  same_head rest rest2 -> Token F lexeme rest k v -> Token F lexeme rest2 k v.
Proof.
  intros Hs H. destruct H as [c k rest Hp|rest|c cs rest Hc Hcs Hh|l rest Hi Hf|l rest Hfl Hf|raw v rest Hb Hn|body raw rest Hb].
  - constructor; assumption.
  - constructor.
  - constructor; auto. intros Hh2. apply Hh. eapply head_is_same; [|exact Hh2]. unfold same_head in *. auto.
  - constructor; eauto.
  - constructor; eauto.
  - constructor; auto. eapply string_not_triple; eauto.
  - constructor. destruct (block_scan_rest _ _ _ Hb rest2) as (body' & E & Hb2).
    apply app_inv_tail in E. subst body'. exact Hb2.
Qed.

Lemma Token_trunc lexeme rest k v : Token F lexeme rest k v -> Token F lexeme [] k v.
Proof.
  intros H. destruct H as [c k rest Hp|rest|c cs rest Hc Hcs Hh|l rest Hi Hf|l rest Hfl Hf|raw v rest Hb Hn|body raw rest Hb].
  - constructor; assumption.
  - constructor.
  - constructor; auto.
  - constructor; auto.
  - constructor; auto.
  - constructor; auto. eapply string_not_triple; eauto.
  - constructor. destruct (block_scan_rest _ _ _ Hb []) as (body' & E & Hb2).
    apply app_inv_tail in E. subst body'. exact Hb2.
Qed.

Lemma Token_nonempty lexeme rest k v : Token F lexeme rest k v -> lexeme <> [].
Proof. intros H. destruct (Token_start _ _ _ _ _ H) as [_ Hne]. exact Hne. Qed.

Lemma lexes_from_nonempty_text txt pos t ts : lexes_from F txt pos (t :: ts) -> tk t <> KEOF -> txt <> [].
Proof.
  intros H Hk. inversion H; subst.
  - simpl in Hk. congruence.
  - match goal with Ht : Token F ?l _ _ _ |- _ => pose proof (Token_nonempty _ _ _ _ Ht) as Hne end.
    destruct ign; [destruct lexeme; [congruence|discriminate]|discriminate].
Qed.

(* truncate the text right after the last token of a segment *)
Lemma lexes_from_truncate : forall seg txt pos post,
  seg <> [] -> Forall (fun t => tk t <> KEOF) seg -> post <> [] ->
  lexes_from F txt pos (seg ++ post) ->
  exists sub rest, txt = sub ++ rest /\ (pos + length sub)%nat = seg_end seg
    /\ lexes_from F sub pos (seg ++ [PTok KEOF [] (seg_end seg) (seg_end seg)]).
Proof.
  induction seg as [|t seg IH]; intros txt pos post Hne Hk Hpost H; [congruence|].
  inversion Hk as [|? ? Hkt Hk']; subst. simpl in H. inversion H; subst.
  { exfalso. simpl in Hkt. congruence. }
  match goal with Ht : Token F ?l _ _ _ |- _ => pose proof (Token_nonempty _ _ _ _ Ht) as Hlne end.
  destruct seg as [|t2 seg'].
  - (* last token of the segment *)
    exists (ign ++ lexeme), rest. split; [rewrite <- app_assoc; reflexivity|]. split.
    + simpl. rewrite app_length. lia.
    + rewrite <- (app_nil_r lexeme) at 1. simpl.
      replace (PTok KEOF [] (pos + length ign + length lexeme) (pos + length ign + length lexeme))
        with (PTok KEOF [] (pos + length ign + length lexeme + length (@nil char))
                           (pos + length ign + length lexeme + length (@nil char)))
        by (simpl; rewrite !Nat.add_0_r; reflexivity).
      constructor.
      * eapply Ignored_same; [|eassumption]. apply same_head_nonempty. exact Hlne.
      * eapply Token_trunc. eassumption.
      * constructor. constructor.
  - (* more tokens follow inside the segment *)
    match goal with Hl : lexes_from F rest _ _ |- _ =>
      destruct (IH rest _ post ltac:(discriminate) Hk' Hpost Hl) as (sub' & rest' & -> & Hlen & Hsub) end.
    assert (Hsne : sub' <> []).
    { eapply lexes_from_nonempty_text; [exact Hsub|]. inversion Hk'; assumption. }
    exists (ign ++ lexeme ++ sub'), rest'. split; [rewrite <- !app_assoc; reflexivity|]. split.
    + rewrite seg_end_cons. rewrite <- Hlen. rewrite !app_length. lia.
    + rewrite seg_end_cons.
      simpl. constructor.
      * eapply Ignored_same; [|eassumption]. apply same_head_nonempty. exact Hlne.
      * eapply Token_same; [|eassumption]. apply same_head_prefix. exact Hsne.
      * exact Hsub.
Qed.

(* skip the tokens before the segment *)
Lemma lexes_from_skip : forall pre txt pos ts,
  Forall (fun t => tk t <> KEOF) pre -> ts <> [] ->
  lexes_from F txt pos (pre ++ ts) ->
  exists skipped txt2, txt = skipped ++ txt2 /\ lexes_from F txt2 (pos + length skipped)%nat ts.
Proof.
  induction pre as [|t pre IH]; intros txt pos ts Hk Hne H.
  - exists [], txt. split; [reflexivity|]. simpl. rewrite Nat.add_0_r. exact H.
  - inversion Hk as [|? ? Hkt Hk']; subst. simpl in H. inversion H; subst.
    { destruct pre; [destruct ts; [congruence|discriminate]|discriminate]. }
    match goal with Hl : lexes_from F rest _ _ |- _ =>
      destruct (IH rest _ ts Hk' Hne Hl) as (skipped & txt2 & -> & Hl2) end.
    exists (ign ++ lexeme ++ skipped), txt2. split; [rewrite <- !app_assoc; reflexivity|].
    rewrite !app_length. replace (pos + (length ign + (length lexeme + length skipped)))%nat
      with (pos + length ign + length lexeme + length skipped)%nat by lia. exact Hl2.
Qed.

(* drop the ignored text in front of the first token *)
Lemma lexes_from_drop_ignored txt pos t ts : tk t <> KEOF ->
  lexes_from F txt pos (t :: ts) ->
  exists ign txt2, txt = ign ++ txt2 /\ tstart t = (pos + length ign)%nat /\ lexes_from F txt2 (tstart t) (t :: ts).
Proof.
  intros Hk H. inversion H; subst; [simpl in Hk; congruence|].
  exists ign, (lexeme ++ rest). split; [reflexivity|]. split; [reflexivity|]. simpl.
  replace (PTok k v (pos + length ign) (pos + length ign + length lexeme))
    with (PTok k v (pos + length ign + length (@nil char)) (pos + length ign + length (@nil char) + length lexeme))
    by (simpl; rewrite !Nat.add_0_r; reflexivity).
  apply (LX_tok F [] lexeme rest k v ts (pos + length ign)%nat); [constructor|assumption|].
  simpl. rewrite Nat.add_0_r. assumption.
Qed.

(* positions are offsets: moving the origin *)
Lemma lexes_from_shift txt pos ts : lexes_from F txt pos ts ->
  forall p, (p <= pos)%nat -> lexes_from F txt (pos - p) (map (shift_tok p) ts).
Proof.
  induction 1 as [ign pos Hi|ign lexeme rest k v ts pos Hi Htok Hl IH]; intros p Hp.
  - simpl. unfold shift_tok. simpl.
    replace (pos + length ign - p)%nat with (pos - p + length ign)%nat by lia. constructor. exact Hi.
  - simpl. unfold shift_tok at 1. simpl.
    replace (pos + length ign - p)%nat with (pos - p + length ign)%nat by lia.
    replace (pos + length ign + length lexeme - p)%nat with (pos - p + length ign + length lexeme)%nat by lia.
    constructor; auto.
    replace (pos - p + length ign + length lexeme)%nat with (pos + length ign + length lexeme - p)%nat by lia.
    apply IH. lia.
Qed.

End TokenRest.

(* ---- derivations do not depend on where the text starts ---- *)
Lemma map_last {A B} (f : A -> B) r t : last (map f r) (f t) = f (last r t).
Proof. revert t; induction r as [|a r IH]; intros t; simpl; [reflexivity|]. destruct r; [reflexivity|apply IH]. Qed.

Lemma mkloc_shift nl p seg : mkloc nl (map (shift_tok p) seg) = shift_loc p (mkloc nl seg).
Proof.
  unfold mkloc. destruct nl; [reflexivity|]. destruct seg as [|t r]; [reflexivity|].
  simpl. rewrite map_last. reflexivity.
Qed.

Lemma name_node_shift nl p t : name_node nl (shift_tok p t) = shift_name p (name_node nl t).
Proof.
  unfold name_node, shift_name. simpl. f_equal.
  change [shift_tok p t] with (map (shift_tok p) [t]). apply mkloc_shift.
Qed.

Lemma D_type_shift nl p ts t : D_type nl ts t -> D_type nl (map (shift_tok p) ts) (shift_ty p t).
Proof.
  induction 1 as [t Hk|o ts c inner Ho Hc Hd IH|ts b inner Hb Hd IH Hnn]; simpl.
  - rewrite <- name_node_shift, <- (mkloc_shift nl p [t]). cbn [map]. constructor. exact Hk.
  - rewrite <- (mkloc_shift nl p (o :: ts ++ [c])). cbn [map]. rewrite map_app. cbn [map]. constructor; auto.
  - rewrite <- (mkloc_shift nl p (ts ++ [b])). rewrite map_app. cbn [map]. constructor; auto.
    destruct inner; simpl in *; auto.
Qed.

Definition shift_field (p : nat) (f : name * value * loc) : name * value * loc :=
  (shift_name p (fst (fst f)), shift_value p (snd (fst f)), shift_loc p (snd f)).

Lemma D_value_shift_all nl p :
  (forall c ts v, D_value nl c ts v -> D_value nl c (map (shift_tok p) ts) (shift_value p v))
  /\ (forall c ts vs, D_values nl c ts vs -> D_values nl c (map (shift_tok p) ts) (map (shift_value p) vs))
  /\ (forall c ts fs, D_fields nl c ts fs -> D_fields nl c (map (shift_tok p) ts) (map (shift_field p) fs)).
Proof.
  apply (D_value_mutind nl
    (fun c ts v => D_value nl c (map (shift_tok p) ts) (shift_value p v))
    (fun c ts vs => D_values nl c (map (shift_tok p) ts) (map (shift_value p) vs))
    (fun c ts fs => D_fields nl c (map (shift_tok p) ts) (map (shift_field p) fs))); intros; simpl.
  - rewrite <- name_node_shift. rewrite <- (mkloc_shift nl p [d; t]). cbn [map]. constructor; assumption.
  - rewrite <- (mkloc_shift nl p [t]). cbn [map]. apply (DV_int nl c (shift_tok p t)); assumption.
  - rewrite <- (mkloc_shift nl p [t]). cbn [map]. apply (DV_float nl c (shift_tok p t)); assumption.
  - rewrite <- (mkloc_shift nl p [t]). cbn [map]. apply (DV_string nl c (shift_tok p t)); assumption.
  - rewrite <- (mkloc_shift nl p [t]). cbn [map]. apply (DV_block_string nl c (shift_tok p t)); assumption.
  - rewrite <- (mkloc_shift nl p [t]). cbn [map]. apply (DV_true nl c (shift_tok p t)); assumption.
  - rewrite <- (mkloc_shift nl p [t]). cbn [map]. apply (DV_false nl c (shift_tok p t)); assumption.
  - rewrite <- (mkloc_shift nl p [t]). cbn [map]. apply (DV_null nl c (shift_tok p t)); assumption.
  - rewrite <- (mkloc_shift nl p [t]). cbn [map]. apply (DV_enum nl c (shift_tok p t)); assumption.
  - rewrite <- (mkloc_shift nl p (o :: ts ++ [cl])). cbn [map]. rewrite map_app. cbn [map]. constructor; auto.
  - rewrite <- (mkloc_shift nl p (o :: ts ++ [cl])). cbn [map]. rewrite map_app. cbn [map].
    change (map (fun f => (shift_name p (fst (fst f)), shift_value p (snd (fst f)), shift_loc p (snd f))) fs)
      with (map (shift_field p) fs). constructor; auto.
  - constructor.
  - rewrite map_app. constructor; assumption.
  - constructor.
  - unfold shift_field at 1. simpl. rewrite map_app.
    rewrite <- name_node_shift. rewrite <- (mkloc_shift nl p (nm :: colon :: ts)). cbn [map].
    constructor; assumption.
Qed.

Lemma D_value_const_all nl :
  (forall c ts v, D_value nl c ts v -> D_value nl false ts v)
  /\ (forall c ts vs, D_values nl c ts vs -> D_values nl false ts vs)
  /\ (forall c ts fs, D_fields nl c ts fs -> D_fields nl false ts fs).
Proof.
  apply (D_value_mutind nl (fun c ts v => D_value nl false ts v) (fun c ts vs => D_values nl false ts vs)
           (fun c ts fs => D_fields nl false ts fs)); intros; try (constructor; assumption).
Qed.

(* first / last token classes of a value and of a type *)
Lemma D_value_ends nl c ts v : D_value nl c ts v ->
  exists t r, ts = t :: r /\ tk t <> KSOF /\ tk t <> KEOF /\ tk (last r t) <> KEOF.
Proof.
  intros H; destruct H;
    match goal with
    | |- exists t r, ?x :: ?y = _ /\ _ => exists x, y
    end; (split; [reflexivity|]); simpl; try rewrite last_snoc;
    repeat match goal with Hk : tk _ = _ |- _ => rewrite Hk; clear Hk end;
    repeat split; discriminate.
Qed.

Lemma D_type_ends nl ts t : D_type nl ts t ->
  exists x r, ts = x :: r /\ tk x <> KSOF /\ tk x <> KEOF /\ tk (last r x) <> KEOF.
Proof.
  induction 1 as [t Hk|o ts c inner Ho Hc Hd IH|ts b inner Hb Hd IH Hnn].
  - exists t, []. simpl. rewrite Hk. repeat split; discriminate.
  - exists o, (ts ++ [c]). simpl. rewrite last_snoc, Ho, Hc. repeat split; discriminate.
  - destruct IH as (x & r & -> & H1 & H2 & _). exists x, (r ++ [b]). simpl. rewrite last_snoc, Hb.
    repeat split; auto; discriminate.
Qed.

(* ---- the segment's text lexes to the segment ---- *)
Lemma lexes_from_eof F txt pos ts : lexes_from F txt pos ts ->
  exists init eof, ts = init ++ [eof] /\ tk eof = KEOF /\ Forall (fun t => tk t <> KEOF) init.
Proof.
  induction 1 as [ign pos Hi|ign lexeme rest k v ts pos Hi Htok Hl (init & eof & -> & Ke & Hf)].
  - exists [], (PTok KEOF [] (pos + length ign) (pos + length ign)). simpl. auto.
  - eexists (_ :: init), eof. split; [reflexivity|]. split; [exact Ke|]. constructor; [|exact Hf].
    simpl. eapply Token_not_eof; eassumption.
Qed.

Lemma app_tail_split {A} (a b init : list A) e : a ++ b = init ++ [e] -> b <> [] ->
  exists b', b = b' ++ [e] /\ init = a ++ b'.
Proof.
  intros H Hb. destruct (exists_last Hb) as (b' & x & ->).
  rewrite app_assoc in H. apply app_inj_tail in H. destruct H as [<- <-]. eauto.
Qed.

Lemma skipn_exact {A} (a b : list A) : skipn (length a) (a ++ b) = b.
Proof. induction a; simpl; auto. Qed.

Lemma firstn_exact' {A} (l r : list A) : firstn (length l) (l ++ r) = l.
Proof. induction l as [|a l IH]; simpl; [reflexivity|]. rewrite IH. reflexivity. Qed.

Theorem segment_lexes s ts pre seg post :
  lex s = Ok ts -> ts = pre ++ seg ++ post ->
  (exists t r, seg = t :: r /\ tk t <> KSOF /\ tk t <> KEOF /\ tk (last r t) <> KEOF) ->
  lex (substring s (seg_start seg) (seg_end seg))
  = Ok (PTok KSOF [] 0 0 :: map (shift_tok (seg_start seg)) seg
        ++ [shift_tok (seg_start seg) (PTok KEOF [] (seg_end seg) (seg_end seg))]).
Proof.
  intros Hl -> (t & r & Eseg & Hsof & Heof & Hlast).
  apply lex_lexes_slack in Hl. destruct Hl as (ts' & Ets & Hl).
  (* SOF is in pre *)
  destruct pre as [|sof pre']; [subst seg; simpl in Ets; inversion Ets; subst t; simpl in Hsof; congruence|].
  simpl in Ets. injection Ets as Esof Ets'. subst ts'.
  destruct (lexes_from_eof _ _ _ _ Hl) as (init & eof & Einit & Ke & Hinit).
  assert (Hpost : post <> []).
  { intros ->. rewrite app_nil_r in Einit. subst seg.
    destruct (app_tail_split pre' (t :: r) init eof Einit ltac:(discriminate)) as (b' & Eb & _).
    assert (last r t = eof).
    { destruct (exists_last (l := t :: r) ltac:(discriminate)) as (b0 & x & E0).
      rewrite E0 in Eb. apply app_inj_tail in Eb. destruct Eb as [_ <-].
      change (last r t) with (last (t :: r) t) || idtac.
      replace (last r t) with (last (t :: r) t) by (destruct r; [reflexivity|simpl; destruct r; reflexivity]).
      rewrite E0. apply last_snoc. }
    congruence. }
  rewrite app_assoc in Einit.
  destruct (app_tail_split (pre' ++ seg) post init eof Einit Hpost) as (post' & Epost & Einit').
  subst init. apply Forall_app in Hinit. destruct Hinit as [Hps Hpost']. apply Forall_app in Hps. destruct Hps as [Hpre Hseg].
  assert (F_same : forall b x y, same_head x y -> follow_impl b x -> follow_impl b y)
    by (intros; eapply follow_impl_same; eauto).
  assert (F_nil : forall b, follow_impl b []) by (intros; exact I).
  subst seg.
  destruct (lexes_from_skip follow_impl pre' s 0%nat ((t :: r) ++ post) Hpre ltac:(discriminate) Hl)
    as (skipped & txt2 & Es & Hl2).
  destruct (lexes_from_truncate follow_impl F_same F_nil (t :: r) txt2 _ post ltac:(discriminate) Hseg Hpost Hl2)
    as (sub0 & rest & Et2 & Hlen & Hsub0).
  simpl app in Hsub0.
  destruct (lexes_from_drop_ignored follow_impl sub0 _ t _ Heof Hsub0) as (ign & sub & Esub0 & Hstart & Hsub).
  simpl in Hstart.
  assert (Ha : seg_start (t :: r) = length (skipped ++ ign)).
  { simpl. rewrite Hstart, app_length. lia. }
  assert (Hb : (seg_end (t :: r) - seg_start (t :: r))%nat = length sub).
  { rewrite <- Hlen, Ha, Esub0, !app_length. lia. }
  assert (Esubstr : substring s (seg_start (t :: r)) (seg_end (t :: r)) = sub).
  { unfold substring. rewrite Hb, Ha. rewrite Es, Et2, Esub0.
    replace (skipped ++ (ign ++ sub) ++ rest) with ((skipped ++ ign) ++ sub ++ rest)
      by (rewrite <- !app_assoc; reflexivity).
    rewrite skipn_exact. apply firstn_exact'. }
  rewrite Esubstr. apply lex_lexes_slack.
  eexists. split; [reflexivity|].
  pose proof (lexes_from_shift follow_impl sub (tstart t) _ Hsub (tstart t) (le_n _)) as Hsh.
  rewrite Nat.sub_diag in Hsh.
  cbn [map] in Hsh. rewrite map_app in Hsh. exact Hsh.
Qed.

(* ---- the spanned text parses back to the node ---- *)
Lemma whole_segment p seg eofp :
  whole (PTok KSOF [] 0 0 :: map (shift_tok p) seg ++ [shift_tok p (PTok KEOF [] eofp eofp)])
        (map (shift_tok p) seg).
Proof. eexists _, _. split; [|split]; [| |reflexivity]; reflexivity. Qed.

Theorem reparse_value fl s ts pre seg post c v :
  lex s = Ok ts -> ts = pre ++ seg ++ post -> D_value (no_location fl) c seg v ->
  parse_value_str fl (substring s (seg_start seg) (seg_end seg))
  = Ok (shift_value (seg_start seg) v).
Proof.
  intros Hl Ets Dv.
  pose proof (segment_lexes s ts pre seg post Hl Ets (D_value_ends _ _ _ _ Dv)) as Hsub.
  eapply parse_value_str_complete; [exact Hsub|apply whole_segment|].
  apply (proj1 (D_value_shift_all _ _)). apply (proj1 (D_value_const_all _) c). exact Dv.
Qed.

Theorem reparse_type fl s ts pre seg post t :
  lex s = Ok ts -> ts = pre ++ seg ++ post -> D_type (no_location fl) seg t ->
  parse_type_str fl (substring s (seg_start seg) (seg_end seg))
  = Ok (shift_ty (seg_start seg) t).
Proof.
  intros Hl Ets Dt.
  pose proof (segment_lexes s ts pre seg post Hl Ets (D_type_ends _ _ _ Dt)) as Hsub.
  eapply parse_type_str_complete; [exact Hsub|apply whole_segment|].
  apply D_type_shift. exact Dt.
Qed.

(* in particular for the whole value / type of parse_value / parse_type *)
Corollary reparse_whole_value fl s v :
  parse_value_str fl s = Ok v ->
  exists ts body, lex s = Ok ts /\ whole ts body /\
    parse_value_str fl (substring s (seg_start body) (seg_end body)) = Ok (shift_value (seg_start body) v).
Proof.
  intros H. destruct (parse_value_str_sound fl s v H) as (ts & body & Hl & Hw & Dv).
  exists ts, body. split; [exact Hl|]. split; [exact Hw|].
  destruct Hw as (sof & eof & _ & _ & Ets).
  apply (reparse_value fl s ts [sof] body [eof] false v Hl Ets Dv).
Qed.
