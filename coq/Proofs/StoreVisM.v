(* C14 -- proofs about the store model, part 10: after the visibility
   transform and its healing no member list reachable from the registry holds
   a rejected field, input field, argument or enum value. *)
From PyGql Require Import Spec.StoreSpec Proofs.StoreProofs Proofs.StoreHeal Proofs.StoreLoop
     Proofs.StoreFrame Proofs.StoreClone Proofs.StoreOps Proofs.StoreTerm Proofs.StoreVis.
Local Open Scope N_scope.

Section Members.
Variable p : vis_preds.

Definition nameok (q : str -> bool) (m : mem) (x : oid) : Prop :=
  match oname m x with Some fn => q fn = true | None => False end.
(* the predicate that judges the members of a type of kind k registered as n *)
Definition qmem (k : kind) (n : str) : str -> bool :=
  match k with
  | Kobject | Kinterface => vp_field p n
  | Kinput => vp_inf p n
  | Kenum => vp_env p
  | _ => fun _ => true
  end.
Definition is_fieldy (k : kind) : bool := match k with Kobject | Kinterface => true | _ => false end.
Definition mgood (k : kind) (n : str) (m : mem) (x : oid) : Prop :=
  nameok (qmem k n) m x /\ (is_fieldy k = true -> Forall (nameok (vp_arg p) m) (args_of m x)).
Definition tgood (m : mem) (n : str) (o : oid) : Prop :=
  match mget m o with
  | Some (OType _ k _ ms _ _ _) =>
      match k with
      | Kobject | Kinterface | Kinput | Kenum => Forall (mgood k n m) ms
      | _ => True
      end
  | _ => True
  end.
Definition dgood (m : mem) (d : oid) : Prop := Forall (nameok (vp_arg p) m) (dir_args m d).

(* ---------------------------------------------- stability under healing *)
Lemma oname_ext tm m m' x n : ext tm m m' -> oname m x = Some n -> oname m' x = Some n.
Proof.
  intros He H. unfold oname in *. destruct (mget m x) as [v|] eqn:Hg; [|discriminate].
  destruct (proj2 He x v Hg) as (v' & Hg' & Hr). rewrite Hg'.
  destruct v, v'; simpl in Hr; try contradiction.
  - destruct Hr as (-> & _). assumption.
  - destruct Hr as (_ & _ & -> & _). assumption.
  - destruct Hr as (_ & _ & -> & _). assumption.
  - inversion Hr; subst. assumption.
  - inversion Hr; subst. assumption.
Qed.

Lemma nameok_ext tm q m m' x : ext tm m m' -> nameok q m x -> nameok q m' x.
Proof.
  intros He H. unfold nameok in *. destruct (oname m x) as [n|] eqn:Hn; [|contradiction].
  rewrite (oname_ext tm m m' x n He Hn). assumption.
Qed.

Lemma oname_exists m x n : oname m x = Some n -> exists v, mget m x = Some v.
Proof. unfold oname. destruct (mget m x) as [v|]; [eauto|discriminate]. Qed.

Lemma mgood_ext tm k n m m' x : ext tm m m' -> mgood k n m x -> mgood k n m' x.
Proof.
  intros He [H1 H2]. split; [eapply nameok_ext; eauto|].
  assert (Hx : exists v, mget m x = Some v).
  { unfold nameok in H1. destruct (oname m x) eqn:E; [eapply oname_exists; eauto|contradiction]. }
  destruct Hx as (v & Hv). rewrite (args_of_ext tm m m' x v He Hv). intros Hk.
  eapply Forall_impl; [|exact (H2 Hk)]. intros a. apply nameok_ext with (tm := tm). exact He.
Qed.

Lemma tgood_ext tm m m' n o v : ext tm m m' -> mget m o = Some v -> tgood m n o -> tgood m' n o.
Proof.
  intros He Hg H. unfold tgood in *. rewrite Hg in H.
  destruct (proj2 He o v Hg) as (v' & Hg' & Hr). rewrite Hg'.
  destruct v; destruct v'; simpl in Hr; try contradiction; auto.
  destruct Hr as (_ & -> & -> & _).
  destruct k; auto; (eapply Forall_impl; [|exact H]; intros a; apply mgood_ext with (tm := tm); exact He).
Qed.

Lemma dgood_ext tm m m' d v : ext tm m m' -> mget m d = Some v -> dgood m d -> dgood m' d.
Proof.
  intros He Hg H. unfold dgood, dir_args in *. rewrite Hg in H.
  destruct (proj2 He d v Hg) as (v' & Hg' & Hr). rewrite Hg'.
  destruct v; destruct v'; simpl in Hr; try contradiction; try constructor.
  inversion Hr; subst. eapply Forall_impl; [|exact H]. intros a. apply nameok_ext with (tm := tm). exact He.
Qed.

(* ------------------------------- stability under the visibility traversal *)
Lemma oname_tnr m m' x n : tnr m m' -> oname m x = Some n -> oname m' x = Some n.
Proof.
  intros (_ & T & P) H. destruct (oname_exists _ _ _ H) as (v & Hv).
  destruct (tyi m x) as [[n0 k0]|] eqn:Hty.
  - pose proof (T _ _ Hty) as Hty'. unfold oname, tyi in *. rewrite Hv in H, Hty.
    destruct v; try discriminate. inversion Hty; subst. inversion H; subst.
    destruct (mget m' x) as [[| | | |]|]; try discriminate. inversion Hty'; subst. reflexivity.
  - unfold oname. rewrite (P x v Hv Hty). unfold oname in H. rewrite Hv in H. exact H.
Qed.

Lemma nameok_tnr q m m' x : tnr m m' -> nameok q m x -> nameok q m' x.
Proof.
  intros R H. unfold nameok in *. destruct (oname m x) as [n|] eqn:Hn; [|contradiction].
  rewrite (oname_tnr m m' x n R Hn). assumption.
Qed.

Lemma args_of_tnr m m' x v : tnr m m' -> mget m x = Some v -> args_of m' x = args_of m x.
Proof.
  intros (_ & T & P) Hv. destruct (tyi m x) as [[n0 k0]|] eqn:Hty.
  - pose proof (T _ _ Hty) as Hty'. unfold args_of, tyi in *. rewrite Hv in *.
    destruct v; try discriminate. destruct (mget m' x) as [[| | | |]|]; try discriminate. reflexivity.
  - unfold args_of. rewrite (P x v Hv Hty), Hv. reflexivity.
Qed.

Lemma mgood_tnr k n m m' x : tnr m m' -> mgood k n m x -> mgood k n m' x.
Proof.
  intros R [H1 H2]. split; [eapply nameok_tnr; eauto|].
  assert (Hx : exists v, mget m x = Some v).
  { unfold nameok in H1. destruct (oname m x) eqn:E; [eapply oname_exists; eauto|contradiction]. }
  destruct Hx as (v & Hv). rewrite (args_of_tnr m m' x v R Hv). intros Hk.
  eapply Forall_impl; [|exact (H2 Hk)]. intros a. apply nameok_tnr. exact R.
Qed.

End Members.

(* map_and_filter: a property every input has and every hook preserves (or a
   property every hook establishes) holds of everything returned *)
Section MapFilterPre.
Variables (I : mem -> Prop) (R : mem -> mem -> Prop).
Hypothesis R_refl : forall m, R m m.
Hypothesis R_trans : forall a b c, R a b -> R b c -> R a c.

Lemma map_filter_pre (f : hook) (P Q : mem -> oid -> Prop) :
  (forall m x m' r, I m -> P m x -> f m x = Some (m', r) ->
     I m' /\ R m m' /\ (forall y, r = Some y -> Q m' y)) ->
  (forall m m' y, R m m' -> P m y -> P m' y) ->
  (forall m m' y, R m m' -> Q m y -> Q m' y) ->
  forall l m m' rs, I m -> Forall (P m) l -> map_filter f m l = Some (m', rs) ->
    I m' /\ R m m' /\ Forall (Q m') rs.
Proof.
  intros Hf HP HQ. induction l as [|x l IH]; intros m m' rs Hi Hl H; simpl in H.
  - inversion H; subst. split; [assumption|]. split; [apply R_refl|constructor].
  - inversion Hl as [|? ? Hx Hl']; subst.
    destruct (f m x) as [[m1 r]|] eqn:Hfx; [|discriminate].
    destruct (map_filter f m1 l) as [[m2 rs']|] eqn:Hr; [|discriminate].
    inversion H; subst m' rs; clear H.
    destruct (Hf _ _ _ _ Hi Hx Hfx) as (I1 & R1 & Q1).
    assert (Hl1 : Forall (P m1) l) by (eapply Forall_impl; [|exact Hl']; intros a; apply HP; exact R1).
    destruct (IH _ _ _ I1 Hl1 Hr) as (I2 & R2 & Q2).
    split; [assumption|]. split; [eapply R_trans; eauto|].
    destruct r as [y|]; [|assumption]. constructor; [|assumption]. eapply HQ; [exact R2|]. apply Q1. reflexivity.
Qed.
End MapFilterPre.

(* ------------------------------------------- healing keeps members good *)
Section HealGood.
Variable p : vis_preds.
Variable tm : list (str * oid).

Lemma heal_member_good q m x m' r :
  inv tm m -> nameok q m x -> heal_member tm m x = Some (m', r) ->
  inv tm m' /\ ext tm m m' /\ (forall y, r = Some y -> nameok q m' y /\ y = x /\ args_of m' x = args_of m x).
Proof.
  intros Hi Hn H. destruct (heal_member_spec tm _ _ _ _ Hi H) as (Hi' & He & _ & Hr).
  split; [assumption|]. split; [assumption|]. intros y ->. destruct Hr as (-> & _ & Ha).
  split; [eapply nameok_ext; eauto|split; [reflexivity|assumption]].
Qed.

Lemma heal_arg_good m x m' r :
  inv tm m -> nameok (vp_arg p) m x -> visit_arg (heal_visitor tm) m x = Some (m', r) ->
  inv tm m' /\ ext tm m m' /\ (forall y, r = Some y -> nameok (vp_arg p) m' y).
Proof.
  intros Hi Hn H. rewrite visit_arg_heal in H.
  destruct (heal_member_good _ _ _ _ _ Hi Hn H) as (A & B & C). split; [assumption|]. split; [assumption|].
  intros y Hy. exact (proj1 (C y Hy)).
Qed.

Lemma nameok_oname q m m' x y : oname m' y = oname m x -> nameok q m x -> nameok q m' y.
Proof. unfold nameok. intros ->. auto. Qed.

Lemma heal_field_good k n (Hk : is_fieldy k = true) m x m' r :
  inv tm m -> mgood p k n m x -> visit_field (heal_visitor tm) m x = Some (m', r) ->
  inv tm m' /\ ext tm m m' /\ (forall y, r = Some y -> mgood p k n m' y).
Proof.
  intros Hi Hg H.
  change (visit_field (heal_visitor tm) m x)
    with (match base_field (heal_visitor tm) m x with
          | None => None
          | Some (m2, None) => Some (m2, None)
          | Some (m2, Some o2) => heal_member tm m2 o2
          end) in H.
  destruct (base_field (heal_visitor tm) m x) as [[m2 ro]|] eqn:Hb; [|discriminate].
  assert (Hbase : inv tm m2 /\ ext tm m m2 /\ exists y, ro = Some y /\ mgood p k n m2 y).
  { unfold base_field in Hb. destruct (mget m x) as [v|] eqn:Hv; [|discriminate].
    destruct v as [|nf py ty args d dp rs sb ds| | |]; try discriminate.
    assert (Hargs : Forall (nameok (vp_arg p) m) args).
    { pose proof (proj2 Hg Hk) as Ha. unfold args_of in Ha. rewrite Hv in Ha. exact Ha. }
    destruct (map_filter (visit_arg (heal_visitor tm)) m args) as [[m1 args']|] eqn:Hmf; [|discriminate].
    destruct (map_filter_pre (inv tm) (ext tm) (ext_refl tm) (ext_trans tm) _ (nameok (vp_arg p)) (nameok (vp_arg p))
                heal_arg_good (fun a b y He => nameok_ext tm _ a b y He) (fun a b y He => nameok_ext tm _ a b y He)
                _ _ _ _ Hi Hargs Hmf) as (Hi1 & He1 & Hq1).
    destruct (oids_eqb args' args) eqn:Heq.
    - inversion Hb; subst m2 ro. split; [assumption|]. split; [assumption|]. exists x. split; [reflexivity|].
      eapply mgood_ext; eauto.
    - destruct (proj2 He1 x _ Hv) as (v1 & Hg1 & Hr1). rewrite Hg1 in Hb.
      destruct v1 as [|n1 py1 ty1 a1 d1 dp1 rs1 sb1 ds1| | |]; simpl in Hr1; try contradiction.
      destruct Hr1 as (_ & _ & -> & _).
      destruct (inv_alloc tm m1 (OField nf py1 ty1 args' d1 dp1 rs1 sb1 ds1) Hi1) as (Hi2 & He2).
      unfold alloc in Hb. inversion Hb; subst m2 ro. clear Hb.
      split; [exact Hi2|]. split; [eapply ext_trans; eauto|]. exists (m_next m1). split; [reflexivity|].
      set (m2 := MkMem ((m_next m1, OField nf py1 ty1 args' d1 dp1 rs1 sb1 ds1) :: m_heap m1) (N.succ (m_next m1))) in *.
      assert (Hy : mget m2 (m_next m1) = Some (OField nf py1 ty1 args' d1 dp1 rs1 sb1 ds1)).
      { unfold mget, m2; simpl. rewrite N.eqb_refl. reflexivity. }
      split.
      + destruct Hg as [Hn _]. unfold nameok, oname in *. rewrite Hy. rewrite Hv in Hn. exact Hn.
      + intros _. unfold args_of. rewrite Hy. eapply Forall_impl; [|exact Hq1]. intros a. apply nameok_ext with (tm := tm). exact He2. }
  destruct Hbase as (Hi2 & He2 & y & -> & Hy).
  destruct (heal_member_good (qmem p k n) _ _ _ _ Hi2 (proj1 Hy) H) as (Hi' & He & Hr).
  split; [assumption|]. split; [eapply ext_trans; eauto|].
  intros z Hz. destruct (Hr z Hz) as (Hn & -> & Ha). split; [assumption|]. rewrite Ha. intros _.
  eapply Forall_impl; [|exact (proj2 Hy Hk)]. intros a. apply nameok_ext with (tm := tm). exact He.
Qed.

Lemma heal_inf_good k n m x m' r :
  inv tm m -> mgood p k n m x -> visit_inf (heal_visitor tm) m x = Some (m', r) ->
  inv tm m' /\ ext tm m m' /\ (forall y, r = Some y -> mgood p k n m' y).
Proof.
  intros Hi Hg H. rewrite visit_inf_heal in H.
  destruct (heal_member_good (qmem p k n) _ _ _ _ Hi (proj1 Hg) H) as (Hi' & He & Hr).
  split; [assumption|]. split; [assumption|]. intros y Hy. destruct (Hr y Hy) as (Hn & -> & Ha).
  split; [assumption|]. rewrite Ha. intros Hk. eapply Forall_impl; [|exact (proj2 Hg Hk)]. intros a. apply nameok_ext with (tm := tm). exact He.
Qed.

Lemma heal_env_good k n m x m' r :
  inv tm m -> mgood p k n m x -> visit_env (heal_visitor tm) m x = Some (m', r) ->
  inv tm m' /\ ext tm m m' /\ (forall y, r = Some y -> mgood p k n m' y).
Proof.
  intros Hi Hg H. unfold visit_env, hseq, heal_visitor, hid in H; simpl in H. inversion H; subst.
  split; [assumption|]. split; [apply ext_refl|]. intros y Hy; inversion Hy; subst; assumption.
Qed.

(* on_<type> of the healing visitor: the members of what it returns are good *)
Lemma heal_type_good m t m' r n nt k d ms ifs rs ds :
  inv tm m -> mget m t = Some (OType nt k d ms ifs rs ds) -> tgood p m n t ->
  visit_type (heal_visitor tm) m t = Some (m', r) ->
  exists y, r = Some y /\ tgood p m' n y.
Proof.
  intros Hi Hg Hms H. unfold tgood in Hms. rewrite Hg in Hms.
  change (visit_type (heal_visitor tm) m t)
    with (match base_type (heal_visitor tm) m t with
          | None => None
          | Some (m2, None) => Some (m2, None)
          | Some (m2, Some o2) => heal_type tm m2 o2
          end) in H.
  destruct (base_type (heal_visitor tm) m t) as [[m2 ro]|] eqn:Hb; [|discriminate].
  destruct (base_type_spec tm _ _ _ _ Hi Hb) as (Hi2 & He2 & y & n2 & k2 & d2 & ms2 & ifs2 & rs2 & ds2 & -> & Hg2 & Hmg & _ & _).
  assert (Hbase : tgood p m2 n y).
  { unfold base_type in Hb. rewrite Hg in Hb.
    assert (Hsame : m2 = m -> y = t -> tgood p m2 n y).
    { intros -> ->. unfold tgood. rewrite Hg. assumption. }
    assert (Hgen : forall h : hook,
      (forall m x m' r, inv tm m -> mgood p k n m x -> h m x = Some (m', r) ->
         inv tm m' /\ ext tm m m' /\ (forall y, r = Some y -> mgood p k n m' y)) ->
      Forall (mgood p k n m) ms -> is_fieldy k = true \/ k = Kinput \/ k = Kenum ->
      match map_filter h m ms with
      | None => None
      | Some (m1, members') =>
          if oids_eqb members' ms then Some (m1, Some t)
          else match mget m1 t with
               | Some (OType n1 k1 d1 _ ifaces r1 ds1) =>
                   let (m3, t') := alloc m1 (OType n1 k1 d1 members' ifaces r1 ds1) in Some (m3, Some t')
               | _ => None
               end
      end = Some (m2, Some y) -> tgood p m2 n y).
    { intros h Hh Hms' Hkk H0. destruct (map_filter h m ms) as [[m1 ms']|] eqn:Hmf; [|discriminate].
      assert (Htg : forall mm l, Forall (mgood p k n mm) l ->
                match k with Kobject | Kinterface | Kinput | Kenum => Forall (mgood p k n mm) l | _ => True end)
        by (intros mm l Hl; destruct k; auto).
      destruct (map_filter_pre (inv tm) (ext tm) (ext_refl tm) (ext_trans tm) h (mgood p k n) (mgood p k n) Hh
                  (fun a b z He => mgood_ext p tm k n a b z He) (fun a b z He => mgood_ext p tm k n a b z He)
                  _ _ _ _ Hi Hms' Hmf) as (Hi1 & He1 & Hq1).
      destruct (proj2 He1 t _ Hg) as (v1 & Hg1 & Hr1).
      destruct v1 as [n1 k1 d1 ms1 ifs1 rs1 ds1| | | |]; simpl in Hr1; try contradiction.
      destruct Hr1 as (-> & -> & -> & _).
      destruct (oids_eqb ms' ms) eqn:Heq.
      - inversion H0; subst m2 y. apply oids_eqb_eq in Heq. subst ms'. unfold tgood. rewrite Hg1. apply Htg. exact Hq1.
      - rewrite Hg1 in H0.
        destruct (inv_alloc tm m1 (OType nt k d1 ms' ifs1 rs1 ds1) Hi1) as (Hi3 & He3).
        unfold alloc in H0. inversion H0; subst m2 y. clear H0.
        unfold tgood, mget. simpl. rewrite N.eqb_refl. apply Htg.
        eapply Forall_impl; [|exact Hq1]. intros a. apply mgood_ext with (tm := tm). exact He3. }
    destruct k.
    - inversion Hb; subst. apply Hsame; reflexivity.
    - apply (Hgen (visit_field (heal_visitor tm)) (heal_field_good Kobject n eq_refl) Hms (or_introl eq_refl) Hb).
    - apply (Hgen (visit_field (heal_visitor tm)) (heal_field_good Kinterface n eq_refl) Hms (or_introl eq_refl) Hb).
    - inversion Hb; subst. apply Hsame; reflexivity.
    - apply (Hgen (visit_env (heal_visitor tm)) (heal_env_good Kenum n) Hms (or_intror (or_intror eq_refl)) Hb).
    - apply (Hgen (visit_inf (heal_visitor tm)) (heal_inf_good Kinput n) Hms (or_intror (or_introl eq_refl)) Hb). }
  destruct (heal_type_spec tm _ _ _ _ _ _ _ _ _ _ _ Hi2 Hg2 Hmg H) as (Hi' & He' & -> & _).
  exists y. split; [reflexivity|]. eapply tgood_ext; eauto.
Qed.

End HealGood.

Section LoopGood.
Variable p : vis_preds.

Definition regood (m : mem) (tm : list (str * oid)) : Prop :=
  forall n o, In (n, o) tm -> is_builtin o = false -> tgood p m n o.
Definition dsgood (m : mem) (dm : list (str * oid)) : Prop :=
  forall n d, In (n, d) dm -> dgood p m d.

Lemma tname_exists m o n : tname m o = Some n -> exists v, mget m o = Some v.
Proof. unfold tname. destruct (mget m o) as [v|]; [eauto|discriminate]. Qed.

Lemma type_good_exists tm0 m y : type_good tm0 m y -> exists v, mget m y = Some v.
Proof. unfold type_good. destruct (mget m y) as [v|]; [eauto|contradiction]. Qed.

Lemma traverse_types_good tm0 : forall l m m' ups,
  inv tm0 m ->
  (forall n o, In (n, o) l -> is_builtin o = false -> tgood p m n o /\ tname m o = Some n) ->
  traverse_list (visit_type (heal_visitor tm0)) is_builtin m l = Some (m', ups) ->
  forall n y, In (n, Some y) ups -> tgood p m' n y.
Proof.
  induction l as [|[n0 o0] l IH]; intros m m' ups Hi Hl H n y Hin; simpl in H.
  - inversion H; subst. destruct Hin.
  - assert (Hl' : forall n1 o1, In (n1, o1) l -> is_builtin o1 = false -> tgood p m n1 o1 /\ tname m o1 = Some n1)
      by (intros; apply Hl; [right; assumption|assumption]).
    destruct (is_builtin o0) eqn:Hb0; [exact (IH m m' ups Hi Hl' H n y Hin)|].
    destruct (visit_type (heal_visitor tm0) m o0) as [[m1 r]|] eqn:Hv; [|discriminate].
    destruct (traverse_list (visit_type (heal_visitor tm0)) is_builtin m1 l) as [[m2 ups']|] eqn:Ht; [|discriminate].
    inversion H; subst m' ups; clear H.
    destruct (Hl n0 o0 (or_introl eq_refl) Hb0) as (Hg0 & Hn0).
    destruct (heal_type_hook tm0 _ _ _ _ Hi Hv) as (Hi1 & He1 & y1 & -> & Hty1 & _).
    destruct (traverse_types_spec tm0 _ _ _ _ Hi1 Ht) as (Hi2 & He2 & _ & _).
    assert (Hl1 : forall n1 o1, In (n1, o1) l -> is_builtin o1 = false -> tgood p m1 n1 o1 /\ tname m1 o1 = Some n1).
    { intros n1 o1 Hin1 Hb1. destruct (Hl' n1 o1 Hin1 Hb1) as (A & B). destruct (tname_exists _ _ _ B) as (v & Hv1).
      split; [eapply tgood_ext; eauto|eapply ext_tname; eauto]. }
    assert (Hcases : (n, Some y) = (n0, Some y1) \/ In (n, Some y) ups').
    { destruct (ooid_eqb (Some y1) (Some o0)); [right; assumption|destruct Hin; auto]. }
    destruct Hcases as [Heq|Hin'].
    + inversion Heq; subst n y.
      unfold tname in Hn0. destruct (mget m o0) as [[nt k d ms ifs rs ds| | | |]|] eqn:Hg; try discriminate.
      destruct (heal_type_good p tm0 _ _ _ _ n0 _ _ _ _ _ _ _ Hi Hg Hg0 Hv) as (y2 & Hy2 & Hgood).
      inversion Hy2; subst y2. destruct (type_good_exists _ _ _ Hty1) as (v1 & Hv1).
      eapply tgood_ext; [exact He2|exact Hv1|exact Hgood].
    + exact (IH m1 m2 ups' Hi1 Hl1 Ht n y Hin').
Qed.

Lemma heal_dir_good tm0 m d m' r :
  inv tm0 m -> dgood p m d -> visit_dir (heal_visitor tm0) m d = Some (m', r) ->
  forall y, r = Some y -> dgood p m' y.
Proof.
  intros Hi Hg H y Hy. subst r.
  change (visit_dir (heal_visitor tm0) m d)
    with (match base_dir (heal_visitor tm0) m d with
          | None => None
          | Some (m2, None) => Some (m2, None)
          | Some (m2, Some o2) => Some (m2, Some o2)
          end) in H.
  unfold base_dir in H. destruct (mget m d) as [v|] eqn:Hv; [|discriminate].
  destruct v as [| | | |n ds locs args]; try discriminate.
  assert (Hargs : Forall (nameok (vp_arg p) m) args) by (unfold dgood, dir_args in Hg; rewrite Hv in Hg; exact Hg).
  destruct (map_filter (visit_arg (heal_visitor tm0)) m args) as [[m1 args']|] eqn:Hmf; [|discriminate].
  destruct (map_filter_pre (inv tm0) (ext tm0) (ext_refl tm0) (ext_trans tm0) _ (nameok (vp_arg p)) (nameok (vp_arg p))
              (heal_arg_good p tm0) (fun a b z He => nameok_ext tm0 _ a b z He) (fun a b z He => nameok_ext tm0 _ a b z He)
              _ _ _ _ Hi Hargs Hmf) as (Hi1 & He1 & Hq1).
  destruct (proj2 He1 d _ Hv) as (v1 & Hg1 & Hr1).
  destruct v1; simpl in Hr1; try contradiction. inversion Hr1; subst.
  destruct (oids_eqb args' args) eqn:Heq.
  - inversion H; subst. apply oids_eqb_eq in Heq. subst args'.
    unfold dgood, dir_args. rewrite Hg1. exact Hq1.
  - rewrite Hg1 in H. destruct (inv_alloc tm0 m1 (ODir n ds locs args') Hi1) as (Hi2 & He2).
    unfold alloc in H. inversion H; subst.
    unfold dgood, dir_args, mget. simpl. rewrite N.eqb_refl.
    eapply Forall_impl; [|exact Hq1]. intros a. apply nameok_ext with (tm := tm0). exact He2.
Qed.

Lemma dir_good_exists tm0 m y : dir_good tm0 m y -> exists v, mget m y = Some v.
Proof. unfold dir_good. destruct (mget m y) as [v|]; [eauto|contradiction]. Qed.

Lemma traverse_dirs_good tm0 : forall l m m' ups,
  inv tm0 m -> (forall n d, In (n, d) l -> dgood p m d /\ exists v, mget m d = Some v) ->
  traverse_list (visit_dir (heal_visitor tm0)) (fun _ => false) m l = Some (m', ups) ->
  forall n y, In (n, Some y) ups -> dgood p m' y.
Proof.
  induction l as [|[n0 d0] l IH]; intros m m' ups Hi Hl H n y Hin; simpl in H.
  - inversion H; subst. destruct Hin.
  - destruct (visit_dir (heal_visitor tm0) m d0) as [[m1 r]|] eqn:Hv; [|discriminate].
    destruct (traverse_list (visit_dir (heal_visitor tm0)) (fun _ => false) m1 l) as [[m2 ups']|] eqn:Ht; [|discriminate].
    inversion H; subst m' ups; clear H.
    destruct (Hl n0 d0 (or_introl eq_refl)) as (Hg0 & _).
    destruct (heal_dir_hook tm0 _ _ _ _ Hi Hv) as (Hi1 & He1 & y1 & -> & Hdg1).
    destruct (traverse_dirs_spec tm0 _ _ _ _ Hi1 Ht) as (Hi2 & He2 & _ & _).
    assert (Hl1 : forall n1 d1, In (n1, d1) l -> dgood p m1 d1 /\ exists v, mget m1 d1 = Some v).
    { intros n1 d1 Hin1. destruct (Hl n1 d1 (or_intror Hin1)) as (A & v & Hv1).
      split; [eapply dgood_ext; eauto|]. destruct (proj2 He1 d1 v Hv1) as (v' & Hv' & _). eauto. }
    assert (Hcases : (n, Some y) = (n0, Some y1) \/ In (n, Some y) ups').
    { destruct (ooid_eqb (Some y1) (Some d0)); [right; assumption|destruct Hin; auto]. }
    destruct Hcases as [Heq|Hin'].
    + inversion Heq; subst n y. destruct (dir_good_exists _ _ _ Hdg1) as (v1 & Hv1).
      eapply dgood_ext; [exact He2|exact Hv1|]. eapply heal_dir_good; [exact Hi|exact Hg0|exact Hv|reflexivity].
    + exact (IH m1 m2 ups' Hi1 Hl1 Ht n y Hin').
Qed.

(* the healing loop keeps every registered type and directive good *)
Lemma heal_from_good : forall fuel m s m' s',
  fresh_ok m -> wf_reg m (s_types s) -> NoDup (map fst (s_dirs s)) ->
  regood m (s_types s) -> dsgood m (s_dirs s) -> (forall n d, In (n, d) (s_dirs s) -> exists v, mget m d = Some v) ->
  heal_from fuel m s = Ok (m', s') ->
  regood m' (s_types s') /\ dsgood m' (s_dirs s').
Proof.
  induction fuel as [|fuel IH]; intros m s m' s' Hf Hwf Hnd Hrg Hdg Hdex H; unfold heal_from in H.
  - destruct (traverse _ m s) as [[[m1 tu] du]|]; simpl in H; discriminate.
  - unfold traverse in H.
    destruct (traverse_list (visit_type (heal_visitor (s_types s))) is_builtin m (s_types s))
      as [[m1 tu]|] eqn:Ht; [|discriminate].
    destruct (traverse_list (visit_dir (heal_visitor (s_types s))) (fun _ => false) m1 (s_dirs s))
      as [[m2 du]|] eqn:Hd; [|discriminate].
    assert (Hi : inv (s_types s) m) by (split; [assumption|apply wf_reg_lookup; assumption]).
    destruct (traverse_types_spec _ _ _ _ _ Hi Ht) as (Hi1 & He1 & _ & Hups).
    destruct (traverse_dirs_spec _ _ _ _ _ Hi1 Hd) as (Hi2 & He2 & _ & Hdups).
    assert (He : ext (s_types s) m m2) by (eapply ext_trans; eauto).
    assert (Hwf2 : wf_reg m2 (s_types s)) by (eapply wf_reg_ext; eauto).
    assert (Htu : forall n y, In (n, Some y) tu -> tgood p m2 n y).
    { intros n y Hin.
      pose proof (traverse_types_good _ _ _ _ _ Hi
                    (fun n0 o0 Hin0 Hb0 => conj (Hrg n0 o0 Hin0 Hb0) (proj2 Hwf n0 o0 Hin0)) Ht n y Hin) as Hg1.
      destruct (Hups n (Some y) Hin) as (o & y' & Ho & Hy & Htn). inversion Hy; subst y'.
      destruct (tname_exists _ _ _ (Htn (proj2 Hwf n o Ho))) as (v & Hv). eapply tgood_ext; [exact He2|exact Hv|exact Hg1]. }
    assert (Hdex1 : forall n d, In (n, d) (s_dirs s) -> dgood p m1 d /\ exists v, mget m1 d = Some v).
    { intros n d Hin. destruct (Hdex n d Hin) as (v & Hv). split; [eapply dgood_ext; eauto|].
      destruct (proj2 He1 d v Hv) as (v' & Hv' & _). eauto. }
    pose proof (traverse_dirs_good _ _ _ _ _ Hi1 Hdex1 Hd) as Hdu.
    rewrite replace_and_heal_S in H.
    destruct (replace_types m2 tu (s_types s) false) as [[tm' b]| | |] eqn:Hrt; simpl in H; try discriminate.
    destruct (replace_dirs du (s_dirs s)) as [dm| | |] eqn:Hrd; simpl in H; try discriminate.
    destruct (replace_dirs_spec _ _ _ Hnd Hrd) as (Hnd' & Hdm).
    assert (Hwf' : wf_reg m2 tm').
    { eapply replace_types_wf; [exact Hwf2| |exact Hrt].
      intros n y Hin. destruct (Hups n (Some y) Hin) as (o & y' & Ho & Hy & Ht'). inversion Hy; subst y'.
      eapply ext_tname; [exact He2|]. apply Ht'. destruct Hwf as [_ Hn]. auto. }
    assert (Hrg' : regood m2 tm').
    { intros n o Hin Hb. destruct (replace_types_in _ _ _ _ _ _ _ _ Hrt Hin) as [Ha|Hb'].
      - destruct (tname_exists _ _ _ (proj2 Hwf n o Ha)) as (v & Hv). eapply tgood_ext; eauto.
      - apply Htu. assumption. }
    assert (Hdg' : dsgood m2 dm /\ forall n d, In (n, d) dm -> exists v, mget m2 d = Some v).
    { split; intros n d Hin; destruct (Hdm n d Hin) as [Hl|[Hr _]].
      - eapply Hdu; eauto.
      - destruct (Hdex n d Hr) as (v & Hv). eapply dgood_ext; eauto.
      - destruct (Hdups n (Some d) Hl) as (y & Hy & Hg). inversion Hy; subst. eapply dir_good_exists; eauto.
      - destruct (Hdex n d Hr) as (v & Hv). destruct (proj2 He d v Hv) as (v' & Hv' & _). eauto. }
    destruct Hdg' as (Hdg' & Hdex').
    destruct b.
    + match type of H with obind (heal_from fuel m2 ?s1) _ = _ =>
        destruct (heal_from fuel m2 s1) as [[m3 s3]| | |] eqn:Hrec; simpl in H; try discriminate;
        destruct (IH m2 s1 m3 s3 (proj1 Hi2) Hwf' Hnd' Hrg' Hdg' Hdex' Hrec) as (A & B) end.
      inversion H; subst. split; assumption.
    + inversion H; subst. split; assumption.
Qed.

End LoopGood.

(* ------------------------------------------------ the visibility pass *)
(* the member-level hooks of the visibility transform only allocate *)
Definition pres (m m' : mem) : Prop :=
  m_next m <= m_next m' /\ forall o v, mget m o = Some v -> mget m' o = Some v.
Lemma pres_refl m : pres m m.
Proof. split; [lia|auto]. Qed.
Lemma pres_trans a b c : pres a b -> pres b c -> pres a c.
Proof. intros [N1 P1] [N2 P2]. split; [lia|auto]. Qed.
Lemma pres_alloc m v : vinv m -> vinv (fst (alloc m v)) /\ pres m (fst (alloc m v)).
Proof.
  intros Hi. destruct (tnr_alloc m v Hi) as (Hi' & _). split; [assumption|]. split; [simpl; lia|].
  intros o w Hg. rewrite mget_alloc. destruct (N.eqb_spec o (m_next m)) as [->|]; [|assumption].
  rewrite (proj1 Hi (m_next m)) in Hg; [discriminate|lia].
Qed.
Lemma pres_tnr m m' : pres m m' -> tnr m m'.
Proof.
  intros [N P]. split; [assumption|]. split; [|auto].
  intros o i Hty. unfold tyi in *. destruct (mget m o) as [v|] eqn:Hg; [|discriminate]. rewrite (P o v Hg). exact Hty.
Qed.

Section VisGood.
Variable p : vis_preds.

Lemma by_name_good pred m x m' r :
  by_name pred m x = Some (m', r) -> m' = m /\ (forall y, r = Some y -> nameok pred m y /\ y = x).
Proof.
  intros H. unfold by_name in H. destruct (oname m x) as [n|] eqn:Hn; [|discriminate].
  inversion H; subst. split; [reflexivity|].
  intros y Hy. destruct (pred n) eqn:Hp; inversion Hy; subst. split; [|reflexivity].
  unfold nameok. rewrite Hn. exact Hp.
Qed.

Lemma vis_arg_good m x m' r :
  vinv m -> True -> visit_arg (vis_visitor p) m x = Some (m', r) ->
  vinv m' /\ pres m m' /\ (forall y, r = Some y -> nameok (vp_arg p) m' y).
Proof.
  intros Hi _ H. unfold visit_arg, hseq in H. simpl in H.
  destruct (by_name (vp_arg p) m x) as [[m1 ro]|] eqn:E; [|discriminate].
  destruct (by_name_good _ _ _ _ _ E) as (-> & C).
  destruct ro as [o1|]; unfold hid in H; inversion H; subst; (split; [assumption|]; split; [apply pres_refl|]).
  - intros y Hy. inversion Hy; subst. exact (proj1 (C y eq_refl)).
  - intros y Hy; discriminate.
Qed.

Lemma Forall_triv' {A} (l : list A) : Forall (fun _ => True) l.
Proof. induction l; constructor; auto. Qed.

Lemma nameok_pres q m m' x : pres m m' -> nameok q m x -> nameok q m' x.
Proof. intros R. apply nameok_tnr. apply pres_tnr. exact R. Qed.
Lemma mgood_pres k n m m' x : pres m m' -> mgood p k n m x -> mgood p k n m' x.
Proof. intros R. apply mgood_tnr. apply pres_tnr. exact R. Qed.

(* on_field: same name, arguments filtered *)
Lemma vis_field_good k n (Hk : is_fieldy k = true) m x m' r :
  vinv m -> nameok (qmem p k n) m x -> visit_field (vis_visitor p) m x = Some (m', r) ->
  vinv m' /\ pres m m' /\ (forall y, r = Some y -> mgood p k n m' y).
Proof.
  intros Hi Hn H. unfold visit_field, hseq in H. simpl in H. unfold hid in H at 1.
  destruct (base_field (vis_visitor p) m x) as [[m2 ro]|] eqn:Hb; [|discriminate].
  assert (Hbase : vinv m2 /\ pres m m2 /\ forall y, ro = Some y -> mgood p k n m2 y).
  { unfold base_field in Hb. destruct (mget m x) as [v|] eqn:Hv; [|discriminate].
    destruct v as [|nf py ty args d dp rs sb ds| | |]; try discriminate.
    destruct (map_filter (visit_arg (vis_visitor p)) m args) as [[m1 args']|] eqn:Hmf; [|discriminate].
    destruct (map_filter_pre vinv pres pres_refl pres_trans _ (fun _ _ => True) (nameok (vp_arg p))
                vis_arg_good (fun _ _ _ _ _ => Logic.I) (fun a b z R => nameok_pres _ a b z R)
                _ _ _ _ Hi (Forall_triv' args) Hmf) as (Hi1 & R1 & Hq1).
    pose proof (proj2 R1 x _ Hv) as Hg1.
    destruct (oids_eqb args' args) eqn:Heq.
    - inversion Hb; subst m2 ro. split; [assumption|]. split; [assumption|]. intros y Hy. inversion Hy; subst y.
      apply oids_eqb_eq in Heq. subst args'. split; [eapply nameok_pres; eauto|]. intros _.
      unfold args_of. rewrite Hg1. exact Hq1.
    - rewrite Hg1 in Hb. destruct (pres_alloc m1 (OField nf py ty args' d dp rs sb ds) Hi1) as (Hi2 & R2).
      unfold alloc in Hb, Hi2, R2. simpl in Hi2, R2. inversion Hb; subst m2 ro.
      split; [assumption|]. split; [eapply pres_trans; eauto|]. intros y Hy. inversion Hy; subst y.
      set (m2 := MkMem ((m_next m1, OField nf py ty args' d dp rs sb ds) :: m_heap m1) (N.succ (m_next m1))) in *.
      assert (Hy2 : mget m2 (m_next m1) = Some (OField nf py ty args' d dp rs sb ds)).
      { unfold mget, m2; simpl. rewrite N.eqb_refl. reflexivity. }
      split.
      + unfold nameok, oname in *. rewrite Hy2. rewrite Hv in Hn. exact Hn.
      + intros _. unfold args_of. rewrite Hy2. eapply Forall_impl; [|exact Hq1]. intros a. apply nameok_pres. exact R2. }
  destruct Hbase as (A & B & C). destruct ro as [y|]; unfold hid in H; inversion H; subst.
  - split; [assumption|]. split; [assumption|]. intros z Hz. inversion Hz; subst. apply C. reflexivity.
  - split; [assumption|]. split; [assumption|]. intros z Hz; discriminate.
Qed.

(* on_input_field: kept as it is, or dropped *)
Lemma vis_inf_good k n (Hk : is_fieldy k = false) m x m' r :
  vinv m -> nameok (qmem p k n) m x -> visit_inf (vis_visitor p) m x = Some (m', r) ->
  vinv m' /\ pres m m' /\ (forall y, r = Some y -> mgood p k n m' y).
Proof.
  intros Hi Hn H. unfold visit_inf, hseq in H. simpl in H.
  unfold vis_inf_pre in H. destruct (mget m x) as [[| |ia nn py ty df dd dss| |]|]; try discriminate.
  destruct (type_visible p m (unwrap ty)); unfold hid in H; inversion H; subst;
    (split; [assumption|]; split; [apply pres_refl|]; intros y Hy; inversion Hy; subst).
  split; [assumption|]. intros Hc. congruence.
Qed.

(* on_enum_value *)
Lemma vis_env_good k n (Hk : is_fieldy k = false) (Hq : qmem p k n = vp_env p) m x m' r :
  vinv m -> True -> visit_env (vis_visitor p) m x = Some (m', r) ->
  vinv m' /\ pres m m' /\ (forall y, r = Some y -> mgood p k n m' y).
Proof.
  intros Hi _ H. unfold visit_env, hseq in H. simpl in H.
  destruct (by_name (vp_env p) m x) as [[m1 ro]|] eqn:E; [|discriminate].
  destruct (by_name_good _ _ _ _ _ E) as (-> & C).
  destruct ro as [o1|]; unfold hid in H; inversion H; subst; (split; [assumption|]; split; [apply pres_refl|]).
  - intros y Hy. inversion Hy; subst. split; [rewrite Hq; exact (proj1 (C y eq_refl))|intros Hc; congruence].
  - intros y Hy; discriminate.
Qed.

Lemma filter_by_name_ok m q l : Forall (nameok q m) (filter_by_name m q l).
Proof.
  unfold filter_by_name. apply Forall_forall. intros x Hx. apply filter_In in Hx. destruct Hx as [_ Hx].
  unfold nameok. destruct (oname m x); [assumption|discriminate].
Qed.

(* the pre hook leaves only accepted members in the type it keeps *)
Lemma vis_type_pre_members m o m1 n k :
  tyi m o = Some (n, k) -> vis_type_pre p m o = Some (m1, Some o) ->
  exists d ms ifs rs ds, mget m1 o = Some (OType n k d ms ifs rs ds) /\
    match k with Kobject | Kinterface | Kinput => Forall (nameok (qmem p k n) m1) ms | _ => True end.
Proof.
  intros Hty Ep. unfold vis_type_pre in Ep. unfold tyi in Hty.
  destruct (mget m o) as [[n0 k0 d ms ifs rs ds| | | |]|] eqn:Hg; try discriminate. inversion Hty; subst n0 k0.
  assert (Hw : forall q ms', ms' = filter_by_name m q ms ->
            exists d0 ms0 ifs0 rs0 ds0,
              mget (if oids_eqb ms' ms then m else write m o (OType n k d ms' ifs rs ds)) o
                = Some (OType n k d0 ms0 ifs0 rs0 ds0) /\
              Forall (nameok q (if oids_eqb ms' ms then m else write m o (OType n k d ms' ifs rs ds))) ms0).
  { intros q ms' ->. destruct (oids_eqb (filter_by_name m q ms) ms) eqn:Heq.
    - apply oids_eqb_eq in Heq. exists d, ms, ifs, rs, ds. split; [assumption|].
      pose proof (filter_by_name_ok m q ms) as Hok. rewrite Heq in Hok. exact Hok.
    - exists d, (filter_by_name m q ms), ifs, rs, ds. split; [rewrite mget_write, N.eqb_refl; reflexivity|].
      eapply Forall_impl; [|apply filter_by_name_ok]. intros a Ha.
      unfold nameok, oname in *. rewrite mget_write. destruct (N.eqb_spec a o) as [->|]; [|assumption].
      rewrite Hg in Ha. exact Ha. }
  destruct k; try (inversion Ep; subst; exists d, ms, ifs, rs, ds; split; [assumption|exact Logic.I]).
  - destruct (type_visible p m o); inversion Ep; subst.
    destruct (Hw (vp_field p n) _ eq_refl) as (d0 & ms0 & ifs0 & rs0 & ds0 & A & B). exists d0, ms0, ifs0, rs0, ds0. auto.
  - destruct (type_visible p m o); inversion Ep; subst.
    destruct (Hw (vp_field p n) _ eq_refl) as (d0 & ms0 & ifs0 & rs0 & ds0 & A & B). exists d0, ms0, ifs0, rs0, ds0. auto.
  - inversion Ep; subst.
    destruct (Hw (vp_inf p n) _ eq_refl) as (d0 & ms0 & ifs0 & rs0 & ds0 & A & B). exists d0, ms0, ifs0, rs0, ds0. auto.
Qed.

(* SchemaVisitor.on_<type> after the pre hook *)
Lemma vis_base_type_good m1 o m2 y2 n k d ms ifs rs ds :
  vinv m1 -> mget m1 o = Some (OType n k d ms ifs rs ds) ->
  match k with Kobject | Kinterface | Kinput => Forall (nameok (qmem p k n) m1) ms | _ => True end ->
  base_type (vis_visitor p) m1 o = Some (m2, Some y2) ->
  tgood p m2 n y2 /\ pres m1 m2 /\ vinv m2 /\ tyi m2 y2 = Some (n, k).
Proof.
  intros I1 Hg1 Hms Eb. unfold base_type in Eb. rewrite Hg1 in Eb.
  assert (Htg : forall mm l, Forall (mgood p k n mm) l ->
            match k with Kobject | Kinterface | Kinput | Kenum => Forall (mgood p k n mm) l | _ => True end)
    by (intros mm l Hl; destruct k; auto).
  assert (Hgen : forall (h : hook) (P : mem -> oid -> Prop),
    (forall m x m' r, vinv m -> P m x -> h m x = Some (m', r) ->
       vinv m' /\ pres m m' /\ (forall y, r = Some y -> mgood p k n m' y)) ->
    (forall a b z, pres a b -> P a z -> P b z) -> Forall (P m1) ms ->
    match map_filter h m1 ms with
    | None => None
    | Some (mx, members') =>
        if oids_eqb members' ms then Some (mx, Some o)
        else match mget mx o with
             | Some (OType n1 k1 d1 _ ifaces r1 ds1) =>
                 let (m3, t') := alloc mx (OType n1 k1 d1 members' ifaces r1 ds1) in Some (m3, Some t')
             | _ => None
             end
    end = Some (m2, Some y2) -> tgood p m2 n y2 /\ pres m1 m2 /\ vinv m2 /\ tyi m2 y2 = Some (n, k)).
  { intros h P Hh HP Hin H0. destruct (map_filter h m1 ms) as [[mx ms']|] eqn:Hmf; [|discriminate].
    destruct (map_filter_pre vinv pres pres_refl pres_trans h P (mgood p k n) Hh HP
                (fun a b z R => mgood_pres k n a b z R) _ _ _ _ I1 Hin Hmf) as (Ix & Rx & Hqx).
    pose proof (proj2 Rx o _ Hg1) as Hgx.
    destruct (oids_eqb ms' ms) eqn:Heq.
    - inversion H0; subst m2 y2. apply oids_eqb_eq in Heq. subst ms'.
      split; [unfold tgood; rewrite Hgx; apply Htg; exact Hqx|]. split; [assumption|]. split; [assumption|].
      unfold tyi. rewrite Hgx. reflexivity.
    - rewrite Hgx in H0. unfold alloc in H0. inversion H0; subst m2 y2.
      destruct (pres_alloc mx (OType n k d ms' ifs rs ds) Ix) as (I3 & R3). unfold alloc in R3, I3; simpl in R3, I3.
      split; [|split; [eapply pres_trans; eauto|split; [assumption|unfold tyi, mget; simpl; rewrite N.eqb_refl; reflexivity]]].
      unfold tgood, mget. simpl. rewrite N.eqb_refl. apply Htg.
      eapply Forall_impl; [|exact Hqx]. intros a. apply mgood_pres. exact R3. }
  assert (Hsc : forall kk, k = kk -> (kk = Kscalar \/ kk = Kunion) -> Some (m1, Some o) = Some (m2, Some y2) ->
            tgood p m2 n y2 /\ pres m1 m2 /\ vinv m2 /\ tyi m2 y2 = Some (n, k)).
  { intros kk -> Hkk H0. inversion H0; subst. split; [unfold tgood; rewrite Hg1; destruct Hkk as [-> | ->]; exact Logic.I|].
    split; [apply pres_refl|]. split; [assumption|unfold tyi; rewrite Hg1; reflexivity]. }
  destruct k.
  - apply (Hsc Kscalar eq_refl (or_introl eq_refl) Eb).
  - apply (Hgen _ _ (vis_field_good Kobject n eq_refl) (fun a b z R => nameok_pres _ a b z R) Hms Eb).
  - apply (Hgen _ _ (vis_field_good Kinterface n eq_refl) (fun a b z R => nameok_pres _ a b z R) Hms Eb).
  - apply (Hsc Kunion eq_refl (or_intror eq_refl) Eb).
  - apply (Hgen _ (fun _ _ => True) (vis_env_good Kenum n eq_refl eq_refl) (fun _ _ _ _ _ => Logic.I) (Forall_triv' ms) Eb).
  - apply (Hgen _ _ (vis_inf_good Kinput n eq_refl) (fun a b z R => nameok_pres _ a b z R) Hms Eb).
Qed.

(* on_object / on_interface / on_input_object / on_enum / ...: what comes out
   has only accepted members, with only accepted arguments *)
Lemma vis_type_pre_frame m o m1 r1 z v :
  vis_type_pre p m o = Some (m1, r1) -> z <> o -> mget m z = Some v -> mget m1 z = Some v.
Proof.
  intros Ep Hz Hg. unfold vis_type_pre in Ep.
  destruct (mget m o) as [[n k d ms ifs rs ds| | | |]|]; try discriminate.
  assert (Hw : forall ms', mget (if oids_eqb ms' ms then m else write m o (OType n k d ms' ifs rs ds)) z = Some v).
  { intros ms'. destruct (oids_eqb ms' ms); [assumption|]. rewrite mget_write.
    destruct (N.eqb_spec z o); [contradiction|assumption]. }
  destruct k; try (inversion Ep; subst; assumption); try (inversion Ep; subst; apply Hw);
    (destruct (type_visible p m o); inversion Ep; subst; [apply Hw|assumption]).
Qed.

Lemma vis_type_good m o m' y n k :
  vinv m -> tyi m o = Some (n, k) -> is_builtin o = false ->
  visit_type (vis_visitor p) m o = Some (m', Some y) ->
  tgood p m' n y /\ tyi m' y = Some (n, k) /\
  (forall z v, z <> o -> mget m z = Some v -> mget m' z = Some v).
Proof.
  intros Hi Hty Hb H.
  change (visit_type (vis_visitor p) m o) with (hseq (vis_type_pre p) (base_type (vis_visitor p)) (vis_type_post p) m o) in H.
  unfold hseq in H.
  destruct (vis_type_pre p m o) as [[m1 r1]|] eqn:Ep; [|discriminate].
  destruct (vis_type_pre_spec p _ _ _ _ _ _ Hi Hty Hb Ep) as (I1 & R1 & Hr1).
  destruct r1 as [o1|]; [|discriminate].
  assert (o1 = o) by (destruct k; try (inversion Hr1; reflexivity); destruct (vp_type p n); inversion Hr1; reflexivity).
  subst o1. destruct (vis_type_pre_members _ _ _ _ _ Hty Ep) as (d & ms & ifs & rs & ds & Hg1 & Hms).
  destruct (base_type (vis_visitor p) m1 o) as [[m2 r2]|] eqn:Eb; [|discriminate].
  destruct r2 as [y2|]; [|discriminate].
  destruct (vis_base_type_good _ _ _ _ _ _ _ _ _ _ _ I1 Hg1 Hms Eb) as (Hgood & Rp & _ & Hty2).
  unfold vis_type_post in H. destruct (tkind m2 y2) as [k2|]; [|discriminate].
  assert (Hres : m' = m2 /\ y = y2) by (destruct k2; try (destruct (type_visible p m2 y2)); inversion H; auto).
  destruct Hres as (-> & ->). split; [assumption|]. split; [assumption|].
  intros z v Hz Hg. apply (proj2 Rp). eapply vis_type_pre_frame; eauto.
Qed.

End VisGood.

Section VisFinal.
Variable p : vis_preds.

Lemma tgood_keep m m' n y v :
  tnr m m' -> mget m y = Some v -> mget m' y = Some v -> tgood p m n y -> tgood p m' n y.
Proof.
  intros R Hg Hg' H. unfold tgood in *. rewrite Hg in H. rewrite Hg'. destruct v; auto.
  destruct k; auto; (eapply Forall_impl; [|exact H]; intros a; apply mgood_tnr; exact R).
Qed.

Lemma tyi_exists m o i : tyi m o = Some i -> exists v, mget m o = Some v.
Proof. unfold tyi. destruct (mget m o) as [v|]; [eauto|discriminate]. Qed.

(* the first loop of on_schema for the visibility transform *)
Lemma vis_traverse_good : forall l m m' ups,
  vinv m -> NoDup (map fst l) -> (forall n o, In (n, o) l -> tname m o = Some n) ->
  traverse_list (visit_type (vis_visitor p)) is_builtin m l = Some (m', ups) ->
  vinv m' /\ tnr m m' /\
  (forall z v, mget m z = Some v -> (forall n o, In (n, o) l -> is_builtin o = false -> z <> o) -> mget m' z = Some v) /\
  (forall n y, In (n, Some y) ups -> tgood p m' n y /\ tname m' y = Some n) /\
  (forall n o, In (n, o) l -> is_builtin o = false -> (forall r, ~ In (n, r) ups) -> tgood p m' n o).
Proof.
  induction l as [|[n0 o0] l IH]; intros m m' ups Hi Hnd Hnames H; simpl in H.
  - inversion H; subst. split; [assumption|]. split; [apply tnr_refl|]. split; [auto|]. split; [intros ? ? []|intros ? ? []].
  - inversion Hnd as [|? ? Hn0 Hnd']; subst.
    assert (Hnames' : forall n o, In (n, o) l -> tname m o = Some n) by (intros; apply Hnames; right; assumption).
    destruct (is_builtin o0) eqn:Hb0.
    + destruct (IH _ _ _ Hi Hnd' Hnames' H) as (A & B & C & D & E).
      split; [assumption|]. split; [assumption|]. split; [|split; [assumption|]].
      * intros z v Hz Hne. apply C; [assumption|]. intros n o Hin Hb. apply (Hne n o); [right; assumption|assumption].
      * intros n o [Heq|Hin] Hb Hno; [inversion Heq; subst; congruence|eauto].
    + destruct (visit_type (vis_visitor p) m o0) as [[m1 r]|] eqn:Hv; [|discriminate].
      destruct (traverse_list (visit_type (vis_visitor p)) is_builtin m1 l) as [[m2 ups']|] eqn:Hl; [|discriminate].
      inversion H; subst m' ups; clear H.
      pose proof (Hnames n0 o0 (or_introl eq_refl)) as Ht0. destruct (tname_tyi _ _ _ Ht0) as (k0 & Hty0).
      destruct (vis_visit_type p _ _ _ _ _ Hi Ht0 Hb0 Hv) as (I1 & R1 & _ & _).
      assert (Hnames1 : forall n o, In (n, o) l -> tname m1 o = Some n)
        by (intros n o Hin; eapply tnr_tname; [exact R1|apply Hnames'; assumption]).
      destruct (IH _ _ _ I1 Hnd' Hnames1 Hl) as (I2 & R2 & C2 & D2 & E2).
      destruct (traverse_list_keys _ _ _ _ _ _ Hnd' Hl) as (_ & Hkeys).
      assert (Hnotin : forall r, ~ In (n0, r) ups').
      { intros r9 Hin. apply Hn0. apply Hkeys. apply in_map_iff. exists (n0, r9); split; auto. }
      (* what the visit of o0 returned survives the rest of the loop *)
      assert (Hhead : forall y, r = Some y -> tgood p m2 n0 y /\ tname m2 y = Some n0).
      { intros y ->. destruct (vis_type_good p _ _ _ _ _ _ Hi Hty0 Hb0 Hv) as (Hg & Hty & _).
        destruct (tyi_exists _ _ _ Hty) as (v & Hvy).
        assert (Hkeep : mget m2 y = Some v).
        { apply C2; [assumption|]. intros n o Hin Hb Heq. subst o.
          pose proof (Hnames1 n y Hin) as Hny. destruct (tyi_tname _ _ _ _ Hty) as (Hny' & _).
          rewrite Hny in Hny'. inversion Hny'; subst n. apply Hn0. apply in_map_iff. exists (n0, y); split; auto. }
        split; [eapply tgood_keep; eauto|]. eapply tnr_tname; [exact R2|exact (proj1 (tyi_tname _ _ _ _ Hty))]. }
      split; [assumption|]. split; [eapply tnr_trans; eauto|]. split; [|split].
      * intros z v Hz Hne. apply C2.
        -- destruct r as [y|].
           ++ destruct (vis_type_good p _ _ _ _ _ _ Hi Hty0 Hb0 Hv) as (_ & _ & Fr). apply Fr; [|assumption].
              apply (Hne n0 o0); [left; reflexivity|assumption].
           ++ (* the type was dropped: only the pre hook ran *)
              change (visit_type (vis_visitor p) m o0) with (hseq (vis_type_pre p) (base_type (vis_visitor p)) (vis_type_post p) m o0) in Hv.
              unfold hseq in Hv. destruct (vis_type_pre p m o0) as [[mp rp]|] eqn:Ep; [|discriminate].
              assert (Hz1 : mget mp z = Some v).
              { eapply vis_type_pre_frame; [exact Ep| |exact Hz]. apply (Hne n0 o0); [left; reflexivity|assumption]. }
              destruct rp as [op|]; [|inversion Hv; subst; assumption].
              destruct (base_type (vis_visitor p) mp op) as [[mb rb]|] eqn:Eb; [|discriminate].
              destruct rb as [yb|]; [|inversion Hv; subst].
              ** unfold vis_type_post in Hv. destruct (tkind mb yb) as [kb|]; [|discriminate].
                 assert (mb = m1) by (destruct kb; try (destruct (type_visible p mb yb)); inversion Hv; reflexivity).
                 subst mb.
                 destruct (vis_type_pre_spec p _ _ _ _ _ _ Hi Hty0 Hb0 Ep) as (Ip & Rp & Hrp).
                 assert (op = o0) by (destruct k0; try (inversion Hrp; reflexivity); destruct (vp_type p n0); inversion Hrp; reflexivity).
                 subst op. destruct (vis_type_pre_members p _ _ _ _ _ Hty0 Ep) as (d & ms & ifs & rs & ds & Hg1 & Hms).
                 destruct (vis_base_type_good p _ _ _ _ _ _ _ _ _ _ _ Ip Hg1 Hms Eb) as (_ & Rb & _ & _).
                 apply (proj2 Rb). exact Hz1.
              ** (* SchemaVisitor.on_<type> never returns None *)
                 exfalso. destruct (vis_type_pre_spec p _ _ _ _ _ _ Hi Hty0 Hb0 Ep) as (Ip & Rp & Hrp).
                 destruct (vis_members_tn p) as (Hfd & Hin & Hen).
                 assert (Htyp : exists i, tyi mp op = Some i).
                 { assert (op = o0) by (destruct k0; try (inversion Hrp; reflexivity); destruct (vp_type p n0); inversion Hrp; reflexivity).
                   subst op. exists (n0, k0). exact (proj1 (proj2 Rp) _ _ Hty0). }
                 destruct Htyp as (i & Htyp).
                 destruct (base_type_tn _ Hfd Hin Hen _ _ _ _ _ Ip Htyp Eb) as (_ & _ & yy & Hyy & _). discriminate.
        -- intros n o Hin Hb. apply (Hne n o); [right; assumption|assumption].
      * intros n y Hin. destruct (ooid_eqb r (Some o0)) eqn:Heq; [apply D2; assumption|].
        destruct Hin as [He|Hin]; [|apply D2; assumption]. inversion He; subst. apply Hhead. reflexivity.
      * intros n o [He|Hin] Hb Hno.
        -- inversion He; subst n o. destruct (ooid_eqb r (Some o0)) eqn:Heq.
           ++ apply ooid_eqb_eq in Heq. destruct (Hhead o0 Heq) as (Hg & _). exact Hg.
           ++ exfalso. apply (Hno r). left; reflexivity.
        -- apply E2; [assumption|assumption|]. intros r0 Hin0. apply (Hno r0).
           destruct (ooid_eqb r (Some o0)); [assumption|right; assumption].
Qed.


Lemma dgood_pres m m' d v : pres m m' -> mget m d = Some v -> dgood p m d -> dgood p m' d.
Proof.
  intros R Hg H. unfold dgood, dir_args in *. rewrite (proj2 R d v Hg). rewrite Hg in H.
  destruct v; try constructor. eapply Forall_impl; [|exact H]. intros a. apply nameok_pres. exact R.
Qed.

Lemma vis_dir_good m d m' r :
  vinv m -> visit_dir (vis_visitor p) m d = Some (m', r) ->
  vinv m' /\ pres m m' /\ (forall y, r = Some y -> dgood p m' y /\ exists v, mget m' y = Some v).
Proof.
  intros Hi H. unfold visit_dir, hseq in H. simpl in H.
  destruct (by_name (vp_dir p) m d) as [[m0 r0]|] eqn:E; [|discriminate].
  destruct (by_name_good _ _ _ _ _ E) as (-> & C).
  destruct r0 as [d0|]; [|inversion H; subst; split; [assumption|split; [apply pres_refl|intros y Hy; discriminate]]].
  destruct (C d0 eq_refl) as (_ & ->).
  destruct (base_dir (vis_visitor p) m d) as [[m2 r2]|] eqn:Eb; [|discriminate].
  assert (Hbase : vinv m2 /\ pres m m2 /\ forall y, r2 = Some y -> dgood p m2 y /\ exists v, mget m2 y = Some v).
  { unfold base_dir in Eb. destruct (mget m d) as [v|] eqn:Hv; [|discriminate].
    destruct v as [| | | |n ds locs args]; try discriminate.
    destruct (map_filter (visit_arg (vis_visitor p)) m args) as [[m1 args']|] eqn:Hmf; [|discriminate].
    destruct (map_filter_pre vinv pres pres_refl pres_trans _ (fun _ _ => True) (nameok (vp_arg p))
                (vis_arg_good p) (fun _ _ _ _ _ => Logic.I) (fun a b z R => nameok_pres _ a b z R)
                _ _ _ _ Hi (Forall_triv' args) Hmf) as (Hi1 & R1 & Hq1).
    pose proof (proj2 R1 d _ Hv) as Hg1.
    destruct (oids_eqb args' args) eqn:Heq.
    - inversion Eb; subst m2 r2. split; [assumption|]. split; [assumption|]. intros y Hy. inversion Hy; subst y.
      apply oids_eqb_eq in Heq. subst args'. split; [unfold dgood, dir_args; rewrite Hg1; exact Hq1|eauto].
    - rewrite Hg1 in Eb. destruct (pres_alloc m1 (ODir n ds locs args') Hi1) as (Hi2 & R2).
      unfold alloc in Eb, Hi2, R2. simpl in Hi2, R2. inversion Eb; subst m2 r2.
      split; [assumption|]. split; [eapply pres_trans; eauto|]. intros y Hy. inversion Hy; subst y.
      split; [|unfold mget; simpl; rewrite N.eqb_refl; eauto].
      unfold dgood, dir_args, mget. simpl. rewrite N.eqb_refl.
      eapply Forall_impl; [|exact Hq1]. intros a. apply nameok_pres. exact R2. }
  destruct Hbase as (A & B & D). destruct r2 as [y2|]; unfold hid in H; inversion H; subst.
  - split; [assumption|]. split; [assumption|]. intros y Hy. inversion Hy; subst. apply D. reflexivity.
  - split; [assumption|]. split; [assumption|]. intros y Hy; discriminate.
Qed.

Lemma vis_traverse_dirs : forall l m m' ups,
  vinv m -> traverse_list (visit_dir (vis_visitor p)) (fun _ => false) m l = Some (m', ups) ->
  vinv m' /\ pres m m' /\
  (forall n y, In (n, Some y) ups -> dgood p m' y /\ exists v, mget m' y = Some v) /\
  (forall n d, In (n, d) l -> (forall r, ~ In (n, r) ups) -> dgood p m' d /\ exists v, mget m' d = Some v).
Proof.
  induction l as [|[n0 d0] l IH]; intros m m' ups Hi H; simpl in H.
  - inversion H; subst. split; [assumption|]. split; [apply pres_refl|]. split; [intros ? ? []|intros ? ? []].
  - destruct (visit_dir (vis_visitor p) m d0) as [[m1 r]|] eqn:Hv; [|discriminate].
    destruct (traverse_list (visit_dir (vis_visitor p)) (fun _ => false) m1 l) as [[m2 ups']|] eqn:Hl; [|discriminate].
    inversion H; subst m' ups; clear H.
    destruct (vis_dir_good _ _ _ _ Hi Hv) as (I1 & R1 & G1).
    destruct (IH _ _ _ I1 Hl) as (I2 & R2 & D2 & E2).
    assert (Hhead : forall y, r = Some y -> dgood p m2 y /\ exists v, mget m2 y = Some v).
    { intros y Hy. destruct (G1 y Hy) as (Hg & v & Hvy). split; [eapply dgood_pres; eauto|exists v; apply (proj2 R2); assumption]. }
    split; [assumption|]. split; [eapply pres_trans; eauto|]. split.
    + intros n y Hin. destruct (ooid_eqb r (Some d0)); [apply (D2 n y Hin)|].
      destruct Hin as [He|Hin]; [inversion He; subst; apply Hhead; reflexivity|apply (D2 n y Hin)].
    + intros n d [He|Hin] Hno.
      * inversion He; subst n d. destruct (ooid_eqb r (Some d0)) eqn:Heq.
        -- apply ooid_eqb_eq in Heq. apply Hhead. assumption.
        -- exfalso. apply (Hno r). left; reflexivity.
      * apply (E2 n d Hin). intros r0 Hin0. apply (Hno r0). destruct (ooid_eqb r (Some d0)); [assumption|right; assumption].
Qed.

Lemma replace_types_in_strict m : forall ups tm0 b tm' b' n o,
  NoDup (map fst tm0) -> replace_types m ups tm0 b = Ok (tm', b') -> In (n, o) tm' ->
  In (n, Some o) ups \/ (In (n, o) tm0 /\ forall r, ~ In (n, r) ups).
Proof.
  induction ups as [|[n1 nw] ups IH]; intros tm0 b tm' b' n o Hnd H Hin; simpl in H.
  - inversion H; subst. right. split; [assumption|intros r []].
  - destruct (alookup n1 tm0) as [orig|] eqn:Hl.
    + destruct (is_builtin orig); [discriminate|]. destruct nw as [y|].
      * destruct (tkind m orig); [|discriminate]. destruct (tkind m y); [|discriminate].
        destruct (kind_eqb k k0); [|discriminate].
        destruct (IH _ _ _ _ _ _ (aset_nodup n1 y tm0 Hnd) H Hin) as [Ha|[Ha Hno]]; [left; right; assumption|].
        apply aset_in in Ha. destruct Ha as [[-> ->]|[Ha Hne]]; [left; left; reflexivity|].
        right. split; [assumption|]. intros r [He|Hr]; [inversion He; subst; apply (Hne Hnd); reflexivity|apply (Hno r Hr)].
      * destruct (IH _ _ _ _ _ _ (adel_nodup n1 tm0 Hnd) H Hin) as [Ha|[Ha Hno]]; [left; right; assumption|].
        right. split; [eapply adel_in; eauto|]. intros r [He|Hr]; [|apply (Hno r Hr)].
        inversion He; subst. apply (adel_key_gone n tm0 Hnd). apply in_map_iff. exists (n, o); split; auto.
    + destruct (IH _ _ _ _ _ _ Hnd H Hin) as [Ha|[Ha Hno]]; [left; right; assumption|].
      right. split; [assumption|]. intros r [He|Hr]; [|apply (Hno r Hr)].
      inversion He; subst. eapply alookup_none_notin; eauto.
Qed.

(* VisibilitySchemaTransform: after the transform and all the healing it
   triggers, no registered type holds a rejected field / input field / enum
   value, no field or directive a rejected argument *)
Theorem vis_members_removed fuel m s m' s' :
  fresh_ok m -> builtins_ok m -> NoDup (map fst (s_types s)) ->
  (forall n o, In (n, o) (s_types s) -> tname m o = Some n) ->
  NoDup (map fst (s_dirs s)) ->
  on_schema fuel (vis_visitor p) m s = Ok (m', s') ->
  regood p m' (s_types s') /\ dsgood p m' (s_dirs s').
Proof.
  intros Hf Hb Hnd Hnames Hndd H.
  assert (Hi : vinv m).
  { split; [assumption|]. destruct (N.lt_ge_cases 5 (m_next m)) as [Hlt|Hle]; [assumption|].
    assert (Hin : In (str_of_string "ID", 5) builtin_types) by (simpl; auto 10).
    pose proof (Hb _ _ Hin) as Hg. rewrite (Hf 5 Hle) in Hg. discriminate. }
  unfold on_schema, traverse in H.
  destruct (traverse_list (visit_type (vis_visitor p)) is_builtin m (s_types s)) as [[m1 tu]|] eqn:Ht; [|discriminate].
  destruct (traverse_list (visit_dir (vis_visitor p)) (fun _ => false) m1 (s_dirs s)) as [[m2 du]|] eqn:Hd; [|discriminate].
  destruct (vis_traverse_good _ _ _ _ Hi Hnd Hnames Ht) as (I1 & R1 & _ & Dt & Et).
  destruct (vis_traverse_dirs _ _ _ _ I1 Hd) as (I2 & R2 & Dd & Ed).
  pose proof (pres_tnr _ _ R2) as R2t.
  assert (Hkeep : forall n y, tgood p m1 n y -> tname m1 y = Some n -> tgood p m2 n y).
  { intros n y Hg Hn. destruct (tname_exists _ _ _ Hn) as (v & Hv). eapply tgood_keep; [exact R2t|exact Hv|apply (proj2 R2); exact Hv|exact Hg]. }
  destruct fuel as [|fuel]; [simpl in H; discriminate|].
  rewrite replace_and_heal_S in H.
  destruct (replace_types m2 tu (s_types s) false) as [[tm1 b]| | |] eqn:Hrt; simpl in H; try discriminate.
  destruct (replace_dirs du (s_dirs s)) as [dm| | |] eqn:Hrd; simpl in H; try discriminate.
  destruct (replace_dirs_spec _ _ _ Hndd Hrd) as (Hndd' & Hdm).
  assert (Hwf2 : wf_reg m2 (s_types s)).
  { split; [assumption|]. intros n o Hin. eapply tnr_tname; [exact R2t|]. eapply tnr_tname; [exact R1|]. auto. }
  assert (Hwf' : wf_reg m2 tm1).
  { eapply replace_types_wf; [exact Hwf2| |exact Hrt]. intros n y Hin.
    eapply tnr_tname; [exact R2t|]. exact (proj2 (Dt n y Hin)). }
  assert (Hrg : regood p m2 tm1).
  { intros n o Hin Hbo. destruct (replace_types_in_strict _ _ _ _ _ _ _ _ Hnd Hrt Hin) as [Hu|[Ho Hno]].
    - destruct (Dt n o Hu) as (Hg & Hn). apply Hkeep; assumption.
    - apply Hkeep; [apply Et; assumption|]. eapply tnr_tname; [exact R1|]. auto. }
  assert (Hdg : dsgood p m2 dm /\ forall n d, In (n, d) dm -> exists v, mget m2 d = Some v).
  { split; intros n d Hin; destruct (Hdm n d Hin) as [Hl|[Hr Hno]].
    - exact (proj1 (Dd n d Hl)).
    - exact (proj1 (Ed n d Hr Hno)).
    - exact (proj2 (Dd n d Hl)).
    - exact (proj2 (Ed n d Hr Hno)). }
  destruct Hdg as (Hdg & Hdex).
  destruct b.
  - match type of H with obind (heal_from fuel m2 ?s1) _ = _ =>
      destruct (heal_from fuel m2 s1) as [[m3 s3]| | |] eqn:Hrec; simpl in H; try discriminate;
      destruct (heal_from_good p fuel m2 s1 m3 s3 (proj1 I2) Hwf' Hndd' Hrg Hdg Hdex Hrec) as (A & B) end.
    inversion H; subst. split; assumption.
  - inversion H; subst. split; assumption.
Qed.

End VisFinal.
