(* Permutation of the definitions and ALL 26 rules: with the equivalence of
   OverlappingFieldsCanBeMerged with its memo-free search, the verdict of the
   whole validator (stated fuel) is invariant. *)
From PyGql Require Import Valid.ValidOverlap Spec.ValidSpec Spec.ValidLocalSpec Spec.ValidValueSpec Spec.ValidTypedSpec
     Proofs.ValidCloseProofs Proofs.ValidVarProofs Proofs.ValidPermProofs Proofs.ValidVerdictProofs
     Proofs.ValidVerdict25Proofs Proofs.ValidMergeProofs Proofs.ValidFuelProofs
     Proofs.ValidMemoProofs Proofs.ValidMemoComplete.
From Coq Require Import Permutation.

(* ---- the memo-free search sees the fragments only through [frag_ff] ---- *)
Lemma step_frs_ext s frs frs' (X : call -> Prop) c :
  (forall g, frag_ff s frs g = frag_ff s frs' g) -> step s frs X c -> step s frs' X c.
Proof.
  intros Hext. destruct c as [me f1 f2|me m1 m2|me mid m g|me a b|me p1 l1 s1 p2 l2 s2]; cbn [step]; try (intros H; exact H).
  - intros H fm fns E. apply H. rewrite Hext. exact E.
  - intros [E|H]; [left; exact E|right]. intros fm1 fns1 fm2 fns2 E1 E2. apply H; rewrite Hext; assumption.
Qed.

Lemma conflict_free_ext s frs frs' c :
  (forall g, frag_ff s frs g = frag_ff s frs' g) -> conflict_free s frs c -> conflict_free s frs' c.
Proof.
  intros Hext [X [Hc HX]]. exists X. split; [exact Hc|]. intros c' Hc'. eapply step_frs_ext; [exact Hext|apply HX; exact Hc'].
Qed.

(* ---- the fragment table under unique names ---- *)
Definition names_of (ds : list definition) : list str :=
  flat_map (fun x => match frag_name x with Some n => [n] | None => [] end) ds.

Lemma frag_table_in_named : forall ds g tc sels, alookup g (frag_table ds) = Some (tc, sels) ->
  exists n vds dirs ssl l, In (DFragment n vds tc dirs ssl sels l) ds /\ n_val n = g.
Proof.
  induction ds as [|df ds IH]; intros g tc sels H; simpl in H; [discriminate|].
  destruct df as [k n vds dirs ssl sels0 l|n vds tc0 dirs ssl sels0 l| | | | | | | |];
    try (destruct (IH _ _ _ H) as (n' & vds' & dirs' & ssl' & l' & Hin & En); exists n', vds', dirs', ssl', l'; split; [right; exact Hin|exact En]).
  destruct (alookup (n_val n) (frag_table ds)) eqn:E.
  - destruct (IH _ _ _ H) as (n' & vds' & dirs' & ssl' & l' & Hin & En). exists n', vds', dirs', ssl', l'. split; [right; exact Hin|exact En].
  - simpl in H. destruct (str_eqb_spec g (n_val n)) as [->|Hne].
    + inversion H; subst. exists n, vds, dirs, ssl, l. split; [left; reflexivity|reflexivity].
    + destruct (IH _ _ _ H) as (n' & vds' & dirs' & ssl' & l' & Hin & En). exists n', vds', dirs', ssl', l'. split; [right; exact Hin|exact En].
Qed.

Lemma names_of_in ds n vds tc dirs ssl sels l : In (DFragment n vds tc dirs ssl sels l) ds -> In (n_val n) (names_of ds).
Proof. intros H. unfold names_of. apply in_flat_map. exists (DFragment n vds tc dirs ssl sels l). split; [exact H|left; reflexivity]. Qed.

Lemma frag_table_lookup : forall ds, NoDup (names_of ds) ->
  forall n vds tc dirs ssl sels l, In (DFragment n vds tc dirs ssl sels l) ds ->
    alookup (n_val n) (frag_table ds) = Some (tc, sels).
Proof.
  induction ds as [|df ds IH]; intros Hnd n vds tc dirs ssl sels l Hin; [destruct Hin|].
  destruct df as [k n0 vds0 dirs0 ssl0 sels0 l0|n0 vds0 tc0 dirs0 ssl0 sels0 l0| | | | | | | |];
    try (simpl in Hnd |- *; destruct Hin as [E|Hin]; [discriminate|eapply IH; eassumption]).
  simpl in Hnd. inversion Hnd as [|x xs Hnotin Hnd']; subst. simpl.
  destruct (alookup (n_val n0) (frag_table ds)) as [[tc1 sels1]|] eqn:E.
  - exfalso. destruct (frag_table_in_named _ _ _ _ E) as (n' & vds' & dirs' & ssl' & l' & Hin' & En).
    apply Hnotin. rewrite <- En. eapply names_of_in. exact Hin'.
  - simpl. destruct Hin as [Eq|Hin].
    + inversion Eq; subst. rewrite str_eqb_refl. reflexivity.
    + destruct (str_eqb_spec (n_val n) (n_val n0)) as [En|Hne].
      * exfalso. apply Hnotin. rewrite <- En. eapply names_of_in. exact Hin.
      * eapply IH; eassumption.
Qed.

Lemma frag_table_perm ds ds' : Permutation ds ds' -> NoDup (names_of ds) ->
  forall g, alookup g (frag_table ds) = alookup g (frag_table ds').
Proof.
  intros Hp Hnd g.
  assert (Hnd' : NoDup (names_of ds')).
  { eapply Permutation_NoDup; [|exact Hnd]. unfold names_of. apply Permutation_flat_map. exact Hp. }
  destruct (alookup g (frag_table ds)) as [[tc sels]|] eqn:E.
  - destruct (frag_table_in_named _ _ _ _ E) as (n & vds & dirs & ssl & l & Hin & <-). symmetry.
    eapply frag_table_lookup; [exact Hnd'|]. eapply Permutation_in; eassumption.
  - destruct (alookup g (frag_table ds')) as [[tc sels]|] eqn:E'; [|reflexivity].
    destruct (frag_table_in_named _ _ _ _ E') as (n & vds & dirs & ssl & l & Hin & <-).
    rewrite (frag_table_lookup ds Hnd n vds tc dirs ssl sels l) in E; [discriminate|].
    eapply Permutation_in; [symmetry; exact Hp|exact Hin].
Qed.

(* ---- faithful locations do not depend on the order of the definitions ---- *)
Fixpoint fok_locs_ext s M locs locs' (Hsub : forall l, In l locs -> In l locs') f (H : fok s M locs f) {struct H}
  : fok s M locs' f :=
  match H with
  | fok_intro _ _ _ f0 Hf =>
      fok_intro s M locs' f0
        (fun l1 s1 E =>
           match Hf l1 s1 E with
           | conj EM (conj Hall Hl) =>
               conj EM (conj (fun k fs f' Hk Hf' => fok_locs_ext s M locs locs' Hsub f' (Hall k fs f' Hk Hf'))
                             (Hsub l1 Hl))
           end)
  end.

Lemma mok_locs_ext s M locs locs' m : (forall l, In l locs -> In l locs') -> mok s M locs m -> mok s M locs' m.
Proof. intros Hsub H k fs f Hk Hf. eapply fok_locs_ext; [exact Hsub|]. eapply H; eassumption. Qed.

Section Perm.
  Variables (s : schema) (d d' : document).
  Hypothesis Hp : Permutation (doc_defs d) (doc_defs d').
  Hypothesis Hnames : NoDup (frag_names d).

  Lemma events_perm : Permutation (doc_events s d) (doc_events s d').
  Proof. unfold doc_events. apply Permutation_flat_map. exact Hp. Qed.

  Lemma event_in e : In e (doc_events s d) <-> In e (doc_events s d').
  Proof. split; apply Permutation_in; [exact events_perm|symmetry; exact events_perm]. Qed.

  Lemma locs_perm : Permutation (selset_locs (doc_events s d)) (selset_locs (doc_events s d')).
  Proof. unfold selset_locs. apply Permutation_flat_map. exact events_perm. Qed.

  Lemma frag_ff_perm g : frag_ff s (frag_table (doc_defs d)) g = frag_ff s (frag_table (doc_defs d')) g.
  Proof. unfold frag_ff. rewrite (frag_table_perm _ _ Hp Hnames g). reflexivity. Qed.

  Lemma faithful_perm : faithful_locations s d -> faithful_locations s d'.
  Proof.
    intros [Hnd [M [Hev Hfr]]].
    assert (Hsub : forall l, In l (selset_locs (doc_events s d)) -> In l (selset_locs (doc_events s d')))
      by (intros l; apply Permutation_in; exact locs_perm).
    split; [eapply Permutation_NoDup; [exact locs_perm|exact Hnd]|]. exists M. split.
    - intros p l sels Hin. apply event_in in Hin. destruct (Hev p l sels Hin) as (EM & Km & Hl).
      split; [exact EM|]. split; [eapply mok_locs_ext; eassumption|apply Hsub; exact Hl].
    - intros g fm fns E. rewrite <- frag_ff_perm in E. eapply mok_locs_ext; [exact Hsub|]. eapply Hfr. exact E.
  Qed.

  Lemma r25_perm : faithful_locations s d ->
    (r25_overlapping_fields (overlap_fuel s d) s d = Ok [] <-> r25_overlapping_fields (overlap_fuel s d') s d' = Ok []).
  Proof.
    intros Hf. rewrite (r25_equiv_memo_free s d Hf), (r25_equiv_memo_free s d' (faithful_perm Hf)). split; intros H p l sels Hin c Hc.
    - apply (conflict_free_ext s (frag_table (doc_defs d))); [exact frag_ff_perm|]. apply (H p l sels); [apply event_in; exact Hin|exact Hc].
    - apply (conflict_free_ext s (frag_table (doc_defs d'))); [intros g; symmetry; apply frag_ff_perm|].
      apply (H p l sels); [apply event_in; exact Hin|exact Hc].
  Qed.
End Perm.

(* ---- the whole validator ---- *)
Lemma validate_split fuel s d :
  validate_model fuel s d = Ok [] <->
  validate_rules fuel s d rules_but_overlap = Ok [] /\ r25_overlapping_fields fuel s d = Ok [].
Proof.
  unfold validate_model, validate_rules. rewrite !ocat_all_nil. unfold all_rules, rules_but_overlap.
  repeat rewrite Forall_cons_iff. rewrite Forall_nil_iff. cbn [rule_model]. tauto.
Qed.

Theorem perm_definitions_all26 s d d' :
  wf_inputs s -> wf_arg_types s -> wf_var_types s d ->
  faithful_locations s d ->
  Permutation (doc_defs d) (doc_defs d') ->
  (validate s d = Ok [] <-> validate s d' = Ok []).
Proof.
  intros Hwi Hwa Hwv Hf Hp. unfold validate. rewrite !validate_split.
  assert (Hp' : Permutation (doc_defs d') (doc_defs d)) by (symmetry; exact Hp).
  pose proof (wf_var_types_perm s d d' Hp Hwv) as Hwv'.
  assert (Hnames : forall fuel, validate_rules fuel s d rules_but_overlap = Ok [] -> NoDup (frag_names d)).
  { intros fuel H. apply (verdict25 fuel s d Hwi Hwa Hwv) in H. destruct H as [Hv _].
    destruct Hv as (_ & _ & _ & _ & _ & _ & _ & _ & _ & H10 & _). exact H10. }
  split; intros [HR H25].
  - pose proof (Hnames _ HR) as Hnd. split.
    + apply (verdict25 _ s d' Hwi Hwa Hwv'). apply (verdict25 _ s d Hwi Hwa Hwv) in HR.
      apply (verdict25 O s d' Hwi Hwa Hwv'). apply (perm_definitions25 O s d d' Hwi Hwa Hwv Hp).
      apply (verdict25 O s d Hwi Hwa Hwv). exact HR.
    + apply (r25_perm s d d' Hp Hnd Hf). exact H25.
  - assert (HR0 : validate_rules O s d rules_but_overlap = Ok []).
    { apply (perm_definitions25 O s d d' Hwi Hwa Hwv Hp). apply (verdict25 O s d' Hwi Hwa Hwv').
      apply (verdict25 _ s d' Hwi Hwa Hwv') in HR. exact HR. }
    pose proof (Hnames _ HR0) as Hnd. split.
    + apply (verdict25 _ s d Hwi Hwa Hwv). apply (verdict25 O s d Hwi Hwa Hwv) in HR0. exact HR0.
    + apply (r25_perm s d d' Hp Hnd Hf). exact H25.
Qed.

(* ---- the verdict of all 26 rules ---- *)
Definition overlap_spec (s : schema) (d : document) : Prop :=
  forall parent l sels, In (ESelSet parent l sels) (doc_events s d) ->
    forall c, In c (selset_calls s parent l sels) -> conflict_free s (frag_table (doc_defs d)) c.

Theorem verdict26 s d :
  wf_inputs s -> wf_arg_types s -> wf_var_types s d -> faithful_locations s d ->
  (validate s d = Ok [] <-> valid_spec25 s d /\ overlap_spec s d).
Proof.
  intros Hwi Hwa Hwv Hf. unfold validate. rewrite validate_split, (verdict25 _ s d Hwi Hwa Hwv), (r25_equiv_memo_free s d Hf).
  unfold overlap_spec. tauto.
Qed.
