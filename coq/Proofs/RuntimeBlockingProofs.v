(* Proofs about the executor machine, part D: the blocking configurations.
   Under BlockingRuntime nothing is deferred: the program the machine runs is
   [erase_prog pr]. Its run needs no completion at all, and the depth-first
   BlockingExecutor semantics [bs_prog] gives the same data and errors for the
   erased and the original program. *)
From Coq Require Import List NArith ZArith Bool Arith Lia Permutation.
Import ListNotations.
From PyGql Require Import Exec.RuntimeMachine Proofs.RuntimeMachineProofs Proofs.RuntimeMachineWf.

Lemma errs_of_app a b : errs_of (a ++ b) = errs_of a ++ errs_of b.
Proof. apply filter_app. Qed.

Lemma errs_of_task_log t n : errs_of (task_log t n) = [].
Proof. revert t. induction n as [|n IH]; intros t; simpl; [reflexivity|apply IH]. Qed.

Definition same_res {A} (a b : option A * list entry) : Prop :=
  fst a = fst b /\ errs_of (snd a) = errs_of (snd b).

Lemma bs_erase_all :
  (forall f p, same_res (bs_field p (erase f)) (bs_field p f)) /\
  (forall b nn p, same_res (bs_complete nn (erase_b b) p) (bs_complete nn b p)) /\
  (forall fs p, same_res (bs_fields p (erase_fs fs)) (bs_fields p fs) /\ keys_of (erase_fs fs) = keys_of fs) /\
  (forall its inn p i, same_res (bs_items inn p i (erase_its its)) (bs_items inn p i its)) /\
  (forall it inn p, same_res (bs_item inn (match it with ItObj fs => ItObj (erase_fs fs) | _ => it end) p)
                             (bs_item inn it p)).
Proof.
  apply prog_mutind; unfold same_res.
  - intros k dfr nn b IH p. cbn [erase bs_field]. destruct (IH nn (p ++ [k])) as [A B].
    destruct (bs_complete nn (erase_b b) (p ++ [k])) as [r es].
    destruct (bs_complete nn b (p ++ [k])) as [r' es']. cbn [fst snd] in *. split; [exact A|].
    rewrite !errs_of_app, B. f_equal. destruct dfr as [[n e]|]; [|reflexivity].
    cbn. rewrite errs_of_task_log. reflexivity.
  - intros z nn p. split; reflexivity.
  - intros nn p. split; reflexivity.
  - intros nn p. split; reflexivity.
  - intros x nn p. split; reflexivity.
  - intros fs IH nn p. cbn [erase_b bs_complete]. destruct (IH p) as [[A B] _].
    destruct (bs_fields p (erase_fs fs)) as [r es]. destruct (bs_fields p fs) as [r' es'].
    cbn [fst snd] in *. split; [rewrite A; reflexivity|exact B].
  - intros inn its IH nn p. cbn [erase_b bs_complete]. destruct (IH inn p 0%N) as [A B].
    destruct (bs_items inn p 0%N (erase_its its)) as [r es]. destruct (bs_items inn p 0%N its) as [r' es'].
    cbn [fst snd] in *. split; [rewrite A; reflexivity|exact B].
  - intros p. split; [split|]; reflexivity.
  - intros f IHf fs IHfs p. cbn [erase_fs bs_fields keys_of]. destruct (IHf p) as [A B].
    destruct (IHfs p) as [[A2 B2] K].
    assert (Hk : key_of (erase f) = key_of f) by (destruct f; reflexivity).
    destruct (bs_field p (erase f)) as [r es]. destruct (bs_field p f) as [r' es']. cbn [fst snd] in *. subst r'.
    split; [|rewrite Hk, K; reflexivity].
    destruct r as [v|]; [|split; [reflexivity|exact B]].
    destruct (bs_fields p (erase_fs fs)) as [r2 es2]. destruct (bs_fields p fs) as [r2' es2'].
    cbn [fst snd] in *. subst r2'. split; [rewrite Hk; reflexivity|].
    rewrite !errs_of_app, B, B2. reflexivity.
  - intros inn p i. split; reflexivity.
  - intros it IHit its IHits inn p i. cbn [erase_its bs_items]. destruct (IHit inn (p ++ [i])) as [A B].
    destruct (IHits inn p (N.succ i)) as [A2 B2].
    destruct (bs_item inn _ (p ++ [i])) as [r es]. destruct (bs_item inn it (p ++ [i])) as [r' es'].
    cbn [fst snd] in *. subst r'. destruct r as [v|]; [|split; [reflexivity|exact B]].
    destruct (bs_items inn p (N.succ i) (erase_its its)) as [r2 es2].
    destruct (bs_items inn p (N.succ i) its) as [r2' es2']. cbn [fst snd] in *. subst r2'.
    split; [reflexivity|]. rewrite !errs_of_app, B, B2. reflexivity.
  - intros inn p. split; reflexivity.
  - intros z inn p. split; reflexivity.
  - intros fs IH inn p. cbn [bs_item]. destruct (IH p) as [[A B] _].
    destruct (bs_fields p (erase_fs fs)) as [r es]. destruct (bs_fields p fs) as [r' es'].
    cbn [fst snd] in *. split; [rewrite A; reflexivity|exact B].
Qed.

Lemma bs_prog_erase pr : same_res (bs_prog (erase_prog pr)) (bs_prog pr).
Proof.
  destruct pr as [mut fs]. unfold bs_prog, erase_prog.
  destruct (proj1 (proj2 (proj2 bs_erase_all)) fs []) as [[A B] _].
  destruct (bs_fields [] (erase_fs fs)) as [r es]. destruct (bs_fields [] fs) as [r' es'].
  cbn [fst snd] in *. split; [rewrite A; reflexivity|exact B].
Qed.

(* nothing is submitted when no resolver is deferred *)
Definition keeps_pending {A} (r : A * mstate) (st : mstate) : Prop := pending (snd r) = pending st.

Lemma keeps_add_orphan d st : pending (add_orphan d st) = pending st.
Proof. unfold add_orphan. destruct (is_done d); reflexivity. Qed.

Lemma gather_norm_pending ds st : pending (snd (gather_norm ds st)) = pending st.
Proof.
  unfold gather_norm. destruct (first_exn ds); [apply (proj1 (add_orphans_spec ds st))|].
  destruct (all_vals ds); reflexivity.
Qed.
Lemma collect_sync_pending keys ds st : pending (snd (collect_sync keys ds st)) = pending st.
Proof.
  unfold collect_sync. pose proof (gather_norm_pending ds st) as H.
  destruct (gather_norm ds st) as [g st1]. destruct g; exact H.
Qed.
Lemma fields_keeps keys (r : fres * mstate) st :
  keeps_pending r st ->
  keeps_pending (match r with
                 | (FOk ds, st1) => let '(d, st2) := collect_sync keys ds st1 in (SOk d, st2)
                 | (FRaise x, st1) => (SRaise x, st1)
                 end) st.
Proof.
  unfold keeps_pending. destruct r as [[ds|x] st1]; cbn [snd]; [|auto]. intros H.
  pose proof (collect_sync_pending keys ds st1) as Hc. destruct (collect_sync keys ds st1) as [d st2].
  cbn [snd] in *. congruence.
Qed.
Lemma items_keeps (r : fres * mstate) st :
  keeps_pending r st ->
  keeps_pending (match r with
                 | (FOk ds, st1) => let '(d, st2) := gather_sync ds st1 in (SOk d, st2)
                 | (FRaise x, st1) => (SRaise x, st1)
                 end) st.
Proof.
  unfold keeps_pending. destruct r as [[ds|x] st1]; cbn [snd]; [|auto]. intros H.
  pose proof (gather_norm_pending ds st1) as Hc. unfold gather_sync. destruct (gather_norm ds st1) as [d st2].
  cbn [snd] in *. congruence.
Qed.

Lemma nonnull_wrap_keeps nn p r st : keeps_pending r st -> keeps_pending (nonnull_wrap nn p r) st.
Proof.
  unfold nonnull_wrap, keeps_pending. destruct nn; [|auto]. destruct r as [[d|x] st']; [|auto].
  cbn [snd]. intros H. destruct d; cbn [snd]; try exact H. destruct (is_null v); exact H.
Qed.

Lemma erase_keeps_all :
  (forall f p st, keeps_pending (resolve_field p (erase f) st) st) /\
  (forall b nn p st, keeps_pending (complete_field nn (erase_b b) p st) st) /\
  (forall fs p st, keeps_pending (start_fields p (erase_fs fs) st) st) /\
  (forall its inn p i st, keeps_pending (start_items inn p i (erase_its its) st) st) /\
  (forall it inn p st, keeps_pending (complete_item inn (match it with ItObj fs => ItObj (erase_fs fs) | _ => it end) p st) st).
Proof.
  apply prog_mutind; unfold keeps_pending.
  - intros k dfr nn b IH p st. cbn [erase resolve_field]. rewrite IH. reflexivity.
  - reflexivity.
  - intros nn p st. cbn. destruct nn; reflexivity.
  - reflexivity.
  - reflexivity.
  - intros fs IH nn p st. cbn [erase_b complete_field]. apply nonnull_wrap_keeps. apply fields_keeps. apply IH.
  - intros inn its IH nn p st. cbn [erase_b complete_field]. apply nonnull_wrap_keeps. apply items_keeps. apply IH.
  - reflexivity.
  - intros f IHf fs IHfs p st. cbn [erase_fs start_fields]. specialize (IHf p st).
    destruct (resolve_field p (erase f) st) as [[d|x] st1]; cbn [snd] in *; [|exact IHf].
    specialize (IHfs p st1). destruct (start_fields p (erase_fs fs) st1) as [[ds|x] st2]; cbn [snd] in *.
    + congruence.
    + rewrite keeps_add_orphan. congruence.
  - reflexivity.
  - intros it IHit its IHits inn p i st. cbn [erase_its start_items]. specialize (IHit inn (p ++ [i]) st).
    destruct (complete_item inn _ (p ++ [i]) st) as [[d|x] st1]; cbn [snd] in *; [|exact IHit].
    specialize (IHits inn p (N.succ i) st1).
    destruct (start_items inn p (N.succ i) (erase_its its) st1) as [[ds|x] st2]; cbn [snd] in *.
    + congruence.
    + rewrite keeps_add_orphan. congruence.
  - intros inn p st. cbn. destruct inn; reflexivity.
  - reflexivity.
  - intros fs IH inn p st. cbn [complete_item]. apply nonnull_wrap_keeps. apply fields_keeps. apply IH.
Qed.

Lemma serial_next_erase_keeps : forall fs acc st,
  pending (snd (serial_next acc (erase_fs fs) st)) = pending st.
Proof.
  induction fs as [|f fs IH]; intros acc st; cbn [erase_fs serial_next]; [reflexivity|].
  pose proof (proj1 erase_keeps_all f [] st) as H1. unfold keeps_pending in H1.
  destruct (resolve_field [] (erase f) st) as [[d|x] st1]; cbn [snd] in *; [|exact H1].
  destruct d; cbn [snd]; try exact H1. rewrite IH. exact H1.
Qed.

Lemma start_erase_pending pr : pending (ms (start (erase_prog pr))) = [].
Proof.
  destruct pr as [mut fs]. unfold erase_prog, start. destruct mut.
  - pose proof (serial_next_erase_keeps fs [] st0) as H.
    destruct (serial_next [] (erase_fs fs) st0) as [[d|x] st]; cbn [snd] in H; [|exact H].
    destruct d; exact H.
  - pose proof (proj1 (proj2 (proj2 erase_keeps_all)) fs [] st0) as H. unfold keeps_pending in H.
    pose proof (fields_keeps (keys_of (erase_fs fs)) _ st0 H) as H'. unfold keeps_pending in H'.
    destruct (start_fields [] (erase_fs fs) st0) as [[ds|x] st]; cbn [snd] in H'; [|exact H'].
    destruct (collect_sync (keys_of (erase_fs fs)) ds st) as [d st2]. cbn [snd] in H'.
    destruct d; exact H'.
Qed.

(* the generic executor on the blocking runtime: no completion is needed, and it
   agrees with the BlockingExecutor semantics of the original program *)
Theorem blocking_runtime_agrees pr v es :
  bs_prog pr = (Some v, es) ->
  let s := start (erase_prog pr) in
  run [] (erase_prog pr) = Some s /\ pending (ms s) = [] /\ term s = Val v /\
  Permutation (errs_of (log (ms s))) (errs_of es).
Proof.
  intros Hb s. split; [reflexivity|]. pose proof (start_erase_pending pr) as Hp. split; [exact Hp|].
  destruct (bs_prog_erase pr) as [A B]. rewrite Hb in A, B. cbn [fst snd] in A, B.
  destruct (bs_prog (erase_prog pr)) as [r es'] eqn:Ee. cbn [fst snd] in A, B. subst r.
  destruct (run_confluent [] (erase_prog pr) s v es' eq_refl Hp Ee) as (Ht & _ & Pm).
  split; [exact Ht|]. rewrite <- B. apply Permutation_filter. exact Pm.
Qed.

Theorem blocking_runtime_fails pr es :
  bs_prog pr = (None, es) ->
  let s := start (erase_prog pr) in
  pending (ms s) = [] /\ exists x, term s = Exn x /\ In x (raised (ms s)).
Proof.
  intros Hb s. pose proof (start_erase_pending pr) as Hp. split; [exact Hp|].
  destruct (bs_prog_erase pr) as [A _]. rewrite Hb in A. cbn [fst] in A.
  destruct (bs_prog (erase_prog pr)) as [r es'] eqn:Ee. cbn [fst] in A. subst r.
  apply (run_unexpected [] (erase_prog pr) s es' eq_refl Hp Ee).
Qed.
