(* The executor model produces what the specification's ExecuteSelectionSet /
   ExecuteField / CompleteValue relation (Spec/ExecSpec.v) allows. *)
From PyGql Require Import Spec.ExecSpec Proofs.ExecProofs Proofs.ExecCollectProofs Proofs.ExecRejProofs.

Arguments field_definition : simpl never.
Arguments resolve_field : simpl never.
Arguments complete_named : simpl never.
Arguments collect_for : simpl never.
Arguments complete_field : simpl never.

Section Sound.
  Variable sch : schema.
  Variable frags : frag_table.
  Variable vs : vars.
  Variable coerce_args : fdef -> selection -> outcome (list (str * pv)).
  Variable world : world_t.
  Variable tyres : str -> option (pv -> tyname_res).
  Variable cfuel : nat.

  (* the grouping used at each level: the code's collect_fields, which is the
     specification's CollectFields wherever named-fragment spreads occur only
     at the top level of the selections (and not inside the fragments) *)
  Definition G (tn : str) (sels : list selection) (g : groups) : Prop :=
    collect_for sch frags vs cfuel tn sels = Ok g /\
    (top_spreads frags sels = true -> SCollect (applies sch tn) frags vs sels g).

  Notation SC := (SComplete sch coerce_args world tyres G).
  Notation SI := (SItems sch coerce_args world tyres G).
  Notation SS := (SSel sch coerce_args world tyres G).
  Notation SG := (SGroups sch coerce_args world tyres G).
  Notation SF := (SField_ sch coerce_args world tyres G).
  Notation SA := (SAbort sch coerce_args world tyres G).
  Notation SAI := (SAbortItems sch coerce_args world tyres G).

  Lemma resolve_type_spec n v rt :
    resolve_type sch tyres n v = Ok rt -> spec_runtime_type sch tyres n v rt.
  Proof.
    unfold resolve_type, spec_runtime_type.
    destruct (match tyres n with Some f => f v | None => default_typename v end) as [|n'|]; try discriminate.
    - destruct (get_type sch (py_type_name v)) as [[fs ifs| | | | |]|] eqn:Eg; try discriminate.
      destruct (possible_types sch n) as [ps|]; [|discriminate].
      destruct (mem_str (py_type_name v) ps) eqn:Em; [|discriminate]. intros H; inversion H; subst.
      split; [right; auto|]. split; [unfold is_object; rewrite Eg; reflexivity|].
      exists ps. split; [reflexivity|apply mem_str_In; exact Em].
    - destruct (get_type sch n') as [[fs ifs| | | | |]|] eqn:Eg; try discriminate.
      destruct (possible_types sch n) as [ps|]; [|discriminate].
      destruct (mem_str n' ps) eqn:Em; [|discriminate]. intros H; inversion H; subst.
      split; [left; reflexivity|]. split; [unfold is_object; rewrite Eg; reflexivity|].
      exists ps. split; [reflexivity|apply mem_str_In; exact Em].
  Qed.

  Lemma of_ser_ok s r : of_ser s = Ok r -> s = SerOk (fst r) /\ snd r = [].
  Proof. destruct s; simpl; try discriminate. intros H; inversion H; subst. auto. Qed.

  Section Level.
    Variable sub_exec : str -> pv -> path -> list selection -> result.
    Hypothesis Hsub : forall tn v p sels r, sub_exec tn v p sels = Ok r -> SS tn v p sels (fst r) (snd r).
    Hypothesis HsubR : forall tn v p sels k q, sub_exec tn v p sels = Rejected k q ->
                                               k = REJ_COERCION /\ forall g, ~ G tn sels g.

    Lemma complete_items_spec nodes t (f : path -> pv -> result) :
      (forall p x r, f p x = Ok r -> SC nodes t p x (fst r) (snd r)) ->
      forall items p i rs es, complete_items f p i items = Ok (rs, es) -> SI nodes t p i items rs es.
    Proof.
      intros Hf. induction items as [|x items IH]; intros p i rs es H; simpl in H.
      - inversion H; subst. constructor.
      - apply obind_ok in H as [[r1 es1] [H1 H]]. apply obind_ok in H as [[rs' es'] [H2 H]].
        inversion H; subst. simpl. constructor; [apply (Hf _ _ _ H1)|apply IH; exact H2].
    Qed.

    Lemma complete_named_spec nodes n p v r :
      v <> PNone ->
      complete_named sch tyres sub_exec nodes n p v = Ok r -> SC nodes (RNamed n) p v (fst r) (snd r).
    Proof.
      intros Hv. unfold complete_named.
      destruct (get_type sch n) as [[fs ifs|fs|ts|vals|k|]|] eqn:Eg; try discriminate.
      - intros H. eapply SC_object; [exact Hv|exact Eg|apply Hsub; exact H].
      - intros H. apply obind_ok in H as [rt [Hrt H]].
        eapply SC_abstract; [exact Hv|unfold is_abstract; rewrite Eg; reflexivity|apply resolve_type_spec; exact Hrt|apply Hsub; exact H].
      - intros H. apply obind_ok in H as [rt [Hrt H]].
        eapply SC_abstract; [exact Hv|unfold is_abstract; rewrite Eg; reflexivity|apply resolve_type_spec; exact Hrt|apply Hsub; exact H].
      - destruct (hashable v); [|discriminate]. intros H. apply of_ser_ok in H as [Hs He].
        destruct r as [r es]; simpl in *; subst es. eapply SC_enum; eassumption.
      - intros H. apply of_ser_ok in H as [Hs He].
        destruct r as [r es]; simpl in *; subst es. eapply SC_scalar; eassumption.
    Qed.

    Lemma complete_value_spec nodes : forall t p v r,
      complete_value sch tyres sub_exec nodes t p v = Ok r -> SC nodes t p v (fst r) (snd r).
    Proof.
      induction t as [n|t IH|t IH]; intros p v r H; simpl in H.
      - destruct v; try (apply complete_named_spec; [discriminate|exact H]).
        inversion H; subst. apply SC_null_named.
      - destruct (match v with PNone => true | _ => false end) eqn:Ev.
        { destruct v; try discriminate. inversion H; subst. apply SC_null_list. }
        assert (H' : match iter_items v with
                     | None => Crash CRASH_RUNTIME
                     | Some items => do r <- complete_items (complete_value sch tyres sub_exec nodes t) p 0%N items;
                                     Ok (PList (fst r), snd r)
                     end = Ok r) by (destruct v; try discriminate; exact H).
        assert (Hv : v <> PNone) by (intros ->; discriminate).
        destruct (iter_items v) as [items|] eqn:Ei; [|discriminate].
        apply obind_ok in H' as [[rs es] [Hc H']]. inversion H'; subst; simpl.
        eapply SC_list; [exact Hv|exact Ei|]. eapply complete_items_spec; [|exact Hc].
        intros; apply IH; assumption.
      - apply obind_ok in H as [[r1 es1] [H1 H]]. simpl in H. apply IH in H1. simpl in H1.
        destruct r1; inversion H; subst; simpl;
          try (apply SC_nonnull; [exact H1|discriminate]).
        apply SC_nonnull_null. exact H1.
    Qed.

    (* a rejection inside complete_value is an abort of the specification relation *)
    Lemma complete_items_abort nodes t (f : path -> pv -> result) (fe : path -> pv -> list error) :
      (forall p x r, f p x = Ok r -> SC nodes t p x (fst r) (snd r)) ->
      (forall p x k q, f p x = Rejected k q -> SA nodes t p x (fe p x)) ->
      forall items p i k q, complete_items f p i items = Rejected k q ->
                            SAI nodes t p i items (items_partial f fe p i items).
    Proof.
      intros Hf Hr. induction items as [|x items IH]; intros p i k q H; simpl in H; [discriminate|]. simpl.
      destruct (f (p ++ [PIdx i]) x) as [r| |k1 q1|k1] eqn:E1; simpl in H; try discriminate.
      - destruct (complete_items f p (N.succ i) items) eqn:E2; simpl in H; try discriminate.
        eapply SAI_later; [apply Hf; exact E1|eapply IH; exact E2].
      - apply SAI_here. eapply Hr; exact E1.
    Qed.

    Lemma complete_value_abort nodes : forall t p v k q,
      complete_value sch tyres sub_exec nodes t p v = Rejected k q ->
      SA nodes t p v (complete_value_partial sch tyres sub_exec nodes t p v).
    Proof.
      induction t as [n|t IH|t IH]; intros p v k q H; simpl in H; simpl.
      - assert (Hv : v <> PNone) by (intros ->; discriminate).
        assert (H' : complete_named sch tyres sub_exec nodes n p v = Rejected k q) by (destruct v; try discriminate; exact H).
        clear H. unfold complete_named in H'.
        destruct (get_type sch n) as [[fs ifs|fs|ts|vals|sk|]|] eqn:Eg; try discriminate.
        + eapply SA_object; [exact Hv|exact Eg|]. eapply HsubR; exact H'.
        + destruct (resolve_type sch tyres n v) as [rt| | |] eqn:Er; simpl in H'; try discriminate;
            [|exfalso; eapply resolve_type_not_rej; exact Er].
          eapply SA_abstract; [exact Hv|unfold is_abstract; rewrite Eg; reflexivity|apply resolve_type_spec; exact Er|].
          eapply HsubR; exact H'.
        + destruct (resolve_type sch tyres n v) as [rt| | |] eqn:Er; simpl in H'; try discriminate;
            [|exfalso; eapply resolve_type_not_rej; exact Er].
          eapply SA_abstract; [exact Hv|unfold is_abstract; rewrite Eg; reflexivity|apply resolve_type_spec; exact Er|].
          eapply HsubR; exact H'.
        + destruct (hashable v); [|discriminate]. exfalso. eapply of_ser_not_rej; exact H'.
        + exfalso. eapply of_ser_not_rej; exact H'.
      - assert (Hv : v <> PNone) by (intros ->; discriminate).
        assert (H' : match iter_items v with
                     | None => Crash CRASH_RUNTIME
                     | Some items => do r <- complete_items (complete_value sch tyres sub_exec nodes t) p 0%N items;
                                     Ok (PList (fst r), snd r)
                     end = Rejected k q) by (destruct v; try discriminate; exact H).
        assert (Hp : complete_value_partial sch tyres sub_exec nodes (RList t) p v =
                     match iter_items v with
                     | None => []
                     | Some items => items_partial (complete_value sch tyres sub_exec nodes t)
                                                   (complete_value_partial sch tyres sub_exec nodes t) p 0%N items
                     end) by (destruct v; try reflexivity; exfalso; apply Hv; reflexivity).
        simpl in Hp. rewrite Hp. clear Hp H.
        destruct (iter_items v) as [items|] eqn:Ei; [|discriminate].
        destruct (complete_items (complete_value sch tyres sub_exec nodes t) p 0%N items) eqn:Ec; simpl in H'; try discriminate.
        eapply SA_list; [exact Hv|exact Ei|].
        eapply complete_items_abort; [intros; apply complete_value_spec; assumption|intros; eapply IH; eassumption|exact Ec].
      - destruct (complete_value sch tyres sub_exec nodes t p v) eqn:E; simpl in H; try discriminate.
        + destruct (fst a); discriminate.
        + apply SA_nonnull. eapply IH; exact E.
    Qed.

    Lemma complete_field_spec tname parent k fd node nodes p args x r :
      coerce_args fd node = Ok args -> spec_resolved world tname parent k fd p args (RVal x) ->
      complete_field sch tyres sub_exec (node :: nodes) (f_type fd) p x = Ok r ->
      SF tname parent k fd (node :: nodes) p (fst r) (snd r).
    Proof.
      intros Ec Hr. unfold complete_field.
      destruct (complete_value sch tyres sub_exec (node :: nodes) (f_type fd) p x) as [c| |k1 q1|k1] eqn:E; try discriminate.
      - intros H; inversion H; subst. eapply SFd_value; [exact Ec|exact Hr|apply complete_value_spec; exact E].
      - destruct (Nat.eqb k1 REJ_COERCION); [|discriminate]. intros H; inversion H; subst. simpl.
        eapply SFd_abort; [exact Ec|exact Hr|eapply complete_value_abort; exact E].
    Qed.

    Lemma resolve_field_spec tname parent k fd nodes p r :
      resolve_field sch coerce_args world tyres sub_exec tname parent k fd nodes p = Ok r ->
      SF tname parent k fd nodes p (fst r) (snd r).
    Proof.
      unfold resolve_field. destruct nodes as [|node nodes]; [discriminate|].
      destruct (coerce_args fd node) as [args| |c q|] eqn:Ec; try discriminate.
      - destruct k; try discriminate.
        + destruct (world p parent tname (f_name fd) args) eqn:Ew; try discriminate.
          * intros H. eapply complete_field_spec; [exact Ec| |exact H]. simpl. rewrite Ew. reflexivity.
          * intros H. eapply complete_field_spec; [exact Ec| |exact H]. simpl. rewrite Ew. reflexivity.
          * intros H; inversion H; subst. simpl. eapply SFd_error; [exact Ec|]. simpl. rewrite Ew. reflexivity.
        + intros H. eapply complete_field_spec; [exact Ec| |exact H]. reflexivity.
      - intros H; inversion H; subst. simpl. eapply SFd_coercion. exact Ec.
    Qed.

    Lemma field_definition_spec tname node k fd :
      field_definition sch tname (sel_name node) = Ok (Some (k, fd)) ->
      spec_field_def sch tname node k fd.
    Proof.
      unfold field_definition, spec_field_def.
      destruct (str_eqb_spec (sel_name node) s_typename) as [E|N1].
      - intros H; inversion H; subst. left. auto.
      - destruct (str_eqb_spec (sel_name node) s_schema) as [E|N2]; simpl; [discriminate|].
        destruct (str_eqb_spec (sel_name node) s_type) as [E|N3]; [discriminate|].
        destruct (get_type sch tname) as [[fs ifs| | | | |]|] eqn:Eg; try discriminate.
        destruct (find_field (sel_name node) fs) as [f|] eqn:Ef; simpl; [|discriminate].
        intros H; inversion H; subst. right. repeat split; try assumption. eauto.
    Qed.

    Lemma field_definition_undef tname node :
      field_definition sch tname (sel_name node) = Ok None -> spec_field_undef sch tname node.
    Proof.
      unfold field_definition, spec_field_undef.
      destruct (str_eqb_spec (sel_name node) s_typename) as [E|N1]; [discriminate|].
      destruct (str_eqb_spec (sel_name node) s_schema) as [E|N2]; simpl; [discriminate|].
      destruct (str_eqb_spec (sel_name node) s_type) as [E|N3]; [discriminate|].
      destruct (get_type sch tname) as [[fs ifs| | | | |]|] eqn:Eg; try discriminate.
      destruct (find_field (sel_name node) fs) as [f|] eqn:Ef; simpl; [discriminate|].
      intros _. repeat split; try assumption. eauto.
    Qed.

    Lemma exec_groups_spec tname parent p : forall g kvs es,
      exec_groups sch coerce_args world tyres sub_exec tname parent p g = Ok (kvs, es) ->
      SG tname parent p g kvs es.
    Proof.
      induction g as [|[key nodes] g IH]; intros kvs es H; simpl in H.
      - inversion H; subst. constructor.
      - destruct nodes as [|node nodes]; [discriminate|].
        destruct (field_definition sch tname (sel_name node)) as [[[k fd]|]| | |] eqn:Ed; simpl in H; try discriminate.
        + apply obind_ok in H as [[r1 es1] [H1 H]]. apply obind_ok in H as [[kvs' es'] [H2 H]].
          inversion H; subst. pose proof (field_definition_spec _ _ _ _ Ed) as Hd.
          eapply SG_cons; [exact Hd|apply (resolve_field_spec _ _ _ _ _ _ _ H1)|apply IH; exact H2].
        + apply SG_skip; [apply field_definition_undef; exact Ed|apply IH; exact H].
    Qed.
  End Level.

  Lemma exec_sel_rejected_no_group fuel tname v p sels k q :
    exec_sel sch frags vs coerce_args world tyres cfuel fuel tname v p sels = Rejected k q ->
    k = REJ_COERCION /\ forall g, ~ G tname sels g.
  Proof.
    intros H. apply exec_sel_rej in H as [Hc Hk]. split; [exact Hk|].
    intros g [Hg _]. rewrite Hc in Hg. discriminate.
  Qed.

  Theorem exec_sel_spec : forall fuel tname v p sels r,
    exec_sel sch frags vs coerce_args world tyres cfuel fuel tname v p sels = Ok r ->
    SS tname v p sels (fst r) (snd r).
  Proof.
    induction fuel as [|fuel IH]; intros tname v p sels r H; simpl in H; [discriminate|].
    apply obind_ok in H as [g [Hg H]]. apply obind_ok in H as [[kvs es] [He H]].
    inversion H; subst; simpl. eapply SS_sel.
    - split; [exact Hg|]. intros Hsf. unfold collect_for in Hg.
      eapply collect_is_spec_collect_top; eassumption.
    - eapply exec_groups_spec; [exact IH|intros; eapply exec_sel_rejected_no_group; eassumption|exact He].
  Qed.
End Sound.
