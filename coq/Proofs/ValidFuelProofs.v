(* The stated fuel of OverlappingFieldsCanBeMerged suffices for every schema
   and every document (also with cyclic fragment spreads): every call either
   descends strictly into the selections of both compared fields, or consumes
   one key of the finite "not yet compared" memo sets. *)
From PyGql Require Import Valid.ValidOverlap Proofs.ValidCloseProofs Proofs.ValidGraphProofs.
From Coq Require Import Lia.

(* ---- heights ---- *)
Lemma go_is_sels_h sub :
  (fix go (ss : list selection) : nat :=
     match ss with [] => 0 | y :: ys => Nat.max (sel_h y) (go ys) end) sub = sels_h sub.
Proof. induction sub as [|y ys IH]; simpl; [reflexivity|]. rewrite IH. reflexivity. Qed.

Lemma sel_h_field a n args dirs sl sub l : sel_h (SField a n args dirs sl sub l) = S (sels_h sub).
Proof. simpl. rewrite go_is_sels_h. reflexivity. Qed.
Lemma sel_h_inline tc dirs ssl sub l : sel_h (SInline tc dirs ssl sub l) = S (sels_h sub).
Proof. simpl. rewrite go_is_sels_h. reflexivity. Qed.

Lemma sels_h_In y ss : In y ss -> sel_h y <= sels_h ss.
Proof. induction ss as [|x xs IH]; simpl; [tauto|]. intros [->|H]; [lia|specialize (IH H); lia]. Qed.

Definition hs (f : finfo) : nat :=
  match fi_sub f with Some (_, sub) => S (sels_h sub) | None => 0 end.
Definition fm_le (m : fmap) (n : nat) : Prop :=
  forall k fs f, In (k, fs) m -> In f fs -> hs f <= n.
Definition hm (m : fmap) : nat := list_max (map hs (flat_map snd m)).

Lemma hm_le m n : hm m <= n <-> fm_le m n.
Proof.
  unfold hm, fm_le. rewrite list_max_le, Forall_forall. split.
  - intros H k fs f Hk Hf. apply H. apply in_map. apply in_flat_map. exists (k, fs). tauto.
  - intros H x Hx. apply in_map_iff in Hx. destruct Hx as [f [<- Hf]].
    apply in_flat_map in Hf. destruct Hf as [[k fs] [Hk Hf]]. eapply H; eassumption.
Qed.

Lemma hs_le_hm m k fs f : In (k, fs) m -> In f fs -> hs f <= hm m.
Proof. intros Hk Hf. exact (proj1 (hm_le m (hm m)) (le_n _) k fs f Hk Hf). Qed.

Lemma fm_le_add k x m n : fm_le m n -> hs x <= n -> fm_le (fmap_add k x m) n.
Proof.
  intros Hm Hx. induction m as [|[k' xs] m IH]; simpl.
  - intros k0 fs f [E|[]] Hf. inversion E; subst. destruct Hf as [<-|[]]. exact Hx.
  - destruct (str_eqb k k').
    + intros k0 fs f [E|Hin] Hf.
      * inversion E; subst. apply in_app_or in Hf. destruct Hf as [Hf|[<-|[]]]; [|exact Hx].
        eapply Hm; [left; reflexivity|exact Hf].
      * eapply Hm; [right; exact Hin|exact Hf].
    + intros k0 fs f [E|Hin] Hf.
      * inversion E; subst. eapply Hm; [left; reflexivity|exact Hf].
      * eapply IH; [|exact Hin|exact Hf]. intros k1 fs1 f1 H1 H2. eapply Hm; [right; exact H1|exact H2].
Qed.

Lemma collect_le s n : forall x parent acc,
  fm_le (fst acc) n -> sel_h x <= n -> fm_le (fst (ov_collect_sel s parent x acc)) n.
Proof.
  induction x as [alias nm args dirs sl sub l IH|nm dirs l|tc dirs ssl sub l IH] using selection_ind';
    intros parent acc Hacc Hx.
  - simpl ov_collect_sel. simpl fst. apply fm_le_add; [exact Hacc|].
    rewrite sel_h_field in Hx. unfold hs. simpl. destruct sl; lia.
  - simpl. exact Hacc.
  - rewrite sel_h_inline in Hx. simpl ov_collect_sel.
    set (p := match tc with Some t => ov_type_name s t | None => parent end). clearbody p.
    assert (Hsub : forall y, In y sub -> sel_h y <= n).
    { intros y Hy. pose proof (sels_h_In y sub Hy). lia. }
    clear Hx. revert acc Hacc. induction sub as [|y ys IHys]; intros acc Hacc; [exact Hacc|].
    inversion IH; subst. apply IHys; [assumption|intros z Hz; apply Hsub; right; exact Hz|].
    match goal with Hy : forall parent acc, _ |- _ => apply Hy end; [exact Hacc|apply Hsub; left; reflexivity].
Qed.

Lemma ff_le s p sels : fm_le (fst (fields_and_fragments s p sels)) (sels_h sels).
Proof.
  unfold fields_and_fragments. simpl fst.
  assert (H : forall ss acc n, fm_le (fst acc) n -> (forall y, In y ss -> sel_h y <= n) ->
                               fm_le (fst (fold_left (fun a y => ov_collect_sel s p y a) ss acc)) n).
  { induction ss as [|y ys IH]; intros acc n Hacc Hs; simpl; [exact Hacc|].
    apply IH; [|intros z Hz; apply Hs; right; exact Hz].
    apply collect_le; [exact Hacc|apply Hs; left; reflexivity]. }
  apply H; [intros k fs f []|intros y Hy; apply sels_h_In; exact Hy].
Qed.

Lemma ff_hm s p sels : hm (fst (fields_and_fragments s p sels)) <= sels_h sels.
Proof. apply hm_le. apply ff_le. Qed.

(* ---- ranks ---- *)
Definition rho (c : call) : nat :=
  match c with
  | CFind _ f1 f2 => 3 * Nat.min (hs f1) (hs f2)
  | CBetween _ m1 m2 => 3 * Nat.min (hm m1) (hm m2) + 1
  | CSub _ _ _ s1 _ _ s2 => 3 * Nat.min (sels_h s1) (sels_h s2) + 2
  | CFieldsFrag _ _ _ _ => 0
  | CFrags _ _ _ => 0
  end.
Definition need (K mu : nat) (c : call) : nat := mu * K + rho c + 1.

Lemma need_mono K mu mu' c : mu <= mu' -> need K mu c <= need K mu' c.
Proof. unfold need. intros H. nia. Qed.

Lemma filter_drop_lt {A} (f : A -> bool) (l : list A) :
  existsb f l = true -> length (filter (fun k => negb (f k)) l) < length l.
Proof.
  intros H. apply existsb_exists in H. destruct H as [x [Hx Hf]].
  apply filter_length_lt with (x := x); [exact Hx|]. rewrite Hf. reflexivity.
Qed.

Lemma q_take_size l f me : forall q q', q_take l f me q = Some q' -> q_size q' < q_size q.
Proof.
  induction q as [|[l' es] q IH]; intros q' H; simpl in H; [discriminate|].
  destruct (loc_eqb l' l && existsb (ematch f me) es) eqn:E.
  - inversion H; subst. apply andb_prop in E. destruct E as [_ E]. simpl.
    pose proof (filter_drop_lt _ _ E). lia.
  - destruct (q_take l f me q) as [r|]; [|discriminate]. inversion H; subst. simpl. specialize (IH r eq_refl). lia.
Qed.

Section Total.
  Variables (s : schema) (frs : list (str * (ty * list selection))) (H : nat).
  Hypothesis HH : forall f tc body, alookup f frs = Some (tc, body) -> sels_h body <= H.
  Let K := 3 * H + 4.

  Lemma frag_ff_hm f fm fns : frag_ff s frs f = Some (fm, fns) -> hm fm <= H.
  Proof.
    unfold frag_ff. destruct (alookup f frs) as [[tc body]|] eqn:E; [|discriminate].
    intros Hf. assert (Hfm : fm = fst (fields_and_fragments s (ov_type_name s tc) body)) by (inversion Hf; reflexivity).
    rewrite Hfm. pose proof (ff_hm s (ov_type_name s tc) body) as Hh. specialize (HH _ _ _ E). lia.
  Qed.

  Lemma run_total : forall fuel c st,
    need K (state_size st) c <= fuel ->
    exists b st', run fuel s frs c st = Ok (b, st') /\ state_size st' <= state_size st.
  Proof.
    induction fuel as [|f IH]; intros c st Hneed; [unfold need in Hneed; lia|].
    assert (Hseq : forall cs st0 b mu0,
      state_size st0 <= mu0 -> (forall c', In c' cs -> need K mu0 c' <= f) ->
      exists b' st',
        (fix seq (cs : list call) (st0 : ostate) (b : bool) : outcome (bool * ostate) :=
           match cs with
           | [] => Ok (b, st0)
           | c' :: cs' =>
               match run f s frs c' st0 with
               | Ok (b', st') => seq cs' st' (b || b')
               | OutOfFuel => OutOfFuel
               | Rejected k p => Rejected k p
               | Crash k => Crash k
               end
           end) cs st0 b = Ok (b', st') /\ state_size st' <= state_size st0).
    { induction cs as [|c' cs IHcs]; intros st0 b mu0 Hmu Hall.
      - exists b, st0. split; [reflexivity|lia].
      - destruct (IH c' st0) as (b1 & st1 & Hr & Hle1).
        { eapply Nat.le_trans; [apply need_mono; exact Hmu|apply Hall; left; reflexivity]. }
        destruct (IHcs st1 (b || b1) mu0) as (b2 & st2 & Hs & Hle2);
          [lia|intros c0 Hc0; apply Hall; right; exact Hc0|].
        exists b2, st2. split; [rewrite Hr; exact Hs|lia]. }
    unfold need in Hneed. destruct c as [me f1 f2|me m1 m2|me mid m fr|me a b|me p1 l1 s1 p2 l2 s2]; simpl in Hneed |- *.
    - (* CFind *)
      repeat match goal with |- context [if ?x then _ else _] => destruct x end;
        try (eexists; eexists; split; [reflexivity|lia]).
      destruct (fi_sub f1) as [[l1 s1]|] eqn:E1; try (eexists; eexists; split; [reflexivity|lia]).
      destruct (fi_sub f2) as [[l2 s2]|] eqn:E2; try (eexists; eexists; split; [reflexivity|lia]).
      apply IH. unfold need, hs in *. rewrite E1, E2 in Hneed. cbn [rho].
      rewrite <- Nat.succ_min_distr in Hneed. lia.
    - (* CBetween *)
      apply (Hseq _ st false (state_size st)); [lia|].
      intros c' Hc'. apply in_flat_map in Hc'. destruct Hc' as [[k fs1] [Hk Hc']]. simpl in Hc'.
      destruct (alookup k m2) as [fs2|] eqn:E2; [|destruct Hc'].
      apply in_map_iff in Hc'. destruct Hc' as [[g1 g2] [<- Hp]]. simpl.
      unfold cross in Hp. apply in_flat_map in Hp. destruct Hp as [x [Hx Hp]].
      apply in_map_iff in Hp. destruct Hp as [y [E Hy]]. inversion E; subst.
      pose proof (hs_le_hm m1 k fs1 g1 Hk Hx). pose proof (hs_le_hm m2 k fs2 g2 (alookup_In _ _ _ E2) Hy).
      unfold need. cbn [rho]. lia.
    - (* CFieldsFrag *)
      destruct (q_take mid fr me (snd st)) as [q'|] eqn:Ex;
        [|eexists; eexists; split; [reflexivity|lia]].
      pose proof (q_take_size _ _ _ _ _ Ex) as Hlt.
      set (st1 := (fst st, q')).
      assert (Hs1 : state_size st1 < state_size st) by (unfold state_size, st1; simpl; lia).
      destruct (frag_ff s frs fr) as [[fm2 fns]|] eqn:Ef; [|eexists; eexists; split; [reflexivity|lia]].
      destruct (Hseq (CBetween me m fm2 :: map (CFieldsFrag me mid m) fns) st1 false (state_size st1)) as (b' & st' & Hr & Hle);
        [lia| |exists b', st'; split; [exact Hr|lia]].
      intros c' [<-|Hc'].
      + pose proof (frag_ff_hm _ _ _ Ef). unfold need. cbn [rho]. subst K. nia.
      + apply in_map_iff in Hc'. destruct Hc' as [x [<- _]]. unfold need. cbn [rho]. subst K. nia.
    - (* CFrags *)
      destruct (str_eqb a b); [eexists; eexists; split; [reflexivity|lia]|].
      destruct (existsb (pkey_match a b me) (fst st)) eqn:Ex; simpl;
        [|eexists; eexists; split; [reflexivity|lia]].
      pose proof (filter_drop_lt _ _ Ex) as Hlt.
      set (st1 := (filter (fun k => negb (pkey_match a b me k)) (fst st), snd st)).
      assert (Hs1 : state_size st1 < state_size st) by (unfold state_size, st1; simpl; lia).
      destruct (frag_ff s frs a) as [[fm1 fns1]|] eqn:Ea; [|eexists; eexists; split; [reflexivity|lia]].
      destruct (frag_ff s frs b) as [[fm2 fns2]|] eqn:Eb; [|eexists; eexists; split; [reflexivity|lia]].
      destruct (Hseq (CBetween me fm1 fm2 :: map (fun x => CFrags me x b) fns1 ++ map (fun x => CFrags me a x) fns2)
                     st1 false (state_size st1)) as (b' & st' & Hr & Hle);
        [lia| |exists b', st'; split; [exact Hr|lia]].
      intros c' [<-|Hc'].
      + pose proof (frag_ff_hm _ _ _ Ea). unfold need. cbn [rho]. subst K. nia.
      + apply in_app_or in Hc'. destruct Hc' as [Hc'|Hc']; apply in_map_iff in Hc'; destruct Hc' as [x [<- _]];
          unfold need; cbn [rho]; subst K; nia.
    - (* CSub *)
      destruct (Hseq (CBetween me (fst (fields_and_fragments s p1 s1)) (fst (fields_and_fragments s p2 s2))
               :: map (CFieldsFrag me l1 (fst (fields_and_fragments s p1 s1))) (snd (fields_and_fragments s p2 s2))
               ++ map (CFieldsFrag me l2 (fst (fields_and_fragments s p2 s2))) (snd (fields_and_fragments s p1 s1))
               ++ map (fun p => CFrags me (fst p) (snd p))
                      (cross (snd (fields_and_fragments s p1 s1)) (snd (fields_and_fragments s p2 s2))))
                     st false (state_size st)) as (b' & st' & Hr & Hle);
        [lia| |exists b', st'; split; [exact Hr|lia]].
      intros c' [<-|Hc'].
      + pose proof (ff_hm s p1 s1). pose proof (ff_hm s p2 s2). unfold need. cbn [rho]. lia.
      + repeat (apply in_app_or in Hc'; destruct Hc' as [Hc'|Hc']);
          apply in_map_iff in Hc'; destruct Hc' as [x [<- _]]; unfold need; cbn [rho]; lia.
  Qed.

  Lemma run_list_total fuel : forall cs st b,
    (forall c, In c cs -> need K (state_size st) c <= fuel) ->
    exists b' st', run_list fuel s frs cs st b = Ok (b', st') /\ state_size st' <= state_size st.
  Proof.
    induction cs as [|c cs IH]; intros st b Hall; simpl.
    - exists b, st. split; [reflexivity|lia].
    - destruct (run_total fuel c st) as (b1 & st1 & Hr & Hle1); [apply Hall; left; reflexivity|].
      rewrite Hr. simpl.
      destruct (IH st1 (b || b1)) as (b2 & st2 & Hs & Hle2).
      { intros c0 Hc0. eapply Nat.le_trans; [apply need_mono; exact Hle1|apply Hall; right; exact Hc0]. }
      exists b2, st2. split; [exact Hs|lia].
  Qed.

  Lemma selset_calls_need parent l sels mu c :
    In c (selset_calls s parent l sels) -> need K mu c <= mu * K + 3 * sels_h sels + 1.
  Proof.
    unfold selset_calls. intros Hc.
    apply in_app_or in Hc. destruct Hc as [Hc|Hc].
    - apply in_flat_map in Hc. destruct Hc as [[k fs] [Hk Hc]]. apply in_map_iff in Hc.
      destruct Hc as [[g1 g2] [<- Hp]]. simpl.
      assert (Hin : forall {A} (l : list A) x y, In (x, y) (perms l) -> In x l /\ In y l).
      { intros A l0. induction l0 as [|z zs IHz]; simpl; [tauto|]. intros x y Hxy.
        apply in_app_or in Hxy. destruct Hxy as [Hxy|Hxy].
        - apply in_map_iff in Hxy. destruct Hxy as [w [E Hw]]. inversion E; subst. tauto.
        - destruct (IHz x y Hxy). tauto. }
      destruct (Hin _ _ _ _ Hp) as [H1 H2].
      pose proof (ff_le s parent sels k fs g1 Hk H1). pose proof (ff_le s parent sels k fs g2 Hk H2).
      unfold need. cbn [rho]. lia.
    - apply in_app_or in Hc. destruct Hc as [Hc|Hc]; apply in_map_iff in Hc; destruct Hc as [x [<- _]];
        unfold need; cbn [rho]; lia.
  Qed.

  Lemma overlap_events_total fuel Hd : forall es st,
    (forall p l sels, In (ESelSet p l sels) es -> sels_h sels <= Hd) ->
    state_size st * K + 3 * Hd + 1 <= fuel ->
    exists r, overlap_events fuel s frs es st = Ok r.
  Proof.
    induction es as [|e es IH]; intros st Hes Hfuel; simpl; [eexists; reflexivity|].
    destruct e; try (apply IH; [intros p l0 sels0 Hin; eapply Hes; right; exact Hin|exact Hfuel]).
    destruct (run_list_total fuel (selset_calls s parent ssl sels) st false) as (b & st' & Hr & Hle).
    { intros c Hc. pose proof (selset_calls_need parent ssl sels (state_size st) c Hc).
      pose proof (Hes parent ssl sels (or_introl eq_refl)). lia. }
    rewrite Hr. simpl.
    destruct (IH st') as [r Hrest]; [intros p l0 sels0 Hin; eapply Hes; right; exact Hin|nia|].
    rewrite Hrest. simpl. eexists; reflexivity.
  Qed.
End Total.

(* ---- the bounds from the document ---- *)
Lemma frag_table_h ds f tc body :
  alookup f (frag_table ds) = Some (tc, body) -> sels_h body <= defs_h ds.
Proof.
  induction ds as [|d ds IH]; simpl; [discriminate|].
  destruct d; simpl; try (intros Hl; specialize (IH Hl); lia).
  destruct (alookup (n_val n) (frag_table ds)) eqn:E.
  - intros Hl. specialize (IH Hl). lia.
  - simpl. destruct (str_eqb f (n_val n)).
    + intros Hl. inversion Hl; subst. lia.
    + intros Hl. specialize (IH Hl). lia.
Qed.

Lemma sel_events_h s : forall x ty_ parent cf p l sels,
  In (ESelSet p l sels) (sel_events s ty_ parent cf x) -> sels_h sels < sel_h x.
Proof.
  induction x as [alias n args dirs sl sub l0 IH|n dirs l0|tc dirs ssl sub l0 IH] using selection_ind';
    intros ty_ parent cf p l sels Hin.
  - rewrite sel_events_field in Hin. cbv zeta in Hin. rewrite sel_h_field.
    destruct Hin as [E|Hin]; [discriminate|]. apply in_app_or in Hin. destruct Hin as [Hin|Hin].
    + apply in_map_iff in Hin. destruct Hin as [x [E _]]. discriminate.
    + destruct sl as [l1|]; [|destruct Hin]. destruct Hin as [E|Hin]; [inversion E; subst; lia|].
      apply in_flat_map in Hin. destruct Hin as [y [Hy Hin]]. rewrite Forall_forall in IH.
      pose proof (IH y Hy _ _ _ _ _ _ Hin). pose proof (sels_h_In y sub Hy). lia.
  - simpl in Hin. destruct Hin as [E|Hin]; [discriminate|]. apply in_map_iff in Hin. destruct Hin as [x [E _]]. discriminate.
  - rewrite sel_events_inline in Hin. cbv zeta in Hin. rewrite sel_h_inline.
    destruct Hin as [E|Hin]; [discriminate|]. apply in_app_or in Hin. destruct Hin as [Hin|Hin].
    + apply in_map_iff in Hin. destruct Hin as [x [E _]]. discriminate.
    + destruct Hin as [E|Hin]; [inversion E; subst; lia|].
      apply in_flat_map in Hin. destruct Hin as [y [Hy Hin]]. rewrite Forall_forall in IH.
      pose proof (IH y Hy _ _ _ _ _ _ Hin). pose proof (sels_h_In y sub Hy). lia.
Qed.

Lemma doc_events_h s d p l sels :
  In (ESelSet p l sels) (doc_events s d) -> sels_h sels <= defs_h (doc_defs d).
Proof.
  unfold doc_events. induction (doc_defs d) as [|df ds IH]; simpl; [tauto|].
  intros Hin. apply in_app_or in Hin. destruct Hin as [Hin|Hin]; [|specialize (IH Hin); lia].
  assert (Hb : sels_h sels <= sels_h (def_body df)); [|lia].
  destruct df; simpl in Hin; try destruct Hin.
  - apply in_app_or in Hin. destruct Hin as [Hin|Hin].
    + apply in_map_iff in Hin. destruct Hin as [x [E _]]. discriminate.
    + destruct Hin as [E|Hin]; [inversion E; subst; simpl; lia|].
      apply in_flat_map in Hin. destruct Hin as [y [Hy Hin]]. simpl.
      pose proof (sel_events_h s y _ _ _ _ _ _ Hin). pose proof (sels_h_In y sels0 Hy). lia.
  - apply in_app_or in Hin. destruct Hin as [Hin|Hin].
    + apply in_map_iff in Hin. destruct Hin as [x [E _]]. discriminate.
    + destruct Hin as [E|Hin]; [inversion E; subst; simpl; lia|].
      apply in_flat_map in Hin. destruct Hin as [y [Hy Hin]]. simpl.
      pose proof (sel_events_h s y _ _ _ _ _ _ Hin). pose proof (sels_h_In y sels0 Hy). lia.
Qed.

Theorem r25_total s d : exists l, r25_overlapping_fields (overlap_fuel s d) s d = Ok l.
Proof.
  unfold r25_overlapping_fields.
  apply (overlap_events_total s (frag_table (doc_defs d)) (defs_h (doc_defs d))
           (frag_table_h (doc_defs d)) (overlap_fuel s d) (defs_h (doc_defs d))).
  - intros p l sels Hin. eapply doc_events_h. exact Hin.
  - unfold overlap_fuel. lia.
Qed.

Theorem validate_total s d : exists l, validate s d = Ok l.
Proof.
  unfold validate, validate_model, validate_rules. apply ocat_ok. intros r _.
  destruct (N.eq_dec r 25) as [->|Hne].
  - simpl. apply r25_total.
  - apply rule_model_ok_but_overlap. exact Hne.
Qed.
