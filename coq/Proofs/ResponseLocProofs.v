(* Proofs about Lang/LocModel.v (index_to_loc / loc_to_index). *)
From PyGql Require Import Base.Str Lang.LocModel.

Lemma itl_bounds : forall b p k j l c, itl b p k j = (l, c) -> S k <= l /\ 1 <= c.
Proof.
  induction b as [|x b IH]; intros p k j l c H.
  - destruct p; simpl in H; inversion H; lia.
  - destruct p as [|p]; simpl in H.
    + inversion H; lia.
    + destruct (N.eqb x LF); apply IH in H; lia.
Qed.

Lemma split_lf_cons : forall s, exists ln lns, split_lf s = ln :: lns.
Proof.
  destruct s as [|x s]; simpl.
  - eauto.
  - destruct (N.eqb x LF); [eauto|].
    destruct (split_lf s); eauto.
Qed.

Lemma itl_inside : forall b p k j l c,
  itl b p k j = (l, c) ->
  exists ln, nth_error (split_lf b) (l - S k) = Some ln /\
             (if l =? S k then c <= S (j + length ln) else c <= S (length ln)).
Proof.
  induction b as [|x b IH]; intros p k j l c H.
  - assert (E : (l, c) = (S k, S j)) by (destruct p; simpl in H; congruence).
    inversion E; subst. exists []. rewrite Nat.sub_diag, Nat.eqb_refl. simpl. split; [reflexivity|lia].
  - destruct p as [|p]; simpl in H.
    + inversion H; subst. destruct (split_lf_cons (x :: b)) as (ln & lns & E).
      exists ln. rewrite E, Nat.sub_diag, Nat.eqb_refl. simpl. split; [reflexivity|lia].
    + destruct (N.eqb x LF) eqn:Ex.
      * pose proof (itl_bounds _ _ _ _ _ _ H) as [Hl _].
        apply IH in H. destruct H as (ln & Hn & Hc).
        exists ln. simpl. rewrite Ex.
        replace (l - S k) with (S (l - S (S k))) by lia. simpl. split; [exact Hn|].
        destruct (l =? S k) eqn:E1; [apply Nat.eqb_eq in E1; lia|].
        destruct (l =? S (S k)); lia.
      * pose proof (itl_bounds _ _ _ _ _ _ H) as [Hl _].
        apply IH in H. destruct H as (ln & Hn & Hc).
        simpl. rewrite Ex. destruct (split_lf_cons b) as (ln0 & lns & E). rewrite E in *.
        destruct (l =? S k) eqn:E1.
        -- apply Nat.eqb_eq in E1. subst l. rewrite Nat.sub_diag in *. simpl in *.
           inversion Hn; subst. exists (x :: ln). split; [reflexivity|]. simpl. lia.
        -- apply Nat.eqb_neq in E1. exists ln.
           destruct (l - S k) as [|m] eqn:Em; [lia|]. simpl in *. split; [exact Hn|exact Hc].
Qed.

Lemma index_to_loc_inside : forall s p l c,
  index_to_loc s p = Ok (l, c) -> 1 <= l /\ 1 <= c /\ loc_inside_b s l c = true.
Proof.
  intros s p l c H.
  assert (Hi : exists q, itl s q 0 0 = (l, c)).
  { unfold index_to_loc in H. destruct s as [|x s].
    - destruct p; [inversion H; subst; exists 0; reflexivity|].
      simpl in H. discriminate.
    - destruct p as [|p].
      + destruct (length (x :: s) <? 0); [discriminate|]. exists 0. congruence.
      + destruct (length (x :: s) <? S p); [discriminate|]. exists (S p). congruence. }
  destruct Hi as (q & Hi).
  pose proof (itl_bounds _ _ _ _ _ _ Hi) as [Hl Hc].
  destruct (itl_inside _ _ _ _ _ _ Hi) as (ln & Hn & Hcc).
  split; [lia|]. split; [lia|].
  unfold loc_inside_b. rewrite Hn.
  assert (c <= S (length ln)) by (destruct (l =? 1); simpl in Hcc; lia).
  repeat rewrite andb_true_iff. repeat split; apply Nat.leb_le; lia.
Qed.

(* ---- round trip *)
Lemma lti_skip : forall pre b' i k l c total,
  (forall x, In x pre -> x <> LF) -> k <> l - 1 ->
  lti (pre ++ LF :: b') i k l c total = lti b' (i + S (length pre)) (S k) l c total.
Proof.
  induction pre as [|x pre IH]; intros b' i k l c total Hpre Hk; simpl.
  - destruct (k =? l - 1) eqn:E; [apply Nat.eqb_eq in E; contradiction|].
    replace (i + 1) with (S i) by lia. reflexivity.
  - destruct (k =? l - 1) eqn:E; [apply Nat.eqb_eq in E; contradiction|].
    assert (Hx : N.eqb x LF = false) by (apply N.eqb_neq; apply Hpre; left; reflexivity).
    rewrite Hx. rewrite IH; [|intros y Hy; apply Hpre; right; exact Hy|exact Hk].
    replace (S i + S (length pre)) with (i + S (S (length pre))) by lia. reflexivity.
Qed.

Lemma itl_split : forall b p k j l c,
  p <= length b -> itl b p k j = (l, c) ->
  (l = S k /\ c = S (j + p)) \/
  (exists pre b', b = pre ++ LF :: b' /\ (forall x, In x pre -> x <> LF) /\
                  length pre < p /\ itl b' (p - S (length pre)) (S k) 0 = (l, c)).
Proof.
  induction b as [|x b IH]; intros p k j l c Hp H.
  - simpl in Hp. assert (p = 0) by lia. subst p. simpl in H. inversion H. left. split; [reflexivity|lia].
  - destruct p as [|p]; simpl in H.
    + inversion H. left. split; [reflexivity|lia].
    + simpl in Hp. destruct (N.eqb x LF) eqn:Ex.
      * right. exists [], b. apply N.eqb_eq in Ex. subst x. simpl.
        split; [reflexivity|]. split; [intros y []|]. split; [lia|].
        rewrite Nat.sub_0_r. exact H.
      * apply IH in H; [|lia]. destruct H as [[Hl Hc]|(pre & b' & Hb & Hpre & Hlen & Hi)].
        -- left. split; [exact Hl|lia].
        -- right. exists (x :: pre), b'. subst b. simpl.
           split; [reflexivity|]. split.
           { intros y [Hy|Hy]; [subst y; apply N.eqb_neq; exact Ex|apply Hpre; exact Hy]. }
           split; [lia|exact Hi].
Qed.

Lemma last_app_cons : forall (pre : str) y b' d, last (pre ++ y :: b') d = last (y :: b') d.
Proof.
  induction pre as [|x pre IH]; intros y b' d; [reflexivity|].
  change ((x :: pre) ++ y :: b') with (x :: (pre ++ y :: b')).
  destruct (pre ++ y :: b') as [|z r] eqn:E.
  - destruct pre; discriminate.
  - rewrite <- (IH y b' d). rewrite E. reflexivity.
Qed.

Lemma lti_itl : forall n b, length b <= n -> forall p i k l c total,
  p <= length b -> total = i + length b -> itl b p k 0 = (l, c) ->
  (p < length b \/ (b <> [] /\ last b 0%N <> LF)) ->
  lti b i k l c total = Ok (i + p).
Proof.
  induction n as [|n IHn]; intros b Hn p i k l c total Hp Ht Hi Hside.
  - destruct b; [|simpl in Hn; lia]. simpl in *. destruct Hside as [Hs|[Hs _]]; [lia|congruence].
  - destruct (itl_split _ _ _ _ _ _ Hp Hi) as [[Hl Hc]|(pre & b' & Hb & Hpre & Hlen & Hi')].
    + subst l c. destruct b as [|x b].
      { simpl in *. destruct Hside as [Hs|[Hs _]]; [lia|congruence]. }
      simpl. replace (k - 0) with k by lia. rewrite Nat.eqb_refl.
      simpl in Hp, Ht.
      assert (E : i + S p - 1 = i + p) by lia. rewrite E.
      assert (E2 : (i + p <=? total) = true) by (apply Nat.leb_le; lia). rewrite E2. reflexivity.
    + pose proof (itl_bounds _ _ _ _ _ _ Hi') as [Hl _].
      subst b. rewrite lti_skip; [|exact Hpre|lia].
      rewrite app_length in *. simpl in *.
      assert (R : lti b' (i + S (length pre)) (S k) l c total
                  = Ok (i + S (length pre) + (p - S (length pre)))).
      { unfold char in *. apply (IHn b'); [lia|lia|lia|exact Hi'|].
        destruct Hside as [Hs|[_ Hs]]; [left; lia|].
        rewrite last_app_cons in Hs. destruct b' as [|y b'].
        - simpl in Hs. congruence.
        - right. split; [discriminate|]. exact Hs. }
      rewrite R. f_equal. lia.
Qed.

Theorem loc_roundtrip : forall s p l c,
  p <= length s -> index_to_loc s p = Ok (l, c) ->
  (p < length s \/ s = [] \/ last s 0%N <> LF) ->
  loc_to_index s (l, c) = Ok p.
Proof.
  intros s p l c Hp H Hside. destruct s as [|x s].
  - simpl in Hp. assert (p = 0) by lia. subst p. simpl in H. inversion H. reflexivity.
  - unfold index_to_loc in H.
    assert (Hlt : (length (x :: s) <? p) = false) by (apply Nat.ltb_ge; exact Hp).
    assert (Hi : itl (x :: s) p 0 0 = (l, c)).
    { destruct p; rewrite ?Hlt in H; inversion H; reflexivity. }
    pose proof (itl_bounds _ _ _ _ _ _ Hi) as [Hl Hc].
    destruct l as [|l]; [lia|]. destruct c as [|c]; [lia|].
    unfold loc_to_index.
    assert (Hside' : p < length (x :: s) \/ (x :: s <> [] /\ last (x :: s) 0%N <> LF)).
    { destruct Hside as [Hs|[Hs|Hs]]; [left; exact Hs|discriminate|right; split; [discriminate|exact Hs]]. }
    pose proof (lti_itl (length (x :: s)) (x :: s) (le_n _) p 0 0 (S l) (S c) (length (x :: s))
                        Hp eq_refl Hi Hside') as R.
    simpl in R. destruct l; destruct c; exact R.
Qed.

(* the excluded case is a real failure of the round trip *)
Example loc_roundtrip_fails_after_final_LF :
  index_to_loc [97; 10]%N 2 = Ok (2, 1) /\ loc_to_index [97; 10]%N (2, 1) = Crash crash_IndexError.
Proof. split; reflexivity. Qed.

(* CR is an ordinary column-occupying character for both functions *)
Example loc_CR_is_a_column :
  index_to_loc [97; 13; 98]%N 2 = Ok (1, 3) /\ loc_to_index [97; 13; 98]%N (1, 3) = Ok 2.
Proof. split; reflexivity. Qed.
