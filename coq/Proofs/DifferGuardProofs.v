(* C20: the guard [doc_distinct_keys] -- in every selection set of the
   document, after flattening inline fragments and named spreads, no response
   key occurs twice -- leaves OverlappingFieldsCanBeMerged, the one
   schema-dependent rule outside [op_ok], no pair of fields to compare. *)
From PyGql Require Import Schema.SchemaFull Spec.DifferClientSpec.

Lemma nodup_str_spec l : nodup_str l = true <-> NoDup l.
Proof.
  induction l as [|x l IH]; simpl; [split; [constructor|reflexivity]|].
  rewrite andb_true_iff, negb_true_iff, IH. split.
  - intros [Hm Hn]. constructor; [|exact Hn]. intros Hin. apply mem_str_In in Hin. congruence.
  - intros H. inversion H as [|? ? Hni Hnd]; subst. split; [|exact Hnd].
    destruct (mem_str x l) eqn:E; [|reflexivity]. apply mem_str_In in E. contradiction.
Qed.

Fixpoint sel_distinct_scopes fuel frags (x : csel) {struct x} :
  sel_distinct fuel frags x = true ->
  forall sc, In sc (sel_scopes x) -> NoDup (scope_keys fuel frags sc).
Proof.
  destruct x as [nm a d sub|tc d sub|nm d]; simpl; intros H sc Hin; [| |destruct Hin].
  - apply andb_true_iff in H. destruct H as [Hn Hf]. destruct Hin as [<-|Hin]; [apply nodup_str_spec; exact Hn|].
    clear Hn. induction sub as [|y l IHl]; simpl in *; [contradiction|].
    apply andb_true_iff in Hf. destruct Hf as [Hy Hl]. apply in_app_iff in Hin. destruct Hin as [Hin|Hin].
    + exact (sel_distinct_scopes fuel frags y Hy sc Hin).
    + exact (IHl Hl Hin).
  - apply andb_true_iff in H. destruct H as [Hn Hf]. destruct Hin as [<-|Hin]; [apply nodup_str_spec; exact Hn|].
    clear Hn. induction sub as [|y l IHl]; simpl in *; [contradiction|].
    apply andb_true_iff in Hf. destruct Hf as [Hy Hl]. apply in_app_iff in Hin. destruct Hin as [Hin|Hin].
    + exact (sel_distinct_scopes fuel frags y Hy sc Hin).
    + exact (IHl Hl Hin).
Qed.

Lemma distinct_keys_scopes fuel frags l :
  distinct_keys fuel frags l = true -> forall sc, In sc (scopes l) -> NoDup (scope_keys fuel frags sc).
Proof.
  unfold distinct_keys, scopes. intros H sc [<-|Hin]; apply andb_true_iff in H; destruct H as [Hn Hf].
  - apply nodup_str_spec; exact Hn.
  - rewrite forallb_forall in Hf. apply in_flat_map in Hin. destruct Hin as (y & Hy & Hsc).
    exact (sel_distinct_scopes fuel frags y (Hf y Hy) sc Hsc).
Qed.

(* under the guard the rule holds, whatever its pairwise condition is *)
Theorem guard_merge_rule cond fuel op : doc_distinct_keys fuel op = true -> merge_rule cond fuel op.
Proof.
  unfold doc_distinct_keys, merge_rule, doc_scopes. intros H sc Hin i j k Hij Hi Hj. exfalso.
  apply andb_true_iff in H. destruct H as [H1 H2].
  assert (Hnd : NoDup (scope_keys fuel (o_frags op) sc)).
  { apply in_app_iff in Hin. destruct Hin as [Hin|Hin].
    - exact (distinct_keys_scopes _ _ _ H1 sc Hin).
    - apply in_flat_map in Hin. destruct Hin as (fr & Hfr & Hsc).
      rewrite forallb_forall in H2. exact (distinct_keys_scopes _ _ _ (H2 fr Hfr) sc Hsc). }
  apply Hij. rewrite NoDup_nth_error in Hnd. apply Hnd; [|congruence].
  apply nth_error_Some. congruence.
Qed.
