From PyGql Require Import Spec.DepthSpec.

Definition fields_of (g : groups) : list selection := flat_map snd g.
Definition all_nonempty (g : groups) : Prop := forall kv, In kv g -> snd kv <> [].

Lemma fields_of_add_group k fs g x :
  In x (fields_of (add_group k fs g)) <-> In x (fields_of g) \/ In x fs.
Proof.
  unfold fields_of. induction g as [|[k' fs'] g IH]; simpl.
  - rewrite app_nil_r. tauto.
  - destruct (str_eqb k k'); simpl; rewrite !in_app_iff.
    + tauto.
    + rewrite IH. tauto.
Qed.

Lemma fields_of_merge src : forall into x,
  In x (fields_of (merge_groups src into)) <-> In x (fields_of into) \/ In x (fields_of src).
Proof.
  unfold merge_groups. induction src as [|[k fs] src IH]; intros into x; simpl.
  - tauto.
  - rewrite IH, fields_of_add_group. unfold fields_of at 4; simpl. rewrite in_app_iff.
    fold (fields_of src). tauto.
Qed.

Lemma all_nonempty_add k fs g : fs <> [] -> all_nonempty g -> all_nonempty (add_group k fs g).
Proof.
  intros Hfs. induction g as [|[k' fs'] g IH]; intros Hg kv; simpl.
  - intros [<-|[]]; assumption.
  - destruct (str_eqb k k'); simpl.
    + intros [<-|Hin]; simpl.
      * intro H. apply app_eq_nil in H. destruct H; contradiction.
      * apply Hg; right; assumption.
    + intros [<-|Hin].
      * apply (Hg (k', fs')); left; reflexivity.
      * apply IH; [|assumption]. intros kv' Hkv'; apply Hg; right; assumption.
Qed.

Lemma all_nonempty_merge src : forall into,
  all_nonempty src -> all_nonempty into -> all_nonempty (merge_groups src into).
Proof.
  unfold merge_groups. induction src as [|[k fs] src IH]; intros into Hs Hi; simpl.
  - assumption.
  - apply IH.
    + intros kv Hkv; apply Hs; right; assumption.
    + apply all_nonempty_add; [|assumption]. apply (Hs (k, fs)); left; reflexivity.
Qed.

Section Proofs.
  Variable frags : frag_table.
  Variable vs : vars.

  Notation reach := (reach frags vs).
  Notation path_len := (path_len frags vs).
  Notation included := (included vs).
  Notation cinto := (collect_into (fun _ => true) frags vs false).

  Definition from_seen (S : list str) (f : selection) : Prop :=
    exists n tc fsels, In n S /\ alookup n frags = Some (tc, fsels) /\ reach fsels f.

  Definition covers (g : groups) (S0 : list str) (n : str) : Prop :=
    forall tc fsels f, alookup n frags = Some (tc, fsels) -> reach fsels f ->
                       In f (fields_of g) \/ from_seen S0 f.

  Lemma reach_incl ss ss' f : (forall x, In x ss -> In x ss') -> reach ss f -> reach ss' f.
  Proof.
    intros Hi H. inversion H; subst.
    - apply R_field; auto.
    - eapply R_inline; eauto.
    - eapply R_spread; eauto.
  Qed.

  Lemma reach_cons_inv x ss f : reach (x :: ss) f -> reach [x] f \/ reach ss f.
  Proof.
    intros H. inversion H; subst.
    - match goal with Hin : In _ (x :: ss) |- _ => destruct Hin as [->|Hin] end.
      + left; apply R_field; [left; reflexivity|assumption].
      + right; apply R_field; assumption.
    - match goal with Hin : In _ (x :: ss) |- _ => destruct Hin as [->|Hin] end.
      + left; eapply R_inline; [left; reflexivity| |]; eassumption.
      + right; eapply R_inline; eassumption.
    - match goal with Hin : In _ (x :: ss) |- _ => destruct Hin as [->|Hin] end.
      + left; eapply R_spread; [left; reflexivity| | |]; eassumption.
      + right; eapply R_spread; eassumption.
  Qed.


  Lemma reach_single_field a n args ds sl sub l f :
    reach [SField a n args ds sl sub l] f ->
    f = SField a n args ds sl sub l /\ included ds = true.
  Proof.
    intros H. inversion H; subst;
      match goal with Hin : In _ [_] |- _ => destruct Hin as [Heq|[]]; inversion Heq; subst end.
    split; [reflexivity|assumption].
  Qed.

  Lemma reach_single_inline tc ds ssl sub l f :
    reach [SInline tc ds ssl sub l] f -> included ds = true /\ reach sub f.
  Proof.
    intros H. inversion H; subst;
      match goal with Hin : In _ [_] |- _ => destruct Hin as [Heq|[]]; inversion Heq; subst end.
    split; assumption.
  Qed.

  Lemma reach_single_spread n ds l f :
    reach [SSpread n ds l] f ->
    included ds = true /\ exists tc fsels, alookup (n_val n) frags = Some (tc, fsels) /\ reach fsels f.
  Proof.
    intros H. inversion H; subst;
      match goal with Hin : In _ [_] |- _ => destruct Hin as [Heq|[]]; inversion Heq; subst end.
    split; [assumption|]. eauto.
  Qed.

  Lemma included_spec ds : included ds = true <-> skip_selection ds vs = Ok false.
  Proof.
    unfold DepthSpec.included. destruct (skip_selection ds vs) as [[|]| | |]; split; congruence.
  Qed.

  Lemma caller_view_cases local x :
    (local = [] /\ caller_view local x = []) \/ (local <> [] /\ caller_view local x = x).
  Proof. destruct local; simpl; [left|right]; split; congruence. Qed.

  (* The loop invariant of collect_fields_untyped. *)
  Lemma collect_into_spec : forall fuel ss g local g' local',
    cinto fuel ss g local = Ok (g', local') ->
    (forall x, In x (fields_of g') -> In x (fields_of g) \/ reach ss x) /\
    (forall x, In x (fields_of g) -> In x (fields_of g')) /\
    (forall f, reach ss f -> In f (fields_of g') \/ from_seen local f) /\
    (forall n, In n local' -> In n local \/ covers g' local n) /\
    (all_nonempty g -> all_nonempty g').
  Proof.
    induction fuel as [|fuel IH]; intros ss g local g' local' H; [discriminate|].
    destruct ss as [|sel ss]; simpl in H.
    - inversion H; subst. repeat split; auto.
      intros f Hr. inversion Hr; subst; match goal with Hin : In _ [] |- _ => destruct Hin end.
    - destruct sel as [alias n args dirs sl sub l | n dirs l | tc dirs ssl sub l].
      + (* field *)
        destruct (skip_selection dirs vs) as [sk| | |] eqn:Hsk; simpl in H; try discriminate.
        destruct sk.
        * apply IH in H. destruct H as (H1 & H2 & H3 & H4 & H5).
          repeat split; auto.
          -- intros x Hx. destruct (H1 x Hx) as [?|Hr]; [left; assumption|right].
             eapply reach_incl; [|exact Hr]. intros; right; assumption.
          -- intros f Hr. apply reach_cons_inv in Hr. destruct Hr as [Hr|Hr]; [|auto].
             exfalso. apply reach_single_field in Hr. destruct Hr as [_ Hi].
             apply included_spec in Hi; congruence.
        * apply IH in H. destruct H as (H1 & H2 & H3 & H4 & H5).
          repeat split.
          -- intros x Hx. destruct (H1 x Hx) as [Hg|Hr].
             ++ apply fields_of_add_group in Hg. destruct Hg as [?|[<-|[]]]; [left; assumption|right].
                apply R_field; [left; reflexivity|apply included_spec; assumption].
             ++ right. eapply reach_incl; [|exact Hr]. intros; right; assumption.
          -- intros x Hx. apply H2. apply fields_of_add_group. left; assumption.
          -- intros f Hr. apply reach_cons_inv in Hr. destruct Hr as [Hr|Hr]; [|auto].
             left. apply reach_single_field in Hr. destruct Hr as [-> _].
             apply H2. apply fields_of_add_group. right; left; reflexivity.
          -- assumption.
          -- intros Hne. apply H5. apply all_nonempty_add; [discriminate|assumption].
      + (* spread *)
        destruct (alookup (n_val n) frags) as [[tc fsels]|] eqn:Hlk.
        * destruct (skip_selection dirs vs) as [sk| | |] eqn:Hsk; simpl in H; try discriminate.
          rewrite orb_false_r in H.
          destruct (sk || mem_str (n_val n) local) eqn:Hcond.
          -- (* skipped, or already seen *)
             apply IH in H. destruct H as (H1 & H2 & H3 & H4 & H5).
             repeat split; auto.
             ++ intros x Hx. destruct (H1 x Hx) as [?|Hr]; [left; assumption|right].
                eapply reach_incl; [|exact Hr]. intros; right; assumption.
             ++ intros f Hr. apply reach_cons_inv in Hr. destruct Hr as [Hr|Hr]; [|auto].
                apply reach_single_spread in Hr. destruct Hr as [Hi (tc0 & fsels0 & Hl0 & Hr0)].
                apply included_spec in Hi.
                assert (sk = false) by congruence. subst sk.
                simpl in Hcond. apply mem_str_In in Hcond.
                right. exists (n_val n), tc0, fsels0. repeat split; assumption.
          -- (* collected *)
             apply orb_false_iff in Hcond.
             destruct Hcond as [-> Hnotin].
             destruct (cinto fuel fsels [] local) as [[g1 l1]| | |] eqn:Hnest; simpl in H; try discriminate.
             apply IH in Hnest. destruct Hnest as (N1 & N2 & N3 & N4 & N5).
             apply IH in H. destruct H as (H1 & H2 & H3 & H4 & H5).
             assert (Hview : forall m, In m (caller_view local l1) -> In m local \/ covers g1 local m).
             { intros m Hm. destruct (caller_view_cases local l1) as [[_ Hv]|[_ Hv]]; rewrite Hv in Hm.
               - destruct Hm.
               - apply N4; assumption. }
             assert (Hsub : forall x, In x (fields_of g1) -> In x (fields_of g')).
             { intros x Hx. apply H2. apply fields_of_merge. right; assumption. }
             assert (Hfs : forall f, from_seen (n_val n :: caller_view local l1) f ->
                                     In f (fields_of g') \/ from_seen local f).
             { intros f (m & tcm & fm & Hm & Hlm & Hrm). destruct Hm as [<-|Hm].
               - rewrite Hlk in Hlm. inversion Hlm; subst.
                 destruct (N3 f Hrm) as [?|?]; [left; apply Hsub; assumption|right; assumption].
               - destruct (Hview m Hm) as [Hl|Hc].
                 + right. exists m, tcm, fm. repeat split; assumption.
                 + destruct (Hc tcm fm f Hlm Hrm) as [?|?]; [left; apply Hsub; assumption|right; assumption]. }
             repeat split.
             ++ intros x Hx. destruct (H1 x Hx) as [Hg|Hr].
                ** apply fields_of_merge in Hg. destruct Hg as [?|Hg]; [left; assumption|right].
                   destruct (N1 x Hg) as [[]|Hr].
                   eapply R_spread; [left; reflexivity|apply included_spec; eassumption|eassumption|assumption].
                ** right. eapply reach_incl; [|exact Hr]. intros; right; assumption.
             ++ intros x Hx. apply H2. apply fields_of_merge. left; assumption.
             ++ intros f Hr. apply reach_cons_inv in Hr. destruct Hr as [Hr|Hr].
                ** apply reach_single_spread in Hr. destruct Hr as [Hi (tc0 & fsels0 & Hl0 & Hr0)].
                   rewrite Hlk in Hl0; inversion Hl0; subst.
                   destruct (N3 f Hr0) as [?|?];
                     [left; apply Hsub; assumption|right; assumption].
                ** destruct (H3 f Hr) as [?|Hf]; [left; assumption|apply Hfs; assumption].
             ++ intros m Hm. destruct (H4 m Hm) as [Hin|Hc].
                ** destruct Hin as [<-|Hin].
                   --- right. intros tcm fm f Hlm Hrm. apply Hfs.
                       exists (n_val n), tcm, fm. repeat split; [left; reflexivity|assumption|assumption].
                   --- destruct (Hview m Hin) as [?|Hc]; [left; assumption|right].
                       intros tcm fm f Hlm Hrm. destruct (Hc tcm fm f Hlm Hrm) as [?|?];
                         [left; apply Hsub; assumption|right; assumption].
                ** right. intros tcm fm f Hlm Hrm. destruct (Hc tcm fm f Hlm Hrm) as [?|Hf];
                     [left; assumption|apply Hfs; assumption].
             ++ intros Hne. apply H5. apply all_nonempty_merge; [|assumption].
                apply N5. intros kv [].
        * (* unknown fragment: ignored *)
          destruct (skip_selection dirs vs) as [sk| | |] eqn:Hsk; simpl in H; try discriminate.
          apply IH in H. destruct H as (H1 & H2 & H3 & H4 & H5).
          repeat split; auto.
          -- intros x Hx. destruct (H1 x Hx) as [?|Hr]; [left; assumption|right].
             eapply reach_incl; [|exact Hr]. intros; right; assumption.
          -- intros f Hr. apply reach_cons_inv in Hr. destruct Hr as [Hr|Hr]; [|auto].
             exfalso. apply reach_single_spread in Hr. destruct Hr as [_ (tc0 & fsels0 & Hl0 & _)].
             congruence.
      + (* inline fragment *)
        destruct (skip_selection dirs vs) as [sk| | |] eqn:Hsk; simpl in H; try discriminate.
        rewrite orb_false_r in H.
        destruct sk.
        *
          apply IH in H. destruct H as (H1 & H2 & H3 & H4 & H5).
          repeat split; auto.
          -- intros x Hx. destruct (H1 x Hx) as [?|Hr]; [left; assumption|right].
             eapply reach_incl; [|exact Hr]. intros; right; assumption.
          -- intros f Hr. apply reach_cons_inv in Hr. destruct Hr as [Hr|Hr]; [|auto].
             exfalso. apply reach_single_inline in Hr. destruct Hr as [Hi _].
             apply included_spec in Hi; congruence.
        * destruct (cinto fuel sub [] local) as [[g1 l1]| | |] eqn:Hnest; simpl in H; try discriminate.
          apply IH in Hnest. destruct Hnest as (N1 & N2 & N3 & N4 & N5).
          apply IH in H. destruct H as (H1 & H2 & H3 & H4 & H5).
          assert (Hview : forall m, In m (caller_view local l1) -> In m local \/ covers g1 local m).
          { intros m Hm. destruct (caller_view_cases local l1) as [[_ Hv]|[_ Hv]]; rewrite Hv in Hm.
            - destruct Hm.
            - apply N4; assumption. }
          assert (Hsub : forall x, In x (fields_of g1) -> In x (fields_of g')).
          { intros x Hx. apply H2. apply fields_of_merge. right; assumption. }
          assert (Hfs : forall f, from_seen (caller_view local l1) f ->
                                  In f (fields_of g') \/ from_seen local f).
          { intros f (m & tcm & fm & Hm & Hlm & Hrm).
            destruct (Hview m Hm) as [Hl|Hc].
            - right. exists m, tcm, fm. repeat split; assumption.
            - destruct (Hc tcm fm f Hlm Hrm) as [?|?]; [left; apply Hsub; assumption|right; assumption]. }
          repeat split.
          -- intros x Hx. destruct (H1 x Hx) as [Hg|Hr].
             ++ apply fields_of_merge in Hg. destruct Hg as [?|Hg]; [left; assumption|right].
                destruct (N1 x Hg) as [[]|Hr].
                eapply R_inline; [left; reflexivity|apply included_spec; eassumption|assumption].
             ++ right. eapply reach_incl; [|exact Hr]. intros; right; assumption.
          -- intros x Hx. apply H2. apply fields_of_merge. left; assumption.
          -- intros f Hr. apply reach_cons_inv in Hr. destruct Hr as [Hr|Hr].
             ++ apply reach_single_inline in Hr. destruct Hr as [_ Hr0].
                destruct (N3 f Hr0) as [?|?];
                  [left; apply Hsub; assumption|right; assumption].
             ++ destruct (H3 f Hr) as [?|Hf]; [left; assumption|apply Hfs; assumption].
          -- intros m Hm. destruct (H4 m Hm) as [Hin|Hc].
             ++ destruct (Hview m Hin) as [?|Hc]; [left; assumption|right].
                intros tcm fm f Hlm Hrm. destruct (Hc tcm fm f Hlm Hrm) as [?|?];
                  [left; apply Hsub; assumption|right; assumption].
             ++ right. intros tcm fm f Hlm Hrm. destruct (Hc tcm fm f Hlm Hrm) as [?|Hf];
                  [left; assumption|apply Hfs; assumption].
          -- intros Hne. apply H5. apply all_nonempty_merge; [|assumption].
             apply N5. intros kv [].
  Qed.

  (* whole call: the groups hold exactly the reachable field nodes *)
  Lemma collect_untyped_spec fuel ss g :
    collect_untyped frags vs fuel ss = Ok g ->
    (forall f, In f (fields_of g) <-> reach ss f) /\ all_nonempty g.
  Proof.
    unfold collect_untyped, collect. intros H.
    destruct (cinto fuel ss [] []) as [[g0 l0]| | |] eqn:Hc; simpl in H; try discriminate.
    inversion H; subst g0. apply collect_into_spec in Hc.
    destruct Hc as (H1 & H2 & H3 & H4 & H5). split.
    - intros f; split.
      + intros Hf. destruct (H1 f Hf) as [[]|?]; assumption.
      + intros Hr. destruct (H3 f Hr) as [?|(m & ? & ? & [] & _)]; assumption.
    - apply H5. intros kv [].
  Qed.

  Lemma reach_is_field ss f : reach ss f -> exists a n args ds sl sub l, f = SField a n args ds sl sub l.
  Proof. induction 1; eauto 10. Qed.

  Lemma reach_app ss1 ss2 f : reach (ss1 ++ ss2) f <-> reach ss1 f \/ reach ss2 f.
  Proof.
    split.
    - intros H. inversion H; subst;
        match goal with Hin : In _ (_ ++ _) |- _ => apply in_app_iff in Hin; destruct Hin end;
        solve [left; econstructor; eassumption | right; econstructor; eassumption].
    - intros [H|H]; (eapply reach_incl; [|exact H]); intros; apply in_app_iff; auto.
  Qed.

  Lemma reach_children_of fields f :
    reach (children_of fields) f <-> exists x, In x fields /\ reach (field_children x) f.
  Proof.
    unfold children_of. induction fields as [|x fields IH]; simpl.
    - split; [intros H; inversion H; subst; match goal with Hin : In _ [] |- _ => destruct Hin end
             |intros (x & [] & _)].
    - rewrite reach_app, IH. split.
      + intros [H|(y & Hy & H)]; [exists x; split; [left; reflexivity|exact H]|exists y; split; [right|]; assumption].
      + intros (y & [<-|Hy] & H); [left; exact H|right; exists y; split; assumption].
  Qed.

  Lemma path_len_children_of fields k :
    path_len (children_of fields) (S k) <->
    exists x, In x fields /\ path_len (field_children x) (S k).
  Proof.
    split.
    - intros H. inversion H; subst.
      match goal with Hr : reach (children_of _) _ |- _ => apply reach_children_of in Hr; destruct Hr as (x & Hx & Hr) end.
      exists x; split; [assumption|]. eapply P_step; eassumption.
    - intros (x & Hx & H). inversion H; subst.
      eapply P_step; [|eassumption]. apply reach_children_of. exists x; split; assumption.
  Qed.

  (* the fold over the groups in _selection_depth *)
  Lemma fold_depth_spec fuel (g : groups) : forall a0 d,
    (forall kv d', In kv g -> sel_depth fuel frags vs (children_of (snd kv)) = Ok d' ->
                   is_depth frags vs (children_of (snd kv)) d') ->
    fold_left (fun acc kv =>
                 do a <- acc;
                 do d <- sel_depth fuel frags vs (children_of (snd kv));
                 Ok (Nat.max a (S d))) g (Ok a0) = Ok d ->
    a0 <= d /\
    (forall kv, In kv g -> exists d', is_depth frags vs (children_of (snd kv)) d' /\ S d' <= d) /\
    (d = a0 \/ exists kv d', In kv g /\ is_depth frags vs (children_of (snd kv)) d' /\ d = S d').
  Proof.
    induction g as [|kv g IH]; intros a0 d Hsub H; simpl in H.
    - inversion H; subst. split; [lia|]. split; [intros ? []|left; reflexivity].
    - destruct (sel_depth fuel frags vs (children_of (snd kv))) as [dk| | |] eqn:Hd; simpl in H.
      + specialize (Hsub kv dk (or_introl eq_refl) Hd) as Hk.
        apply IH in H; [|intros kv' d' Hin; apply Hsub; right; assumption].
        destruct H as (Hle & Hall & Hmax). split; [lia|]. split.
        * intros kv' [<-|Hin]; [exists dk; split; [assumption|lia]|apply Hall; assumption].
        * destruct Hmax as [->|(kv' & d' & Hin & Hd' & ->)].
          -- destruct (Nat.max_spec a0 (S dk)) as [[_ Hm]|[_ Hm]].
             ++ right; exists kv, dk. split; [left; reflexivity|]. split; [assumption|exact Hm].
             ++ left; exact Hm.
          -- right; exists kv', d'. split; [right; assumption|]. split; [assumption|reflexivity].
      + exfalso. clear -H. induction g as [|x g IHg]; simpl in H; [discriminate|auto].
      + exfalso. clear -H. induction g as [|x g IHg]; simpl in H; [discriminate|auto].
      + exfalso. clear -H. induction g as [|x g IHg]; simpl in H; [discriminate|auto].
  Qed.

  Theorem sel_depth_exact : forall fuel ss d,
    sel_depth fuel frags vs ss = Ok d -> is_depth frags vs ss d.
  Proof.
    induction fuel as [|fuel IH]; intros ss d H; [discriminate|].
    simpl in H.
    destruct (collect_untyped frags vs fuel ss) as [g| | |] eqn:Hc; simpl in H; try discriminate.
    apply collect_untyped_spec in Hc. destruct Hc as [Hfields Hne].
    apply fold_depth_spec in H; [|intros kv d' _ Hd; apply IH; assumption].
    destruct H as (_ & Hall & Hmax). split.
    - destruct Hmax as [->|(kv & d' & Hin & [Hp _] & ->)]; [constructor|].
      destruct d' as [|d'].
      + (* some field of the group, with an empty path below it *)
        destruct (snd kv) as [|x xs] eqn:Hkv; [exfalso; apply (Hne kv Hin); assumption|].
        eapply P_step; [|constructor].
        apply Hfields. unfold fields_of. apply in_flat_map. exists kv; split; [assumption|].
        rewrite Hkv; left; reflexivity.
      + apply path_len_children_of in Hp. destruct Hp as (x & Hx & Hp).
        eapply P_step; [|eassumption].
        apply Hfields. unfold fields_of. apply in_flat_map. exists kv; split; assumption.
    - intros k Hk. destruct k as [|k]; [lia|].
      inversion Hk; subst.
      match goal with Hr : reach ss ?f |- _ => apply Hfields in Hr; unfold fields_of in Hr;
        apply in_flat_map in Hr; destruct Hr as (kv & Hin & Hf) end.
      destruct (Hall kv Hin) as (d' & [_ Hmaxk] & Hle).
      assert (k <= d'); [|lia].
      apply Hmaxk. destruct k as [|k]; [constructor|].
      apply path_len_children_of. eexists; split; eassumption.
  Qed.

  Lemma is_depth_unique ss d1 d2 : is_depth frags vs ss d1 -> is_depth frags vs ss d2 -> d1 = d2.
  Proof. intros [P1 M1] [P2 M2]. apply M2 in P1. apply M1 in P2. lia. Qed.

  (* ---- wrapping a selection in an (included) inline fragment ---- *)
  Lemma reach_wrap_inline pre post tc ds ssl sub l f :
    included ds = true ->
    (reach (pre ++ SInline tc ds ssl sub l :: post) f <-> reach (pre ++ sub ++ post) f).
  Proof.
    intros Hi. change (SInline tc ds ssl sub l :: post) with ([SInline tc ds ssl sub l] ++ post).
    rewrite !reach_app. split.
    - intros [H|[H|H]]; auto. apply reach_single_inline in H. destruct H; auto.
    - intros [H|[H|H]]; auto. right; left. eapply R_inline; [left; reflexivity|assumption|assumption].
  Qed.

  Lemma path_len_reach_ext ss ss' k :
    (forall f, reach ss f <-> reach ss' f) -> path_len ss k -> path_len ss' k.
  Proof.
    intros He H. destruct H; [constructor|]. eapply P_step; [apply He|]; eassumption.
  Qed.

  Lemma is_depth_wrap_inline pre post tc ds ssl sub l d :
    included ds = true ->
    (is_depth frags vs (pre ++ SInline tc ds ssl sub l :: post) d <->
     is_depth frags vs (pre ++ sub ++ post) d).
  Proof.
    intros Hi. unfold is_depth.
    assert (He := fun f => reach_wrap_inline pre post tc ds ssl sub l f Hi).
    split; intros [P M]; split.
    - eapply path_len_reach_ext; [exact He|exact P].
    - intros k Hk. apply M. eapply path_len_reach_ext; [|exact Hk]. intro f; symmetry; apply He.
    - eapply path_len_reach_ext; [|exact P]. intro f; symmetry; apply He.
    - intros k Hk. apply M. eapply path_len_reach_ext; [exact He|exact Hk].
  Qed.

  (* ---- no Crash outcome ---- *)
  Lemma dir_if_no_crash dn ds k : dir_if dn ds vs <> Crash k.
  Proof.
    unfold dir_if. destruct (find_dir dn ds); [|discriminate].
    destruct (find_arg_last s_if (d_args d)); [|discriminate].
    destruct (a_val a); try discriminate. destruct (alookup (n_val n) vs) as [[]|]; discriminate.
  Qed.

  Lemma skip_selection_no_crash ds k : skip_selection ds vs <> Crash k.
  Proof.
    unfold skip_selection.
    destruct (dir_if s_skip ds vs) eqn:H1; simpl; try discriminate;
      [|exfalso; eapply dir_if_no_crash; eassumption].
    destruct (dir_if s_include ds vs) eqn:H2; simpl; try discriminate.
    exfalso; eapply dir_if_no_crash; eassumption.
  Qed.

  Lemma collect_into_no_crash : forall fuel ss g local k, cinto fuel ss g local <> Crash k.
  Proof.
    induction fuel as [|fuel IH]; intros ss g local k; [discriminate|].
    destruct ss as [|sel ss]; simpl; [discriminate|].
    destruct sel as [alias n args dirs sl sub l | n dirs l | tc dirs ssl sub l].
    - destruct (skip_selection dirs vs) as [sk| | |] eqn:Hsk; simpl; try discriminate.
      + destruct sk; apply IH.
      + exfalso; eapply skip_selection_no_crash; eassumption.
    - destruct (alookup (n_val n) frags) as [[tc fsels]|].
      + destruct (skip_selection dirs vs) as [sk| | |] eqn:Hsk; simpl; try discriminate.
        * destruct (sk || mem_str (n_val n) local || false); [apply IH|].
          destruct (cinto fuel fsels [] local) as [r| | |] eqn:Hn; simpl; try discriminate.
          -- apply IH.
          -- exfalso; eapply IH; eassumption.
        * exfalso; eapply skip_selection_no_crash; eassumption.
      + destruct (skip_selection dirs vs) as [sk| | |] eqn:Hsk; simpl; try discriminate.
        * apply IH.
        * exfalso; eapply skip_selection_no_crash; eassumption.
    - destruct (skip_selection dirs vs) as [sk| | |] eqn:Hsk; simpl; try discriminate.
      + destruct (sk || false); [apply IH|].
        destruct (cinto fuel sub [] local) as [r| | |] eqn:Hn; simpl; try discriminate.
        * apply IH.
        * exfalso; eapply IH; eassumption.
      + exfalso; eapply skip_selection_no_crash; eassumption.
  Qed.

  Lemma fold_no_crash fuel (g : groups) :
    (forall ss k, sel_depth fuel frags vs ss <> Crash k) ->
    forall acc k, (forall k', acc <> Crash k') ->
    fold_left (fun acc kv =>
                 do a <- acc;
                 do d <- sel_depth fuel frags vs (children_of (snd kv));
                 Ok (Nat.max a (S d))) g acc <> Crash k.
  Proof.
    intros Hs. induction g as [|kv g IH]; intros acc k Hacc; simpl; [apply Hacc|].
    apply IH. intros k'. destruct acc; simpl; try discriminate; [|apply Hacc].
    destruct (sel_depth fuel frags vs (children_of (snd kv))) eqn:Hd; simpl; try discriminate.
    exfalso; eapply Hs; eassumption.
  Qed.

  Lemma sel_depth_no_crash : forall fuel ss k, sel_depth fuel frags vs ss <> Crash k.
  Proof.
    induction fuel as [|fuel IH]; intros ss k; [discriminate|]. simpl.
    unfold collect_untyped, collect.
    destruct (cinto fuel ss [] []) as [r| | |] eqn:Hc; simpl; try discriminate.
    - apply fold_no_crash; [exact IH|discriminate].
    - exfalso; eapply collect_into_no_crash; eassumption.
  Qed.
End Proofs.

(* ---- the rule as a whole ---- *)
Lemma rule_from_no_crash fuel limit filter frags vs : forall ds i k,
  rule_from fuel limit filter frags vs i ds <> Crash k.
Proof.
  induction ds as [|d ds IH]; intros i k; simpl; [discriminate|].
  destruct d; try apply IH.
  destruct (name_matches filter n); [|apply IH].
  destruct (sel_depth fuel frags vs sels) eqn:Hd; simpl; try discriminate.
  - destruct (rule_from fuel limit filter frags vs (N.succ i) ds) eqn:Hr; simpl; try discriminate.
    exfalso; eapply IH; eassumption.
  - exfalso; eapply sel_depth_no_crash; eassumption.
Qed.

Definition flagged_spec (limit : Z) (filter : option str) (frags : frag_table) (vs : vars)
           (ds : list definition) (m : nat) (dep : Z) : Prop :=
  exists k n vds dirs ssl sels lo dd,
    nth_error ds m = Some (DOperation k n vds dirs ssl sels lo) /\
    name_matches filter n = true /\
    is_depth frags vs sels dd /\
    dep = (Z.of_nat dd - 1)%Z /\ (limit < dep)%Z.

Lemma rule_from_spec fuel limit filter frags vs : forall ds i l,
  rule_from fuel limit filter frags vs i ds = Ok l ->
  forall j dep, In (j, dep) l <->
                exists m, j = (i + N.of_nat m)%N /\ flagged_spec limit filter frags vs ds m dep.
Proof.
  induction ds as [|d ds IH]; intros i l H j dep; simpl in H.
  - inversion H; subst. split; [intros []|].
    intros (m & _ & (k & n & vds & dirs & ssl & sels & lo & dd & Hn & _)). destruct m; discriminate.
  - assert (Hshift : forall l', rule_from fuel limit filter frags vs (N.succ i) ds = Ok l' ->
              (In (j, dep) l' <-> exists m, j = (i + N.of_nat (S m))%N /\ flagged_spec limit filter frags vs ds m dep)).
    { intros l' Hl'. rewrite (IH _ _ Hl' j dep). split; intros (m & -> & Hm); exists m; (split; [lia|assumption]). }
    assert (Hskip : (forall k n vds dirs ssl sels lo, d = DOperation k n vds dirs ssl sels lo -> name_matches filter n = false) ->
                    rule_from fuel limit filter frags vs (N.succ i) ds = Ok l ->
                    (In (j, dep) l <-> exists m, j = (i + N.of_nat m)%N /\ flagged_spec limit filter frags vs (d :: ds) m dep)).
    { intros Hno Hl. rewrite (Hshift _ Hl). split.
      - intros (m & -> & Hm). exists (S m). split; [reflexivity|]. exact Hm.
      - intros (m & -> & Hm). destruct m as [|m].
        + exfalso. destruct Hm as (k & n & vds & dirs & ssl & sels & lo & dd & Hn & Hnm & _).
          simpl in Hn. inversion Hn; subst. rewrite (Hno _ _ _ _ _ _ _ eq_refl) in Hnm. discriminate.
        + exists m. split; [reflexivity|exact Hm]. }
    destruct d; try (apply Hskip; [intros; discriminate|assumption]).
    destruct (name_matches filter n) eqn:Hnm;
      [|apply Hskip; [intros ? ? ? ? ? ? ? Heq; inversion Heq; subst; assumption|assumption]].
    destruct (sel_depth fuel frags vs sels) as [dd| | |] eqn:Hd; simpl in H; try discriminate.
    destruct (rule_from fuel limit filter frags vs (N.succ i) ds) as [rest| | |] eqn:Hr; simpl in H; try discriminate.
    apply sel_depth_exact in Hd.
    assert (Hhead : forall dep', flagged_spec limit filter frags vs (DOperation k n vds dirs ssl sels l0 :: ds) 0 dep' <->
                                 dep' = (Z.of_nat dd - 1)%Z /\ (limit < dep')%Z).
    { intros dep'. split.
      - intros (k' & n' & vds' & dirs' & ssl' & sels' & lo' & dd' & Hn & _ & Hdd & -> & Hlt).
        simpl in Hn. inversion Hn; subst. rewrite (is_depth_unique _ _ _ _ _ Hd Hdd) in *. auto.
      - intros [-> Hlt]. exists k, n, vds, dirs, ssl, sels, l0, dd. repeat split; auto; apply Hd. }
    inversion H; subst l; clear H.
    destruct (limit <? Z.of_nat dd - 1)%Z eqn:Hlt.
    + apply Z.ltb_lt in Hlt. simpl. rewrite (Hshift _ eq_refl). split.
      * intros [Heq|(m & -> & Hm)].
        -- inversion Heq; subst. exists 0. split; [lia|]. apply Hhead. auto.
        -- exists (S m). split; [reflexivity|exact Hm].
      * intros (m & -> & Hm). destruct m as [|m].
        -- left. apply Hhead in Hm. destruct Hm as [-> _]. f_equal. lia.
        -- right. exists m. split; [reflexivity|exact Hm].
    + apply Z.ltb_ge in Hlt. rewrite (Hshift _ eq_refl). split.
      * intros (m & -> & Hm). exists (S m). split; [reflexivity|exact Hm].
      * intros (m & -> & Hm). destruct m as [|m].
        -- apply Hhead in Hm. destruct Hm as [-> Hlt']. lia.
        -- exists m. split; [reflexivity|exact Hm].
Qed.
