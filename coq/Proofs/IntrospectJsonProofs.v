(* C15 -- the Spec's reader [parse_lit] reads back what json.dumps writes:
   null / booleans / integers / finite floats / strings without characters
   above U+FFFF / nested lists of these. *)
From PyGql Require Import Spec.IntrospectSpec.
From Coq Require Import Lia ZifyBool DecimalPos DecimalFacts.

(* nested induction on Python values *)
Section PvInd.
  Variable P : pv -> Prop.
  Hypothesis HNone : P PNone.
  Hypothesis HBool : forall b, P (PBool b).
  Hypothesis HInt : forall z, P (PInt z).
  Hypothesis HFloat : forall r, P (PFloat r).
  Hypothesis HStr : forall x, P (PStr x).
  Hypothesis HList : forall l, Forall P l -> P (PList l).
  Hypothesis HDict : forall kvs, Forall (fun kv => P (snd kv)) kvs -> P (PDict kvs).
  Fixpoint pv_ind' (v : pv) : P v :=
    match v with
    | PNone => HNone | PBool b => HBool b | PInt z => HInt z | PFloat r => HFloat r | PStr x => HStr x
    | PList l => HList l ((fix go (l : list pv) : Forall P l :=
                             match l with [] => Forall_nil _ | x :: l' => Forall_cons x (pv_ind' x) (go l') end) l)
    | PDict kvs => HDict kvs ((fix go (l : list (str * pv)) : Forall (fun kv => P (snd kv)) l :=
                                 match l with
                                 | [] => Forall_nil _
                                 | kv :: l' => Forall_cons kv (pv_ind' (snd kv)) (go l')
                                 end) kvs)
    end.
End PvInd.

(* what may follow a token inside a list, or the end of the text *)
Definition rest_ok (rest : str) : bool :=
  match rest with
  | [] => true
  | c :: _ => negb (is_num_char c) && negb (is_name_char c) && negb (N.eqb c 34)
  end.

Lemma span_app p a rest :
  forallb p a = true -> match rest with [] => True | c :: _ => p c = false end ->
  span p (a ++ rest) = (a, rest).
Proof.
  intros Ha Hr. induction a as [|c a IH]; simpl.
  - destruct rest as [|c r]; [reflexivity|]. simpl. rewrite Hr. reflexivity.
  - simpl in Ha. apply andb_true_iff in Ha as [Hc Ha]. rewrite Hc, (IH Ha). reflexivity.
Qed.

Lemma rest_ok_num rest : rest_ok rest = true -> match rest with [] => True | c :: _ => is_num_char c = false end.
Proof. destruct rest as [|c r]; simpl; auto. intros H. destruct (is_num_char c); [discriminate|reflexivity]. Qed.
Lemma rest_ok_name rest : rest_ok rest = true -> match rest with [] => True | c :: _ => is_name_char c = false end.
Proof.
  destruct rest as [|c r]; simpl; auto. intros H.
  destruct (is_num_char c); [discriminate|]. destruct (is_name_char c); [discriminate|reflexivity].
Qed.
Lemma rest_ok_quote c r : rest_ok (c :: r) = true -> N.eqb c 34 = false.
Proof. simpl. intros H. destruct (N.eqb c 34); [|reflexivity]. rewrite andb_false_r in H. discriminate. Qed.

Lemma digit_facts' c : is_digit c = true ->
  is_num_char c = true /\ is_float_mark c = false /\ is_ignored c = false /\
  N.eqb c 34 = false /\ N.eqb c 45 = false /\ N.eqb c 91 = false /\ N.eqb c 123 = false /\ N.eqb c 93 = false.
Proof. unfold is_num_char, is_float_mark, is_ignored, is_digit. intros H. repeat split; lia. Qed.

Lemma uint_digits_all' u : forallb is_digit (uint_digits u) = true.
Proof. induction u; simpl; auto. Qed.
Lemma digits_uint_digits' u : digits_uint (uint_digits u) = Some u.
Proof. induction u; simpl; rewrite ?IHu; reflexivity. Qed.
Lemma forallb_impl' {A} (p q : A -> bool) l :
  (forall x, p x = true -> q x = true) -> forallb p l = true -> forallb q l = true.
Proof. intros Hpq. induction l; simpl; auto. intros H. apply andb_true_iff in H as [H1 H2]. rewrite Hpq, IHl; auto. Qed.
Lemma existsb_none' {A} (p q : A -> bool) l :
  (forall x, p x = true -> q x = false) -> forallb p l = true -> existsb q l = false.
Proof. intros Hpq. induction l; simpl; auto. intros H. apply andb_true_iff in H as [H1 H2]. rewrite Hpq, IHl; auto. Qed.
Lemma to_uint_norm' p : Decimal.unorm (Pos.to_uint p) = Pos.to_uint p.
Proof. rewrite <- (DecimalPos.Unsigned.to_of (Pos.to_uint p)), DecimalPos.Unsigned.of_to. reflexivity. Qed.
Lemma to_uint_head' p : exists c r, uint_digits (Pos.to_uint p) = c :: r /\ is_digit c = true.
Proof.
  pose proof (uint_digits_all' (Pos.to_uint p)) as Hall.
  destruct (uint_digits (Pos.to_uint p)) as [|c r] eqn:Hd.
  - exfalso. pose proof (DecimalPos.Unsigned.of_to p) as Hof.
    destruct (Pos.to_uint p); simpl in *; discriminate.
  - simpl in Hall. apply andb_true_iff in Hall as [Hc _]. exists c, r. auto.
Qed.

Lemma read_number_pos_r neg p rest : rest_ok rest = true ->
  read_number neg (uint_digits (Pos.to_uint p) ++ rest) = Some (LInt (if neg then Zneg p else Zpos p), rest).
Proof.
  intros Hr. unfold read_number. pose proof (uint_digits_all' (Pos.to_uint p)) as Hall.
  rewrite (span_app is_num_char) by
      first [ solve [apply rest_ok_num; assumption]
            | solve [eapply forallb_impl'; [|exact Hall]; intros x Hx; apply digit_facts'; assumption] ].
  rewrite (existsb_none' is_digit is_float_mark) by (auto; intros x Hx; apply digit_facts'; assumption).
  unfold nat_of_digits. destruct (to_uint_head' p) as (c & r & Hd & Hc). rewrite Hd. rewrite <- Hd.
  rewrite digits_uint_digits', to_uint_norm', str_eqb_refl, DecimalPos.Unsigned.of_to.
  destruct neg; reflexivity.
Qed.

(* the scalar tokens, followed by [rest] *)
Lemma scalar_token_int z rest : rest_ok rest = true ->
  scalar_token (dec_of_Z z ++ rest) = Some (LInt z, rest).
Proof.
  intros Hr. destruct z as [|p|p].
  - change (dec_of_Z 0 ++ rest) with (48%N :: rest). unfold scalar_token.
    change (N.eqb 48 34) with false. change (N.eqb 48 45) with false. change (is_digit 48) with true. cbv beta iota.
    unfold read_number. change (48%N :: rest) with ([48%N] ++ rest).
    rewrite (span_app is_num_char) by first [ reflexivity | solve [apply rest_ok_num; assumption] ]. reflexivity.
  - unfold dec_of_Z. destruct (to_uint_head' p) as (c & r & Hd & Hc).
    pose proof (read_number_pos_r false p rest Hr) as Hn. rewrite Hd in *.
    destruct (digit_facts' c Hc) as (_ & _ & _ & H34 & H45 & _).
    cbn [app] in *. unfold scalar_token. rewrite H34, H45, Hc. unfold char in *. exact Hn.
  - unfold dec_of_Z. destruct (to_uint_head' p) as (c & r & Hd & Hc).
    pose proof (read_number_pos_r true p rest Hr) as Hn. rewrite Hd in *.
    cbn [app] in *. unfold scalar_token.
    change (N.eqb 45 34) with false. change (N.eqb 45 45) with true. cbv beta iota. unfold char in *.
    rewrite Hc. exact Hn.
Qed.

Lemma num_not_quote c : is_num_char c = true -> N.eqb c 34 = false.
Proof. unfold is_num_char, is_digit. intros H. lia. Qed.

Lemma scalar_token_float r rest : float_text_ok r = true -> rest_ok rest = true ->
  scalar_token (r ++ rest) = Some (LFloat r, rest).
Proof.
  unfold float_text_ok. intros H Hr. apply andb_true_iff in H as [H Hhead]. apply andb_true_iff in H as [Hall Hmark].
  destruct r as [|c r']; [discriminate|]. cbn [app]. unfold scalar_token.
  simpl in Hall. apply andb_true_iff in Hall as [Hc Hall'].
  rewrite (num_not_quote c Hc).
  destruct (N.eqb c 45) eqn:H45.
  - apply N.eqb_eq in H45. subst c. destruct (is_digit 45) eqn:Hd45; [discriminate|]. simpl in Hhead.
    destruct r' as [|d r'']; [discriminate|]. cbn [app]. rewrite Hhead.
    unfold read_number. change (d :: r'' ++ rest) with ((d :: r'') ++ rest).
    rewrite (span_app is_num_char) by first [ assumption | solve [apply rest_ok_num; assumption] ].
    change (existsb is_float_mark (45%N :: d :: r'')) with (existsb is_float_mark (d :: r'')) in Hmark.
    rewrite Hmark. reflexivity.
  - rewrite orb_false_r in Hhead. rewrite Hhead.
    unfold read_number. change (c :: r' ++ rest) with ((c :: r') ++ rest).
    rewrite (span_app is_num_char) by
        first [ solve [simpl; rewrite Hc; assumption] | solve [apply rest_ok_num; assumption] ].
    rewrite Hmark. reflexivity.
Qed.

Lemma scalar_token_keyword (k : str) rest l :
  forallb is_name_char k = true -> keyword_or_enum k = l ->
  match k with c :: _ => N.eqb c 34 = false /\ N.eqb c 45 = false /\ is_digit c = false /\ is_letter c = true | [] => False end ->
  rest_ok rest = true -> scalar_token (k ++ rest) = Some (l, rest).
Proof.
  intros Hk Hl Hc Hr. destruct k as [|c k]; [contradiction|]. destruct Hc as (H34 & H45 & Hd & Hlet).
  cbn [app]. unfold scalar_token. rewrite H34, H45, Hd, Hlet.
  change (c :: k ++ rest) with ((c :: k) ++ rest).
  rewrite (span_app is_name_char) by first [ assumption | solve [apply rest_ok_name; assumption] ].
  rewrite Hl. reflexivity.
Qed.

(* strings as json.dumps writes them *)
Lemma hex_digit_val x : (x < 16)%N -> hex_val (hex_digit x) = Some x.
Proof.
  intros Hx. unfold hex_digit, hex_val, is_digit. destruct (N.ltb x 10) eqn:H10.
  - assert (H : N.leb 48 (48 + x) && N.leb (48 + x) 57 = true) by lia. rewrite H. f_equal. lia.
  - assert (H : N.leb 48 (87 + x) && N.leb (87 + x) 57 = false) by lia. rewrite H.
    assert (H2 : N.leb 97 (87 + x) && N.leb (87 + x) 102 = true) by lia. rewrite H2. f_equal. lia.
Qed.

Lemma hex_recompose c : (c < 65536)%N ->
  (N.modulo (N.div c 4096) 16 * 4096 + N.modulo (N.div c 256) 16 * 256 + N.modulo (N.div c 16) 16 * 16
   + N.modulo c 16 = c)%N.
Proof. intros H. zify. Z.to_euclidean_division_equations. lia. Qed.

Lemma read_string_u_escape c tail a b : (c < 65536)%N ->
  read_string tail = Some (a, b) -> read_string (u_escape c ++ tail) = Some (c :: a, b).
Proof.
  intros Hc Ht. unfold u_escape. cbn [app read_string].
  change (N.eqb 92 34) with false. change (N.eqb 92 92) with true.
  change (N.eqb 117 34) with false. change (N.eqb 117 92) with false. change (N.eqb 117 47) with false.
  change (N.eqb 117 98) with false. change (N.eqb 117 102) with false. change (N.eqb 117 110) with false.
  change (N.eqb 117 114) with false. change (N.eqb 117 116) with false. change (N.eqb 117 117) with true.
  cbv beta iota.
  rewrite !hex_digit_val by (apply N.mod_lt; discriminate). rewrite Ht, (hex_recompose c Hc). reflexivity.
Qed.

Lemma read_string_escape_char c tail a b : (c < 65536)%N ->
  read_string tail = Some (a, b) -> read_string (json_escape_char c ++ tail) = Some (c :: a, b).
Proof.
  intros Hc Ht. unfold json_escape_char.
  destruct (N.eqb c 34) eqn:E34; [apply N.eqb_eq in E34; subst; cbn; rewrite Ht; reflexivity|].
  destruct (N.eqb c 92) eqn:E92; [apply N.eqb_eq in E92; subst; cbn; rewrite Ht; reflexivity|].
  destruct (N.eqb c 10) eqn:E10; [apply N.eqb_eq in E10; subst; cbn; rewrite Ht; reflexivity|].
  destruct (N.eqb c 13) eqn:E13; [apply N.eqb_eq in E13; subst; cbn; rewrite Ht; reflexivity|].
  destruct (N.eqb c 9) eqn:E9; [apply N.eqb_eq in E9; subst; cbn; rewrite Ht; reflexivity|].
  destruct (N.eqb c 8) eqn:E8; [apply N.eqb_eq in E8; subst; cbn; rewrite Ht; reflexivity|].
  destruct (N.eqb c 12) eqn:E12; [apply N.eqb_eq in E12; subst; cbn; rewrite Ht; reflexivity|].
  destruct (N.leb 32 c && N.leb c 126) eqn:Epr.
  - cbn [app read_string]. rewrite E34, E92, E10, E13. cbn [orb].
    assert (Hok : negb (N.leb 32 c || N.eqb c 9) = false) by lia. rewrite Hok, Ht. reflexivity.
  - assert (Hlt : N.ltb c 65536 = true) by lia. rewrite Hlt. apply read_string_u_escape; assumption.
Qed.

Lemma read_string_json x rest : forallb (fun c => N.ltb c 65536) x = true ->
  read_string (flat_map json_escape_char x ++ 34%N :: rest) = Some (x, rest).
Proof.
  induction x as [|c x IH]; intros H; [reflexivity|].
  simpl in H. apply andb_true_iff in H as [Hc Hx]. cbn [flat_map]. rewrite <- app_assoc.
  apply read_string_escape_char; [lia|auto].
Qed.

Lemma escape_head c : exists h t, json_escape_char c = h :: t /\ N.eqb h 34 = false.
Proof.
  unfold json_escape_char.
  repeat match goal with |- context [if ?b then _ else _] => destruct b eqn:? end;
    try (eexists; eexists; split; [reflexivity|reflexivity]);
    try (exists c, []; split; [reflexivity|lia]);
    try (unfold u_escape; eexists; eexists; split; [simpl; reflexivity|reflexivity]).
Qed.

Lemma scalar_token_json_string x rest :
  forallb (fun c => N.ltb c 65536) x = true -> rest_ok rest = true ->
  scalar_token (json_string x ++ rest) = Some (LStr x, rest).
Proof.
  intros Hx Hr. unfold json_string. cbn [app]. rewrite <- app_assoc. cbn [app].
  pose proof (read_string_json x rest Hx) as Hs. unfold scalar_token.
  change (N.eqb 34 34) with true. cbv beta iota.
  destruct x as [|c x].
  - cbn [flat_map app] in *. destruct rest as [|c3 r]; [reflexivity|].
    cbv beta iota. unfold char in *. rewrite (rest_ok_quote _ _ Hr), andb_false_r, Hs. reflexivity.
  - cbn [flat_map] in *. destruct (escape_head c) as (h & t & He & Hh). rewrite He in *.
    rewrite <- !app_assoc in *. cbn [app] in *.
    destruct (t ++ flat_map json_escape_char x ++ 34%N :: rest) as [|c3 r3] eqn:Hr3.
    + exfalso. apply app_eq_nil in Hr3 as [_ Hr3]. apply app_eq_nil in Hr3 as [_ Hr3]. discriminate.
    + cbv beta iota. unfold char in *. rewrite Hh. cbn [andb]. rewrite Hr3. cbv beta iota. rewrite Hs. reflexivity.
Qed.

(* ------------------------------------------------------------------ *)
(* values and lists *)

Fixpoint items_text (l : list pv) : str :=
  match l with
  | [] => []
  | x :: l' => json_dumps x ++ match l' with [] => [] | _ => comma_sp ++ items_text l' end
  end.

Lemma json_dumps_list l : json_dumps (PList l) = 91%N :: items_text l ++ [93%N].
Proof.
  reflexivity.
Qed.

Lemma plain_lit_list l : plain_lit (PList l) = LList (map plain_lit l).
Proof. reflexivity. Qed.

Definition jok (v : pv) : Prop := scalar_denotable v = true /\ has_astral v = false.

Lemma jok_list l : jok (PList l) -> Forall jok l.
Proof.
  intros [Hd Ha]. induction l as [|x l IH]; constructor.
  - simpl in Hd, Ha. apply andb_true_iff in Hd as [Hd _]. apply orb_false_iff in Ha as [Ha _]. split; assumption.
  - apply IH; simpl in Hd, Ha.
    + apply andb_true_iff in Hd as [_ Hd]. exact Hd.
    + apply orb_false_iff in Ha as [_ Ha]. exact Ha.
Qed.

Lemma no_astral_chars x : existsb (fun c => N.leb 65536 c) x = false -> forallb (fun c => N.ltb c 65536) x = true.
Proof.
  induction x as [|c x IH]; simpl; [reflexivity|]. intros H. apply orb_false_iff in H as [Hc Hx].
  rewrite (IH Hx). assert (Hl : N.ltb c 65536 = true) by lia. rewrite Hl. reflexivity.
Qed.

Lemma dec_of_Z_head z : exists c t, dec_of_Z z = c :: t /\ (is_digit c = true \/ c = 45%N).
Proof.
  destruct z as [|p|p].
  - exists 48%N, []. split; [reflexivity|left; reflexivity].
  - destruct (to_uint_head' p) as (c & r & Hd & Hc). exists c, r. split; [exact Hd|left; exact Hc].
  - eexists; eexists; split; [reflexivity|right; reflexivity].
Qed.

Lemma float_head r : float_text_ok r = true -> exists c t, r = c :: t /\ (is_digit c = true \/ c = 45%N).
Proof.
  unfold float_text_ok. intros H. apply andb_true_iff in H as [_ H]. destruct r as [|c t]; [discriminate|].
  exists c, t. split; [reflexivity|]. apply orb_true_iff in H as [H|H]; [left; exact H|right].
  apply andb_true_iff in H as [H _]. apply N.eqb_eq in H. exact H.
Qed.

Lemma head_facts c : is_digit c = true \/ c = 45%N ->
  is_ignored c = false /\ N.eqb c 91 = false /\ N.eqb c 123 = false /\ N.eqb c 93 = false.
Proof.
  intros [H| ->]; [|repeat split; reflexivity].
  destruct (digit_facts' c H) as (_ & _ & Hi & _ & _ & H91 & H123 & H93). auto.
Qed.

Lemma parse_value_scalar' f c r :
  is_ignored c = false -> N.eqb c 91 = false -> N.eqb c 123 = false ->
  parse_value (S f) (c :: r) = scalar_token (c :: r).
Proof. intros H1 H2 H3. cbn [parse_value skip_ignored]. rewrite H1, H2, H3. reflexivity. Qed.

Lemma parse_items_step f c r acc :
  is_ignored c = false -> N.eqb c 93 = false ->
  parse_items (S f) (c :: r) acc =
  match parse_value f (c :: r) with
  | Some (v, rest) => parse_items f rest (v :: acc)
  | None => None
  end.
Proof. intros H1 H2. cbn [parse_items skip_ignored]. rewrite H1, H2. reflexivity. Qed.

Lemma parse_items_close f rest acc : parse_items (S f) (93%N :: rest) acc = Some (LList (rev acc), rest).
Proof. reflexivity. Qed.

Lemma parse_items_comma f s acc : parse_items (S f) (comma_sp ++ s) acc = parse_items (S f) s acc.
Proof. reflexivity. Qed.

(* first character of a rendered value *)
Lemma json_head v : jok v ->
  exists c t, json_dumps v = c :: t /\ is_ignored c = false /\ N.eqb c 93 = false /\
              ((N.eqb c 91 = false /\ N.eqb c 123 = false) \/ exists l, v = PList l).
Proof.
  intros [Hd Ha]. destruct v as [|b|z|r|x|l|kvs].
  - eexists; eexists; split; [reflexivity|]. repeat split; try reflexivity. left; split; reflexivity.
  - destruct b; (eexists; eexists; split; [reflexivity|]; repeat split; try reflexivity; left; split; reflexivity).
  - destruct (dec_of_Z_head z) as (c & t & Hz & Hc). destruct (head_facts c Hc) as (H1 & H2 & H3 & H4).
    exists c, t. simpl. auto 10.
  - destruct (float_head r Hd) as (c & t & Hz & Hc). destruct (head_facts c Hc) as (H1 & H2 & H3 & H4).
    exists c, t. simpl. auto 10.
  - eexists; eexists; split; [reflexivity|]. repeat split; try reflexivity. left; split; reflexivity.
  - rewrite json_dumps_list. eexists; eexists; split; [reflexivity|]. repeat split; try reflexivity.
    right. exists l. reflexivity.
  - discriminate.
Qed.

Definition reads_back (v : pv) : Prop :=
  jok v -> forall fuel rest, rest_ok rest = true -> length (json_dumps v) < fuel ->
  parse_value fuel (json_dumps v ++ rest) = Some (plain_lit v, rest).

Lemma items_parse l : Forall reads_back l -> Forall jok l ->
  forall fuel acc rest, length (items_text l) + 1 < fuel ->
  parse_items fuel (items_text l ++ 93%N :: rest) acc = Some (LList (rev acc ++ map plain_lit l), rest).
Proof.
  induction 1 as [|x l Hx Hl IH]; intros Hj fuel acc rest Hf.
  - destruct fuel as [|f]; [simpl in Hf; lia|]. simpl. rewrite List.app_nil_r. reflexivity.
  - inversion Hj as [|? ? Hjx Hjl]; subst. destruct fuel as [|f]; [lia|].
    destruct (json_head x Hjx) as (c & t & Hh & Hi & H93 & _).
    assert (Hlen : 1 <= length (json_dumps x)) by (rewrite Hh; simpl; lia).
    cbn [items_text] in *. rewrite List.app_length in Hf. rewrite <- List.app_assoc.
    set (rest' := (match l with [] => [] | _ :: _ => comma_sp ++ items_text l end) ++ 93%N :: rest).
    assert (Hro : rest_ok rest' = true) by (unfold rest'; destruct l; reflexivity).
    assert (Hpv : parse_value f (json_dumps x ++ rest') = Some (plain_lit x, rest'))
      by (apply Hx; auto; lia).
    assert (Hstep : parse_items (S f) (json_dumps x ++ rest') acc = parse_items f rest' (plain_lit x :: acc)).
    { rewrite Hh in Hpv |- *. cbn [app] in Hpv |- *. rewrite parse_items_step by assumption.
      unfold char, str in *. rewrite Hpv. reflexivity. }
    rewrite Hstep. unfold rest'. destruct l as [|y l'].
    + cbn [app]. destruct f as [|f']; [lia|]. rewrite parse_items_close. simpl. reflexivity.
    + rewrite <- List.app_assoc. destruct f as [|f']; [lia|]. rewrite parse_items_comma.
      rewrite (IH Hjl (S f') (plain_lit x :: acc) rest).
      * simpl. rewrite <- List.app_assoc. reflexivity.
      * unfold comma_sp in Hf. rewrite List.app_length in Hf. simpl in Hf. simpl. lia.
Qed.

Theorem json_value_reads_back v : reads_back v.
Proof.
  induction v as [|b|z|r|x|l IH|kvs IH] using pv_ind'; intros Hj fuel rest Hr Hf.
  - destruct fuel as [|f]; [lia|]. change (json_dumps PNone) with (S_ "null").
    change (S_ "null" ++ rest) with (110%N :: (S_ "ull" ++ rest)).
    rewrite parse_value_scalar' by reflexivity.
    change (110%N :: (S_ "ull" ++ rest)) with (S_ "null" ++ rest).
    apply scalar_token_keyword; auto; repeat split; reflexivity.
  - destruct fuel as [|f]; [lia|]. destruct b.
    + change (json_dumps (PBool true)) with (S_ "true").
      change (S_ "true" ++ rest) with (116%N :: (S_ "rue" ++ rest)).
      rewrite parse_value_scalar' by reflexivity.
      change (116%N :: (S_ "rue" ++ rest)) with (S_ "true" ++ rest).
      apply scalar_token_keyword; auto; repeat split; reflexivity.
    + change (json_dumps (PBool false)) with (S_ "false").
      change (S_ "false" ++ rest) with (102%N :: (S_ "alse" ++ rest)).
      rewrite parse_value_scalar' by reflexivity.
      change (102%N :: (S_ "alse" ++ rest)) with (S_ "false" ++ rest).
      apply scalar_token_keyword; auto; repeat split; reflexivity.
  - destruct fuel as [|f]; [lia|]. change (json_dumps (PInt z)) with (dec_of_Z z).
    destruct (dec_of_Z_head z) as (c & t & Hz & Hc). destruct (head_facts c Hc) as (H1 & H2 & H3 & _).
    pose proof (scalar_token_int z rest Hr) as Hs. rewrite Hz in *. cbn [app] in *.
    rewrite parse_value_scalar' by assumption. exact Hs.
  - destruct fuel as [|f]; [lia|]. destruct Hj as [Hd _]. change (json_dumps (PFloat r)) with r.
    destruct (float_head r Hd) as (c & t & Hz & Hc). destruct (head_facts c Hc) as (H1 & H2 & H3 & _).
    pose proof (scalar_token_float r rest Hd Hr) as Hs. rewrite Hz in *. cbn [app] in *.
    rewrite parse_value_scalar' by assumption. exact Hs.
  - destruct fuel as [|f]; [lia|]. destruct Hj as [_ Ha]. change (json_dumps (PStr x)) with (json_string x).
    pose proof (scalar_token_json_string x rest (no_astral_chars x Ha) Hr) as Hs.
    unfold json_string in *. cbn [app] in *. rewrite parse_value_scalar' by reflexivity. exact Hs.
  - destruct fuel as [|f]; [lia|]. rewrite json_dumps_list in *. rewrite plain_lit_list.
    cbn [app]. cbn [parse_value skip_ignored]. change (is_ignored 91) with false. change (N.eqb 91 91) with true.
    cbv beta iota. rewrite <- List.app_assoc. cbn [app]. change (N.eqb 91 91) with true. cbv beta iota.
    pose proof (items_parse l IH (jok_list l Hj) f [] rest) as Hi.
    simpl in Hf. rewrite List.app_length in Hf. simpl in Hf.
    etransitivity; [apply Hi; lia|reflexivity].
  - destruct Hj as [Hd _]. discriminate.
Qed.

Theorem parse_lit_json v : scalar_denotable v = true -> has_astral v = false ->
  parse_lit (json_dumps v) = Some (plain_lit v).
Proof.
  intros Hd Ha. unfold parse_lit.
  pose proof (json_value_reads_back v (conj Hd Ha) (S (S (length (json_dumps v)))) [] eq_refl) as H.
  rewrite List.app_nil_r in H. rewrite H by lia. reflexivity.
Qed.
