(* C15 -- the Spec's reader [parse_lit] reads back what json.dumps writes:
   null / booleans / integers / finite floats / strings without characters
   above U+FFFF / nested lists of these. *)
From PyGql Require Import Spec.IntrospectSpec.
From Coq Require Import Lia ZifyBool DecimalPos DecimalFacts.

(* nested induction on Python values *)
Section PvInd.
  Variable P : pv -> Prop.
  Hypothesis HNone : P PNone.
  Hypothesis HBool : forall b, P (PBool b).
  Hypothesis HInt : forall z, P (PInt z).
  Hypothesis HFloat : forall r, P (PFloat r).
  Hypothesis HStr : forall x, P (PStr x).
  Hypothesis HList : forall l, Forall P l -> P (PList l).
  Hypothesis HDict : forall kvs, Forall (fun kv => P (snd kv)) kvs -> P (PDict kvs).
  Fixpoint pv_ind' (v : pv) : P v :=
    match v with
    | PNone => HNone | PBool b => HBool b | PInt z => HInt z | PFloat r => HFloat r | PStr x => HStr x
    | PList l => HList l ((fix go (l : list pv) : Forall P l :=
                             match l with [] => Forall_nil _ | x :: l' => Forall_cons x (pv_ind' x) (go l') end) l)
    | PDict kvs => HDict kvs ((fix go (l : list (str * pv)) : Forall (fun kv => P (snd kv)) l :=
                                 match l with
                                 | [] => Forall_nil _
                                 | kv :: l' => Forall_cons kv (pv_ind' (snd kv)) (go l')
                                 end) kvs)
    end.
End PvInd.

(* what may follow a token inside a list, or the end of the text *)
Definition rest_ok (rest : str) : bool :=
  match rest with
  | [] => true
  | c :: _ => negb (is_num_char c) && negb (is_name_char c) && negb (N.eqb c 34)
  end.

Lemma span_app p a rest :
  forallb p a = true -> match rest with [] => True | c :: _ => p c = false end ->
  span p (a ++ rest) = (a, rest).
Proof.
  intros Ha Hr. induction a as [|c a IH]; simpl.
  - destruct rest as [|c r]; [reflexivity|]. simpl. rewrite Hr. reflexivity.
  - simpl in Ha. apply andb_true_iff in Ha as [Hc Ha]. rewrite Hc, (IH Ha). reflexivity.
Qed.

Lemma rest_ok_num rest : rest_ok rest = true -> match rest with [] => True | c :: _ => is_num_char c = false end.
Proof. destruct rest as [|c r]; simpl; auto. intros H. destruct (is_num_char c); [discriminate|reflexivity]. Qed.
Lemma rest_ok_name rest : rest_ok rest = true -> match rest with [] => True | c :: _ => is_name_char c = false end.
Proof.
  destruct rest as [|c r]; simpl; auto. intros H.
  destruct (is_num_char c); [discriminate|]. destruct (is_name_char c); [discriminate|reflexivity].
Qed.
Lemma rest_ok_quote c r : rest_ok (c :: r) = true -> N.eqb c 34 = false.
Proof. simpl. intros H. destruct (N.eqb c 34); [|reflexivity]. rewrite andb_false_r in H. discriminate. Qed.

Lemma digit_facts' c : is_digit c = true ->
  is_num_char c = true /\ is_float_mark c = false /\ is_ignored c = false /\
  N.eqb c 34 = false /\ N.eqb c 45 = false /\ N.eqb c 91 = false /\ N.eqb c 123 = false /\ N.eqb c 93 = false.
Proof. unfold is_num_char, is_float_mark, is_ignored, is_digit. intros H. repeat split; lia. Qed.

Lemma uint_digits_all' u : forallb is_digit (uint_digits u) = true.
Proof. induction u; simpl; auto. Qed.
Lemma digits_uint_digits' u : digits_uint (uint_digits u) = Some u.
Proof. induction u; simpl; rewrite ?IHu; reflexivity. Qed.
Lemma forallb_impl' {A} (p q : A -> bool) l :
  (forall x, p x = true -> q x = true) -> forallb p l = true -> forallb q l = true.
Proof. intros Hpq. induction l; simpl; auto. intros H. apply andb_true_iff in H as [H1 H2]. rewrite Hpq, IHl; auto. Qed.
Lemma existsb_none' {A} (p q : A -> bool) l :
  (forall x, p x = true -> q x = false) -> forallb p l = true -> existsb q l = false.
Proof. intros Hpq. induction l; simpl; auto. intros H. apply andb_true_iff in H as [H1 H2]. rewrite Hpq, IHl; auto. Qed.
Lemma to_uint_norm' p : Decimal.unorm (Pos.to_uint p) = Pos.to_uint p.
Proof. rewrite <- (DecimalPos.Unsigned.to_of (Pos.to_uint p)), DecimalPos.Unsigned.of_to. reflexivity. Qed.
Lemma to_uint_head' p : exists c r, uint_digits (Pos.to_uint p) = c :: r /\ is_digit c = true.
Proof.
  pose proof (uint_digits_all' (Pos.to_uint p)) as Hall.
  destruct (uint_digits (Pos.to_uint p)) as [|c r] eqn:Hd.
  - exfalso. pose proof (DecimalPos.Unsigned.of_to p) as Hof.
    destruct (Pos.to_uint p); simpl in *; discriminate.
  - simpl in Hall. apply andb_true_iff in Hall as [Hc _]. exists c, r. auto.
Qed.

Lemma read_number_pos_r neg p rest : rest_ok rest = true ->
  read_number neg (uint_digits (Pos.to_uint p) ++ rest) = Some (LInt (if neg then Zneg p else Zpos p), rest).
Proof.
  intros Hr. unfold read_number. pose proof (uint_digits_all' (Pos.to_uint p)) as Hall.
  rewrite (span_app is_num_char) by
      first [ solve [apply rest_ok_num; assumption]
            | solve [eapply forallb_impl'; [|exact Hall]; intros x Hx; apply digit_facts'; assumption] ].
  rewrite (existsb_none' is_digit is_float_mark) by (auto; intros x Hx; apply digit_facts'; assumption).
  unfold nat_of_digits. destruct (to_uint_head' p) as (c & r & Hd & Hc). rewrite Hd. rewrite <- Hd.
  rewrite digits_uint_digits', to_uint_norm', str_eqb_refl, DecimalPos.Unsigned.of_to.
  destruct neg; reflexivity.
Qed.

(* the scalar tokens, followed by [rest] *)
Lemma scalar_token_int z rest : rest_ok rest = true ->
  scalar_token (dec_of_Z z ++ rest) = Some (LInt z, rest).
Proof.
  intros Hr. destruct z as [|p|p].
  - change (dec_of_Z 0 ++ rest) with (48%N :: rest). unfold scalar_token.
    change (N.eqb 48 34) with false. change (N.eqb 48 45) with false. change (is_digit 48) with true. cbv beta iota.
    unfold read_number. change (48%N :: rest) with ([48%N] ++ rest).
    rewrite (span_app is_num_char) by first [ reflexivity | solve [apply rest_ok_num; assumption] ]. reflexivity.
  - unfold dec_of_Z. destruct (to_uint_head' p) as (c & r & Hd & Hc).
    pose proof (read_number_pos_r false p rest Hr) as Hn. rewrite Hd in *.
    destruct (digit_facts' c Hc) as (_ & _ & _ & H34 & H45 & _).
    cbn [app] in *. unfold scalar_token. rewrite H34, H45, Hc. unfold char in *. exact Hn.
  - unfold dec_of_Z. destruct (to_uint_head' p) as (c & r & Hd & Hc).
    pose proof (read_number_pos_r true p rest Hr) as Hn. rewrite Hd in *.
    cbn [app] in *. unfold scalar_token.
    change (N.eqb 45 34) with false. change (N.eqb 45 45) with true. cbv beta iota. unfold char in *.
    rewrite Hc. exact Hn.
Qed.

Lemma num_not_quote c : is_num_char c = true -> N.eqb c 34 = false.
Proof. unfold is_num_char, is_digit. intros H. lia. Qed.

Lemma scalar_token_float r rest : float_text_ok r = true -> rest_ok rest = true ->
  scalar_token (r ++ rest) = Some (LFloat r, rest).
Proof.
  unfold float_text_ok. intros H Hr. apply andb_true_iff in H as [H Hhead]. apply andb_true_iff in H as [Hall Hmark].
  destruct r as [|c r']; [discriminate|]. cbn [app]. unfold scalar_token.
  simpl in Hall. apply andb_true_iff in Hall as [Hc Hall'].
  rewrite (num_not_quote c Hc).
  destruct (N.eqb c 45) eqn:H45.
  - apply N.eqb_eq in H45. subst c. destruct (is_digit 45) eqn:Hd45; [discriminate|]. simpl in Hhead.
    destruct r' as [|d r'']; [discriminate|]. cbn [app]. rewrite Hhead.
    unfold read_number. change (d :: r'' ++ rest) with ((d :: r'') ++ rest).
    rewrite (span_app is_num_char) by first [ assumption | solve [apply rest_ok_num; assumption] ].
    simpl in Hmark. rewrite Hmark. reflexivity.
  - rewrite orb_false_r in Hhead. rewrite Hhead.
    unfold read_number. change (c :: r' ++ rest) with ((c :: r') ++ rest).
    rewrite (span_app is_num_char) by
        first [ solve [simpl; rewrite Hc; assumption] | solve [apply rest_ok_num; assumption] ].
    rewrite Hmark. reflexivity.
Qed.

Lemma scalar_token_keyword (k : str) rest l :
  forallb is_name_char k = true -> keyword_or_enum k = l ->
  match k with c :: _ => N.eqb c 34 = false /\ N.eqb c 45 = false /\ is_digit c = false /\ is_letter c = true | [] => False end ->
  rest_ok rest = true -> scalar_token (k ++ rest) = Some (l, rest).
Proof.
  intros Hk Hl Hc Hr. destruct k as [|c k]; [contradiction|]. destruct Hc as (H34 & H45 & Hd & Hlet).
  cbn [app]. unfold scalar_token. rewrite H34, H45, Hd, Hlet.
  change (c :: k ++ rest) with ((c :: k) ++ rest).
  rewrite (span_app is_name_char) by first [ assumption | solve [apply rest_ok_name; assumption] ].
  rewrite Hl. reflexivity.
Qed.

(* strings as json.dumps writes them *)
Lemma hex_digit_val x : (x < 16)%N -> hex_val (hex_digit x) = Some x.
Proof.
  intros Hx. unfold hex_digit, hex_val, is_digit. destruct (N.ltb x 10) eqn:H10.
  - assert (H : N.leb 48 (48 + x) && N.leb (48 + x) 57 = true) by lia. rewrite H. f_equal. lia.
  - assert (H : N.leb 48 (87 + x) && N.leb (87 + x) 57 = false) by lia. rewrite H.
    assert (H2 : N.leb 97 (87 + x) && N.leb (87 + x) 102 = true) by lia. rewrite H2. f_equal. lia.
Qed.

Lemma hex_recompose c : (c < 65536)%N ->
  (N.modulo (N.div c 4096) 16 * 4096 + N.modulo (N.div c 256) 16 * 256 + N.modulo (N.div c 16) 16 * 16
   + N.modulo c 16 = c)%N.
Proof. intros H. zify. Z.to_euclidean_division_equations. lia. Qed.

Lemma read_string_u_escape c tail a b : (c < 65536)%N ->
  read_string tail = Some (a, b) -> read_string (u_escape c ++ tail) = Some (c :: a, b).
Proof.
  intros Hc Ht. unfold u_escape. cbn [app read_string].
  change (N.eqb 92 34) with false. change (N.eqb 92 92) with true.
  change (N.eqb 117 34) with false. change (N.eqb 117 92) with false. change (N.eqb 117 47) with false.
  change (N.eqb 117 98) with false. change (N.eqb 117 102) with false. change (N.eqb 117 110) with false.
  change (N.eqb 117 114) with false. change (N.eqb 117 116) with false. change (N.eqb 117 117) with true.
  cbv beta iota.
  rewrite !hex_digit_val by (apply N.mod_lt; discriminate). rewrite Ht, (hex_recompose c Hc). reflexivity.
Qed.

Lemma read_string_escape_char c tail a b : (c < 65536)%N ->
  read_string tail = Some (a, b) -> read_string (json_escape_char c ++ tail) = Some (c :: a, b).
Proof.
  intros Hc Ht. unfold json_escape_char.
  destruct (N.eqb c 34) eqn:E34; [apply N.eqb_eq in E34; subst; cbn; rewrite Ht; reflexivity|].
  destruct (N.eqb c 92) eqn:E92; [apply N.eqb_eq in E92; subst; cbn; rewrite Ht; reflexivity|].
  destruct (N.eqb c 10) eqn:E10; [apply N.eqb_eq in E10; subst; cbn; rewrite Ht; reflexivity|].
  destruct (N.eqb c 13) eqn:E13; [apply N.eqb_eq in E13; subst; cbn; rewrite Ht; reflexivity|].
  destruct (N.eqb c 9) eqn:E9; [apply N.eqb_eq in E9; subst; cbn; rewrite Ht; reflexivity|].
  destruct (N.eqb c 8) eqn:E8; [apply N.eqb_eq in E8; subst; cbn; rewrite Ht; reflexivity|].
  destruct (N.eqb c 12) eqn:E12; [apply N.eqb_eq in E12; subst; cbn; rewrite Ht; reflexivity|].
  destruct (N.leb 32 c && N.leb c 126) eqn:Epr.
  - cbn [app read_string]. rewrite E34, E92, E10, E13. cbn [orb].
    assert (Hok : negb (N.leb 32 c || N.eqb c 9) = false) by lia. rewrite Hok, Ht. reflexivity.
  - assert (Hlt : N.ltb c 65536 = true) by lia. rewrite Hlt. apply read_string_u_escape; assumption.
Qed.

Lemma read_string_json x rest : forallb (fun c => N.ltb c 65536) x = true ->
  read_string (flat_map json_escape_char x ++ 34%N :: rest) = Some (x, rest).
Proof.
  induction x as [|c x IH]; intros H; [reflexivity|].
  simpl in H. apply andb_true_iff in H as [Hc Hx]. cbn [flat_map]. rewrite <- app_assoc.
  apply read_string_escape_char; [lia|auto].
Qed.

Lemma escape_head c : exists h t, json_escape_char c = h :: t /\ N.eqb h 34 = false.
Proof.
  unfold json_escape_char.
  repeat match goal with |- context [if ?b then _ else _] => destruct b eqn:? end;
    try (eexists; eexists; split; [reflexivity|reflexivity]).
  - exists c, []. split; [reflexivity|]. lia.
  - unfold u_escape. eexists; eexists; split; [reflexivity|reflexivity].
  - unfold u_escape. eexists; eexists; split; [simpl; reflexivity|reflexivity].
Qed.

Lemma scalar_token_json_string x rest :
  forallb (fun c => N.ltb c 65536) x = true -> rest_ok rest = true ->
  scalar_token (json_string x ++ rest) = Some (LStr x, rest).
Proof.
  intros Hx Hr. unfold json_string. cbn [app]. rewrite <- app_assoc. cbn [app].
  pose proof (read_string_json x rest Hx) as Hs. unfold scalar_token.
  change (N.eqb 34 34) with true. cbv beta iota.
  destruct x as [|c x].
  - cbn [flat_map app] in *. destruct rest as [|c3 r]; [rewrite Hs; reflexivity|].
    rewrite (rest_ok_quote _ _ Hr), andb_false_r, Hs. reflexivity.
  - cbn [flat_map] in *. destruct (escape_head c) as (h & t & He & Hh). rewrite He in *.
    rewrite <- !app_assoc in *. cbn [app] in *.
    destruct (t ++ flat_map json_escape_char x ++ 34%N :: rest) as [|c3 r3] eqn:Hr3.
    + rewrite Hs. reflexivity.
    + rewrite Hh. cbn [andb]. rewrite Hs. reflexivity.
Qed.
