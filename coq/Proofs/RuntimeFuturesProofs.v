(* Proofs about the callback-level futures machine (Exec/RuntimeFutures.v). *)
From Coq Require Import List NArith Bool Arith Lia.
Import ListNotations.
From PyGql Require Import Exec.RuntimeFutures.

Lemma upd_same {A} (m : nat -> A) k v : upd m k v k = v.
Proof. unfold upd. rewrite Nat.eqb_refl. reflexivity. Qed.
Lemma upd_other {A} (m : nat -> A) k v j : j <> k -> upd m k v j = m j.
Proof. intros H. unfold upd. destruct (Nat.eqb_spec j k); congruence. Qed.

Lemma NoDup_snoc {A} (l : list A) x : NoDup l -> ~ In x l -> NoDup (l ++ [x]).
Proof.
  induction l as [|y l IH]; intros Hnd Hx; simpl.
  - constructor; [intros []|constructor].
  - inversion Hnd; subst. constructor.
    + intros Hc. apply in_app_or in Hc. destruct Hc as [Hc|[<-|[]]]; [contradiction|].
      apply Hx. left. reflexivity.
    + apply IH; [assumption|]. intros Hc. apply Hx. right. exact Hc.
Qed.

Lemma NoDup_app_l {A} (a b : list A) : NoDup (a ++ b) -> NoDup a.
Proof.
  induction a as [|x a IH]; simpl; intros H; [constructor|].
  inversion H; subst. constructor.
  - intros Hc. apply H2. apply in_or_app. left. exact Hc.
  - apply IH. assumption.
Qed.

Lemma filter_all_true {A} (f : A -> bool) l : (forall x, f x = true) -> filter f l = l.
Proof. intros H. induction l as [|x l IH]; simpl; [reflexivity|]. rewrite H, IH. reflexivity. Qed.
Lemma filter_all_false {A} (f : A -> bool) l : (forall x, f x = false) -> filter f l = [].
Proof. intros H. induction l as [|x l IH]; simpl; [reflexivity|]. rewrite H, IH. reflexivity. Qed.

Lemma NoDup_app_disj {A} (a b : list A) :
  NoDup a -> NoDup b -> (forall x, In x a -> In x b -> False) -> NoDup (a ++ b).
Proof.
  induction a as [|x a IH]; intros Ha Hb Hd; [exact Hb|]. inversion Ha; subst. simpl. constructor.
  - intros Hc. apply in_app_or in Hc. destruct Hc as [Hc|Hc]; [contradiction|].
    apply (Hd x); [left; reflexivity|exact Hc].
  - apply IH; [assumption|assumption|]. intros y Hy Hy'. apply (Hd y); [right; exact Hy|exact Hy'].
Qed.

(* ------------------------------------------------------------------ *)
(* Specification vocabulary                                            *)

(* the value a finished source contributes to the aggregate list *)
Definition slot_value (results : fid -> fres) (v : value) : value :=
  match v with
  | VFut f => match results f with RVal x => x | RExn _ => v end
  | _ => v
  end.

(* first failure in completion order *)
Fixpoint first_fail (results : fid -> fres) (sigma : list fid) : option exn :=
  match sigma with
  | [] => None
  | f :: r => match results f with RExn e => Some e | RVal _ => first_fail results r end
  end.

Lemma first_fail_app results a b :
  first_fail results (a ++ b) =
  match first_fail results a with Some e => Some e | None => first_fail results b end.
Proof.
  induction a as [|f a IH]; simpl; [reflexivity|].
  destruct (results f); [exact IH|reflexivity].
Qed.

Lemma first_fail_none results sigma :
  first_fail results sigma = None <-> (forall f, In f sigma -> exists v, results f = RVal v).
Proof.
  induction sigma as [|f r IH]; simpl.
  - split; [intros _ f []|reflexivity].
  - destruct (results f) eqn:E.
    + rewrite IH. split.
      * intros H g [<-|Hg]; [eauto|auto].
      * intros H g Hg; apply H; auto.
    + split; [discriminate|]. intros H. destruct (H f (or_introl eq_refl)) as [v Hv]. congruence.
Qed.

Lemma length_plain_fids l : length l = count_plain l + length (fids_of l).
Proof.
  unfold count_plain. induction l as [|v l IH]; simpl; [reflexivity|].
  destruct v; simpl; rewrite ?app_length; simpl; lia.
Qed.

Lemma in_fids_of f l : In f (fids_of l) <-> In (VFut f) l.
Proof.
  unfold fids_of. rewrite in_flat_map. split.
  - intros [v [Hv Hf]]. destruct v; simpl in Hf; try contradiction.
    destruct Hf as [<-|[]]. exact Hv.
  - intros H. exists (VFut f). split; [exact H|left; reflexivity].
Qed.

(* ------------------------------------------------------------------ *)
(* Rewriting lemmas for the machine                                    *)
Section Machine.
  Variable apply_fn : fn -> value -> fres.
  Variable apply_handler : fn -> exn -> value.

  Lemma complete_pending fuel h f r cbs :
    futs h f = Pending cbs ->
    complete apply_fn apply_handler fuel h f r =
    exec apply_fn apply_handler fuel (map (fun c => WCall c f) cbs) (set_fut h f (Done r)).
  Proof. intros H. unfold complete. rewrite H. reflexivity. Qed.

  Lemma complete_done fuel h f r r0 :
    futs h f = Done r0 -> complete apply_fn apply_handler fuel h f r = h.
  Proof. intros H. unfold complete. rewrite H. reflexivity. Qed.

  Lemma exec_cons fuel c src rest h :
    exec apply_fn apply_handler (S fuel) (WCall c src :: rest) h =
    let '(h', st') := run_cb apply_fn apply_handler h c src rest in
    exec apply_fn apply_handler fuel st' h'.
  Proof. reflexivity. Qed.

  Lemma exec_nil fuel h : exec apply_fn apply_handler fuel [] h = h.
  Proof. destruct fuel; reflexivity. Qed.

  Lemma run_cb_gather_val h g src stack v gs :
    futs h src = Done (RVal v) -> gathers h g = gs ->
    run_cb apply_fn apply_handler h (CbGather g) src stack =
    let gs' := MkG (S (g_done gs)) (g_target gs) (g_slots gs) (g_outer gs) in
    let h1 := set_gather h g gs' in
    if Nat.eqb (S (g_done gs)) (g_target gs) then
      match collect h1 (g_slots gs) with
      | CollOk vs => settle h1 (g_outer gs) (RVal (VSeq vs)) stack
      | CollRaise e => (swallow h1 e, stack)
      | CollBlock => (set_blocked h1, stack)
      end
    else (h1, stack).
  Proof. intros H1 H2. unfold run_cb. rewrite H1, H2. reflexivity. Qed.

  Lemma run_cb_gather_exn h g src stack e gs :
    futs h src = Done (RExn e) -> gathers h g = gs ->
    run_cb apply_fn apply_handler h (CbGather g) src stack =
    settle (set_gather h g (MkG (S (g_done gs)) (g_target gs) (g_slots gs) (g_outer gs)))
           (g_outer gs) (RExn e) stack.
  Proof. intros H1 H2. unfold run_cb. rewrite H1, H2. reflexivity. Qed.

  Lemma run_cb_cancelwatch h g src stack r :
    futs h src = Done r ->
    run_cb apply_fn apply_handler h (CbCancelWatch g) src stack = (h, stack).
  Proof. intros H. unfold run_cb. rewrite H. reflexivity. Qed.

  Lemma settle_pending h f r stack cbs :
    futs h f = Pending cbs ->
    settle h f r stack = (set_fut h f (Done r), map (fun c => WCall c f) cbs ++ stack).
  Proof. intros H. unfold settle. rewrite H. reflexivity. Qed.

  Lemma settle_done h f r stack r0 :
    futs h f = Done r0 -> settle h f r stack = (swallow h EInvalidState, stack).
  Proof. intros H. unfold settle. rewrite H. reflexivity. Qed.
End Machine.

Lemma futs_swallow h e : futs (swallow h e) = futs h.
Proof. reflexivity. Qed.
Lemma futs_set_fut_same h f s : futs (set_fut h f s) f = s.
Proof. cbn. apply upd_same. Qed.
Lemma futs_set_fut_other h f s x : x <> f -> futs (set_fut h f s) x = futs h x.
Proof. intros H. cbn. apply upd_other. exact H. Qed.

Section Gather.
  Variable apply_fn : fn -> value -> fres.
  Variable apply_handler : fn -> exn -> value.
  Variable results : fid -> fres.        (* the result each source future gets / already has *)
  Variable source : list value.          (* argument of gather_futures *)
  Variable g : nat.
  Variable outer : fid.
  Variable was_done : fid -> bool.       (* sources already finished when gather_futures is called *)

  Let pend := fids_of source.
  Hypothesis outer_fresh : ~ In outer pend.

  (* state of [outer] after the sources in [sigma] completed, in that order *)
  Definition outer_spec (sigma : list fid) : fstate :=
    match first_fail results sigma with
    | Some e => Done (RExn e)
    | None => if Nat.eqb (length sigma) (length pend)
              then Done (RVal (VSeq (map (slot_value results) source)))
              else Pending [CbCancelWatch g]
    end.

  Definition init_state (f : fid) : fstate :=
    if was_done f then Done (results f) else Pending [].

  (* [unv]: sources gather_futures has not yet put its callback on; [sigma]: the
     sources whose on_finish has run, in that order *)
  Record ginv (unv sigma : list fid) (h : heap) : Prop := {
    gi_g : gathers h g = MkG (count_plain source + length sigma) (length source) source outer;
    gi_done : forall f, In f pend -> In f sigma -> futs h f = Done (results f);
    gi_wait : forall f, In f pend -> ~ In f sigma -> ~ In f unv -> futs h f = Pending [CbGather g];
    gi_unv : forall f, In f unv -> In f pend /\ ~ In f sigma /\ futs h f = init_state f;
    gi_outer : futs h outer = outer_spec sigma;
    gi_blocked : blocked h = false;
    gi_fuel : out_of_fuel h = false
  }.

  Lemma collect_done h slots :
    (forall f, In (VFut f) slots -> futs h f = Done (results f)) ->
    (first_fail results (fids_of slots) = None ->
       collect h slots = CollOk (map (slot_value results) slots)) /\
    (first_fail results (fids_of slots) <> None -> exists e, collect h slots = CollRaise e).
  Proof.
    induction slots as [|v slots IH]; intros Hall.
    - split; [reflexivity|simpl; congruence].
    - assert (Hall' : forall f, In (VFut f) slots -> futs h f = Done (results f))
        by (intros f Hf; apply Hall; right; exact Hf).
      destruct (IH Hall') as [IH1 IH2].
      destruct v as [n|f|l].
      + simpl. split; intros H.
        * rewrite (IH1 H). reflexivity.
        * destruct (IH2 H) as [e He]. rewrite He. eauto.
      + simpl. rewrite (Hall f (or_introl eq_refl)).
        destruct (results f) eqn:E; simpl.
        * split; intros H.
          -- rewrite (IH1 H). reflexivity.
          -- destruct (IH2 H) as [e' He]. rewrite He. eauto.
        * split; [discriminate|eauto].
      + simpl. split; intros H.
        * rewrite (IH1 H). reflexivity.
        * destruct (IH2 H) as [e He]. rewrite He. eauto.
  Qed.

  (* build the invariant for a heap that differs from [h1] at most in [outer]
     and in the bookkeeping fields *)
  Lemma ginv_intro unv sg h1 h' :
    gathers h1 g = MkG (count_plain source + length sg) (length source) source outer ->
    (forall x, In x pend -> In x sg -> futs h1 x = Done (results x)) ->
    (forall x, In x pend -> ~ In x sg -> ~ In x unv -> futs h1 x = Pending [CbGather g]) ->
    (forall x, In x unv -> In x pend /\ ~ In x sg /\ futs h1 x = init_state x) ->
    (forall x, x <> outer -> futs h' x = futs h1 x) -> gathers h' g = gathers h1 g ->
    futs h' outer = outer_spec sg -> blocked h' = false -> out_of_fuel h' = false ->
    ginv unv sg h'.
  Proof.
    intros Hg Hd Hw Hu Hsame Hgs Ho Hb Hf.
    assert (Hne : forall x, In x pend -> x <> outer) by (intros x Hx ->; contradiction).
    constructor; try assumption.
    - rewrite Hgs. exact Hg.
    - intros x Hx Hs. rewrite (Hsame x (Hne x Hx)). apply Hd; assumption.
    - intros x Hx Hs Hn. rewrite (Hsame x (Hne x Hx)). apply Hw; assumption.
    - intros x Hx. destruct (Hu x Hx) as (A & B & C). split; [exact A|]. split; [exact B|].
      rewrite (Hsame x (Hne x A)). exact C.
  Qed.

  (* gather_futures.on_finish runs for the finished source f *)
  Lemma ginv_fire unv sigma h0 f fuel :
    futs h0 f = Done (results f) ->
    gathers h0 g = MkG (count_plain source + length sigma) (length source) source outer ->
    (forall x, In x pend -> In x sigma -> futs h0 x = Done (results x)) ->
    (forall x, In x pend -> ~ In x sigma -> ~ In x unv -> x <> f -> futs h0 x = Pending [CbGather g]) ->
    (forall x, In x unv -> In x pend /\ ~ In x sigma /\ x <> f /\ futs h0 x = init_state x) ->
    futs h0 outer = outer_spec sigma -> blocked h0 = false -> out_of_fuel h0 = false ->
    NoDup sigma -> incl sigma pend -> In f pend -> ~ In f sigma -> 3 <= fuel ->
    ginv unv (sigma ++ [f]) (exec apply_fn apply_handler fuel [WCall (CbGather g) f] h0).
  Proof.
    intros Hh0f Hh0g Hd0 Hw0 Hu0 Ho0 Hb0 Hf0 Hnd Hincl Hf Hnf Hfuel.
    destruct fuel as [|[|[|fuel]]]; try lia.
    assert (Hof : outer <> f) by (intros ->; contradiction).
    assert (Hlt : length sigma < length pend).
    { assert (NoDup (f :: sigma)) by (constructor; assumption).
      assert (incl (f :: sigma) pend) by (intros x [<-|Hx]; auto).
      pose proof (NoDup_incl_length H H0). simpl in H1. lia. }
    pose proof (length_plain_fids source) as Hsrc. fold pend in Hsrc.
    rewrite exec_cons.
    set (gs' := MkG (S (count_plain source + length sigma)) (length source) source outer).
    set (h1 := set_gather h0 g gs').
    assert (Hf1 : forall x, futs h1 x = futs h0 x) by reflexivity.
    assert (Hout1 : futs h1 outer = outer_spec sigma) by (rewrite Hf1; exact Ho0).
    assert (Hdone1 : forall x, In x pend -> In x (sigma ++ [f]) -> futs h1 x = Done (results x)).
    { intros x Hx Hin. rewrite Hf1. apply in_app_or in Hin. destruct Hin as [Hin|[<-|[]]]; [|exact Hh0f].
      apply Hd0; assumption. }
    assert (Hwait1 : forall x, In x pend -> ~ In x (sigma ++ [f]) -> ~ In x unv ->
                               futs h1 x = Pending [CbGather g]).
    { intros x Hx Hnin Hnu. rewrite Hf1. apply Hw0; try assumption.
      - intros Hc. apply Hnin. apply in_or_app. left. exact Hc.
      - intros ->. apply Hnin. apply in_or_app. right. left. reflexivity. }
    assert (Hunv1 : forall x, In x unv -> In x pend /\ ~ In x (sigma ++ [f]) /\ futs h1 x = init_state x).
    { intros x Hx. destruct (Hu0 x Hx) as (A & B & C & E). split; [exact A|]. split; [|rewrite Hf1; exact E].
      intros Hc. apply in_app_or in Hc. destruct Hc as [Hc|[Hc|[]]]; [contradiction|congruence]. }
    assert (Hlen : length (sigma ++ [f]) = S (length sigma)) by (rewrite app_length; simpl; lia).
    assert (Hg1 : gathers h1 g = MkG (count_plain source + length (sigma ++ [f])) (length source) source outer).
    { unfold h1. cbn. rewrite upd_same. unfold gs'. rewrite Hlen. f_equal. lia. }
    assert (Hb1 : blocked h1 = false) by (unfold h1; cbn; exact Hb0).
    assert (Ho1 : out_of_fuel h1 = false) by (unfold h1; cbn; exact Hf0).
    destruct (results f) as [v|e] eqn:Er.
    - (* the source succeeded *)
      rewrite (run_cb_gather_val _ _ _ _ _ _ _ _ Hh0f Hh0g).
      cbn [g_done g_target g_slots g_outer]. fold gs'. fold h1.
      assert (Hff : first_fail results (sigma ++ [f]) = first_fail results sigma).
      { rewrite first_fail_app. simpl. rewrite Er. destruct (first_fail results sigma); reflexivity. }
      destruct (Nat.eqb_spec (S (count_plain source + length sigma)) (length source)) as [Heq|Hne].
      + (* last one: every source is done *)
        assert (Hall : length (sigma ++ [f]) = length pend) by lia.
        assert (Hcover : forall x, In x pend -> In x (sigma ++ [f])).
        { apply NoDup_length_incl.
          - apply NoDup_snoc; assumption.
          - lia.
          - intros x Hx. apply in_app_or in Hx. destruct Hx as [Hx|[<-|[]]]; auto. }
        assert (Hslots : forall x, In (VFut x) source -> futs h1 x = Done (results x)).
        { intros x Hx. apply in_fids_of in Hx. apply Hdone1; auto. }
        destruct (collect_done h1 source Hslots) as [Cok Craise].
        fold pend in Cok, Craise.
        destruct (first_fail results sigma) as [e0|] eqn:Eff.
        * (* an earlier failure: the aggregate raises inside the callback; swallowed *)
          assert (Hp : first_fail results pend <> None).
          { intros Hc. rewrite first_fail_none in Hc.
            assert (first_fail results sigma = None).
            { apply first_fail_none. intros x Hx. apply Hc. apply Hincl. exact Hx. }
            congruence. }
          destruct (Craise Hp) as [e1 He1]. rewrite He1. rewrite exec_nil.
          apply (ginv_intro unv (sigma ++ [f]) h1); try assumption; try reflexivity.
          rewrite futs_swallow, Hout1. unfold outer_spec. rewrite Hff, Eff. reflexivity.
        * assert (Hp : first_fail results pend = None).
          { apply first_fail_none. intros x Hx. specialize (Hcover x Hx).
            apply in_app_or in Hcover. destruct Hcover as [Hc|[<-|[]]]; [|eauto].
            apply (proj1 (first_fail_none results sigma) Eff). exact Hc. }
          rewrite (Cok Hp).
          assert (Hop : futs h1 outer = Pending [CbCancelWatch g]).
          { rewrite Hout1. unfold outer_spec. rewrite Eff.
            destruct (Nat.eqb_spec (length sigma) (length pend)); [lia|reflexivity]. }
          rewrite (settle_pending _ _ _ _ _ Hop).
          change (map (fun c : cb => WCall c outer) [CbCancelWatch g] ++ [])
            with [WCall (CbCancelWatch g) outer].
          rewrite exec_cons.
          rewrite (run_cb_cancelwatch _ _ _ _ _ _ _ (futs_set_fut_same _ _ _)).
          rewrite exec_nil.
          apply (ginv_intro unv (sigma ++ [f]) h1); try assumption; try reflexivity.
          -- intros x Hx. apply futs_set_fut_other. exact Hx.
          -- rewrite futs_set_fut_same. unfold outer_spec. rewrite Hff, Hall, Nat.eqb_refl. reflexivity.
      + (* not the last one *)
        rewrite exec_nil.
        apply (ginv_intro unv (sigma ++ [f]) h1); try assumption; try reflexivity.
        rewrite Hout1. unfold outer_spec. rewrite Hff.
        destruct (first_fail results sigma); [reflexivity|].
        destruct (Nat.eqb_spec (length sigma) (length pend)); [lia|].
        destruct (Nat.eqb_spec (length (sigma ++ [f])) (length pend)); [lia|reflexivity].
    - (* the source failed *)
      rewrite (run_cb_gather_exn _ _ _ _ _ _ _ _ Hh0f Hh0g).
      cbn [g_done g_target g_slots g_outer]. fold gs'. fold h1.
      assert (Hff : first_fail results (sigma ++ [f]) =
                    match first_fail results sigma with Some e0 => Some e0 | None => Some e end).
      { rewrite first_fail_app. simpl. rewrite Er. reflexivity. }
      destruct (first_fail results sigma) as [e0|] eqn:Eff.
      + (* already failed: InvalidStateError, swallowed *)
        assert (Hod : futs h1 outer = Done (RExn e0)).
        { rewrite Hout1. unfold outer_spec. rewrite Eff. reflexivity. }
        rewrite (settle_done _ _ _ _ _ Hod). rewrite exec_nil.
        apply (ginv_intro unv (sigma ++ [f]) h1); try assumption; try reflexivity.
        rewrite futs_swallow, Hod. unfold outer_spec. rewrite Hff. reflexivity.
      + assert (Hop : futs h1 outer = Pending [CbCancelWatch g]).
        { rewrite Hout1. unfold outer_spec. rewrite Eff.
          destruct (Nat.eqb_spec (length sigma) (length pend)); [lia|reflexivity]. }
        rewrite (settle_pending _ _ _ _ _ Hop).
        change (map (fun c : cb => WCall c outer) [CbCancelWatch g] ++ [])
          with [WCall (CbCancelWatch g) outer].
        rewrite exec_cons.
        rewrite (run_cb_cancelwatch _ _ _ _ _ _ _ (futs_set_fut_same _ _ _)).
        rewrite exec_nil.
        apply (ginv_intro unv (sigma ++ [f]) h1); try assumption; try reflexivity.
        * intros x Hx. apply futs_set_fut_other. exact Hx.
        * rewrite futs_set_fut_same. unfold outer_spec. rewrite Hff. reflexivity.
  Qed.

  (* a registered, still pending source completes *)
  Lemma ginv_step unv sigma h f fuel :
    ginv unv sigma h -> NoDup sigma -> incl sigma pend -> In f pend -> ~ In f sigma -> ~ In f unv ->
    3 <= fuel ->
    ginv unv (sigma ++ [f]) (complete apply_fn apply_handler fuel h f (results f)).
  Proof.
    intros I Hnd Hincl Hf Hnf Hnu Hfuel.
    rewrite (complete_pending _ _ _ _ _ _ _ (gi_wait _ _ _ I f Hf Hnf Hnu)).
    change (map (fun c : cb => WCall c f) [CbGather g]) with [WCall (CbGather g) f].
    assert (Hof : outer <> f) by (intros ->; contradiction).
    apply ginv_fire; try assumption.
    - apply futs_set_fut_same.
    - cbn. apply (gi_g _ _ _ I).
    - intros x Hx Hs. rewrite futs_set_fut_other by (intros ->; contradiction). apply (gi_done _ _ _ I); assumption.
    - intros x Hx Hs Hn Hne. rewrite futs_set_fut_other by exact Hne. apply (gi_wait _ _ _ I); assumption.
    - intros x Hx. destruct (gi_unv _ _ _ I x Hx) as (A & B & C).
      assert (x <> f) by (intros ->; contradiction).
      split; [exact A|]. split; [exact B|]. split; [exact H|].
      rewrite futs_set_fut_other by exact H. exact C.
    - rewrite futs_set_fut_other by exact Hof. apply (gi_outer _ _ _ I).
    - cbn. apply (gi_blocked _ _ _ I).
    - cbn. apply (gi_fuel _ _ _ I).
  Qed.

  (* every completion sequence of the registered sources *)
  Lemma ginv_run fuel : 3 <= fuel -> forall sigma pre h,
    ginv [] pre h -> NoDup (pre ++ sigma) -> incl (pre ++ sigma) pend ->
    ginv [] (pre ++ sigma)
         (fold_left (fun h f => complete apply_fn apply_handler fuel h f (results f)) sigma h).
  Proof.
    intros Hfuel. induction sigma as [|f sigma IH]; intros pre h I Hnd Hincl.
    - rewrite app_nil_r. exact I.
    - simpl. replace (pre ++ f :: sigma) with ((pre ++ [f]) ++ sigma) in *
        by (rewrite <- app_assoc; reflexivity).
      apply IH; [|assumption|assumption].
      assert (Hnd' : NoDup (pre ++ [f])) by (apply NoDup_app_l in Hnd; exact Hnd).
      apply ginv_step; try assumption.
      + apply NoDup_app_l in Hnd'. exact Hnd'.
      + intros x Hx. apply Hincl. apply in_or_app. left. apply in_or_app. left. exact Hx.
      + apply Hincl. apply in_or_app. left. apply in_or_app. right. left. reflexivity.
      + intros Hc. apply NoDup_remove_2 in Hnd'. rewrite app_nil_r in Hnd'. contradiction.
      + intros [].
  Qed.

  (* `for f in pending: f.add_done_callback(on_finish)`: a pending source gets the
     callback, on a finished one on_finish runs at once *)
  Lemma ginv_add_all fuel : 3 <= fuel -> forall fs sigma h,
    NoDup fs -> ginv fs sigma h -> NoDup sigma -> incl sigma pend ->
    ginv [] (sigma ++ filter was_done fs)
         (add_all apply_fn apply_handler fuel h fs (CbGather g)) /\
    NoDup (sigma ++ filter was_done fs) /\ incl (sigma ++ filter was_done fs) pend.
  Proof.
    intros Hfuel. induction fs as [|f fs IH]; intros sigma h Hndf I Hnd Hincl.
    - simpl. rewrite app_nil_r. auto.
    - inversion Hndf as [|? ? Hnin Hndf']; subst.
      destruct (gi_unv _ _ _ I f (or_introl eq_refl)) as (Hfp & Hfs & Hst).
      assert (Hof : outer <> f) by (intros ->; contradiction).
      cbn [add_all filter]. unfold add_cb. rewrite Hst. unfold init_state.
      destruct (was_done f) eqn:Ew.
      + (* already finished: on_finish runs inside add_done_callback *)
        assert (I' : ginv fs (sigma ++ [f])
                       (exec apply_fn apply_handler fuel [WCall (CbGather g) f] h)).
        { apply ginv_fire; try assumption.
          - rewrite Hst. unfold init_state. rewrite Ew. reflexivity.
          - apply (gi_g _ _ _ I).
          - apply (gi_done _ _ _ I).
          - intros x Hx Hs Hn Hne. apply (gi_wait _ _ _ I); try assumption.
            intros [Hc|Hc]; [congruence|contradiction].
          - intros x Hx. destruct (gi_unv _ _ _ I x (or_intror Hx)) as (A & B & C).
            split; [exact A|]. split; [exact B|]. split; [|exact C]. intros ->. contradiction.
          - apply (gi_outer _ _ _ I).
          - apply (gi_blocked _ _ _ I).
          - apply (gi_fuel _ _ _ I). }
        assert (Hnd' : NoDup (sigma ++ [f])) by (apply NoDup_snoc; assumption).
        assert (Hincl' : incl (sigma ++ [f]) pend).
        { intros x Hx. apply in_app_or in Hx. destruct Hx as [Hx|[<-|[]]]; auto. }
        destruct (IH (sigma ++ [f]) _ Hndf' I' Hnd' Hincl') as (A & B & C).
        rewrite <- app_assoc in A, B, C. simpl in A, B, C. auto.
      + (* pending: the callback is registered *)
        cbn [app]. rewrite exec_nil.
        assert (I' : ginv fs sigma (set_fut h f (Pending [CbGather g]))).
        { apply (ginv_intro fs sigma (set_fut h f (Pending [CbGather g]))); try reflexivity.
          - cbn. apply (gi_g _ _ _ I).
          - intros x Hx Hs. rewrite futs_set_fut_other by (intros ->; contradiction).
            apply (gi_done _ _ _ I); assumption.
          - intros x Hx Hs Hn. destruct (Nat.eq_dec x f) as [->|Hne]; [apply futs_set_fut_same|].
            rewrite futs_set_fut_other by exact Hne. apply (gi_wait _ _ _ I); try assumption.
            intros [Hc|Hc]; [congruence|contradiction].
          - intros x Hx. destruct (gi_unv _ _ _ I x (or_intror Hx)) as (A & B & C).
            split; [exact A|]. split; [exact B|].
            rewrite futs_set_fut_other by (intros ->; contradiction). exact C.
          - rewrite futs_set_fut_other by exact Hof. apply (gi_outer _ _ _ I).
          - cbn. apply (gi_blocked _ _ _ I).
          - cbn. apply (gi_fuel _ _ _ I). }
        apply (IH sigma _ Hndf' I' Hnd Hincl).
  Qed.
End Gather.

(* ------------------------------------------------------------------ *)
(* gather_futures establishes the invariant                            *)
Section GatherInit.
  Variable apply_fn : fn -> value -> fres.
  Variable apply_handler : fn -> exn -> value.

  Lemma gather_unfold fuel h source :
    fids_of source <> [] ->
    gather apply_fn apply_handler fuel h source =
    let '(outer, h1) := new_future h in
    let '(g, h2) := new_gather h1 (MkG (count_plain source) (length source) source outer) in
    let '(h3, _) := add_cb h2 outer (CbCancelWatch g) [] in
    (Ret (VFut outer), add_all apply_fn apply_handler fuel h3 (fids_of source) (CbGather g)).
  Proof.
    intros Hne. unfold gather. destruct source as [|v0 source']; [contradiction|].
    destruct (fids_of (v0 :: source')) eqn:E; [contradiction|reflexivity].
  Qed.

  (* sources may be pending (no other callbacks) or already finished *)
  Lemma gather_registers fuel h source results was_done :
    3 <= fuel ->
    fids_of source <> [] -> NoDup (fids_of source) ->
    (forall f, In f (fids_of source) ->
       futs h f = init_state results was_done f /\ f < next_fid h) ->
    blocked h = false -> out_of_fuel h = false ->
    exists h1, gather apply_fn apply_handler fuel h source = (Ret (VFut (next_fid h)), h1) /\
               ginv results source (next_g h) (next_fid h) was_done []
                    (filter was_done (fids_of source)) h1 /\
               ~ In (next_fid h) (fids_of source).
  Proof.
    intros Hfuel Hne Hnd Hall Hb Ho.
    assert (Hfresh : ~ In (next_fid h) (fids_of source)).
    { intros Hc. destruct (Hall _ Hc) as [_ Hlt]. lia. }
    rewrite (gather_unfold fuel h source Hne).
    cbn [new_future new_gather fst snd next_g next_fid].
    set (outer := next_fid h). set (g := next_g h).
    match goal with |- context [add_cb ?hh outer ?c []] => set (h2 := hh) end.
    assert (Hout2 : futs h2 outer = Pending []) by (unfold h2; cbn; apply upd_same).
    unfold add_cb. rewrite Hout2. cbn [app].
    set (h3 := set_fut h2 outer (Pending [CbCancelWatch g])).
    assert (Hall3 : forall f, In f (fids_of source) -> futs h3 f = init_state results was_done f).
    { intros f Hf. unfold h3. rewrite futs_set_fut_other by (intros ->; contradiction).
      unfold h2. cbn. rewrite upd_other by (intros ->; contradiction). apply Hall. exact Hf. }
    assert (I3 : ginv results source g outer was_done (fids_of source) [] h3).
    { constructor.
      - unfold h3, h2. cbn. rewrite upd_same. simpl. rewrite Nat.add_0_r. reflexivity.
      - intros f _ [].
      - intros f Hf _ Hn. contradiction.
      - intros f Hf. split; [exact Hf|]. split; [intros []|apply Hall3; exact Hf].
      - unfold h3. rewrite futs_set_fut_same. unfold outer_spec. simpl first_fail.
        destruct (Nat.eqb_spec (@length fid []) (length (fids_of source))) as [Hl|_]; [|reflexivity].
        simpl in Hl. destruct (fids_of source); [contradiction|discriminate].
      - unfold h3, h2. cbn. exact Hb.
      - unfold h3, h2. cbn. exact Ho. }
    destruct (ginv_add_all apply_fn apply_handler results source g outer was_done Hfresh fuel Hfuel
                           (fids_of source) [] h3 Hnd I3 (NoDup_nil _) (fun x (H : In x []) => match H with end))
      as (A & _ & _).
    eexists. split; [reflexivity|]. split; [exact A|exact Hfresh].
  Qed.

  (* gather_futures under every completion order of its sources, some of which
     may already be finished when it is called: those count as having completed
     first, in source order *)
  Theorem gather_mixed_orders fuel h source results was_done sigma :
    3 <= fuel ->
    fids_of source <> [] -> NoDup (fids_of source) ->
    (forall f, In f (fids_of source) ->
       futs h f = init_state results was_done f /\ f < next_fid h) ->
    blocked h = false -> out_of_fuel h = false ->
    NoDup sigma -> incl sigma (filter (fun f => negb (was_done f)) (fids_of source)) ->
    exists outer h1,
      gather apply_fn apply_handler fuel h source = (Ret (VFut outer), h1) /\
      let hs := fold_left (fun h f => complete apply_fn apply_handler fuel h f (results f)) sigma h1 in
      futs hs outer = outer_spec results source (next_g h) (filter was_done (fids_of source) ++ sigma) /\
      blocked hs = false /\ out_of_fuel hs = false.
  Proof.
    intros Hfuel Hne Hnd Hall Hb Ho Hnds Hincl.
    destruct (gather_registers fuel h source results was_done Hfuel Hne Hnd Hall Hb Ho) as (h1 & Hg & I & Hfresh).
    exists (next_fid h), h1. split; [exact Hg|].
    assert (Hnd2 : NoDup (filter was_done (fids_of source) ++ sigma)).
    { apply NoDup_app_disj; [apply NoDup_filter; exact Hnd|exact Hnds|].
      intros x Hx Hs. apply filter_In in Hx. destruct Hx as [_ Hx].
      apply Hincl in Hs. apply filter_In in Hs. destruct Hs as [_ Hs]. rewrite Hx in Hs. discriminate. }
    assert (Hincl2 : incl (filter was_done (fids_of source) ++ sigma) (fids_of source)).
    { intros x Hx. apply in_app_or in Hx. destruct Hx as [Hx|Hx].
      - apply filter_In in Hx. apply Hx.
      - apply Hincl in Hx. apply filter_In in Hx. apply Hx. }
    pose proof (ginv_run apply_fn apply_handler results source (next_g h) (next_fid h) was_done
                         Hfresh fuel Hfuel sigma _ h1 I Hnd2 Hincl2) as J.
    simpl in J. split; [apply (gi_outer _ _ _ _ _ _ _ _ J)|].
    split; [apply (gi_blocked _ _ _ _ _ _ _ _ J)|apply (gi_fuel _ _ _ _ _ _ _ _ J)].
  Qed.

  (* the all-pending instance *)
  Theorem gather_all_orders fuel h source results sigma :
    3 <= fuel ->
    fids_of source <> [] -> NoDup (fids_of source) ->
    (forall f, In f (fids_of source) -> futs h f = Pending [] /\ f < next_fid h) ->
    blocked h = false -> out_of_fuel h = false ->
    NoDup sigma -> incl sigma (fids_of source) ->
    exists outer h1,
      gather apply_fn apply_handler fuel h source = (Ret (VFut outer), h1) /\
      let hs := fold_left (fun h f => complete apply_fn apply_handler fuel h f (results f)) sigma h1 in
      futs hs outer = outer_spec results source (next_g h) sigma /\
      blocked hs = false /\ out_of_fuel hs = false.
  Proof.
    intros Hfuel Hne Hnd Hall Hb Ho Hnds Hincl.
    pose proof (gather_mixed_orders fuel h source results (fun _ => false) sigma Hfuel Hne Hnd) as H.
    rewrite (filter_all_false (fun _ : fid => false)) in H by reflexivity.
    rewrite (filter_all_true (fun _ : fid => negb false)) in H by reflexivity.
    apply H; assumption.
  Qed.

  (* sources that are all plain: the list itself, no future involved *)
  Lemma gather_plain fuel h source :
    fids_of source = [] -> gather apply_fn apply_handler fuel h source = (Ret (VSeq source), h).
  Proof. intros H. unfold gather. destruct source; [reflexivity|]. rewrite H. reflexivity. Qed.
End GatherInit.

(* consequences of the characterisation: completed exactly once, never changed *)
Lemma outer_spec_stable results source g sigma more r :
  outer_spec results source g sigma = Done r ->
  NoDup (sigma ++ more) -> incl (sigma ++ more) (fids_of source) ->
  outer_spec results source g (sigma ++ more) = Done r.
Proof.
  unfold outer_spec. intros H Hnd Hincl. rewrite first_fail_app.
  destruct (first_fail results sigma) as [e|] eqn:E; [exact H|].
  destruct (Nat.eqb_spec (length sigma) (length (fids_of source))) as [Hl|Hl]; [|discriminate].
  assert (more = []).
  { pose proof (NoDup_incl_length Hnd Hincl) as Hle. rewrite app_length in Hle.
    destruct more; [reflexivity|simpl in Hle; lia]. }
  subst more. simpl. rewrite app_nil_r. rewrite <- Hl, Nat.eqb_refl. exact H.
Qed.

(* ------------------------------------------------------------------ *)
(* chain                                                               *)
Section Chain.
  Variable apply_fn : fn -> value -> fres.
  Variable apply_handler : fn -> exn -> value.

  (* what map_value promises: then(v); an exception of the handled class
     (raised by the source or by then) goes to the else_ callback; any other
     exception fails the target *)
  Definition chain_result (r : fres) (then_ : fn) (else_ : option fn) : fres :=
    match (match r with RVal v => apply_fn then_ v | RExn e => RExn e end) with
    | RVal res => RVal res
    | RExn e => match else_, e with
                | Some hd, EUser _ true => RVal (apply_handler hd e)
                | _, _ => RExn e
                end
    end.

  Lemma run_cb_chain h target then_ else_ src stack r :
    futs h src = Done r ->
    run_cb apply_fn apply_handler h (CbChain target then_ else_) src stack =
    settle h target (chain_result r then_ else_) stack.
  Proof.
    intros H. unfold run_cb, chain_result. rewrite H.
    destruct (match r with RVal v => apply_fn then_ v | RExn e => RExn e end) as [res|e]; [reflexivity|].
    destruct else_ as [hd|]; [|reflexivity]. destruct e as [n [|]|]; reflexivity.
  Qed.

  Theorem chain_plain fuel h v then_ else_ :
    is_fut v = false ->
    chain apply_fn apply_handler fuel h v then_ else_ =
    (match chain_result (RVal v) then_ else_ with RVal x => Ret x | RExn e => Raise e end, h).
  Proof.
    intros Hv. unfold chain, chain_result.
    destruct v; try discriminate;
      (destruct (apply_fn then_ _) as [res|e]; [reflexivity|];
       destruct else_ as [hd|]; [|reflexivity]; destruct e as [m [|]|]; reflexivity).
  Qed.

  (* source still pending: the target is a fresh pending future; when the source
     completes (whenever that is) the target completes with chain_result, once *)
  Theorem chain_pending fuel h s then_ else_ :
    futs h s = Pending [] -> s < next_fid h ->
    exists h1, chain apply_fn apply_handler fuel h (VFut s) then_ else_ = (Ret (VFut (next_fid h)), h1) /\
      futs h1 (next_fid h) = Pending [] /\
      forall r fuel', 1 <= fuel' ->
        let h2 := complete apply_fn apply_handler fuel' h1 s r in
        futs h2 (next_fid h) = Done (chain_result r then_ else_) /\
        futs h2 s = Done r /\
        swallowed h2 = swallowed h /\ blocked h2 = blocked h /\ out_of_fuel h2 = out_of_fuel h /\
        (forall r' fuel'', complete apply_fn apply_handler fuel'' h2 s r' = h2).
  Proof.
    intros Hs Hlt. unfold chain. cbn [new_future].
    set (target := next_fid h).
    match goal with |- context [add_cb ?hh s ?c []] => set (h0 := hh) end.
    assert (Hs0 : futs h0 s = Pending []).
    { unfold h0. cbn. rewrite upd_other by (unfold target; lia). exact Hs. }
    unfold add_cb. rewrite Hs0. rewrite exec_nil. cbn [app].
    set (h1 := set_fut h0 s (Pending [CbChain target then_ else_])).
    assert (Hne : target <> s) by (unfold target; lia).
    exists h1. split; [reflexivity|]. split.
    { unfold h1. rewrite futs_set_fut_other by exact Hne. unfold h0. cbn. apply upd_same. }
    intros r fuel' Hf. destruct fuel' as [|fuel']; [lia|].
    cbv zeta.
    assert (Hh1s : futs h1 s = Pending [CbChain target then_ else_])
      by (unfold h1; apply futs_set_fut_same).
    rewrite (complete_pending _ _ _ _ _ _ _ Hh1s).
    change (map (fun c : cb => WCall c s) [CbChain target then_ else_])
      with [WCall (CbChain target then_ else_) s].
    rewrite exec_cons.
    rewrite (run_cb_chain _ _ _ _ _ _ _ (futs_set_fut_same _ s _)).
    assert (Ht : futs (set_fut h1 s (Done r)) target = Pending []).
    { rewrite futs_set_fut_other by exact Hne. unfold h1. rewrite futs_set_fut_other by exact Hne.
      unfold h0. cbn. apply upd_same. }
    rewrite (settle_pending _ _ _ _ _ Ht). cbn [map app]. rewrite exec_nil.
    repeat split.
    - apply futs_set_fut_same.
    - rewrite futs_set_fut_other by (intros Hc; apply Hne; symmetry; exact Hc). apply futs_set_fut_same.
    - intros r' fuel''. apply (complete_done _ _ _ _ _ _ r).
      rewrite futs_set_fut_other by (intros Hc; apply Hne; symmetry; exact Hc). apply futs_set_fut_same.
  Qed.

  (* source already finished: the callback runs inside add_done_callback *)
  Theorem chain_done fuel h s r then_ else_ :
    futs h s = Done r -> s < next_fid h -> 1 <= fuel ->
    exists h1, chain apply_fn apply_handler fuel h (VFut s) then_ else_ = (Ret (VFut (next_fid h)), h1) /\
      futs h1 (next_fid h) = Done (chain_result r then_ else_) /\
      swallowed h1 = swallowed h /\ blocked h1 = blocked h /\ out_of_fuel h1 = out_of_fuel h.
  Proof.
    intros Hs Hlt Hf. destruct fuel as [|fuel]; [lia|].
    unfold chain. cbn [new_future].
    set (target := next_fid h).
    match goal with |- context [add_cb ?hh s ?c []] => set (h0 := hh) end.
    assert (Hne : target <> s) by (unfold target; lia).
    assert (Hs0 : futs h0 s = Done r).
    { unfold h0. cbn. rewrite upd_other by (intros Hc; apply Hne; symmetry; exact Hc). exact Hs. }
    unfold add_cb. rewrite Hs0. rewrite exec_cons.
    rewrite (run_cb_chain _ _ _ _ _ _ _ Hs0).
    assert (Ht : futs h0 target = Pending []) by (unfold h0; cbn; apply upd_same).
    rewrite (settle_pending _ _ _ _ _ Ht). cbn [map app]. rewrite exec_nil.
    eexists. split; [reflexivity|]. repeat split. apply futs_set_fut_same.
  Qed.
End Chain.

(* ------------------------------------------------------------------ *)
(* unwrap_future: a finite nest s0 -> s1 -> ... -> sn of futures, each
   resolving to the next, the last one to a plain value or a failure;
   completed in any order                                              *)
Section Unwrap.
  Variable apply_fn : fn -> value -> fres.
  Variable apply_handler : fn -> exn -> value.
  Variable res : fid -> fres.        (* the result each future of the nest gets *)
  Variable outer : fid.

  Fixpoint is_nest (ss : list fid) : Prop :=
    match ss with
    | [] => False
    | s :: r =>
        match r with
        | [] => match res s with RVal (VFut _) => False | _ => True end
        | s' :: _ => res s = RVal (VFut s') /\ is_nest r
        end
    end.
  Definition final (ss : list fid) : fres := res (last ss 0).

  Fixpoint first_pending (h : heap) (ss : list fid) : option fid :=
    match ss with
    | [] => None
    | s :: r => match futs h s with Pending _ => Some s | Done _ => first_pending h r end
    end.

  Lemma run_cb_unwrap_exn h src stack e :
    futs h src = Done (RExn e) ->
    run_cb apply_fn apply_handler h (CbUnwrap outer) src stack = settle h outer (RExn e) stack.
  Proof. intros H. unfold run_cb. rewrite H. reflexivity. Qed.
  Lemma run_cb_unwrap_fut h src stack inner :
    futs h src = Done (RVal (VFut inner)) ->
    run_cb apply_fn apply_handler h (CbUnwrap outer) src stack = add_cb h inner (CbUnwrap outer) stack.
  Proof. intros H. unfold run_cb. rewrite H. reflexivity. Qed.
  Lemma run_cb_unwrap_val h src stack v :
    futs h src = Done (RVal v) -> is_fut v = false ->
    run_cb apply_fn apply_handler h (CbUnwrap outer) src stack = settle h outer (RVal v) stack.
  Proof. intros H Hv. unfold run_cb. rewrite H. destruct v; try discriminate; reflexivity. Qed.

  Definition same_meta (h h' : heap) : Prop :=
    swallowed h' = swallowed h /\ blocked h' = blocked h /\ out_of_fuel h' = out_of_fuel h.

  (* registering the callback on the head of a nest whose members are finished
     or untouched: it travels inwards through the finished ones *)
  Lemma cascade : forall rest h fuel,
    is_nest rest -> NoDup rest -> ~ In outer rest -> futs h outer = Pending [] ->
    (forall s, In s rest -> futs h s = Done (res s) \/ futs h s = Pending []) ->
    length rest < fuel ->
    let '(h', st) := add_cb h (hd 0 rest) (CbUnwrap outer) [] in
    let hf := exec apply_fn apply_handler fuel st h' in
    same_meta h hf /\
    match first_pending h rest with
    | None => futs hf outer = Done (final rest) /\ (forall x, x <> outer -> futs hf x = futs h x)
    | Some sk => futs hf sk = Pending [CbUnwrap outer] /\ (forall x, x <> sk -> futs hf x = futs h x)
    end.
  Proof.
    induction rest as [|s rest IH]; intros h fuel Hn Hnd Hout Hop Hst Hfuel; [contradiction|].
    cbn [hd]. destruct fuel as [|fuel]; [simpl in Hfuel; lia|].
    assert (Hs : futs h s = Done (res s) \/ futs h s = Pending []) by (apply Hst; left; reflexivity).
    assert (Hos : outer <> s) by (intros ->; apply Hout; left; reflexivity).
    unfold add_cb. cbn [first_pending].
    destruct Hs as [Hs|Hs]; rewrite Hs.
    - (* finished: the callback runs now *)
      rewrite exec_cons.
      destruct rest as [|s' rest'].
      + (* innermost *)
        cbn [is_nest] in Hn. unfold final. cbn [last first_pending].
        destruct (res s) as [v|e] eqn:Er.
        * assert (Hv : is_fut v = false) by (destruct v; [reflexivity|contradiction|reflexivity]).
          rewrite (run_cb_unwrap_val _ _ _ _ Hs Hv). rewrite (settle_pending _ _ _ _ _ Hop).
          cbn [map app]. rewrite exec_nil. split; [repeat split|].
          split; [apply futs_set_fut_same|]. intros x Hx. apply futs_set_fut_other. exact Hx.
        * rewrite (run_cb_unwrap_exn _ _ _ _ Hs). rewrite (settle_pending _ _ _ _ _ Hop).
          cbn [map app]. rewrite exec_nil. split; [repeat split|].
          split; [apply futs_set_fut_same|]. intros x Hx. apply futs_set_fut_other. exact Hx.
      + cbn [is_nest] in Hn. destruct Hn as [Er Hn'].
        rewrite Er in Hs. rewrite (run_cb_unwrap_fut _ _ _ _ Hs).
        inversion Hnd as [|? ? Hnin Hnd']; subst.
        assert (Hout' : ~ In outer (s' :: rest')) by (intros Hc; apply Hout; right; exact Hc).
        assert (Hst' : forall x, In x (s' :: rest') -> futs h x = Done (res x) \/ futs h x = Pending [])
          by (intros x Hx; apply Hst; right; exact Hx).
        assert (Hfuel' : length (s' :: rest') < fuel) by (simpl in *; lia).
        specialize (IH h fuel Hn' Hnd' Hout' Hop Hst' Hfuel'). cbn [hd] in IH.
        destruct (add_cb h s' (CbUnwrap outer) []) as [h' st] eqn:Ea.
        unfold final in *. change (last (s :: s' :: rest') 0) with (last (s' :: rest') 0).
        exact IH.
    - (* still pending: the callback waits here *)
      rewrite exec_nil. split; [repeat split|].
      split; [apply futs_set_fut_same|]. intros x Hx. apply futs_set_fut_other. exact Hx.
  Qed.
End Unwrap.

Section UnwrapOrders.
  Variable apply_fn : fn -> value -> fres.
  Variable apply_handler : fn -> exn -> value.
  Variable res : fid -> fres.
  Variable outer : fid.
  Variable ss : list fid.
  Hypothesis ss_nest : is_nest res ss.
  Hypothesis ss_nodup : NoDup ss.
  Hypothesis outer_fresh : ~ In outer ss.

  (* the part of the nest from the first member that has not completed *)
  Fixpoint dropdone (D : list fid) (l : list fid) : list fid :=
    match l with
    | [] => []
    | s :: r => if in_dec Nat.eq_dec s D then dropdone D r else l
    end.

  Record uinv (h0 : heap) (D : list fid) (h : heap) : Prop := {
    ui_done : forall s, In s ss -> In s D -> futs h s = Done (res s);
    ui_front : match dropdone D ss with
               | [] => futs h outer = Done (final res ss)
               | sm :: _ => futs h sm = Pending [CbUnwrap outer] /\ futs h outer = Pending []
               end;
    ui_wait : forall s, In s ss -> ~ In s D -> hd_error (dropdone D ss) <> Some s -> futs h s = Pending [];
    ui_meta : same_meta h0 h
  }.

  Lemma dropdone_split D : forall l sm tl,
    dropdone D l = sm :: tl ->
    exists pre, l = pre ++ sm :: tl /\ (forall s, In s pre -> In s D) /\ ~ In sm D.
  Proof.
    induction l as [|s r IH]; intros sm tl H; simpl in H; [discriminate|].
    destruct (in_dec Nat.eq_dec s D) as [Hin|Hnin].
    - destruct (IH sm tl H) as (pre & -> & Hp & Hn). exists (s :: pre). split; [reflexivity|].
      split; [|exact Hn]. intros x [<-|Hx]; auto.
    - inversion H; subst. exists []. split; [reflexivity|]. split; [intros x []|exact Hnin].
  Qed.

  Lemma dropdone_nil D : forall l, dropdone D l = [] -> forall s, In s l -> In s D.
  Proof.
    induction l as [|s r IH]; intros H x Hx; [contradiction|]. simpl in H.
    destruct (in_dec Nat.eq_dec s D) as [Hin|Hnin]; [|discriminate].
    destruct Hx as [<-|Hx]; auto.
  Qed.

  Lemma dropdone_all_in D : forall l, (forall s, In s l -> In s D) -> dropdone D l = [].
  Proof.
    induction l as [|s r IH]; intros H; [reflexivity|]. simpl.
    destruct (in_dec Nat.eq_dec s D) as [Hin|Hnin].
    - apply IH. intros x Hx. apply H. right. exact Hx.
    - exfalso. apply Hnin. apply H. left. reflexivity.
  Qed.

  Lemma dropdone_ext D D' : forall l,
    (forall s, In s l -> (In s D <-> In s D')) -> dropdone D l = dropdone D' l.
  Proof.
    induction l as [|s r IH]; intros H; [reflexivity|]. simpl.
    assert (Hr : dropdone D r = dropdone D' r) by (apply IH; intros x Hx; apply H; right; exact Hx).
    destruct (in_dec Nat.eq_dec s D) as [Hin|Hnin]; destruct (in_dec Nat.eq_dec s D') as [Hin'|Hnin'].
    - exact Hr.
    - exfalso. apply Hnin'. apply (H s (or_introl eq_refl)). exact Hin.
    - exfalso. apply Hnin. apply (H s (or_introl eq_refl)). exact Hin'.
    - reflexivity.
  Qed.

  Lemma dropdone_app D pre l : (forall s, In s pre -> In s D) -> dropdone D (pre ++ l) = dropdone D l.
  Proof.
    induction pre as [|s pre IH]; intros H; [reflexivity|]. simpl.
    destruct (in_dec Nat.eq_dec s D) as [Hin|Hnin].
    - apply IH. intros x Hx. apply H. right. exact Hx.
    - exfalso. apply Hnin. apply H. left. reflexivity.
  Qed.

  Lemma is_nest_suffix : forall pre l, l <> [] -> is_nest res (pre ++ l) -> is_nest res l.
  Proof.
    induction pre as [|s pre IH]; intros l Hl H; [exact H|].
    apply IH; [exact Hl|]. cbn [app is_nest] in H.
    destruct (pre ++ l) eqn:E.
    - destruct pre; [simpl in E; subst; contradiction|discriminate].
    - destruct H as [_ H]. exact H.
  Qed.

  Lemma last_suffix : forall (pre l : list fid), l <> [] -> last (pre ++ l) 0 = last l 0.
  Proof.
    induction pre as [|s pre IH]; intros l Hl; [reflexivity|].
    cbn [app]. destruct (pre ++ l) as [|n l0] eqn:E.
    - destruct pre; [simpl in E; subst; contradiction|discriminate].
    - change (last (s :: n :: l0) 0) with (last (n :: l0) 0). rewrite <- E. apply IH. exact Hl.
  Qed.

  Lemma first_pending_dropdone D h : forall l,
    (forall s, In s l -> In s D -> futs h s = Done (res s)) ->
    (forall s, In s l -> ~ In s D -> futs h s = Pending []) ->
    first_pending h l = hd_error (dropdone D l).
  Proof.
    induction l as [|s r IH]; intros Hd Hw; [reflexivity|]. simpl.
    destruct (in_dec Nat.eq_dec s D) as [Hin|Hnin].
    - rewrite (Hd s (or_introl eq_refl) Hin). apply IH.
      + intros x Hx. apply Hd. right. exact Hx.
      + intros x Hx. apply Hw. right. exact Hx.
    - rewrite (Hw s (or_introl eq_refl) Hnin). reflexivity.
  Qed.

  Lemma uinv_step h0 D h f fuel :
    uinv h0 D h -> In f ss -> ~ In f D -> length ss + 1 < fuel ->
    uinv h0 (D ++ [f]) (complete apply_fn apply_handler fuel h f (res f)).
  Proof.
    intros I Hf HfD Hfuel.
    assert (Hiff : forall s, s <> f -> (In s D <-> In s (D ++ [f]))).
    { intros s Hs. split; intros H; [apply in_or_app; left; exact H|].
      apply in_app_or in H. destruct H as [H|[H|[]]]; [exact H|congruence]. }
    pose proof (ui_front _ _ _ I) as Hfront.
    destruct (dropdone D ss) as [|sm tl] eqn:Ed.
    { exfalso. apply HfD. apply (dropdone_nil D ss Ed). exact Hf. }
    destruct Hfront as [Hsm Hop].
    destruct (dropdone_split D ss sm tl Ed) as (pre & Ess & Hpre & HsmD).
    assert (Hnd2 : NoDup (sm :: tl)).
    { rewrite Ess in ss_nodup. clear - ss_nodup. induction pre; [exact ss_nodup|].
      inversion ss_nodup; subst. apply IHpre. assumption. }
    assert (Hsm_tl : ~ In sm tl) by (inversion Hnd2; assumption).
    assert (Hpre_sm : ~ In sm pre) by (intros Hc; apply HsmD; apply Hpre; exact Hc).
    destruct (Nat.eq_dec f sm) as [->|Hne].
    - (* the future the callback is waiting on *)
      destruct fuel as [|fuel]; [lia|].
      rewrite (complete_pending _ _ _ _ _ _ _ Hsm).
      change (map (fun c : cb => WCall c sm) [CbUnwrap outer]) with [WCall (CbUnwrap outer) sm].
      rewrite exec_cons.
      set (h1 := set_fut h sm (Done (res sm))).
      assert (Hh1sm : futs h1 sm = Done (res sm)) by (unfold h1; apply futs_set_fut_same).
      assert (Hos : outer <> sm).
      { intros ->. apply outer_fresh. rewrite Ess. apply in_or_app. right. left. reflexivity. }
      assert (Hop1 : futs h1 outer = Pending []).
      { unfold h1. rewrite futs_set_fut_other by exact Hos. exact Hop. }
      assert (Hnest2 : is_nest res (sm :: tl)).
      { apply (is_nest_suffix pre); [discriminate|]. rewrite <- Ess. exact ss_nest. }
      assert (Hfin : final res ss = final res (sm :: tl)).
      { unfold final. rewrite Ess. rewrite last_suffix by discriminate. reflexivity. }
      assert (Hdd : dropdone (D ++ [sm]) ss = dropdone D tl).
      { rewrite Ess. rewrite dropdone_app.
        - simpl. destruct (in_dec Nat.eq_dec sm (D ++ [sm])) as [_|Hc].
          + symmetry. apply dropdone_ext. intros s Hs. apply Hiff. intros ->. contradiction.
          + exfalso. apply Hc. apply in_or_app. right. left. reflexivity.
        - intros s Hs. apply in_or_app. left. apply Hpre. exact Hs. }
      assert (Htl_ss : forall s, In s tl -> In s ss).
      { intros s Hs. rewrite Ess. apply in_or_app. right. right. exact Hs. }
      assert (Htl_done : forall s, In s tl -> In s D -> futs h1 s = Done (res s)).
      { intros s Hs HsD. unfold h1. rewrite futs_set_fut_other by (intros ->; contradiction).
        apply (ui_done _ _ _ I); auto. }
      assert (Htl_wait : forall s, In s tl -> ~ In s D -> futs h1 s = Pending []).
      { intros s Hs HsD. unfold h1. rewrite futs_set_fut_other by (intros ->; contradiction).
        apply (ui_wait _ _ _ I); auto. rewrite Ed. simpl. intros Hc. inversion Hc; subst. contradiction. }
      destruct tl as [|s' tl'].
      + (* innermost member *)
        cbn [is_nest] in Hnest2. unfold final in Hfin. cbn [last] in Hfin.
        assert (Hset : exists r, res sm = r /\
                  run_cb apply_fn apply_handler h1 (CbUnwrap outer) sm [] = settle h1 outer r []).
        { destruct (res sm) as [v|e] eqn:Er.
          - exists (RVal v). split; [reflexivity|]. apply run_cb_unwrap_val; [exact Hh1sm|].
            destruct v; [reflexivity|contradiction|reflexivity].
          - exists (RExn e). split; [reflexivity|]. apply run_cb_unwrap_exn. exact Hh1sm. }
        destruct Hset as (r & Er & ->). rewrite (settle_pending _ _ _ _ _ Hop1).
        cbn [map app]. rewrite exec_nil.
        constructor.
        * intros s Hs HsD. rewrite futs_set_fut_other by (intros ->; contradiction).
          destruct (Nat.eq_dec s sm) as [->|Hn]; [exact Hh1sm|].
          unfold h1. rewrite futs_set_fut_other by exact Hn. apply (ui_done _ _ _ I); [exact Hs|].
          apply (Hiff s Hn). exact HsD.
        * rewrite Hdd. cbn [dropdone]. rewrite futs_set_fut_same. unfold final. rewrite Hfin, Er. reflexivity.
        * intros s Hs HsD _. exfalso. apply HsD. rewrite Ess in Hs.
          apply in_app_or in Hs. destruct Hs as [Hs|[<-|[]]].
          -- apply in_or_app. left. apply Hpre. exact Hs.
          -- apply in_or_app. right. left. reflexivity.
        * destruct (ui_meta _ _ _ I) as (A & B & C). repeat split; assumption.
      + change (res sm = RVal (VFut s') /\ is_nest res (s' :: tl')) in Hnest2.
        destruct Hnest2 as [Er Hnest3].
        assert (Hh1sm' : futs h1 sm = Done (RVal (VFut s'))) by (rewrite <- Er; exact Hh1sm).
        rewrite (run_cb_unwrap_fut _ _ _ _ _ _ _ Hh1sm').
        assert (Hnd3 : NoDup (s' :: tl')) by (inversion Hnd2; assumption).
        assert (Hout3 : ~ In outer (s' :: tl')).
        { intros Hc. apply outer_fresh. apply Htl_ss. exact Hc. }
        assert (Hst3 : forall s, In s (s' :: tl') -> futs h1 s = Done (res s) \/ futs h1 s = Pending []).
        { intros s Hs. destruct (in_dec Nat.eq_dec s D); [left; apply Htl_done|right; apply Htl_wait]; assumption. }
        assert (Hfuel3 : length (s' :: tl') < fuel).
        { rewrite Ess in Hfuel. rewrite app_length in Hfuel. simpl in *. lia. }
        pose proof (cascade apply_fn apply_handler res outer (s' :: tl') h1 fuel
                            Hnest3 Hnd3 Hout3 Hop1 Hst3 Hfuel3) as Hc.
        cbn [hd] in Hc.
        destruct (add_cb h1 s' (CbUnwrap outer) []) as [h' st] eqn:Ea.
        destruct Hc as [Hmeta Hc].
        rewrite (first_pending_dropdone D h1 (s' :: tl') Htl_done Htl_wait) in Hc.
        assert (Hfin3 : final res ss = final res (s' :: tl')).
        { rewrite Hfin. unfold final. reflexivity. }
        constructor.
        * intros s Hs HsD.
          assert (Hs1 : futs h1 s = Done (res s)).
          { destruct (Nat.eq_dec s sm) as [->|Hn]; [exact Hh1sm|].
            unfold h1. rewrite futs_set_fut_other by exact Hn. apply (ui_done _ _ _ I); [exact Hs|].
            apply (Hiff s Hn). exact HsD. }
          destruct (dropdone D (s' :: tl')) as [|sk tk] eqn:Ek; cbn [hd_error] in Hc.
          -- destruct Hc as [_ Hc]. rewrite Hc; [exact Hs1|]. intros ->. contradiction.
          -- destruct Hc as [Hk Hc]. rewrite Hc; [exact Hs1|]. intros Heq. subst s.
             (* sk is pending in h1, so it cannot be in D ++ [sm] *)
             destruct (dropdone_split D (s' :: tl') sk tk Ek) as (p2 & E2 & _ & HskD).
             assert (sk <> sm).
             { intros ->. apply Hsm_tl. rewrite E2. apply in_or_app. right. left. reflexivity. }
             exfalso. apply HskD. apply (Hiff sk H). exact HsD.
        * rewrite Hdd.
          destruct (dropdone D (s' :: tl')) as [|sk tk] eqn:Ek; cbn [hd_error] in Hc.
          -- destruct Hc as [Hc _]. rewrite Hc, Hfin3. reflexivity.
          -- destruct Hc as [Hk Hc]. split; [exact Hk|].
             rewrite Hc; [exact Hop1|]. intros ->.
             destruct (dropdone_split D (s' :: tl') sk tk Ek) as (p2 & E2 & _ & _).
             apply Hout3. rewrite E2. apply in_or_app. right. left. reflexivity.
        * intros s Hs HsD Hhd. rewrite Hdd in Hhd.
          assert (Hsne : s <> sm).
          { intros ->. apply HsD. apply in_or_app. right. left. reflexivity. }
          assert (HsD' : ~ In s D) by (intros Hc'; apply HsD; apply (Hiff s Hsne); exact Hc').
          assert (Hstl : In s (s' :: tl')).
          { rewrite Ess in Hs. apply in_app_or in Hs. destruct Hs as [Hs|[Hs|Hs]].
            - exfalso. apply HsD'. apply Hpre. exact Hs.
            - congruence.
            - exact Hs. }
          assert (Hs1 : futs h1 s = Pending []) by (apply Htl_wait; assumption).
          destruct (dropdone D (s' :: tl')) as [|sk tk] eqn:Ek; cbn [hd_error] in Hc, Hhd.
          -- exfalso. apply HsD'. apply (dropdone_nil D _ Ek). exact Hstl.
          -- destruct Hc as [_ Hc]. rewrite Hc; [exact Hs1|]. intros ->. apply Hhd. reflexivity.
        * destruct (ui_meta _ _ _ I) as (A & B & C). destruct Hmeta as (A' & B' & C').
          unfold h1 in A', B', C'. cbn in A', B', C'.
          repeat split; congruence.
    - (* some other member: nobody is waiting on it yet *)
      assert (Hfw : futs h f = Pending []).
      { apply (ui_wait _ _ _ I); [exact Hf|exact HfD|]. rewrite Ed. simpl. intros Hc. inversion Hc. congruence. }
      rewrite (complete_pending _ _ _ _ _ _ _ Hfw). cbn [map]. rewrite exec_nil.
      assert (Hdd : dropdone (D ++ [f]) ss = sm :: tl).
      { rewrite <- Ed. symmetry. rewrite Ess. rewrite !dropdone_app.
        - simpl. destruct (in_dec Nat.eq_dec sm D) as [Hc|_]; [contradiction|].
          destruct (in_dec Nat.eq_dec sm (D ++ [f])) as [Hc|_]; [|reflexivity].
          apply in_app_or in Hc. destruct Hc as [Hc|[Hc|[]]]; [contradiction|congruence].
        - intros s Hs. apply in_or_app. left. apply Hpre. exact Hs.
        - exact Hpre. }
      constructor.
      + intros s Hs HsD. destruct (Nat.eq_dec s f) as [->|Hn]; [apply futs_set_fut_same|].
        rewrite futs_set_fut_other by exact Hn. apply (ui_done _ _ _ I); [exact Hs|].
        apply (Hiff s Hn). exact HsD.
      + rewrite Hdd. split.
        * rewrite futs_set_fut_other by (intros Hc; apply Hne; symmetry; exact Hc). exact Hsm.
        * rewrite futs_set_fut_other; [exact Hop|]. intros ->. contradiction.
      + intros s Hs HsD Hhd. rewrite Hdd in Hhd.
        assert (Hn : s <> f) by (intros ->; apply HsD; apply in_or_app; right; left; reflexivity).
        rewrite futs_set_fut_other by exact Hn. apply (ui_wait _ _ _ I); [exact Hs| |rewrite Ed; exact Hhd].
        intros Hc. apply HsD. apply (Hiff s Hn). exact Hc.
      + destruct (ui_meta _ _ _ I) as (A & B & C). repeat split; assumption.
  Qed.

  Lemma uinv_run h0 fuel : length ss + 1 < fuel -> forall sigma D h,
    uinv h0 D h -> NoDup (D ++ sigma) -> incl sigma ss ->
    uinv h0 (D ++ sigma)
         (fold_left (fun h f => complete apply_fn apply_handler fuel h f (res f)) sigma h).
  Proof.
    intros Hfuel. induction sigma as [|f sigma IH]; intros D h I Hnd Hincl.
    - rewrite app_nil_r. exact I.
    - simpl. replace (D ++ f :: sigma) with ((D ++ [f]) ++ sigma) in *
        by (rewrite <- app_assoc; reflexivity).
      apply IH; [|assumption|intros x Hx; apply Hincl; right; exact Hx].
      apply uinv_step; [exact I|apply Hincl; left; reflexivity| |exact Hfuel].
      apply NoDup_app_l in Hnd. apply NoDup_remove_2 in Hnd. rewrite app_nil_r in Hnd. exact Hnd.
  Qed.
End UnwrapOrders.

Section UnwrapTheorem.
  Variable apply_fn : fn -> value -> fres.
  Variable apply_handler : fn -> exn -> value.

  Theorem unwrap_plain fuel h v : is_fut v = false -> unwrap apply_fn apply_handler fuel h v = (v, h).
  Proof. intros H. destruct v; try discriminate; reflexivity. Qed.

  (* unwrap_future over a finite nest, every completion order: the outer future
     is pending until every member has completed, then holds the innermost
     value / the failure that ends the nest; nothing is swallowed, nothing blocks,
     the callback recursion terminates (fuel length+2 suffices) *)
  Theorem unwrap_all_orders fuel h res ss sigma :
    is_nest res ss -> NoDup ss ->
    (forall s, In s ss -> futs h s = Pending [] /\ s < next_fid h) ->
    length ss + 1 < fuel -> NoDup sigma -> incl sigma ss ->
    exists h1,
      unwrap apply_fn apply_handler fuel h (VFut (hd 0 ss)) = (VFut (next_fid h), h1) /\
      let hs := fold_left (fun h f => complete apply_fn apply_handler fuel h f (res f)) sigma h1 in
      ((forall s, In s ss -> In s sigma) -> futs hs (next_fid h) = Done (final res ss)) /\
      ((exists s, In s ss /\ ~ In s sigma) -> futs hs (next_fid h) = Pending []) /\
      same_meta h hs.
  Proof.
    intros Hnest Hnd Hall Hfuel Hnds Hincl.
    destruct ss as [|s0 tl] eqn:Ess; [contradiction|]. rewrite <- Ess in *.
    assert (Hs0 : In s0 ss) by (rewrite Ess; left; reflexivity).
    assert (Hfresh : ~ In (next_fid h) ss).
    { intros Hc. destruct (Hall _ Hc) as [_ Hlt]. lia. }
    replace (hd 0 ss) with s0 by (rewrite Ess; reflexivity).
    unfold unwrap. cbn [new_future].
    set (outer := next_fid h) in *.
    match goal with |- context [add_cb ?hh s0 ?c []] => set (h0 := hh) end.
    assert (Hne : outer <> s0) by (intros Hc; apply Hfresh; rewrite Hc; exact Hs0).
    assert (Hh0 : forall x, x <> outer -> futs h0 x = futs h x).
    { intros x Hx. unfold h0. cbn. apply upd_other. exact Hx. }
    unfold add_cb. rewrite (Hh0 s0) by (intros Hc; apply Hne; symmetry; exact Hc).
    rewrite (proj1 (Hall s0 Hs0)). cbn [app]. rewrite exec_nil.
    set (h1 := set_fut h0 s0 (Pending [CbUnwrap outer])).
    exists h1. split; [reflexivity|].
    assert (I : uinv res outer ss h [] h1).
    { constructor.
      - intros s _ [].
      - rewrite Ess. cbn [dropdone]. destruct (in_dec Nat.eq_dec s0 []) as [[]|_].
        split; [unfold h1; apply futs_set_fut_same|].
        unfold h1. rewrite futs_set_fut_other by exact Hne. unfold h0. cbn. apply upd_same.
      - intros s Hs _ Hhd. rewrite Ess in Hhd. cbn [dropdone] in Hhd.
        destruct (in_dec Nat.eq_dec s0 []) as [[]|_]. cbn [hd_error] in Hhd.
        unfold h1. rewrite futs_set_fut_other by (intros ->; apply Hhd; reflexivity).
        rewrite Hh0 by (intros ->; contradiction). apply (proj1 (Hall s Hs)).
      - repeat split. }
    pose proof (uinv_run apply_fn apply_handler res outer ss Hnest Hnd Hfresh h fuel Hfuel
                         sigma [] h1 I Hnds Hincl) as J.
    cbn [app] in J. cbv zeta.
    pose proof (ui_front _ _ _ _ _ _ J) as Hfront.
    split; [|split; [|apply (ui_meta _ _ _ _ _ _ J)]].
    - intros Hall_in. rewrite (dropdone_all_in sigma ss Hall_in) in Hfront. exact Hfront.
    - intros (s & Hs & Hnin). destruct (dropdone sigma ss) as [|sm tl'] eqn:Ed.
      + exfalso. apply Hnin. apply (dropdone_nil sigma ss Ed). exact Hs.
      + apply (proj2 Hfront).
  Qed.
End UnwrapTheorem.

Section UnwrapMixed.
  Variable apply_fn : fn -> value -> fres.
  Variable apply_handler : fn -> exn -> value.

  (* unwrap_future over a nest some of whose members are already finished when it
     is called (they count as completed), the others completed in any order *)
  Theorem unwrap_mixed_orders fuel h res (was_done : fid -> bool) ss sigma :
    is_nest res ss -> NoDup ss ->
    (forall s, In s ss -> futs h s = (if was_done s then Done (res s) else Pending []) /\ s < next_fid h) ->
    length ss + 1 < fuel -> NoDup sigma -> incl sigma (filter (fun s => negb (was_done s)) ss) ->
    exists h1,
      unwrap apply_fn apply_handler fuel h (VFut (hd 0 ss)) = (VFut (next_fid h), h1) /\
      let hs := fold_left (fun h f => complete apply_fn apply_handler fuel h f (res f)) sigma h1 in
      ((forall s, In s ss -> was_done s = true \/ In s sigma) -> futs hs (next_fid h) = Done (final res ss)) /\
      ((exists s, In s ss /\ was_done s = false /\ ~ In s sigma) -> futs hs (next_fid h) = Pending []) /\
      same_meta h hs.
  Proof.
    intros Hnest Hnd Hall Hfuel Hnds Hincl.
    set (D := filter was_done ss).
    assert (Hfresh : ~ In (next_fid h) ss).
    { intros Hc. destruct (Hall _ Hc) as [_ Hlt]. lia. }
    unfold unwrap. cbn [new_future].
    set (outer := next_fid h) in *.
    match goal with |- context [add_cb ?hh (hd 0 ss) ?c []] => set (h0 := hh) end.
    assert (Hh0 : forall x, x <> outer -> futs h0 x = futs h x).
    { intros x Hx. unfold h0. cbn. apply upd_other. exact Hx. }
    assert (Hop : futs h0 outer = Pending []) by (unfold h0; cbn; apply upd_same).
    assert (Hst : forall s, In s ss -> futs h0 s = Done (res s) \/ futs h0 s = Pending []).
    { intros s Hs. rewrite Hh0 by (intros ->; contradiction). destruct (Hall s Hs) as [E _].
      rewrite E. destruct (was_done s); auto. }
    assert (Hlen : length ss < fuel) by lia.
    pose proof (cascade apply_fn apply_handler res outer ss h0 fuel Hnest Hnd Hfresh Hop Hst Hlen) as Hc.
    destruct (add_cb h0 (hd 0 ss) (CbUnwrap outer) []) as [h' st] eqn:Ea.
    destruct Hc as [Hmeta Hc].
    set (h1 := exec apply_fn apply_handler fuel st h') in *.
    exists h1. split; [reflexivity|].
    assert (Hd0 : forall s, In s ss -> In s D -> futs h0 s = Done (res s)).
    { intros s Hs HsD. apply filter_In in HsD. rewrite Hh0 by (intros ->; contradiction).
      destruct (Hall s Hs) as [E _]. rewrite E, (proj2 HsD). reflexivity. }
    assert (Hw0 : forall s, In s ss -> ~ In s D -> futs h0 s = Pending []).
    { intros s Hs HsD. rewrite Hh0 by (intros ->; contradiction). destruct (Hall s Hs) as [E _]. rewrite E.
      destruct (was_done s) eqn:Ew; [|reflexivity]. exfalso. apply HsD. apply filter_In. auto. }
    rewrite (first_pending_dropdone res D h0 ss Hd0 Hw0) in Hc.
    assert (I : uinv res outer ss h D h1).
    { constructor.
      - intros s Hs HsD. destruct (dropdone D ss) as [|sk tk] eqn:Ek; cbn [hd_error] in Hc.
        + destruct Hc as [_ Hc]. rewrite Hc by (intros ->; contradiction). apply Hd0; assumption.
        + destruct Hc as [_ Hc]. rewrite Hc; [apply Hd0; assumption|]. intros ->.
          destruct (dropdone_split D ss sk tk Ek) as (pre0 & _ & _ & Hn). contradiction.
      - destruct (dropdone D ss) as [|sk tk] eqn:Ek; cbn [hd_error] in Hc.
        + apply Hc.
        + destruct Hc as [Hk Hc]. split; [exact Hk|]. rewrite Hc; [exact Hop|]. intros ->.
          destruct (dropdone_split D ss sk tk Ek) as (p2 & E2 & _ & _).
          apply Hfresh. rewrite E2. apply in_or_app. right. left. reflexivity.
      - intros s Hs HsD Hhd. destruct (dropdone D ss) as [|sk tk] eqn:Ek; cbn [hd_error] in Hc, Hhd.
        + exfalso. apply HsD. apply (dropdone_nil D ss Ek). exact Hs.
        + destruct Hc as [_ Hc]. rewrite Hc; [apply Hw0; assumption|]. intros ->. apply Hhd. reflexivity.
      - destruct Hmeta as (A & B & C). unfold h0 in A, B, C. cbn in A, B, C. repeat split; assumption. }
    assert (HndD : NoDup (D ++ sigma)).
    { apply NoDup_app_disj; [apply NoDup_filter; exact Hnd|exact Hnds|].
      intros x Hx Hs. apply filter_In in Hx. destruct Hx as [_ Hx].
      apply Hincl in Hs. apply filter_In in Hs. destruct Hs as [_ Hs]. rewrite Hx in Hs. discriminate. }
    assert (Hincl' : incl sigma ss).
    { intros x Hx. apply Hincl in Hx. apply filter_In in Hx. apply Hx. }
    pose proof (uinv_run apply_fn apply_handler res outer ss Hnest Hnd Hfresh h fuel Hfuel
                         sigma D h1 I HndD Hincl') as J.
    cbv zeta. pose proof (ui_front _ _ _ _ _ _ J) as Hfront.
    split; [|split; [|apply (ui_meta _ _ _ _ _ _ J)]].
    - intros Hall_in.
      rewrite (dropdone_all_in (D ++ sigma) ss) in Hfront; [exact Hfront|].
      intros s Hs. apply in_or_app. destruct (Hall_in s Hs) as [Hw|Hsg]; [left; apply filter_In; auto|right; exact Hsg].
    - intros (s & Hs & Hw & Hnin). destruct (dropdone (D ++ sigma) ss) as [|sm tl'] eqn:Ed.
      + exfalso. pose proof (dropdone_nil (D ++ sigma) ss Ed s Hs) as Hc'. apply in_app_or in Hc'.
        destruct Hc' as [Hc'|Hc']; [|contradiction]. apply filter_In in Hc'. destruct Hc' as [_ Hc'].
        rewrite Hw in Hc'. discriminate.
      + apply (proj2 Hfront).
  Qed.
End UnwrapMixed.
