(* C14 -- proofs about the store model, part 19: relocation.  The model's
   operations do not depend on where fresh objects are allocated: running an
   operation in a heap M2 that is the image of a heap M1 under the relocation
   sg (identity below the watermark n0, shift by dl above; M2 may hold
   anything in the gap) gives the image of the result.  Hence the observable
   result of clone / transform_schema / visitors on a source does not depend
   on what was allocated before: C14_repeatable. *)
From PyGql Require Import Spec.StoreSpec Proofs.StoreProofs Proofs.StoreHeal Proofs.StoreLoop.
Local Open Scope N_scope.

Section Reloc.
Variables n0 dl : N.
Hypothesis Hn0 : 5 < n0.

Definition sg (o : oid) : oid := if N.ltb o n0 then o else o + dl.

Lemma sg_inj a b : sg a = sg b -> a = b.
Proof. unfold sg. destruct (N.ltb_spec a n0), (N.ltb_spec b n0); lia. Qed.
Lemma sg_eqb a b : N.eqb (sg a) (sg b) = N.eqb a b.
Proof.
  destruct (N.eqb_spec a b) as [->|Hne]; [apply N.eqb_refl|].
  destruct (N.eqb_spec (sg a) (sg b)) as [E|]; [exfalso; apply Hne; apply sg_inj; exact E|reflexivity].
Qed.
Lemma sg_builtin o : is_builtin (sg o) = is_builtin o.
Proof.
  unfold sg, is_builtin. destruct (N.ltb_spec o n0); [reflexivity|].
  destruct (N.leb_spec 1 o), (N.leb_spec o 5), (N.leb_spec 1 (o + dl)), (N.leb_spec (o + dl) 5); simpl; try reflexivity; lia.
Qed.
Lemma sg_above a : n0 <= a -> sg a = a + dl.
Proof. intros H. unfold sg. destruct (N.ltb_spec a n0); [lia|reflexivity]. Qed.

Fixpoint rmap (r : tref) : tref :=
  match r with RNamed o => RNamed (sg o) | RList r' => RList (rmap r') | RNonNull r' => RNonNull (rmap r') end.
Definition omap (o : option oid) : option oid := option_map sg o.
Definition objmap (v : obj) : obj :=
  match v with
  | OType n k d ms ifs r ds => OType n k d (map sg ms) (map sg ifs) r ds
  | OField n py ty args d dp r s ds => OField n py (rmap ty) (map sg args) d dp r s ds
  | OInput a n py ty df d ds => OInput a n py (rmap ty) df d ds
  | OEnumV n v d dp ds => OEnumV n v d dp ds
  | ODir n d locs args => ODir n d locs (map sg args)
  end.
Definition regmap (tm : list (str * oid)) : list (str * oid) := map (fun e => (fst e, sg (snd e))) tm.
Definition upmap (u : updates) : updates := map (fun e => (fst e, omap (snd e))) u.
Definition impmap (l : list (str * list oid)) : list (str * list oid) := map (fun e => (fst e, map sg (snd e))) l.
Definition possmap (l : list (oid * list oid)) : list (oid * list oid) := map (fun e => (sg (fst e), map sg (snd e))) l.
Definition smap (s : schema) : schema :=
  MkSchema (regmap (s_types s)) (regmap (s_dirs s)) (omap (s_query s)) (omap (s_mut s)) (omap (s_sub s))
           (impmap (s_impls s)) (possmap (s_poss s)).

(* M2 holds the image of M1 *)
Definition msim (M1 M2 : mem) : Prop :=
  n0 <= m_next M1 /\ m_next M2 = m_next M1 + dl /\
  forall o, mget M2 (sg o) = option_map objmap (mget M1 o).

Lemma unwrap_s r : unwrap (rmap r) = sg (unwrap r).
Proof. induction r; simpl; auto. Qed.
Lemma wrappers_s r : ref_wrappers (rmap r) = ref_wrappers r.
Proof. induction r; simpl; congruence. Qed.

Section Mem.
Variables M1 M2 : mem.
Hypothesis HM : msim M1 M2.

Lemma mget_s o : mget M2 (sg o) = option_map objmap (mget M1 o).
Proof. exact (proj2 (proj2 HM) o). Qed.
Lemma tname_s o : tname M2 (sg o) = tname M1 o.
Proof. unfold tname. rewrite mget_s. destruct (mget M1 o) as [[| | | |]|]; reflexivity. Qed.
Lemma tkind_s o : tkind M2 (sg o) = tkind M1 o.
Proof. unfold tkind. rewrite mget_s. destruct (mget M1 o) as [[| | | |]|]; reflexivity. Qed.
Lemma dname_s o : dname M2 (sg o) = dname M1 o.
Proof. unfold dname. rewrite mget_s. destruct (mget M1 o) as [[| | | |]|]; reflexivity. Qed.
Lemma oname_s o : oname M2 (sg o) = oname M1 o.
Proof. unfold oname. rewrite mget_s. destruct (mget M1 o) as [[| | | |]|]; reflexivity. Qed.

Lemma alloc_s v : msim (fst (alloc M1 v)) (fst (alloc M2 (objmap v))) /\ snd (alloc M2 (objmap v)) = sg (snd (alloc M1 v)).
Proof.
  destruct HM as (Hn & Hx & Hg). split.
  - split; [simpl; lia|]. split; [simpl; lia|]. intros o. rewrite !mget_alloc.
    rewrite Hx, <- (sg_above _ Hn), sg_eqb. destruct (N.eqb o (m_next M1)); [reflexivity|apply Hg].
  - simpl. rewrite Hx. symmetry. apply sg_above. exact Hn.
Qed.
Lemma write_s o v : msim (write M1 o v) (write M2 (sg o) (objmap v)).
Proof.
  destruct HM as (Hn & Hx & Hg). split; [exact Hn|]. split; [exact Hx|]. intros o'. rewrite !mget_write, sg_eqb.
  destruct (N.eqb o' o); [reflexivity|apply Hg].
Qed.
End Mem.

(* dictionaries *)
Lemma alookup_s n tm : alookup n (regmap tm) = omap (alookup n tm).
Proof. induction tm as [|[k v] tm IH]; simpl; [reflexivity|]. destruct (str_eqb n k); [reflexivity|exact IH]. Qed.
Lemma aset_s n y tm : aset n (sg y) (regmap tm) = regmap (aset n y tm).
Proof. induction tm as [|[k v] tm IH]; simpl; [reflexivity|]. destruct (str_eqb n k); simpl; [reflexivity|]. rewrite IH. reflexivity. Qed.
Lemma adel_s n tm : adel n (regmap tm) = regmap (adel n tm).
Proof. induction tm as [|[k v] tm IH]; simpl; [reflexivity|]. destruct (str_eqb n k); simpl; [reflexivity|]. rewrite IH. reflexivity. Qed.
Lemma ahas_s n tm : ahas n (regmap tm) = ahas n tm.
Proof. unfold ahas. rewrite alookup_s. destruct (alookup n tm); reflexivity. Qed.
Lemma regmap_app a b : regmap (a ++ b) = (regmap a ++ regmap b)%list.
Proof. apply map_app. Qed.
Lemma aappend_s n v acc : aappend n (sg v) (impmap acc) = impmap (aappend n v acc).
Proof.
  induction acc as [|[k l] acc IH]; simpl; [reflexivity|]. destruct (str_eqb n k); simpl.
  - rewrite map_app. reflexivity.
  - rewrite IH. reflexivity.
Qed.
Lemma ialookup_s n acc : alookup n (impmap acc) = option_map (map sg) (alookup n acc).
Proof. induction acc as [|[k v] acc IH]; simpl; [reflexivity|]. destruct (str_eqb n k); [reflexivity|exact IH]. Qed.
Lemma nlookup_s o l : nlookup (sg o) (possmap l) = option_map (map sg) (nlookup o l).
Proof. induction l as [|[k v] l IH]; simpl; [reflexivity|]. rewrite sg_eqb. destruct (N.eqb o k); [reflexivity|exact IH]. Qed.
Lemma oids_eqb_s a b : oids_eqb (map sg a) (map sg b) = oids_eqb a b.
Proof. revert b. induction a as [|x a IH]; intros [|y b]; simpl; try reflexivity. rewrite sg_eqb, IH. reflexivity. Qed.
Lemma ooid_eqb_s a b : ooid_eqb (omap a) (omap b) = ooid_eqb a b.
Proof. destruct a, b; simpl; try reflexivity. apply sg_eqb. Qed.

(* ------------------------------------------------------------------ hooks *)
(* h2 is the relocated h1 *)
Definition hrel (h1 h2 : hook) : Prop :=
  forall M1 M2 x M1' r, msim M1 M2 -> h1 M1 x = Some (M1', r) ->
    exists M2', h2 M2 (sg x) = Some (M2', omap r) /\ msim M1' M2'.

Lemma hid_s : hrel hid hid.
Proof. intros M1 M2 x M1' r HM H. unfold hid in *. inversion H; subst. exists M2. auto. Qed.

Lemma hseq_s a a' b b' c c' : hrel a a' -> hrel b b' -> hrel c c' -> hrel (hseq a b c) (hseq a' b' c').
Proof.
  intros Ha Hb Hc M1 M2 x M1' r HM H. unfold hseq in *.
  destruct (a M1 x) as [[m1 [o1|]]|] eqn:E1; try discriminate.
  - destruct (Ha _ _ _ _ _ HM E1) as (m1' & E1' & HM1). rewrite E1'. simpl.
    destruct (b m1 o1) as [[m2 [o2|]]|] eqn:E2; try discriminate.
    + destruct (Hb _ _ _ _ _ HM1 E2) as (m2' & E2' & HM2). rewrite E2'. simpl. exact (Hc _ _ _ _ _ HM2 H).
    + destruct (Hb _ _ _ _ _ HM1 E2) as (m2' & E2' & HM2). rewrite E2'. simpl. inversion H; subst. exists m2'. auto.
  - destruct (Ha _ _ _ _ _ HM E1) as (m1' & E1' & HM1). rewrite E1'. simpl. inversion H; subst. exists m1'. auto.
Qed.

Lemma map_filter_s h1 h2 : hrel h1 h2 -> forall l M1 M2 M1' rs, msim M1 M2 ->
  map_filter h1 M1 l = Some (M1', rs) ->
  exists M2', map_filter h2 M2 (map sg l) = Some (M2', map sg rs) /\ msim M1' M2'.
Proof.
  intros Hh. induction l as [|x l IH]; intros M1 M2 M1' rs HM H; simpl in *.
  - inversion H; subst. exists M2. auto.
  - destruct (h1 M1 x) as [[m1 r]|] eqn:E1; [|discriminate].
    destruct (map_filter h1 m1 l) as [[m2 rs']|] eqn:E2; [|discriminate]. inversion H; subst.
    destruct (Hh _ _ _ _ _ HM E1) as (m1' & E1' & HM1). rewrite E1'.
    destruct (IH _ _ _ _ HM1 E2) as (m2' & E2' & HM2). rewrite E2'. exists m2'. split; [|exact HM2].
    destruct r; reflexivity.
Qed.

(* visitors *)
Record vrel (v1 v2 : visitor) : Prop := MkVrel {
  vr_arg_pre : hrel (v_arg_pre v1) (v_arg_pre v2); vr_arg_post : hrel (v_arg_post v1) (v_arg_post v2);
  vr_inf_pre : hrel (v_inf_pre v1) (v_inf_pre v2); vr_inf_post : hrel (v_inf_post v1) (v_inf_post v2);
  vr_env_pre : hrel (v_env_pre v1) (v_env_pre v2);
  vr_field_pre : hrel (v_field_pre v1) (v_field_pre v2); vr_field_post : hrel (v_field_post v1) (v_field_post v2);
  vr_type_pre : hrel (v_type_pre v1) (v_type_pre v2); vr_type_post : hrel (v_type_post v1) (v_type_post v2);
  vr_dir_pre : hrel (v_dir_pre v1) (v_dir_pre v2)
}.

Section Visit.
Variables v1 v2 : visitor.
Hypothesis Hv : vrel v1 v2.

Lemma visit_arg_s : hrel (visit_arg v1) (visit_arg v2).
Proof. apply hseq_s; [apply (vr_arg_pre _ _ Hv)|apply hid_s|apply (vr_arg_post _ _ Hv)]. Qed.
Lemma visit_inf_s : hrel (visit_inf v1) (visit_inf v2).
Proof. apply hseq_s; [apply (vr_inf_pre _ _ Hv)|apply hid_s|apply (vr_inf_post _ _ Hv)]. Qed.
Lemma visit_env_s : hrel (visit_env v1) (visit_env v2).
Proof. apply hseq_s; [apply (vr_env_pre _ _ Hv)|apply hid_s|apply hid_s]. Qed.

Lemma base_field_s : hrel (base_field v1) (base_field v2).
Proof.
  intros M1 M2 f M1' r HM H. unfold base_field in *. rewrite (mget_s _ _ HM).
  destruct (mget M1 f) as [[|n py ty args d dp rs sb ds| | |]|] eqn:Hg; try discriminate. simpl.
  destruct (map_filter (visit_arg v1) M1 args) as [[m1 args']|] eqn:Hmf; [|discriminate].
  destruct (map_filter_s _ _ visit_arg_s _ _ _ _ _ HM Hmf) as (m1' & Hmf' & HM1). rewrite Hmf', oids_eqb_s.
  destruct (oids_eqb args' args).
  - inversion H; subst. exists m1'. auto.
  - rewrite (mget_s _ _ HM1). destruct (mget m1 f) as [[|n1 py1 ty1 a1 d1 dp1 rs1 sb1 ds1| | |]|]; try discriminate. simpl.
    destruct (alloc_s _ _ HM1 (OField n1 py1 ty1 args' d1 dp1 rs1 sb1 ds1)) as (HM2 & Ho).
    unfold alloc in *. simpl in *. inversion H; subst. eexists. split; [|exact HM2]. rewrite Ho. reflexivity.
Qed.
Lemma visit_field_s : hrel (visit_field v1) (visit_field v2).
Proof. apply hseq_s; [apply (vr_field_pre _ _ Hv)|apply base_field_s|apply (vr_field_post _ _ Hv)]. Qed.

Lemma base_type_s : hrel (base_type v1) (base_type v2).
Proof.
  intros M1 M2 t M1' r HM H. unfold base_type in *. rewrite (mget_s _ _ HM).
  destruct (mget M1 t) as [[n k d ms ifs rs ds| | | |]|] eqn:Hg; try discriminate. simpl.
  assert (Hgen : forall h1 h2, hrel h1 h2 ->
    match map_filter h1 M1 ms with
    | None => None
    | Some (m1, members') =>
        if oids_eqb members' ms then Some (m1, Some t)
        else match mget m1 t with
             | Some (OType n1 k1 d1 _ ifaces r1 ds1) =>
                 let (m2, t') := alloc m1 (OType n1 k1 d1 members' ifaces r1 ds1) in Some (m2, Some t')
             | _ => None
             end
    end = Some (M1', r) ->
    exists M2',
    match map_filter h2 M2 (map sg ms) with
    | None => None
    | Some (m1, members') =>
        if oids_eqb members' (map sg ms) then Some (m1, Some (sg t))
        else match mget m1 (sg t) with
             | Some (OType n1 k1 d1 _ ifaces r1 ds1) =>
                 let (m2, t') := alloc m1 (OType n1 k1 d1 members' ifaces r1 ds1) in Some (m2, Some t')
             | _ => None
             end
    end = Some (M2', omap r) /\ msim M1' M2').
  { intros h1 h2 Hh H0. destruct (map_filter h1 M1 ms) as [[m1 ms']|] eqn:Hmf; [|discriminate].
    destruct (map_filter_s _ _ Hh _ _ _ _ _ HM Hmf) as (m1' & Hmf' & HM1). rewrite Hmf', oids_eqb_s.
    destruct (oids_eqb ms' ms).
    - inversion H0; subst. exists m1'. auto.
    - rewrite (mget_s _ _ HM1). destruct (mget m1 t) as [[n1 k1 d1 ms1 ifs1 r1 ds1| | | |]|]; try discriminate. simpl.
      destruct (alloc_s _ _ HM1 (OType n1 k1 d1 ms' ifs1 r1 ds1)) as (HM2 & Ho).
      unfold alloc in *. simpl in *. inversion H0; subst. eexists. split; [|exact HM2]. rewrite Ho. reflexivity. }
  destruct k.
  - inversion H; subst. exists M2. auto.
  - apply (Hgen _ _ visit_field_s H).
  - apply (Hgen _ _ visit_field_s H).
  - inversion H; subst. exists M2. auto.
  - apply (Hgen _ _ visit_env_s H).
  - apply (Hgen _ _ visit_inf_s H).
Qed.
Lemma visit_type_s : hrel (visit_type v1) (visit_type v2).
Proof. apply hseq_s; [apply (vr_type_pre _ _ Hv)|apply base_type_s|apply (vr_type_post _ _ Hv)]. Qed.

Lemma base_dir_s : hrel (base_dir v1) (base_dir v2).
Proof.
  intros M1 M2 f M1' r HM H. unfold base_dir in *. rewrite (mget_s _ _ HM).
  destruct (mget M1 f) as [[| | | |n ds locs args]|] eqn:Hg; try discriminate. simpl.
  destruct (map_filter (visit_arg v1) M1 args) as [[m1 args']|] eqn:Hmf; [|discriminate].
  destruct (map_filter_s _ _ visit_arg_s _ _ _ _ _ HM Hmf) as (m1' & Hmf' & HM1). rewrite Hmf', oids_eqb_s.
  destruct (oids_eqb args' args).
  - inversion H; subst. exists m1'. auto.
  - rewrite (mget_s _ _ HM1). destruct (mget m1 f) as [[| | | |n1 ds1 locs1 a1]|]; try discriminate. simpl.
    destruct (alloc_s _ _ HM1 (ODir n1 ds1 locs1 args')) as (HM2 & Ho).
    unfold alloc in *. simpl in *. inversion H; subst. eexists. split; [|exact HM2]. rewrite Ho. reflexivity.
Qed.
Lemma visit_dir_s : hrel (visit_dir v1) (visit_dir v2).
Proof. apply hseq_s; [apply (vr_dir_pre _ _ Hv)|apply base_dir_s|apply hid_s]. Qed.
End Visit.

Lemma traverse_list_s h1 h2 (skip : oid -> bool) : hrel h1 h2 -> (forall o, skip (sg o) = skip o) ->
  forall l M1 M2 M1' ups, msim M1 M2 -> traverse_list h1 skip M1 l = Some (M1', ups) ->
  exists M2', traverse_list h2 skip M2 (regmap l) = Some (M2', upmap ups) /\ msim M1' M2'.
Proof.
  intros Hh Hsk. induction l as [|[n o] l IH]; intros M1 M2 M1' ups HM H; simpl in *.
  - inversion H; subst. exists M2. auto.
  - rewrite Hsk. destruct (skip o); [exact (IH _ _ _ _ HM H)|].
    destruct (h1 M1 o) as [[m1 r]|] eqn:E1; [|discriminate].
    destruct (traverse_list h1 skip m1 l) as [[m2 ups']|] eqn:E2; [|discriminate]. inversion H; subst.
    destruct (Hh _ _ _ _ _ HM E1) as (m1' & E1' & HM1). rewrite E1'.
    destruct (IH _ _ _ _ HM1 E2) as (m2' & E2' & HM2). rewrite E2'. exists m2'. split; [|exact HM2].
    change (Some (sg o)) with (omap (Some o)). rewrite ooid_eqb_s. destruct (ooid_eqb r (Some o)); reflexivity.
Qed.

Lemma traverse_s v1 v2 : vrel v1 v2 -> forall M1 M2 s M1' tu du, msim M1 M2 ->
  traverse v1 M1 s = Some (M1', tu, du) ->
  exists M2', traverse v2 M2 (smap s) = Some (M2', upmap tu, upmap du) /\ msim M1' M2'.
Proof.
  intros Hv M1 M2 s M1' tu du HM H. unfold traverse in *. simpl.
  destruct (traverse_list (visit_type v1) is_builtin M1 (s_types s)) as [[m1 tu1]|] eqn:E1; [|discriminate].
  destruct (traverse_list_s _ _ _ (visit_type_s _ _ Hv) sg_builtin _ _ _ _ _ HM E1) as (m1' & E1' & HM1). rewrite E1'.
  destruct (traverse_list (visit_dir v1) (fun _ => false) m1 (s_dirs s)) as [[m2 du1]|] eqn:E2; [|discriminate].
  destruct (traverse_list_s _ _ (fun _ => false) (visit_dir_s _ _ Hv) (fun _ => eq_refl) _ _ _ _ _ HM1 E2) as (m2' & E2' & HM2).
  rewrite E2'. inversion H; subst. exists m2'. auto.
Qed.


(* ------------------------------------------------------ the healing visitor *)
Lemma healed_s M1 M2 tm r : msim M1 M2 -> healed M2 (regmap tm) (rmap r) = option_map rmap (healed M1 tm r).
Proof.
  intros HM. induction r as [o|r IH|r IH]; simpl.
  - rewrite (tname_s _ _ HM). destruct (tname M1 o) as [n|]; [|reflexivity]. rewrite alookup_s.
    destruct (alookup n tm); reflexivity.
  - rewrite IH. destruct (healed M1 tm r); reflexivity.
  - rewrite IH. destruct (healed M1 tm r); reflexivity.
Qed.
Lemma heal_oids_s M1 M2 tm l : msim M1 M2 -> heal_oids M2 (regmap tm) (map sg l) = map sg (heal_oids M1 tm l).
Proof.
  intros HM. unfold heal_oids. induction l as [|i l IH]; simpl; [reflexivity|]. rewrite map_app, IH. f_equal.
  unfold healed_oid. rewrite (tname_s _ _ HM). destruct (tname M1 i) as [n|]; [|reflexivity]. rewrite alookup_s.
  destruct (alookup n tm); reflexivity.
Qed.
Lemma heal_member_s tm : hrel (heal_member tm) (heal_member (regmap tm)).
Proof.
  intros M1 M2 x M1' r HM H. unfold heal_member in *. rewrite (mget_s _ _ HM).
  destruct (mget M1 x) as [[|n py ty args d dp rs sb ds|a n py ty df d ds| |]|]; try discriminate; simpl;
    rewrite (healed_s _ _ tm ty HM); destruct (healed M1 tm ty) as [ty'|]; simpl; inversion H; subst.
  - eexists. split; [reflexivity|]. exact (write_s _ _ HM x (OField n py ty' args d dp rs sb ds)).
  - exists M2. auto.
  - eexists. split; [reflexivity|]. exact (write_s _ _ HM x (OInput a n py ty' df d ds)).
  - exists M2. auto.
Qed.
Lemma heal_type_s tm : hrel (heal_type tm) (heal_type (regmap tm)).
Proof.
  intros M1 M2 x M1' r HM H. unfold heal_type in *. rewrite (mget_s _ _ HM).
  destruct (mget M1 x) as [[n k d ms ifs rs ds| | | |]|]; try discriminate; simpl.
  destruct k; inversion H; subst; try (exists M2; auto; fail).
  - eexists. split; [reflexivity|]. rewrite (heal_oids_s _ _ tm ifs HM).
    exact (write_s _ _ HM x (OType n Kobject d ms (heal_oids M1 tm ifs) rs ds)).
  - eexists. split; [reflexivity|]. rewrite (heal_oids_s _ _ tm ifs HM).
    exact (write_s _ _ HM x (OType n Kunion d ms (heal_oids M1 tm ifs) rs ds)).
Qed.
Lemma heal_visitor_s tm : vrel (heal_visitor tm) (heal_visitor (regmap tm)).
Proof. constructor; simpl; first [apply hid_s|apply heal_member_s|apply heal_type_s]. Qed.

(* ------------------------------------------ _replace_types_and_directives *)
Lemma replace_types_s M1 M2 : msim M1 M2 -> forall ups tm b tm' b',
  replace_types M1 ups tm b = Ok (tm', b') -> replace_types M2 (upmap ups) (regmap tm) b = Ok (regmap tm', b').
Proof.
  intros HM. induction ups as [|[n nw] ups IH]; intros tm b tm' b' H; simpl in *.
  - inversion H; reflexivity.
  - rewrite alookup_s. destruct (alookup n tm) as [orig|]; simpl; [|exact (IH _ _ _ _ H)].
    rewrite sg_builtin. destruct (is_builtin orig); [discriminate|].
    change (Some (sg orig)) with (omap (Some orig)). rewrite ooid_eqb_s.
    destruct nw as [o|]; simpl.
    + rewrite !(tkind_s _ _ HM). destruct (tkind M1 orig); [|discriminate]. destruct (tkind M1 o); [|discriminate].
      destruct (kind_eqb k k0); [|discriminate]. rewrite aset_s. exact (IH _ _ _ _ H).
    + rewrite adel_s. exact (IH _ _ _ _ H).
Qed.
Lemma replace_dirs_s : forall ups dm dm', replace_dirs ups dm = Ok dm' -> replace_dirs (upmap ups) (regmap dm) = Ok (regmap dm').
Proof.
  induction ups as [|[n [d|]] ups IH]; intros dm dm' H; simpl in *.
  - inversion H; reflexivity.
  - rewrite aset_s. exact (IH _ _ H).
  - rewrite ahas_s. destruct (ahas n dm); [|discriminate]. rewrite adel_s. exact (IH _ _ H).
Qed.
Lemma reroot_s M1 M2 tm r : msim M1 M2 -> reroot M2 (regmap tm) (omap r) = omap (reroot M1 tm r).
Proof.
  intros HM. destruct r as [o|]; simpl; [|reflexivity]. rewrite (tname_s _ _ HM).
  destruct (tname M1 o); [apply alookup_s|reflexivity].
Qed.
Lemma impls_of_type_s M1 M2 acc e : msim M1 M2 ->
  impls_of_type M2 (impmap acc) (fst e, sg (snd e)) = impmap (impls_of_type M1 acc e).
Proof.
  intros HM. unfold impls_of_type. simpl. rewrite (mget_s _ _ HM).
  destruct (mget M1 (snd e)) as [[n k d ms ifs r ds| | | |]|]; try reflexivity. simpl. destruct k; try reflexivity.
  revert acc. induction ifs as [|i ifs IH]; intros acc; simpl; [reflexivity|].
  rewrite (tname_s _ _ HM). destruct (tname M1 i); [rewrite aappend_s|]; apply IH.
Qed.
Lemma rebuild_caches_s M1 M2 s : msim M1 M2 -> rebuild_caches M2 (smap s) = smap (rebuild_caches M1 s).
Proof.
  intros HM. unfold rebuild_caches, smap. simpl. f_equal.
  change (@nil (str * list oid)) with (impmap []) at 1. generalize (@nil (str * list oid)).
  induction (s_types s) as [|e l IH]; intros acc; simpl; [reflexivity|].
  rewrite (impls_of_type_s _ _ acc e HM). apply IH.
Qed.

Lemma replace_and_heal_s : forall fuel M1 M2 s tu du M1' s', msim M1 M2 ->
  replace_and_heal fuel M1 s tu du = Ok (M1', s') ->
  exists M2', replace_and_heal fuel M2 (smap s) (upmap tu) (upmap du) = Ok (M2', smap s') /\ msim M1' M2'.
Proof.
  induction fuel as [|fuel IH]; intros M1 M2 s tu du M1' s' HM H; simpl in *; [discriminate|].
  destruct (replace_types M1 tu (s_types s) false) as [[tm b]| | |] eqn:Hrt; simpl in H; try discriminate.
  rewrite (replace_types_s _ _ HM _ _ _ _ _ Hrt). simpl.
  destruct (replace_dirs du (s_dirs s)) as [dm| | |] eqn:Hrd; simpl in H; try discriminate.
  rewrite (replace_dirs_s _ _ _ Hrd). simpl.
  rewrite !(reroot_s _ _ _ _ HM).
  set (s1 := MkSchema tm dm (reroot M1 tm (s_query s)) (reroot M1 tm (s_mut s)) (reroot M1 tm (s_sub s)) (s_impls s) (s_poss s)) in *.
  change (MkSchema (regmap tm) (regmap dm) (omap (reroot M1 tm (s_query s))) (omap (reroot M1 tm (s_mut s)))
            (omap (reroot M1 tm (s_sub s))) (impmap (s_impls s)) (possmap (s_poss s))) with (smap s1).
  destruct b.
  - destruct (traverse (heal_visitor tm) M1 s1) as [[[m1 tu1] du1]|] eqn:Ht; [|discriminate].
    destruct (traverse_s _ _ (heal_visitor_s tm) _ _ _ _ _ _ HM Ht) as (m1' & Ht' & HM1). rewrite Ht'.
    destruct (replace_and_heal fuel m1 s1 tu1 du1) as [[m2 s2]| | |] eqn:Hr; simpl in H; try discriminate.
    destruct (IH _ _ _ _ _ _ _ HM1 Hr) as (m2' & Hr' & HM2). rewrite Hr'. simpl.
    inversion H; subst. exists m2'. split; [|exact HM2]. rewrite (rebuild_caches_s _ _ _ HM2). reflexivity.
  - inversion H; subst. exists M2. auto.
Qed.

Lemma on_schema_s v1 v2 : vrel v1 v2 -> forall fuel M1 M2 s M1' s', msim M1 M2 ->
  on_schema fuel v1 M1 s = Ok (M1', s') ->
  exists M2', on_schema fuel v2 M2 (smap s) = Ok (M2', smap s') /\ msim M1' M2'.
Proof.
  intros Hv fuel M1 M2 s M1' s' HM H. unfold on_schema in *.
  destruct (traverse v1 M1 s) as [[[m1 tu] du]|] eqn:Ht; [|discriminate].
  destruct (traverse_s _ _ Hv _ _ _ _ _ _ HM Ht) as (m1' & Ht' & HM1). rewrite Ht'.
  exact (replace_and_heal_s _ _ _ _ _ _ _ _ HM1 H).
Qed.

(* ------------------------------------------------ the library's visitors *)
Lemma by_name_s pred : hrel (by_name pred) (by_name pred).
Proof.
  intros M1 M2 x M1' r HM H. unfold by_name in *. rewrite (oname_s _ _ HM).
  destruct (oname M1 x) as [n|]; [|discriminate]. inversion H; subst. exists M2. split; [|exact HM].
  destruct (pred n); reflexivity.
Qed.
Lemma type_visible_s p M1 M2 t : msim M1 M2 -> type_visible p M2 (sg t) = type_visible p M1 t.
Proof. intros HM. unfold type_visible. rewrite sg_builtin, (tname_s _ _ HM). reflexivity. Qed.
Lemma filter_by_name_s M1 M2 pred l : msim M1 M2 -> filter_by_name M2 pred (map sg l) = map sg (filter_by_name M1 pred l).
Proof.
  intros HM. unfold filter_by_name. induction l as [|x l IH]; simpl; [reflexivity|]. rewrite (oname_s _ _ HM).
  destruct (match oname M1 x with Some n => pred n | None => false end); simpl; rewrite IH; reflexivity.
Qed.
Lemma vis_type_pre_s p : hrel (vis_type_pre p) (vis_type_pre p).
Proof.
  intros M1 M2 t M1' r HM H. unfold vis_type_pre in *. rewrite (mget_s _ _ HM).
  destruct (mget M1 t) as [[n k d ms ifs rs ds| | | |]|]; try discriminate. simpl.
  assert (Hw : forall q,
    exists M2', Some (if oids_eqb (filter_by_name M2 q (map sg ms)) (map sg ms) then M2
                      else write M2 (sg t) (OType n k d (filter_by_name M2 q (map sg ms)) (map sg ifs) rs ds), Some (sg t))
                = Some (M2', omap (Some t)) /\
                msim (if oids_eqb (filter_by_name M1 q ms) ms then M1 else write M1 t (OType n k d (filter_by_name M1 q ms) ifs rs ds)) M2').
  { intros q. eexists. split; [reflexivity|]. rewrite (filter_by_name_s _ _ q ms HM), oids_eqb_s.
    destruct (oids_eqb (filter_by_name M1 q ms) ms); [exact HM|].
    exact (write_s _ _ HM t (OType n k d (filter_by_name M1 q ms) ifs rs ds)). }
  destruct k; try (inversion H; subst; exists M2; auto; fail).
  - rewrite (type_visible_s p _ _ t HM). destruct (type_visible p M1 t); inversion H; subst; [apply Hw|exists M2; auto].
  - rewrite (type_visible_s p _ _ t HM). destruct (type_visible p M1 t); inversion H; subst; [apply Hw|exists M2; auto].
  - inversion H; subst. apply Hw.
Qed.
Lemma vis_type_post_s p : hrel (vis_type_post p) (vis_type_post p).
Proof.
  intros M1 M2 t M1' r HM H. unfold vis_type_post in *. rewrite (tkind_s _ _ HM), (type_visible_s p _ _ t HM).
  destruct (tkind M1 t) as [k|]; [|discriminate].
  destruct k; inversion H; subst; exists M2; (split; [|exact HM]); try reflexivity; destruct (type_visible p M1' t); reflexivity.
Qed.
Lemma vis_inf_pre_s p : hrel (vis_inf_pre p) (vis_inf_pre p).
Proof.
  intros M1 M2 x M1' r HM H. unfold vis_inf_pre in *. rewrite (mget_s _ _ HM).
  destruct (mget M1 x) as [[| |a n py ty df d ds| |]|]; try discriminate. simpl.
  rewrite unwrap_s, (type_visible_s p _ _ _ HM). inversion H; subst. exists M2. split; [|exact HM].
  destruct (type_visible p M1' (unwrap ty)); reflexivity.
Qed.
Lemma vis_visitor_s p : vrel (vis_visitor p) (vis_visitor p).
Proof. constructor; simpl; first [apply hid_s|apply by_name_s|apply vis_inf_pre_s|apply vis_type_pre_s|apply vis_type_post_s]. Qed.

Lemma camel_member_s c : hrel (camel_member c) (camel_member c).
Proof.
  intros M1 M2 x M1' r HM H. unfold camel_member in *. rewrite (mget_s _ _ HM).
  destruct (mget M1 x) as [[|n py ty args d dp rs sb ds|a n py ty df d ds| |]|]; try discriminate; simpl.
  - destruct (alloc_s _ _ HM (OField (c n) py ty args d dp rs sb ds)) as (HM2 & Ho).
    unfold alloc in *. simpl in *. inversion H; subst. eexists. split; [|exact HM2]. rewrite Ho. reflexivity.
  - destruct (alloc_s _ _ HM (OInput a (c n) py ty df d ds)) as (HM2 & Ho).
    unfold alloc in *. simpl in *. inversion H; subst. eexists. split; [|exact HM2]. rewrite Ho. reflexivity.
Qed.
Lemma camel_visitor_s c : vrel (camel_visitor c) (camel_visitor c).
Proof. constructor; simpl; first [apply hid_s|apply camel_member_s]. Qed.


(* ------------------------------------------------------------ Schema.clone *)
Lemma copy_all_s : forall l M1 M2 M1' r, msim M1 M2 -> copy_all M1 l = (M1', r) ->
  exists M2', copy_all M2 (map sg l) = (M2', map sg r) /\ msim M1' M2'.
Proof.
  induction l as [|o l IH]; intros M1 M2 M1' r HM H; simpl in *.
  - inversion H; subst. exists M2. auto.
  - rewrite (mget_s _ _ HM). destruct (mget M1 o) as [v|]; simpl; [|exact (IH _ _ _ _ HM H)].
    destruct (alloc_s _ _ HM v) as (HM1 & Ho). unfold alloc in *. simpl in *.
    match type of H with (let (_, _) := copy_all ?m l in _) = _ => destruct (copy_all m l) as [m2 r2] eqn:E end.
    inversion H; subst. destruct (IH _ _ _ _ HM1 E) as (m2' & E' & HM2). rewrite E'. exists m2'. split; [|exact HM2].
    rewrite Ho. reflexivity.
Qed.
Lemma clone_field_s M1 M2 f M1' r : msim M1 M2 -> clone_field M1 f = (M1', r) ->
  exists M2', clone_field M2 (sg f) = (M2', map sg r) /\ msim M1' M2'.
Proof.
  intros HM H. unfold clone_field in *. rewrite (mget_s _ _ HM).
  destruct (mget M1 f) as [[|n py ty args d dp rs sb ds| | |]|]; simpl; try (inversion H; subst; exists M2; auto; fail).
  destruct (copy_all M1 args) as [m1 args'] eqn:E. destruct (copy_all_s _ _ _ _ _ HM E) as (m1' & E' & HM1). rewrite E'.
  destruct (alloc_s _ _ HM1 (OField n py ty args' d dp rs sb ds)) as (HM2 & Ho). unfold alloc in *. simpl in *.
  inversion H; subst. eexists. split; [|exact HM2]. rewrite Ho. reflexivity.
Qed.
Lemma clone_fields_s : forall l M1 M2 M1' r, msim M1 M2 -> clone_fields M1 l = (M1', r) ->
  exists M2', clone_fields M2 (map sg l) = (M2', map sg r) /\ msim M1' M2'.
Proof.
  induction l as [|f l IH]; intros M1 M2 M1' r HM H; simpl in *.
  - inversion H; subst. exists M2. auto.
  - destruct (clone_field M1 f) as [m1 r1] eqn:E1. destruct (clone_field_s _ _ _ _ _ HM E1) as (m1' & E1' & HM1). rewrite E1'.
    destruct (clone_fields m1 l) as [m2 r2] eqn:E2. destruct (IH _ _ _ _ HM1 E2) as (m2' & E2' & HM2). rewrite E2'.
    inversion H; subst. exists m2'. split; [|exact HM2]. rewrite map_app. reflexivity.
Qed.
Lemma clone_type_s M1 M2 t M1' r : msim M1 M2 -> clone_type M1 t = (M1', r) ->
  exists M2', clone_type M2 (sg t) = (M2', omap r) /\ msim M1' M2'.
Proof.
  intros HM H. unfold clone_type in *. rewrite (mget_s _ _ HM).
  destruct (mget M1 t) as [[n k d ms ifs rs ds| | | |]|]; simpl; try (inversion H; subst; exists M2; auto; fail).
  assert (Hm : forall m1 ms', (match k with
                               | Kobject | Kinterface => clone_fields M1 ms
                               | Kinput | Kenum => copy_all M1 ms
                               | _ => (M1, ms)
                               end) = (m1, ms') ->
            exists m1', (match k with
                         | Kobject | Kinterface => clone_fields M2 (map sg ms)
                         | Kinput | Kenum => copy_all M2 (map sg ms)
                         | _ => (M2, map sg ms)
                         end) = (m1', map sg ms') /\ msim m1 m1').
  { intros m1 ms' E. destruct k; first [inversion E; subst; exists M2; auto; fail|eapply clone_fields_s; eauto|eapply copy_all_s; eauto]. }
  destruct (match k with
            | Kobject | Kinterface => clone_fields M1 ms
            | Kinput | Kenum => copy_all M1 ms
            | _ => (M1, ms)
            end) as [m1 ms'] eqn:E.
  destruct (Hm _ _ eq_refl) as (m1' & E' & HM1). rewrite E'.
  destruct (alloc_s _ _ HM1 (OType n k d ms' ifs rs ds)) as (HM2 & Ho). unfold alloc in *. simpl in *.
  inversion H; subst. eexists. split; [|exact HM2]. rewrite Ho. reflexivity.
Qed.
Lemma clone_dir_s M1 M2 t M1' r : msim M1 M2 -> clone_dir M1 t = (M1', r) ->
  exists M2', clone_dir M2 (sg t) = (M2', omap r) /\ msim M1' M2'.
Proof.
  intros HM H. unfold clone_dir in *. rewrite (mget_s _ _ HM).
  destruct (mget M1 t) as [[| | | |n ds locs args]|]; simpl; try (inversion H; subst; exists M2; auto; fail).
  destruct (copy_all M1 args) as [m1 args'] eqn:E. destruct (copy_all_s _ _ _ _ _ HM E) as (m1' & E' & HM1). rewrite E'.
  destruct (alloc_s _ _ HM1 (ODir n ds locs args')) as (HM2 & Ho). unfold alloc in *. simpl in *.
  inversion H; subst. eexists. split; [|exact HM2]. rewrite Ho. reflexivity.
Qed.
Lemma clone_entries_s (c : mem -> oid -> mem * option oid) (skip : oid -> bool) :
  (forall M1 M2 t M1' r, msim M1 M2 -> c M1 t = (M1', r) -> exists M2', c M2 (sg t) = (M2', omap r) /\ msim M1' M2') ->
  (forall o, skip (sg o) = skip o) ->
  forall l M1 M2 M1' ups, msim M1 M2 -> clone_entries c skip M1 l = (M1', ups) ->
  exists M2', clone_entries c skip M2 (regmap l) = (M2', upmap ups) /\ msim M1' M2'.
Proof.
  intros Hc Hsk. induction l as [|[n o] l IH]; intros M1 M2 M1' ups HM H; simpl in *.
  - inversion H; subst. exists M2. auto.
  - rewrite Hsk. destruct (skip o); [exact (IH _ _ _ _ HM H)|].
    destruct (c M1 o) as [m1 r] eqn:E1. destruct (Hc _ _ _ _ _ HM E1) as (m1' & E1' & HM1). rewrite E1'.
    destruct (clone_entries c skip m1 l) as [m2 ups'] eqn:E2. destruct (IH _ _ _ _ HM1 E2) as (m2' & E2' & HM2). rewrite E2'.
    inversion H; subst. exists m2'. split; [|exact HM2]. destruct r; reflexivity.
Qed.

(* ------------------------------------------------------------- Schema(...) *)
Lemma sg_below o : o < n0 -> sg o = o.
Proof. intros H. unfold sg. destruct (N.ltb_spec o n0); [reflexivity|lia]. Qed.
Lemma builtin_types_s : regmap builtin_types = builtin_types.
Proof. unfold regmap, builtin_types. simpl. rewrite !sg_below by lia. reflexivity. Qed.

Lemma flat_map_s {A} (f g : A -> list oid) (h : A -> A) l :
  (forall x, g (h x) = map sg (f x)) -> flat_map g (map h l) = map sg (flat_map f l).
Proof. intros H. induction l as [|x l IH]; simpl; [reflexivity|]. rewrite map_app, H, IH. reflexivity. Qed.

Lemma member_type_s M1 M2 o : msim M1 M2 -> member_type M2 (sg o) = map sg (member_type M1 o).
Proof.
  intros HM. unfold member_type. rewrite (mget_s _ _ HM). destruct (mget M1 o) as [[| |a n py ty df d ds| |]|]; try reflexivity.
  simpl. rewrite unwrap_s. reflexivity.
Qed.
Lemma field_children_s M1 M2 o : msim M1 M2 -> field_children M2 (sg o) = map sg (field_children M1 o).
Proof.
  intros HM. unfold field_children. rewrite (mget_s _ _ HM). destruct (mget M1 o) as [[|n py ty args d dp rs sb ds| | |]|]; try reflexivity.
  simpl. rewrite unwrap_s. f_equal. apply flat_map_s. intros x. apply member_type_s. exact HM.
Qed.
Lemma children_s M1 M2 o : msim M1 M2 -> children M2 (sg o) = map sg (children M1 o).
Proof.
  intros HM. unfold children. rewrite (mget_s _ _ HM). destruct (mget M1 o) as [[n k d ms ifs rs ds| | | |]|]; try reflexivity.
  simpl. destruct k; try reflexivity.
  - rewrite map_app. f_equal. apply flat_map_s. intros x. apply field_children_s. exact HM.
  - apply flat_map_s. intros x. apply field_children_s. exact HM.
  - apply flat_map_s. intros x. apply member_type_s. exact HM.
Qed.
Lemma dir_args_s M1 M2 o : msim M1 M2 -> dir_args M2 (sg o) = map sg (dir_args M1 o).
Proof. intros HM. unfold dir_args. rewrite (mget_s _ _ HM). destruct (mget M1 o) as [[| | | |]|]; reflexivity. Qed.

Lemma build_map_s M1 M2 : msim M1 M2 -> forall fuel stack tm tm',
  build_map fuel M1 stack tm = Ok tm' -> build_map fuel M2 (map sg stack) (regmap tm) = Ok (regmap tm').
Proof.
  intros HM. induction fuel as [|fuel IH]; intros stack tm tm' H; simpl in *; [discriminate|].
  destruct stack as [|o rest]; simpl; [inversion H; reflexivity|].
  rewrite (tname_s _ _ HM). destruct (tname M1 o) as [n|]; [|discriminate]. rewrite alookup_s.
  destruct (alookup n tm) as [o'|]; simpl.
  - rewrite sg_eqb. destruct (N.eqb o o'); [exact (IH _ _ _ H)|discriminate].
  - rewrite (children_s _ _ o HM), <- map_app.
    change (regmap tm ++ [(n, sg o)])%list with (regmap tm ++ regmap [(n, o)])%list. rewrite <- regmap_app. exact (IH _ _ _ H).
Qed.
Lemma build_dirs_s M1 M2 : msim M1 M2 -> forall ds dm dm',
  build_dirs M1 ds dm = Ok dm' -> build_dirs M2 (map sg ds) (regmap dm) = Ok (regmap dm').
Proof.
  intros HM. induction ds as [|d ds IH]; intros dm dm' H; simpl in *; [inversion H; reflexivity|].
  rewrite (dname_s _ _ HM). destruct (dname M1 d) as [n|]; [|discriminate]. rewrite alookup_s.
  destruct (alookup n dm) as [d'|]; simpl.
  - rewrite sg_eqb. destruct (N.eqb d d'); [exact (IH _ _ H)|discriminate].
  - change (regmap dm ++ [(n, sg d)])%list with (regmap dm ++ regmap [(n, d)])%list. rewrite <- regmap_app. exact (IH _ _ H).
Qed.
Lemma otolist_s r : otolist (omap r) = map sg (otolist r).
Proof. destruct r; reflexivity. Qed.
Lemma map_snd_regmap l : map snd (regmap l) = map sg (map snd l).
Proof. unfold regmap. rewrite !map_map. reflexivity. Qed.

Lemma build_s M1 M2 fuel q mu su dirs types s0 : msim M1 M2 ->
  build fuel M1 q mu su dirs types = Ok s0 ->
  build fuel M2 (omap q) (omap mu) (omap su) (map sg dirs) (map sg types) = Ok (smap s0).
Proof.
  intros HM H. unfold build in *.
  destruct (build_dirs M1 dirs []) as [dm| | |] eqn:Hd; simpl in H; try discriminate.
  change (@nil (str * oid)) with (regmap []) at 1. rewrite (build_dirs_s _ _ HM _ _ _ Hd). simpl.
  match type of H with obind (build_map fuel M1 ?st builtin_types) _ = _ =>
    destruct (build_map fuel M1 st builtin_types) as [tm| | |] eqn:Hm; simpl in H; try discriminate;
    pose proof (build_map_s _ _ HM _ _ _ _ Hm) as Hm' end.
  rewrite builtin_types_s in Hm'. rewrite !map_app, <- !otolist_s in Hm'.
  rewrite map_snd_regmap.
  rewrite (flat_map_s (dir_args M1) (dir_args M2) sg (map snd dm) (fun x => dir_args_s _ _ x HM)).
  rewrite (flat_map_s (member_type M1) (member_type M2) sg _ (fun x => member_type_s _ _ x HM)).
  rewrite Hm'. simpl. inversion H; subst.
  change (MkSchema (regmap tm) (regmap dm) (omap q) (omap mu) (omap su) [] []) with (smap (MkSchema tm dm q mu su [] [])).
  rewrite (rebuild_caches_s _ _ _ HM). reflexivity.
Qed.

Lemma clone_s fuel M1 M2 s M1' s' : msim M1 M2 -> clone fuel M1 s = Ok (M1', s') ->
  exists M2', clone fuel M2 (smap s) = Ok (M2', smap s') /\ msim M1' M2'.
Proof.
  intros HM H. unfold clone in *.
  destruct (build fuel M1 (s_query s) (s_mut s) (s_sub s) (map snd (s_dirs s)) (map snd (s_types s))) as [s0| | |] eqn:Hb;
    simpl in H; try discriminate.
  simpl. rewrite !map_snd_regmap, (build_s _ _ _ _ _ _ _ _ _ HM Hb). simpl.
  destruct (clone_entries clone_type is_builtin M1 (s_types s)) as [m1 tu] eqn:E1.
  destruct (clone_entries_s clone_type is_builtin clone_type_s sg_builtin _ _ _ _ _ HM E1) as (m1' & E1' & HM1). rewrite E1'.
  destruct (clone_entries clone_dir (fun _ => false) m1 (s_dirs s)) as [m2 du] eqn:E2.
  destruct (clone_entries_s clone_dir (fun _ => false) clone_dir_s (fun _ => eq_refl) _ _ _ _ _ HM1 E2) as (m2' & E2' & HM2). rewrite E2'.
  exact (replace_and_heal_s _ _ _ _ _ _ _ _ HM2 H).
Qed.

Lemma transform_s v1 v2 : vrel v1 v2 -> forall fuel M1 M2 s M1' s', msim M1 M2 ->
  transform fuel v1 M1 s = Ok (M1', s') ->
  exists M2', transform fuel v2 M2 (smap s) = Ok (M2', smap s') /\ msim M1' M2'.
Proof.
  intros Hv fuel M1 M2 s M1' s' HM H. unfold transform in *.
  destruct (clone fuel M1 s) as [[m1 c]| | |] eqn:Hc; simpl in H; try discriminate.
  destruct (clone_s _ _ _ _ _ _ HM Hc) as (m1' & Hc' & HM1). rewrite Hc'. simpl.
  exact (on_schema_s _ _ Hv _ _ _ _ _ _ HM1 H).
Qed.


(* ------------------------------------------------------------------ observe *)
Section Obs.
Variables M1 M2 : mem.
Hypothesis HM : msim M1 M2.
Variable tm : list (str * oid).

Lemma sx_named_s o : sx_named M2 (regmap tm) (sg o) = sx_named M1 tm o.
Proof.
  unfold sx_named, registered. rewrite (tname_s _ _ HM). destruct (tname M1 o) as [n|]; [|reflexivity].
  rewrite alookup_s. destruct (alookup n tm) as [o'|]; simpl; [rewrite sg_eqb|]; reflexivity.
Qed.
Lemma sx_ref_s r : sx_ref M2 (regmap tm) (rmap r) = sx_ref M1 tm r.
Proof. unfold sx_ref. rewrite unwrap_s, sx_named_s, wrappers_s. reflexivity. Qed.
Lemma map_sx {B} (f : oid -> B) (g : oid -> B) l : (forall x, g (sg x) = f x) -> map g (map sg l) = map f l.
Proof. intros H. rewrite map_map. apply map_ext. exact H. Qed.
Lemma sx_input_s a : sx_input M2 (regmap tm) (sg a) = sx_input M1 tm a.
Proof.
  unfold sx_input. rewrite (mget_s _ _ HM). destruct (mget M1 a) as [[| |ia n py ty df d ds| |]|]; try reflexivity.
  simpl. rewrite sx_ref_s. reflexivity.
Qed.
Lemma sx_field_s f : sx_field M2 (regmap tm) (sg f) = sx_field M1 tm f.
Proof.
  unfold sx_field. rewrite (mget_s _ _ HM). destruct (mget M1 f) as [[|n py ty args d dp rs sb ds| | |]|]; try reflexivity.
  simpl. rewrite sx_ref_s, (map_sx _ _ args sx_input_s). reflexivity.
Qed.
Lemma sx_enumv_s e : sx_enumv M2 (sg e) = sx_enumv M1 e.
Proof. unfold sx_enumv. rewrite (mget_s _ _ HM). destruct (mget M1 e) as [[| | | |]|]; reflexivity. Qed.
Lemma sx_type_s t : sx_type M2 (regmap tm) (sg t) = sx_type M1 tm t.
Proof.
  unfold sx_type. rewrite (mget_s _ _ HM). destruct (mget M1 t) as [[n k d ms ifs rs ds| | | |]|]; try reflexivity.
  simpl. rewrite (map_sx _ _ ifs sx_named_s).
  destruct k; try reflexivity; [rewrite (map_sx _ _ ms sx_field_s)|rewrite (map_sx _ _ ms sx_field_s)|
                                rewrite (map_sx _ _ ms sx_enumv_s)|rewrite (map_sx _ _ ms sx_input_s)]; reflexivity.
Qed.
Lemma sx_dir_s d : sx_dir M2 (regmap tm) (sg d) = sx_dir M1 tm d.
Proof.
  unfold sx_dir. rewrite (mget_s _ _ HM). destruct (mget M1 d) as [[| | | |n ds locs args]|]; try reflexivity.
  simpl. rewrite (map_sx _ _ args sx_input_s). reflexivity.
Qed.
Lemma is_abstract_s o : is_abstract M2 (sg o) = is_abstract M1 o.
Proof. unfold is_abstract. rewrite (tkind_s _ _ HM). reflexivity. Qed.
End Obs.

Lemma possible_of_s M1 M2 s o : msim M1 M2 -> possible_of M2 (smap s) (sg o) = option_map (map sg) (possible_of M1 s o).
Proof.
  intros HM. unfold possible_of. rewrite (mget_s _ _ HM). destruct (mget M1 o) as [[n k d ms ifs rs ds| | | |]|]; try reflexivity.
  simpl. destruct k; try reflexivity. simpl. rewrite ialookup_s. destruct (alookup n (s_impls s)); reflexivity.
Qed.

Lemma touch_fold_s M1 M2 s : msim M1 M2 -> forall (l : list (str * oid)) cache,
  fold_left (fun cache e => match nlookup (snd e) cache with
                            | Some _ => cache
                            | None => match possible_of M2 (smap s) (snd e) with
                                      | Some pl => cache ++ [(snd e, pl)]
                                      | None => cache
                                      end
                            end) (regmap l) (possmap cache) =
  possmap (fold_left (fun cache e => match nlookup (snd e) cache with
                                     | Some _ => cache
                                     | None => match possible_of M1 s (snd e) with
                                               | Some pl => cache ++ [(snd e, pl)]
                                               | None => cache
                                               end
                                     end) l cache).
Proof.
  intros HM. induction l as [|e l IH]; intros cache; simpl; [reflexivity|].
  rewrite nlookup_s. destruct (nlookup (snd e) cache); simpl; [apply IH|].
  rewrite (possible_of_s _ _ s (snd e) HM). destruct (possible_of M1 s (snd e)) as [pl|]; simpl; [|apply IH].
  change (possmap cache ++ [(sg (snd e), map sg pl)])%list with (possmap cache ++ possmap [(snd e, pl)])%list.
  unfold possmap at 1 2. rewrite <- map_app. apply IH.
Qed.

Lemma touch_poss_s M1 M2 s : msim M1 M2 -> touch_poss M2 (smap s) = smap (touch_poss M1 s).
Proof.
  intros HM. unfold touch_poss.
  match goal with |- _ = smap (MkSchema ?a ?b ?c ?d ?e ?f ?g) =>
    change (smap (MkSchema a b c d e f g)) with (MkSchema (regmap a) (regmap b) (omap c) (omap d) (omap e) (impmap f) (possmap g)) end.
  rewrite <- (touch_fold_s _ _ s HM). reflexivity.
Qed.

Lemma filter_regmap (f : oid -> bool) l : (forall o, f (sg o) = f o) ->
  filter (fun e : str * oid => f (snd e)) (regmap l) = regmap (filter (fun e => f (snd e)) l).
Proof.
  intros H. induction l as [|[n o] l IH]; simpl; [reflexivity|]. rewrite H. destruct (f o); simpl; rewrite IH; reflexivity.
Qed.

Lemma flat_map_map_ext {A B C} (h : A -> B) (g : B -> list C) (f : A -> list C) l :
  (forall x, g (h x) = f x) -> flat_map g (map h l) = flat_map f l.
Proof. intros H. induction l as [|x l IH]; simpl; [reflexivity|]. rewrite H, IH. reflexivity. Qed.

Theorem observe_s M1 M2 s : msim M1 M2 -> observe M2 (smap s) = observe M1 s.
Proof.
  intros HM. unfold observe. cbn [smap s_types s_dirs s_query s_mut s_sub s_impls s_poss].
  assert (Hroot : forall r, SL (match omap r with Some o => [sx_named M2 (regmap (s_types s)) o] | None => [] end) =
                            SL (match r with Some o => [sx_named M1 (s_types s) o] | None => [] end)).
  { intros [o|]; simpl; [rewrite (sx_named_s _ _ HM)|]; reflexivity. }
  rewrite !Hroot.
  assert (Ht : map (fun e => sx_type M2 (regmap (s_types s)) (snd e)) (filter (fun e => negb (is_builtin (snd e))) (regmap (s_types s))) =
               map (fun e => sx_type M1 (s_types s) (snd e)) (filter (fun e => negb (is_builtin (snd e))) (s_types s))).
  { rewrite (filter_regmap (fun o => negb (is_builtin o))) by (intros o; rewrite sg_builtin; reflexivity).
    unfold regmap. rewrite map_map. apply map_ext. intros e. simpl. apply (sx_type_s _ _ HM). }
  rewrite Ht.
  assert (Hd : map (fun e => sx_dir M2 (regmap (s_types s)) (snd e)) (regmap (s_dirs s)) =
               map (fun e => sx_dir M1 (s_types s) (snd e)) (s_dirs s)).
  { unfold regmap at 2. rewrite map_map. apply map_ext. intros e. simpl. apply (sx_dir_s _ _ HM). }
  rewrite Hd.
  assert (Hi : flat_map (fun e => match snd e with
                                  | [] => []
                                  | l => [SL [SS (fst e); SL (sx_sort (map (sx_named M2 (regmap (s_types s))) l))]]
                                  end) (impmap (s_impls s)) =
               flat_map (fun e => match snd e with
                                  | [] => []
                                  | l => [SL [SS (fst e); SL (sx_sort (map (sx_named M1 (s_types s)) l))]]
                                  end) (s_impls s)).
  { unfold impmap. apply flat_map_map_ext. intros [k l].
    destruct l as [|a l]; [reflexivity|]. cbn [fst snd map]. do 3 f_equal. apply (f_equal (fun z => [SL (sx_sort z)])).
    exact (map_sx _ _ (a :: l) (sx_named_s _ _ HM (s_types s))). }
  rewrite Hi.
  assert (Hp : flat_map (fun e => if is_abstract M2 (snd e) then
                   [SL [SS (fst e); SL (sx_sort (map (sx_named M2 (regmap (s_types s)))
                      (match nlookup (snd e) (possmap (s_poss s)) with Some l => l | None => [] end)))]]
                 else []) (regmap (s_types s)) =
               flat_map (fun e => if is_abstract M1 (snd e) then
                   [SL [SS (fst e); SL (sx_sort (map (sx_named M1 (s_types s))
                      (match nlookup (snd e) (s_poss s) with Some l => l | None => [] end)))]]
                 else []) (s_types s)).
  { unfold regmap at 2. apply flat_map_map_ext. intros [n o]. simpl.
    rewrite (is_abstract_s _ _ HM), nlookup_s. destruct (is_abstract M1 o); [|reflexivity].
    destruct (nlookup o (s_poss s)) as [pl|]; simpl; [|reflexivity].
    rewrite (map_sx _ _ pl (sx_named_s _ _ HM (s_types s))). reflexivity. }
  rewrite Hp. reflexivity.
Qed.

End Reloc.

(* ---------------------------------------------------- two heaps, one source *)
Definition oids_of (v : obj) : list oid :=
  match v with
  | OType _ _ _ ms ifs _ _ => ms ++ ifs
  | OField _ _ ty args _ _ _ _ _ => unwrap ty :: args
  | OInput _ _ _ ty _ _ _ => [unwrap ty]
  | OEnumV _ _ _ _ _ => []
  | ODir _ _ _ args => args
  end.
(* no cell of the heap mentions an oid at or above the allocation pointer *)
Definition heap_below (m : mem) : Prop :=
  forall o v, mget m o = Some v -> Forall (fun x => x < m_next m) (oids_of v).
Definition schema_below (n0 : oid) (s : schema) : Prop :=
  Forall (fun x => x < n0)
    (map snd (s_types s) ++ map snd (s_dirs s) ++ otolist (s_query s) ++ otolist (s_mut s) ++ otolist (s_sub s)
     ++ flat_map snd (s_impls s) ++ flat_map (fun e => fst e :: snd e) (s_poss s)).

Section Two.
Variables n0 dl : N.

Lemma sgb o : o < n0 -> sg n0 dl o = o.
Proof. intros H. unfold sg. destruct (N.ltb_spec o n0) as [_|Hge]; [reflexivity|]. exfalso. apply (N.lt_irrefl o). eapply N.lt_le_trans; eauto. Qed.
Lemma map_sg_id l : Forall (fun x => x < n0) l -> map (sg n0 dl) l = l.
Proof. induction 1 as [|x l Hx Hl IH]; simpl; [reflexivity|]. rewrite IH, (sgb x Hx). reflexivity. Qed.
Lemma rmap_id r : unwrap r < n0 -> rmap n0 dl r = r.
Proof. induction r; simpl; intros H; [rewrite (sgb o H)|rewrite IHr by exact H|rewrite IHr by exact H]; reflexivity. Qed.
Lemma objmap_id v : Forall (fun x => x < n0) (oids_of v) -> objmap n0 dl v = v.
Proof.
  destruct v; simpl; intros H.
  - apply Forall_app in H. destruct H as [A B]. rewrite (map_sg_id _ A), (map_sg_id _ B). reflexivity.
  - inversion H; subst. rewrite rmap_id, map_sg_id by assumption. reflexivity.
  - inversion H; subst. rewrite rmap_id by assumption. reflexivity.
  - reflexivity.
  - rewrite map_sg_id by assumption. reflexivity.
Qed.
Lemma regmap_id l : Forall (fun x => x < n0) (map snd l) -> regmap n0 dl l = l.
Proof.
  induction l as [|[k v] l IH]; simpl; intros H; [reflexivity|]. inversion H; subst.
  rewrite (IH H3), (sgb v H2). reflexivity.
Qed.
Lemma omap_id r : Forall (fun x => x < n0) (otolist r) -> omap n0 dl r = r.
Proof. destruct r as [o|]; simpl; intros H; [inversion H; subst; rewrite (sgb o H2)|]; reflexivity. Qed.
Lemma smap_id s : schema_below n0 s -> smap n0 dl s = s.
Proof.
  unfold schema_below. intros H.
  apply Forall_app in H. destruct H as [A H]. apply Forall_app in H. destruct H as [B H].
  apply Forall_app in H. destruct H as [C H]. apply Forall_app in H. destruct H as [D H].
  apply Forall_app in H. destruct H as [E H]. apply Forall_app in H. destruct H as [F G].
  destruct s as [tm dm q mu su im po]. unfold smap. simpl in *.
  rewrite (regmap_id _ A), (regmap_id _ B), (omap_id _ C), (omap_id _ D), (omap_id _ E). f_equal.
  - clear - F. induction im as [|[k l] im IH]; simpl in *; [reflexivity|]. apply Forall_app in F. destruct F as [F1 F2].
    rewrite (map_sg_id _ F1), (IH F2). reflexivity.
  - clear - G. induction po as [|[k l] po IH]; simpl in *; [reflexivity|]. inversion G as [|? ? Gk G']; subst.
    apply Forall_app in G'. destruct G' as [G1 G2]. rewrite (sgb k Gk), (map_sg_id _ G1), (IH G2). reflexivity.
Qed.
End Two.

(* a later heap that kept every cell below the old allocation pointer holds the image of the old heap *)
Lemma later_msim m m' :
  fresh_ok m -> fresh_ok m' -> heap_below m -> m_next m <= m_next m' ->
  (forall o, o < m_next m -> mget m' o = mget m o) ->
  msim (m_next m) (m_next m' - m_next m) m m'.
Proof.
  intros Hf Hf' Hb Hle Hfr. split; [lia|]. split; [lia|]. intros o. unfold sg.
  destruct (N.ltb_spec o (m_next m)) as [Hlt|Hge].
  - rewrite (Hfr o Hlt). destruct (mget m o) as [v|] eqn:Hv; [|reflexivity]. simpl.
    rewrite (objmap_id _ _ v (Hb o v Hv)). reflexivity.
  - rewrite (Hf o Hge). simpl. apply Hf'. lia.
Qed.

(* the observable result of an operation that commutes with relocation does
   not depend on the heap it is run in *)
Theorem transform_relocatable fuel v m m' s ma ra mb rb :
  fresh_ok m -> fresh_ok m' -> heap_below m -> 5 < m_next m -> m_next m <= m_next m' ->
  (forall o, o < m_next m -> mget m' o = mget m o) -> schema_below (m_next m) s ->
  (forall n0 dl, 5 < n0 -> vrel n0 dl v v) ->
  transform fuel v m s = Ok (ma, ra) -> transform fuel v m' s = Ok (mb, rb) ->
  observe mb (touch_poss mb rb) = observe ma (touch_poss ma ra).
Proof.
  intros Hf Hf' Hb H5 Hle Hfr Hs Hv Ha Hbb.
  pose proof (later_msim _ _ Hf Hf' Hb Hle Hfr) as HM.
  destruct (transform_s _ _ H5 _ _ (Hv _ _ H5) _ _ _ _ _ _ HM Ha) as (mb' & Hb' & HM').
  rewrite (smap_id _ _ _ Hs) in Hb'. rewrite Hbb in Hb'. inversion Hb'; subst mb' rb.
  rewrite (touch_poss_s _ _ H5 _ _ _ HM'). apply (observe_s _ _ H5 _ _ _ HM').
Qed.

Theorem clone_relocatable fuel m m' s ma ra mb rb :
  fresh_ok m -> fresh_ok m' -> heap_below m -> 5 < m_next m -> m_next m <= m_next m' ->
  (forall o, o < m_next m -> mget m' o = mget m o) -> schema_below (m_next m) s ->
  clone fuel m s = Ok (ma, ra) -> clone fuel m' s = Ok (mb, rb) ->
  observe mb (touch_poss mb rb) = observe ma (touch_poss ma ra).
Proof.
  intros Hf Hf' Hb H5 Hle Hfr Hs Ha Hbb.
  pose proof (later_msim _ _ Hf Hf' Hb Hle Hfr) as HM.
  destruct (clone_s _ _ H5 _ _ _ _ _ _ HM Ha) as (mb' & Hb' & HM').
  rewrite (smap_id _ _ _ Hs) in Hb'. rewrite Hbb in Hb'. inversion Hb'; subst mb' rb.
  rewrite (touch_poss_s _ _ H5 _ _ _ HM'). apply (observe_s _ _ H5 _ _ _ HM').
Qed.

(* visitors that commute with every relocation *)
Definition relocatable (v : visitor) : Prop := forall n0 dl, 5 < n0 -> vrel n0 dl v v.
Lemma vis_relocatable p : relocatable (vis_visitor p).
Proof. intros n0 dl H. apply vis_visitor_s. exact H. Qed.
Lemma camel_relocatable c : relocatable (camel_visitor c).
Proof. intros n0 dl H. apply camel_visitor_s; exact H. Qed.
