(* collect_fields (Exec/Collect.v) against the specification's CollectFields
   (Spec/ExecSpec.v): ordered grouping, and exact agreement on selections
   without named-fragment spreads. *)
From PyGql Require Import Spec.ExecSpec Proofs.ExecProofs.

(* the grouping the code performs on a flat sequence of field nodes *)
Definition group_into (g : groups) (fs : list selection) : groups :=
  fold_left (fun g f => add_group (field_key f) [f] g) fs g.

Lemma add_group_twice k a b g : add_group k b (add_group k a g) = add_group k (a ++ b) g.
Proof.
  induction g as [|[k' fs'] g IH]; simpl.
  - rewrite str_eqb_refl. reflexivity.
  - destruct (str_eqb k k') eqn:E; simpl; rewrite E.
    + rewrite <- app_assoc. reflexivity.
    + rewrite IH. reflexivity.
Qed.

Lemma add_group_key_in k a g : In k (keys (add_group k a g)).
Proof.
  induction g as [|[k' fs'] g IH]; simpl; [left; reflexivity|].
  destruct (str_eqb_spec k k') as [->|Hn]; simpl; auto.
Qed.

Lemma add_group_keys_mono k k' a g : In k (keys g) -> In k (keys (add_group k' a g)).
Proof.
  intros H. destruct (in_dec str_eq_dec k' (keys g)) as [Hi|Hn].
  - rewrite add_group_keys_in; assumption.
  - rewrite add_group_keys_notin by assumption. apply in_or_app; left; assumption.
Qed.

Lemma add_group_comm k k' a b g :
  In k (keys g) -> k <> k' ->
  add_group k' b (add_group k a g) = add_group k a (add_group k' b g).
Proof.
  induction g as [|[k0 fs0] g IH]; simpl; [tauto|]. intros Hin Hne.
  destruct (str_eqb_spec k k0) as [->|Hn0]; simpl.
  - destruct (str_eqb_spec k' k0) as [->|Hn1]; [congruence|]. simpl. rewrite str_eqb_refl. reflexivity.
  - destruct Hin as [H|Hin]; [congruence|].
    destruct (str_eqb_spec k' k0) as [->|Hn1]; simpl.
    + destruct (str_eqb_spec k k0); [congruence|]. reflexivity.
    + destruct (str_eqb_spec k k0); [congruence|]. rewrite IH; auto.
Qed.

Lemma merge_cons k ns G g : merge_groups ((k, ns) :: G) g = merge_groups G (add_group k ns g).
Proof. reflexivity. Qed.

Lemma merge_add_in : forall G h k ns,
  In k (keys h) -> ~ In k (keys G) ->
  merge_groups G (add_group k ns h) = add_group k ns (merge_groups G h).
Proof.
  induction G as [|[k' ns'] G IH]; intros h k ns Hin Hnot; [reflexivity|].
  rewrite !merge_cons. simpl in Hnot.
  rewrite add_group_comm; [|assumption|intros ->; apply Hnot; left; reflexivity].
  apply IH; [apply add_group_keys_mono; assumption|tauto].
Qed.

Lemma merge_add : forall G g k ns,
  NoDup (keys G) -> merge_groups (add_group k ns G) g = add_group k ns (merge_groups G g).
Proof.
  induction G as [|[k' ns'] G IH]; intros g k ns Hnd; [reflexivity|].
  inversion Hnd as [|? ? Hnotin Hnd']; subst. simpl add_group.
  destruct (str_eqb_spec k k') as [->|Hn].
  - rewrite !merge_cons. rewrite <- add_group_twice.
    apply merge_add_in; [apply add_group_key_in|exact Hnotin].
  - rewrite !merge_cons. apply IH. exact Hnd'.
Qed.

Lemma group_into_snoc g fs f :
  group_into g (fs ++ [f]) = add_group (field_key f) [f] (group_into g fs).
Proof. unfold group_into. rewrite fold_left_app. reflexivity. Qed.

Lemma group_into_app g fs1 fs2 : group_into g (fs1 ++ fs2) = group_into (group_into g fs1) fs2.
Proof. unfold group_into. apply fold_left_app. Qed.

Lemma group_into_NoDup fs : forall g, NoDup (keys g) -> NoDup (keys (group_into g fs)).
Proof.
  induction fs as [|f fs IH]; intros g H; simpl; [exact H|]. apply IH. apply add_group_NoDup. exact H.
Qed.

Lemma merge_group_into fs : forall g, merge_groups (group_into [] fs) g = group_into g fs.
Proof.
  induction fs as [|f fs IH] using rev_ind; intros g; [reflexivity|].
  rewrite !group_into_snoc. rewrite merge_add; [|apply group_into_NoDup; constructor].
  rewrite IH. reflexivity.
Qed.

(* ---- first occurrence order *)
Lemma first_occ_In k ks : In k (first_occ ks) <-> In k ks.
Proof.
  induction ks as [|a ks IH]; simpl; [tauto|].
  rewrite filter_In, IH. destruct (str_eqb_spec k a) as [->|Hn]; simpl.
  - split; auto.
  - split; [intros [H|[H _]]; auto|intros [H|H]; [congruence|auto]].
Qed.

Lemma filter_NoDup {A} (p : A -> bool) l : NoDup l -> NoDup (filter p l).
Proof.
  induction 1 as [|x l Hx Hl IH]; simpl; [constructor|].
  destruct (p x); [constructor; [rewrite filter_In; tauto|exact IH]|exact IH].
Qed.

Lemma first_occ_NoDup ks : NoDup (first_occ ks).
Proof.
  induction ks as [|a ks IH]; simpl; constructor.
  - rewrite filter_In. intros [_ H]. rewrite str_eqb_refl in H. discriminate.
  - apply filter_NoDup. exact IH.
Qed.

Lemma first_occ_snoc ks k :
  first_occ (ks ++ [k]) = if in_dec str_eq_dec k ks then first_occ ks else first_occ ks ++ [k].
Proof.
  induction ks as [|a ks IH]; simpl; [reflexivity|].
  rewrite IH. destruct (in_dec str_eq_dec k ks) as [Hi|Hn].
  - destruct (str_eq_dec a k); reflexivity.
  - rewrite filter_app. simpl. destruct (str_eq_dec a k) as [->|Hne].
    + rewrite str_eqb_refl. simpl. rewrite app_nil_r. reflexivity.
    + destruct (str_eqb_spec k a) as [->|_]; [congruence|]. reflexivity.
Qed.

Lemma add_group_notin_eq k fs g : ~ In k (keys g) -> add_group k fs g = g ++ [(k, fs)].
Proof.
  induction g as [|[k' fs'] g IH]; simpl; [reflexivity|].
  destruct (str_eqb_spec k k') as [->|Hn]; [tauto|]. intros H. rewrite IH; auto.
Qed.

Definition key_is (k : str) (f : selection) : bool := str_eqb (field_key f) k.

Lemma spec_groups_unfold fs :
  spec_groups fs = map (fun k => (k, filter (key_is k) fs)) (first_occ (map field_key fs)).
Proof. reflexivity. Qed.

Lemma filter_snoc_key k fs f :
  filter (key_is k) (fs ++ [f]) =
  filter (key_is k) fs ++ (if str_eqb (field_key f) k then [f] else []).
Proof. rewrite filter_app. reflexivity. Qed.

Lemma add_group_present fs f : forall L,
  NoDup L -> In (field_key f) L ->
  add_group (field_key f) [f] (map (fun k => (k, filter (key_is k) fs)) L) =
  map (fun k => (k, filter (key_is k) (fs ++ [f]))) L.
Proof.
  induction L as [|k0 L IH]; intros Hnd Hin; [destruct Hin|].
  inversion Hnd as [|? ? Hnotin Hnd']; subst. simpl. rewrite filter_snoc_key.
  destruct (str_eqb_spec (field_key f) k0) as [E|Hn].
  - f_equal. apply map_ext_in. intros k' Hk'. rewrite filter_snoc_key.
    destruct (str_eqb_spec (field_key f) k') as [E'|_]; [congruence|]. rewrite app_nil_r. reflexivity.
  - destruct Hin as [H|Hin]; [congruence|]. rewrite IH by assumption. rewrite app_nil_r. reflexivity.
Qed.

Lemma filter_none {A} (p : A -> bool) l : (forall x, In x l -> p x = false) -> filter p l = [].
Proof.
  induction l as [|x l IH]; intros H; simpl; [reflexivity|].
  rewrite (H x (or_introl eq_refl)). apply IH. intros y Hy. apply H. right; exact Hy.
Qed.

Lemma group_into_spec fs : group_into [] fs = spec_groups fs.
Proof.
  induction fs as [|f fs IH] using rev_ind; [reflexivity|].
  rewrite group_into_snoc, IH, !spec_groups_unfold, map_app.
  change (map field_key [f]) with [field_key f]. rewrite first_occ_snoc.
  destruct (in_dec str_eq_dec (field_key f) (map field_key fs)) as [Hi|Hn].
  - apply add_group_present; [apply first_occ_NoDup|apply first_occ_In; exact Hi].
  - rewrite add_group_notin_eq.
    + rewrite map_app. simpl. f_equal.
      * apply map_ext_in. intros k Hk. rewrite filter_snoc_key.
        destruct (str_eqb_spec (field_key f) k) as [E|_]; [|rewrite app_nil_r; reflexivity].
        exfalso. apply Hn. apply first_occ_In. rewrite E. exact Hk.
      * rewrite filter_snoc_key, str_eqb_refl.
        rewrite filter_none; [reflexivity|]. intros x Hx. unfold key_is.
        destruct (str_eqb_spec (field_key x) (field_key f)) as [E|_]; [|reflexivity].
        exfalso. apply Hn. rewrite <- E. apply in_map. exact Hx.
    + unfold keys. rewrite map_map. simpl. rewrite map_id. rewrite first_occ_In. exact Hn.
Qed.

Lemma spec_groups_keys fs : keys (spec_groups fs) = first_occ (map field_key fs).
Proof. unfold keys. rewrite spec_groups_unfold, map_map. simpl. apply map_id. Qed.

(* ---- the code's traversal, without named-fragment spreads *)
Section SpreadFree.
  Variable applies : option ty -> bool.
  Variable frags : frag_table.
  Variable vs : vars.
  Variable mc : bool.

  Lemma caller_view_same local : caller_view local local = local.
  Proof. destruct local; reflexivity. Qed.

  Lemma passes_of_skip ds sk : skip_selection ds vs = Ok sk -> passes vs ds = negb sk.
  Proof. unfold passes. intros ->. destruct sk; reflexivity. Qed.

  Lemma collect_into_spread_free : forall fuel ss g local r,
    spread_free ss = true ->
    collect_into applies frags vs mc fuel ss g local = Ok r ->
    exists fs, (forall V, SFlat applies frags vs ss V fs V) /\
               fst r = group_into g fs /\ snd r = local.
  Proof.
    induction fuel as [|fuel IH]; intros ss g local r Hsf H; simpl in H; [discriminate|].
    destruct ss as [|x ss]; [inversion H; subst; exists []; repeat split; constructor|].
    destruct x as [alias n args dirs sl sub l|n dirs l|tc dirs ssl sub l]; simpl in Hsf.
    - apply obind_ok in H as [sk [Hsk H]]. pose proof (passes_of_skip _ _ Hsk) as Hp.
      destruct sk; simpl in Hp.
      + destruct (IH _ _ _ _ Hsf H) as [fs [Hfl [Hg Hl]]]. exists fs. repeat split; try assumption.
        intros V. apply SF_field_skip; [exact Hp|apply Hfl].
      + destruct (IH _ _ _ _ Hsf H) as [fs [Hfl [Hg Hl]]].
        exists (SField alias n args dirs sl sub l :: fs). repeat split; try assumption.
        intros V. apply SF_field; [exact Hp|apply Hfl].
    - discriminate.
    - apply andb_true_iff in Hsf as [Hsub Hss].
      apply obind_ok in H as [sk [Hsk H]]. pose proof (passes_of_skip _ _ Hsk) as Hp.
      destruct (sk || negb (applies tc)) eqn:Ecase.
      + destruct (IH _ _ _ _ Hss H) as [fs [Hfl [Hg Hl]]]. exists fs. repeat split; try assumption.
        intros V. apply SF_inline_skip; [|apply Hfl].
        destruct sk; simpl in *; [left; exact Hp|right]. destruct (applies tc); [discriminate|reflexivity].
      + apply orb_false_iff in Ecase as [-> Eap]. apply negb_false_iff in Eap. simpl in Hp.
        apply obind_ok in H as [r1 [H1 H]].
        destruct (IH _ _ _ _ Hsub H1) as [fs1 [Hfl1 [Hg1 Hl1]]].
        rewrite Hl1, caller_view_same, Hg1, merge_group_into in H.
        destruct (IH _ _ _ _ Hss H) as [fs2 [Hfl2 [Hg2 Hl2]]].
        exists (fs1 ++ fs2). repeat split.
        * intros V. eapply SF_inline; [exact Hp|exact Eap|apply Hfl1|apply Hfl2].
        * rewrite Hg2, group_into_app. reflexivity.
        * exact Hl2.
  Qed.

  Theorem collect_is_spec_collect fuel ss g :
    spread_free ss = true ->
    collect applies frags vs mc fuel ss = Ok g ->
    SCollect applies frags vs ss g.
  Proof.
    intros Hsf H. unfold collect in H. apply obind_ok in H as [r [Hr H]]. inversion H; subst.
    destruct (collect_into_spread_free _ _ _ _ _ Hsf Hr) as [fs [Hfl [Hg _]]].
    exists fs, []. split; [apply Hfl|]. rewrite Hg. apply group_into_spec.
  Qed.

  (* ---- spreads at the top level only *)
  Definition nonapp (n : str) : Prop :=
    alookup n frags = None \/
    exists tc fsels, alookup n frags = Some (tc, fsels) /\ applies (Some tc) = false.

  (* the code's seen set against the specification's visited set *)
  Definition seen_rel (local V : list str) : Prop :=
    (forall n, In n local -> In n V) /\ (forall n, In n V -> In n local \/ nonapp n).

  Lemma collect_into_top_spreads : forall fuel ss g local V r,
    top_spreads frags ss = true -> seen_rel local V ->
    collect_into applies frags vs mc fuel ss g local = Ok r ->
    exists fs V', SFlat applies frags vs ss V fs V' /\
                  fst r = group_into g fs /\ seen_rel (snd r) V'.
  Proof.
    induction fuel as [|fuel IH]; intros ss g local V r Hts Hrel H; simpl in H; [discriminate|].
    destruct ss as [|x ss].
    { inversion H; subst. exists [], V. split; [apply SF_nil|]. split; [reflexivity|exact Hrel]. }
    simpl in Hts. apply andb_true_iff in Hts as [Hx Hss].
    destruct x as [alias n args dirs sl sub l|n dirs l|tc dirs ssl sub l].
    - apply obind_ok in H as [sk [Hsk H]]. pose proof (passes_of_skip _ _ Hsk) as Hp.
      destruct sk; simpl in Hp.
      + destruct (IH _ _ _ _ _ Hss Hrel H) as [fs [V' [Hfl [Hg Hl]]]]. exists fs, V'. (split; [|split; [exact Hg|exact Hl]]).
        apply SF_field_skip; assumption.
      + destruct (IH _ _ _ _ _ Hss Hrel H) as [fs [V' [Hfl [Hg Hl]]]].
        exists (SField alias n args dirs sl sub l :: fs), V'. (split; [|split; [exact Hg|exact Hl]]).
        apply SF_field; assumption.
    - destruct (alookup (n_val n) frags) as [[tc fsels]|] eqn:Ef.
      + apply obind_ok in H as [sk [Hsk H]]. pose proof (passes_of_skip _ _ Hsk) as Hp.
        destruct (sk || mem_str (n_val n) local || negb (applies (Some tc))) eqn:Ecase.
        * (* the code skips the spread *)
          destruct sk; simpl in Hp.
          { destruct (IH _ _ _ _ _ Hss Hrel H) as [fs [V' [Hfl [Hg Hl]]]]. exists fs, V'. (split; [|split; [exact Hg|exact Hl]]).
            apply SF_spread_skip; [left; exact Hp|exact Hfl]. }
          destruct (in_dec str_eq_dec (n_val n) V) as [Hin|Hnin].
          { destruct (IH _ _ _ _ _ Hss Hrel H) as [fs [V' [Hfl [Hg Hl]]]]. exists fs, V'. (split; [|split; [exact Hg|exact Hl]]).
            apply SF_spread_skip; [right; exact Hin|exact Hfl]. }
          simpl in Ecase. apply orb_true_iff in Ecase as [Em|Ea].
          { exfalso. apply Hnin. apply Hrel. apply mem_str_In. exact Em. }
          apply negb_true_iff in Ea.
          assert (Hrel' : seen_rel local (n_val n :: V)).
          { split; [intros m Hm; right; apply Hrel; exact Hm|].
            intros m [<-|Hm]; [right; right; eauto|apply Hrel; exact Hm]. }
          destruct (IH _ _ _ _ _ Hss Hrel' H) as [fs [V' [Hfl [Hg Hl]]]]. exists fs, V'. (split; [|split; [exact Hg|exact Hl]]).
          apply SF_spread_other; [exact Hp|exact Hnin|right; eauto|exact Hfl].
        * (* the code expands the fragment *)
          apply orb_false_iff in Ecase as [Ecase Ea]. apply orb_false_iff in Ecase as [-> Em].
          apply negb_false_iff in Ea. simpl in Hp.
          assert (Hnl : ~ In (n_val n) local).
          { intros Hi. apply mem_str_In in Hi. congruence. }
          assert (Hnin : ~ In (n_val n) V).
          { intros Hi. destruct (proj2 Hrel _ Hi) as [Hl|[Hna|[tc' [fs' [Hl' Hna]]]]]; [tauto|congruence|].
            rewrite Ef in Hl'. inversion Hl'; subst. congruence. }
          apply obind_ok in H as [r1 [H1 H]].
          destruct (collect_into_spread_free _ _ _ _ _ Hx H1) as [fs1 [Hfl1 [Hg1 Hl1]]].
          rewrite Hl1, caller_view_same, Hg1, merge_group_into in H.
          assert (Hrel' : seen_rel (n_val n :: local) (n_val n :: V)).
          { split; [intros m [<-|Hm]; [left; reflexivity|right; apply Hrel; exact Hm]|].
            intros m [<-|Hm]; [left; left; reflexivity|].
            destruct (proj2 Hrel _ Hm) as [Hl|Hna]; [left; right; exact Hl|right; exact Hna]. }
          destruct (IH _ _ _ _ _ Hss Hrel' H) as [fs2 [V' [Hfl2 [Hg2 Hl2]]]].
          exists (fs1 ++ fs2), V'. split; [|split; [|exact Hl2]].
          -- eapply SF_spread; [exact Hp|exact Hnin|exact Ef|exact Ea|apply Hfl1|exact Hfl2].
          -- rewrite Hg2, group_into_app. reflexivity.
      + destruct mc; [discriminate|]. apply obind_ok in H as [sk [Hsk H]].
        pose proof (passes_of_skip _ _ Hsk) as Hp.
        destruct sk; simpl in Hp.
        { destruct (IH _ _ _ _ _ Hss Hrel H) as [fs [V' [Hfl [Hg Hl]]]]. exists fs, V'. (split; [|split; [exact Hg|exact Hl]]).
          apply SF_spread_skip; [left; exact Hp|exact Hfl]. }
        destruct (in_dec str_eq_dec (n_val n) V) as [Hin|Hnin].
        { destruct (IH _ _ _ _ _ Hss Hrel H) as [fs [V' [Hfl [Hg Hl]]]]. exists fs, V'. (split; [|split; [exact Hg|exact Hl]]).
          apply SF_spread_skip; [right; exact Hin|exact Hfl]. }
        assert (Hrel' : seen_rel local (n_val n :: V)).
        { split; [intros m Hm; right; apply Hrel; exact Hm|].
          intros m [<-|Hm]; [right; left; exact Ef|apply Hrel; exact Hm]. }
        destruct (IH _ _ _ _ _ Hss Hrel' H) as [fs [V' [Hfl [Hg Hl]]]]. exists fs, V'. (split; [|split; [exact Hg|exact Hl]]).
        apply SF_spread_other; [exact Hp|exact Hnin|left; exact Ef|exact Hfl].
    - apply obind_ok in H as [sk [Hsk H]]. pose proof (passes_of_skip _ _ Hsk) as Hp.
      destruct (sk || negb (applies tc)) eqn:Ecase.
      + destruct (IH _ _ _ _ _ Hss Hrel H) as [fs [V' [Hfl [Hg Hl]]]]. exists fs, V'. (split; [|split; [exact Hg|exact Hl]]).
        apply SF_inline_skip; [|exact Hfl].
        destruct sk; simpl in *; [left; exact Hp|right]. destruct (applies tc); [discriminate|reflexivity].
      + apply orb_false_iff in Ecase as [-> Eap]. apply negb_false_iff in Eap. simpl in Hp.
        apply obind_ok in H as [r1 [H1 H]].
        destruct (collect_into_spread_free _ _ _ _ _ Hx H1) as [fs1 [Hfl1 [Hg1 Hl1]]].
        rewrite Hl1, caller_view_same, Hg1, merge_group_into in H.
        destruct (IH _ _ _ _ _ Hss Hrel H) as [fs2 [V' [Hfl2 [Hg2 Hl2]]]].
        exists (fs1 ++ fs2), V'. split; [|split; [|exact Hl2]].
        * eapply SF_inline; [exact Hp|exact Eap|apply Hfl1|exact Hfl2].
        * rewrite Hg2, group_into_app. reflexivity.
  Qed.

  Theorem collect_is_spec_collect_top fuel ss g :
    top_spreads frags ss = true ->
    collect applies frags vs mc fuel ss = Ok g ->
    SCollect applies frags vs ss g.
  Proof.
    intros Hts H. unfold collect in H. apply obind_ok in H as [r [Hr H]]. inversion H; subst.
    assert (Hrel : seen_rel [] []) by (split; intros n []).
    destruct (collect_into_top_spreads _ _ _ _ _ _ Hts Hrel Hr) as [fs [V' [Hfl [Hg _]]]].
    exists fs, V'. split; [exact Hfl|]. rewrite Hg. apply group_into_spec.
  Qed.
End SpreadFree.
