(* VariablesInAllowedPosition against its declarative form. *)
From PyGql Require Import Valid.ValidOverlap Spec.ValidSpec Spec.ValidLocalSpec Spec.ValidValueSpec Spec.ValidTypedSpec
     Proofs.ValidCloseProofs Proofs.ValidGraphProofs Proofs.ValidVarProofs Proofs.ValidPermProofs
     Proofs.ValidStaticProofs Proofs.ValidUniqueProofs Proofs.ValidLocalProofs.
From Coq Require Import Lia.

Lemma pos_item_eq s ity : pos_item s ity = item_type s ity.
Proof. destruct ity as [t|]; [|reflexivity]. unfold pos_item, item_type, in_filter, pos_filter. destruct (nullable t); reflexivity. Qed.
Lemma pos_field_eq s ity f : pos_field s ity f = obj_field_slot s ity f.
Proof. reflexivity. Qed.

Lemma var_at_none s ity hd v x it' hd' : var_at s ity hd v x it' hd' -> ity = None -> it' = None.
Proof.
  induction 1 as [ity hd n l|ity hd vs l y x it' hd' Hy Hv IH|ity hd fs l n y fl x it' hd' Hy Hv IH]; intros E; subst.
  - reflexivity.
  - apply IH. reflexivity.
  - apply IH. reflexivity.
Qed.

Lemma value_usages_at s : forall v ity hd x it' hd',
  (exists l, In (Usage x l it' hd') (value_usages s ity hd v)) <-> var_at s ity hd v x it' hd'.
Proof.
  induction v as [n l|y l|y l|y b l|b l|l|y l|vs l IH|fs l IH] using value_ind'; intros ity hd x it' hd';
    try (simpl; split; [intros [l0 []]|intros H; inversion H]; fail).
  - simpl. split.
    + intros [l0 [E|[]]]. inversion E; subst. constructor.
    + intros H. inversion H; subst. exists l. left. reflexivity.
  - simpl. rewrite (go_is_flat_map (value_usages s (item_type s ity) false) vs). rewrite Forall_forall in IH. split.
    + intros [l0 Hin]. apply in_flat_map in Hin. destruct Hin as [y [Hy Hin]].
      eapply va_list; [exact Hy|]. rewrite pos_item_eq. apply (IH y Hy). eauto.
    + intros H. inversion H; subst. rewrite pos_item_eq in *.
      match goal with Hy : In ?y vs, Hv : var_at _ _ _ ?y _ _ _ |- _ => apply (IH y Hy) in Hv; destruct Hv as [l0 Hin];
        exists l0; apply in_flat_map; eauto end.
  - rewrite value_usages_obj. rewrite Forall_forall in IH. split.
    + intros [l0 Hin]. apply in_flat_map in Hin. destruct Hin as [[[n y] fl] [Hy Hin]]. simpl in Hin.
      eapply va_obj; [exact Hy|]. rewrite pos_field_eq. apply (IH _ Hy). eauto.
    + intros H. inversion H; subst.
      match goal with Hy : In (?n, ?y, ?fl) fs, Hv : var_at _ _ _ ?y _ _ _ |- _ =>
        rewrite pos_field_eq in Hv; apply (IH _ Hy) in Hv; destruct Hv as [l0 Hin];
        exists l0; apply in_flat_map; exists (n, y, fl); split; [exact Hy|exact Hin] end.
Qed.

Definition usages_of (s : schema) (tv : list (option tref * bool * value)) : list usage :=
  flat_map (fun p => value_usages s (fst (fst p)) (snd (fst p)) (snd p)) tv.

Lemma typed_args_at s defs args x it hd :
  (exists l, In (Usage x l (Some it) hd) (usages_of s (typed_args s (Some defs) args))) <-> args_var_at s defs args x it hd.
Proof.
  unfold usages_of, typed_args, args_var_at. split.
  - intros [l Hin]. apply in_flat_map in Hin. destruct Hin as [p [Hp Hin]].
    apply in_map_iff in Hp. destruct Hp as [a [<- Ha]]. simpl in Hin.
    destruct (find_arg (n_val (a_name a)) defs) as [ad|] eqn:Hf; simpl in Hin.
    + exists a, ad. split; [exact Ha|]. split; [exact Hf|]. apply value_usages_at. exists l. exact Hin.
    + exfalso. assert (Hv : var_at s None false (a_val a) x (Some it) hd) by (apply value_usages_at; eauto).
      pose proof (var_at_none _ _ _ _ _ _ _ Hv eq_refl). discriminate.
  - intros (a & ad & Ha & Hf & Hv). apply value_usages_at in Hv. destruct Hv as [l Hin]. exists l.
    apply in_flat_map. eexists. split; [apply in_map; exact Ha|]. simpl. rewrite Hf. simpl. exact Hin.
Qed.

Lemma typed_args_none_at s args x l it hd : ~ In (Usage x l (Some it) hd) (usages_of s (typed_args s None args)).
Proof.
  unfold usages_of, typed_args. intros Hin. apply in_flat_map in Hin. destruct Hin as [p [Hp Hin]].
  apply in_map_iff in Hp. destruct Hp as [a [<- Ha]]. simpl in Hin.
  assert (Hv : var_at s None false (a_val a) x (Some it) hd) by (apply value_usages_at; eauto).
  pose proof (var_at_none _ _ _ _ _ _ _ Hv eq_refl). discriminate.
Qed.

Lemma ev_usages_of s e : ev_usages s e = usages_of s (typed_values_ev s e).
Proof. reflexivity. Qed.

Section Def.
  Variables (s : schema) (df : definition).
  Hypothesis Hknown : forall dr, directive_in s df dr -> exists dd, alookup (n_val (d_name dr)) (s_dirs s) = Some dd.

  Lemma dir_event_at w cf dr x l it hd :
    directive_in s df dr -> In (Usage x l (Some it) hd) (ev_usages s (EDirective w cf dr)) ->
    exists dd, alookup (n_val (d_name dr)) (s_dirs s) = Some dd /\ args_var_at s (sd_args dd) (d_args dr) x it hd.
  Proof.
    intros Hd Hin. destruct (Hknown dr Hd) as [dd E]. exists dd. split; [exact E|].
    rewrite ev_usages_of in Hin. simpl in Hin. unfold dir_arg_ctx in Hin. rewrite E in Hin.
    apply typed_args_at. eauto.
  Qed.

  Lemma def_usages_at x it hd :
    (exists l, In (Usage x l (Some it) hd) (def_usages s df)) <-> def_var_at s df x it hd.
  Proof.
    unfold def_usages. split.
    - intros [l Hin]. apply in_flat_map in Hin. destruct Hin as [e [He Hin]].
      destruct (def_events_inv s df e He) as [(dr & w & Hdr & Hw & ->)|[[l0 ->]|(x0 & q & z & ty' & cf' & Hx & Hdesc & Hq & Hne)]].
      + right. assert (Hd : directive_in s df dr) by (right; exact Hdr).
        destruct (dir_event_at _ _ _ _ _ _ _ Hd Hin) as [dd H]. exists dr, dd. tauto.
      + destruct Hin.
      + assert (Hr : reaches_in s df q z) by (exists x0; tauto).
        destruct z as [a n args dirs sl sub l1|n dirs l1|tc dirs ssl sub l1]; simpl in Hne.
        * destruct Hne as [<-|Hne].
          -- rewrite ev_usages_of in Hin. simpl in Hin. left.
             destruct q as [p|]; [|exfalso; eapply typed_args_none_at; exact Hin]. simpl in Hin.
             destruct (get_field_def s p (n_val n)) as [f|] eqn:E; [|exfalso; eapply typed_args_none_at; exact Hin].
             exists p, a, n, args, dirs, sl, sub, l1, f. split; [exact Hr|]. split; [exact E|]. apply typed_args_at. eauto.
          -- apply in_app_or in Hne. destruct Hne as [Hne|Hne].
             ++ apply in_map_iff in Hne. destruct Hne as [dr [<- Hdr]]. right.
                assert (Hd : directive_in s df dr) by (left; exists q, (SField a n args dirs sl sub l1); simpl; tauto).
                destruct (dir_event_at _ _ _ _ _ _ _ Hd Hin) as [dd H]. exists dr, dd. tauto.
             ++ destruct sl; [destruct Hne as [<-|[]]; destruct Hin|destruct Hne].
        * destruct Hne as [<-|Hne]; [destruct Hin|].
          apply in_map_iff in Hne. destruct Hne as [dr [<- Hdr]]. right.
          assert (Hd : directive_in s df dr) by (left; exists q, (SSpread n dirs l1); simpl; tauto).
          destruct (dir_event_at _ _ _ _ _ _ _ Hd Hin) as [dd H]. exists dr, dd. tauto.
        * destruct Hne as [<-|Hne]; [destruct Hin|].
          apply in_app_or in Hne. destruct Hne as [Hne|Hne].
          -- apply in_map_iff in Hne. destruct Hne as [dr [<- Hdr]]. right.
             assert (Hd : directive_in s df dr) by (left; exists q, (SInline tc dirs ssl sub l1); simpl; tauto).
             destruct (dir_event_at _ _ _ _ _ _ _ Hd Hin) as [dd H]. exists dr, dd. tauto.
          -- destruct Hne as [<-|[]]. destruct Hin.
    - assert (Hnode : forall q z, reaches_in s df q z -> exists ty' cf', forall e, In e (node_events s ty' q cf' z) -> In e (def_events s df)).
      { intros q z [x0 [Hx Hd]]. destruct (def_events_sels s df x0 Hx) as [ty_ [Hp Hin]].
        destruct (descends_events _ _ _ _ _ Hd ty_ None Hp) as [ty' [cf' [Hq Hin']]].
        exists ty', cf'. intros e He. apply Hin. apply Hin'. apply node_events_incl. exact He. }
      intros [(p & a & n & args & dirs & sl & sub & l1 & f & Hr & E & Ha)|(dr & dd & Hd & E & Ha)].
      + destruct (Hnode _ _ Hr) as (ty' & cf' & Hn). apply typed_args_at in Ha. destruct Ha as [l Hin]. exists l.
        apply in_flat_map. exists (EField (Some p) (Some f) a n args dirs sl l1). split.
        * apply Hn. simpl. rewrite E. left. reflexivity.
        * rewrite ev_usages_of. simpl. exact Hin.
      + apply typed_args_at in Ha. destruct Ha as [l Hin]. exists l.
        destruct Hd as [(q & z & Hr & Hdr)|Hdr].
        * destruct (Hnode _ _ Hr) as (ty' & cf' & Hn).
          assert (Hev : exists w cf, In (EDirective w cf dr) (def_events s df)).
          { destruct z as [a n args dirs sl sub l1|n dirs l1|tc dirs ssl sub l1]; simpl in Hdr.
            - eexists; eexists. apply Hn. simpl. right. apply in_or_app. left. apply in_map. exact Hdr.
            - eexists; eexists. apply Hn. simpl. right. apply in_map. exact Hdr.
            - eexists; eexists. apply Hn. simpl. right. apply in_or_app. left. apply in_map. exact Hdr. }
          destruct Hev as (w & cf & Hev). apply in_flat_map. exists (EDirective w cf dr). split; [exact Hev|].
          rewrite ev_usages_of. simpl. unfold dir_arg_ctx. rewrite E. exact Hin.
        * assert (Hloc : exists w, def_location df = Some w).
          { destruct df; simpl in Hdr; try destruct Hdr; [destruct k|]; eexists; reflexivity. }
          destruct Hloc as [w Hw]. apply in_flat_map. exists (EDirective w None dr).
          split; [apply def_dir_event; assumption|]. rewrite ev_usages_of. simpl. unfold dir_arg_ctx. rewrite E. exact Hin.
  Qed.
End Def.

(* ---- the rule ---- *)
Lemma last_vardef_spec vds x :
  NoDup (map (fun vd => n_val (vd_var vd)) vds) ->
  forall vd, (last_vardef vds x = Some vd <-> In vd vds /\ n_val (vd_var vd) = x).
Proof.
  induction vds as [|a vds IH]; simpl; intros Hnd vd.
  - split; [discriminate|intros [[] _]].
  - inversion Hnd as [|y ys Hnot Hnd']; subst. specialize (IH Hnd').
    destruct (last_vardef vds x) as [r|] eqn:El.
    + assert (Hr : In r vds /\ n_val (vd_var r) = x) by (apply (IH r); reflexivity).
      split.
      * intros E. inversion E; subst. tauto.
      * intros [[->|Hin] Hx].
        -- exfalso. apply Hnot. apply in_map_iff. exists r. split; [|tauto]. destruct Hr as [_ Hr]. congruence.
        -- apply (IH vd). tauto.
    + unfold vd_name. destruct (str_eqb_spec (n_val (vd_var a)) x) as [Hx|Hx].
      * split; [intros E; inversion E; subst; tauto|].
        intros [[->|Hin] Hx']; [reflexivity|]. assert (E : None = Some vd) by (apply (IH vd); tauto). discriminate.
      * split; [discriminate|]. intros [[->|Hin] Hx']; [contradiction|].
        assert (E : None = Some vd) by (apply (IH vd); tauto). discriminate.
Qed.

Lemma bad_position_spec s vd u :
  bad_position s vd u = false <-> (forall it, u_type u = Some it -> usage_allowed s vd it (u_default u)).
Proof.
  unfold bad_position, usage_allowed. destruct (u_type u) as [it|]; [|split; [intros _ it E; discriminate|reflexivity]].
  destruct (type_from_ast s (vd_type vd)) as [vt|]; [|split; [intros _ it' E; exact I|reflexivity]].
  change (is_nonnull it) with (is_nn it). change (is_nonnull vt) with (is_nn vt).
  assert (Hd : match vd_default vd with Some (VNull _) => false | Some _ => true | None => false end = nonnull_default vd)
    by reflexivity. rewrite Hd.
  split.
  - intros H it' E. inversion E; subst it'. destruct (is_nn it && negb (is_nn vt)).
    + apply Bool.orb_false_iff in H. destruct H as [H1 H2]. apply Bool.negb_false_iff in H2. split; [|exact H2].
      destruct (nonnull_default vd); [left; reflexivity|]. destruct (u_default u); [right; reflexivity|discriminate].
    + apply Bool.negb_false_iff in H. exact H.
  - intros H. specialize (H it eq_refl). destruct (is_nn it && negb (is_nn vt)).
    + destruct H as [[H1|H1] H2]; rewrite H1, H2; simpl; try reflexivity. destruct (nonnull_default vd); reflexivity.
    + rewrite H. reflexivity.
Qed.

Lemma usage_eta u : u = Usage (u_name u) (u_loc u) (u_type u) (u_default u).
Proof. destruct u; reflexivity. Qed.

Theorem r24_equiv s d :
  NoDup (op_key_list d) -> spec_unique_variable_names d -> spec_known_directives s d ->
  (r24_variables_in_allowed_position s d = Ok [] <-> spec_variables_in_allowed_position s d).
Proof.
  intros Hnd Huv Hkd.
  assert (Hknown : forall df, In df (doc_defs d) -> forall dr, directive_in s df dr ->
                     exists dd, alookup (n_val (d_name dr)) (s_dirs s) = Some dd).
  { intros df Hdf dr [(q & z & [x [Hx Hd]] & Hdr)|Hdr].
    - destruct (Hkd (node_location z) dr) as [dd [E _]]; [|eauto]. left. exists q, z. split; [exists df, x; tauto|tauto].
    - assert (Hloc : exists w, def_location df = Some w).
      { destruct df; simpl in Hdr; try destruct Hdr; [destruct k|]; eexists; reflexivity. }
      destruct Hloc as [w Hw]. destruct (Hkd w dr) as [dd [E _]]; [|eauto]. right. exists df. tauto. }
  split.
  - intros H op x it hd vd Hin Hisop Hat Hvd Hx.
    destruct (op_key_operation op Hisop) as [k Hk].
    destruct (ocat_inv _ _ _ H) as [H1 _].
    destruct (H1 k) as [rx [Hfx Hincl]]; [apply op_keys_In; eauto|].
    destruct (op_closure s d k) as [fr| | |] eqn:Hc; simpl in Hfx; try discriminate.
    inversion Hfx as [Hrx]. clear Hfx.
    assert (Hu : defs_with_key d k = [op]) by (apply defs_with_key_unique; assumption).
    assert (Hnil : rx = []) by (destruct rx as [|v rx]; [reflexivity|destruct (Hincl v (or_introl eq_refl))]).
    rewrite Hnil in Hrx. rewrite flat_map_nil_iff in Hrx.
    assert (Hu_in : exists l, In (Usage x l (Some it) hd) (op_usages s d k ++ flat_map (frag_usages s d) fr)).
    { destruct Hat as [Hd|(f & df & Hr & Hdf & Hn & Hd)].
      - apply (def_usages_at s op (Hknown op Hin)) in Hd. destruct Hd as [l Hl]. exists l.
        apply in_or_app. left. rewrite (op_usages_one s d k op Hu). exact Hl.
      - apply (def_usages_at s df (Hknown df Hdf)) in Hd. destruct Hd as [l Hl]. exists l.
        apply in_or_app. right. apply in_flat_map. exists f. split.
        + apply (reach_to_closure s d k op fr Hu Hc); [exact Hr|]. apply frag_names_In. exists df. tauto.
        + apply frag_usages_In. exists df. split; [exact Hdf|]. split; [apply frag_name_named; exact Hn|exact Hl]. }
    destruct Hu_in as [l Hl]. specialize (Hrx _ Hl). simpl in Hrx.
    rewrite (op_defined_one d k op Hu) in Hrx.
    assert (Hlv : last_vardef (op_vardefs op) x = Some vd).
    { assert (Hn0 : NoDup (map (fun vd => n_val (vd_var vd)) (op_vardefs op))) by (specialize (Huv op Hin); destruct op; exact Huv).
      apply (last_vardef_spec _ x Hn0 vd). split; [destruct op; exact Hvd|exact Hx]. }
    rewrite Hlv in Hrx. destruct (bad_position s vd (Usage x l (Some it) hd)) eqn:Hb; [discriminate|].
    apply (proj1 (bad_position_spec s vd _) Hb it). reflexivity.
  - intros Hspec. destruct (r24_ok s d) as [l Hl]. rewrite Hl. f_equal.
    apply (ocat_nil_iff _ _ _ Hl). intros k rx Hk Hfx.
    apply op_keys_In in Hk. destruct Hk as [op [Hin Hk]].
    destruct (op_key_is_op _ _ Hk) as [_ Hisop].
    assert (Hu : defs_with_key d k = [op]) by (apply defs_with_key_unique; assumption).
    destruct (op_closure s d k) as [fr| | |] eqn:Hc; simpl in Hfx; try discriminate.
    inversion Hfx as [Hrx]. apply flat_map_nil_iff. intros u Hu_in.
    rewrite (op_defined_one d k op Hu).
    destruct (last_vardef (op_vardefs op) (u_name u)) as [vd|] eqn:Hlv; [|reflexivity].
    assert (Hvd : In vd (op_vardefs op) /\ n_val (vd_var vd) = u_name u).
    { assert (Hn0 : NoDup (map (fun vd => n_val (vd_var vd)) (op_vardefs op))) by (specialize (Huv op Hin); destruct op; exact Huv).
      apply (last_vardef_spec _ (u_name u) Hn0 vd). exact Hlv. }
    assert (Hb : bad_position s vd u = false); [|rewrite Hb; reflexivity].
    apply bad_position_spec. intros it Hit.
    apply (Hspec op (u_name u) it (u_default u) vd Hin Hisop); [|destruct op; tauto|tauto].
    rewrite (usage_eta u) in Hu_in. rewrite Hit in Hu_in.
    apply in_app_or in Hu_in. destruct Hu_in as [Hu1|Hu2].
    + left. rewrite (op_usages_one s d k op Hu) in Hu1. apply (def_usages_at s op (Hknown op Hin)). eauto.
    + right. apply in_flat_map in Hu2. destruct Hu2 as [f [Hf Hu2]]. apply frag_usages_In in Hu2.
      destruct Hu2 as [df [Hdf [Hn Hu2]]]. exists f, df.
      split; [apply (closure_to_reach s d k op fr Hu Hc); exact Hf|]. split; [exact Hdf|].
      split; [apply frag_name_named; exact Hn|]. apply (def_usages_at s df (Hknown df Hdf)). eauto.
Qed.
