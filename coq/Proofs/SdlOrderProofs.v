(* C11_order: the declared schema does not depend on the order of the
   definitions (extensions of one target keep their relative order). *)
From PyGql Require Import Schema.SdlBuild Spec.SdlSpec Proofs.SdlProofs Proofs.SdlExactProofs.
From Coq Require Import Lia Sorting.Permutation.

Lemma has_dup_NoDup l : has_dup l = false <-> NoDup l.
Proof.
  induction l as [|x l IH]; simpl; split; intros H.
  - constructor.
  - reflexivity.
  - apply Bool.orb_false_iff in H; destruct H as [Hm Hd]. constructor; [|apply IH; exact Hd].
    intros Hin. apply mem_str_In in Hin. congruence.
  - inversion H; subst. apply Bool.orb_false_iff; split; [|apply IH; assumption].
    destruct (mem_str x l) eqn:Hm; [|reflexivity]. apply mem_str_In in Hm. contradiction.
Qed.

Lemma alookup_perm {A} (l l' : list (str * A)) :
  Permutation l l' -> NoDup (map fst l) -> forall x, alookup x l = alookup x l'.
Proof.
  induction 1 as [|[k v] l l' Hp IH|[k1 v1] [k2 v2] l|l l' l'' H1 IH1 H2 IH2]; intros Hn x.
  - reflexivity.
  - cbn [alookup]. cbn [map fst] in Hn. apply NoDup_cons_iff in Hn. destruct Hn as [_ Hn'].
    rewrite (IH Hn'). reflexivity.
  - cbn [alookup]. cbn [map fst] in Hn. apply NoDup_cons_iff in Hn. destruct Hn as [Hnot _].
    destruct (str_eqb_spec x k1) as [E1|N1], (str_eqb_spec x k2) as [E2|N2]; try reflexivity.
    exfalso; apply Hnot; left; congruence.
  - rewrite (IH1 Hn). apply IH2. eapply Permutation_NoDup; [apply Permutation_map; exact H1|exact Hn].
Qed.

Lemma Permutation_filter {A} (p : A -> bool) l l' :
  Permutation l l' -> Permutation (filter p l) (filter p l').
Proof.
  induction 1 as [|x l l' Hp IH|x y l|l l' l'' H1 IH1 H2 IH2]; cbn [filter].
  - constructor.
  - destruct (p x); [constructor|]; exact IH.
  - destruct (p x), (p y); try apply perm_swap; apply Permutation_refl.
  - eapply Permutation_trans; eassumption.
Qed.

Lemma obind_ext {A B} (x x' : outcome A) (f f' : A -> outcome B) :
  x = x' -> (forall a, f a = f' a) -> obind x f = obind x' f'.
Proof. intros -> H. destruct x'; simpl; auto. Qed.

Lemma coerce_ext fuel : forall eager E E',
  (forall n, alookup n E = alookup n E') ->
  forall stack t v, coerce fuel eager E stack t v = coerce fuel eager E' stack t v.
Proof.
  induction fuel as [|f IH]; intros eager E E' He stack t v; [reflexivity|].
  assert (IH' : forall stack t v, coerce f eager E stack t v = coerce f eager E' stack t v)
    by (intros; apply IH; exact He).
  cbn [coerce].
  destruct v; try reflexivity; destruct t; try reflexivity; try apply IH';
    try (rewrite (omap_ext _ _ _ (IH' stack t)); reflexivity);
    try (rewrite IH'; reflexivity);
    try (rewrite He; reflexivity).
  (* object literal at a named type *)
  rewrite He. destruct (mem_str n specified_scalars); [reflexivity|].
  destruct (alookup n E') as [[| vals | fs' |]|]; try reflexivity.
  destruct (eager && mem_str n stack); [reflexivity|].
  apply obind_ext.
  - apply omap_ext. intros fd. destruct (if_def fd); try reflexivity.
    destruct eager; [rewrite IH'; reflexivity|reflexivity].
  - intros forced. apply obind_ext; [|intros; reflexivity].
    apply omap_ext. intros [fd d]. destruct (obj_lookup (if_name fd) fs); [rewrite IH'; reflexivity|].
    destruct d; [reflexivity|]. destruct (if_def fd); try reflexivity. rewrite IH'; reflexivity.
Qed.

Lemma merged_ext ds ds' d : (forall n, exts_for n ds = exts_for n ds') -> merged ds d = merged ds' d.
Proof. intros H. unfold merged. destruct (typedef_name d) as [n|]; [rewrite (H n)|]; reflexivity. Qed.

Lemma decl_ivalue_ext E E' iv :
  (forall n, alookup n E = alookup n E') -> decl_ivalue E iv = decl_ivalue E' iv.
Proof.
  intros H. unfold decl_ivalue, decl_default. destruct (iv_default iv); [|reflexivity].
  rewrite (coerce_ext spec_fuel false E E' H). reflexivity.
Qed.

Lemma decl_field_ext E E' fd :
  (forall n, alookup n E = alookup n E') -> decl_field E fd = decl_field E' fd.
Proof.
  intros H. unfold decl_field. rewrite (map_ext _ _ (fun iv => decl_ivalue_ext E E' iv H)); reflexivity.
Qed.

Lemma decl_type_ext E E' d :
  (forall n, alookup n E = alookup n E') -> decl_type E d = decl_type E' d.
Proof.
  intros H. destruct d; cbn [decl_type]; try reflexivity.
  - rewrite (map_ext _ _ (fun fd => decl_field_ext E E' fd H)); reflexivity.
  - rewrite (map_ext _ _ (fun fd => decl_field_ext E E' fd H)); reflexivity.
  - rewrite (map_ext _ _ (fun iv => decl_ivalue_ext E E' iv H)); reflexivity.
Qed.

Lemma decl_directive_ext E E' d :
  (forall n, alookup n E = alookup n E') -> decl_directive E d = decl_directive E' d.
Proof.
  intros H. destruct d; cbn [decl_directive]; try reflexivity.
  rewrite (map_ext _ _ (fun iv => decl_ivalue_ext E E' iv H)); reflexivity.
Qed.

Lemma flat_map_ext_all {A B} (f g : A -> list B) l : (forall x, f x = g x) -> flat_map f l = flat_map g l.
Proof. intros H; induction l as [|x l IH]; [reflexivity|]. cbn [flat_map]. rewrite H, IH; reflexivity. Qed.

Lemma env_keys tds : map fst (env_of [] tds) = tnames tds.
Proof.
  unfold env_of, tnames; cbn [map app]. induction tds as [|d l IH]; [reflexivity|].
  cbn [flat_map]. destruct (typedef_name d); cbn [app map fst]; rewrite ?map_app, IH; reflexivity.
Qed.

Lemma tnames_merged ds l : tnames (map (merged ds) l) = tnames l.
Proof.
  unfold tnames. induction l as [|d l IH]; [reflexivity|]. cbn [map flat_map].
  rewrite merged_name, IH. reflexivity.
Qed.

Lemma find_filter {A} (p : A -> bool) l : find p l = hd_error (filter p l).
Proof. induction l as [|x l IH]; [reflexivity|]. cbn [find filter]. destruct (p x); [reflexivity|exact IH]. Qed.

Lemma find_type_alookup n l : find_type n l = alookup n (map (fun t => (tdef_name t, t)) l).
Proof. induction l as [|t l IH]; [reflexivity|]. cbn [find_type map alookup]. rewrite IH. reflexivity. Qed.

Lemma find_type_perm l l' n :
  Permutation l l' -> NoDup (map tdef_name l) -> find_type n l = find_type n l'.
Proof.
  intros Hp Hn. rewrite !find_type_alookup. apply alookup_perm.
  - apply Permutation_map; exact Hp.
  - rewrite map_map. exact Hn.
Qed.

Theorem declared_order doc doc' :
  Permutation (doc_defs doc) (doc_defs doc') ->
  (forall n, exts_for n (doc_defs doc) = exts_for n (doc_defs doc')) ->
  schema_exts (doc_defs doc) = schema_exts (doc_defs doc') ->
  r_unique_types doc = true -> r_unique_directives doc = true -> r_one_schema doc = true ->
  schema_equiv (declared doc) (declared doc') = true.
Proof.
  intros Hp Hx Hsx Rt Rd Rs.
  set (ds := doc_defs doc) in *. set (ds' := doc_defs doc') in *.
  assert (Htds : Permutation (filter is_typedef ds) (filter is_typedef ds')) by (apply Permutation_filter; exact Hp).
  assert (Hdd : Permutation (declared_defs doc) (declared_defs doc')).
  { unfold declared_defs. fold ds ds'.
    rewrite (map_ext (merged ds') (merged ds)) by (intros; symmetry; apply merged_ext; exact Hx).
    apply Permutation_map; exact Htds. }
  assert (Hnd : NoDup (tnames ds)).
  { apply has_dup_NoDup. unfold r_unique_types in Rt. apply Bool.negb_true_iff in Rt. exact Rt. }
  assert (Henv : forall n, alookup n (declared_env doc) = alookup n (declared_env doc')).
  { apply alookup_perm.
    - unfold declared_env, env_of; cbn [map app].
      apply Permutation_flat_map; exact Hdd.
    - unfold declared_env. rewrite env_keys. unfold declared_defs. fold ds.
      rewrite tnames_merged, tnames_filter. exact Hnd. }
  assert (HT : Permutation (s_types (declared doc)) (s_types (declared doc'))).
  { unfold declared; cbn [s_types]. apply Permutation_filter.
    rewrite (flat_map_ext_all (decl_type (declared_env doc')) (decl_type (declared_env doc)))
      by (intros; symmetry; apply decl_type_ext; exact Henv).
    apply Permutation_flat_map; exact Hdd. }
  assert (HD : Permutation (s_ddefs (declared doc)) (s_ddefs (declared doc'))).
  { unfold declared; cbn [s_ddefs]. fold ds ds'.
    rewrite (flat_map_ext_all (decl_directive (declared_env doc')) (decl_directive (declared_env doc)))
      by (intros; symmetry; apply decl_directive_ext; exact Henv).
    apply Permutation_flat_map; exact Hp. }
  destruct (declared_unique_names doc Rt Rd) as [HuT HuD].
  assert (HuT' : has_dup (map tdef_name (s_types (declared doc'))) = false).
  { apply has_dup_NoDup. eapply Permutation_NoDup; [apply Permutation_map; exact HT|].
    apply has_dup_NoDup; exact HuT. }
  assert (HuD' : has_dup (map dd_name (s_ddefs (declared doc'))) = false).
  { apply has_dup_NoDup. eapply Permutation_NoDup; [apply Permutation_map; exact HD|].
    apply has_dup_NoDup; exact HuD. }
  (* the schema definition *)
  assert (Hsd : schema_def_of ds = schema_def_of ds').
  { unfold schema_def_of. rewrite !find_filter.
    set (p := fun d => match d with DSchema false _ _ _ => true | _ => false end).
    assert (Hpf : Permutation (filter p ds) (filter p ds')) by (apply Permutation_filter; exact Hp).
    unfold r_one_schema in Rs. fold ds p in Rs. apply Nat.leb_le in Rs.
    destruct (filter p ds) as [|a [|b r]] eqn:Hf.
    - apply Permutation_nil in Hpf. rewrite Hpf. reflexivity.
    - apply Permutation_length_1_inv in Hpf. rewrite Hpf. reflexivity.
    - simpl in Rs. lia. }
  assert (Hops : all_ops ds = all_ops ds') by (unfold all_ops; rewrite Hsd, Hsx; reflexivity).
  assert (Hroot : forall k dn, declared_root ds (s_types (declared doc)) k dn
                               = declared_root ds' (s_types (declared doc')) k dn).
  { intros k dn. unfold declared_root. rewrite Hsd, Hops. unfold default_root.
    rewrite (find_type_perm _ _ dn HT) by (apply has_dup_NoDup; exact HuT). reflexivity. }
  unfold schema_equiv.
  assert (E1 : types_sub (s_types (declared doc)) (s_types (declared doc')) = true).
  { unfold types_sub. apply forallb_forall; intros t Ht.
    rewrite (find_type_unique _ _ HuT' (Permutation_in _ HT Ht)). apply tdef_eqb_refl. }
  assert (E2 : types_sub (s_types (declared doc')) (s_types (declared doc)) = true).
  { unfold types_sub. apply forallb_forall; intros t Ht.
    rewrite (find_type_unique _ _ HuT (Permutation_in _ (Permutation_sym HT) Ht)). apply tdef_eqb_refl. }
  assert (E3 : ddefs_sub (s_ddefs (declared doc)) (s_ddefs (declared doc')) = true).
  { unfold ddefs_sub. apply forallb_forall; intros d Hd.
    rewrite (find_ddef_unique _ _ HuD' (Permutation_in _ HD Hd)). apply ddef_eqb_refl. }
  assert (E4 : ddefs_sub (s_ddefs (declared doc')) (s_ddefs (declared doc)) = true).
  { unfold ddefs_sub. apply forallb_forall; intros d Hd.
    rewrite (find_ddef_unique _ _ HuD (Permutation_in _ (Permutation_sym HD) Hd)). apply ddef_eqb_refl. }
  rewrite E1, E2, E3, E4, (Permutation_length HT), (Permutation_length HD), !Nat.eqb_refl.
  cbn [andb].
  unfold declared at 1 3 5 7; cbn [s_query s_mutation s_subscription s_dirs]. fold ds ds'.
  rewrite !Hroot, Hsd, Hsx.
  rewrite !(oeqb_refl str_eqb _ str_eqb_refl), (leqb_refl dir_eqb _ dir_eqb_refl). reflexivity.
Qed.

(* C11_order for the builder: two documents that are permutations of each
   other (extensions of each target in the same relative order), both within
   the rules and outside the findings, build equivalent schemas *)
Theorem order_build doc doc' :
  Permutation (doc_defs doc) (doc_defs doc') ->
  (forall n, exts_for n (doc_defs doc) = exts_for n (doc_defs doc')) ->
  schema_exts (doc_defs doc) = schema_exts (doc_defs doc') ->
  sdl_rules_ok doc -> defaults_stable doc -> sdl_rules_ok doc' -> defaults_stable doc' ->
  exists sc sc', build_model (BOpts false []) doc = Ok sc /\ build_model (BOpts false []) doc' = Ok sc'
                 /\ schema_equiv sc sc' = true.
Proof.
  intros Hp Hx Hsx Hr Hs Hr' Hs'.
  exists (declared doc), (declared doc'). repeat split; try (apply exact_build_rules; assumption).
  unfold sdl_rules_ok, sdl_rules_okb in Hr.
  repeat (apply andb_prop in Hr; destruct Hr as [Hr ?]).
  apply declared_order; assumption.
Qed.
