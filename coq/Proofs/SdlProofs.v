(* Proofs about the build_schema model (C11). *)
From PyGql Require Import Schema.SdlBuild Spec.SdlSpec.
From Coq Require Import Lia.

(* ------------------------------------------------------------------ *)
(* generic list facts                                                   *)

Lemma filter_filter_sub {A} (p q : A -> bool) (l : list A) :
  (forall x, p x = true -> q x = true) -> filter p (filter q l) = filter p l.
Proof.
  intros H; induction l as [|x l IH]; simpl; [reflexivity|].
  destruct (q x) eqn:Hq; simpl.
  - rewrite IH; reflexivity.
  - destruct (p x) eqn:Hp; [apply H in Hp; congruence|assumption].
Qed.

Lemma filter_filter_none {A} (p q : A -> bool) (l : list A) :
  (forall x, p x = true -> q x = false) -> filter p (filter q l) = [].
Proof.
  intros H; induction l as [|x l IH]; simpl; [reflexivity|].
  destruct (q x) eqn:Hq; simpl; [|assumption].
  destruct (p x) eqn:Hp; [apply H in Hp; congruence|assumption].
Qed.

Lemma forallb_filter_irrelevant {A} (P q : A -> bool) (l : list A) :
  (forall x, q x = false -> P x = true) -> forallb P (filter q l) = forallb P l.
Proof.
  intros H; induction l as [|x l IH]; simpl; [reflexivity|].
  destruct (q x) eqn:Hq; simpl; rewrite IH; [reflexivity|].
  rewrite (H x Hq); reflexivity.
Qed.

Lemma omap_ext {A B} (f g : A -> outcome B) (l : list A) :
  (forall x, f x = g x) -> omap f l = omap g l.
Proof.
  intros H; induction l as [|x l IH]; simpl; [reflexivity|].
  rewrite H, IH; reflexivity.
Qed.

(* ------------------------------------------------------------------ *)
(* _collect_definitions never looks at extension nodes                  *)

Definition non_ext (d : definition) : bool := negb (is_extension d).

Lemma collect_skips_ext d ds acc :
  is_extension d = true -> collect (d :: ds) acc = collect ds acc.
Proof.
  unfold is_extension, is_typeext.
  destruct d as [| | e ? ? ? | e ? ? ? ? | e ? ? ? ? ? ? | e ? ? ? ? ? | e ? ? ? ? ? | e ? ? ? ? ?
                 | e ? ? ? ? ? | ]; try destruct e; simpl; intros H; try discriminate; reflexivity.
Qed.

Lemma collect_filter ds : forall acc, collect ds acc = collect (filter non_ext ds) acc.
Proof.
  induction ds as [|d ds IH]; intros acc; [reflexivity|].
  unfold non_ext at 1; simpl filter.
  destruct (is_extension d) eqn:He; simpl negb; cbv iota.
  - rewrite (collect_skips_ext d ds acc He). apply IH.
  - (* a kept node: one step of collect on both sides, then IH *)
    simpl.
    destruct d as [| | e ? ? ? | e ? ? ? ? | e ? ? ? ? ? ? | e ? ? ? ? ? | e ? ? ? ? ? | e ? ? ? ? ?
                   | e ? ? ? ? ? | ]; try destruct e; simpl in *; try discriminate;
      repeat match goal with
             | |- context [match ?x with _ => _ end] =>
                 match x with
                 | c_schema _ => destruct x
                 | existsb _ _ => destruct x
                 end
             end; try reflexivity; apply IH.
Qed.

(* ------------------------------------------------------------------ *)
(* extend_model only looks at extension nodes                           *)

Lemma typeext_is_extension d n : typeext_name d = Some n -> is_extension d = true.
Proof. unfold is_extension, is_typeext; intros ->; reflexivity. Qed.

Lemma exts_for_filter n ds : exts_for n (filter is_extension ds) = exts_for n ds.
Proof.
  unfold exts_for; apply filter_filter_sub; intros x.
  destruct (typeext_name x) eqn:Hx; [intros _; eapply typeext_is_extension; eauto|discriminate].
Qed.

Lemma schema_exts_filter ds : schema_exts (filter is_extension ds) = schema_exts ds.
Proof.
  unfold schema_exts; apply filter_filter_sub; intros x.
  destruct x as [| | e ? ? ? | | | | | | | ]; try discriminate.
  destruct e; [reflexivity|discriminate].
Qed.

Lemma type_exts_filter ds : type_exts (filter is_extension ds) = type_exts ds.
Proof.
  unfold type_exts; apply filter_filter_sub; intros x.
  destruct (typeext_name x) eqn:Hx; [intros _; eapply typeext_is_extension; eauto|discriminate].
Qed.

Lemma extend_model_filter fuel add sc ds l l' :
  extend_model fuel add sc (Doc ds l) = extend_model fuel add sc (Doc (filter is_extension ds) l').
Proof.
  unfold extend_model; simpl doc_defs.
  rewrite schema_exts_filter, type_exts_filter.
  rewrite (forallb_filter_irrelevant _ is_extension ds).
  2:{ intros x Hx. destruct (typeext_name x) eqn:Ht; [|reflexivity].
      apply typeext_is_extension in Ht; congruence. }
  destruct (negb _); [reflexivity|].
  destruct (schema_exts ds) eqn:Hs; destruct (type_exts ds) eqn:Ht; try reflexivity;
    (erewrite omap_ext; [reflexivity|intros x; simpl; rewrite exts_for_filter; reflexivity]).
Qed.

Lemma extend_model_no_ext fuel add sc ds l :
  extend_model fuel add sc (Doc (filter non_ext ds) l) = Ok sc.
Proof.
  unfold extend_model; simpl doc_defs.
  assert (Hs : schema_exts (filter non_ext ds) = []).
  { unfold schema_exts; apply filter_filter_none; intros x.
    destruct x as [| | e ? ? ? | | | | | | | ]; try discriminate.
    destruct e; [reflexivity|discriminate]. }
  assert (Ht : type_exts (filter non_ext ds) = []).
  { unfold type_exts; apply filter_filter_none; intros x.
    destruct (typeext_name x) eqn:Hx; [intros _|discriminate].
    unfold non_ext; erewrite typeext_is_extension; eauto. }
  rewrite Hs, Ht.
  replace (forallb _ (filter non_ext ds)) with true; [reflexivity|].
  symmetry; apply forallb_forall; intros x Hx; apply filter_In in Hx; destruct Hx as [_ Hx].
  destruct (typeext_name x) eqn:Ht'; [|reflexivity].
  apply typeext_is_extension in Ht'; unfold non_ext in Hx; rewrite Ht' in Hx; discriminate.
Qed.

Lemma build_base_filter fuel add ds l l' :
  build_base fuel add (Doc ds l) = build_base fuel add (Doc (filter non_ext ds) l').
Proof. unfold build_base; simpl doc_defs; rewrite collect_filter; reflexivity. Qed.

(* ---- C11_ignore_extensions ----------------------------------------- *)
Definition strip_extensions (d : document) : document :=
  Doc (filter non_ext (doc_defs d)) (doc_loc d).

Theorem ignore_extensions_strip add doc :
  build_model (BOpts true add) doc = build_model (BOpts false add) (strip_extensions doc)
  /\ build_model (BOpts true add) doc = build_model (BOpts true add) (strip_extensions doc).
Proof.
  destruct doc as [ds l]; unfold build_model, build_model_fuel, strip_extensions; simpl.
  rewrite (build_base_filter build_fuel add ds l l).
  split; [|reflexivity].
  destruct (build_base build_fuel add (Doc (filter non_ext ds) l)) as [s0| | |]; simpl; try reflexivity.
  rewrite extend_model_no_ext; reflexivity.
Qed.

(* ---- C11_order, the part about where extensions stand ---------------- *)
Theorem order_of_extensions_irrelevant o ds ds' l l' :
  filter non_ext ds = filter non_ext ds' ->
  filter is_extension ds = filter is_extension ds' ->
  build_model o (Doc ds l) = build_model o (Doc ds' l').
Proof.
  intros Hd He; unfold build_model, build_model_fuel.
  rewrite (build_base_filter _ _ ds l l), (build_base_filter _ _ ds' l' l), Hd.
  destruct (build_base _ _ _) as [s0| | |]; simpl; try reflexivity.
  destruct (bo_ignore_extensions o); [reflexivity|].
  rewrite (extend_model_filter _ _ s0 ds l l), (extend_model_filter _ _ s0 ds' l' l), He.
  reflexivity.
Qed.

(* ------------------------------------------------------------------ *)
(* C11_reject: the builder only fails with the documented error kinds   *)

Definition lib_kind (k : nat) : Prop := 1 <= k <= 5.

Definition safe {A} (o : outcome A) : Prop :=
  match o with
  | Crash _ => False
  | Rejected k _ => lib_kind k
  | _ => True
  end.

Lemma safe_bind {A B} (x : outcome A) (f : A -> outcome B) :
  safe x -> (forall a, x = Ok a -> safe (f a)) -> safe (obind x f).
Proof. destruct x; simpl; auto. Qed.

Lemma safe_omap {A B} (f : A -> outcome B) (l : list A) :
  (forall x, In x l -> safe (f x)) -> safe (omap f l).
Proof.
  induction l as [|x l IH]; intros H; simpl; [exact I|].
  apply safe_bind; [apply H; left; reflexivity|intros y _].
  apply safe_bind; [apply IH; intros z Hz; apply H; right; assumption|intros ys _; exact I].
Qed.

Lemma safe_rej {A} k : lib_kind k -> safe (@rej A k).
Proof. intros H; exact H. Qed.

Ltac lk := unfold lib_kind, K_SDL, K_EXT, K_SCHEMA, K_VALUE, K_COERCION; lia.

Ltac safe_step :=
  match goal with
  | |- True => exact I
  | |- safe (Ok _) => exact I
  | |- safe OutOfFuel => exact I
  | |- safe (rej _) => apply safe_rej; lk
  | |- safe (obind _ _) => apply safe_bind; [|intros ? ?]
  | |- safe (omap _ _) => apply safe_omap; intros ? ?
  | |- safe (if ?b then _ else _) => destruct b
  | |- safe (match ?x with _ => _ end) => destruct x
  | |- safe (let '(_, _) := ?x in _) => destruct x
  end.

Lemma safe_coerce_scalar n v : safe (coerce_scalar n v).
Proof. unfold coerce_scalar; repeat safe_step. Qed.

Lemma safe_coerce fuel : forall eager E stack t v, safe (coerce fuel eager E stack t v).
Proof.
  induction fuel as [|f IH]; intros eager E stack t v; simpl; [exact I|].
  destruct v; try (apply safe_rej; lk);
    destruct t; repeat first [apply IH | apply safe_coerce_scalar | safe_step].
Qed.

Lemma safe_deprecation ds : safe (deprecation_reason ds).
Proof. unfold deprecation_reason; repeat safe_step. Qed.

Lemma safe_build_ivalue fuel K E iv : safe (build_ivalue fuel K E iv).
Proof. unfold build_ivalue; repeat first [apply safe_coerce | safe_step]. Qed.

Lemma safe_build_field fuel K E fd : safe (build_field fuel K E fd).
Proof.
  unfold build_field; repeat first [apply safe_build_ivalue | apply safe_deprecation | safe_step].
Qed.

Lemma safe_build_enum_value ev : safe (build_enum_value ev).
Proof. unfold build_enum_value; repeat first [apply safe_deprecation | safe_step]. Qed.

Lemma safe_check_known K ts : safe (check_known K ts).
Proof. unfold check_known; repeat safe_step. Qed.

Lemma safe_build_def fuel K E d n : typedef_name d = Some n -> safe (build_def fuel K E d).
Proof.
  destruct d; simpl; try discriminate; intros _;
    repeat first [apply safe_build_field | apply safe_build_enum_value | apply safe_check_known | safe_step].
Qed.

Lemma safe_build_directive fuel K E d n :
  directive_name d = Some n -> safe (build_directive fuel K E d).
Proof.
  destruct d; simpl; try discriminate; intros _; repeat first [apply safe_build_ivalue | safe_step].
Qed.

(* what _collect_definitions returns *)
Definition coll_ok (c : collected) : Prop :=
  (forall d, In d (c_types c) -> exists n, typedef_name d = Some n)
  /\ (forall d, In d (c_dirs c) -> exists n, directive_name d = Some n)
  /\ (match c_schema c with Some (DSchema _ _ _ _) | None => True | Some _ => False end).

Lemma collect_ok ds : forall acc c, coll_ok acc -> collect ds acc = Ok c -> coll_ok c.
Proof.
  induction ds as [|d ds IH]; intros acc c Hacc; simpl.
  - intros H; inversion H; subst; assumption.
  - destruct Hacc as (Ht & Hd & Hs).
    destruct d as [| | e ? ? ? | e ? ? ? ? | e ? ? ? ? ? ? | e ? ? ? ? ? | e ? ? ? ? ? | e ? ? ? ? ?
                   | e ? ? ? ? ? | ]; try destruct e; simpl;
      repeat match goal with
             | |- context [match ?x with _ => _ end] =>
                 match x with
                 | c_schema _ => destruct x eqn:?
                 | existsb _ _ => destruct x eqn:?
                 end
             end; try discriminate;
      try (apply IH; repeat split; simpl; auto; fail);
      (apply IH; repeat split; simpl; auto;
       intros d' Hin; apply in_app_or in Hin; destruct Hin as [Hin|[<-|[]]]; auto; simpl; eauto).
Qed.

Lemma safe_collect ds : forall acc, safe (collect ds acc).
Proof.
  induction ds as [|d ds IH]; intros acc; simpl; [exact I|].
  destruct d as [| | e ? ? ? | e ? ? ? ? | e ? ? ? ? ? ? | e ? ? ? ? ? | e ? ? ? ? ? | e ? ? ? ? ?
                 | e ? ? ? ? ? | ]; try destruct e; simpl;
    repeat match goal with
           | |- context [match ?x with _ => _ end] =>
               match x with
               | c_schema _ => destruct x
               | existsb _ _ => destruct x
               end
           end; try apply IH; apply safe_rej; lk.
Qed.

Lemma safe_add_ops K err ots : lib_kind err -> forall r, safe (add_ops K err ots r).
Proof.
  intros He; induction ots as [|ot ots IH]; intros r; simpl; [exact I|].
  destruct (root_get r (ot_op ot)); [apply safe_rej; assumption|].
  destruct (known K _); [apply IH|apply safe_rej; lk].
Qed.

Lemma safe_force_input fuel K E tdefs t : safe (force_input fuel K E tdefs t).
Proof.
  unfold force_input; repeat first [apply safe_build_ivalue | safe_step].
Qed.

Lemma safe_build_base fuel add doc : safe (build_base fuel add doc).
Proof.
  unfold build_base.
  apply safe_bind; [apply safe_collect|intros c Hc].
  assert (Hok : coll_ok c).
  { eapply collect_ok; [|exact Hc]. repeat split; simpl; intros; contradiction. }
  destruct Hok as (Ht & Hd & Hs).
  apply safe_bind.
  { apply safe_omap; intros d Hin. destruct (Hd d Hin) as [n Hn].
    eapply safe_build_directive; eauto. }
  intros ddefs _.
  apply safe_bind.
  { apply safe_omap; intros d Hin. destruct (Ht d Hin) as [n Hn]. rewrite Hn.
    repeat first [eapply safe_build_def; eassumption | safe_step]. }
  intros ts _.
  apply safe_bind.
  { destruct (c_schema c) as [sd|]; [|exact I].
    destruct sd; try contradiction. apply safe_add_ops; lk. }
  intros r _.
  repeat first [apply safe_force_input | safe_step].
Qed.

Section SafeExtend.
  Variables (fuel : nat) (K : list (str * kind)) (E : env).

  Lemma safe_add_fields fds : forall have acc, safe (add_fields fuel K E have acc fds).
  Proof.
    induction fds as [|fd fds IH]; intros have acc; simpl; [exact I|].
    destruct (mem_str _ have); [apply safe_rej; lk|].
    apply safe_bind; [apply safe_build_field|intros; apply IH].
  Qed.

  Lemma safe_add_names ts : forall have acc, safe (add_names K have acc ts).
  Proof.
    induction ts as [|t ts IH]; intros have acc; simpl; [exact I|].
    destruct (mem_str _ have); [apply safe_rej; lk|].
    destruct (negb _); [apply safe_rej; lk|apply IH].
  Qed.

  Lemma safe_add_values evs : forall have acc, safe (add_values have acc evs).
  Proof.
    induction evs as [|ev evs IH]; intros have acc; simpl; [exact I|].
    destruct (mem_str _ have); [apply safe_rej; lk|].
    apply safe_bind; [apply safe_build_enum_value|intros; apply IH].
  Qed.

  Lemma safe_add_ifields ivs : forall have acc, safe (add_ifields fuel K E have acc ivs).
  Proof.
    induction ivs as [|iv ivs IH]; intros have acc; simpl; [exact I|].
    destruct (mem_str _ have); [apply safe_rej; lk|].
    apply safe_bind; [apply safe_build_ivalue|intros; apply IH].
  Qed.

  Lemma safe_fold_exts {A} (step : list str -> list A -> definition -> outcome (list str * list A)) exts :
    (forall h a x, safe (step h a x)) -> forall have acc, safe (fold_exts step have acc exts).
  Proof.
    intros Hs; induction exts as [|x exts IH]; intros have acc; simpl; [exact I|].
    apply safe_bind; [apply Hs|intros [h a] _; apply IH].
  Qed.

  Lemma safe_extend_tdef exts t : safe (extend_tdef fuel K E exts t).
  Proof.
    unfold extend_tdef.
    destruct (negb _); [apply safe_rej; lk|].
    destruct t;
      repeat first
        [ exact I
        | apply safe_bind; [|intros ? ?]
        | apply safe_fold_exts; intros ? ? x; destruct x;
          first [exact I | apply safe_add_fields | apply safe_add_names | apply safe_add_values
                | apply safe_add_ifields] ].
  Qed.
End SafeExtend.

Lemma safe_add_schema_exts K xs : forall r, safe (add_schema_exts K xs r).
Proof.
  induction xs as [|x xs IH]; intros r; simpl; [exact I|].
  destruct x; try apply IH.
  apply safe_bind; [apply safe_add_ops; lk|intros; apply IH].
Qed.

Lemma safe_extend_model fuel add sc doc : safe (extend_model fuel add sc doc).
Proof.
  unfold extend_model.
  destruct (negb _); [apply safe_rej; lk|].
  destruct (schema_exts (doc_defs doc)) eqn:Hs; destruct (type_exts (doc_defs doc)) eqn:Ht;
    try exact I;
    repeat first [apply safe_extend_tdef | apply safe_add_schema_exts | safe_step].
Qed.

Theorem build_model_safe fuel o doc : safe (build_model_fuel fuel o doc).
Proof.
  unfold build_model_fuel.
  apply safe_bind; [apply safe_build_base|intros s0 _].
  apply safe_bind; [destruct (bo_ignore_extensions o); [exact I|apply safe_extend_model]|intros s1 _].
  destruct (validate_schema s1); [exact I|apply safe_rej; lk].
Qed.

(* ------------------------------------------------------------------ *)
(* extensions are merged into their target in document order            *)

Lemma map_flat_map {A B C} (f : B -> C) (g : A -> list B) (l : list A) :
  map f (flat_map g l) = flat_map (fun x => map f (g x)) l.
Proof. induction l as [|x l IH]; simpl; [reflexivity|]. rewrite map_app, IH; reflexivity. Qed.

Lemma flat_map_ext_in {A B} (f g : A -> list B) (l : list A) :
  (forall x, In x l -> f x = g x) -> flat_map f l = flat_map g l.
Proof.
  induction l as [|x l IH]; intros H; simpl; [reflexivity|].
  rewrite (H x (or_introl eq_refl)), IH; [reflexivity|intros; apply H; right; assumption].
Qed.

Definition obj_fields (d : definition) : list field_def :=
  match d with DObject _ _ _ _ _ fs _ => fs | _ => [] end.

Section Merge.
  Variables (fuel : nat) (K : list (str * kind)) (E : env).

  Lemma omap_app {A B} (f : A -> outcome B) l1 l2 r1 r2 :
    omap f l1 = Ok r1 -> omap f l2 = Ok r2 -> omap f (l1 ++ l2) = Ok (r1 ++ r2).
  Proof.
    revert r1; induction l1 as [|x l1 IH]; intros r1; simpl.
    - intros H; inversion H; subst; auto.
    - destruct (f x) as [y| | |]; simpl; try discriminate.
      destruct (omap f l1) as [ys| | |]; simpl; try discriminate.
      intros H H2; inversion H; subst. rewrite (IH ys eq_refl H2); reflexivity.
  Qed.

  Lemma add_fields_spec fds : forall have acc h' acc',
      add_fields fuel K E have acc fds = Ok (h', acc') ->
      exists new, omap (build_field fuel K E) fds = Ok new /\ acc' = acc ++ new.
  Proof.
    induction fds as [|fd fds IH]; intros have acc h' acc'; simpl.
    - intros H; inversion H; subst; exists []; rewrite app_nil_r; auto.
    - destruct (mem_str _ have); [discriminate|].
      destruct (build_field fuel K E fd) as [f| | |]; simpl; try discriminate.
      intros H; apply IH in H; destruct H as [new [Hn ->]].
      rewrite Hn; simpl; exists (f :: new); rewrite <- app_assoc; auto.
  Qed.

  Lemma add_names_spec ts : forall have acc h' acc',
      add_names K have acc ts = Ok (h', acc') -> acc' = acc ++ map ty_name ts.
  Proof.
    induction ts as [|t ts IH]; intros have acc h' acc'; simpl.
    - intros H; inversion H; subst; rewrite app_nil_r; auto.
    - destruct (mem_str _ have); [discriminate|].
      destruct (negb _); [discriminate|].
      intros H; apply IH in H; subst; rewrite <- app_assoc; reflexivity.
  Qed.

  Lemma add_values_spec evs : forall have acc h' acc',
      add_values have acc evs = Ok (h', acc') ->
      exists new, omap build_enum_value evs = Ok new /\ acc' = acc ++ new.
  Proof.
    induction evs as [|ev evs IH]; intros have acc h' acc'; simpl.
    - intros H; inversion H; subst; exists []; rewrite app_nil_r; auto.
    - destruct (mem_str _ have); [discriminate|].
      destruct (build_enum_value ev) as [v| | |]; simpl; try discriminate.
      intros H; apply IH in H; destruct H as [new [Hn ->]].
      rewrite Hn; simpl; exists (v :: new); rewrite <- app_assoc; auto.
  Qed.

  Lemma add_ifields_spec ivs : forall have acc h' acc',
      add_ifields fuel K E have acc ivs = Ok (h', acc') ->
      exists new, omap (build_ivalue fuel K E) ivs = Ok new /\ acc' = acc ++ new.
  Proof.
    induction ivs as [|iv ivs IH]; intros have acc h' acc'; simpl.
    - intros H; inversion H; subst; exists []; rewrite app_nil_r; auto.
    - destruct (mem_str _ have); [discriminate|].
      destruct (build_ivalue fuel K E iv) as [f| | |]; simpl; try discriminate.
      intros H; apply IH in H; destruct H as [new [Hn ->]].
      rewrite Hn; simpl; exists (f :: new); rewrite <- app_assoc; auto.
  Qed.

  (* folding a member-appending step over the extensions appends, in order,
     what each extension contributes *)
  Lemma fold_exts_spec {A B} (step : list str -> list A -> definition -> outcome (list str * list A))
        (members : definition -> list B) (conv : list B -> outcome (list A)) exts :
    (forall h a x h' a', step h a x = Ok (h', a') ->
                         exists new, conv (members x) = Ok new /\ a' = a ++ new) ->
    (forall l1 l2 r1 r2, conv l1 = Ok r1 -> conv l2 = Ok r2 -> conv (l1 ++ l2) = Ok (r1 ++ r2)) ->
    conv [] = Ok [] ->
    forall have acc res, fold_exts step have acc exts = Ok res ->
      exists new, conv (flat_map members exts) = Ok new /\ res = acc ++ new.
  Proof.
    intros Hstep Happ Hnil; induction exts as [|x exts IH]; intros have acc res; simpl.
    - intros H; inversion H; subst; exists []; rewrite app_nil_r; auto.
    - destruct (step have acc x) as [[h a]| | |] eqn:Hs; simpl; try discriminate.
      intros H. apply Hstep in Hs; destruct Hs as [n1 [Hc1 ->]].
      apply IH in H; destruct H as [n2 [Hc2 ->]].
      exists (n1 ++ n2); split; [apply Happ; assumption|rewrite app_assoc; reflexivity].
  Qed.
End Merge.

(* the statement for object types (fields and interfaces); the other kinds
   follow the same pattern with their own member lists *)
Theorem extend_object_merges fuel K E exts n d is_ fs dirs t' :
  extend_tdef fuel K E exts (TObject n d is_ fs dirs) = Ok t' ->
  exists new_fields,
    omap (build_field fuel K E) (flat_map ext_fields exts) = Ok new_fields
    /\ t' = TObject n d (is_ ++ map ty_name (flat_map ext_ifaces exts)) (fs ++ new_fields)
                    (dirs ++ flat_map ext_dirs exts).
Proof.
  unfold extend_tdef.
  destruct (negb _) eqn:Hk; [discriminate|].
  apply Bool.negb_false_iff in Hk.
  assert (Hobj : forall x, In x exts -> exists e de nm i ds f l, x = DObject e de nm i ds f l).
  { intros x Hx. rewrite forallb_forall in Hk. specialize (Hk x Hx).
    unfold ext_kind_ok in Hk. destruct x; simpl in Hk; try discriminate; eauto 10. }
  destruct (fold_exts _ (map sf_name fs) fs exts) as [fs'| | |] eqn:Hf; simpl; try discriminate.
  destruct (fold_exts _ is_ is_ exts) as [is'| | |] eqn:Hi; simpl; try discriminate.
  intros H; inversion H; subst; clear H.
  eapply (fold_exts_spec _ obj_fields (omap (build_field fuel K E))) in Hf.
  - destruct Hf as [new [Hn ->]]. exists new; split.
    { rewrite <- Hn; f_equal; apply flat_map_ext_in; intros x Hx.
      destruct (Hobj x Hx) as (? & ? & ? & ? & ? & ? & ? & ->); reflexivity. }
    eapply (fold_exts_spec _ (fun x => map ty_name (ext_ifaces x)) (fun l => Ok l)) in Hi.
    + destruct Hi as [ni [Hni ->]]. inversion Hni; subst.
      rewrite map_flat_map. reflexivity.
    + intros h a x h' a' Hs. destruct x; simpl in *;
        try (inversion Hs; subst; exists []; rewrite app_nil_r; auto; fail).
      apply add_names_spec in Hs; subst; eauto.
    + intros l1 l2 r1 r2 H1 H2; inversion H1; inversion H2; subst; reflexivity.
    + reflexivity.
  - intros h a x h' a' Hs. destruct x; simpl in *;
      try (inversion Hs; subst; exists []; rewrite app_nil_r; auto; fail).
    eapply add_fields_spec; eauto.
  - intros; apply omap_app; assumption.
  - reflexivity.
Qed.

Theorem extend_enum_merges fuel K E exts n d vs dirs t' :
  extend_tdef fuel K E exts (TEnum n d vs dirs) = Ok t' ->
  exists new_values,
    omap build_enum_value (flat_map ext_values exts) = Ok new_values
    /\ t' = TEnum n d (vs ++ new_values) (dirs ++ flat_map ext_dirs exts).
Proof.
  unfold extend_tdef.
  destruct (negb _) eqn:Hk; [discriminate|].
  destruct (fold_exts _ (map sev_name vs) vs exts) as [vs'| | |] eqn:Hf; simpl; try discriminate.
  intros H; inversion H; subst; clear H.
  eapply (fold_exts_spec _ ext_values (omap build_enum_value)) in Hf.
  - destruct Hf as [new [Hn ->]]. exists new; auto.
  - intros h a x h' a' Hs. destruct x; simpl in *;
      try (inversion Hs; subst; exists []; rewrite app_nil_r; auto; fail).
    eapply add_values_spec; eauto.
  - intros; apply omap_app; assumption.
  - reflexivity.
Qed.

Theorem extend_input_merges fuel K E exts n d fs dirs t' :
  extend_tdef fuel K E exts (TInput n d fs dirs) = Ok t' ->
  exists new_fields,
    omap (build_ivalue fuel K E) (flat_map ext_ifields exts) = Ok new_fields
    /\ t' = TInput n d (fs ++ new_fields) (dirs ++ flat_map ext_dirs exts).
Proof.
  unfold extend_tdef.
  destruct (negb _) eqn:Hk; [discriminate|].
  destruct (fold_exts _ (map siv_name fs) fs exts) as [fs'| | |] eqn:Hf; simpl; try discriminate.
  intros H; inversion H; subst; clear H.
  eapply (fold_exts_spec _ ext_ifields (omap (build_ivalue fuel K E))) in Hf.
  - destruct Hf as [new [Hn ->]]. exists new; auto.
  - intros h a x h' a' Hs. destruct x; simpl in *;
      try (inversion Hs; subst; exists []; rewrite app_nil_r; auto; fail).
    eapply add_ifields_spec; eauto.
  - intros; apply omap_app; assumption.
  - reflexivity.
Qed.

Theorem extend_union_merges fuel K E exts n d ms dirs t' :
  extend_tdef fuel K E exts (TUnion n d ms dirs) = Ok t' ->
  t' = TUnion n d (ms ++ map ty_name (flat_map ext_members exts)) (dirs ++ flat_map ext_dirs exts).
Proof.
  unfold extend_tdef.
  destruct (negb _) eqn:Hk; [discriminate|].
  destruct (fold_exts _ ms ms exts) as [ms'| | |] eqn:Hf; simpl; try discriminate.
  intros H; inversion H; subst; clear H.
  eapply (fold_exts_spec _ (fun x => map ty_name (ext_members x)) (fun l => Ok l)) in Hf.
  - destruct Hf as [new [Hn ->]]. inversion Hn; subst.
    rewrite map_flat_map. reflexivity.
  - intros h a x h' a' Hs. destruct x; simpl in *;
      try (inversion Hs; subst; exists []; rewrite app_nil_r; auto; fail).
    apply add_names_spec in Hs; subst; eauto.
  - intros l1 l2 r1 r2 H1 H2; inversion H1; inversion H2; subst; reflexivity.
  - reflexivity.
Qed.

Definition iface_fields (d : definition) : list field_def :=
  match d with DInterface _ _ _ _ fs _ => fs | _ => [] end.

Theorem extend_interface_merges fuel K E exts n d fs dirs t' :
  extend_tdef fuel K E exts (TInterface n d fs dirs) = Ok t' ->
  exists new_fields,
    omap (build_field fuel K E) (flat_map ext_fields exts) = Ok new_fields
    /\ t' = TInterface n d (fs ++ new_fields) (dirs ++ flat_map ext_dirs exts).
Proof.
  unfold extend_tdef.
  destruct (negb _) eqn:Hk; [discriminate|].
  apply Bool.negb_false_iff in Hk.
  assert (Hif : forall x, In x exts -> exists e de nm ds f l, x = DInterface e de nm ds f l).
  { intros x Hx. rewrite forallb_forall in Hk. specialize (Hk x Hx).
    unfold ext_kind_ok in Hk. destruct x; simpl in Hk; try discriminate; eauto 10. }
  destruct (fold_exts _ (map sf_name fs) fs exts) as [fs'| | |] eqn:Hf; simpl; try discriminate.
  intros H; inversion H; subst; clear H.
  eapply (fold_exts_spec _ iface_fields (omap (build_field fuel K E))) in Hf.
  - destruct Hf as [new [Hn ->]]. exists new; split; [|reflexivity].
    rewrite <- Hn; f_equal; apply flat_map_ext_in; intros x Hx.
    destruct (Hif x Hx) as (? & ? & ? & ? & ? & ? & ->); reflexivity.
  - intros h a x h' a' Hs. destruct x; simpl in *;
      try (inversion Hs; subst; exists []; rewrite app_nil_r; auto; fail).
    eapply add_fields_spec; eauto.
  - intros; apply omap_app; assumption.
  - reflexivity.
Qed.
