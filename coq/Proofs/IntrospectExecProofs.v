(* C15 -- __typename against the C04 executor model (Exec/ExecModel.v,
   imported read-only): the meta-field answers the name of the object type
   whose fields are being executed, and at an abstract position that type is
   the object type resolve_type yields, a possible type of the abstract type. *)
From PyGql Require Import Exec.ExecModel.

Section TypenameExec.
  Variable sch : schema.
  Variable coerce_args : fdef -> selection -> outcome (list (str * pv)).
  Variable world : world_t.
  Variable tyres : str -> option (pv -> tyname_res).
  Variable sub_exec : str -> pv -> path -> list selection -> result.

  (* String is the specified scalar; argument coercion of the argument-less
     meta-field succeeds *)
  Hypothesis HString : get_type sch s_String = Some (TScalar SString).
  Hypothesis Hargs : forall node, exists a, coerce_args typename_fdef node = Ok a.

  Lemma field_definition_typename tname :
    field_definition sch tname s_typename = Ok (Some (FTypename, typename_fdef)).
  Proof. reflexivity. Qed.

  (* completing the meta-field's value: String! applied to the type name *)
  Lemma complete_value_typename tname nodes p :
    complete_value sch tyres sub_exec nodes (f_type typename_fdef) p (PStr tname) = Ok (PStr tname, []).
  Proof.
    change (f_type typename_fdef) with (RNonNull (RNamed s_String)).
    cbn [complete_value]. unfold complete_named. rewrite HString. reflexivity.
  Qed.

  Lemma complete_field_typename tname nodes p :
    complete_field sch tyres sub_exec nodes (f_type typename_fdef) p (PStr tname) = Ok (PStr tname, []).
  Proof. unfold complete_field. rewrite complete_value_typename. reflexivity. Qed.

  Lemma resolve_typename tname parent nodes p : nodes <> [] ->
    resolve_field sch coerce_args world tyres sub_exec tname parent FTypename typename_fdef nodes p
    = Ok (PStr tname, []).
  Proof.
    intros Hn. unfold resolve_field. destruct nodes as [|node nodes]; [contradiction|].
    destruct (Hargs node) as [a Ha]. rewrite Ha. apply complete_field_typename.
  Qed.

  (* every response key whose first node selects __typename carries the name
     of the type being executed *)
  Lemma exec_groups_typename tname parent p : forall g r errs,
    exec_groups sch coerce_args world tyres sub_exec tname parent p g = Ok (r, errs) ->
    forall key node nodes, In (key, node :: nodes) g -> sel_name node = s_typename ->
    In (key, PStr tname) r.
  Proof.
    induction g as [|[k ns] g IH]; intros r errs H key node nodes Hin Hname; [destruct Hin|].
    cbn [exec_groups] in H. destruct ns as [|n0 ns0]; [discriminate|].
    destruct (field_definition sch tname (sel_name n0)) as [fdo| | |] eqn:Hfd; try discriminate.
    cbn [obind] in H.
    destruct Hin as [Heq|Hin].
    - inversion Heq; subst. rewrite Hname, field_definition_typename in Hfd. inversion Hfd; subst.
      rewrite resolve_typename in H by discriminate. cbn [obind] in H.
      destruct (exec_groups sch coerce_args world tyres sub_exec tname parent p g) as [[r' e']| | |];
        try discriminate.
      cbn [obind fst snd] in H. inversion H; subst. left; reflexivity.
    - destruct fdo as [[kd fd]|].
      + destruct (resolve_field sch coerce_args world tyres sub_exec tname parent kd fd (n0 :: ns0)
                                (p ++ [PKey k])) as [[v e]| | |]; try discriminate.
        cbn [obind] in H.
        destruct (exec_groups sch coerce_args world tyres sub_exec tname parent p g) as [[r' e']| | |] eqn:Hg;
          try discriminate.
        cbn [obind fst snd] in H. inversion H; subst. right. eapply IH; eauto.
      + eapply IH; eauto.
  Qed.

  (* resolve_type only ever yields an object type that is a possible type *)
  Lemma resolve_type_possible abstract v rt :
    resolve_type sch tyres abstract v = Ok rt ->
    (exists fs ifs, get_type sch rt = Some (TObject fs ifs)) /\
    exists ps, possible_types sch abstract = Some ps /\ mem_str rt ps = true.
  Proof.
    unfold resolve_type.
    destruct (match match tyres abstract with Some f => f v | None => default_typename v end with
              | TRNone => Some (py_type_name v) | TRName n => Some n | TRBad => None end) as [n|];
      [|discriminate].
    destruct (get_type sch n) as [[fs ifs| | | | |]|] eqn:Hg; try discriminate.
    destruct (possible_types sch abstract) as [ps|]; [|discriminate].
    destruct (mem_str n ps) eqn:Hm; [|discriminate].
    intros H; inversion H; subst. split; [eauto|]. exists ps; auto.
  Qed.

  (* below a field of composite type the selection is executed on the type
     itself (object) or on the resolved possible type (interface / union) *)
  Lemma complete_named_runtime nodes n p v :
    (forall fs ifs, get_type sch n = Some (TObject fs ifs) ->
       complete_named sch tyres sub_exec nodes n p v = sub_exec n v p (children_of nodes)) /\
    (is_abstract sch n = true ->
       (exists rt, resolve_type sch tyres n v = Ok rt /\
                   complete_named sch tyres sub_exec nodes n p v = sub_exec rt v p (children_of nodes)) \/
       (forall r, complete_named sch tyres sub_exec nodes n p v <> Ok r)).
  Proof.
    split.
    - intros fs ifs H. unfold complete_named. rewrite H. reflexivity.
    - unfold is_abstract, complete_named. destruct (get_type sch n) as [[| | | | |]|]; try discriminate; intros _;
        (destruct (resolve_type sch tyres n v) as [rt| | |]; [left; exists rt; auto| | |]; right; intros r; discriminate).
  Qed.
End TypenameExec.

Theorem typename_exec :
  forall (sch : schema) (coerce_args : fdef -> selection -> outcome (list (str * pv)))
         (world : world_t) (tyres : str -> option (pv -> tyname_res))
         (sub_exec : str -> pv -> path -> list selection -> result),
  get_type sch s_String = Some (TScalar SString) ->
  (forall node, exists a, coerce_args typename_fdef node = Ok a) ->
  (forall tname parent p g r errs,
     exec_groups sch coerce_args world tyres sub_exec tname parent p g = Ok (r, errs) ->
     forall key node nodes, In (key, node :: nodes) g -> sel_name node = s_typename ->
     In (key, PStr tname) r) /\
  (forall nodes n p v,
     (forall fs ifs, get_type sch n = Some (TObject fs ifs) ->
        complete_named sch tyres sub_exec nodes n p v = sub_exec n v p (children_of nodes)) /\
     (is_abstract sch n = true ->
        (exists rt, resolve_type sch tyres n v = Ok rt /\
                    complete_named sch tyres sub_exec nodes n p v = sub_exec rt v p (children_of nodes) /\
                    (exists fs ifs, get_type sch rt = Some (TObject fs ifs)) /\
                    exists ps, possible_types sch n = Some ps /\ mem_str rt ps = true) \/
        (forall r, complete_named sch tyres sub_exec nodes n p v <> Ok r))).
Proof.
  intros sch coerce_args world tyres sub_exec HS Ha. split.
  - intros. eapply exec_groups_typename; eauto.
  - intros nodes n p v. destruct (complete_named_runtime sch tyres sub_exec nodes n p v) as [H1 H2].
    split; [exact H1|]. intros Habs. destruct (H2 Habs) as [(rt & Hr & Hc)|Hno]; [left|right; exact Hno].
    exists rt. destruct (resolve_type_possible sch tyres n v rt Hr) as [Ho Hp]. auto.
Qed.
