(* C01: which token parse_type blames.  Pure grammar part: the shape of an
   erroneous type prefix (TE), and that it is viable but cannot be extended by
   the blamed token.  Model part: parse_type_reference rejects exactly there. *)
From PyGql Require Import Lang.Parser Spec.GrammarSpec Spec.ViablePrefixSpec Proofs.GrammarProofs.

Section TypeGrammar.
Variable nl : bool.

(* generic facts about viable prefixes *)
Lemma viable_prefix (S : list ptok -> Prop) a b : viable S (a ++ b) -> viable S a.
Proof. intros [r H]. exists (b ++ r). rewrite app_assoc. exact H. Qed.

Lemma blamed_unique (S : list ptok -> Prop) pre t post pre' t' post' :
  pre ++ t :: post = pre' ++ t' :: post' -> blamed S pre t -> blamed S pre' t' -> pre = pre' /\ t = t'.
Proof.
  intros E [V1 N1] [V2 N2].
  assert (Hcase : (exists m, pre' = pre ++ t :: m) \/ (exists m, pre = pre' ++ t' :: m) \/ pre = pre').
  { clear -E. revert pre' E. induction pre as [|x pre IH]; intros [|y pre'] E; simpl in *.
    - right; right; reflexivity.
    - injection E as -> E. left. exists pre'. reflexivity.
    - injection E as -> E. right; left. exists pre. reflexivity.
    - injection E as -> E. destruct (IH pre' E) as [[m ->]|[[m ->]| ->]]; [left|right; left|right; right]; eauto. }
  destruct Hcase as [[m ->]|[[m ->]| ->]].
  - exfalso. apply N1. change (t :: m) with ([t] ++ m) in V2. rewrite app_assoc in V2. eapply viable_prefix; exact V2.
  - exfalso. apply N2. change (t' :: m) with ([t'] ++ m) in V1. rewrite app_assoc in V1. eapply viable_prefix; exact V1.
  - apply app_inv_head in E. injection E as -> _. auto.
Qed.

Lemma D_type_nonempty ts t : D_type nl ts t -> ts <> [].
Proof. intros H; destruct H; try discriminate; destruct ts; discriminate. Qed.

(* a type whose last token is "!" is a non-null type, and conversely *)
Lemma D_type_last_bang l b z : D_type nl (l ++ [b]) z -> tk b = KBang -> ~ not_non_null z.
Proof.
  intros H Kb. remember (l ++ [b]) as ts eqn:E. destruct H as [n Kn|o ts0 c inner Ko Kc Hd|ts0 b0 inner Kb0 Hd Hnn].
  - destruct l as [|x l]; [injection E as ->; congruence|]. injection E as _ E. destruct l; discriminate.
  - change (o :: ts0 ++ [c]) with ((o :: ts0) ++ [c]) in E. apply app_inj_tail in E. destruct E as [_ ->]. congruence.
  - simpl. auto.
Qed.

Lemma D_type_non_null_inv ts z : D_type nl ts z -> ~ not_non_null z -> exists l b, ts = l ++ [b] /\ tk b = KBang.
Proof. intros H Hn. destruct H; simpl in Hn; try (exfalso; apply Hn; exact I). eauto. Qed.

Lemma D_type_head ts z : D_type nl ts z -> exists t r, ts = t :: r /\ (tk t = KName \/ tk t = KBrackO).
Proof.
  induction 1 as [n Kn|o ts c inner Ko Kc Hd IH|ts b inner Kb Hd IH Hnn].
  - eauto.
  - eauto.
  - destruct IH as (t & r & -> & Hk). exists t, (r ++ [b]). auto.
Qed.

(* the only way a type is a proper prefix of a type: T before T! *)
Lemma D_type_prefix : forall l y, D_type nl l y -> forall a x, D_type nl a x -> forall t r, l = a ++ t :: r ->
  tk t = KBang /\ r = [] /\ not_non_null x.
Proof.
  induction 1 as [n Kn|o ts c inner Ko Kc Hd IH|ts b inner Kb Hd IH Hnn].
  - intros a x Da t r E. exfalso. pose proof (D_type_nonempty _ _ Da). destruct a as [|a0 a]; [congruence|].
    injection E as _ E. destruct a; discriminate.
  - intros a x Da. induction Da as [n Kn|o1 ts1 c1 inner1 Ko1 Kc1 Hd1 _|ts1 b1 inner1 Kb1 Hd1 IH1 Hnn1]; intros t r E.
    + exfalso. injection E as -> _. congruence.
    + exfalso. injection E as _ E. rewrite <- app_assoc in E. simpl in E.
      destruct (exists_last (l := t :: r) ltac:(discriminate)) as (r' & c' & Er). rewrite Er in E.
      change (ts1 ++ c1 :: r' ++ [c']) with (ts1 ++ (c1 :: r') ++ [c']) in E. rewrite app_assoc in E.
      apply app_inj_tail in E. destruct E as [E _].
      destruct (IH _ _ Hd1 _ _ E) as (K & _). congruence.
    + rewrite <- app_assoc in E. simpl in E. destruct (IH1 _ _ E) as (_ & Er & _). discriminate.
  - intros a x Da t r E.
    destruct (exists_last (l := t :: r) ltac:(discriminate)) as (r' & c' & Er).
    rewrite Er, app_assoc in E. apply app_inj_tail in E. destruct E as [E <-].
    destruct r' as [|t' r''].
    + (* a = ts, t = b *)
      destruct r; [|destruct r; discriminate]. injection Er as ->. rewrite app_nil_r in E. subst a.
      split; [exact Kb|split; [reflexivity|]].
      destruct x; simpl; auto. exfalso.
      destruct (D_type_non_null_inv _ _ Da ltac:(simpl; auto)) as (l0 & b0 & -> & Kb0).
      exact (D_type_last_bang _ _ _ Hd Kb0 Hnn).
    + (* t inside ts *)
      assert (Et : t = t' /\ r = r'' ++ [b]).
      { simpl in Er. injection Er as -> ->. auto. }
      destruct Et as [-> ->]. destruct (IH _ _ Da _ _ E) as (Kt & -> & Hx).
      exfalso. rewrite E in Hd. exact (D_type_last_bang _ _ _ Hd Kt Hnn).
Qed.

(* ---- erroneous prefixes of a type ----
   [TE pre t]: reading a type, the tokens pre have been read and t cannot follow:
   no type starts with t; or inside brackets; or after "[ T" something else than
   "]" (or a "!" that T could still take) *)
Inductive TE : list ptok -> ptok -> Prop :=
| TE_start t : tk t <> KName -> tk t <> KBrackO -> TE [] t
| TE_inner o pre t : tk o = KBrackO -> TE pre t -> TE (o :: pre) t
| TE_close o body inner t :
    tk o = KBrackO -> D_type nl body inner -> tk t <> KBrackC ->
    (tk t = KBang -> ~ not_non_null inner) -> TE (o :: body) t.

Fixpoint cnt (k : tkind) (l : list ptok) : nat :=
  match l with [] => 0 | t :: r => (if tkind_eqb (tk t) k then 1 else 0) + cnt k r end.

Lemma cnt_app k a b : cnt k (a ++ b) = cnt k a + cnt k b.
Proof. induction a as [|t a IH]; simpl; [reflexivity|rewrite IH; lia]. Qed.

Lemma cnt_one k t k' : tk t = k' -> cnt k [t] = if tkind_eqb k' k then 1 else 0.
Proof. intros <-. simpl. lia. Qed.

Lemma D_type_balanced ts z : D_type nl ts z -> cnt KBrackO ts = cnt KBrackC ts.
Proof.
  induction 1 as [n Kn|o ts c inner Ko Kc Hd IH|ts b inner Kb Hd IH Hnn].
  - rewrite !(cnt_one _ n KName Kn). reflexivity.
  - change (o :: ts ++ [c]) with ([o] ++ ts ++ [c]). rewrite !cnt_app, !(cnt_one _ o KBrackO Ko), !(cnt_one _ c KBrackC Kc), IH.
    simpl. lia.
  - rewrite !cnt_app, !(cnt_one _ b KBang Kb), IH. reflexivity.
Qed.

Lemma TE_open pre t : TE pre t -> pre = [] \/ cnt KBrackC pre < cnt KBrackO pre.
Proof.
  induction 1 as [t H1 H2|o pre t Ko Hte IH|o body inner t Ko Hd Hc Hb]; [left; reflexivity| |]; right.
  - change (o :: pre) with ([o] ++ pre). rewrite !cnt_app, !(cnt_one _ o KBrackO Ko). simpl.
    destruct IH as [->|IH]; simpl; lia.
  - change (o :: body) with ([o] ++ body). rewrite !cnt_app, !(cnt_one _ o KBrackO Ko), (D_type_balanced _ _ Hd). simpl. lia.
Qed.

(* an erroneous prefix is not a type ... *)
Lemma TE_incomplete pre t y : TE pre t -> ~ D_type nl pre y.
Proof.
  intros Hte Hd. destruct (TE_open _ _ Hte) as [->|Hlt].
  - exact (D_type_nonempty _ _ Hd eq_refl).
  - rewrite (D_type_balanced _ _ Hd) in Hlt. lia.
Qed.

(* ... and no type starts with it followed by the blamed token *)
Lemma TE_dead : forall l y, D_type nl l y -> forall pre t r, TE pre t -> l <> pre ++ t :: r.
Proof.
  induction 1 as [n Kn|o ts c inner Ko Kc Hd IH|ts b inner Kb Hd IH Hnn]; intros pre t r Hte E.
  - destruct pre as [|p pre]; [|injection E as _ E; destruct pre; discriminate].
    injection E as -> _. inversion Hte; subst. congruence.
  - destruct (exists_last (l := t :: r) ltac:(discriminate)) as (r' & c' & Er).
    destruct Hte as [t H1 H2|o1 pre t Ko1 Hte|o1 body inner1 t Ko1 Hd1 Hc1 Hb1].
    + injection E as -> _. congruence.
    + injection E as _ E. rewrite Er, app_assoc in E. apply app_inj_tail in E. destruct E as [E _].
      destruct r' as [|t' r''].
      * destruct r; [|destruct r; discriminate]. rewrite app_nil_r in E. subst ts. exact (TE_incomplete _ _ _ Hte Hd).
      * simpl in Er. injection Er as -> _. exact (IH _ _ _ Hte E).
    + injection E as _ E. rewrite Er, app_assoc in E. apply app_inj_tail in E. destruct E as [E Ec].
      destruct r' as [|t' r''].
      * destruct r; [|destruct r; discriminate]. injection Er as ->. congruence.
      * simpl in Er. injection Er as -> _.
        destruct (D_type_prefix _ _ Hd _ _ Hd1 _ _ E) as (Kt & _ & Hx). exact (Hb1 Kt Hx).
  - destruct (exists_last (l := t :: r) ltac:(discriminate)) as (r' & c' & Er).
    rewrite Er, app_assoc in E. apply app_inj_tail in E. destruct E as [E _].
    destruct r' as [|t' r''].
    + rewrite app_nil_r in E. subst ts. exact (TE_incomplete _ _ _ Hte Hd).
    + simpl in Er. injection Er as -> _. exact (IH _ _ _ Hte E).
Qed.

(* it can be completed to a type *)
Definition a_name : ptok := PTok KName [] 0 0.
Definition a_close : ptok := PTok KBrackC [] 0 0.
Definition an_eof : ptok := PTok KEOF [] 0 0.

Lemma TE_completable pre t : TE pre t -> exists suffix y, D_type nl (pre ++ suffix) y.
Proof.
  induction 1 as [t H1 H2|o pre t Ko Hte IH|o body inner t Ko Hd Hc Hb].
  - exists [a_name]. eexists. simpl. constructor. reflexivity.
  - destruct IH as (suf & y & Hy). exists (suf ++ [a_close]). eexists.
    simpl. rewrite app_assoc. constructor; [exact Ko|reflexivity|exact Hy].
  - exists [a_close]. eexists. simpl. constructor; [exact Ko|reflexivity|exact Hd].
Qed.

(* ---- the statements about sentences SOF Type EOF ---- *)
Theorem TE_blamed sof pre t : tk sof = KSOF -> TE pre t -> blamed (type_sentence nl) (sof :: pre) t.
Proof.
  intros Ks Hte. split.
  - destruct (TE_completable _ _ Hte) as (suf & y & Hy). exists (suf ++ [an_eof]).
    exists (pre ++ suf), y. split; [|exact Hy]. exists sof, an_eof. simpl. rewrite app_assoc. auto.
  - intros (rest & body & y & (sof' & eof & Ks' & Ke & E) & Hy).
    simpl in E. injection E as _ E. rewrite <- app_assoc in E. simpl in E.
    destruct (exists_last (l := t :: rest) ltac:(discriminate)) as (r' & c' & Er).
    rewrite Er, app_assoc in E. apply app_inj_tail in E. destruct E as [E _].
    destruct r' as [|t' r''].
    + rewrite app_nil_r in E. subst body. exact (TE_incomplete _ _ _ Hte Hy).
    + simpl in Er. injection Er as -> _. symmetry in E. exact (TE_dead _ _ Hy _ _ _ Hte E).
Qed.

(* after a complete type only EOF can follow -- except "!" after a type that is not yet non-null *)
Theorem after_type_blamed sof body y t :
  tk sof = KSOF -> D_type nl body y -> tk t <> KEOF -> (tk t = KBang -> ~ not_non_null y) ->
  blamed (type_sentence nl) (sof :: body) t.
Proof.
  intros Ks Hd Ht Hb. split.
  - exists [an_eof]. exists body, y. split; [|exact Hd]. exists sof, an_eof. auto.
  - intros (rest & body' & y' & (sof' & eof & Ks' & Ke & E) & Hy).
    simpl in E. injection E as _ E. rewrite <- app_assoc in E. simpl in E.
    destruct (exists_last (l := t :: rest) ltac:(discriminate)) as (r' & c' & Er).
    rewrite Er, app_assoc in E. apply app_inj_tail in E. destruct E as [E Ec].
    destruct r' as [|t' r''].
    + destruct rest; [|destruct rest; discriminate]. injection Er as ->. congruence.
    + simpl in Er. injection Er as -> _. symmetry in E.
      destruct (D_type_prefix _ _ Hy _ _ Hd _ _ E) as (Kt & _ & Hx). exact (Hb Kt Hx).
Qed.
End TypeGrammar.

(* ================= the model ================= *)
From PyGql Require Proofs.ParserFramework Proofs.ParserTop Proofs.ErrorOrigin.
From PyGql Require Import Proofs.LexTotal.

Definition stuckl (l : list lx) (k p : nat) : Prop := (exists r, l = LE k p :: r) \/ l = [].
Definition NE (pre : list ptok) : Prop := Forall (fun t => tk t <> KEOF) pre.

Lemma pbind_rej {A B} (p : parser A) (f : A -> parser B) st k q :
  pbind p f st = Rejected k q ->
  p st = Rejected k q \/ exists a st1, p st = Ok (a, st1) /\ f a st1 = Rejected k q.
Proof.
  unfold pbind. destruct (p st) as [[a st1]| |k' q'|]; try discriminate.
  - intros H. right. exists a, st1. split; [reflexivity|exact H].
  - intros H. left. injection H as -> ->. reflexivity.
Qed.

Lemma peek_rej st k p : peek st = Rejected k p -> stuckl (toks st) k p.
Proof.
  unfold peek, stuckl. destruct (toks st) as [|[x|k' p'|] r]; try discriminate; [right; reflexivity|].
  intros H; injection H as -> ->. left. eauto.
Qed.

Lemma skip_rej k0 st k p : skip k0 st = Rejected k p -> stuckl (toks st) k p.
Proof.
  unfold skip, pbind, peek, advance, pret, stuckl. destruct (toks st) as [|[x|k' p'|] r] eqn:E; try discriminate.
  - right; reflexivity.
  - destruct (is_kind k0 x); [rewrite E|]; discriminate.
  - intros H; injection H as -> ->. left. eauto.
Qed.

Lemma expect_rej k0 st k p : expect k0 st = Rejected k p ->
  stuckl (toks st) k p
  \/ exists t r, toks st = LT t :: r /\ tk t <> k0 /\ k = E_UnexpectedToken /\ p = tstart t.
Proof.
  unfold expect, pbind, peek, advance, perr, stuckl. destruct (toks st) as [|[x|k' p'|] r] eqn:E; try discriminate.
  - left; right; reflexivity.
  - destruct (is_kind k0 x) eqn:Ek; [rewrite E; discriminate|].
    intros H; injection H as <- <-. right. exists x, r. repeat split.
    intros Hk. unfold is_kind in Ek. rewrite Hk, tkind_eqb_refl in Ek. discriminate.
  - intros H; injection H as -> ->. left; left. eauto.
Qed.

Lemma stuckl_LT t r k p : ~ stuckl (LT t :: r) k p.
Proof. intros [[r' E]|E]; discriminate. Qed.

Section TypeModel.
Variable fl : flags.
Notation nl := (no_location fl).

Lemma parse_named_type_rej st k p : parse_named_type fl st = Rejected k p ->
  stuckl (toks st) k p
  \/ exists t r, toks st = LT t :: r /\ tk t <> KName /\ k = E_UnexpectedToken /\ p = tstart t.
Proof.
  unfold parse_named_type, parse_name. intros H.
  apply pbind_rej in H. destruct H as [H|(start & st1 & Hp & H)]; [left; apply peek_rej; exact H|].
  apply peek_ok in Hp. destruct Hp as [-> _].
  apply pbind_rej in H. destruct H as [H|(nm & st2 & _ & H)]; [|unfold pbind, get_loc, pret in H; discriminate].
  apply pbind_rej in H. destruct H as [H|(t & st2 & _ & H)]; [apply expect_rej; exact H|].
  unfold pbind, get_loc, pret in H. discriminate.
Qed.

(* a returned type has taken the "!" it could take *)
Lemma parse_type_maximal n st t st' : parse_type_reference fl n st = Ok (t, st') ->
  match toks st' with LT x :: _ => tk x = KBang -> ~ not_non_null t | _ => True end.
Proof.
  destruct n as [|n]; [discriminate|]. simpl. intros H.
  apply pbind_ok in H. destruct H as (start & st1 & _ & H).
  apply pbind_ok in H. destruct H as (b & st2 & _ & H).
  apply pbind_ok in H. destruct H as (base & st3 & _ & H).
  apply pbind_ok in H. destruct H as (b2 & st4 & Hs2 & H).
  apply skip_ok in Hs2. destruct Hs2 as [(-> & x & Hx & Hkx & Hlx)|(-> & -> & x & r & Hx & Hkx)].
  - apply pbind_ok in H. destruct H as (l & st5 & Hg & H).
    apply get_loc_ok in Hg. destruct Hg as [-> ->]. apply pret_ok in H. destruct H as [-> ->].
    destruct (toks st4) as [|[y|? ?|] ?]; auto.
  - apply pret_ok in H. destruct H as [-> ->]. rewrite Hx. intros K. contradiction.
Qed.

Lemma D_type_NE ts t : D_type nl ts t -> NE ts.
Proof.
  unfold NE. induction 1 as [n Kn|o ts c inner Ko Kc Hd IH|ts b inner Kb Hd IH Hnn].
  - constructor; [rewrite Kn; discriminate|constructor].
  - constructor; [rewrite Ko; discriminate|]. apply Forall_app. split; [exact IH|].
    constructor; [rewrite Kc; discriminate|constructor].
  - apply Forall_app. split; [exact IH|]. constructor; [rewrite Kb; discriminate|constructor].
Qed.

Theorem parse_type_rej : forall n st k p, parse_type_reference fl n st = Rejected k p ->
  (exists pre t post, toks st = map LT pre ++ LT t :: post /\ TE nl pre t /\ p = tstart t /\ k = E_UnexpectedToken)
  \/ (exists pre l', toks st = map LT pre ++ l' /\ NE pre /\ stuckl l' k p).
Proof.
  induction n as [|n IH]; intros st k p H; [discriminate|]. simpl in H.
  apply pbind_rej in H. destruct H as [H|(start & st1 & Hp & H)].
  { right. exists [], (toks st). split; [reflexivity|split; [constructor|apply peek_rej; exact H]]. }
  apply peek_ok in Hp. destruct Hp as [-> [r Hr]].
  apply pbind_rej in H. destruct H as [H|(b & st2 & Hs & H)].
  { apply skip_rej in H. rewrite Hr in H. exfalso. exact (stuckl_LT _ _ _ _ H). }
  apply skip_ok in Hs. destruct Hs as [(-> & o & Ho & Hko & Hlo)|(-> & -> & t0 & r0 & Ht0 & Hk0)].
  - (* "[" *)
    rewrite Hr in Ho. injection Ho as E1 E2. subst o.
    apply pbind_rej in H. destruct H as [H|(base & st3 & Hb & H)].
    + apply pbind_rej in H. destruct H as [H|(inner & st4 & Hi & H)].
      * (* inside the brackets *)
        destruct (IH _ _ _ H) as [(pre & t & post & Et & Hte & -> & ->)|(pre & l' & Et & Hne & Hst)].
        -- left. exists (start :: pre), t, post. rewrite Hr, E2, Et. repeat split. apply TE_inner; assumption.
        -- right. exists (start :: pre), l'. rewrite Hr, E2, Et. repeat split; [|exact Hst].
           constructor; [rewrite Hko; discriminate|exact Hne].
      * (* after "[ T" *)
        pose proof (parse_type_maximal _ _ _ _ Hi) as Hmax.
        apply parse_type_sound in Hi. destruct Hi as (tsi & Hnei & Hti & Hdi & Hli).
        apply pbind_rej in H. destruct H as [H|(c & st5 & _ & H)]; [|unfold pbind, get_loc, pret in H; discriminate].
        destruct (expect_rej _ _ _ _ H) as [Hst|(x & rx & Hx & Hkx & -> & ->)].
        -- right. exists (start :: tsi), (toks st4). rewrite Hr, E2, Hti. repeat split; [|exact Hst].
           constructor; [rewrite Hko; discriminate|exact (D_type_NE _ _ Hdi)].
        -- left. exists (start :: tsi), x, rx. rewrite Hr, E2, Hti, Hx. repeat split.
           rewrite Hx in Hmax. apply TE_close with inner; assumption.
    + (* after "[ T ]" *)
      apply pbind_ok in Hb. destruct Hb as (inner & st4 & Hi & Hb).
      apply parse_type_sound in Hi. destruct Hi as (tsi & Hnei & Hti & Hdi & Hli).
      apply pbind_ok in Hb. destruct Hb as (c & st5 & Hc & Hb).
      apply expect_ok in Hc. destruct Hc as (Htc & Hlc & Hkc).
      apply pbind_ok in Hb. destruct Hb as (l & st6 & Hg & Hb).
      apply get_loc_ok in Hg. destruct Hg as [-> ->]. apply pret_ok in Hb. destruct Hb as [-> ->].
      apply pbind_rej in H. destruct H as [H|(b2 & st7 & _ & H)].
      * right. exists (start :: tsi ++ [c]), (toks st5). rewrite Hr, E2, Hti, Htc. split.
        { simpl. rewrite map_app, <- app_assoc. reflexivity. }
        split; [|apply skip_rej in H; exact H].
        constructor; [rewrite Hko; discriminate|]. apply Forall_app. split; [exact (D_type_NE _ _ Hdi)|].
        constructor; [rewrite Hkc; discriminate|constructor].
      * destruct b2; unfold pbind, get_loc, pret in H; discriminate.
  - (* a named type *)
    rewrite Hr in Ht0. injection Ht0 as <- <-.
    apply pbind_rej in H. destruct H as [H|(base & st3 & Hb & H)].
    + destruct (parse_named_type_rej _ _ _ H) as [Hst|(x & rx & Hx & Hkx & -> & ->)].
      * rewrite Hr in Hst. exfalso. exact (stuckl_LT _ _ _ _ Hst).
      * rewrite Hr in Hx. injection Hx as <- <-. left. exists [], start, r. rewrite Hr. repeat split.
        apply TE_start; assumption.
    + apply parse_named_type_ok in Hb. destruct Hb as (x & Hx & Hk & Hl & ->).
      apply pbind_rej in H. destruct H as [H|(b2 & st7 & _ & H)].
      * right. exists [x], (toks st3). rewrite Hx. repeat split; [|apply skip_rej in H; exact H].
        constructor; [rewrite Hk; discriminate|constructor].
      * destruct b2; unfold pbind, get_loc, pret in H; discriminate.
Qed.
End TypeModel.

(* ---- parse_type ---- *)
Lemma wf_stream_tokens pre : ParserFramework.wf_stream (map LT pre) -> pre <> [] -> NE pre -> False.
Proof.
  induction pre as [|t pre IH]; [congruence|]. intros Hw _ Hne. inversion Hne as [|? ? Ht Hne']; subst.
  destruct pre as [|t2 pre].
  - simpl in Hw. destruct Hw as [Hk _]. contradiction.
  - simpl in Hw. destruct Hw as [_ Hw]. apply IH; [exact Hw|discriminate|exact Hne'].
Qed.

Lemma stuck_stream s pre l' k p :
  lex_stream s = map LT pre ++ l' -> pre <> [] -> NE pre -> stuckl l' k p -> lex s = Rejected k p.
Proof.
  intros E Hpre Hne [[r ->]| ->].
  - apply ErrorOrigin.lex_stream_error. rewrite E. apply in_or_app. right. left. reflexivity.
  - exfalso. rewrite app_nil_r in E. destruct (ParserTop.lex_stream_ok s) as [_ Hw]. rewrite E in Hw.
    exact (wf_stream_tokens pre Hw Hpre Hne).
Qed.

Theorem parse_type_blame fl s k p :
  parse_type_str fl s = Rejected k p ->
  lex s = Rejected k p
  \/ exists pre t post, lex_stream s = map LT pre ++ LT t :: post /\ p = tstart t /\ k = E_UnexpectedToken
                        /\ blamed (type_sentence (no_location fl)) pre t.
Proof.
  unfold parse_type_str, run. set (n := parse_fuel (lex_stream s)).
  destruct (parse_type_p fl n (PSt (lex_stream s) 0)) as [[a st']| |k' p'|] eqn:E; try discriminate.
  intros H; injection H as -> ->. unfold parse_type_p in E.
  set (sof := PTok KSOF [] 0 0) in *.
  assert (Es : exists l0, lex_stream s = LT sof :: l0) by (eexists; reflexivity). destruct Es as [l0 Es].
  rewrite Es in E.
  assert (Hsof : expect KSOF (PSt (LT sof :: l0) 0) = Ok (sof, PSt l0 0)) by reflexivity.
  unfold pbind at 1 in E. rewrite Hsof in E.
  assert (Ksof : tk sof = KSOF) by reflexivity.
  assert (Nsof : tk sof <> KEOF) by discriminate.
  apply pbind_rej in E. destruct E as [E|(ty & st2 & Ht & E)].
  - destruct (parse_type_rej fl _ _ _ _ E) as [(pre & t & post & Et & Hte & -> & ->)|(pre & l' & Et & Hne & Hst)];
      simpl in Et.
    + right. exists (sof :: pre), t, post. rewrite Es, Et. split; [reflexivity|split; [reflexivity|split; [reflexivity|apply TE_blamed; assumption]]].
    + left. apply (stuck_stream s (sof :: pre) l'); [rewrite Es, Et; reflexivity|discriminate| |exact Hst].
      constructor; assumption.
  - pose proof (parse_type_maximal _ _ _ _ _ Ht) as Hmax.
    apply parse_type_sound in Ht. destruct Ht as (body & Hneb & Htb & Hdb & _). simpl in Htb.
    apply pbind_rej in E. destruct E as [E|(c & st5 & _ & E)]; [|unfold pret in E; discriminate].
    destruct (expect_rej _ _ _ _ E) as [Hst|(x & rx & Hx & Hkx & -> & ->)].
    + left. apply (stuck_stream s (sof :: body) (toks st2)); [rewrite Es, Htb; reflexivity|discriminate| |exact Hst].
      constructor; [assumption|exact (D_type_NE _ _ _ Hdb)].
    + right. exists (sof :: body), x, rx. rewrite Es, Htb, Hx. rewrite Hx in Hmax.
      split; [reflexivity|split; [reflexivity|split; [reflexivity|apply after_type_blamed with ty; assumption]]].
Qed.
