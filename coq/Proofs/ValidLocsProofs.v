(* When do locations identify field maps ([faithful_locations], the hypothesis of
   the theorem about named fragments)? When the selection sets of the document
   have pairwise distinct locations, type conditions are composite types
   (FragmentsOnCompositeTypes) and the parent type the traversal gives the
   sub-selection of a field is the one the pairwise descent computes for it
   ([lookups_agree]: true for a field of composite type other than the
   introspection meta fields, and for a field the parent does not define). *)
From PyGql Require Import Valid.ValidOverlap Spec.ValidSpec Spec.ValidLocalSpec Proofs.ValidCloseProofs
     Proofs.ValidGraphProofs Proofs.ValidVarProofs Proofs.ValidStaticProofs Proofs.ValidLocalProofs
     Proofs.ValidMergeProofs Proofs.ValidFuelProofs Proofs.ValidRuntimeProofs.
From PyGql Require Import Proofs.ValidMemoProofs.
From Coq Require Import Lia.

Definition lookups_agree (s : schema) (d : document) : Prop :=
  forall q a n args dirs l0 sub l, reaches s d q (SField a n args dirs (Some l0) sub l) ->
    composite_name s (option_map sf_type (field_lookup s q (n_val n)))
    = option_map unwrap (match ov_field_def s q (n_val n) with Some fd => Some (sf_type fd) | None => None end).

Definition visited (s : schema) (d : document) (p : option str) (l : loc) (sels : list selection) : Prop :=
  In (ESelSet p l sels) (doc_events s d).

Lemma visited_members s d p l sels : visited s d p l sels -> forall x, In x sels -> reaches s d p x.
Proof.
  unfold visited, doc_events. intros H x Hx. apply in_flat_map in H. destruct H as [df [Hdf He]].
  destruct (def_events_inv s df _ He) as [(dr & w & _ & _ & E)|[(l' & E)|(x0 & q & z & ty' & cf' & Hx0 & Hd & Hq & Hin)]].
  - discriminate.
  - inversion E; subst. exists df, x. split; [exact Hdf|]. split; [exact Hx|constructor].
  - exists df, x0. split; [exact Hdf|]. split; [exact Hx0|]. eapply descends_trans; [exact Hd|].
    destruct z as [a n args dirs sl sub l1|n dirs l1|tc dirs ssl sub l1]; simpl in Hin.
    + destruct Hin as [E|Hin]; [discriminate|]. apply in_app_or in Hin. destruct Hin as [Hin|Hin].
      * apply in_map_iff in Hin. destruct Hin as [y [E _]]. discriminate.
      * destruct sl as [l0|]; [|destruct Hin]. destruct Hin as [E|[]]. inversion E; subst.
        eapply desc_field; [exact Hx|]. rewrite <- field_parent_eq. constructor.
    + destruct Hin as [E|Hin]; [discriminate|]. apply in_map_iff in Hin. destruct Hin as [y [E _]]. discriminate.
    + destruct Hin as [E|Hin]; [discriminate|]. apply in_app_or in Hin. destruct Hin as [Hin|Hin].
      * apply in_map_iff in Hin. destruct Hin as [y [E _]]. discriminate.
      * destruct Hin as [E|[]]. inversion E; subst. destruct tc as [t|].
        -- eapply desc_inline_on; [exact Hx|]. rewrite sel_parent_out_filter. constructor.
        -- eapply desc_inline; [exact Hx|]. rewrite sel_parent_out_filter. constructor.
Qed.

Lemma visited_of_field s d q a n args dirs l0 sub l :
  reaches s d q (SField a n args dirs (Some l0) sub l) ->
  visited s d (composite_name s (option_map sf_type (field_lookup s q (n_val n)))) l0 sub.
Proof.
  intros Hr. destruct (reaches_events _ _ _ _ Hr) as (ty' & cf' & Hq & Hin). apply Hin.
  rewrite sel_events_field. cbv zeta. right. apply in_or_app. right. left. rewrite field_parent_eq. reflexivity.
Qed.

Lemma visited_of_fragment s d n vds tc dirs ssl sels l :
  In (DFragment n vds tc dirs ssl sels l) (doc_defs d) ->
  visited s d (composite_name s (type_from_ast s tc)) ssl sels.
Proof.
  intros Hdf. unfold visited, doc_events. apply in_flat_map. exists (DFragment n vds tc dirs ssl sels l). split; [exact Hdf|].
  simpl. apply in_or_app. right. left. rewrite sel_parent_out_filter. reflexivity.
Qed.

(* ---- where the entries of a field map come from ---- *)
Inductive origin (s : schema) : option str -> selection -> finfo -> Prop :=
| or_field po alias n args dirs sl sub l :
    origin s po (SField alias n args dirs sl sub l)
           (FInfo po (n_val n) args (match sl with Some l0 => Some (l0, sub) | None => None end)
                  (ov_field_def s po (n_val n)))
| or_inline po tc dirs ssl sub l y f :
    In y sub -> origin s (match tc with Some t => ov_type_name s t | None => po end) y f ->
    origin s po (SInline tc dirs ssl sub l) f.

Definition entries (m : fmap) : list finfo := flat_map snd m.

Lemma entries_add k x m f : In f (entries (fmap_add k x m)) -> f = x \/ In f (entries m).
Proof.
  unfold entries. induction m as [|[k' xs] m IH]; simpl.
  - intros [E|[]]. left. symmetry. exact E.
  - destruct (str_eqb k k'); simpl.
    + intros H. apply in_app_or in H. destruct H as [H|H]; [|right; apply in_or_app; right; exact H].
      apply in_app_or in H. destruct H as [H|[E|[]]]; [right; apply in_or_app; left; exact H|left; symmetry; exact E].
    + intros H. apply in_app_or in H. destruct H as [H|H]; [right; apply in_or_app; left; exact H|].
      destruct (IH H) as [E|H']; [left; exact E|right; apply in_or_app; right; exact H'].
Qed.

Lemma collect_origin s : forall x po acc f,
  In f (entries (fst (ov_collect_sel s po x acc))) -> In f (entries (fst acc)) \/ origin s po x f.
Proof.
  induction x as [alias nm args dirs sl sub l IH|nm dirs l|tc dirs ssl sub l IH] using selection_ind'; intros po acc f Hin.
  - simpl ov_collect_sel in Hin. simpl fst in Hin. apply entries_add in Hin. destruct Hin as [->|Hin]; [right|left; exact Hin].
    apply or_field.
  - simpl in Hin. left. exact Hin.
  - simpl ov_collect_sel in Hin.
    set (p := match tc with Some t => ov_type_name s t | None => po end) in *.
    assert (Hgo : forall ss acc0, (forall y, In y ss -> In y sub) ->
              In f (entries (fst ((fix go (ss : list selection) (a : fmap * list str) : fmap * list str :=
                                     match ss with [] => a | y :: ys => go ys (ov_collect_sel s p y a) end) ss acc0))) ->
              In f (entries (fst acc0)) \/ exists y, In y sub /\ origin s p y f).
    { induction ss as [|y ys IHys]; intros acc0 Hsub H; [left; exact H|].
      destruct (IHys _ (fun z Hz => Hsub z (or_intror Hz)) H) as [H1|H1]; [|right; exact H1].
      rewrite Forall_forall in IH. destruct (IH y (Hsub y (or_introl eq_refl)) p acc0 f H1) as [H2|H2]; [left; exact H2|].
      right. exists y. split; [apply Hsub; left; reflexivity|exact H2]. }
    destruct (Hgo sub acc (fun y Hy => Hy) Hin) as [H|[y [Hy Ho]]]; [left; exact H|right].
    eapply or_inline; [exact Hy|exact Ho].
Qed.

Lemma ff_origin s p sels f :
  In f (entries (fst (fields_and_fragments s p sels))) -> exists x, In x sels /\ origin s p x f.
Proof.
  unfold fields_and_fragments. simpl fst.
  assert (H : forall ss acc, (forall y, In y ss -> In y sels) ->
            In f (entries (fst (fold_left (fun a y => ov_collect_sel s p y a) ss acc))) ->
            In f (entries (fst acc)) \/ exists x, In x sels /\ origin s p x f).
  { induction ss as [|y ys IH]; intros acc Hsub Hin; [left; exact Hin|]. simpl in Hin.
    destruct (IH _ (fun z Hz => Hsub z (or_intror Hz)) Hin) as [H1|H1]; [|right; exact H1].
    destruct (collect_origin s y p acc f H1) as [H2|H2]; [left; exact H2|].
    right. exists y. split; [apply Hsub; left; reflexivity|exact H2]. }
  intros Hin. destruct (H sels ([], []) (fun y Hy => Hy) Hin) as [[]|Hx]. exact Hx.
Qed.

Lemma entries_in m k fs f : In (k, fs) m -> In f fs -> In f (entries m).
Proof. intros Hk Hf. unfold entries. apply in_flat_map. exists (k, fs). tauto. Qed.

(* the memo key of a document: the field map of the first selection set with that location *)
Fixpoint M_of (s : schema) (es : list ev) (l : loc) : fmap :=
  match es with
  | [] => []
  | ESelSet p l' sels :: es' => if loc_eqb l' l then fst (fields_and_fragments s p sels) else M_of s es' l
  | _ :: es' => M_of s es' l
  end.

Lemma M_of_in s : forall es p l sels, NoDup (selset_locs es) -> In (ESelSet p l sels) es ->
  M_of s es l = fst (fields_and_fragments s p sels).
Proof.
  induction es as [|e es IH]; intros p l sels Hnd Hin; [destruct Hin|].
  destruct e as [| p' l' sels' | | |];
    try (simpl in Hnd |- *; destruct Hin as [E|Hin]; [discriminate|apply IH; assumption]).
  simpl in Hnd. inversion Hnd as [|x xs Hnotin Hnd']; subst. simpl.
  destruct Hin as [E|Hin].
  - inversion E; subst. rewrite loc_eqb_refl. reflexivity.
  - destruct (loc_eqb l' l) eqn:El.
    + apply loc_eqb_true in El. subst l'. exfalso. apply Hnotin. eapply selset_locs_in. exact Hin.
    + apply IH; assumption.
Qed.

Lemma frag_table_in : forall ds g tc sels, alookup g (frag_table ds) = Some (tc, sels) ->
  exists n vds dirs ssl l, In (DFragment n vds tc dirs ssl sels l) ds.
Proof.
  induction ds as [|df ds IH]; intros g tc sels H; simpl in H; [discriminate|].
  destruct df as [k n vds dirs ssl sels0 l|n vds tc0 dirs ssl sels0 l| | | | | | | |];
    try (destruct (IH _ _ _ H) as (n' & vds' & dirs' & ssl' & l' & Hin); exists n', vds', dirs', ssl', l'; right; exact Hin).
  destruct (alookup (n_val n) (frag_table ds)) eqn:E.
  - destruct (IH _ _ _ H) as (n' & vds' & dirs' & ssl' & l' & Hin). exists n', vds', dirs', ssl', l'. right. exact Hin.
  - simpl in H. destruct (str_eqb g (n_val n)).
    + inversion H; subst. exists n, vds, dirs, ssl, l. left. reflexivity.
    + destruct (IH _ _ _ H) as (n' & vds' & dirs' & ssl' & l' & Hin). exists n', vds', dirs', ssl', l'. right. exact Hin.
Qed.

Section Locs.
  Variables (s : schema) (d : document).
  Hypothesis Hnd : NoDup (selset_locs (doc_events s d)).
  Hypothesis H6 : spec_fragments_on_composite s d.
  Hypothesis Hagree : lookups_agree s d.
  Let M := M_of s (doc_events s d).
  Let locs := selset_locs (doc_events s d).

  Lemma cond_parent t : composite_condition s t -> ov_type_name s t = composite_name s (type_from_ast s t).
  Proof. intros [n [E Hc]]. unfold ov_type_name. rewrite E. simpl. rewrite Hc. reflexivity. Qed.

  Lemma origin_reaches po x f : reaches s d po x -> origin s po x f ->
    exists po' a n args dirs sl sub l,
      reaches s d po' (SField a n args dirs sl sub l) /\
      f = FInfo po' (n_val n) args (match sl with Some l0 => Some (l0, sub) | None => None end) (ov_field_def s po' (n_val n)).
  Proof.
    intros Hr Ho. induction Ho as [po alias n args dirs sl sub l|po tc dirs ssl sub l y f Hy Ho IH].
    - exists po, alias, n, args, dirs, sl, sub, l. split; [exact Hr|reflexivity].
    - apply IH. eapply reaches_step; [exact Hr|]. destruct tc as [t|].
      + rewrite (cond_parent t (proj2 H6 _ _ _ _ _ _ Hr)). eapply desc_inline_on; [exact Hy|constructor].
      + eapply desc_inline; [exact Hy|constructor].
  Qed.

  Lemma visited_mok : forall n p l sels, visited s d p l sels -> sels_h sels <= n ->
    mok s M locs (fst (fields_and_fragments s p sels)).
  Proof.
    induction n as [|n IH]; intros p l sels Hv Hh k fs f Hk Hf.
    - (* no field with a sub-selection fits in height 0 *)
      constructor. intros l1 s1 E. exfalso.
      pose proof (ff_le s p sels k fs f Hk Hf) as Hle. unfold hs in Hle. rewrite E in Hle. lia.
    - constructor. intros l1 s1 E.
      destruct (ff_origin s p sels f (entries_in _ _ _ _ Hk Hf)) as [x [Hx Ho]].
      destruct (origin_reaches p x f (visited_members s d p l sels Hv x Hx) Ho)
        as (po' & a & nm & args & dirs & sl & sub & l2 & Hr & ->).
      simpl in E. destruct sl as [l0|]; [|discriminate]. inversion E; subst l0 sub. clear E.
      pose proof (visited_of_field s d _ _ _ _ _ _ _ _ Hr) as Hv1. rewrite (Hagree _ _ _ _ _ _ _ _ Hr) in Hv1.
      unfold ft. simpl fi_def.
      assert (EM : M l1 = fst (fields_and_fragments s
                (option_map unwrap match ov_field_def s po' (n_val nm) with Some d0 => Some (sf_type d0) | None => None end) s1)).
      { unfold M. apply (M_of_in s _ _ _ _ Hnd Hv1). }
      split; [exact EM|]. split; [|unfold locs; eapply selset_locs_in; exact Hv1]. rewrite EM. apply (IH _ l1 s1 Hv1).
      pose proof (ff_le s p sels k fs _ Hk Hf) as Hle. unfold hs in Hle. simpl in Hle. lia.
  Qed.

  Theorem faithful_from_agreement : faithful_locations s d.
  Proof.
    split; [exact Hnd|]. exists M. split.
    - intros p l sels Hin. split; [apply (M_of_in s _ _ _ _ Hnd Hin)|]. split; [|eapply selset_locs_in; exact Hin].
      change (M l) with (M_of s (doc_events s d) l). rewrite (M_of_in s _ _ _ _ Hnd Hin). apply (visited_mok (sels_h sels) p l sels Hin). lia.
    - intros g fm fns Hg. unfold frag_ff in Hg.
      destruct (alookup g (frag_table (doc_defs d))) as [[tc sels]|] eqn:E; [|discriminate]. inversion Hg; subst fm fns. clear Hg.
      destruct (frag_table_in _ _ _ _ E) as (n & vds & dirs & ssl & l & Hdf).
      rewrite (cond_parent tc (proj1 H6 _ _ _ _ _ _ _ Hdf)).
      apply (visited_mok (sels_h sels) _ ssl sels (visited_of_fragment s d _ _ _ _ _ _ _ Hdf)). lia.
  Qed.
End Locs.

(* [lookups_agree] from the shape of the document: a field with a sub-selection
   is not an introspection meta field, and its type, when its parent defines it,
   is composite *)
Definition meta_name (n : str) : bool :=
  str_eqb n (S_ "__schema") || str_eqb n (S_ "__type") || str_eqb n (S_ "__typename").

Lemma get_field_def_plain s q n : meta_name n = false -> get_field_def s q n = ov_field_def s (Some q) n.
Proof.
  unfold meta_name, get_field_def, ov_field_def. intros H.
  apply Bool.orb_false_iff in H. destruct H as [H12 H3]. apply Bool.orb_false_iff in H12. destruct H12 as [H1 H2].
  rewrite H1, H2, H3. rewrite !Bool.andb_false_r. reflexivity.
Qed.

Theorem lookups_agree_plain s d :
  (forall q a n args dirs l0 sub l, reaches s d (Some q) (SField a n args dirs (Some l0) sub l) ->
     meta_name (n_val n) = false /\
     forall fd, get_field_def s q (n_val n) = Some fd -> is_composite s (unwrap (sf_type fd)) = true) ->
  lookups_agree s d.
Proof.
  intros H q a n args dirs l0 sub l Hr. destruct q as [q|]; [|reflexivity].
  destruct (H _ _ _ _ _ _ _ _ Hr) as [Hm Hc]. simpl field_lookup. rewrite <- (get_field_def_plain s q _ Hm).
  destruct (get_field_def s q (n_val n)) as [fd|] eqn:E; [|reflexivity]. simpl. rewrite (Hc fd eq_refl). reflexivity.
Qed.

(* [lookups_agree] from rule verdicts: ScalarLeafs silent, no introspection meta
   field with a sub-selection, and field types that are leaf or composite types
   (schema validity: output types that exist) *)
Theorem lookups_agree_rules s d :
  r08_scalar_leafs s d = [] ->
  (forall p n f, get_field_def s p n = Some f ->
     is_leaf s (unwrap (sf_type f)) = true \/ is_composite s (unwrap (sf_type f)) = true) ->
  (forall q a n args dirs l0 sub l, reaches s d (Some q) (SField a n args dirs (Some l0) sub l) ->
     meta_name (n_val n) = false) ->
  lookups_agree s d.
Proof.
  intros H8 Hout Hmeta. apply lookups_agree_plain. intros q a n args dirs l0 sub l Hr.
  split; [eapply Hmeta; exact Hr|]. intros fd Hfd. destruct (Hout _ _ _ Hfd) as [Hl|Hc]; [|exact Hc].
  exfalso. apply (shape_static s d H8). exists q, a, n, args, dirs, (Some l0), sub, l, fd.
  split; [exact Hr|]. split; [exact Hfd|]. left. split; [exact Hl|discriminate].
Qed.

(* ---- the theorem about named fragments with checkable hypotheses ---- *)
Theorem merge_named_plain fuel s d :
  NoDup (selset_locs (doc_events s d)) ->
  r06_fragments_on_composite s d = [] ->
  lookups_agree s d ->
  r25_overlapping_fields fuel s d = Ok [] ->
  forall parent l sels, In (ESelSet parent l sels) (doc_events s d) ->
    let frs := frag_table (doc_defs d) in
    let ff := fields_and_fragments s parent sels in
    (forall g0 g fm fns, In g0 (snd ff) -> sreach s frs g0 g -> frag_ff s frs g = Some (fm, fns) ->
                         maps_mergeable s (fst ff) fm)
    /\ (forall a b x y fm1 fns1 fm2 fns2, In (a, b) (perms (snd ff)) -> preach s frs a b x y -> x <> y ->
          frag_ff s frs x = Some (fm1, fns1) -> frag_ff s frs y = Some (fm2, fns2) ->
          maps_mergeable s fm1 fm2 \/ maps_mergeable s fm2 fm1).
Proof.
  intros Hnd H6 Hag. apply merge_named. apply faithful_from_agreement; [exact Hnd| |exact Hag].
  apply r06_equiv. exact H6.
Qed.

(* the invariant itself: a silent rule leaves a memo state [stf] relative to
   which every call made for a visited selection set is satisfied ([sat]: the
   pairwise conditions, recursively through the sub-selections, and "compared"
   for the memo keys) and every key taken since the initial state is covered
   ([newcov]: the comparison it stands for is satisfied and its nested keys are
   taken) *)
Theorem memo_sound fuel s d M :
  NoDup (selset_locs (doc_events s d)) ->
  events_ok s M (selset_locs (doc_events s d)) (doc_events s d) ->
  (forall g fm fns, frag_ff s (frag_table (doc_defs d)) g = Some (fm, fns) -> mok s M (selset_locs (doc_events s d)) fm) ->
  r25_overlapping_fields fuel s d = Ok [] ->
  exists stf, newcov s (frag_table (doc_defs d)) M (initial_state s d) stf /\
    forall parent l sels, In (ESelSet parent l sels) (doc_events s d) ->
      forall c, In c (selset_calls s parent l sels) -> sat s stf c.
Proof.
  intros Hnd Hev Hfr H. unfold r25_overlapping_fields in H.
  destruct (overlap_events_sound s _ M _ Hfr fuel _ _ H Hev) as [stf [(_ & _ & Hcov) Hsat]].
  - unfold initial_state. simpl. rewrite ff_universe_fst. exact Hnd.
  - exists stf. split; [exact Hcov|exact Hsat].
Qed.

(* every depth, with the checkable hypotheses *)
Theorem merge_deep_plain fuel s d :
  NoDup (selset_locs (doc_events s d)) ->
  r06_fragments_on_composite s d = [] ->
  lookups_agree s d ->
  r25_overlapping_fields fuel s d = Ok [] ->
  forall parent l sels, In (ESelSet parent l sels) (doc_events s d) ->
    forall c, In c (selset_calls s parent l sels) -> conflict_free s (frag_table (doc_defs d)) c.
Proof.
  intros Hnd H6 Hag. apply merge_deep. apply faithful_from_agreement; [exact Hnd| |exact Hag].
  apply r06_equiv. exact H6.
Qed.
