(* C01 / C02 at document level, soundness for type-system definitions and
   extensions: whatever the parser model accepts as a document is derivable in
   Spec/SdlGrammarSpec.v with the tree of the derivation. *)
From PyGql Require Import Lang.Parser Spec.GrammarSpec Spec.DocGrammarSpec Spec.SdlGrammarSpec
  Proofs.GrammarProofs Proofs.DocGrammarSound.

Ltac pk H x st r Hr :=
  let Hx := fresh "Hp" in pb H x st Hx; apply peek_ok in Hx; destruct Hx as [-> [r Hr]].
Ltac pkw H x st S W := pb H x st S; apply expect_keyword_ok in S; destruct S as [S W].
Ltac pex H x st S K := pb H x st S; apply expect_step in S; destruct S as [S K].
Ltac pnm H t st S K :=
  let nm := fresh "nm" in pb H nm st S; apply parse_name_step in S; destruct S as (t & S & K & ->).
Ltac pfin H fl start r st Hr S :=
  let l := fresh "l" in let s9 := fresh "s9" in let Hg := fresh "Hg" in
  pb H l s9 Hg; apply (get_loc_mk fl start r st _ _ _ _ Hr S) in Hg;
  [destruct Hg as [-> ->]; apply pret_ok in H; destruct H as [-> ->]|].

(* ---- generic pieces ---- *)
Lemma delimited_loop_sound {A} (p : parser A) R delim : psound2 p R ->
  forall n, psound2 (delimited_loop n delim p) (D_sep_list R delim).
Proof.
  intros Hp. induction n as [|n IH]; intros st xs st' H; [discriminate|]. simpl in H.
  pb H x s1 Hx. apply Hp in Hx. destruct Hx as (ts1 & S1 & R1).
  pb H b s2 Hs. apply skip_step in Hs. destruct Hs as [(-> & d & S2 & Kd)|(-> & ->)].
  - pb H xs' s3 Hxs. apply IH in Hxs. destruct Hxs as (ts2 & S3 & R2).
    apply pret_ok in H. destruct H as [-> ->].
    exists (ts1 ++ d :: ts2). split; [exact (S1 >> S2 >> S3)|]. constructor 2; assumption.
  - apply pret_ok in H. destruct H as [-> ->]. exists ts1. split; [exact S1|constructor; exact R1].
Qed.

Lemma skip_lead_sound delim st b st' : skip delim st = Ok (b, st') ->
  exists lead, step st lead st' /\ D_opt_lead delim lead.
Proof.
  intros H. apply skip_step in H. destruct H as [(-> & d & S & K)|(-> & ->)].
  - exists [d]. split; [exact S|constructor; exact K].
  - exists []. split; [apply step_nil|constructor].
Qed.

Lemma opt_block_sound {A} (p : parser A) R n open close : psound2 p R ->
  psound2 (pdo t <- peek; if is_kind open t then many n open p close else pret [])
          (D_opt_block R open close).
Proof.
  intros Hp st x st' H. pb H t s1 Ht. apply peek_ok in Ht. destruct Ht as [-> _].
  destruct (is_kind open t).
  - apply (many_sound p R n open close Hp) in H.
    destruct H as (ts & S & o & body & cl & -> & Ko & Kc & Hl & Hne).
    exists (o :: body ++ [cl]). split; [exact S|constructor; assumption].
  - apply pret_ok in H. destruct H as [-> ->]. exists []. split; [apply step_nil|constructor].
Qed.

Section SdlSound.
Variable fl : flags.
Variable n : nat.
Notation nl := (no_location fl).
Notation fv := (fragment_variables fl).

Lemma parse_description_sound : psound2 (parse_description fl) (D_description nl).
Proof.
  intros st x st' H. unfold parse_description in H. pk H t s0 r Hr.
  destruct (is_string_tok t) eqn:Es.
  - pb H sv s1 Hsv. unfold parse_string_literal in Hsv.
    pb Hsv t' s2 Ha. apply advance_step in Ha. pose proof (head_eq Hr Ha) as E. subst t'.
    pfin Hsv fl t r st Hr Ha; [|discriminate].
    apply pret_ok in H. destruct H as [-> ->]. exists [t]. split; [exact Ha|].
    unfold is_string_tok in Es. apply orb_true_iff in Es. unfold is_kind in *.
    destruct Es as [E|E]; apply tkind_eqb_eq in E; rewrite E; simpl; constructor; exact E.
  - apply pret_ok in H. destruct H as [-> ->]. exists []. split; [apply step_nil|constructor].
Qed.

Lemma named_type_sound : psound2 (parse_named_type fl) (D_named_type nl).
Proof.
  intros st x st' H. apply parse_named_type_step in H. destruct H as (t & S & K & ->).
  exists [t]. split; [exact S|constructor; exact K].
Qed.

Lemma default_sound s3 b s4 dv s5 :
  skip KEquals s3 = Ok (b, s4) ->
  (if b then (pdo x <- parse_value_literal fl n true; pret (Some x)) else pret None) s4 = Ok (dv, s5) ->
  exists defts, step s3 defts s5 /\ D_default nl defts dv.
Proof.
  intros Hs Hdv. apply skip_step in Hs. destruct Hs as [(-> & eq & S4 & Keq)|(-> & ->)].
  - pb Hdv v0 s6 Hv0. apply value_sound2 in Hv0. destruct Hv0 as (vts & S5 & _ & Dv).
    apply pret_ok in Hdv. destruct Hdv as [-> ->].
    exists (eq :: vts). split; [exact (S4 >> S5)|constructor; assumption].
  - apply pret_ok in Hdv. destruct Hdv as [-> ->]. exists []. split; [apply step_nil|constructor].
Qed.

(* ---- members ---- *)
Lemma parse_input_value_definition_sound :
  psound2 (parse_input_value_definition fl n) (D_input_value nl).
Proof.
  intros st x st' H. unfold parse_input_value_definition in H.
  pk H start s0 r Hr.
  pb H desc s1 Hd. apply parse_description_sound in Hd. destruct Hd as (dsts & S0 & Dd).
  pnm H t s2 S1 Kt. pex H colon s3 S2 Kc.
  pb H ty0 s4 Ht. apply type_sound2 in Ht. destruct Ht as (tyts & S3 & _ & Dt).
  pb H b s5 Hs. pb H dv s6 Hdv. destruct (default_sound _ _ _ _ _ Hs Hdv) as (defts & S4 & Ddef).
  pb H dirs s7 Hds. apply (parse_directives_sound fl n true) in Hds. destruct Hds as (dts & S5 & Dds).
  pose proof (S0 >> S1 >> S2 >> S3 >> S4 >> S5) as S. simpl in S.
  pfin H fl start r st Hr S; [|destruct dsts; discriminate].
  exists (dsts ++ t :: colon :: tyts ++ defts ++ dts). split; [exact S|]. constructor; assumption.
Qed.

Lemma parse_argument_definitions_sound :
  psound2 (parse_argument_definitions fl n) (D_args_def nl).
Proof. apply opt_block_sound. apply parse_input_value_definition_sound. Qed.

Lemma parse_input_fields_definition_sound :
  psound2 (parse_input_fields_definition fl n) (D_input_fields nl).
Proof. apply opt_block_sound. apply parse_input_value_definition_sound. Qed.

Lemma parse_field_definition_sound : psound2 (parse_field_definition fl n) (D_field_def nl).
Proof.
  intros st x st' H. unfold parse_field_definition in H.
  pk H start s0 r Hr.
  pb H desc s1 Hd. apply parse_description_sound in Hd. destruct Hd as (dsts & S0 & Dd).
  pnm H t s2 S1 Kt.
  pb H args s3 Ha. apply parse_argument_definitions_sound in Ha. destruct Ha as (ats & S2 & Da).
  pex H colon s4 S3 Kc.
  pb H ty0 s5 Ht. apply type_sound2 in Ht. destruct Ht as (tyts & S4 & _ & Dt).
  pb H dirs s6 Hds. apply (parse_directives_sound fl n true) in Hds. destruct Hds as (dts & S5 & Dds).
  pose proof (S0 >> S1 >> S2 >> S3 >> S4 >> S5) as S. simpl in S.
  pfin H fl start r st Hr S; [|destruct dsts; discriminate].
  exists (dsts ++ t :: ats ++ colon :: tyts ++ dts). split; [exact S|]. constructor; assumption.
Qed.

Lemma parse_fields_definition_sound : psound2 (parse_fields_definition fl n) (D_fields_def nl).
Proof. apply opt_block_sound. apply parse_field_definition_sound. Qed.

Lemma parse_enum_value_definition_sound : psound2 (parse_enum_value_definition fl n) (D_enum_value nl).
Proof.
  intros st x st' H. unfold parse_enum_value_definition in H.
  pk H start s0 r Hr.
  pb H desc s1 Hd. apply parse_description_sound in Hd. destruct Hd as (dsts & S0 & Dd).
  pk H t0 s2 r0 Hr0.
  destruct (is_kind KName t0 && (is_kw "true" (tval t0) || is_kw "false" (tval t0) || is_kw "null" (tval t0))) eqn:Er;
    [exfalso; exact (unexpected_not_ok _ _ _ _ H)|].
  pnm H t s3 S1 Kt. pose proof (head_eq Hr0 S1) as E. subst t0.
  pb H dirs s4 Hds. apply (parse_directives_sound fl n true) in Hds. destruct Hds as (dts & S2 & Dds).
  pose proof (S0 >> S1 >> S2) as S. simpl in S.
  pfin H fl start r st Hr S; [|destruct dsts; discriminate].
  exists (dsts ++ t :: dts). split; [exact S|]. constructor; auto.
  unfold is_kind in Er. rewrite Kt, tkind_eqb_refl in Er. simpl in Er.
  apply orb_false_iff in Er. destruct Er as [Er E3]. apply orb_false_iff in Er. destruct Er as [E1 E2].
  unfold is_kw, kw in *. apply str_eqb_neq in E1, E2, E3. unfold is_reserved. tauto.
Qed.

Lemma parse_enum_values_definition_sound : psound2 (parse_enum_values_definition fl n) (D_enum_values nl).
Proof. apply opt_block_sound. apply parse_enum_value_definition_sound. Qed.

Lemma parse_operation_type_definition_sound :
  psound2 (parse_operation_type_definition fl) (D_op_type_def nl).
Proof.
  intros st x st' H. unfold parse_operation_type_definition in H.
  pk H start s0 r Hr.
  pb H k s1 Hk. unfold parse_operation_type in Hk. pex Hk kt s2 S0 Kk.
  destruct (op_kind_of (tval kt)) as [kind|] eqn:Eo; [|exfalso; exact (unexpected_not_ok _ _ _ _ Hk)].
  apply pret_ok in Hk. destruct Hk as [-> ->].
  pex H colon s3 S1 Kc.
  pb H ty0 s4 Ht. apply parse_named_type_step in Ht. destruct Ht as (t & S2 & Kt & ->).
  pose proof (S0 >> S1 >> S2) as S. simpl in S. pose proof (head_eq Hr S) as E. subst kt.
  pfin H fl start r st Hr S; [|discriminate].
  exists [start; colon; t]. split; [exact S|]. constructor; auto. apply op_kind_of_spec; assumption.
Qed.

Lemma op_types_sound : psound2 (many n KCurlyO (parse_operation_type_definition fl) KCurlyC) (D_op_types nl).
Proof.
  intros st x st' H. apply (many_sound _ _ n KCurlyO KCurlyC parse_operation_type_definition_sound) in H.
  destruct H as (ts & S & o & body & cl & -> & Ko & Kc & Hl & Hne).
  exists (o :: body ++ [cl]). split; [exact S|constructor; assumption].
Qed.

Lemma parse_implements_interfaces_sound : psound2 (parse_implements_interfaces fl n) (D_implements nl).
Proof.
  intros st x st' H. unfold parse_implements_interfaces in H. pk H t s0 r Hr.
  destruct (is_kind KName t && is_kw "implements" (tval t)) eqn:E.
  - pb H k s1 Ha. apply advance_step in Ha. pose proof (head_eq Hr Ha) as E2. subst k.
    pb H b s2 Hs. destruct (skip_lead_sound _ _ _ _ Hs) as (lead & S1 & Dl).
    apply (delimited_loop_sound _ _ KAmp named_type_sound) in H. destruct H as (ts & S2 & Ds).
    exists (t :: lead ++ ts). split; [exact (Ha >> S1 >> S2)|]. constructor; auto.
    apply andb_true_iff in E. destruct E as [E1 E3].
    split; [apply tkind_eqb_eq; exact E1|apply str_eqb_eq; exact E3].
  - apply pret_ok in H. destruct H as [-> ->]. exists []. split; [apply step_nil|constructor].
Qed.

Lemma parse_union_member_types_sound : psound2 (parse_union_member_types fl n) (D_union_members nl).
Proof.
  intros st x st' H. unfold parse_union_member_types in H.
  pb H b s1 Hs. apply skip_step in Hs. destruct Hs as [(-> & eq & S0 & Ke)|(-> & ->)].
  - unfold delimited_list in H. pb H b2 s2 Hs2. destruct (skip_lead_sound _ _ _ _ Hs2) as (lead & S1 & Dl).
    apply (delimited_loop_sound _ _ KPipe named_type_sound) in H. destruct H as (ts & S2 & Ds).
    exists (eq :: lead ++ ts). split; [exact (S0 >> S1 >> S2)|]. constructor; auto.
  - apply pret_ok in H. destruct H as [-> ->]. exists []. split; [apply step_nil|constructor].
Qed.

Lemma mem_str_In_names (v : str) (l : list String.string) :
  mem_str v (map kw l) = true -> In v (map str_of_string l).
Proof. intros H. apply mem_str_In in H. exact H. Qed.

Lemma parse_directive_location_sound : psound2 (parse_directive_location fl) (D_directive_location nl).
Proof.
  intros st x st' H. unfold parse_directive_location in H. pk H start s0 r Hr.
  pnm H t s1 S0 Kt.
  destruct (mem_str (n_val (name_node nl t)) (map kw directive_locations)) eqn:Em; [|discriminate].
  apply pret_ok in H. destruct H as [-> ->].
  exists [t]. split; [exact S0|]. constructor; [exact Kt|]. apply mem_str_In_names. exact Em.
Qed.

(* ---- definitions ---- *)
Ltac pdesc H desc st dsts S D :=
  pb H desc st S; apply parse_description_sound in S; destruct S as (dsts & S & D).
Ltac pdirs H dirs st dts S D :=
  pb H dirs st S; apply (parse_directives_sound fl n true) in S; destruct S as (dts & S & D).

Lemma parse_schema_definition_sound :
  psound2 (parse_schema_definition fl n) (D_type_system_definition nl).
Proof.
  intros st x st' H. unfold parse_schema_definition in H. pk H start s0 r Hr.
  pkw H k s1 S0 Wk. pose proof (head_eq Hr S0) as E. subst k.
  pdirs H dirs s2 dts S1 Dd.
  pb H ots s3 Ho. apply op_types_sound in Ho. destruct Ho as (ots_ts & S2 & Do).
  pose proof (S0 >> S1 >> S2) as S. simpl in S.
  pfin H fl start r st Hr S; [|discriminate].
  exists (start :: dts ++ ots_ts). split; [exact S|]. constructor; assumption.
Qed.

Lemma parse_scalar_type_definition_sound :
  psound2 (parse_scalar_type_definition fl n) (D_type_system_definition nl).
Proof.
  intros st x st' H. unfold parse_scalar_type_definition in H. pk H start s0 r Hr.
  pdesc H desc s1 dsts S0 Dd. pkw H k s2 S1 Wk. pnm H t s3 S2 Kt. pdirs H dirs s4 dts S3 Dds.
  pose proof (S0 >> S1 >> S2 >> S3) as S. simpl in S.
  pfin H fl start r st Hr S; [|destruct dsts; discriminate].
  exists (dsts ++ k :: t :: dts). split; [exact S|]. constructor 2; assumption.
Qed.

Lemma parse_object_type_definition_sound :
  psound2 (parse_object_type_definition fl n) (D_type_system_definition nl).
Proof.
  intros st x st' H. unfold parse_object_type_definition in H. pk H start s0 r Hr.
  pdesc H desc s1 dsts S0 Dd. pkw H k s2 S1 Wk. pnm H t s3 S2 Kt.
  pb H ifs s4 Hi. apply parse_implements_interfaces_sound in Hi. destruct Hi as (its & S3 & Di).
  pdirs H dirs s5 dts S4 Dds.
  pb H fs s6 Hf. apply parse_fields_definition_sound in Hf. destruct Hf as (fts & S5 & Df).
  pose proof (S0 >> S1 >> S2 >> S3 >> S4 >> S5) as S. simpl in S.
  pfin H fl start r st Hr S; [|destruct dsts; discriminate].
  exists (dsts ++ k :: t :: its ++ dts ++ fts). split; [exact S|]. constructor 3; assumption.
Qed.

Lemma parse_interface_type_definition_sound :
  psound2 (parse_interface_type_definition fl n) (D_type_system_definition nl).
Proof.
  intros st x st' H. unfold parse_interface_type_definition in H. pk H start s0 r Hr.
  pdesc H desc s1 dsts S0 Dd. pkw H k s2 S1 Wk. pnm H t s3 S2 Kt. pdirs H dirs s4 dts S3 Dds.
  pb H fs s5 Hf. apply parse_fields_definition_sound in Hf. destruct Hf as (fts & S4 & Df).
  pose proof (S0 >> S1 >> S2 >> S3 >> S4) as S. simpl in S.
  pfin H fl start r st Hr S; [|destruct dsts; discriminate].
  exists (dsts ++ k :: t :: dts ++ fts). split; [exact S|]. constructor 4; assumption.
Qed.

Lemma parse_union_type_definition_sound :
  psound2 (parse_union_type_definition fl n) (D_type_system_definition nl).
Proof.
  intros st x st' H. unfold parse_union_type_definition in H. pk H start s0 r Hr.
  pdesc H desc s1 dsts S0 Dd. pkw H k s2 S1 Wk. pnm H t s3 S2 Kt. pdirs H dirs s4 dts S3 Dds.
  pb H tys s5 Hm. apply parse_union_member_types_sound in Hm. destruct Hm as (mts & S4 & Dm).
  pose proof (S0 >> S1 >> S2 >> S3 >> S4) as S. simpl in S.
  pfin H fl start r st Hr S; [|destruct dsts; discriminate].
  exists (dsts ++ k :: t :: dts ++ mts). split; [exact S|]. constructor 5; assumption.
Qed.

Lemma parse_enum_type_definition_sound :
  psound2 (parse_enum_type_definition fl n) (D_type_system_definition nl).
Proof.
  intros st x st' H. unfold parse_enum_type_definition in H. pk H start s0 r Hr.
  pdesc H desc s1 dsts S0 Dd. pkw H k s2 S1 Wk. pnm H t s3 S2 Kt. pdirs H dirs s4 dts S3 Dds.
  pb H vs s5 Hv. apply parse_enum_values_definition_sound in Hv. destruct Hv as (vts & S4 & Dv).
  pose proof (S0 >> S1 >> S2 >> S3 >> S4) as S. simpl in S.
  pfin H fl start r st Hr S; [|destruct dsts; discriminate].
  exists (dsts ++ k :: t :: dts ++ vts). split; [exact S|]. constructor 6; assumption.
Qed.

Lemma parse_input_object_type_definition_sound :
  psound2 (parse_input_object_type_definition fl n) (D_type_system_definition nl).
Proof.
  intros st x st' H. unfold parse_input_object_type_definition in H. pk H start s0 r Hr.
  pdesc H desc s1 dsts S0 Dd. pkw H k s2 S1 Wk. pnm H t s3 S2 Kt. pdirs H dirs s4 dts S3 Dds.
  pb H fs s5 Hf. apply parse_input_fields_definition_sound in Hf. destruct Hf as (fts & S4 & Df).
  pose proof (S0 >> S1 >> S2 >> S3 >> S4) as S. simpl in S.
  pfin H fl start r st Hr S; [|destruct dsts; discriminate].
  exists (dsts ++ k :: t :: dts ++ fts). split; [exact S|]. constructor 7; assumption.
Qed.

Lemma parse_directive_definition_sound :
  psound2 (parse_directive_definition fl n) (D_type_system_definition nl).
Proof.
  intros st x st' H. unfold parse_directive_definition in H. pk H start s0 r Hr.
  pdesc H desc s1 dsts S0 Dd. pkw H k s2 S1 Wk. pex H a s3 S2 Ka. pnm H t s4 S3 Kt.
  pb H args s5 Ha. apply parse_argument_definitions_sound in Ha. destruct Ha as (ats & S4 & Da).
  pkw H o s6 S5 Wo.
  pb H locs s7 Hl. unfold delimited_list in Hl. pb Hl b s8 Hs.
  destruct (skip_lead_sound _ _ _ _ Hs) as (lead & S6 & Dl).
  apply (delimited_loop_sound _ _ KPipe parse_directive_location_sound) in Hl. destruct Hl as (lts & S7 & Dls).
  pose proof (S0 >> S1 >> S2 >> S3 >> S4 >> S5 >> S6 >> S7) as S. simpl in S.
  pfin H fl start r st Hr S; [|destruct dsts; discriminate].
  exists (dsts ++ k :: a :: t :: ats ++ o :: lead ++ lts). split; [exact S|]. constructor 8; assumption.
Qed.

Lemma peek2_ok st t st' : peek2 st = Ok (t, st') -> st' = st.
Proof.
  unfold peek2. destruct (toks st) as [|[x|? ?|] [|[y|? ?|] r]]; try discriminate.
  intros H; inversion H; reflexivity.
Qed.

Lemma parse_type_system_definition_sound :
  psound2 (parse_type_system_definition fl n) (D_type_system_definition nl).
Proof.
  intros st x st' H. unfold parse_type_system_definition in H. pk H next s0 r Hr.
  pb H keyword s1 Hk.
  assert (s1 = st).
  { destruct (is_string_tok next); [apply peek2_ok in Hk; exact Hk|apply pret_ok in Hk; destruct Hk; auto]. }
  subst s1. clear Hk.
  destruct (is_kind KName keyword); [|exfalso; exact (unexpected_not_ok _ _ _ _ H)]. cbv zeta in H.
  destruct (is_kw "schema" (tval keyword)); [apply parse_schema_definition_sound; exact H|].
  destruct (is_kw "scalar" (tval keyword)); [apply parse_scalar_type_definition_sound; exact H|].
  destruct (is_kw "type" (tval keyword)); [apply parse_object_type_definition_sound; exact H|].
  destruct (is_kw "interface" (tval keyword)); [apply parse_interface_type_definition_sound; exact H|].
  destruct (is_kw "union" (tval keyword)); [apply parse_union_type_definition_sound; exact H|].
  destruct (is_kw "enum" (tval keyword)); [apply parse_enum_type_definition_sound; exact H|].
  destruct (is_kw "input" (tval keyword)); [apply parse_input_object_type_definition_sound; exact H|].
  destruct (is_kw "directive" (tval keyword)); [apply parse_directive_definition_sound; exact H|].
  exfalso; exact (unexpected_not_ok _ _ _ _ H).
Qed.

(* ---- extensions ---- *)
Lemma is_nil_false {A} (l : list A) : is_nil l = false -> l <> [].
Proof. destruct l; [discriminate|intros _; discriminate]. Qed.

Lemma nils_false2 {A B} (a : list A) (b : list B) : is_nil a && is_nil b = false -> ~ (a = [] /\ b = []).
Proof. intros H [-> ->]. discriminate. Qed.

Lemma perr_not_ok {A} k p st (r : A * pst) : @perr A k p st <> Ok r.
Proof. discriminate. Qed.

Lemma parse_schema_extension_sound :
  psound2 (parse_schema_extension fl n) (D_type_system_extension nl).
Proof.
  intros st x st' H. unfold parse_schema_extension in H. pk H start s0 r Hr.
  pkw H e s1 S0 We. pose proof (head_eq Hr S0) as E. subst e.
  pkw H k s2 S1 Wk. pdirs H dirs s3 dts S2 Dd.
  pk H t s4 r4 Hr4. pb H ots s5 Ho.
  assert (Hox : exists ots_ts, step s3 ots_ts s5 /\ D_opt_op_types nl ots_ts ots).
  { destruct (is_kind KCurlyO t).
    - apply op_types_sound in Ho. destruct Ho as (ots_ts & S3 & Do). exists ots_ts. split; [exact S3|constructor 2; exact Do].
    - apply pret_ok in Ho. destruct Ho as [-> ->]. exists []. split; [apply step_nil|constructor]. }
  destruct Hox as (ots_ts & S3 & Do).
  destruct (is_nil dirs && is_nil ots) eqn:En.
  { pb H tok s6 Hp. exfalso; exact (unexpected_not_ok _ _ _ _ H). }
  pose proof (S0 >> S1 >> S2 >> S3) as S. simpl in S.
  pfin H fl start r st Hr S; [|discriminate].
  exists (start :: k :: dts ++ ots_ts). split; [exact S|]. constructor; auto. apply nils_false2; exact En.
Qed.

Lemma parse_scalar_type_extension_sound :
  psound2 (parse_scalar_type_extension fl n) (D_type_system_extension nl).
Proof.
  intros st x st' H. unfold parse_scalar_type_extension in H. pk H start s0 r Hr.
  pkw H e s1 S0 We. pose proof (head_eq Hr S0) as E. subst e.
  pkw H k s2 S1 Wk. pnm H t s3 S2 Kt. pdirs H dirs s4 dts S3 Dd.
  destruct (is_nil dirs) eqn:En; [exfalso; exact (unexpected_not_ok _ _ _ _ H)|].
  pose proof (S0 >> S1 >> S2 >> S3) as S. simpl in S.
  pfin H fl start r st Hr S; [|discriminate].
  exists (start :: k :: t :: dts). split; [exact S|]. constructor 2; auto. apply is_nil_false; exact En.
Qed.

Lemma parse_object_type_extension_sound :
  psound2 (parse_object_type_extension fl n) (D_type_system_extension nl).
Proof.
  intros st x st' H. unfold parse_object_type_extension in H. pk H start s0 r Hr.
  pkw H e s1 S0 We. pose proof (head_eq Hr S0) as E. subst e.
  pkw H k s2 S1 Wk. pnm H t s3 S2 Kt.
  pb H ifs s4 Hi. apply parse_implements_interfaces_sound in Hi. destruct Hi as (its & S3 & Di).
  pdirs H dirs s5 dts S4 Dd.
  pb H fs s6 Hf. apply parse_fields_definition_sound in Hf. destruct Hf as (fts & S5 & Df).
  destruct (is_nil ifs && is_nil dirs && is_nil fs) eqn:En.
  { pb H tok s7 Hp. exfalso; exact (unexpected_not_ok _ _ _ _ H). }
  pose proof (S0 >> S1 >> S2 >> S3 >> S4 >> S5) as S. simpl in S.
  pfin H fl start r st Hr S; [|discriminate].
  exists (start :: k :: t :: its ++ dts ++ fts). split; [exact S|]. constructor 3; auto.
  intros (-> & -> & ->). discriminate.
Qed.

Lemma parse_interface_type_extension_sound :
  psound2 (parse_interface_type_extension fl n) (D_type_system_extension nl).
Proof.
  intros st x st' H. unfold parse_interface_type_extension in H. pk H start s0 r Hr.
  pkw H e s1 S0 We. pose proof (head_eq Hr S0) as E. subst e.
  pkw H k s2 S1 Wk. pnm H t s3 S2 Kt. pdirs H dirs s4 dts S3 Dd.
  pb H fs s5 Hf. apply parse_fields_definition_sound in Hf. destruct Hf as (fts & S4 & Df).
  destruct (is_nil dirs && is_nil fs) eqn:En.
  { pb H tok s7 Hp. exfalso; exact (unexpected_not_ok _ _ _ _ H). }
  pose proof (S0 >> S1 >> S2 >> S3 >> S4) as S. simpl in S.
  pfin H fl start r st Hr S; [|discriminate].
  exists (start :: k :: t :: dts ++ fts). split; [exact S|]. constructor 4; auto. apply nils_false2; exact En.
Qed.

Lemma parse_union_type_extension_sound :
  psound2 (parse_union_type_extension fl n) (D_type_system_extension nl).
Proof.
  intros st x st' H. unfold parse_union_type_extension in H. pk H start s0 r Hr.
  pkw H e s1 S0 We. pose proof (head_eq Hr S0) as E. subst e.
  pkw H k s2 S1 Wk. pnm H t s3 S2 Kt. pdirs H dirs s4 dts S3 Dd.
  pb H tys s5 Hm. apply parse_union_member_types_sound in Hm. destruct Hm as (mts & S4 & Dm).
  destruct (is_nil dirs && is_nil tys) eqn:En.
  { pb H tok s7 Hp. exfalso; exact (unexpected_not_ok _ _ _ _ H). }
  pose proof (S0 >> S1 >> S2 >> S3 >> S4) as S. simpl in S.
  pfin H fl start r st Hr S; [|discriminate].
  exists (start :: k :: t :: dts ++ mts). split; [exact S|]. constructor 5; auto. apply nils_false2; exact En.
Qed.

Lemma parse_enum_type_extension_sound :
  psound2 (parse_enum_type_extension fl n) (D_type_system_extension nl).
Proof.
  intros st x st' H. unfold parse_enum_type_extension in H. pk H start s0 r Hr.
  pkw H e s1 S0 We. pose proof (head_eq Hr S0) as E. subst e.
  pkw H k s2 S1 Wk. pnm H t s3 S2 Kt. pdirs H dirs s4 dts S3 Dd.
  pb H vs s5 Hv. apply parse_enum_values_definition_sound in Hv. destruct Hv as (vts & S4 & Dv).
  destruct (is_nil dirs && is_nil vs) eqn:En.
  { pb H tok s7 Hp. exfalso; exact (unexpected_not_ok _ _ _ _ H). }
  pose proof (S0 >> S1 >> S2 >> S3 >> S4) as S. simpl in S.
  pfin H fl start r st Hr S; [|discriminate].
  exists (start :: k :: t :: dts ++ vts). split; [exact S|]. constructor 6; auto. apply nils_false2; exact En.
Qed.

Lemma parse_input_object_type_extension_sound :
  psound2 (parse_input_object_type_extension fl n) (D_type_system_extension nl).
Proof.
  intros st x st' H. unfold parse_input_object_type_extension in H. pk H start s0 r Hr.
  pkw H e s1 S0 We. pose proof (head_eq Hr S0) as E. subst e.
  pkw H k s2 S1 Wk. pnm H t s3 S2 Kt. pdirs H dirs s4 dts S3 Dd.
  pb H fs s5 Hf. apply parse_input_fields_definition_sound in Hf. destruct Hf as (fts & S4 & Df).
  destruct (is_nil dirs && is_nil fs) eqn:En; [exfalso; exact (perr_not_ok _ _ _ _ H)|].
  pose proof (S0 >> S1 >> S2 >> S3 >> S4) as S. simpl in S.
  pfin H fl start r st Hr S; [|discriminate].
  exists (start :: k :: t :: dts ++ fts). split; [exact S|]. constructor 7; auto. apply nils_false2; exact En.
Qed.

Lemma parse_type_system_extension_sound :
  psound2 (parse_type_system_extension fl n) (D_type_system_extension nl).
Proof.
  intros st x st' H. unfold parse_type_system_extension in H.
  pb H keyword s1 Hk. apply peek2_ok in Hk. subst s1.
  destruct (is_kind KName keyword); [|exfalso; exact (unexpected_not_ok _ _ _ _ H)]. cbv zeta in H.
  destruct (is_kw "schema" (tval keyword)); [apply parse_schema_extension_sound; exact H|].
  destruct (is_kw "scalar" (tval keyword)); [apply parse_scalar_type_extension_sound; exact H|].
  destruct (is_kw "type" (tval keyword)); [apply parse_object_type_extension_sound; exact H|].
  destruct (is_kw "interface" (tval keyword)); [apply parse_interface_type_extension_sound; exact H|].
  destruct (is_kw "union" (tval keyword)); [apply parse_union_type_extension_sound; exact H|].
  destruct (is_kw "enum" (tval keyword)); [apply parse_enum_type_extension_sound; exact H|].
  destruct (is_kw "input" (tval keyword)); [apply parse_input_object_type_extension_sound; exact H|].
  exfalso; exact (unexpected_not_ok _ _ _ _ H).
Qed.

(* ---- definitions and documents, any flag triple ---- *)
Lemma parse_definition_sound_full :
  psound2 (parse_definition fl n) (D_definition nl fv (allow_type_system fl)).
Proof.
  intros st x st' H. unfold parse_definition in H. pk H start s0 r Hr.
  assert (Hexec : forall H0 : parse_executable_definition fl n st = Ok (x, st'),
             exists ts, step st ts st' /\ D_definition nl fv (allow_type_system fl) ts x).
  { intros H0. apply parse_executable_definition_sound in H0. destruct H0 as (ts & S & D).
    exists ts. split; [exact S|constructor 1; exact D]. }
  assert (Htsd : allow_type_system fl = true -> parse_type_system_definition fl n st = Ok (x, st') ->
             exists ts, step st ts st' /\ D_definition nl fv (allow_type_system fl) ts x).
  { intros Ha H0. apply parse_type_system_definition_sound in H0. destruct H0 as (ts & S & D).
    exists ts. split; [exact S|constructor 2; assumption]. }
  destruct (is_kind KName start).
  - destruct (mem_str (tval start) (map kw executable_keywords)); [exact (Hexec H)|].
    destruct (allow_type_system fl) eqn:Ea; [|exfalso; exact (unexpected_not_ok _ _ _ _ H)].
    destruct (mem_str (tval start) (map kw schema_keywords)); [exact (Htsd eq_refl H)|].
    destruct (is_kw "extend" (tval start)); [|exfalso; exact (unexpected_not_ok _ _ _ _ H)].
    apply parse_type_system_extension_sound in H. destruct H as (ts & S & D).
    exists ts. split; [exact S|constructor 3; auto].
  - destruct (is_kind KCurlyO start); [exact (Hexec H)|].
    destruct (allow_type_system fl) eqn:Ea; simpl in H; [|exfalso; exact (unexpected_not_ok _ _ _ _ H)].
    destruct (is_string_tok start); [exact (Htsd eq_refl H)|exfalso; exact (unexpected_not_ok _ _ _ _ H)].
Qed.

Lemma definitions_loop_sound_full : forall k st xs st', definitions_loop fl n k st = Ok (xs, st') ->
  exists body eof, step st (body ++ [eof]) st' /\ tk eof = KEOF
    /\ D_list (D_definition nl fv (allow_type_system fl)) body xs /\ xs <> [].
Proof.
  induction k as [|k IH]; intros st xs st' H; [discriminate|]. simpl in H.
  pb H d s1 Hd. apply parse_definition_sound_full in Hd. destruct Hd as (ts1 & S1 & D1).
  pb H b s2 Hs. apply skip_step in Hs. destruct Hs as [(-> & eof & S2 & Ke)|(-> & ->)].
  - apply pret_ok in H. destruct H as [-> ->].
    exists ts1, eof. split; [exact (S1 >> S2)|]. split; [exact Ke|]. split; [|discriminate].
    rewrite <- (app_nil_r ts1). constructor; [exact D1|constructor].
  - pb H ds s3 Hds. apply IH in Hds. destruct Hds as (body & eof & S3 & Ke & Dl & _).
    apply pret_ok in H. destruct H as [-> ->].
    exists (ts1 ++ body), eof. split; [rewrite <- app_assoc; exact (S1 >> S3)|].
    split; [exact Ke|]. split; [constructor; assumption|discriminate].
Qed.

Theorem parse_document_p_sound_full st d st' :
  parse_document_p fl n st = Ok (d, st') ->
  exists ts, step st ts st' /\ D_document nl fv (allow_type_system fl) ts d.
Proof.
  intros H. unfold parse_document_p in H. pk H start s0 r Hr.
  pex H sof s1 S0 Ks. pose proof (head_eq Hr S0) as E. subst sof.
  pb H defs s2 Hd. apply definitions_loop_sound_full in Hd. destruct Hd as (body & eof & S1 & Ke & Dl & Hne).
  pose proof (S0 >> S1) as S. simpl in S.
  pfin H fl start r st Hr S; [|discriminate].
  exists (start :: body ++ [eof]). split; [exact S|]. constructor; assumption.
Qed.

End SdlSound.
