(* ValuesOfCorrectType on a position of known input type against the
   declarative coercibility judgement of Spec/ValidValueSpec.v (nested lists,
   input objects, the single-item list coercion). *)
From PyGql Require Import Valid.ValidOverlap Spec.ValidValueSpec Proofs.ValidCloseProofs
     Proofs.ValidGraphProofs Proofs.ValidVarProofs Proofs.ValidPermProofs.
From Coq Require Import Lia.

Lemma dec_digits_eq : forall l acc, digits_val acc l = dec_digits acc l.
Proof. induction l as [|c l IH]; intros acc; simpl; [reflexivity|]. destruct (N.leb 48 c && N.leb c 57)%bool; auto. Qed.
Lemma dec_int_eq l : z_of_str l = dec_int l.
Proof.
  unfold z_of_str, dec_int. destruct l as [|c l]; [reflexivity|].
  destruct (N.eqb c 45); [destruct l; [reflexivity|rewrite dec_digits_eq; reflexivity]|apply dec_digits_eq].
Qed.

Lemma parse_literal_ok_spec k v : parse_literal_ok k v = true <-> scalar_literal k v.
Proof.
  split.
  - destruct k, v; simpl; intros H; try discriminate; try (constructor; fail).
    unfold int_ok in H. rewrite dec_int_eq in H. destruct (dec_int s) as [z|] eqn:E; [|discriminate].
    apply andb_prop in H. destruct H as [H1 H2]. apply Z.leb_le in H1. apply Z.leb_le in H2.
    econstructor; [exact E|]. lia.
  - intros H. inversion H; subst; simpl; try reflexivity.
    unfold int_ok. rewrite dec_int_eq. match goal with E : dec_int _ = Some _ |- _ => rewrite E end.
    apply andb_true_intro. split; apply Z.leb_le; lia.
Qed.

Definition atomic (v : value) : Prop :=
  match v with VVar _ _ | VNull _ | VList _ _ => False | _ => True end.

Lemma coercible_atomic s v : atomic v -> forall t, coercible s t v <-> coercible s (RNamed (unwrap t)) v.
Proof.
  intros Ha. induction t as [n|t' IH|t' IH]; simpl; [tauto| |].
  - rewrite <- IH. split.
    + intros H. inversion H; subst; simpl in Ha; try contradiction. assumption.
    + intros H. apply co_single; [destruct v; simpl in *; tauto|exact H].
  - rewrite <- IH. split.
    + intros H. inversion H; subst; simpl in Ha; try contradiction. assumption.
    + intros H. apply co_nonnull; [destruct v; simpl in *; tauto|exact H].
Qed.

Lemma coercible_nonnull s t v : not_null_lit v -> (coercible s (RNonNull t) v <-> coercible s t v).
Proof.
  intros Hn. split.
  - intros H. inversion H; subst; [constructor|assumption].
  - intros H. apply co_nonnull; assumption.
Qed.

Lemma check_scalar_nil s t v :
  check_scalar s (Some t) v = [] <->
  exists k, lookup_type s (unwrap t) = Some (TScalar k) /\ parse_literal_ok k v = true.
Proof.
  unfold check_scalar. destruct (lookup_type s (unwrap t)) as [[k| | | | |]|]; try (split; [discriminate|intros [k' [E _]]; discriminate]).
  destruct (parse_literal_ok k v) eqn:Hp.
  - split; [intros _; eauto|reflexivity].
  - split; [discriminate|]. intros [k' [E P]]. inversion E; subst. congruence.
Qed.

Lemma coercible_named_scalar s n v :
  match v with VInt _ _ | VFloat _ _ | VString _ _ _ | VBool _ _ => True | _ => False end ->
  (coercible s (RNamed n) v <-> exists k, lookup_type s n = Some (TScalar k) /\ scalar_literal k v).
Proof.
  intros Hv. split.
  - intros H. inversion H; subst; simpl in Hv; try contradiction. eauto.
  - intros [k [E P]]. eapply co_scalar; eassumption.
Qed.

Lemma check_value_enum s t e l :
  check_value s (Some t) (VEnum e l) =
  match lookup_type s (unwrap t) with
  | Some (TEnum vals) => if mem_str e vals then [] else [mk 22 l]
  | _ => check_scalar s (Some t) (VEnum e l)
  end.
Proof. reflexivity. Qed.

Lemma check_value_list s ity vs l :
  check_value s ity (VList vs l) =
  (match ity with
   | None => []
   | Some t => match nullable t with RList _ => [] | _ => [mk 22 l] end
   end) ++ flat_map (check_value s (item_type s ity)) vs.
Proof. simpl. rewrite (go_is_flat_map (check_value s (item_type s ity)) vs). reflexivity. Qed.

Definition field_errs (s : schema) (ity : option tref) (f : name * value * loc) : list viol :=
  (match fst (obj_field_slot s ity (n_val (fst (fst f)))) with None => [mk 22 (snd f)] | Some _ => [] end)
  ++ check_value s (fst (obj_field_slot s ity (n_val (fst (fst f))))) (snd (fst f)).

Lemma check_value_obj s t fs l :
  check_value s (Some t) (VObject fs l) =
  match lookup_type s (unwrap t) with
  | Some (TInput defs) =>
      map (fun _ => mk 22 l)
          (filter (fun fd => sarg_required fd
                             && negb (mem_str (sa_name fd) (map (fun f => n_val (fst (fst f))) fs))) defs)
      ++ flat_map (field_errs s (Some t)) fs
  | _ => [mk 22 l]
  end.
Proof.
  Local Opaque obj_field_slot.
  simpl. destruct (lookup_type s (unwrap t)) as [[| | | | |defs]|]; try reflexivity. f_equal.
  induction fs as [|[[n x] fl] fs IH]; simpl; [reflexivity|]. unfold field_errs at 1. simpl.
  rewrite <- app_assoc. f_equal. f_equal. exact IH.
  Local Transparent obj_field_slot.
Qed.

Lemma wf_nonnull_inv t : wf_tref (RNonNull t) -> wf_tref t /\ forall t', t <> RNonNull t'.
Proof. destruct t; simpl; intros H; try contradiction; split; auto; congruence. Qed.

Lemma check_value_nonnull s t v :
  (forall t', t <> RNonNull t') -> not_null_lit v ->
  check_value s (Some (RNonNull t)) v = check_value s (Some t) v.
Proof.
  intros Ht Hn. destruct v; simpl in Hn; try contradiction; try reflexivity.
  rewrite !check_value_list. simpl. destruct t; try reflexivity. exfalso. eapply Ht. reflexivity.
Qed.

Theorem check_value_spec s :
  wf_inputs s ->
  forall v t, is_input_type s t = true -> wf_tref t ->
              (check_value s (Some t) v = [] <-> coercible s t v).
Proof.
  intros Hwfs.
  induction v as [n l|y l|y l|y b l|b l|l|y l|vs l IH|fs l IH] using value_ind'; intros t Hin Hwf.
  - simpl. split; [intros _; constructor|reflexivity].
  - change (check_value s (Some t) (VInt y l)) with (check_scalar s (Some t) (VInt y l)).
    rewrite check_scalar_nil, (coercible_atomic s (VInt y l) I t), (coercible_named_scalar s _ (VInt y l) I).
    split; intros [k [E P]]; exists k; (split; [exact E|]); apply parse_literal_ok_spec; exact P.
  - change (check_value s (Some t) (VFloat y l)) with (check_scalar s (Some t) (VFloat y l)).
    rewrite check_scalar_nil, (coercible_atomic s (VFloat y l) I t), (coercible_named_scalar s _ (VFloat y l) I).
    split; intros [k [E P]]; exists k; (split; [exact E|]); apply parse_literal_ok_spec; exact P.
  - change (check_value s (Some t) (VString y b l)) with (check_scalar s (Some t) (VString y b l)).
    rewrite check_scalar_nil, (coercible_atomic s (VString y b l) I t), (coercible_named_scalar s _ (VString y b l) I).
    split; intros [k [E P]]; exists k; (split; [exact E|]); apply parse_literal_ok_spec; exact P.
  - change (check_value s (Some t) (VBool b l)) with (check_scalar s (Some t) (VBool b l)).
    rewrite check_scalar_nil, (coercible_atomic s (VBool b l) I t), (coercible_named_scalar s _ (VBool b l) I).
    split; intros [k [E P]]; exists k; (split; [exact E|]); apply parse_literal_ok_spec; exact P.
  - (* null *)
    simpl. destruct t as [n|e|t'].
    + split; [intros _; constructor|reflexivity].
    + split; [intros _; constructor|reflexivity].
    + split; [discriminate|]. intros H. inversion H; subst. simpl in *. contradiction.
  - (* enum *)
    rewrite check_value_enum. rewrite (coercible_atomic s (VEnum y l) I t).
    destruct (lookup_type s (unwrap t)) as [[k| | | |vals|]|] eqn:El.
    + rewrite check_scalar_nil. rewrite El. split.
      * intros [k' [E P]]. inversion E; subst. eapply co_scalar; [exact El|apply parse_literal_ok_spec; exact P].
      * intros H. inversion H; subst; try congruence. exists k. split; [reflexivity|].
        apply parse_literal_ok_spec. match goal with E : lookup_type _ _ = Some (TScalar _) |- _ => rewrite El in E; inversion E; subst end. assumption.
    + unfold check_scalar. rewrite El. split; [discriminate|]. intros H. inversion H; subst; congruence.
    + unfold check_scalar. rewrite El. split; [discriminate|]. intros H. inversion H; subst; congruence.
    + unfold check_scalar. rewrite El. split; [discriminate|]. intros H. inversion H; subst; congruence.
    + destruct (mem_str y vals) eqn:Hm.
      * split; [intros _|reflexivity]. eapply co_enum; [exact El|apply mem_str_In; exact Hm].
      * split; [discriminate|]. intros H. inversion H; subst; try congruence.
        match goal with E : lookup_type _ _ = Some (TEnum _) |- _ => rewrite El in E; inversion E; subst end.
        match goal with Hi : In y _ |- _ => apply mem_str_In in Hi; congruence end.
    + unfold check_scalar. rewrite El. split; [discriminate|]. intros H. inversion H; subst; congruence.
    + unfold check_scalar. rewrite El. split; [discriminate|]. intros H. inversion H; subst; congruence.
  - (* list *)
    assert (Hbase : forall t0, (forall t', t0 <> RNonNull t') -> is_input_type s t0 = true -> wf_tref t0 ->
              (check_value s (Some t0) (VList vs l) = [] <-> coercible s t0 (VList vs l))).
    { intros t0 Hnn Hin0 Hwf0. rewrite check_value_list. destruct t0 as [n|e|t'].
      - simpl. split; [discriminate|]. intros H. inversion H; subst.
        match goal with P : scalar_literal _ (VList _ _) |- _ => inversion P end.
      - simpl nullable. simpl app.
        assert (Hie : is_input_type s e = true) by exact Hin0.
        rewrite Hie, flat_map_nil_iff. rewrite Forall_forall in IH. split.
        + intros H. apply co_list. apply Forall_forall. intros x Hx.
          apply (IH x Hx e); [exact Hin0|exact Hwf0|apply H; exact Hx].
        + intros H x Hx. inversion H; subst.
          * match goal with F : Forall _ vs |- _ => rewrite Forall_forall in F;
              apply (IH x Hx e); [exact Hin0|exact Hwf0|apply F; exact Hx] end.
          * match goal with S : single_item (VList _ _) |- _ => simpl in S; contradiction end.
      - exfalso. eapply Hnn. reflexivity. }
    destruct t as [n|e|t'].
    + apply Hbase; [congruence|exact Hin|exact Hwf].
    + apply Hbase; [congruence|exact Hin|exact Hwf].
    + destruct (wf_nonnull_inv _ Hwf) as [Hwf' Hnn].
      rewrite (check_value_nonnull s t' (VList vs l) Hnn I), (coercible_nonnull s t' (VList vs l) I).
      apply Hbase; [exact Hnn|exact Hin|exact Hwf'].
  - (* object *)
    rewrite check_value_obj, (coercible_atomic s (VObject fs l) I t).
    destruct (lookup_type s (unwrap t)) as [[| | | | |defs]|] eqn:El;
      try (split; [discriminate|intros H; inversion H; subst; try congruence;
           match goal with P : scalar_literal _ (VObject _ _) |- _ => inversion P end]).
    assert (Hfield : forall f, In f fs ->
              (field_errs s (Some t) f = [] <->
               exists fd, find_arg (n_val (fst (fst f))) defs = Some fd /\ coercible s (sa_type fd) (snd (fst f)))).
    { intros f Hf. unfold field_errs, obj_field_slot. rewrite El.
      destruct (find_arg (n_val (fst (fst f))) defs) as [fd|] eqn:Ef.
      - assert (Hfd : In fd defs) by (apply find_some in Ef; tauto).
        destruct (Hwfs _ _ _ El Hfd) as [Hi Hw]. unfold in_filter. rewrite Hi. simpl.
        rewrite Forall_forall in IH. rewrite (IH f Hf (sa_type fd) Hi Hw).
        split; [intros H; exists fd; tauto|intros [fd' [E H]]; inversion E; subst; exact H].
      - simpl. split; [discriminate|intros [fd [E _]]; discriminate]. }
    split.
    + intros H. apply app_eq_nil in H. destruct H as [Hreq Hfs].
      apply map_eq_nil in Hreq. rewrite flat_map_nil_iff in Hfs.
      eapply co_object; [exact El| |].
      * intros fd Hfd Hr.
        destruct (mem_str (sa_name fd) (map (fun f => n_val (fst (fst f))) fs)) eqn:Hm.
        -- apply mem_str_In in Hm. apply in_map_iff in Hm. destruct Hm as [f [E Hf]]. exists f. tauto.
        -- exfalso. assert (Hin' : In fd (filter (fun fd => sarg_required fd
                     && negb (mem_str (sa_name fd) (map (fun f => n_val (fst (fst f))) fs))) defs)).
           { apply filter_In. split; [exact Hfd|]. rewrite Hr, Hm. reflexivity. }
           rewrite Hreq in Hin'. destruct Hin'.
      * apply Forall_forall. intros f Hf. apply (Hfield f Hf). apply Hfs. exact Hf.
    + intros H. inversion H; subst; try congruence.
      match goal with E : lookup_type _ _ = Some (TInput ?d0) |- _ =>
        rewrite El in E; injection E as Hd; subst d0 end.
      assert (Hreq : filter (fun fd => sarg_required fd
                 && negb (mem_str (sa_name fd) (map (fun f => n_val (fst (fst f))) fs))) defs = []).
      { destruct (filter _ defs) as [|fd rest] eqn:Hf; [reflexivity|exfalso].
        assert (Hin' : In fd (fd :: rest)) by (left; reflexivity). rewrite <- Hf in Hin'.
        apply filter_In in Hin'. destruct Hin' as [Hfd Hb]. apply andb_prop in Hb. destruct Hb as [Hr Hm].
        match goal with R : forall fd, In fd defs -> _ |- _ => destruct (R fd Hfd Hr) as [f [Hff Hn]] end.
        apply Bool.negb_true_iff in Hm.
        assert (Hmt : mem_str (sa_name fd) (map (fun f => n_val (fst (fst f))) fs) = true).
        { apply mem_str_In. apply in_map_iff. exists f. tauto. }
        congruence. }
      assert (Hfs : flat_map (field_errs s (Some t)) fs = []).
      { apply flat_map_nil_iff. intros f Hf. apply (Hfield f Hf).
        match goal with F : Forall _ fs |- _ => rewrite Forall_forall in F; apply F; exact Hf end. }
      rewrite Hreq, Hfs. reflexivity.
Qed.
