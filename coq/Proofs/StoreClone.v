(* C14 -- proofs about the store model, part 5: Schema.clone (after fixes
   C14-01 and C14-03) builds a schema that owns all its objects. *)
From PyGql Require Import Spec.StoreSpec Proofs.StoreProofs Proofs.StoreHeal Proofs.StoreLoop
     Proofs.StoreFrame.
Local Open Scope N_scope.

Section Clone.
Variable n0 : oid.

Definition pres (m m' : mem) : Prop := forall x v, mget m x = Some v -> mget m' x = Some v.
Record grow (m m' : mem) : Prop := MkGrow {
  g_fresh : fresh_ok m'; g_pres : pres m m'; g_fr : fr n0 m m' }.
Definition gok (m : mem) : Prop := fresh_ok m /\ st_ok n0 m.

Lemma grow_refl m : gok m -> grow m m.
Proof. intros [Hf [Hd Hn]]. constructor; [assumption|intros x v H; exact H|apply fr_refl; assumption]. Qed.

Lemma grow_trans m m' m'' : grow m m' -> grow m' m'' -> grow m m''.
Proof.
  intros [F1 P1 R1] [F2 P2 R2]. constructor; [assumption| |eapply fr_trans; eauto].
  intros x v H. apply P2. apply P1. exact H.
Qed.

Lemma gok_grow m m' : gok m -> grow m m' -> gok m'.
Proof. intros [Hf Hs] [F P R]. split; [assumption|eapply st_ok_fr; eauto]. Qed.

Lemma alloc_grow m v : gok m -> above n0 (subs v) -> grow m (fst (alloc m v)) /\ n0 <= m_next m.
Proof.
  intros [Hf Hs] Hv. destruct (fr_alloc n0 m v Hs Hv) as (R & Hn). split; [|assumption].
  constructor; [apply fresh_alloc; assumption| |assumption].
  intros x w Hx. rewrite mget_alloc. destruct (N.eqb_spec x (m_next m)) as [->|]; [|assumption].
  rewrite (Hf (m_next m)) in Hx; [discriminate|lia].
Qed.

Lemma leaf_pres m m' x : pres m m' -> leaf m x -> leaf m' x.
Proof.
  intros Hp H. unfold leaf in *. destruct (mget m x) as [v|] eqn:Hg; [|contradiction].
  rewrite (Hp x v Hg). exact H.
Qed.
Lemma Forall_leaf_pres m m' l : pres m m' -> Forall (leaf m) l -> Forall (leaf m') l.
Proof. intros Hp. apply Forall_impl. intros a. apply leaf_pres; assumption. Qed.

Lemma field_typed_pres m m' f : pres m m' -> field_typed m f -> field_typed m' f.
Proof.
  intros Hp H. unfold field_typed in *. destruct (mget m f) as [v|] eqn:Hg; [|contradiction].
  rewrite (Hp f v Hg). destruct v; try contradiction. eapply Forall_leaf_pres; eauto.
Qed.

Lemma type_typed_pres m m' t : pres m m' -> type_typed m t -> type_typed m' t.
Proof.
  intros Hp H. unfold type_typed in *. destruct (mget m t) as [v|] eqn:Hg; [|contradiction].
  rewrite (Hp t v Hg). destruct v; try contradiction.
  destruct k; auto; try (eapply Forall_leaf_pres; eauto; fail);
    (eapply Forall_impl; [|exact H]; intros a; apply field_typed_pres; assumption).
Qed.

Lemma dir_typed_pres m m' t : pres m m' -> dir_typed m t -> dir_typed m' t.
Proof.
  intros Hp H. unfold dir_typed in *. destruct (mget m t) as [v|] eqn:Hg; [|contradiction].
  rewrite (Hp t v Hg). destruct v; try contradiction. eapply Forall_leaf_pres; eauto.
Qed.

Lemma copy_all_grow : forall l m m' r,
  gok m -> Forall (leaf m) l -> copy_all m l = (m', r) -> grow m m' /\ above n0 r.
Proof.
  induction l as [|a l IH]; intros m m' r Hg Hl H; simpl in H.
  - inversion H; subst. split; [apply grow_refl; assumption|constructor].
  - inversion Hl as [|? ? Ha Hl']; subst. unfold leaf in Ha.
    destruct (mget m a) as [v|] eqn:Hv; [|contradiction].
    assert (Hsub : above n0 (subs v)) by (destruct v; try contradiction; constructor).
    destruct (alloc_grow m v Hg Hsub) as (G1 & Hn). unfold alloc in H, G1. simpl in G1.
    match type of H with (let (m2, r0) := copy_all ?m1 l in _) = _ =>
      destruct (copy_all m1 l) as [m2 r2] eqn:Hc end.
    inversion H; subst m' r.
    destruct (IH _ _ _ (gok_grow _ _ Hg G1) (Forall_leaf_pres _ _ _ (g_pres _ _ G1) Hl') Hc) as (G2 & A2).
    split; [eapply grow_trans; eauto|constructor; assumption].
Qed.

Lemma clone_field_grow m f m' r :
  gok m -> field_typed m f -> clone_field m f = (m', r) -> grow m m' /\ above n0 r.
Proof.
  intros Hg Hf H. unfold clone_field in H. unfold field_typed in Hf.
  destruct (mget m f) as [[|n py ty args d dp rs sb ds| | |]|]; try contradiction.
  destruct (copy_all m args) as [m1 args'] eqn:Hc.
  destruct (copy_all_grow _ _ _ _ Hg Hf Hc) as (G1 & A1).
  destruct (alloc_grow m1 (OField n py ty args' d dp rs sb ds) (gok_grow _ _ Hg G1) A1) as (G2 & Hn).
  unfold alloc in H, G2. simpl in G2. inversion H; subst.
  split; [eapply grow_trans; eauto|constructor; [assumption|constructor]].
Qed.

Lemma clone_fields_grow : forall l m m' r,
  gok m -> Forall (field_typed m) l -> clone_fields m l = (m', r) -> grow m m' /\ above n0 r.
Proof.
  induction l as [|f l IH]; intros m m' r Hg Hl H; simpl in H.
  - inversion H; subst. split; [apply grow_refl; assumption|constructor].
  - inversion Hl as [|? ? Hf Hl']; subst.
    destruct (clone_field m f) as [m1 r1] eqn:H1. destruct (clone_fields m1 l) as [m2 r2] eqn:H2.
    inversion H; subst. destruct (clone_field_grow _ _ _ _ Hg Hf H1) as (G1 & A1).
    assert (Hl1 : Forall (field_typed m1) l).
    { eapply Forall_impl; [|exact Hl']. intros a. apply field_typed_pres. exact (g_pres _ _ G1). }
    destruct (IH _ _ _ (gok_grow _ _ Hg G1) Hl1 H2) as (G2 & A2).
    split; [eapply grow_trans; eauto|apply Forall_app; split; assumption].
Qed.

Lemma clone_type_grow m t m' r :
  gok m -> type_typed m t -> clone_type m t = (m', r) ->
  grow m m' /\ exists y, r = Some y /\ n0 <= y.
Proof.
  intros Hg Ht H. unfold clone_type in H. unfold type_typed in Ht.
  destruct (mget m t) as [[n k d ms ifs rs ds| | | |]|]; try contradiction.
  assert (Hm : exists m1 ms', (match k with
                               | Kobject | Kinterface => clone_fields m ms
                               | Kinput | Kenum => copy_all m ms
                               | _ => (m, ms)
                               end) = (m1, ms') /\ grow m m1 /\ above n0 ms').
  { destruct k.
    - exists m, ms. subst ms. split; [reflexivity|]. split; [apply grow_refl; assumption|constructor].
    - destruct (clone_fields m ms) as [m1 ms'] eqn:E. exists m1, ms'.
      destruct (clone_fields_grow _ _ _ _ Hg Ht E). split; [reflexivity|]. split; assumption.
    - destruct (clone_fields m ms) as [m1 ms'] eqn:E. exists m1, ms'.
      destruct (clone_fields_grow _ _ _ _ Hg Ht E). split; [reflexivity|]. split; assumption.
    - exists m, ms. subst ms. split; [reflexivity|]. split; [apply grow_refl; assumption|constructor].
    - destruct (copy_all m ms) as [m1 ms'] eqn:E. exists m1, ms'.
      destruct (copy_all_grow _ _ _ _ Hg Ht E). split; [reflexivity|]. split; assumption.
    - destruct (copy_all m ms) as [m1 ms'] eqn:E. exists m1, ms'.
      destruct (copy_all_grow _ _ _ _ Hg Ht E). split; [reflexivity|]. split; assumption. }
  destruct Hm as (m1 & ms' & E & G1 & A1). rewrite E in H.
  destruct (alloc_grow m1 (OType n k d ms' ifs rs ds) (gok_grow _ _ Hg G1) A1) as (G2 & Hn).
  unfold alloc in H, G2. simpl in G2. inversion H; subst.
  split; [eapply grow_trans; eauto|]. exists (m_next m1). split; [reflexivity|assumption].
Qed.

Lemma clone_dir_grow m t m' r :
  gok m -> dir_typed m t -> clone_dir m t = (m', r) ->
  grow m m' /\ exists y, r = Some y /\ n0 <= y.
Proof.
  intros Hg Ht H. unfold clone_dir in H. unfold dir_typed in Ht.
  destruct (mget m t) as [[| | | |n ds locs args]|]; try contradiction.
  destruct (copy_all m args) as [m1 args'] eqn:Hc.
  destruct (copy_all_grow _ _ _ _ Hg Ht Hc) as (G1 & A1).
  destruct (alloc_grow m1 (ODir n ds locs args') (gok_grow _ _ Hg G1) A1) as (G2 & Hn).
  unfold alloc in H, G2. simpl in G2. inversion H; subst.
  split; [eapply grow_trans; eauto|]. exists (m_next m1). split; [reflexivity|assumption].
Qed.

Lemma clone_entries_grow (c : mem -> oid -> mem * option oid) skip (P : mem -> oid -> Prop) :
  (forall m o m' r, gok m -> P m o -> c m o = (m', r) -> grow m m' /\ exists y, r = Some y /\ n0 <= y) ->
  (forall m m' o, pres m m' -> P m o -> P m' o) ->
  forall l m m' ups, gok m -> (forall n o, In (n, o) l -> skip o = false -> P m o) ->
    clone_entries c skip m l = (m', ups) ->
    grow m m' /\ ups_above n0 ups /\
    (forall n o, In (n, o) l -> skip o = false -> exists y, In (n, Some y) ups) /\
    (forall n r, In (n, r) ups -> r <> None).
Proof.
  intros Hc Hp. induction l as [|[n o] l IH]; intros m m' ups Hg Hl H; simpl in H.
  - inversion H; subst. split; [apply grow_refl; assumption|]. split; [intros ? ? []|]. split; [intros ? ? []|intros ? ? []].
  - destruct (skip o) eqn:Hsk.
    + destruct (IH _ _ _ Hg (fun n1 o1 Hin => Hl n1 o1 (or_intror Hin)) H) as (G & U & K & NN).
      split; [assumption|]. split; [assumption|]. split; [|exact NN].
      intros n1 o1 [Heq|Hin] Hs1; [inversion Heq; subst; congruence|eauto].
    + destruct (c m o) as [m1 r] eqn:E1. destruct (clone_entries c skip m1 l) as [m2 ups'] eqn:E2.
      inversion H; subst m' ups; clear H.
      destruct (Hc _ _ _ _ Hg (Hl n o (or_introl eq_refl) Hsk) E1) as (G1 & y & -> & Hy).
      assert (Hl1 : forall n1 o1, In (n1, o1) l -> skip o1 = false -> P m1 o1).
      { intros n1 o1 Hin Hs1. eapply Hp; [exact (g_pres _ _ G1)|]. apply (Hl n1 o1); [right; assumption|assumption]. }
      destruct (IH _ _ _ (gok_grow _ _ Hg G1) Hl1 E2) as (G2 & U2 & K2 & N2).
      split; [eapply grow_trans; eauto|]. split; [|split].
      * intros n1 y1 [Heq|Hin]; [inversion Heq; subst; assumption|eapply U2; eauto].
      * intros n1 o1 [Heq|Hin] Hs1.
        -- inversion Heq; subst. exists y. left; reflexivity.
        -- destruct (K2 n1 o1 Hin Hs1) as (y1 & Hy1). exists y1. right; assumption.
      * intros n1 r [Heq|Hin]; [inversion Heq; subst; discriminate|eapply N2; eauto].
Qed.

(* replacing: every entry is builtin, above the watermark, or still has a
   pending update *)
Lemma alookup_none_notin {A} n (tm : list (str * A)) o : alookup n tm = None -> ~ In (n, o) tm.
Proof.
  induction tm as [|[k v] tm IH]; simpl; [auto|].
  destruct (str_eqb_spec n k) as [->|Hne]; [discriminate|].
  intros H [Heq|Hin]; [inversion Heq; congruence|apply (IH H Hin)].
Qed.

Lemma replace_types_cover m : forall ups tm b tm' b',
  NoDup (map fst tm) ->
  (forall n o, In (n, o) tm -> is_builtin o = true \/ n0 <= o \/ exists y, In (n, Some y) ups) ->
  ups_above n0 ups -> (forall n r, In (n, r) ups -> r <> None) ->
  replace_types m ups tm b = Ok (tm', b') -> owned n0 tm'.
Proof.
  induction ups as [|[n nw] ups IH]; intros tm b tm' b' Hnd Hc Hu Hsome H; simpl in H.
  - inversion H; subst. intros n o Hin. destruct (Hc n o Hin) as [Hb|[Ha|(y & [])]]; auto.
  - assert (Hu' : ups_above n0 ups) by (intros n1 y Hin; eapply Hu; right; eauto).
    assert (Hsome' : forall n1 r, In (n1, r) ups -> r <> None) by (intros n1 r Hin; eapply Hsome; right; eauto).
    destruct nw as [o|]; [|exfalso; eapply Hsome; [left; reflexivity|reflexivity]].
    destruct (alookup n tm) as [orig|] eqn:Hl.
    + destruct (is_builtin orig); [discriminate|].
      destruct (tkind m orig); [|discriminate]. destruct (tkind m o); [|discriminate].
      destruct (kind_eqb k k0); [|discriminate].
      eapply IH; [apply aset_nodup; exact Hnd| |exact Hu'|exact Hsome'|exact H].
      intros n1 o1 Hin. apply aset_in in Hin. destruct Hin as [[-> ->]|[Hin Hne]].
      * right; left. eapply Hu; left; reflexivity.
      * destruct (Hc n1 o1 Hin) as [Hb|[Ha|(y & [Heq|Hy])]]; auto.
        -- inversion Heq; subst. exfalso. apply (Hne Hnd). reflexivity.
        -- right; right. exists y; assumption.
    + eapply IH; [exact Hnd| |exact Hu'|exact Hsome'|exact H].
      intros n1 o1 Hin. destruct (Hc n1 o1 Hin) as [Hb|[Ha|(y & [Heq|Hy])]]; auto.
      * inversion Heq; subst. exfalso. eapply alookup_none_notin; eauto.
      * right; right. exists y; assumption.
Qed.

Lemma replace_dirs_cover : forall ups dm dm',
  NoDup (map fst dm) ->
  (forall n o, In (n, o) dm -> n0 <= o \/ exists y, In (n, Some y) ups) ->
  ups_above n0 ups -> (forall n r, In (n, r) ups -> r <> None) ->
  replace_dirs ups dm = Ok dm' -> owned_all n0 dm'.
Proof.
  induction ups as [|[n nw] ups IH]; intros dm dm' Hnd Hc Hu Hsome H; simpl in H.
  - inversion H; subst. intros n o Hin. destruct (Hc n o Hin) as [Ha|(y & [])]; auto.
  - assert (Hu' : ups_above n0 ups) by (intros n1 y Hin; eapply Hu; right; eauto).
    assert (Hsome' : forall n1 r, In (n1, r) ups -> r <> None) by (intros n1 r Hin; eapply Hsome; right; eauto).
    destruct nw as [o|]; [|exfalso; eapply Hsome; [left; reflexivity|reflexivity]].
    eapply IH; [apply aset_nodup; exact Hnd| |exact Hu'|exact Hsome'|exact H].
    intros n1 o1 Hin. apply aset_in in Hin. destruct Hin as [[-> ->]|[Hin Hne]].
    + left. eapply Hu; left; reflexivity.
    + destruct (Hc n1 o1 Hin) as [Ha|(y & [Heq|Hy])]; auto.
      * inversion Heq; subst. exfalso. apply (Hne Hnd). reflexivity.
      * right. exists y; assumption.
Qed.


Lemma heal_from_fr fuel m s m' s' :
  st_ok n0 m -> own_schema n0 s -> heal_from fuel m s = Ok (m', s') -> fr n0 m m' /\ own_schema n0 s'.
Proof.
  intros Hs Hos H. unfold heal_from in H.
  destruct (traverse (heal_visitor (s_types s)) m s) as [[[m1 tu] du]|] eqn:Ht; [|discriminate].
  destruct (traverse_fr n0 _ m s m1 tu du (heal_visitor_fr n0 _) Hs (os_types _ s Hos) (os_dirs _ s Hos) Ht) as (F1 & U1 & U2).
  destruct (replace_and_heal_fr n0 _ _ _ _ _ _ _ (st_ok_fr _ _ _ Hs F1) Hos U1 U2 H) as (F2 & Hos').
  split; [eapply fr_trans; eauto|assumption].
Qed.

End Clone.

(* ---------------------------------------------------------------- build *)
Lemma alookup_none_key {A} n (tm : list (str * A)) : alookup n tm = None -> ~ In n (map fst tm).
Proof.
  intros H Hin. apply in_map_iff in Hin. destruct Hin as ([k v] & Hk & Hin). simpl in Hk; subst k.
  eapply alookup_none_notin; eauto.
Qed.

Lemma nodup_snoc {A} (l : list A) x : NoDup l -> ~ In x l -> NoDup (l ++ [x]).
Proof.
  induction l as [|a l IH]; simpl; intros Hnd Hx.
  - constructor; [intros []|constructor].
  - inversion Hnd; subst. constructor.
    + intros Hin. apply in_app_or in Hin. destruct Hin as [Hin|[Heq|[]]]; [contradiction|subst; apply Hx; left; reflexivity].
    + apply IH; [assumption|intros Hin; apply Hx; right; assumption].
Qed.

Lemma is_builtin_in o : is_builtin o = true -> exists n, In (n, o) builtin_types.
Proof.
  unfold is_builtin. intros H. apply andb_true_iff in H. destruct H as [H1 H2].
  apply N.leb_le in H1. apply N.leb_le in H2.
  assert (Hc : o = 1 \/ o = 2 \/ o = 3 \/ o = 4 \/ o = 5) by lia.
  destruct Hc as [ -> | [ -> | [ -> | [ -> | -> ] ] ] ]; eexists; simpl; eauto 10.
Qed.

Section BuildSub.
Variables (m : mem) (s : schema).
Hypothesis Hb : builtins_ok m.
Hypothesis Hcl : closed m s.
Hypothesis Hwf : wf_schema m s.

Lemma build_map_sub : forall fuel stack tm tm',
  (forall c, In c stack -> exists n, In (n, c) (s_types s)) ->
  (forall e, In e tm -> In e (s_types s)) -> NoDup (map fst tm) ->
  build_map fuel m stack tm = Ok tm' ->
  (forall e, In e tm' -> In e (s_types s)) /\ NoDup (map fst tm').
Proof.
  induction fuel as [|fuel IH]; intros stack tm tm' Hst Htm Hnd H; simpl in H; [discriminate|].
  destruct stack as [|o rest]; [inversion H; subst; split; assumption|].
  destruct (tname m o) as [n|] eqn:Hn; [|discriminate].
  destruct (alookup n tm) as [o'|] eqn:Hl.
  - destruct (N.eqb o o'); [|discriminate]. eapply IH; [|exact Htm|exact Hnd|exact H]. intros c Hc. apply Hst. right; assumption.
  - destruct (Hst o (or_introl eq_refl)) as (n' & Hin).
    pose proof (wf_names _ _ Hwf _ _ Hin) as Hn'. rewrite Hn in Hn'. inversion Hn'; subst n'.
    eapply IH; [| | |exact H].
    + intros c Hc. apply in_app_or in Hc. destruct Hc as [Hc|Hc]; [|apply Hst; right; assumption].
      destruct (is_builtin o) eqn:Hbi.
      * destruct (is_builtin_in o Hbi) as (nb & Hnb). rewrite (builtin_children m Hb nb o Hnb) in Hc. destruct Hc.
      * pose proof (cl_types _ _ Hcl) as Hty. rewrite Forall_forall in Hty. specialize (Hty _ Hin Hbi).
        unfold type_ok in Hty. rewrite Forall_forall in Hty. destruct (Hty c Hc) as (nc & _ & Hlc).
        exists nc. apply alookup_In. assumption.
    + intros e He. apply in_app_or in He. destruct He as [He|[<-|[]]]; auto.
    + rewrite map_app. simpl. apply nodup_snoc; [assumption|apply alookup_none_key; assumption].
Qed.

Lemma build_dirs_sub : forall ds dm dm',
  (forall d, In d ds -> exists n, In (n, d) (s_dirs s)) ->
  (forall e, In e dm -> In e (s_dirs s)) -> NoDup (map fst dm) ->
  build_dirs m ds dm = Ok dm' ->
  (forall e, In e dm' -> In e (s_dirs s)) /\ NoDup (map fst dm').
Proof.
  induction ds as [|d ds IH]; intros dm dm' Hds Hdm Hnd H; simpl in H; [inversion H; subst; split; assumption|].
  destruct (dname m d) as [n|] eqn:Hn; [|discriminate].
  destruct (alookup n dm) as [d'|] eqn:Hl.
  - destruct (N.eqb d d'); [|discriminate]. eapply IH; [|exact Hdm|exact Hnd|exact H]. intros c Hc. apply Hds. right; assumption.
  - destruct (Hds d (or_introl eq_refl)) as (n' & Hin).
    pose proof (wf_dnames _ _ Hwf _ _ Hin) as Hn'. rewrite Hn in Hn'. inversion Hn'; subst n'.
    eapply IH; [| | |exact H].
    + intros c Hc. apply Hds. right; assumption.
    + intros e He. apply in_app_or in He. destruct He as [He|[<-|[]]]; auto.
    + rewrite map_app. simpl. apply nodup_snoc; [assumption|apply alookup_none_key; assumption].
Qed.
End BuildSub.

(* ---------------------------------------------------------------- clone *)
Definition wf_builtins (s : schema) : Prop := forall e, In e builtin_types -> In e (s_types s).

Lemma builtin_nodup : NoDup (map fst builtin_types).
Proof. vm_compute. repeat constructor; simpl; intuition congruence. Qed.

Lemma reg_in m tm c : reg m tm c -> exists n, In (n, c) tm.
Proof. intros (n & _ & Hl). exists n. apply alookup_In. assumption. Qed.

Lemma root_in m tm r c : root_ok m tm r -> In c (otolist r) -> exists n, In (n, c) tm.
Proof. destruct r as [o|]; simpl; [|intros _ []]. intros Hr [<-|[]]. eapply reg_in; eauto. Qed.

Theorem clone_owned fuel m s m' s' :
  fresh_ok m -> builtins_ok m -> closed m s -> wf_schema m s -> wf_builtins s ->
  clone fuel m s = Ok (m', s') ->
  fr (m_next m) m m' /\ own_schema (m_next m) s'.
Proof.
  intros Hf Hb Hcl Hwf Hbi H. set (n0 := m_next m).
  assert (Hgok : gok n0 m).
  { split; [assumption|]. split; [|unfold n0; lia].
    intros o v Ho Hg. unfold n0 in Ho. rewrite (Hf o Ho) in Hg. discriminate. }
  unfold clone, build in H.
  destruct (build_dirs m (map snd (s_dirs s)) []) as [dm0| | |] eqn:Hbd; simpl in H; try discriminate.
  destruct (build_dirs_sub m s Hwf _ _ _
              (fun d Hd => match proj1 (in_map_iff _ _ _) Hd with
                           | ex_intro _ (n, d') (conj Heq Hin) =>
                               ex_intro _ n (eq_ind d' (fun x => In (n, x) (s_dirs s)) Hin d Heq)
                           end)
              (fun e (He : In e []) => match He with end) (NoDup_nil _) Hbd) as (Hdsub & Hdnd).
  match type of H with context [build_map fuel m ?st builtin_types] =>
    destruct (build_map fuel m st builtin_types) as [tm0| | |] eqn:Hbm; simpl in H; try discriminate;
    assert (Hst : forall c, In c st -> exists n, In (n, c) (s_types s)) end.
  { intros c Hc. apply in_app_or in Hc. destruct Hc as [Hc|Hc].
    - apply in_map_iff in Hc. destruct Hc as ([n c'] & <- & Hin). exists n; assumption.
    - apply in_app_or in Hc. destruct Hc as [Hc|Hc]; [eapply root_in; [apply (cl_query _ _ Hcl)|exact Hc]|].
      apply in_app_or in Hc. destruct Hc as [Hc|Hc]; [eapply root_in; [apply (cl_mut _ _ Hcl)|exact Hc]|].
      apply in_app_or in Hc. destruct Hc as [Hc|Hc]; [eapply root_in; [apply (cl_sub _ _ Hcl)|exact Hc]|].
      apply in_flat_map in Hc. destruct Hc as (a & Ha & Hc).
      apply in_flat_map in Ha. destruct Ha as (d & Hd & Ha).
      apply in_map_iff in Hd. destruct Hd as ([n d'] & Heq & Hin). simpl in Heq; subst d'.
      pose proof (cl_dirs _ _ Hcl) as Hdo. rewrite Forall_forall in Hdo. specialize (Hdo _ (Hdsub _ Hin)).
      unfold dir_ok in Hdo. rewrite Forall_forall in Hdo. eapply reg_in. apply Hdo.
      apply in_flat_map. exists a; split; assumption. }
  destruct (build_map_sub m s Hb Hcl Hwf _ _ _ _ Hst Hbi builtin_nodup Hbm) as (Htsub & Htnd).
  destruct (clone_entries clone_type is_builtin m (s_types s)) as [m1 tu] eqn:Hct.
  destruct (clone_entries clone_dir (fun _ => false) m1 (s_dirs s)) as [m2 du] eqn:Hcd.
  destruct (clone_entries_grow n0 clone_type is_builtin type_typed
              (clone_type_grow n0) (fun a b o Hp => type_typed_pres a b o Hp)
              _ _ _ _ Hgok (fun n o Hin Hs => wf_typed _ _ Hwf n o Hin Hs) Hct) as (G1 & U1 & K1 & N1).
  destruct (clone_entries_grow n0 clone_dir (fun _ => false) dir_typed
              (clone_dir_grow n0) (fun a b o Hp => dir_typed_pres a b o Hp)
              _ _ _ _ (gok_grow _ _ _ Hgok G1)
              (fun n o Hin _ => dir_typed_pres _ _ _ (g_pres _ _ _ G1) (wf_dtyped _ _ Hwf n o Hin)) Hcd)
    as (G2 & U2 & K2 & N2).
  pose proof (grow_trans _ _ _ _ G1 G2) as G12.
  pose proof (gok_grow _ _ _ Hgok G12) as Hgok2.
  destruct fuel as [|fuel]; [simpl in H; discriminate|].
  rewrite replace_and_heal_S in H. simpl in H.
  destruct (replace_types m2 tu tm0 false) as [[tm' b]| | |] eqn:Hrt; simpl in H; try discriminate.
  destruct (replace_dirs du dm0) as [dm'| | |] eqn:Hrd; simpl in H; try discriminate.
  assert (Ho' : owned n0 tm').
  { eapply replace_types_cover; [exact Htnd| |exact U1|exact N1|exact Hrt].
    intros n o Hin. destruct (is_builtin o) eqn:Hbo; [left; reflexivity|right; right].
    apply (K1 n o (Htsub _ Hin) Hbo). }
  assert (Hd' : owned_all n0 dm').
  { eapply replace_dirs_cover; [exact Hdnd| |exact U2|exact N2|exact Hrd].
    intros n o Hin. right. apply (K2 n o (Hdsub _ Hin) eq_refl). }
  destruct b.
  - match type of H with context [heal_from fuel m2 ?s1] =>
      destruct (heal_from fuel m2 s1) as [[m3 s3]| | |] eqn:Hh; simpl in H; try discriminate;
      destruct (heal_from_fr n0 fuel m2 s1 m3 s3 (proj2 Hgok2) (MkOwn n0 s1 Ho' Hd') Hh) as (F3 & [O3 D3]) end.
    inversion H; subst. split; [eapply fr_trans; [exact (g_fr _ _ _ G12)|exact F3]|constructor; assumption].
  - inversion H; subst. split; [exact (g_fr _ _ _ G12)|constructor; assumption].
Qed.
